/-
  Property C16 — network simplifications are electrical identities.

  Model: CC/Model/Transform.lean (mirrors Network/transformers.py literally).
  Every theorem: any network, any exemption list, any field; no bound on the number of
  shorts / opens nor on how they are arranged.
  The theorems say: every solution of the original circuit equations is a solution of the
  simplified network's circuit equations (same report: same potentials on surviving
  nodes, same voltage and current on surviving branches).  Together with uniqueness
  (C01_unique) for a well-posed result, the simplified network's solution *is* the
  original's on everything that survives.
-/
import CC.Proofs.Contract
import CC.Properties.C01
set_option linter.unusedSectionVars false

namespace CC
variable {L K : Type} [DecidableEq L] [LabelOrd L] [Field K] [DecidableEq K]

theorem mk?_ok {bs : List (Branch L K)} {z : L} {N' : Net L K} (h : Net.mk? bs z = .ok N') :
    N' = ⟨bs, z⟩ := by
  unfold Net.mk? at h
  simp only at h
  split at h
  · exact (Except.ok.inj h).symm
  · cases h

theorem mem_zip_map_self {α β : Type} (f : α → β) (l : List α) (p : α × β)
    (h : p ∈ l.zip (l.map f)) : p.2 = f p.1 := by
  induction l with
  | nil => simp at h
  | cons a l ih =>
    simp only [List.map_cons, List.zip_cons_cons, List.mem_cons] at h
    rcases h with rfl | h'
    · rfl
    · exact ih h'

/-- **C16 (short contraction).**  For any number of short-circuit branches, however they
are chained, starred, paralleled or attached to the reference node, and whatever the
exemption list: every solution of the original network solves the contracted network, and
every surviving branch keeps its identifier, type, record and orientation, its terminals
moving only between nodes that were at the same potential. -/
theorem C16_short (N N' : Net L K) (keep : List (ElemKey K)) (R : Report L K)
    (hr : removeShort N keep = .ok N') (h : CircuitEqs N R) :
    CircuitEqs N' R ∧ N'.zero = N.zero ∧
    ∀ b' ∈ N'.branches, ∃ b ∈ N.branches, b'.id = b.id ∧ b'.ty = b.ty ∧ b'.e = b.e ∧
      R.pot b'.n1 = R.pot b.n1 ∧ R.pot b'.n2 = R.pot b.n2 := by
  have hN' := mk?_ok hr
  have heq := shortPairs_equipotential N keep R h
  subst hN'
  refine ⟨?_, rfl, contractAll_survivors _ _ _ R heq⟩
  rw [← circuitEqsAll_iff]
  exact contractAll_sound _ _ _ R ((circuitEqsAll_iff N R).mpr h) heq

/-- the contracted network never contains a self-loop and never a branch the original did not have -/
theorem C16_short_no_new_branch (N N' : Net L K) (keep : List (ElemKey K))
    (hr : removeShort N keep = .ok N') : ∀ b' ∈ N'.branches, b'.id ∈ N.ids := by
  intro b' hb'
  have hN' := mk?_ok hr
  subst hN'
  obtain ⟨b, hb, hid, _⟩ := contractAll_survivors (shortPairs N keep) N.branches N.zero
    (Report.zeroRep (L := L) (K := K)) (fun _ _ => rfl) b' hb'
  exact List.mem_map.mpr ⟨b, hb, hid.symm⟩

/-- **C16 (short contraction is complete).**  Whatever the network (any number of shorts, chained,
starred, parallel, on the reference node, ids distinct or not) and whatever the exemption list: no
branch of the result is a short circuit that is not exempted — every non-exempt short of the input
was contracted, i.e. became a self-loop and was dropped.  In particular no non-exempt short is
left between two different nodes (`C16_short_complete_nodes`). -/
theorem C16_short_complete (N N' : Net L K) (keep : List (ElemKey K))
    (hr : removeShort N keep = .ok N') :
    ∀ b' ∈ N'.branches, b'.e.isShort = true → keep.contains b'.key = true := by
  have hN' := mk?_ok hr
  subst hN'
  intro b' hb' hs
  have := contractAll_complete (L := L) (fun k : ElemKey K => k.e.isShort = true ∧ keep.contains k = false)
    (shortPairs N keep) N.branches N.zero ?_ b' hb'
  · cases hk : keep.contains b'.key with
    | true => rfl
    | false => exact absurd ⟨hs, hk⟩ this
  intro b hb ⟨hsb, hkb⟩
  have hkb' : keep.contains b.key = false := hkb
  have hsb' : b.e.isShort = true := hsb
  have hf : b ∈ N.branches.filter fun b => b.e.isShort && !(keep.contains b.key) :=
    List.mem_filter.mpr ⟨hb, by rw [hsb', hkb']; rfl⟩
  unfold shortPairs
  by_cases hz : b.n1 = N.zero
  · refine Or.inr (List.mem_map.mpr ⟨b, hf, ?_⟩); simp [hz]
  · refine Or.inl (List.mem_map.mpr ⟨b, hf, ?_⟩); simp [hz]

/-- the form in which the harness checks it (`short_left_behind`): for a network with distinct
ids, no branch of the result is a non-exempt short circuit between two different nodes -/
theorem C16_short_complete_nodes (N N' : Net L K) (keep : List (ElemKey K))
    (hr : removeShort N keep = .ok N') (_hid : N.ids.Nodup) :
    ∀ b' ∈ N'.branches, ¬ (b'.e.isShort = true ∧ keep.contains b'.key = false ∧ b'.n1 ≠ b'.n2) := by
  rintro b' hb' ⟨hs, hk, _⟩
  rw [C16_short_complete N N' keep hr b' hb' hs] at hk
  cases hk

/-- **C16 (open removal).**  Removing open-circuit branches keeps every other branch as it
is (same order) and every solution of the original solves the result. -/
theorem C16_open (N N' : Net L K) (R : Report L K)
    (hr : removeOpen N = .ok N') (h : CircuitEqs N R) :
    CircuitEqs N' R ∧ N'.zero = N.zero ∧
      N'.branches = N.branches.filter (fun b => !b.e.isOpen) := by
  have hN' := mk?_ok hr
  subst hN'
  refine ⟨?_, rfl, rfl⟩
  rw [← circuitEqsAll_iff]
  have hA := (circuitEqsAll_iff N R).mpr h
  refine ⟨hA.ref_zero, fun b hb => hA.volt b (List.mem_filter.mp hb).1,
    fun b hb => hA.law b (List.mem_filter.mp hb).1, fun n => ?_⟩
  have := hA.kcl n
  unfold kclResidual at this ⊢
  simp only at this ⊢
  rw [← this, sum_filter_eq_sum_ite]
  apply congrArg; apply List.map_congr_left
  intro b hb
  by_cases ho : b.e.isOpen = true
  · -- an open branch carries no current in any solution
    have hl := hA.law b hb
    have hi : R.i b.id = 0 := by
      cases he : b.e with
      | norton Z V => rw [he] at ho; simp [Elem.isOpen] at ho
      | thevenin Y I =>
        rw [he] at ho hl
        simp only [Elem.isOpen, Bool.and_eq_true, decide_eq_true_eq] at ho
        simpa [Elem.lawResidual, ho.1, ho.2] using hl
    have hp : b.e.physCurrent (R.i b.id) = 0 := by
      unfold Elem.physCurrent; rw [hi]; simp
    simp [ho, hp]
  · simp [ho]

/-- a report with all potentials shifted by a constant -/
def Report.shift (R : Report L K) (c : K) : Report L K := { R with pot := fun n => R.pot n - c }

/-- **C16 / C03 (re-referencing).**  Choosing another reference node shifts all potentials
by one common constant and changes nothing else. -/
theorem C16_switch_ground (N N' : Net L K) (g : L) (R : Report L K)
    (hr : switchGround N g = .ok N') (h : CircuitEqs N R) :
    CircuitEqs N' (R.shift (R.pot g)) ∧ N'.branches = N.branches ∧ N'.zero = g := by
  have hN' := mk?_ok hr
  subst hN'
  refine ⟨?_, rfl, rfl⟩
  rw [← circuitEqsAll_iff]
  have hA := (circuitEqsAll_iff N R).mpr h
  refine ⟨by simp [Report.shift], ?_, hA.law, hA.kcl⟩
  intro b hb
  have := hA.volt b hb
  unfold voltResidual at this ⊢
  simp only [Report.shift]
  linear_combination this

/-- **C16 (element removal)** changes only what it names. -/
theorem C16_remove_element (N N' : Net L K) (id : String) (hr : removeElement N id = .ok N') :
    ∃ b, N.get? id = some b ∧ N'.branches = removeFirst b N.branches ∧ N'.zero = N.zero := by
  unfold removeElement at hr
  cases hg : N.get? id with
  | none => rw [hg] at hr; cases hr
  | some b =>
    rw [hg] at hr
    have := mk?_ok hr
    subst this
    exact ⟨b, rfl, rfl, rfl⟩

/-- **C16 / C04 (source zeroing, voltage side).**  Same identifiers, terminals and order;
exempted elements and non-sources untouched; a zeroed voltage source keeps its impedance. -/
theorem C16_zero_voltage_spec (N N' : Net L K) (keep : List (ElemKey K))
    (hr : shortCircuitifyVS N keep = .ok N') :
    N'.zero = N.zero ∧ N'.branches.length = N.branches.length ∧
    ∀ p ∈ N.branches.zip N'.branches,
      p.2.n1 = p.1.n1 ∧ p.2.n2 = p.1.n2 ∧ p.2.id = p.1.id ∧
      (p.1.key ∈ keep → p.2 = p.1) ∧ (p.1.e.isVSrc = false → p.2 = p.1) ∧
      (p.1.key ∉ keep → p.1.e.isVSrc = true → p.2.e = .norton p.1.e.Zfin 0) := by
  have := mk?_ok hr
  subst this
  refine ⟨rfl, by simp, ?_⟩
  intro p hp
  have hp2 := mem_zip_map_self _ _ p hp
  obtain ⟨b, b'⟩ := p
  simp only at hp2 ⊢
  subst hp2
  by_cases hk : keep.contains b.key = true
  · have hk' : b.key ∈ keep := List.contains_iff_mem.mp hk
    simp [hk, hk']
  · have hk' : b.key ∉ keep := fun h => hk (List.contains_iff_mem.mpr h)
    by_cases hv : b.e.isVSrc = true
    · simp [hk, hk', hv, zeroInVoltage]
    · simp [hk, hk', hv]

/-- **C16 / C04 (source zeroing, current side).** -/
theorem C16_zero_current_spec (N N' : Net L K) (keep : List (ElemKey K))
    (hr : openCircuitifyCS N keep = .ok N') :
    N'.zero = N.zero ∧ N'.branches.length = N.branches.length ∧
    ∀ p ∈ N.branches.zip N'.branches,
      p.2.n1 = p.1.n1 ∧ p.2.n2 = p.1.n2 ∧ p.2.id = p.1.id ∧
      (p.1.key ∈ keep → p.2 = p.1) ∧ (p.1.e.isCS = false → p.2 = p.1) ∧
      (p.1.key ∉ keep → p.1.e.isCS = true → p.2.e = .thevenin p.1.e.Yfin 0) := by
  have := mk?_ok hr
  subst this
  refine ⟨rfl, by simp, ?_⟩
  intro p hp
  have hp2 := mem_zip_map_self _ _ p hp
  obtain ⟨b, b'⟩ := p
  simp only at hp2 ⊢
  subst hp2
  by_cases hk : keep.contains b.key = true
  · have hk' : b.key ∈ keep := List.contains_iff_mem.mp hk
    simp [hk, hk']
  · have hk' : b.key ∉ keep := fun h => hk (List.contains_iff_mem.mpr h)
    by_cases hv : b.e.isCS = true
    · simp [hk, hk', hv, zeroInCurrent]
    · simp [hk, hk', hv]

end CC

/-! ### the same statements about the numbers the code reports -/

namespace CC
variable {L K : Type} [DecidableEq L] [LabelOrd L] [Field K] [DecidableEq K]

/-- **C16 (reported values, short contraction).**  Whatever vectors satisfy the matrix
equations of the original and of the contracted network (the latter well-posed), the
solver reports for the contracted network exactly what it reported for the original, on
every surviving node and branch. -/
theorem C16_reported_short (N N' : Net L K) (keep : List (ElemKey K))
    (hr : removeShort N keep = .ok N') (wf : N.WF) (wf' : N'.WF) (hw' : WellPosed N')
    (x x' : List K) (hx : x.length = N.nodes.length + N.vsIds.length)
    (hx' : x'.length = N'.nodes.length + N'.vsIds.length)
    (h : matVec N.mnaA x = N.mnaB) (h' : matVec N'.mnaA x' = N'.mnaB) :
    (N'.reportOf x').AgreeOn N' (N.reportOf x) :=
  C01_reported_is_the_solution N' wf' hw' x' hx' h' _
    (C16_short N N' keep _ hr (C01_sound N x wf hx h).2.2).1

/-- **C16 (reported values, open removal).** -/
theorem C16_reported_open (N N' : Net L K) (hr : removeOpen N = .ok N') (wf : N.WF) (wf' : N'.WF)
    (hw' : WellPosed N') (x x' : List K) (hx : x.length = N.nodes.length + N.vsIds.length)
    (hx' : x'.length = N'.nodes.length + N'.vsIds.length)
    (h : matVec N.mnaA x = N.mnaB) (h' : matVec N'.mnaA x' = N'.mnaB) :
    (N'.reportOf x').AgreeOn N' (N.reportOf x) :=
  C01_reported_is_the_solution N' wf' hw' x' hx' h' _
    (C16_open N N' _ hr (C01_sound N x wf hx h).2.2).1

end CC
