/-
  C01 (translator tie) — every definition of the hand-written core model
  (CC/Model/Net.lean, CC/Model/MNA.lean), which the C01 theorems are about, equals the definition
  that harness/extract_core.py regenerates from the Python AST on every run (CC/Gen/Core.lean).
  A changed sign, index, comparison, filter, block or slice in
    Network/elements.py, network.py, NodalAnalysis/{label_mapping,node_analysis,
    bias_point_analysis,solution}.py
  changes the generated definition, and the corresponding equality below stops compiling.

  All statements hold for every network / element / vector / label over any field `K`.
  Hypotheses used where the Python objects cannot exist or the code itself relies on them:
    `N.ids.Nodup`         — `Network.__post_init__` raises `AmbiguousBranchIDs` otherwise
                             (C01_gen_check shows the generated check is `Net.check`);
    `LawfulLabelOrd L`    — the label order is a total pre-order (`str` order; instances for
                             `String` and `Nat`): `sorted(sorted(l)) = sorted(l)`;
    `x.length = n + m`    — the solution vector has one entry per node and per voltage source
                             (needed to read `x[-m:]` as "the entries after the first n").
-/
import CC.Proofs.CoreGen

namespace CC
open CC.Gen.Core CC.Py
variable {L K : Type} [DecidableEq L] [LabelOrd L] [Field K] [DecidableEq K]

/-! ### elements.py -/

/-- `element.Y / I / V / Z` used as numbers are the model's `Yfin / Ival / Vval / Zfin` -/
theorem C01_gen_values (e : Elem K) :
    (Gen.Core.Elem.Y e).toNum = e.Yfin ∧ (Gen.Core.Elem.I e).toNum = e.Ival
    ∧ (Gen.Core.Elem.V e).toNum = e.Vval ∧ (Gen.Core.Elem.Z e).toNum = e.Zfin :=
  ⟨gen_Yfin e, gen_Ival e, gen_Vval e, gen_Zfin e⟩

/-- the seven predicates -/
theorem C01_gen_predicates (e : Elem K) :
    is_ideal_voltage_source e = e.isIdealVS ∧ is_ideal_current_source e = e.isIdealCS
    ∧ is_current_source e = e.isCS ∧ is_voltage_source e = e.isVSrc ∧ is_active e = e.isActive
    ∧ is_short_circuit e = e.isShort ∧ is_open_circuit e = e.isOpen :=
  ⟨gen_isIdealVS e, gen_isIdealCS e, gen_isCS e, gen_isVSrc e, gen_isActive e, gen_isShort e, gen_isOpen e⟩

/-- the summands kept by `np.isfinite(b.element.Y)` -/
theorem C01_gen_isfinite (e : Elem K) :
    XVal.finite? (Gen.Core.Elem.Y e) = if e.isIdealVS = true then none else some e.Yfin :=
  finiteY_elem e

/-- `np.inf` / `np.nan` never reach an array entry or an operand: a current source has a finite
`I`, an ideal voltage source a finite `V`, and wherever `get_current` divides by `Z` it is finite
and non-zero -/
theorem C01_gen_finite (e : Elem K) :
    (is_current_source e = true → (Gen.Core.Elem.I e).isFin = true)
    ∧ (is_ideal_voltage_source e = true → (Gen.Core.Elem.V e).isFin = true)
    ∧ (is_ideal_voltage_source e = false → is_ideal_current_source e = false →
        (Gen.Core.Elem.Z e).isFin = true ∧ (Gen.Core.Elem.Z e).toNum ≠ 0) :=
  ⟨gen_finite_I e, gen_finite_V e, gen_finite_Z e⟩

/-- the factories: which record, which field gets which argument, the type string -/
theorem C01_gen_factories (name : String) (a b : K) :
    impedance name a = (name, "impedance", Elem.norton a 0)
    ∧ admittance name a = (name, "admittance", Elem.thevenin a 0)
    ∧ resistor name a = (name, "resistor", Elem.norton a 0)
    ∧ conductor name a = (name, "conductor", Elem.thevenin a 0)
    ∧ voltage_source name a b = (name, "voltage_source", Elem.norton b a)
    ∧ voltage_source name a = (name, "voltage_source", Elem.norton 0 a)
    ∧ current_source name a b = (name, "current_source", Elem.thevenin b a)
    ∧ current_source name a = (name, "current_source", Elem.thevenin 0 a)
    ∧ open_circuit (K := K) name = (name, "open_circuit", Elem.thevenin 0 0)
    ∧ short_circuit (K := K) name = (name, "short_circuit", Elem.norton 0 0) :=
  ⟨rfl, rfl, rfl, rfl, rfl, rfl, rfl, rfl, rfl, rfl⟩

/-- what the factories build is what their names say (by the code's own predicates) -/
theorem C01_gen_factory_kinds (name : String) (a : K) :
    (voltage_source name a).2.2.isIdealVS = true ∧ (current_source name a).2.2.isIdealCS = true
    ∧ (short_circuit (K := K) name).2.2.isShort = true ∧ (open_circuit (K := K) name).2.2.isOpen = true
    ∧ (resistor name a).2.2.Zfin = a ∧ (conductor name a).2.2.Yfin = a
    ∧ (impedance name a).2.2.isActive = false ∧ (admittance name a).2.2.isActive = false := by
  refine ⟨?_, ?_, ?_, ?_, rfl, rfl, ?_, ?_⟩ <;>
    simp [voltage_source, current_source, short_circuit, open_circuit, impedance, admittance, Elem.isIdealVS,
      Elem.isIdealCS, Elem.isShort, Elem.isOpen, Elem.isActive, Elem.isVSrc, Elem.isCS, Elem.Vval, Elem.Ival]

/-! ### network.py -/

theorem C01_gen_node_labels (N : Net L K) : Network.node_labels N = N.nodeLabels := gen_nodeLabels N

/-- `Network.__post_init__`: the two checks and their exception classes -/
theorem C01_gen_check (N : Net L K) : Network.post_init N = N.check := gen_check N

/-- `network[id]`: the last branch with that id, `KeyError` when there is none -/
theorem C01_gen_getitem (N : Net L K) (id : String) :
    Network.getitem N id = match N.get? id with
      | some b => .ok b
      | none => .error .keyError := gen_getitem N id

/-- the filter predicates of `branches_between` / `branches_connected_to` (the latter up to the
order its `.sort` imposes, which the sums do not see) -/
theorem C01_gen_branch_filters (N : Net L K) (i j : L) :
    Network.branches_between N i j
      = N.branches.filter (fun b => (b.n1 = i ∧ b.n2 = j) ∨ (b.n1 = j ∧ b.n2 = i))
    ∧ (Network.branches_connected_to N i).Perm (N.branches.filter (fun b => b.n1 = i ∨ b.n2 = i)) :=
  ⟨gen_branches_between N i j, gen_branches_connected_to N i⟩

/-! ### label_mapping.py -/

theorem C01_gen_nodes [LawfulLabelOrd L] (N : Net L K) : (alphabetic_node_mapper N).keys = N.nodes :=
  gen_nodes N

theorem C01_gen_source_ids (N : Net L K) (hids : N.ids.Nodup) :
    (alphabetic_voltage_source_mapper N).keys = N.vsIds
    ∧ (alphabetic_current_source_mapper N).keys = N.csIds
    ∧ (alphabetic_source_mapper N).keys = N.srcIds :=
  ⟨gen_vsIds N hids, gen_csIds N hids, gen_srcIds N hids⟩

/-! ### node_analysis.py -/

/-- `node_matrix_element`: diagonal = admittance connected to the node (self-loop branches skipped by
the `b.node1 != b.node2` guard), off-diagonal = minus the admittance between the nodes, ideal voltage
sources skipped by the `isfinite` filter -/
theorem C01_gen_Yentry (N : Net L K) (i j : L) : node_matrix_element N i j = N.Yentry i j := gen_Yentry N i j

/-- `voltage_source_direction`: (+1 at `node1`) − (+1 at `node2`), 0 elsewhere and on a self-loop -/
theorem C01_gen_dir (N : Net L K) (vs : String) (n : L) :
    voltage_source_direction N vs n = match N.get? vs with
      | some b => .ok (b.dir n)
      | none => .error .keyError := by
  rw [gen_dir, gen_getitem]; cases N.get? vs <;> rfl

/-- the two guarded accumulating writes (`-= 1`, `+= 1`) of `source_incidence_matrix` -/
theorem C01_gen_Qentry [LawfulLabelOrd L] (N : Net L K) (hids : N.ids.Nodup) :
    source_incidence_matrix N
      = .ok ⟨N.nodes.length, N.csIds.length, N.nodes.map fun n => N.csSorted.map fun b => N.Qentry b n⟩ :=
  gen_Q_matrix N hids

/-- `Q @ Is` -/
theorem C01_gen_rhsNode [LawfulLabelOrd L] (N : Net L K) (hids : N.ids.Nodup) :
    current_source_incidence_vector N = .ok (N.nodes.map fun n => N.rhsNode n) := gen_rhs_nodes N hids

/-- `nodal_analysis_coefficient_matrix`: `[[Y, B], [Bᵀ, 0]]`, with its shape -/
theorem C01_gen_mnaA [LawfulLabelOrd L] (N : Net L K) (hids : N.ids.Nodup) :
    nodal_analysis_coefficient_matrix N
      = .ok ⟨N.nodes.length + N.vsIds.length, N.nodes.length + N.vsIds.length, N.mnaA⟩ := gen_mnaA N hids

/-- `nodal_analysis_constants_vector`: `hstack((Q·Is, V))` -/
theorem C01_gen_mnaB [LawfulLabelOrd L] (N : Net L K) (hids : N.ids.Nodup) :
    nodal_analysis_constants_vector N = .ok N.mnaB := gen_mnaB N hids

/-- everything the solver does before `np.linalg.solve`, exceptions included: construction of
the `Network` followed by the two assemblies is `Net.assemble` -/
theorem C01_gen_assemble [LawfulLabelOrd L] (N : Net L K) :
    (do Network.post_init N
        let A ← nodal_analysis_coefficient_matrix N
        let b ← nodal_analysis_constants_vector N
        pure (A.rows, b) : Except Err (List (List K) × List K)) = N.assemble := by
  unfold Net.assemble
  rw [gen_check]
  cases h : N.check with
  | error e => rfl
  | ok u =>
    have hids := ((Net.check_ok_iff N).mp (by cases u; exact h)).2
    rw [gen_mnaA N hids, gen_mnaB N hids]; rfl

/-! ### bias_point_analysis.py, solution.py -/

theorem C01_gen_potential [LawfulLabelOrd L] (N : Net L K) (x : List K) (n : L) :
    Solution.get_potential N x n = N.potential x n := gen_potential N x n

theorem C01_gen_voltage [LawfulLabelOrd L] (N : Net L K) (x : List K) (id : String) :
    Solution.get_voltage N x id = N.voltage x id := gen_voltage N x id

/-- the four-way chain of `get_current`, with `x[-N_vs:]` -/
theorem C01_gen_current [LawfulLabelOrd L] (N : Net L K) (hids : N.ids.Nodup) (x : List K)
    (hx : x.length = N.nodes.length + N.vsIds.length) (id : String) :
    Solution.get_current N x id = N.current x id := gen_current N hids x hx id

theorem C01_gen_power [LawfulLabelOrd L] (conj : K → K) (N : Net L K) (hids : N.ids.Nodup) (x : List K)
    (hx : x.length = N.nodes.length + N.vsIds.length) (id : String) :
    Solution.get_power conj N x id = N.power conj x id := gen_power conj N hids x hx id

/-- `__post_init__` of the solution: the vector is `solve A b` when that succeeds without `nan`,
and a zero vector of the length of `b` in every other case -/
theorem C01_gen_solution_vector [LawfulLabelOrd L] (solve : Py.Mat K → List K → Option (List K))
    (anyNan : List K → Bool) (N : Net L K) (hids : N.ids.Nodup) :
    ∃ v, Solution.solution_vector solve anyNan N = .ok v ∧
      (match solve ⟨N.nodes.length + N.vsIds.length, N.nodes.length + N.vsIds.length, N.mnaA⟩ N.mnaB with
       | some x => (anyNan x = false → v = x) ∧ (anyNan x = true → v = List.replicate N.mnaB.length 0)
       | none => v = List.replicate N.mnaB.length 0) := by
  refine ⟨_, gen_solution_vector solve anyNan N hids, ?_⟩
  cases solve _ N.mnaB with
  | none => simp
  | some x => by_cases h : anyNan x = true <;> simp [h]

/-! ### the hypotheses are satisfiable -/

example : LawfulLabelOrd String := inferInstance
example : (⟨[⟨"1", "0", "V", "voltage_source", Elem.norton (0 : ℚ) 5⟩,
             ⟨"1", "0", "R", "resistor", Elem.norton (2 : ℚ) 0⟩], "0"⟩ : Net String ℚ).ids.Nodup := by decide

end CC
