/-
  C18 — displayed numbers are accurate to the stated precision.

  Theorems about the model `CC.Model.Fmt` over the *generated* `CC.Gen.Fmt` (tables,
  defaults, arithmetic kernels translated from `Utils.py` / `Display.py`), against the spec
  `CC.Spec.Fmt`.  All statements are over all rationals, all precisions, all tables.
-/
import CC.Model.Fmt
import CC.Spec.Fmt
import CC.Proofs.FmtArith
import CC.Proofs.FmtDigits
import CC.Proofs.FmtTable
import CC.Proofs.FmtExponent
import CC.Proofs.FmtRender
import CC.Gen.FmtGuard

namespace CC
open CC.Fmt CC.Gen.Fmt

/-- the translator accepted `Utils.py` / `Display.py` (every statement of the translated
functions inside the grammar, every hand-modelled function of the modelled shape) -/
theorem C18_translator_accepts : CC.Gen.FmtGuard.fmt_tables_refusal = none := by decide

/-! ## engineering exponent -/

theorem exponent3_eq (p e : ℤ) : f3_exponent3 p e = 3 * ((p + e - 1) / 3) := by
  unfold f3_exponent3; rw [Int.fdiv_eq_ediv_of_nonneg _ (by norm_num)]

/-- **C18_exp3** — the engineering exponent computed by `Float3.exponent3` is a multiple of
three, for every precision and every decimal exponent. -/
theorem C18_exp3 (p e : ℤ) : f3_exponent3 p e % 3 = 0 := by
  rw [exponent3_eq]; omega

/-- the engineering exponent is the decimal exponent of the leading digit rounded down to a
multiple of three -/
theorem C18_exp3_floor (p e : ℤ) :
    f3_exponent3 p e ≤ p + e - 1 ∧ p + e - 1 < f3_exponent3 p e + 3 := by
  rw [exponent3_eq]; omega

/-! ## mantissa -/

/-- **C18_mantissa_half** — `FloatPrecision.mantissa` is a nearest integer of `v / 10^e`:
mantissa · 10^e is within half a unit of the last mantissa digit of `v`, for every `e`. -/
theorem C18_mantissa_half (v : ℚ) (e : ℤ) :
    |((fp_mantissa v e : ℤ) : ℚ) * pow10 e - v| ≤ pow10 e / 2 := by
  unfold fp_mantissa
  have hp := pow10_pos e
  have h := rhe_spec (v / pow10 e)
  have : ((rhe (v / pow10 e) : ℤ) : ℚ) * pow10 e - v = (((rhe (v / pow10 e) : ℤ) : ℚ) - v / pow10 e) * pow10 e := by
    field_simp
  rw [this, abs_mul, abs_of_pos hp]
  calc |((rhe (v / pow10 e) : ℤ) : ℚ) - v / pow10 e| * pow10 e ≤ (1 / 2) * pow10 e :=
        mul_le_mul_of_nonneg_right h (le_of_lt hp)
    _ = pow10 e / 2 := by ring

/-- **C18_mantissa_range** (kernel) — a mantissa of `p` digits (or `10^p` after a rounding
carry) is scaled by `Float3.mantissa3` into `[1, 1000]`, for every precision `p ≥ 1` and every
exponent. -/
theorem C18_mantissa_range (M p e : ℤ) (hlo : pow10 (p - 1) ≤ |(M : ℚ)|) (hhi : |(M : ℚ)| ≤ pow10 p) :
    1 ≤ |f3_mantissa3 M e (f3_exponent3 p e)| ∧ |f3_mantissa3 M e (f3_exponent3 p e)| ≤ 1000 := by
  unfold f3_mantissa3
  rw [exponent3_eq, abs_mul, abs_of_pos (pow10_pos _)]
  have hr : e - 3 * ((p + e - 1) / 3) = (p + e - 1) % 3 - (p - 1) := by omega
  rw [hr, pow10_sub]
  have hpp := pow10_pos (p - 1)
  have h10 : pow10 p = 10 * pow10 (p - 1) := by
    have : p = 1 + (p - 1) := by ring
    conv_lhs => rw [this, pow10_add]
    simp [pow10_eq_zpow]
  have hmod : (p + e - 1) % 3 = 0 ∨ (p + e - 1) % 3 = 1 ∨ (p + e - 1) % 3 = 2 := by omega
  have hA : 0 ≤ |(M : ℚ)| := abs_nonneg _
  have e0 : pow10 0 = 1 := by simp [pow10_eq_zpow]
  have e1 : pow10 1 = 10 := by simp [pow10_eq_zpow]
  have e2 : pow10 2 = 100 := by simp [pow10_eq_zpow]; norm_num
  rcases hmod with h | h | h <;> rw [h, ← mul_div_assoc] <;>
    (constructor
     · rw [le_div_iff₀ hpp]; first | rw [e0] | rw [e1] | rw [e2]
       nlinarith
     · rw [div_le_iff₀ hpp]; first | rw [e0] | rw [e1] | rw [e2]
       nlinarith)

/-! ## what the exponent stage has to deliver -/

/-- `e` is the exponent of the last of `p` significant digits of `v`: regular; or `v` lies
within half a unit (of its own `p`-th digit) below the next decade, which `e` already
addresses (rounding carry); or the code's `'1.0'` branch (`exponent` returns `0` for a value
that rounds up to `1`). -/
def ExpOK (v : ℚ) (p : ℕ) (e : ℤ) : Prop :=
  (pow10 (e + p - 1) ≤ |v| ∧ |v| < pow10 (e + p)) ∨
  (pow10 (e + p - 1) - pow10 (e - 1) / 2 ≤ |v| ∧ |v| < pow10 (e + p - 1)) ∨
  (e = 0 ∧ 1 - pow10 (-(p : ℤ)) / 2 ≤ |v| ∧ |v| < 1)

/-- the regular case alone (what a repaired `exponent` would deliver) -/
def ExpRegular (v : ℚ) (p : ℕ) (e : ℤ) : Prop :=
  (pow10 (e + p - 1) ≤ |v| ∧ |v| < pow10 (e + p)) ∨
  (pow10 (e + p - 1) - pow10 (e - 1) / 2 ≤ |v| ∧ |v| < pow10 (e + p - 1))

end CC

namespace CC
open CC.Fmt CC.Gen.Fmt

/-! ## accuracy -/

theorem halfUnit_of_decade {v : ℚ} {p : ℕ} {d : ℤ} (h1 : pow10 d ≤ |v|) (h2 : |v| < pow10 (d + 1)) :
    halfUnit v p = pow10 (d - p + 1) / 2 := by
  unfold halfUnit
  rw [qabs_eq_abs, decade_unique h1 h2]

/-- **C18_accuracy** (kernel) — whenever the exponent stage delivers the exponent of the
`p`-th significant digit (`ExpOK`, including the rounding-carry case `999.5 ↦ 1000`,
`0.9995 ↦ 1.00` and the code's `'1.0'` branch), mantissa · 10^exponent is within half a unit
of the `p`-th significant digit of `v`; all `v ≠ 0`, all `p ≥ 1`. -/
theorem C18_accuracy (v : ℚ) (p : ℕ) (e : ℤ) (hp : 1 ≤ p) (h : ExpOK v p e) :
    Accurate v p (((fp_mantissa v e : ℤ) : ℚ) * pow10 e) := by
  unfold Accurate
  rw [qabs_eq_abs]
  have hpe := pow10_pos e
  rcases h with ⟨h1, h2⟩ | ⟨h1, h2⟩ | ⟨he, h1, h2⟩
  · -- regular
    have hd : halfUnit v p = pow10 e / 2 := by
      have h2' : |v| < pow10 (e + p - 1 + 1) := by rwa [show e + (p : ℤ) - 1 + 1 = e + p by ring]
      rw [halfUnit_of_decade h1 h2']; congr 2; ring
    rw [hd]; exact C18_mantissa_half v e
  · -- carry: v rounds up to 10^(e+p-1)
    have hp' : (1 : ℤ) ≤ p := by exact_mod_cast hp
    have hA := pow10_pos (e + p - 2)
    have e1 : pow10 (e + p - 1) = 10 * pow10 (e + p - 2) := by
      rw [show e + (p : ℤ) - 1 = (e + p - 2) + 1 by ring, pow10_succ]
    have hle : pow10 (e - 1) ≤ pow10 (e + p - 2) := pow10_le_pow10 (by omega)
    have hlow : pow10 (e + p - 2) ≤ |v| := by rw [e1] at h1; linarith
    have h2' : |v| < pow10 (e + p - 2 + 1) := by rwa [show e + (p : ℤ) - 2 + 1 = e + p - 1 by ring]
    have hd : halfUnit v p = pow10 (e - 1) / 2 := by
      rw [halfUnit_of_decade hlow h2']; congr 2; ring
    rw [hd]
    -- the mantissa is ±10^(p-1)
    have hq : pow10 (e + p - 1) = pow10 ((p - 1 : ℕ) : ℤ) * pow10 e := by
      rw [← pow10_add]; congr 1; omega
    have hq' : pow10 (e - 1) = pow10 e / 10 := pow10_pred e
    have hK : pow10 ((p - 1 : ℕ) : ℤ) = (((10 ^ (p - 1) : ℕ) : ℤ) : ℚ) := by
      rw [pow10_natCast']; push_cast; rfl
    unfold fp_mantissa
    rcases le_or_gt 0 v with hv | hv
    · rw [abs_of_nonneg hv] at h1 h2
      have hnear : |v / pow10 e - (((10 ^ (p - 1) : ℕ) : ℤ) : ℚ)| < 1 / 2 := by
        rw [← hK, abs_lt]
        constructor
        · rw [lt_sub_iff_add_lt, lt_div_iff₀ hpe]; rw [hq, hq'] at h1; nlinarith
        · rw [sub_lt_iff_lt_add, div_lt_iff₀ hpe]; rw [hq] at h2; nlinarith
      rw [rhe_eq_of_near hnear, ← hK, ← hq, abs_le]
      constructor <;> linarith
    · rw [abs_of_neg hv] at h1 h2
      have hnear : |v / pow10 e - ((-((10 ^ (p - 1) : ℕ) : ℤ) : ℤ) : ℚ)| < 1 / 2 := by
        push_cast
        rw [show ((10 : ℚ) ^ (p - 1)) = pow10 ((p - 1 : ℕ) : ℤ) by rw [pow10_natCast], abs_lt]
        constructor
        · rw [lt_sub_iff_add_lt, lt_div_iff₀ hpe]; rw [hq] at h2; nlinarith
        · rw [sub_lt_iff_lt_add, div_lt_iff₀ hpe]; rw [hq, hq'] at h1; nlinarith
      rw [rhe_eq_of_near hnear]
      push_cast
      rw [show ((10 : ℚ) ^ (p - 1)) = pow10 ((p - 1 : ℕ) : ℤ) by rw [pow10_natCast]]
      rw [show -pow10 ((p - 1 : ℕ) : ℤ) * pow10 e - v = -(pow10 (e + p - 1) + v) by rw [hq]; ring, abs_neg, abs_le]
      constructor <;> linarith
  · -- the '1.0' branch: e = 0, v rounds up to ±1
    subst he
    have hpp : pow10 (-(p : ℤ)) ≤ 1 / 10 := by
      have : pow10 (-(p : ℤ)) ≤ pow10 (-1) := pow10_le_pow10 (by omega)
      have e' : pow10 (-1) = 1 / 10 := by simp [pow10_eq_zpow]
      rwa [e'] at this
    have hpos := pow10_pos (-(p : ℤ))
    have hlow : pow10 (-1) ≤ |v| := by
      have e' : pow10 (-1) = 1 / 10 := by simp [pow10_eq_zpow]
      rw [e']; linarith
    have h2' : |v| < pow10 (-1 + 1) := by simpa [pow10_zero] using h2
    have hd : halfUnit v p = pow10 (-(p : ℤ)) / 2 := by
      rw [halfUnit_of_decade hlow h2']; congr 2; ring
    rw [hd, pow10_zero]
    unfold fp_mantissa
    rw [pow10_zero, div_one, mul_one]
    rcases le_or_gt 0 v with hv | hv
    · rw [abs_of_nonneg hv] at h1 h2
      have hnear : |v - ((1 : ℤ) : ℚ)| < 1 / 2 := by
        rw [abs_lt]; push_cast; constructor <;> linarith
      rw [rhe_eq_of_near hnear, abs_le]; push_cast; constructor <;> linarith
    · rw [abs_of_neg hv] at h1 h2
      have hnear : |v - ((-1 : ℤ) : ℚ)| < 1 / 2 := by
        rw [abs_lt]; push_cast; constructor <;> linarith
      rw [rhe_eq_of_near hnear, abs_le]; push_cast; constructor <;> linarith

end CC

namespace CC
open CC.Fmt CC.Gen.Fmt

/-! ## prefix tables -/

/-- **C18_tables_admissible** — no prefix table of `Utils.py` / `Display.py` skips an SI
prefix between its smallest and its largest exponent. -/
theorem C18_tables_admissible : all_tables.all Table.admissible = true := by decide

/-- **C18_tables_si** — every prefix letter attached to a multiple of three is the SI letter
of that power of ten (the reader `parseBack` knows only SI). -/
theorem C18_tables_si : all_tables.all Table.si = true := by decide

/-- **C18_display_ranges** — each display helper offers exactly the specified range of
prefixes (`CC.Fmt.helperRange`). -/
theorem C18_display_ranges :
    (all_calls.filterMap fun (f, c) => if c.usePrefix then some (f, c.table.minKey, c.table.maxKey) else none) =
      [("print_complex", -6, 3), ("print_abs", -6, 3), ("print_real", -6, 3), ("print_sinosoidal", -6, 3),
       ("print_sinosoidal", -6, 3), ("print_sinosoidal", -3, 12), ("print_active_power", -12, 12), ("print_active_reactive_power", -12, 12),
       ("print_active_reactive_power", -12, 12), ("print_resistance", -3, 9), ("print_conductance", -3, 9),
       ("print_impedance", -3, 9), ("print_capacitance", -12, -3), ("print_inductance", -9, -3)]
    ∧ helperRange "print_complex" = some (-6, 3) ∧ helperRange "print_abs" = some (-6, 3)
    ∧ helperRange "print_real" = some (-6, 3) ∧ helperRange "print_sinosoidal" = some (-6, 3)
    ∧ helperRange "print_sinosoidal_hz" = some (-3, 12) ∧ helperRange "print_active_power" = some (-12, 12)
    ∧ helperRange "print_active_reactive_power" = some (-12, 12) ∧ helperRange "print_resistance" = some (-3, 9)
    ∧ helperRange "print_conductance" = some (-3, 9) ∧ helperRange "print_impedance" = some (-3, 9)
    ∧ helperRange "print_capacitance" = some (-12, -3) ∧ helperRange "print_inductance" = some (-9, -3) := by
  decide

/-- **C18_display_args** — which quantity each display helper formats, with which unit and
class (the hand-written `print*` functions of the model assume exactly this). -/
theorem C18_display_args :
    (all_calls.map fun (f, c) => (f, c.cls, c.value, c.unit)) =
      [("print_complex", "ScientificComplex", "value", none),
       ("print_abs", "ScientificFloat", "abs(value)", none),
       ("print_real", "ScientificFloat", "value.real", none),
       ("print_sinosoidal", "ScientificFloat", "abs(value)", none),
       ("print_sinosoidal", "ScientificFloat", "abs(degrees(phase_value))", some ['°']),
       ("print_sinosoidal", "ScientificFloat", "abs(phase_value)", some []),
       ("print_sinosoidal", "ScientificFloat", "value.real", none),
       ("print_sinosoidal", "ScientificFloat", "w / 2 / pi", some ['H', 'z']),
       ("print_sinosoidal", "ScientificFloat", "w", some ['/', 's']),
       ("print_active_power", "ScientificFloat", "abs(value)", some ['W']),
       ("print_active_reactive_power", "ScientificFloat", "abs(value.real)", some ['W']),
       ("print_active_reactive_power", "ScientificFloat", "abs(value.imag)", some ['v', 'a', 'r']),
       ("print_resistance", "ScientificComplex", "R", some ['Ω']),
       ("print_conductance", "ScientificComplex", "G", some ['S']),
       ("print_impedance", "ScientificComplex", "Z", some ['Ω']),
       ("print_capacitance", "ScientificFloat", "C", some ['F']),
       ("print_inductance", "ScientificFloat", "L", some ['H'])]
    ∧ (all_calls.map fun (_, c) => (c.usePrefix, c.compact, c.polar, c.deg)) =
      [(true, true, none, none), (true, false, some false, some false), (true, false, some false, some false),
       (true, false, some false, some false), (false, false, some false, some false),
       (false, false, some false, some false), (true, false, some false, some false), (true, false, some false, some false),
       (false, false, some false, some false), (true, false, some false, some false),
       (true, false, some false, some false), (true, false, some false, some false),
       (true, false, some false, some false), (true, false, some false, some false),
       (true, false, some false, some false), (true, false, some false, some false),
       (true, false, some false, some false)] := by
  decide

/-- **C18_sine_shift** — the sine form of a time-function text adds one quarter turn to the phase
(`cos x = sin (x + π/2)`).  Formerly false: the code subtracted it, so every sine-form label denoted
the negative of the quantity; repaired in /repo 286c55c. -/
theorem C18_sine_shift : print_sinosoidal_sin_shift = specSineQuarterTurns := by decide

/-- **C18_defaults** — the dataclass defaults are the specified ones (precision 3, exponent
range ±16, no prefixes, Cartesian, non-compact), and the texts for infinity. -/
theorem C18_defaults :
    fp_precision_default = 3 ∧ fp_min_exp_default = defaultMinExp ∧ fp_max_exp_default = defaultMaxExp
    ∧ sf_precision_default = 3 ∧ sc_precision_default = 3 ∧ sf_use_exp_prefix_default = false
    ∧ sc_use_exp_prefix_default = false ∧ sf_unit_default = [] ∧ sc_unit_default = []
    ∧ sc_compact_default = false ∧ sc_polar_default = false ∧ sc_deg_default = false
    ∧ sf_exp_prefixes_default = sc_exp_prefixes_default
    ∧ sf_str_inf_pos = ['∞'] ∧ sf_str_inf_neg = ['-', '∞']
    ∧ (∀ T, sf_value3_min_exp false T = defaultMinExp ∧ sf_value3_max_exp false T = defaultMaxExp)
    ∧ (∀ T, sf_value3_min_exp true T = T.minKey ∧ sf_value3_max_exp true T = T.maxKey) := by
  refine ⟨by decide, by decide, by decide, by decide, by decide, by decide, by decide, by decide, by decide,
    by decide, by decide, by decide, by decide, by decide, by decide, ?_, ?_⟩
  · intro T; exact ⟨rfl, rfl⟩
  · intro T; exact ⟨rfl, rfl⟩

/-- **C18_prefix_clamp** — for every admissible table and every engineering exponent `e3`
(a multiple of three), the printed prefix is the table's prefix for some exponent `k` (or no
prefix, `k = 0`) and the explicit exponent `e<n>` printed next to it satisfies `n + k = e3`:
beyond the table the nearest prefix plus an explicit exponent denotes the same power of ten. -/
theorem C18_prefix_clamp (T : Table) (hT : T.Admissible) (e3 : ℤ) (h3 : e3 % 3 = 0) :
    ∃ k : ℤ, ((k = 0 ∧ sf_exp_prefix true T e3 = []) ∨ (k, sf_exp_prefix true T e3) ∈ T)
      ∧ sf_rebase_exp true T e3 + k = e3 := by
  obtain ⟨hne, hadm⟩ := hT
  have hkeys : T.keys ≠ [] := by
    intro h; apply hne; cases T with
    | nil => rfl
    | cons a t => simp [Table.keys] at h
  obtain ⟨hmaxmem, hmax⟩ := listMax_spec hkeys
  obtain ⟨hminmem, hmin⟩ := listMin_spec hkeys
  change T.maxKey ∈ T.keys at hmaxmem
  change T.minKey ∈ T.keys at hminmem
  change ∀ x ∈ T.keys, x ≤ T.maxKey at hmax
  change ∀ x ∈ T.keys, T.minKey ≤ x at hmin
  unfold sf_exp_prefix sf_rebase_exp
  simp only [Bool.not_true, Bool.false_eq_true, ↓reduceIte]
  by_cases hgt : e3 > T.maxKey
  · have hnot : T.has e3 = false := by
      rw [Bool.eq_false_iff]; intro h
      have := hmax e3 ((Table.has_iff T e3).mp h); omega
    refine ⟨T.maxKey, Or.inr ?_, ?_⟩
    · simp only [hgt, decide_true, ↓reduceIte]; exact Table.get_mem T _ hmaxmem
    · simp [hnot, hgt]
  · by_cases hlt : e3 < T.minKey
    · have hnot : T.has e3 = false := by
        rw [Bool.eq_false_iff]; intro h
        have := hmin e3 ((Table.has_iff T e3).mp h); omega
      refine ⟨T.minKey, Or.inr ?_, ?_⟩
      · simp only [hgt, decide_false, Bool.false_eq_true, ↓reduceIte, hlt, decide_true]
        exact Table.get_mem T _ hminmem
      · simp [hnot, hgt, hlt]
    · by_cases hhas : T.has e3 = true
      · refine ⟨e3, Or.inr ?_, ?_⟩
        · simp only [hgt, decide_false, Bool.false_eq_true, ↓reduceIte, hlt, hhas]
          exact Table.get_mem T _ ((Table.has_iff T e3).mp hhas)
        · simp [hhas]
      · have h0 : e3 = 0 := by
          by_contra hne0
          exact hhas (hadm e3 h3 (by omega) (by omega) hne0)
        subst h0
        have hgt' : ¬ (T.maxKey < 0) := by omega
        have hlt' : ¬ (0 < T.minKey) := by omega
        refine ⟨0, Or.inl ⟨rfl, ?_⟩, ?_⟩
        · simp [hgt, hlt, hhas]
        · simp [hgt', hlt']

/-- without prefixes the whole exponent is printed explicitly -/
theorem C18_no_prefix (T : Table) (e3 : ℤ) : sf_exp_prefix false T e3 = [] ∧ sf_rebase_exp false T e3 = e3 := by
  exact ⟨rfl, rfl⟩

example : (sf_exp_prefixes_default).Admissible := Table.admissible_sound (by decide)
example : sf_rebase_exp true print_real_call0.table (-9) = -3 ∧ sf_exp_prefix true print_real_call0.table (-9) = ['u'] := by decide

end CC

namespace CC
open CC.Fmt CC.Gen.Fmt

/-! ## saturation and zero suppression -/

/-- (pin: restates the generated definition, so that an edit of `is_inf` breaks a theorem) `FloatPrecision.is_inf` is exactly `value != 0 and exponent + precision - 3 > max_exp`: the exponent of the
leading digit, not of the last one, decides (repaired in /repo edb6a6b) -/
theorem C18_is_inf_iff (v : ℚ) (p e m : ℤ) : fp_is_inf v p e m = true ↔ (v ≠ 0 ∧ m < e + p - 3) := by
  unfold fp_is_inf; by_cases h : v = 0 <;> simp [h]

/-- **C18_zero_never_infinity** — zero is never saturated: for every configuration the value 0
is not `is_inf`, so its text is a finite number (formerly refuted: a table whose exponents are
all negative rendered a zero part as `∞`; repaired in /repo f0e8a34). -/
theorem C18_zero_never_infinity (c : SFCfg) : (c.value3 0).isInf = false := by
  unfold F3.isInf fp_is_inf SFCfg.value3; simp

/-- the former failing input (zero real part, farad table, precision 5) now reads as zero -/
example : ({ unit := ['F'], precision := 5, usePrefix := true, table := print_capacitance_call0.table } : SCCfg).str
    0 (54 / 10000000000) 0 0 = ['0', '.', '0', '0', '0', '0', '0', 'e', '6', 'm', 'F'] := by
  decide +kernel

/-- (pin: restates the generated definition) `FloatPrecision.is_zero` is exactly `value == 0 or exponent < min_exp` -/
theorem C18_is_zero_iff (v : ℚ) (e m : ℤ) : fp_is_zero v e m = true ↔ (v = 0 ∨ e < m) := by
  unfold fp_is_zero; by_cases h : v = 0 <;> simp [h]

theorem halfUnit_nonneg (v : ℚ) (p : ℕ) : 0 ≤ halfUnit v p := by
  unfold halfUnit; have := pow10_pos (decade (qabs v) - (p : ℤ) + 1); linarith

theorem halfUnit_carry {v : ℚ} {p : ℕ} {e : ℤ} (hp : 1 ≤ p)
    (h1 : pow10 (e + p - 1) - pow10 (e - 1) / 2 ≤ |v|) (h2 : |v| < pow10 (e + p - 1)) :
    halfUnit v p = pow10 (e - 1) / 2 := by
  have hp' : (1 : ℤ) ≤ p := by exact_mod_cast hp
  have hA := pow10_pos (e + p - 2)
  have e1 : pow10 (e + p - 1) = 10 * pow10 (e + p - 2) := by
    rw [show e + (p : ℤ) - 1 = (e + p - 2) + 1 by ring, pow10_succ]
  have hle : pow10 (e - 1) ≤ pow10 (e + p - 2) := pow10_le_pow10 (by omega)
  have hlow : pow10 (e + p - 2) ≤ |v| := by rw [e1] at h1; linarith
  have h2' : |v| < pow10 (e + p - 2 + 1) := by rwa [show e + (p : ℤ) - 2 + 1 = e + p - 1 by ring]
  rw [halfUnit_of_decade hlow h2']; congr 2; ring

/-- **C18_saturate** (threshold) — with a regular exponent stage, `is_inf` holds for every
value beyond the representable range (`|v| ≥ 1000·10^max_exp`, whatever the precision) and only
for values that reach that bound after rounding to `p` digits.  (Formerly the threshold was
`10^(max_exp + p)`; repaired in /repo edb6a6b.) -/
theorem C18_saturate (v : ℚ) (p : ℕ) (e maxExp : ℤ) (hp : 1 ≤ p) (h : ExpRegular v p e) :
    (Beyond v maxExp → fp_is_inf v p e maxExp = true) ∧ (fp_is_inf v p e maxExp = true → BeyondRounded v p maxExp) := by
  have hv0 : v ≠ 0 := by
    have hp' : (1 : ℤ) ≤ p := by exact_mod_cast hp
    rcases h with ⟨h1, _⟩ | ⟨h1, _⟩
    · have := pow10_pos (e + p - 1)
      exact abs_pos.mp (lt_of_lt_of_le this h1)
    · have h3 : pow10 (e - 1) ≤ pow10 (e + p - 1) := pow10_le_pow10 (by omega)
      have := pow10_pos (e - 1)
      exact abs_pos.mp (by linarith)
  have key : fp_is_inf v p e maxExp = true ↔ maxExp < e + p - 3 := by
    rw [C18_is_inf_iff]; exact ⟨fun h => h.2, fun h => ⟨hv0, h⟩⟩
  unfold Beyond BeyondRounded
  rw [key, qabs_eq_abs]
  have hu := halfUnit_nonneg v p
  rcases h with ⟨h1, h2⟩ | ⟨h1, h2⟩
  · constructor
    · intro hb
      by_contra hle
      have : pow10 (e + p) ≤ pow10 (maxExp + 3) := pow10_le_pow10 (by omega)
      linarith
    · intro hlt
      have : pow10 (maxExp + 3) ≤ pow10 (e + p - 1) := pow10_le_pow10 (by omega)
      linarith
  · constructor
    · intro hb
      by_contra hle
      have : pow10 (e + p - 1) ≤ pow10 (maxExp + 3) := pow10_le_pow10 (by omega)
      linarith
    · intro hlt
      have : pow10 (maxExp + 3) ≤ pow10 (e + p - 1) := pow10_le_pow10 (by omega)
      rw [halfUnit_carry hp h1 h2]; linarith

/-- the text of a saturated value is the infinity sign, negative iff the mantissa is -/
theorem C18_saturate_text (c : SFCfg) (v : ℚ) (h : (c.value3 v).isInf = true) :
    c.str v = if 0 ≤ (c.value3 v).mantissa then ['∞'] else ['-', '∞'] := by
  unfold SFCfg.str
  simp only [h, ↓reduceIte, ge_iff_le]
  rfl

theorem rhe_pos_of_half_lt {x : ℚ} (h : 1 / 2 < x) : 0 < rhe x := by
  have h1 := rhe_spec x
  rw [abs_le] at h1
  have : (0 : ℚ) < ((rhe x : ℤ) : ℚ) := by linarith
  exact_mod_cast this

theorem rhe_neg_of_lt_neg_half {x : ℚ} (h : x < -(1 / 2)) : rhe x < 0 := by
  have h1 := rhe_spec x
  rw [abs_le] at h1
  have : ((rhe x : ℤ) : ℚ) < 0 := by linarith
  exact_mod_cast this

/-- `|v| / 10^e > 1/2` whenever the exponent stage is `ExpOK` -/
theorem ExpOK.ratio {v : ℚ} {p : ℕ} {e : ℤ} (hp : 1 ≤ p) (h : ExpOK v p e) : pow10 e / 2 < |v| := by
  have hp' : (1 : ℤ) ≤ p := by exact_mod_cast hp
  have hpe := pow10_pos e
  rcases h with ⟨h1, _⟩ | ⟨h1, _⟩ | ⟨he, h1, _⟩
  · have : pow10 e ≤ pow10 (e + p - 1) := pow10_le_pow10 (by omega)
    linarith
  · have : pow10 e ≤ pow10 (e + p - 1) := pow10_le_pow10 (by omega)
    have h' : pow10 (e - 1) = pow10 e / 10 := pow10_pred e
    rw [h'] at h1; linarith
  · subst he
    have : pow10 (-(p : ℤ)) ≤ pow10 (-1) := pow10_le_pow10 (by omega)
    have e' : pow10 (-1) = 1 / 10 := by simp [pow10_eq_zpow]
    rw [e'] at this; rw [pow10_zero]; linarith

/-- **C18_saturate** (sign) — the mantissa, hence the sign of `∞` / of the printed number,
has the sign of `v`. -/
theorem C18_mantissa_sign (v : ℚ) (p : ℕ) (e : ℤ) (hp : 1 ≤ p) (h : ExpOK v p e) :
    (0 < v → 0 < fp_mantissa v e) ∧ (v < 0 → fp_mantissa v e < 0) := by
  have hr := h.ratio hp
  have hpe := pow10_pos e
  unfold fp_mantissa
  constructor
  · intro hv
    rw [abs_of_pos hv] at hr
    apply rhe_pos_of_half_lt
    rw [lt_div_iff₀ hpe]; linarith
  · intro hv
    rw [abs_of_neg hv] at hr
    apply rhe_neg_of_lt_neg_half
    rw [div_lt_iff₀ hpe]; linarith

/-- **C18_complex** (suppression) — a part that `ScientificComplex` treats as zero is zero or
lies below the representable range `10^(min_exp + p - 1)`. -/
theorem C18_suppressed_small (v : ℚ) (p : ℕ) (e minExp : ℤ) (hp : 1 ≤ p) (h : ExpOK v p e)
    (hneg : minExp ≤ 0) (hz : fp_is_zero v e minExp = true) : v = 0 ∨ |v| < pow10 (minExp + p - 1) := by
  rw [C18_is_zero_iff] at hz
  rcases hz with hz | hz
  · left; exact hz
  · right
    rcases h with ⟨_, h2⟩ | ⟨_, h2⟩ | ⟨he, _, _⟩
    · have : pow10 (e + p) ≤ pow10 (minExp + p - 1) := pow10_le_pow10 (by omega)
      linarith
    · have : pow10 (e + p - 1) ≤ pow10 (minExp + p - 1) := pow10_le_pow10 (by omega)
      linarith
    · omega

/-! ## complex values -/

theorem sc_real_sign_eq (re : ℚ) (compact : Bool) :
    sc_real_sign re compact = if 0 ≤ re then [] else if compact then ['-'] else ['-', ' '] := by
  unfold sc_real_sign
  by_cases h : 0 ≤ re <;> cases compact <;> simp [h] <;> decide

theorem sc_imag_sign_eq (im : ℚ) (compact : Bool) :
    sc_imag_sign im compact =
      if 0 ≤ im then (if compact then ['+'] else [' ', '+', ' ']) else (if compact then ['-'] else [' ', '-', ' ']) := by
  unfold sc_imag_sign
  by_cases h : 0 ≤ im <;> cases compact <;> simp [h] <;> decide

/-- **C18_complex** (Cartesian) — the text of a complex value is the text of `|re|` and of
`|im|` (each a `ScientificFloat`, hence each subject to the real-valued theorems) with the
signs of `re` and `im`; a part is left out only if it `is_zero`; all four quadrants. -/
theorem C18_complex (c : SCCfg) (re im absV angle : ℚ) (hpol : c.polar = false) :
    c.str re im absV angle =
      (let sr : List Char := if 0 ≤ re then [] else if c.compact then ['-'] else ['-', ' ']
       let si : List Char := if 0 ≤ im then (if c.compact then ['+'] else [' ', '+', ' '])
                             else (if c.compact then ['-'] else [' ', '-', ' '])
       if (c.toSFCfg.value3 (qabs im)).isZero then sr ++ c.toSFCfg.str (qabs re)
       else if (c.toSFCfg.value3 (qabs re)).isZero then
         (if im < 0 then si ++ ['j'] ++ c.toSFCfg.str (qabs im) else ['j'] ++ c.toSFCfg.str (qabs im))
       else sr ++ c.toSFCfg.str (qabs re) ++ si ++ ['j'] ++ c.toSFCfg.str (qabs im)) := by
  unfold SCCfg.str
  simp only [hpol, Bool.false_eq_true, ↓reduceIte, sc_real_sign_eq, sc_imag_sign_eq]
  rfl

/-- a fact about the rounding `rhe` used by the fixed-notation model (`fixedParts`): `rhe(|x|·10^n)/10^n` is within half a
unit of the `n`-th decimal of `|x|`.  It is *not* a statement about the characters of `fixedFmt` nor about the reader
`parseFixed`; the accuracy of the printed polar angle at the level of the text is unproved (oracle only). -/
theorem C18_fixed_accuracy (x : ℚ) (n : ℕ) :
    |(((rhe (qabs x * ((10 ^ n : ℕ) : ℚ)) : ℤ) : ℚ) / ((10 ^ n : ℕ) : ℚ) - (|x|))| ≤ 1 / (2 * ((10 ^ n : ℕ) : ℚ)) := by
  have hN : (0 : ℚ) < ((10 ^ n : ℕ) : ℚ) := by positivity
  have h := rhe_spec (qabs x * ((10 ^ n : ℕ) : ℚ))
  rw [qabs_eq_abs] at h ⊢
  have : ((rhe (|x| * ((10 ^ n : ℕ) : ℚ)) : ℤ) : ℚ) / ((10 ^ n : ℕ) : ℚ) - |x|
      = (((rhe (|x| * ((10 ^ n : ℕ) : ℚ)) : ℤ) : ℚ) - |x| * ((10 ^ n : ℕ) : ℚ)) / ((10 ^ n : ℕ) : ℚ) := by
    field_simp
  rw [this, abs_div, abs_of_pos hN, div_le_iff₀ hN]
  calc _ ≤ 1 / 2 := h
    _ = 1 / (2 * ((10 ^ n : ℕ) : ℚ)) * ((10 ^ n : ℕ) : ℚ) := by field_simp

/-- **C18_complex** (polar) — magnitude as a `ScientificFloat`, then the angle in fixed
notation (2 decimals and `°`, or 4 decimals); the angle is dropped only when it is at most
one unit of its last printed digit … here `10^-2` degrees, `10^-5` radians. -/
theorem C18_complex_polar (c : SCCfg) (re im absV angle : ℚ) (hpol : c.polar = true) :
    c.str re im absV angle =
      if c.deg then
        (if |angle| ≤ 1 / 100 then c.toSFCfg.str absV
         else c.toSFCfg.str absV ++ ['∠'] ++ fixedFmt angle 2 ++ ['°'])
      else
        (if |angle| ≤ 1 / 100000 then c.toSFCfg.str absV
         else c.toSFCfg.str absV ++ ['∠'] ++ fixedFmt angle 4) := by
  unfold SCCfg.str
  have e2 : pow10 sc_deg_log10_threshold = 1 / 100 := by decide +kernel
  have e5 : pow10 sc_rad_log10_threshold = 1 / 100000 := by decide +kernel
  simp only [hpol, ↓reduceIte, e2, e5, qabs_eq_abs]
  rfl

end CC

namespace CC
open CC.Fmt CC.Gen.Fmt

/-! ## the property at the level of the text -/

/-- a unit the reader can tell apart from the number: it does not start with a digit, a
decimal point or the exponent letter -/
def UnitOK (u : List Char) : Prop :=
  match u with
  | [] => True
  | c :: _ => isDigit c = false ∧ c ≠ '.' ∧ c ≠ 'e'
instance : Decidable (UnitOK u) := by unfold UnitOK; split <;> infer_instance

/-- configurations the property quantifies over: precision `p ≥ 1`; with prefixes, an
admissible SI table -/
def CfgOK (c : SFCfg) : Prop :=
  1 ≤ c.precision ∧ UnitOK c.unit ∧
    (c.usePrefix = true → c.table.Admissible ∧ c.table.si = true ∧ c.table.minKey % 3 = 0 ∧ c.table.maxKey % 3 = 0)

/-- the region in which `FloatPrecision.exponent` takes its `'1.0'` branch -/
def RoundsUpToOne (v : ℚ) (p : ℕ) : Prop := 1 - pow10 (-(p : ℤ)) / 2 ≤ |v| ∧ |v| < 1

/-- **C18 for real values, full strength**: for every `v ≠ 0` and every configuration the
text of `ScientificFloat` reads back to a number within half a unit of the `p`-th digit, in
engineering form, with the sign of `v`, saturating exactly beyond the range.  *False* for the
current code: see `C18_real_counterexample`. -/
def C18_real_statement : Prop :=
  ∀ (c : SFCfg) (v : ℚ), v ≠ 0 → CfgOK c → RealOK v c.precision (c.value3 v).maxExp c.unit (c.str v)

/-- **finding** — `-0.99996` at precision 4 is displayed as `0.0010e3V`: mantissa below 1,
sign lost, reads back as `+1`. -/
theorem C18_real_counterexample : ¬ C18_real_statement := by
  intro h
  have := h { unit := ['V'], precision := 4 } (-99996 / 100000) (by decide +kernel)
    ⟨by decide, by decide, by intro h; exact absurd h (by decide)⟩
  revert this
  decide +kernel

/-- the same text, explicitly -/
theorem C18_rounds_up_to_one_text :
    ({ unit := ['V'], precision := 4 } : SFCfg).str (-99996 / 100000) = ['0', '.', '0', '0', '1', '0', 'e', '3', 'V']
    ∧ exponent (-99996 / 100000) 4 = 0
    ∧ realFailures (-99996 / 100000) 4 16
        (parseBack ['V'] (({ unit := ['V'], precision := 4 } : SFCfg).str (-99996 / 100000)))
        = ["mantissa_range", "accuracy", "sign"] := by
  decide +kernel

/-- **open** — the exponent stage (`FloatPrecision.exponent`, through the `repr` model
`floatToString`) delivers the exponent of the `p`-th significant digit for every `v ≠ 0`
(regular, rounding carry, or the `'1.0'` branch). -/
def C18_exponent_decade_statement : Prop :=
  ∀ (v : ℚ) (p : ℕ), v ≠ 0 → 1 ≤ p → ExpOK v p (exponent v p)

/-- (proved: `C18_render`) — the digits assembled by `ScientificFloat.__str__` read back to exactly
`mantissa3 · 10^exponent3` with the sign of the mantissa (outside the `'1.0'` branch). -/
def C18_render_statement : Prop :=
  ∀ (c : SFCfg) (v : ℚ), v ≠ 0 → CfgOK c → ExpRegular v c.precision (exponent v c.precision) →
    (c.value3 v).isInf = false →
    ∃ q : Parsed, parseBack c.unit (c.str v) = some (.num q)
      ∧ q.exp = (c.value3 v).exponent3 ∧ q.mant = |(c.value3 v).mantissa3|
      ∧ (q.neg = true ↔ (c.value3 v).mantissa3 < 0)

/-- **open** — C18 for real values outside the `'1.0'` branch (the strongest true
restriction; follows from the two stage statements and the kernel theorems above). -/
def C18_real_partial_statement : Prop :=
  ∀ (c : SFCfg) (v : ℚ), v ≠ 0 → CfgOK c → ¬ RoundsUpToOne v c.precision →
    RealOK v c.precision (c.value3 v).maxExp c.unit (c.str v)

example : CfgOK { unit := ['V'], precision := 3, usePrefix := true, table := print_real_call0.table } :=
  ⟨by decide, by decide, fun _ => ⟨Table.admissible_sound (by decide), by decide, by decide, by decide⟩⟩

/-- **C18_tables_ends** — the smallest and the largest exponent of every prefix table are
multiples of three (so that the clamped prefix is an SI letter the reader knows). -/
theorem C18_tables_ends : all_tables.all (fun T => T.minKey % 3 == 0 && T.maxKey % 3 == 0) = true := by decide
example : ExpOK (1234 / 10) 3 (exponent (1234 / 10) 3) := by
  left; constructor <;> (rw [show exponent (1234 / 10) 3 = 0 by decide +kernel]; simp [pow10_eq_zpow]; norm_num)
example : RealOK (1234 / 10) 3 16 ['V'] (({ unit := ['V'], precision := 3 } : SFCfg).str (1234 / 10)) := by
  decide +kernel
example : RealOK (-9995 / 10000) 3 3 ['V']
    (({ unit := ['V'], precision := 3, usePrefix := true, table := print_real_call0.table } : SFCfg).str (-9995 / 10000)) := by
  decide +kernel

end CC

namespace CC
open CC.Fmt CC.Gen.Fmt

/-- **finding** — the Cartesian text of `-40.01 µA + j 847.9 µA` at precision 4 is `-40.01uA`:
the imaginary part, twenty times the real part and expressible with the prefix `u`, is left
out because `is_zero` compares the exponent of the *last* digit with `min_exp`
(`C18_suppressed_small`: the threshold is `10^(min_exp + p - 1)`, here `10^-3`). -/
theorem C18_complex_suppression_counterexample :
    printComplex (-4001 / 100000000) (8479 / 10000000) 0 0 ['A'] 4 false false = ['-', '4', '0', '.', '0', '1', 'u', 'A']
    ∧ printComplex (50 / 1000000) (80 / 1000000) 0 0 ['A'] 3 false false = ['5', '0', '.', '0', 'u', 'A'] := by
  decide +kernel

end CC


namespace CC
open CC.Fmt CC.Gen.Fmt

/-! ## the exponent stage where `repr` is positional -/

theorem exponent_small_unfold (v : ℚ) (p : ℕ) (h4 : 1 / 10000 ≤ qabs v) (h1 : qabs v < 1) :
    exponent v p =
      (let s2 := floatToString p
          (((rhe (qabs v * pow10 (lzExact (qabs v)) * pow10 p) : ℤ) : ℚ) / pow10 p / pow10 (lzExact (qabs v)))
       if s2.postZero then 0 else -((s2.lz : ℤ) + p)) := by
  unfold exponent
  simp only [floatToString_small p h4 h1, ↓reduceIte]

/-- **C18_exponent_decade** (positional range) — for `1e-4 ≤ |v| < 1e16` (where Python's `repr`
is positional) the exponent stage delivers the exponent of the `p`-th significant digit:
regular, rounding carry, or the `'1.0'` branch.  The two exponent-notation ranges are the
open part of `C18_exponent_decade_statement`. -/
theorem C18_exponent_decade_partial (v : ℚ) (p : ℕ) (hp : 1 ≤ p) (hv4 : 1 / 10000 ≤ |v|)
    (hv16 : |v| < 10000000000000000) : ExpOK v p (exponent v p) := by
  have habs := qabs_eq_abs v
  have h0 : 0 < qabs v := by rw [habs]; exact lt_of_lt_of_le (by norm_num) hv4
  rcases le_or_gt 1 (qabs v) with h1 | h1
  · -- |v| ≥ 1: regular
    left
    rw [exponent_of_ge_one v p h1 (by rw [habs]; exact hv16)]
    obtain ⟨a, b⟩ := decade_spec h0
    rw [habs] at a b
    constructor
    · rw [show decade (qabs v) + 1 - (p : ℤ) + p - 1 = decade (qabs v) by ring, habs]; exact a
    · rw [show decade (qabs v) + 1 - (p : ℤ) + p = decade (qabs v) + 1 by ring, habs]; exact b
  · -- 1e-4 ≤ |v| < 1
    have h4 : 1 / 10000 ≤ qabs v := by rw [habs]; exact hv4
    rw [exponent_small_unfold v p h4 h1]
    obtain ⟨hz1, hz2⟩ := lzExact_spec h0 h1
    set a := qabs v with ha
    set z := lzExact a with hz
    have hz3 : z ≤ 3 := by
      by_contra hgt
      have : pow10 (-(z : ℤ)) ≤ pow10 (-4) := pow10_le_pow10 (by omega)
      have e4 : pow10 (-4) = 1 / 10000 := by simp [pow10_eq_zpow]; norm_num
      rw [e4] at this; linarith
    have hpz := pow10_pos (z : ℤ)
    have hpp := pow10_pos (p : ℤ)
    -- X = a·10^z·10^p ∈ [10^(p-1), 10^p)
    have eLo : pow10 (-(z : ℤ) - 1) * pow10 z * pow10 p = pow10 ((p - 1 : ℕ) : ℤ) := by
      rw [← pow10_add, ← pow10_add]; congr 1; omega
    have eHi : pow10 (-(z : ℤ)) * pow10 z * pow10 p = pow10 (p : ℤ) := by
      rw [← pow10_add, ← pow10_add]; congr 1; omega
    have hXlo : pow10 ((p - 1 : ℕ) : ℤ) ≤ a * pow10 z * pow10 p := by
      have := mul_le_mul_of_nonneg_right (mul_le_mul_of_nonneg_right hz1 (le_of_lt hpz)) (le_of_lt hpp)
      rwa [eLo] at this
    have hXhi : a * pow10 z * pow10 p < pow10 (p : ℤ) := by
      have := mul_lt_mul_of_pos_right (mul_lt_mul_of_pos_right hz2 hpz) hpp
      rwa [eHi] at this
    have cLo : pow10 ((p - 1 : ℕ) : ℤ) = (((10 ^ (p - 1) : ℕ) : ℤ) : ℚ) := by rw [pow10_natCast']; push_cast; rfl
    have cHi : pow10 (p : ℤ) = (((10 ^ p : ℕ) : ℤ) : ℚ) := by rw [pow10_natCast']; push_cast; rfl
    have hRlo : ((10 ^ (p - 1) : ℕ) : ℤ) ≤ rhe (a * pow10 z * pow10 p) := le_rhe_of_le (by rw [← cLo]; exact hXlo)
    have hRhi : rhe (a * pow10 z * pow10 p) ≤ ((10 ^ p : ℕ) : ℤ) := rhe_le_of_le (by rw [← cHi]; exact le_of_lt hXhi)
    have hspec := rhe_spec (a * pow10 z * pow10 p)
    rw [abs_le] at hspec
    set R := rhe (a * pow10 z * pow10 p) with hR
    by_cases hcarry : R = ((10 ^ p : ℕ) : ℤ)
    · -- R = 10^p: the rounded value is 10^-z
      have hround : (R : ℚ) / pow10 p / pow10 z = pow10 (-(z : ℤ)) := by
        rw [hcarry, ← cHi, div_self (ne_of_gt hpp), one_div, pow10_eq_zpow, pow10_eq_zpow, zpow_neg]
      rw [hround]
      -- a ≥ 10^-z - 10^-(z+p)/2
      have hnear : pow10 (-(z : ℤ)) - pow10 (-(z : ℤ) - p) / 2 ≤ a := by
        have e1 : pow10 (-(z : ℤ) - p) = pow10 (-(z : ℤ)) / pow10 p := pow10_sub _ _
        have hX : pow10 (p : ℤ) - 1 / 2 ≤ a * pow10 z * pow10 p := by
          have : (R : ℚ) = pow10 (p : ℤ) := by rw [hcarry, cHi]
          linarith [hspec.2]
        have e2 : pow10 (-(z : ℤ)) * pow10 z = 1 := by rw [← pow10_add]; simp [pow10_zero]
        rw [e1]
        have hmz := pow10_pos (-(z : ℤ))
        -- multiply through by 10^z·10^p
        have : (pow10 (-(z : ℤ)) - pow10 (-(z : ℤ)) / pow10 p / 2) * (pow10 z * pow10 p) = pow10 p - 1 / 2 := by
          field_simp
          nlinarith [e2]
        have hpos : 0 < pow10 (z : ℤ) * pow10 (p : ℤ) := mul_pos hpz hpp
        by_contra hlt
        push Not at hlt
        have := mul_lt_mul_of_pos_right hlt hpos
        nlinarith
      by_cases hz0 : z = 0
      · -- the '1.0' branch
        right; right
        have e1 : pow10 (-(z : ℤ)) = 1 := by rw [hz0]; simp [pow10_zero]
        rw [e1, floatToString_one]
        simp only [↓reduceIte, true_and]
        rw [← habs]
        refine ⟨?_, h1⟩
        rw [hz0] at hnear
        simpa [pow10_zero] using hnear
      · -- carry into the next decade
        right; left
        have hz1' : 1 ≤ z := Nat.one_le_iff_ne_zero.mpr hz0
        have hlow : 1 / 10000 ≤ pow10 (-(z : ℤ)) := by
          have : pow10 (-4) ≤ pow10 (-(z : ℤ)) := pow10_le_pow10 (by omega)
          have e4 : pow10 (-4) = 1 / 10000 := by simp [pow10_eq_zpow]; norm_num
          rwa [e4] at this
        have hup : pow10 (-(z : ℤ)) < 1 := by
          have : pow10 (-(z : ℤ)) < pow10 0 := pow10_lt_pow10 (by omega)
          rwa [pow10_zero] at this
        have hlz : lzExact (pow10 (-(z : ℤ))) = z - 1 := by
          apply lzExact_unique
          · rw [show -((z - 1 : ℕ) : ℤ) - 1 = -(z : ℤ) by omega]
          · exact pow10_lt_pow10 (by omega)
        rw [floatToString_small p hlow hup, hlz]
        simp only [Bool.false_eq_true, ↓reduceIte]
        rw [← habs]
        have ee : -(((z - 1 : ℕ) : ℤ) + (p : ℤ)) + p - 1 = -(z : ℤ) := by omega
        have ee' : -(((z - 1 : ℕ) : ℤ) + (p : ℤ)) - 1 = -(z : ℤ) - p := by omega
        rw [ee, ee']
        exact ⟨hnear, hz2⟩
    · -- no carry: R ≤ 10^p - 1
      left
      have hRlt : R < ((10 ^ p : ℕ) : ℤ) := lt_of_le_of_ne hRhi hcarry
      have hRq_lo : pow10 ((p - 1 : ℕ) : ℤ) ≤ (R : ℚ) := by rw [cLo]; exact_mod_cast hRlo
      have hRq_hi : (R : ℚ) < pow10 (p : ℤ) := by rw [cHi]; exact_mod_cast hRlt
      have e10 : pow10 (p : ℤ) = 10 * pow10 ((p - 1 : ℕ) : ℤ) := by
        rw [← pow10_succ]; congr 1; omega
      have hr_lo : pow10 (-(z : ℤ) - 1) ≤ (R : ℚ) / pow10 p / pow10 z := by
        rw [le_div_iff₀ hpz, le_div_iff₀ hpp, eLo]; exact hRq_lo
      have hr_hi : (R : ℚ) / pow10 p / pow10 z < pow10 (-(z : ℤ)) := by
        rw [div_lt_iff₀ hpz, div_lt_iff₀ hpp, eHi]; exact hRq_hi
      have hlow : 1 / 10000 ≤ (R : ℚ) / pow10 p / pow10 z := by
        have : pow10 (-4) ≤ pow10 (-(z : ℤ) - 1) := pow10_le_pow10 (by omega)
        have e4 : pow10 (-4) = 1 / 10000 := by simp [pow10_eq_zpow]; norm_num
        rw [e4] at this; linarith
      have hup : (R : ℚ) / pow10 p / pow10 z < 1 := lt_of_lt_of_le hr_hi (pow10_le_one (by omega))
      rw [floatToString_small p hlow hup, lzExact_unique hr_lo hr_hi]
      simp only [Bool.false_eq_true, ↓reduceIte]
      rw [← habs]
      have ee : -((z : ℤ) + (p : ℤ)) + p - 1 = -(z : ℤ) - 1 := by ring
      have ee' : -((z : ℤ) + (p : ℤ)) + p = -(z : ℤ) := by ring
      rw [ee, ee']
      exact ⟨hz1, hz2⟩

example : ExpOK (99996 / 100000) 4 (exponent (99996 / 100000) 4) :=
  C18_exponent_decade_partial _ 4 (by norm_num) (by norm_num [abs_of_pos]) (by norm_num [abs_of_pos])

end CC

namespace CC
open CC.Fmt CC.Gen.Fmt

/-- **C18_accuracy** (positional range, unconditional) — for every rational `v` with
`1e-4 ≤ |v| < 1e16` and every `p ≥ 1`, the number `mantissa · 10^exponent` computed by
`FloatPrecision` is within half a unit of the `p`-th significant digit of `v`. -/
theorem C18_accuracy_positional (v : ℚ) (p : ℕ) (hp : 1 ≤ p) (hv4 : 1 / 10000 ≤ |v|) (hv16 : |v| < 10000000000000000) :
    Accurate v p (((fp_mantissa v (exponent v p) : ℤ) : ℚ) * pow10 (exponent v p)) :=
  C18_accuracy v p _ hp (C18_exponent_decade_partial v p hp hv4 hv16)

end CC

namespace CC
open CC.Fmt CC.Gen.Fmt

/-! ## the exponent stage where `repr` uses exponent notation (small values) -/

theorem exponent_unfold_of_intPart_zero (v : ℚ) (p : ℕ) {l : ℕ}
    (hfs : floatToString p (qabs v) = { intPart := 0, lz := l, postZero := false }) :
    exponent v p =
      (let s2 := floatToString p (((rhe (qabs v * pow10 l * pow10 p) : ℤ) : ℚ) / pow10 p / pow10 l)
       if s2.postZero then 0 else -((s2.lz : ℤ) + p)) := by
  unfold exponent
  simp only [hfs, ↓reduceIte]

/-- **C18_exponent_decade** (small values) — for `0 < |v| < 1e-4` (Python's `repr` in
exponent notation, `exponent` reads the digits of `'{:.nf}'`) the exponent stage delivers the
exponent of the `p`-th significant digit: regular or rounding carry. -/
theorem C18_exponent_decade_small (v : ℚ) (p : ℕ) (hp : 1 ≤ p) (hv0 : v ≠ 0) (hv4 : |v| < 1 / 10000) :
    ExpOK v p (exponent v p) := by
  have habs := qabs_eq_abs v
  have h0 : 0 < qabs v := by rw [habs]; exact abs_pos.mpr hv0
  have h4 : qabs v < 1 / 10000 := by rw [habs]; exact hv4
  have h1 : qabs v < 1 := lt_trans h4 (by norm_num)
  obtain ⟨hfs, hz4, hKlo, hKhi⟩ := floatToString_sci_small p h0 h4
  obtain ⟨hz1, hz2⟩ := lzExact_spec h0 h1
  have hKspec := rhe_spec (qabs v * ((10 ^ (lzExact (qabs v) + 2 + p) : ℕ) : ℚ))
  rw [exponent_unfold_of_intPart_zero v p hfs]
  simp only []
  set a := qabs v with ha
  set z := lzExact a with hz
  have hpp := pow10_pos (p : ℤ)
  have cHi : pow10 (p : ℤ) = (((10 ^ p : ℕ) : ℤ) : ℚ) := by rw [pow10_natCast']; push_cast; rfl
  have cLo : pow10 ((p - 1 : ℕ) : ℤ) = (((10 ^ (p - 1) : ℕ) : ℤ) : ℚ) := by rw [pow10_natCast']; push_cast; rfl
  -- the value 10^-z as a rounded value with R = 10^p
  have hB10 := floatToString_rounded hz4 hp (R := ((10 ^ p : ℕ) : ℤ))
    (by exact_mod_cast Nat.pow_le_pow_right (by norm_num : 0 < 10) (Nat.sub_le p 1)) le_rfl
  have e10 : ((((10 ^ p : ℕ) : ℤ)) : ℚ) / pow10 ((z + p : ℕ) : ℤ) = pow10 (-(z : ℤ)) := by
    rw [← cHi, ← pow10_sub]; congr 1; push_cast; ring
  rw [e10, if_pos rfl] at hB10
  by_cases hK : rhe (a * ((10 ^ (z + 2 + p) : ℕ) : ℚ)) = ((10 ^ (p + 2) : ℕ) : ℤ)
  · -- the digits of '{:.nf}' round up to 10^-z: exp0 = z - 1
    rw [if_pos hK]
    -- a ≥ 10^-z - 10^-(z+2+p)/2
    have hN : ((10 ^ (z + 2 + p) : ℕ) : ℚ) = pow10 ((z + 2 + p : ℕ) : ℤ) := (pow10_natCast' _).symm
    have hPn := pow10_pos ((z + 2 + p : ℕ) : ℤ)
    have hnear : pow10 (-(z : ℤ)) - pow10 (-((z + 2 + p : ℕ) : ℤ)) / 2 ≤ a := by
      rw [hK, hN, abs_le] at hKspec
      have e1 : pow10 (-(z : ℤ)) * pow10 ((z + 2 + p : ℕ) : ℤ) = (((10 ^ (p + 2) : ℕ) : ℤ) : ℚ) := by
        rw [← pow10_add, show -(z : ℤ) + ((z + 2 + p : ℕ) : ℤ) = ((p + 2 : ℕ) : ℤ) by push_cast; ring, pow10_natCast']
        push_cast; rfl
      have e2 : pow10 (-((z + 2 + p : ℕ) : ℤ)) * pow10 ((z + 2 + p : ℕ) : ℤ) = 1 := by
        rw [← pow10_add, show -((z + 2 + p : ℕ) : ℤ) + ((z + 2 + p : ℕ) : ℤ) = 0 by ring, pow10_zero]
      by_contra hlt
      push Not at hlt
      have := mul_lt_mul_of_pos_right hlt hPn
      nlinarith [hKspec.2]
    have hz1' : 1 ≤ z := by omega
    -- X = a·10^(z-1)·10^p rounds to 10^(p-1)
    have hXeq : rhe (a * pow10 ((z - 1 : ℕ) : ℤ) * pow10 (p : ℤ)) = ((10 ^ (p - 1) : ℕ) : ℤ) := by
      apply rhe_eq_of_near
      rw [← cLo, abs_lt]
      have eS : pow10 ((z - 1 : ℕ) : ℤ) * pow10 (p : ℤ) = pow10 ((z : ℤ) + p - 1) := by
        rw [← pow10_add]; congr 1; omega
      have hS := pow10_pos ((z : ℤ) + p - 1)
      have e1 : pow10 (-(z : ℤ)) * pow10 ((z : ℤ) + p - 1) = pow10 ((p - 1 : ℕ) : ℤ) := by
        rw [← pow10_add]; congr 1; omega
      have e2 : pow10 (-((z + 2 + p : ℕ) : ℤ)) * pow10 ((z : ℤ) + p - 1) = pow10 (-3) := by
        rw [← pow10_add]; congr 1; push_cast; ring
      have e3 : pow10 (-3) = 1 / 1000 := by simp [pow10_eq_zpow]; norm_num
      rw [mul_assoc, eS]
      constructor
      · have := mul_le_mul_of_nonneg_right hnear (le_of_lt hS)
        rw [sub_mul, e1, div_mul_eq_mul_div, e2, e3] at this
        linarith
      · have := mul_lt_mul_of_pos_right hz2 hS
        rw [e1] at this; linarith
    have hcast : ((z - 1 : ℕ) : ℤ) = ((z - 1 : ℕ) : ℤ) := rfl
    rw [hXeq]
    have hround : ((((10 ^ (p - 1) : ℕ) : ℤ)) : ℚ) / pow10 (p : ℤ) / pow10 ((z - 1 : ℕ) : ℤ) = pow10 (-(z : ℤ)) := by
      rw [← cLo, ← pow10_sub, ← pow10_sub]; congr 1; omega
    rw [hround, hB10]
    simp only [Bool.false_eq_true, ↓reduceIte]
    right; left
    rw [← habs]
    have ee : -(((z - 1 : ℕ) : ℤ) + (p : ℤ)) + p - 1 = -(z : ℤ) := by omega
    have ee' : -(((z - 1 : ℕ) : ℤ) + (p : ℤ)) - 1 = -(z : ℤ) - p := by omega
    rw [ee, ee']
    refine ⟨?_, hz2⟩
    have : pow10 (-((z + 2 + p : ℕ) : ℤ)) ≤ pow10 (-(z : ℤ) - p) := pow10_le_pow10 (by push_cast; omega)
    linarith
  · -- exp0 = z
    rw [if_neg hK]
    have hpz := pow10_pos (z : ℤ)
    have eLo : pow10 (-(z : ℤ) - 1) * pow10 z * pow10 p = pow10 ((p - 1 : ℕ) : ℤ) := by
      rw [← pow10_add, ← pow10_add]; congr 1; omega
    have eHi : pow10 (-(z : ℤ)) * pow10 z * pow10 p = pow10 (p : ℤ) := by
      rw [← pow10_add, ← pow10_add]; congr 1; omega
    have hXlo : pow10 ((p - 1 : ℕ) : ℤ) ≤ a * pow10 z * pow10 p := by
      have := mul_le_mul_of_nonneg_right (mul_le_mul_of_nonneg_right hz1 (le_of_lt hpz)) (le_of_lt hpp)
      rwa [eLo] at this
    have hXhi : a * pow10 z * pow10 p < pow10 (p : ℤ) := by
      have := mul_lt_mul_of_pos_right (mul_lt_mul_of_pos_right hz2 hpz) hpp
      rwa [eHi] at this
    have hRlo : ((10 ^ (p - 1) : ℕ) : ℤ) ≤ rhe (a * pow10 z * pow10 p) := le_rhe_of_le (by rw [← cLo]; exact hXlo)
    have hRhi : rhe (a * pow10 z * pow10 p) ≤ ((10 ^ p : ℕ) : ℤ) := rhe_le_of_le (by rw [← cHi]; exact le_of_lt hXhi)
    have hspec := rhe_spec (a * pow10 z * pow10 p)
    rw [abs_le] at hspec
    set R := rhe (a * pow10 z * pow10 p) with hR
    have hform : (R : ℚ) / pow10 p / pow10 z = (R : ℚ) / pow10 ((z + p : ℕ) : ℤ) := by
      rw [div_div, ← pow10_add]; congr 2; push_cast; ring
    rw [hform, floatToString_rounded hz4 hp hRlo hRhi]
    simp only [Bool.false_eq_true, ↓reduceIte]
    by_cases hcarry : R = ((10 ^ p : ℕ) : ℤ)
    · rw [if_pos hcarry]
      right; left
      rw [← habs]
      have ee : -(((z - 1 : ℕ) : ℤ) + (p : ℤ)) + p - 1 = -(z : ℤ) := by omega
      have ee' : -(((z - 1 : ℕ) : ℤ) + (p : ℤ)) - 1 = -(z : ℤ) - p := by omega
      rw [ee, ee']
      refine ⟨?_, hz2⟩
      have e1 : pow10 (-(z : ℤ) - p) = pow10 (-(z : ℤ)) / pow10 p := pow10_sub _ _
      have hX : pow10 (p : ℤ) - 1 / 2 ≤ a * pow10 z * pow10 p := by
        have : (R : ℚ) = pow10 (p : ℤ) := by rw [hcarry, cHi]
        linarith [hspec.2]
      have e2 : pow10 (-(z : ℤ)) * pow10 z = 1 := by rw [← pow10_add]; simp [pow10_zero]
      rw [e1]
      have : (pow10 (-(z : ℤ)) - pow10 (-(z : ℤ)) / pow10 p / 2) * (pow10 z * pow10 p) = pow10 p - 1 / 2 := by
        field_simp
        nlinarith [e2]
      have hpos : 0 < pow10 (z : ℤ) * pow10 (p : ℤ) := mul_pos hpz hpp
      by_contra hlt
      push Not at hlt
      have := mul_lt_mul_of_pos_right hlt hpos
      nlinarith
    · rw [if_neg hcarry]
      left
      rw [← habs]
      have ee : -((z : ℤ) + (p : ℤ)) + p - 1 = -(z : ℤ) - 1 := by ring
      have ee' : -((z : ℤ) + (p : ℤ)) + p = -(z : ℤ) := by ring
      rw [ee, ee']
      exact ⟨hz1, hz2⟩

/-- **C18_exponent_decade** (whole property domain) — for every rational `v ≠ 0` with
`|v| < 1e16` (the property quantifies over `1e-15 … 1e15`) and every `p ≥ 1`. -/
theorem C18_exponent_decade_domain (v : ℚ) (p : ℕ) (hp : 1 ≤ p) (hv0 : v ≠ 0) (hv16 : |v| < 10000000000000000) :
    ExpOK v p (exponent v p) := by
  rcases lt_or_ge |v| (1 / 10000) with h | h
  · exact C18_exponent_decade_small v p hp hv0 h
  · exact C18_exponent_decade_partial v p hp h hv16

/-- **C18_accuracy** (whole property domain, unconditional) — for every rational `v ≠ 0`,
`|v| < 1e16`, and every `p ≥ 1`, `mantissa · 10^exponent` as computed by `FloatPrecision` is
within half a unit of the `p`-th significant digit of `v`. -/
theorem C18_accuracy_domain (v : ℚ) (p : ℕ) (hp : 1 ≤ p) (hv0 : v ≠ 0) (hv16 : |v| < 10000000000000000) :
    Accurate v p (((fp_mantissa v (exponent v p) : ℤ) : ℚ) * pow10 (exponent v p)) :=
  C18_accuracy v p _ hp (C18_exponent_decade_domain v p hp hv0 hv16)

example : ExpOK (47 / 10000000000) 2 (exponent (47 / 10000000000) 2) :=
  C18_exponent_decade_domain _ 2 (by norm_num) (by norm_num) (by norm_num [abs_of_pos])

end CC

namespace CC
open CC.Fmt CC.Gen.Fmt

/-! ## unconditional corollaries on the property domain -/

/-- with a regular exponent stage the mantissa has `p` digits (or is `±10^(p-1)` after the
carry): `10^(p-1) ≤ |mantissa| ≤ 10^p` -/
theorem mantissa_digits (v : ℚ) (p : ℕ) (e : ℤ) (hp : 1 ≤ p) (h : ExpRegular v p e) :
    pow10 ((p : ℤ) - 1) ≤ |((fp_mantissa v e : ℤ) : ℚ)| ∧ |((fp_mantissa v e : ℤ) : ℚ)| ≤ pow10 (p : ℤ) := by
  have hpe := pow10_pos e
  have hp' : (1 : ℤ) ≤ p := by exact_mod_cast hp
  have cHi : pow10 (p : ℤ) = (((10 ^ p : ℕ) : ℤ) : ℚ) := by rw [pow10_natCast']; push_cast; rfl
  have cLo : pow10 ((p : ℤ) - 1) = (((10 ^ (p - 1) : ℕ) : ℤ) : ℚ) := by
    rw [show (p : ℤ) - 1 = ((p - 1 : ℕ) : ℤ) by omega, pow10_natCast']; push_cast; rfl
  have eA : pow10 (e + p - 1) = pow10 ((p : ℤ) - 1) * pow10 e := by rw [← pow10_add]; congr 1; ring
  have eB : pow10 (e + p) = pow10 (p : ℤ) * pow10 e := by rw [← pow10_add]; congr 1; ring
  have hle : (((10 ^ (p - 1) : ℕ) : ℤ)) ≤ ((10 ^ p : ℕ) : ℤ) := by
    exact_mod_cast Nat.pow_le_pow_right (by norm_num : 0 < 10) (Nat.sub_le p 1)
  unfold fp_mantissa
  -- it suffices to bound the integer rhe (v / 10^e) between ±10^(p-1) and ±10^p
  suffices hint : (((10 ^ (p - 1) : ℕ) : ℤ) ≤ rhe (v / pow10 e) ∧ rhe (v / pow10 e) ≤ ((10 ^ p : ℕ) : ℤ))
      ∨ (-(((10 ^ p : ℕ) : ℤ)) ≤ rhe (v / pow10 e) ∧ rhe (v / pow10 e) ≤ -(((10 ^ (p - 1) : ℕ) : ℤ))) by
    have h10 : (0 : ℤ) < ((10 ^ (p - 1) : ℕ) : ℤ) := by positivity
    rw [cLo, cHi]
    rcases hint with ⟨a, b⟩ | ⟨a, b⟩
    · rw [abs_of_nonneg (by exact_mod_cast le_trans (le_of_lt h10) a)]
      exact ⟨by exact_mod_cast a, by exact_mod_cast b⟩
    · have hneg : ((rhe (v / pow10 e) : ℤ) : ℚ) ≤ 0 := by exact_mod_cast (by omega : rhe (v / pow10 e) ≤ 0)
      rw [abs_of_nonpos hneg]
      constructor
      · have : (((10 ^ (p - 1) : ℕ) : ℤ)) ≤ -rhe (v / pow10 e) := by omega
        exact_mod_cast this
      · have : -rhe (v / pow10 e) ≤ ((10 ^ p : ℕ) : ℤ) := by omega
        exact_mod_cast this
  rcases h with ⟨h1, h2⟩ | ⟨h1, h2⟩
  · -- regular
    rcases le_or_gt 0 v with hv | hv
    · rw [abs_of_nonneg hv] at h1 h2
      left
      constructor
      · apply le_rhe_of_le; rw [← cLo, le_div_iff₀ hpe, ← eA]; exact h1
      · apply rhe_le_of_le; rw [← cHi, div_le_iff₀ hpe, ← eB]; exact le_of_lt h2
    · rw [abs_of_neg hv] at h1 h2
      right
      constructor
      · apply le_rhe_of_le; rw [Int.cast_neg, ← cHi, le_div_iff₀ hpe, neg_mul, ← eB]; linarith
      · apply rhe_le_of_le; rw [Int.cast_neg, ← cLo, div_le_iff₀ hpe, neg_mul, ← eA]; linarith
  · -- carry: the mantissa is ±10^(p-1)
    have hq' : pow10 (e - 1) = pow10 e / 10 := pow10_pred e
    have hpow : pow10 e ≤ pow10 (e + p - 1) := pow10_le_pow10 (by omega)
    rcases le_or_gt 0 v with hv | hv
    · rw [abs_of_nonneg hv] at h1 h2
      left
      have hnear : |v / pow10 e - (((10 ^ (p - 1) : ℕ) : ℤ) : ℚ)| < 1 / 2 := by
        rw [← cLo, abs_lt]
        constructor
        · rw [lt_sub_iff_add_lt, lt_div_iff₀ hpe]; rw [eA, hq'] at h1; nlinarith
        · rw [sub_lt_iff_lt_add, div_lt_iff₀ hpe]; rw [eA] at h2; nlinarith
      rw [rhe_eq_of_near hnear]; exact ⟨le_rfl, hle⟩
    · rw [abs_of_neg hv] at h1 h2
      right
      have hnear : |v / pow10 e - ((-((10 ^ (p - 1) : ℕ) : ℤ) : ℤ) : ℚ)| < 1 / 2 := by
        rw [Int.cast_neg, ← cLo, abs_lt]
        constructor
        · rw [lt_sub_iff_add_lt, lt_div_iff₀ hpe]; rw [eA] at h2; nlinarith
        · rw [sub_lt_iff_lt_add, div_lt_iff₀ hpe]; rw [eA, hq'] at h1; nlinarith
      rw [rhe_eq_of_near hnear]; exact ⟨by omega, le_rfl⟩

theorem ExpOK.regular_of_not_roundsUp {v : ℚ} {p : ℕ} {e : ℤ} (h : ExpOK v p e) (hn : ¬ RoundsUpToOne v p) :
    ExpRegular v p e := by
  rcases h with h | h | ⟨_, h1, h2⟩
  · exact Or.inl h
  · exact Or.inr h
  · exact absurd ⟨h1, h2⟩ hn

/-- **C18_mantissa_range** (property domain, unconditional) — for every rational `v ≠ 0`,
`|v| < 1e16`, every `p ≥ 1`, outside the rounds-up-to-one region, the mantissa scaled to the
engineering exponent satisfies `1 ≤ |mantissa3| ≤ 1000`. -/
theorem C18_mantissa_range_domain (v : ℚ) (p : ℕ) (hp : 1 ≤ p) (hv0 : v ≠ 0) (hv16 : |v| < 10000000000000000)
    (hn : ¬ RoundsUpToOne v p) :
    1 ≤ |f3_mantissa3 (fp_mantissa v (exponent v p)) (exponent v p) (f3_exponent3 p (exponent v p))|
    ∧ |f3_mantissa3 (fp_mantissa v (exponent v p)) (exponent v p) (f3_exponent3 p (exponent v p))| ≤ 1000 := by
  have hreg := (C18_exponent_decade_domain v p hp hv0 hv16).regular_of_not_roundsUp hn
  obtain ⟨a, b⟩ := mantissa_digits v p _ hp hreg
  exact C18_mantissa_range _ p _ a b

/-- **C18_saturate** (property domain, unconditional) — outside the rounds-up-to-one region
`is_inf` holds for every value beyond `1000·10^max_exp` and only for values that reach that
bound after rounding to `p` digits; its text is `∞` / `-∞` with the sign of `v`.
(Under `|v| < 1e16` the first conjunct is vacuous for every configuration without prefixes — `max_exp = 16`, so
`Beyond` needs `|v| ≥ 1e19`; it has content for the prefix tables, whose ends lie below 1e16.) -/
theorem C18_saturate_domain (c : SFCfg) (v : ℚ) (hp : 1 ≤ c.precision) (hv0 : v ≠ 0) (hv16 : |v| < 10000000000000000)
    (hn : ¬ RoundsUpToOne v c.precision) :
    (Beyond v (c.value3 v).maxExp → (c.value3 v).isInf = true)
    ∧ ((c.value3 v).isInf = true → BeyondRounded v c.precision (c.value3 v).maxExp
        ∧ c.str v = if 0 < v then ['∞'] else ['-', '∞']) := by
  have hok := C18_exponent_decade_domain v c.precision hp hv0 hv16
  have hreg := hok.regular_of_not_roundsUp hn
  obtain ⟨s1, s2⟩ := C18_saturate v c.precision (exponent v c.precision) (c.value3 v).maxExp hp hreg
  refine ⟨s1, fun hinf => ⟨s2 hinf, ?_⟩⟩
  rw [C18_saturate_text c v hinf]
  obtain ⟨m1, m2⟩ := C18_mantissa_sign v c.precision (exponent v c.precision) hp hok
  rcases lt_or_gt_of_ne hv0 with hv | hv
  · have : ¬ (0 ≤ (c.value3 v).mantissa) := by
      have := m2 hv
      show ¬ (0 ≤ fp_mantissa v (exponent v c.precision)); omega
    rw [if_neg this, if_neg (not_lt.mpr (le_of_lt hv))]
  · have : 0 ≤ (c.value3 v).mantissa := by
      have := m1 hv
      show 0 ≤ fp_mantissa v (exponent v c.precision); omega
    rw [if_pos this, if_pos hv]

example : ¬ RoundsUpToOne (1234 / 10) 3 := by
  unfold RoundsUpToOne; rw [abs_of_pos (by norm_num)]; norm_num

end CC

namespace CC
open CC.Fmt CC.Gen.Fmt

/-! ## the text reads back to `mantissa3 · 10^exponent3` -/

theorem UnitOK.noNum {u : List Char} (h : UnitOK u) : NoNum u := by
  cases u with
  | nil => trivial
  | cons c t => exact h

/-- `C18_prefix_clamp` with the exponent of the printed prefix a multiple of three (tables whose
smallest and largest exponent are multiples of three) -/
theorem prefix_clamp3 (T : Table) (hT : T.Admissible) (hmin : T.minKey % 3 = 0) (hmax : T.maxKey % 3 = 0)
    (e3 : ℤ) (h3 : e3 % 3 = 0) :
    ∃ k : ℤ, k % 3 = 0 ∧ ((k = 0 ∧ sf_exp_prefix true T e3 = []) ∨ (k, sf_exp_prefix true T e3) ∈ T)
      ∧ sf_rebase_exp true T e3 + k = e3 := by
  obtain ⟨hne, hadm⟩ := hT
  have hkeys : T.keys ≠ [] := by
    intro h; apply hne; cases T with
    | nil => rfl
    | cons a t => simp [Table.keys] at h
  obtain ⟨hmaxmem, hmaxle⟩ := listMax_spec hkeys
  obtain ⟨hminmem, hminle⟩ := listMin_spec hkeys
  change T.maxKey ∈ T.keys at hmaxmem
  change T.minKey ∈ T.keys at hminmem
  change ∀ x ∈ T.keys, x ≤ T.maxKey at hmaxle
  change ∀ x ∈ T.keys, T.minKey ≤ x at hminle
  unfold sf_exp_prefix sf_rebase_exp
  simp only [Bool.not_true, Bool.false_eq_true, ↓reduceIte]
  by_cases hgt : e3 > T.maxKey
  · have hnot : T.has e3 = false := by
      rw [Bool.eq_false_iff]; intro h
      have := hmaxle e3 ((Table.has_iff T e3).mp h); omega
    refine ⟨T.maxKey, hmax, Or.inr ?_, ?_⟩
    · simp only [hgt, decide_true, ↓reduceIte]; exact Table.get_mem T _ hmaxmem
    · simp [hnot, hgt]
  · by_cases hlt : e3 < T.minKey
    · have hnot : T.has e3 = false := by
        rw [Bool.eq_false_iff]; intro h
        have := hminle e3 ((Table.has_iff T e3).mp h); omega
      refine ⟨T.minKey, hmin, Or.inr ?_, ?_⟩
      · simp only [hgt, decide_false, Bool.false_eq_true, ↓reduceIte, hlt, decide_true]
        exact Table.get_mem T _ hminmem
      · simp [hnot, hgt, hlt]
    · by_cases hhas : T.has e3 = true
      · refine ⟨e3, h3, Or.inr ?_, ?_⟩
        · simp only [hgt, decide_false, Bool.false_eq_true, ↓reduceIte, hlt, hhas]
          exact Table.get_mem T _ ((Table.has_iff T e3).mp hhas)
        · simp [hhas]
      · have h0 : e3 = 0 := by
          by_contra hne0
          exact hhas (hadm e3 h3 (by omega) (by omega) hne0)
        subst h0
        have hgt' : ¬ (T.maxKey < 0) := by omega
        have hlt' : ¬ (0 < T.minKey) := by omega
        refine ⟨0, rfl, Or.inl ⟨rfl, ?_⟩, ?_⟩
        · simp [hgt, hlt, hhas]
        · simp [hgt', hlt']

theorem exp_extension_eq (u : Bool) (T : Table) (e3 : ℤ) :
    sf_exp_extension u T e3 = if sf_rebase_exp u T e3 = 0 then [] else 'e' :: intStr (sf_rebase_exp u T e3) := by
  unfold sf_exp_extension
  by_cases h : sf_rebase_exp u T e3 = 0 <;> simp [h]

/-- the `post` decimals printed for the scaled mantissa are exact: `|mantissa3| · 10^post` is a
natural number (`post = p - #digits ⌊|mantissa3|⌋`), for a `p`-digit mantissa or `±10^p` -/
theorem mantissa3_integral (M p e : ℤ) (hp : 1 ≤ p) (hlo : pow10 (p - 1) ≤ |(M : ℚ)|) (hhi : |(M : ℚ)| ≤ pow10 p)
    (post : ℕ) (hpost : ∀ r : ℕ, |f3_mantissa3 M e (f3_exponent3 p e)| < pow10 ((r : ℤ) + 1) → p - r - 1 ≤ (post : ℤ)) :
    ∃ N : ℕ, |f3_mantissa3 M e (f3_exponent3 p e)| * ((10 ^ post : ℕ) : ℚ) = (N : ℚ) := by
  have hform : |f3_mantissa3 M e (f3_exponent3 p e)| = |(M : ℚ)| * pow10 ((p + e - 1) % 3 - (p - 1)) := by
    unfold f3_mantissa3
    rw [exponent3_eq, abs_mul, abs_of_pos (pow10_pos _)]
    congr 2; omega
  obtain ⟨r, hr, hr3⟩ : ∃ r : ℕ, ((p + e - 1) % 3 = (r : ℤ)) ∧ r < 3 :=
    ⟨((p + e - 1) % 3).toNat, by omega, by omega⟩
  rw [hr] at hform
  have hMnat : |(M : ℚ)| = ((M.natAbs : ℕ) : ℚ) := by
    rw [← Int.cast_abs, Int.abs_eq_natAbs]; simp
  rcases eq_or_lt_of_le hhi with heq | hlt
  · -- carry: |m3| = 10^(r+1)
    refine ⟨10 ^ (r + 1) * 10 ^ post, ?_⟩
    rw [hform, heq, ← pow10_add, show p + ((r : ℤ) - (p - 1)) = ((r + 1 : ℕ) : ℤ) by push_cast; ring, pow10_natCast']
    push_cast; ring
  · -- p digits: post + (r - p + 1) ≥ 0
    have hm3lt : |f3_mantissa3 M e (f3_exponent3 p e)| < pow10 ((r : ℤ) + 1) := by
      rw [hform]
      have := mul_lt_mul_of_pos_right hlt (pow10_pos ((r : ℤ) - (p - 1)))
      rwa [← pow10_add, show p + ((r : ℤ) - (p - 1)) = (r : ℤ) + 1 by ring] at this
    have hj := hpost r hm3lt
    obtain ⟨j, hj'⟩ : ∃ j : ℕ, (j : ℤ) = (r : ℤ) - (p - 1) + post := ⟨((r : ℤ) - (p - 1) + post).toNat, by omega⟩
    refine ⟨M.natAbs * 10 ^ j, ?_⟩
    rw [hform, hMnat, mul_assoc, ← pow10_natCast' post, ← pow10_add, ← hj', pow10_natCast']
    push_cast; ring

end CC

namespace CC
open CC.Fmt CC.Gen.Fmt

theorem str_of_not_inf (c : SFCfg) (v : ℚ) (h : (c.value3 v).isInf = false) :
    c.str v = mantissaText (c.value3 v).mantissa3 c.precision
      ++ (sf_exp_extension c.usePrefix c.table (c.value3 v).exponent3
          ++ (sf_exp_prefix c.usePrefix c.table (c.value3 v).exponent3 ++ c.unit)) := by
  unfold SFCfg.str
  simp only [h, Bool.false_eq_true, ↓reduceIte, List.append_assoc]

/-- **C18_render** — the verified round trip: for every configuration (`p ≥ 1`, a unit the
reader can tell apart from a number, with prefixes an admissible SI table) and every value
whose exponent stage is regular and that is not saturated, the reader applied to the text of
`ScientificFloat.__str__` returns a number with exactly the mantissa `|mantissa3|`, the sign of
`mantissa3`, and explicit exponent plus prefix denoting exactly `exponent3`. -/
theorem C18_render : C18_render_statement := by
  intro c v _hv0 hcfg hreg hinf
  obtain ⟨hp, hunit, htab⟩ := hcfg
  have hm3 : (c.value3 v).mantissa3
      = f3_mantissa3 (fp_mantissa v (exponent v c.precision)) (exponent v c.precision)
          (f3_exponent3 c.precision (exponent v c.precision)) := rfl
  have he3 : (c.value3 v).exponent3 = f3_exponent3 c.precision (exponent v c.precision) := rfl
  obtain ⟨dlo, dhi⟩ := mantissa_digits v c.precision (exponent v c.precision) hp hreg
  obtain ⟨r1, _r2⟩ := C18_mantissa_range _ (c.precision : ℤ) (exponent v c.precision) dlo dhi
  rw [← hm3] at r1
  set m3 := (c.value3 v).mantissa3 with hm3def
  set e3 := (c.value3 v).exponent3 with he3def
  -- the printed decimals are exact
  have hfl1 : (1 : ℤ) ≤ ⌊|m3|⌋ := Int.le_floor.mpr (by simpa using r1)
  have hN : ∃ N : ℕ, |m3| * ((10 ^ (c.precision - numDigits ⌊|m3|⌋.toNat) : ℕ) : ℚ) = (N : ℚ) := by
    have key := mantissa3_integral (fp_mantissa v (exponent v c.precision)) (c.precision : ℤ) (exponent v c.precision)
      (by exact_mod_cast hp) dlo dhi (c.precision - numDigits ⌊|m3|⌋.toNat)
    rw [← hm3] at key
    apply key
    intro r hr
    have hip1 : 1 ≤ ⌊|m3|⌋.toNat := by omega
    obtain ⟨a, _, _⟩ := numDigits_spec hip1
    have hipq : ((⌊|m3|⌋.toNat : ℕ) : ℚ) ≤ |m3| := by
      have : ((⌊|m3|⌋.toNat : ℕ) : ℤ) = ⌊|m3|⌋ := Int.toNat_of_nonneg (by omega)
      have h2 : ((⌊|m3|⌋.toNat : ℕ) : ℚ) = ((⌊|m3|⌋ : ℤ) : ℚ) := by exact_mod_cast congrArg (fun z : ℤ => (z : ℚ)) this
      rw [h2]; exact Int.floor_le _
    have hlt : ⌊|m3|⌋.toNat < 10 ^ (r + 1) := by
      have : ((⌊|m3|⌋.toNat : ℕ) : ℚ) < ((10 ^ (r + 1) : ℕ) : ℚ) := by
        rw [← pow10_natCast']; push_cast; linarith
      exact_mod_cast this
    have hnd : numDigits ⌊|m3|⌋.toNat ≤ r + 1 := by
      by_contra hgt
      have : 10 ^ (r + 1) ≤ 10 ^ (numDigits ⌊|m3|⌋.toNat - 1) := Nat.pow_le_pow_right (by norm_num) (by omega)
      omega
    omega
  obtain ⟨F, hF, htext, hmant⟩ := mantissaText_render m3 c.precision r1 hN
  -- exponent extension and prefix
  have h3 : e3 % 3 = 0 := by rw [he3]; exact C18_exp3 _ _
  obtain ⟨k, hk, hsum⟩ : ∃ k : ℤ,
      ((sf_exp_prefix c.usePrefix c.table e3 = [] ∧ k = 0) ∨ ∃ ch, sf_exp_prefix c.usePrefix c.table e3 = [ch] ∧ siExp ch = some k)
      ∧ sf_rebase_exp c.usePrefix c.table e3 + k = e3 := by
    cases hu : c.usePrefix with
    | false => exact ⟨0, Or.inl ⟨rfl, rfl⟩, by simp [sf_rebase_exp]⟩
    | true =>
      obtain ⟨hadm, hsi, hmin, hmax⟩ := htab hu
      obtain ⟨k, hk3, hmem, hsum⟩ := prefix_clamp3 c.table hadm hmin hmax e3 h3
      refine ⟨k, ?_, hsum⟩
      rcases hmem with ⟨hk0, hpf⟩ | hmem
      · exact Or.inl ⟨hpf, hk0⟩
      · obtain ⟨ch, hch, hsi'⟩ := Table.si_sound hsi hmem hk3
        exact Or.inr ⟨ch, hch, hsi'⟩
  have hstr := str_of_not_inf c v hinf
  rw [← hm3def, ← he3def, htext, exp_extension_eq] at hstr
  have hP := parseBack_render c.unit hunit.noNum (decide (m3 < 0)) ⌊|m3|⌋.toNat F
    (c.precision - numDigits ⌊|m3|⌋.toNat) hF (sf_rebase_exp c.usePrefix c.table e3)
    (sf_exp_prefix c.usePrefix c.table e3) k hk
  rw [← hstr] at hP
  refine ⟨_, hP, ?_, ?_, ?_⟩
  · exact hsum
  · unfold Parsed.mant
    simp only
    convert hmant using 3
  · simp

end CC

namespace CC
open CC.Fmt CC.Gen.Fmt

/-! ## C18 at the level of the text -/

theorem parseBack_inf_pos (u : List Char) : parseBack u ['∞'] = some (.inf false) := by
  unfold parseBack; simp

theorem parseBack_inf_neg (u : List Char) : parseBack u ['-', '∞'] = some (.inf true) := by
  unfold parseBack; simp

/-- **C18 for real values on the property domain** — for every configuration (`CfgOK`), every
rational `v ≠ 0` with `|v| < 1e16` outside the rounds-up-to-one region: the text of
`ScientificFloat` reads back (`parseBack`) to a number within half a unit of the `p`-th
significant digit of `v`, with an exponent (explicit + prefix) that is a multiple of three, a
mantissa in `[1, 1000]` and the sign of `v`; it is `∞`/`-∞` with the sign of `v` exactly beyond
the range (`RealOK`, all clauses, no allowance). -/
theorem C18_real_domain (c : SFCfg) (v : ℚ) (hv0 : v ≠ 0) (hcfg : CfgOK c) (hn : ¬ RoundsUpToOne v c.precision)
    (hv16 : |v| < 10000000000000000) :
    RealOK v c.precision (c.value3 v).maxExp c.unit (c.str v) := by
  have hp := hcfg.1
  have hok := C18_exponent_decade_domain v c.precision hp hv0 hv16
  have hreg := hok.regular_of_not_roundsUp hn
  obtain ⟨sat1, sat2⟩ := C18_saturate_domain c v hp hv0 hv16 hn
  unfold RealOK
  cases hinf : (c.value3 v).isInf with
  | true =>
    obtain ⟨hbr, htxt⟩ := sat2 hinf
    unfold BeyondRounded at hbr
    rw [htxt]
    rcases lt_or_gt_of_ne hv0 with hneg | hpos
    · rw [if_neg (not_lt.mpr (le_of_lt hneg)), parseBack_inf_neg]
      simp [realFailures, hbr, hneg]
    · rw [if_pos hpos, parseBack_inf_pos]
      simp [realFailures, hbr, not_lt.mpr (le_of_lt hpos)]
  | false =>
    obtain ⟨q, hq, hexp, hmant, hneg⟩ := C18_render c v hv0 hcfg hreg hinf
    rw [hq]
    have hm3 : (c.value3 v).mantissa3
        = ((fp_mantissa v (exponent v c.precision) : ℤ) : ℚ)
            * pow10 (exponent v c.precision - f3_exponent3 c.precision (exponent v c.precision)) := rfl
    have he3 : (c.value3 v).exponent3 = f3_exponent3 c.precision (exponent v c.precision) := rfl
    -- clauses
    have c1 : ¬ Beyond v (c.value3 v).maxExp := by
      intro hb; have := sat1 hb; rw [hinf] at this; exact absurd this (by simp)
    have c2 : q.exp % 3 = 0 := by rw [hexp, he3]; exact C18_exp3 _ _
    obtain ⟨r1, r2⟩ := C18_mantissa_range_domain v c.precision hp hv0 hv16 hn
    have c3 : 1 ≤ q.mant ∧ q.mant ≤ 1000 := by rw [hmant]; exact ⟨r1, r2⟩
    -- the value denoted
    have hval : q.value = ((fp_mantissa v (exponent v c.precision) : ℤ) : ℚ) * pow10 (exponent v c.precision) := by
      unfold Parsed.value
      rw [hmant, hexp, he3]
      have hsplit : pow10 (exponent v c.precision)
          = pow10 (exponent v c.precision - f3_exponent3 c.precision (exponent v c.precision))
            * pow10 (f3_exponent3 c.precision (exponent v c.precision)) := by
        rw [← pow10_add]; congr 1; ring
      rw [hsplit, ← mul_assoc, ← hm3]
      congr 1
      by_cases hlt : (c.value3 v).mantissa3 < 0
      · have : q.neg = true := hneg.mpr hlt
        rw [this, abs_of_neg hlt]; simp
      · have : q.neg = false := by
          cases hq' : q.neg with
          | false => rfl
          | true => exact absurd (hneg.mp hq') hlt
        rw [this, abs_of_nonneg (not_lt.mp hlt)]; simp
    have c4 : AccurateTol 0 v c.precision q.value := by
      unfold AccurateTol
      rw [hval, zero_mul, add_zero]
      exact C18_accuracy_domain v c.precision hp hv0 hv16
    have c5 : q.neg = decide (v < 0) := by
      obtain ⟨s1, s2⟩ := C18_mantissa_sign v c.precision (exponent v c.precision) hp hok
      have hpos := pow10_pos (exponent v c.precision - f3_exponent3 c.precision (exponent v c.precision))
      rcases lt_or_gt_of_ne hv0 with hvneg | hvpos
      · have hM : ((fp_mantissa v (exponent v c.precision) : ℤ) : ℚ) < 0 := by exact_mod_cast s2 hvneg
        have : (c.value3 v).mantissa3 < 0 := by rw [hm3]; exact mul_neg_of_neg_of_pos hM hpos
        rw [hneg.mpr this]; simp [hvneg]
      · have hM : (0 : ℚ) < ((fp_mantissa v (exponent v c.precision) : ℤ) : ℚ) := by exact_mod_cast s1 hvpos
        have : ¬ (c.value3 v).mantissa3 < 0 := by rw [hm3]; exact not_lt.mpr (le_of_lt (mul_pos hM hpos))
        have hq' : q.neg = false := by
          cases hqq : q.neg with
          | false => rfl
          | true => exact absurd (hneg.mp hqq) this
        rw [hq']; simp [not_lt.mpr (le_of_lt hvpos)]
    simp [realFailures, c1, c2, c3, c4, c5]

end CC

namespace CC
open CC.Fmt CC.Gen.Fmt

/-- a value of the property domain outside the open-finding regions of `exponent` -/
def InDomain (v : ℚ) (p : ℕ) : Prop := v ≠ 0 ∧ |v| < 10000000000000000 ∧ ¬ RoundsUpToOne v p

theorem InDomain.magnitude {v : ℚ} {p : ℕ} (h : InDomain v p) : InDomain (CC.Fmt.qabs v) p := by
  obtain ⟨h0, h16, hn⟩ := h
  have e : |qabs v| = |v| := by rw [qabs_eq_abs, abs_abs]
  refine ⟨by rw [qabs_eq_abs]; exact abs_ne_zero.mpr h0, by rw [e]; exact h16, ?_⟩
  unfold RoundsUpToOne at hn ⊢; rw [e]; exact hn

/-- **C18_complex_shown_parts** (text level, Cartesian) — for every `CfgOK` configuration and every complex value
*both of whose parts are non-zero and in the domain*: which parts appear is decided by `is_zero` of `|im|` and `|re|`
(each branch stated with its condition), the signs are those of `re` and `im`, and the part texts `T_re`, `T_im` read
back (`RealOK`) to the magnitude of their parts.

What this does **not** say: that the *right* parts appear.  `is_zero` drops parts the prefixes can express (open
finding 2: `C18_complex_suppression_counterexample` takes the first branch with `|im| = 20·|re|`), and a text `T` that
is not shown in the branch taken is still covered by the `RealOK` conjunct although it is not in the output.  Values
with a zero part (purely real / purely imaginary) are excluded by `InDomain`. -/
theorem C18_complex_shown_parts (c : SCCfg) (re im absV angle : ℚ) (hpol : c.polar = false) (hcfg : CfgOK c.toSFCfg)
    (hre : InDomain re c.precision) (him : InDomain im c.precision) :
    let sr : List Char := if 0 ≤ re then [] else if c.compact then ['-'] else ['-', ' ']
    let si : List Char := if 0 ≤ im then (if c.compact then ['+'] else [' ', '+', ' '])
                          else (if c.compact then ['-'] else [' ', '-', ' '])
    let Tre := c.toSFCfg.str (qabs re)
    let Tim := c.toSFCfg.str (qabs im)
    let Zre := (c.toSFCfg.value3 (qabs re)).isZero
    let Zim := (c.toSFCfg.value3 (qabs im)).isZero
    (Zim = true → c.str re im absV angle = sr ++ Tre)
    ∧ (Zim = false → Zre = true → im < 0 → c.str re im absV angle = si ++ ['j'] ++ Tim)
    ∧ (Zim = false → Zre = true → ¬ im < 0 → c.str re im absV angle = ['j'] ++ Tim)
    ∧ (Zim = false → Zre = false → c.str re im absV angle = sr ++ Tre ++ si ++ ['j'] ++ Tim)
    ∧ RealOK (qabs re) c.precision (c.toSFCfg.value3 (qabs re)).maxExp c.unit Tre
    ∧ RealOK (qabs im) c.precision (c.toSFCfg.value3 (qabs im)).maxExp c.unit Tim := by
  intro sr si Tre Tim Zre Zim
  have h1 := hre.magnitude
  have h2 := him.magnitude
  have hs := C18_complex c re im absV angle hpol
  simp only at hs
  have nt : ∀ {b : Bool}, b = false → ¬ b = true := by intro b h; rw [h]; decide
  refine ⟨?_, ?_, ?_, ?_, C18_real_domain c.toSFCfg (qabs re) h1.1 hcfg h1.2.2 h1.2.1,
    C18_real_domain c.toSFCfg (qabs im) h2.1 hcfg h2.2.2 h2.2.1⟩
  · intro hz; rw [hs, if_pos hz]
  · intro hz1 hz2 hneg
    rw [hs, if_neg (nt hz1), if_pos hz2, if_pos hneg]
  · intro hz1 hz2 hneg
    rw [hs, if_neg (nt hz1), if_pos hz2, if_neg hneg]
  · intro hz1 hz2
    rw [hs, if_neg (nt hz1), if_neg (nt hz2)]

end CC

namespace CC
open CC.Fmt CC.Gen.Fmt

/-- **C18_saturation_independent_of_precision** — formerly refuted (`print_real(50e3, 'V', precision=1)` was `'∞'`,
`1.2e8` at six digits a finite text): the end of the range does not move with the number of digits
(repaired in /repo edb6a6b; in general `C18_saturate`, `C18_real_domain`). -/
theorem C18_saturation_independent_of_precision :
    printReal 50000 ['V'] 1 = ['5', '0', 'k', 'V']
    ∧ RealOK 50000 1 3 ['V'] (printReal 50000 ['V'] 1)
    ∧ printReal 120000000 ['V'] 6 = ['∞']
    ∧ RealOK 120000000 6 3 ['V'] (printReal 120000000 ['V'] 6) := by
  decide +kernel

end CC
