/-
  C11 (round 5c) — what the ACCESSOR ROWS report stays bounded after the sources have returned to zero.

  `C11_model_output_bounded` (CC/Properties/C11Flow.lean) bounds the rows of the model's `C` matrix (the nodal
  unknowns `y = C x + D u`).  `TransientSolution` does not read `y`: it evaluates
  `c_row_*(·)·x(t) + d_row_*(·)·u(t)` with the rows the accessors `c_row_for_potential / c_row_voltage /
  c_row_current` (and `d_row_*`) return — differences of rows of `C`, scaled rows of `A`, unit rows ….
  `C10_rows_potential / _voltage / _current` (CC/Properties/C10Rows.lean) say these numbers ARE the report of the
  per-sample network.  This file composes the two:

    C11_row_sq_le                   Cauchy–Schwarz for a list row: `(row·x)² ≤ (Σ row_j²)·(Σ x_j²)`, any lengths
    C11_model_state_norm_bounded    `x(t)ᵀx(t) ≤ 2E(t₁)/λ` for `t ≥ t₁`, `0 < λ ≤` every C, L
    C11_reported_bounded_after_sources
                                    for every node label / branch the accessor rows exist, the number
                                    `row_c·x(t) + row_d·u(t)` is the reported potential / voltage / current, and for
                                    all `t ≥ t₁` its square is at most `(Σ_j row_c[j]²)·(2/λ)·E(t₁)`
    C11_reported_rest               if the stored energy at `t₁` is 0 (positive C, L) every reported quantity is
                                    exactly 0 for all `t ≥ t₁`

  Same scope as C11Flow.lean: exact solutions of `ẋ = A x + B u(t)` with the model's `A`, `B` over ℝ; `lsim` and
  binary64 are not modelled.
-/
import CC.Properties.C11Flow
import CC.Properties.C10Rows

set_option linter.unusedSectionVars false
set_option linter.unusedVariables false

namespace CC
open Matrix Mx StateFlow

/-! ### list rows -/

theorem C11_sumsq_nonneg (r : List ℝ) : 0 ≤ (r.map (· ^ 2)).sum := by
  apply List.sum_nonneg
  intro y hy
  obtain ⟨a, _, rfl⟩ := List.mem_map.mp hy
  exact sq_nonneg a

theorem cs_step (a b s A B : ℝ) (hA : 0 ≤ A) (hB : 0 ≤ B) (hs : s ^ 2 ≤ A * B) :
    (a * b + s) ^ 2 ≤ (a ^ 2 + A) * (b ^ 2 + B) := by
  have key : 2 * a * b * s ≤ a ^ 2 * B + A * b ^ 2 := by
    rcases hB.eq_or_lt with hB0 | hBpos
    · have hs0 : s = 0 := by
        have : s ^ 2 ≤ 0 := by rw [← hB0, mul_zero] at hs; exact hs
        exact pow_eq_zero_iff (two_ne_zero) |>.mp (le_antisymm this (sq_nonneg s))
      rw [hs0, ← hB0]; nlinarith [mul_nonneg hA (sq_nonneg b)]
    · have h1 : 0 ≤ (a * B - b * s) ^ 2 + b ^ 2 * (A * B - s ^ 2) :=
        add_nonneg (sq_nonneg _) (mul_nonneg (sq_nonneg _) (sub_nonneg.mpr hs))
      have h2 : B * (a ^ 2 * B + A * b ^ 2 - 2 * a * b * s) = (a * B - b * s) ^ 2 + b ^ 2 * (A * B - s ^ 2) := by
        ring
      have h3 : 0 ≤ a ^ 2 * B + A * b ^ 2 - 2 * a * b * s := by
        rw [← h2] at h1
        exact nonneg_of_mul_nonneg_right h1 hBpos
      linarith
  nlinarith [key, hs]

/-- **Cauchy–Schwarz for a list row** (the form in which the accessors return their rows): for lists of any
lengths (`dotL` truncates to the shorter) `(row·x)² ≤ (Σ_j row_j²)·(Σ_j x_j²)`. -/
theorem C11_row_sq_le (r x : List ℝ) : dotL r x ^ 2 ≤ (r.map (· ^ 2)).sum * (x.map (· ^ 2)).sum := by
  induction r generalizing x with
  | nil => simp [dotL]
  | cons a r ih =>
    cases x with
    | nil => simp [dotL]
    | cons b x =>
      rw [rows_dotL_cons, List.map_cons, List.sum_cons, List.map_cons, List.sum_cons]
      exact cs_step a b (dotL r x) _ _ (C11_sumsq_nonneg r) (C11_sumsq_nonneg x) (ih x)

theorem dotL_right_zero (r x : List ℝ) (h : ∀ v ∈ x, v = 0) : dotL r x = 0 := by
  induction r generalizing x with
  | nil => simp [dotL]
  | cons a r ih =>
    cases x with
    | nil => simp [dotL]
    | cons b x =>
      rw [rows_dotL_cons, h b List.mem_cons_self, ih x (fun v hv => h v (List.mem_cons_of_mem _ hv))]
      ring

theorem dotL_ofFn_zero (r : List ℝ) (n : Nat) : dotL r (List.ofFn (0 : Fin n → ℝ)) = 0 := by
  apply dotL_right_zero
  intro v hv
  obtain ⟨i, rfl⟩ := (List.mem_ofFn' _ _).mp hv
  rfl

theorem sumsq_ofFn {n : Nat} (v : Fin n → ℝ) : ((List.ofFn v).map (· ^ 2)).sum = v ⬝ᵥ v := by
  rw [List.map_ofFn, List.sum_ofFn]
  unfold dotProduct
  exact Finset.sum_congr rfl fun j _ => pow_two _

/-- a row applied to a `Fin`-indexed vector: `(row·v)² ≤ (Σ_j row_j²)·vᵀv` -/
theorem C11_row_ofFn_sq_le (r : List ℝ) {n : Nat} (v : Fin n → ℝ) :
    dotL r (List.ofFn v) ^ 2 ≤ (r.map (· ^ 2)).sum * (v ⬝ᵥ v) := by
  rw [← sumsq_ofFn]; exact C11_row_sq_le r _

section model
variable {L : Type} [DecidableEq L] [LabelOrd L]

/-- **the state norm after the sources have returned to zero**: hypotheses of `C11_model_output_bounded`
(`0 < λ ≤` every C, L); for `t ≥ t₁`: `x(t)ᵀx(t) ≤ 2·E(t₁)/λ`. -/
theorem C11_model_state_norm_bounded {N : Net L ℝ} {cvals lvals : ValDict ℝ} {Ainv S Delta : List (List ℝ)}
    {m : SSMats ℝ}
    (h : RLC N cvals lvals) (hD : ssDelta N cvals = .ok Delta)
    (hm : stateSpaceMatrices N cvals lvals Ainv S = .ok m)
    (hc : ModelCert id N cvals lvals Ainv S Delta)
    (hpos : ∀ b ∈ N.branches, 0 ≤ b.e.Yfin)
    {lam : ℝ} (hlam : 0 < lam)
    (hval : ∀ k : Fin (ssNStates N cvals lvals), lam ≤ (cvals.vals ++ lvals.vals).getD k 0)
    {x : ℝ → Fin (ssNStates N cvals lvals) → ℝ} {u : ℝ → Fin (ssNInputs N lvals) → ℝ} {t1 : ℝ}
    (hx : ∀ t, HasDerivAt x
      (toM (ssNStates N cvals lvals) (ssNStates N cvals lvals) m.A *ᵥ x t
        + toM (ssNStates N cvals lvals) (ssNInputs N lvals) m.B *ᵥ u t) t)
    (hu : ∀ t, t1 ≤ t → u t = 0) (t : ℝ) (ht : t1 ≤ t) :
    x t ⬝ᵥ x t ≤ 2 * ((1 / 2) * ∑ k : Fin (ssNStates N cvals lvals),
      (cvals.vals ++ lvals.vals).getD k 0 * x t1 k ^ 2) / lam := by
  set w : Fin (ssNStates N cvals lvals) → ℝ := fun k => (cvals.vals ++ lvals.vals).getD k 0 with hw
  have hx' : ∀ s ∈ Set.Ici t1, HasDerivWithinAt x
      (toM (ssNStates N cvals lvals) (ssNStates N cvals lvals) m.A *ᵥ x s) (Set.Ici t1) s := by
    intro s hs
    have := (hx s).hasDerivWithinAt (s := Set.Ici t1)
    rwa [hu s hs, mulVec_zero, add_zero] at this
  have hb := (C11_flow_bounded _ (diagonal w) (fun x => C11_model_lyapunov h hD hm hc hpos x) hlam
    (diag_lower w hval) (convex_Ici t1) hx' Set.self_mem_Ici ht ht).1
  have e : x t1 ⬝ᵥ diagonal w *ᵥ x t1 = 2 * ((1 / 2) * ∑ k, w k * x t1 k ^ 2) := by
    have := stored_eq w (x t1)
    simp only [stored] at this
    linarith
  rwa [e] at hb

/-- **C11 — the reported quantities stay bounded after the sources have returned to zero.**
`N` the `w = 0` network (over ℝ) of an RLC + ideal-source circuit without negative conductances, `M` the object
`nodal_state_space_model` returns for any certificates, `0 < λ ≤` every capacitance and inductance.  `x` solves
`ẋ = A x + B u(t)` at all times (any input before `t₁`), `u(t) = 0` for `t ≥ t₁`.  Then for every `t ≥ t₁`:
* for every node label `n` the rows `c_row_for_potential(n)`, `d_row_for_potential(n)` exist, the number
  `row_c·x(t) + row_d·u(t)` that `TransientSolution.get_potential` evaluates IS the potential of `n` in the report
  of the per-sample network (`C10_rows_potential`), and its square is at most `(Σ_j row_c[j]²)·(2/λ)·E(t₁)`,
  `E(t₁) = ½ΣC v² + ½ΣL i²` at `t₁`;
* the same for the voltage rows and for the current rows of every branch.
The constant depends only on the row and on `λ`; it does not depend on `t`, on the input before `t₁` or on `d_row`.
Exact flow of the ODE; `lsim` is not modelled. -/
theorem C11_reported_bounded_after_sources {N : Net L ℝ} {cvals lvals : ValDict ℝ}
    {Ainv S Delta : List (List ℝ)} {M : NSSM L ℝ}
    (h : RLC N cvals lvals) (hD : ssDelta N cvals = .ok Delta)
    (hM : nodalStateSpaceModel N cvals lvals Ainv S = .ok M)
    (hc : ModelCert id N cvals lvals Ainv S Delta)
    (hpos : ∀ b ∈ N.branches, 0 ≤ b.e.Yfin)
    {lam : ℝ} (hlam : 0 < lam)
    (hval : ∀ k : Fin (ssNStates N cvals lvals), lam ≤ (cvals.vals ++ lvals.vals).getD k 0)
    {x : ℝ → Fin (ssNStates N cvals lvals) → ℝ} {u : ℝ → Fin (ssNInputs N lvals) → ℝ} {t1 : ℝ}
    (hx : ∀ t, HasDerivAt x
      (toM (ssNStates N cvals lvals) (ssNStates N cvals lvals) M.mats.A *ᵥ x t
        + toM (ssNStates N cvals lvals) (ssNInputs N lvals) M.mats.B *ᵥ u t) t)
    (hu : ∀ t, t1 ≤ t → u t = 0) (t : ℝ) (ht : t1 ≤ t) :
    let E1 := (1 / 2) * ∑ k : Fin (ssNStates N cvals lvals), (cvals.vals ++ lvals.vals).getD k 0 * x t1 k ^ 2
    let y := toM N.nY (ssNStates N cvals lvals) M.mats.C *ᵥ x t + toM N.nY (ssNInputs N lvals) M.mats.D *ᵥ u t
    let xdot := toM (ssNStates N cvals lvals) (ssNStates N cvals lvals) M.mats.A *ᵥ x t
                + toM (ssNStates N cvals lvals) (ssNInputs N lvals) M.mats.B *ᵥ u t
    let R := (sampleNet N cvals lvals (ssSources N lvals) (List.ofFn (u t)) (List.ofFn xdot)).reportOf (List.ofFn y)
    (∀ n ∈ N.nodeLabels, ∃ rc rd, M.cRowPotential n = .ok rc ∧ M.dRowPotential n = .ok rd
        ∧ dotL rc (List.ofFn (x t)) + dotL rd (List.ofFn (u t)) = R.pot n
        ∧ (dotL rc (List.ofFn (x t)) + dotL rd (List.ofFn (u t))) ^ 2 ≤ (rc.map (· ^ 2)).sum * (2 * E1 / lam))
    ∧ (∀ b ∈ N.branches, ∃ rc rd, M.cRowVoltage b.id = .ok rc ∧ M.dRowVoltage b.id = .ok rd
        ∧ dotL rc (List.ofFn (x t)) + dotL rd (List.ofFn (u t)) = R.v b.id
        ∧ (dotL rc (List.ofFn (x t)) + dotL rd (List.ofFn (u t))) ^ 2 ≤ (rc.map (· ^ 2)).sum * (2 * E1 / lam))
    ∧ (∀ b ∈ N.branches, ∃ rc rd, M.cRowCurrent b.id = .ok rc ∧ M.dRowCurrent b.id = .ok rd
        ∧ dotL rc (List.ofFn (x t)) + dotL rd (List.ofFn (u t)) = R.i b.id
        ∧ (dotL rc (List.ofFn (x t)) + dotL rd (List.ofFn (u t))) ^ 2 ≤ (rc.map (· ^ 2)).sum * (2 * E1 / lam)) := by
  intro E1 y xdot R
  have hn := C11_model_state_norm_bounded h hD (nodalStateSpaceModel_mats hM) hc hpos hlam hval hx hu t ht
  have bound : ∀ rc rd : List ℝ,
      (dotL rc (List.ofFn (x t)) + dotL rd (List.ofFn (u t))) ^ 2 ≤ (rc.map (· ^ 2)).sum * (2 * E1 / lam) := by
    intro rc rd
    rw [hu t ht, dotL_ofFn_zero, add_zero]
    exact (C11_row_ofFn_sq_le rc (x t)).trans (mul_le_mul_of_nonneg_left hn (C11_sumsq_nonneg rc))
  obtain ⟨h1, h2, h3⟩ := C10_rows_report h hM (x t) (u t)
  refine ⟨fun n hn' => ?_, fun b hb => ?_, fun b hb => ?_⟩
  · obtain ⟨rc, rd, a, b, e⟩ := h1 n hn'
    exact ⟨rc, rd, a, b, e, bound rc rd⟩
  · obtain ⟨rc, rd, a, b', e⟩ := h2 b hb
    exact ⟨rc, rd, a, b', e, bound rc rd⟩
  · obtain ⟨rc, rd, a, b', e⟩ := h3 b hb
    exact ⟨rc, rd, a, b', e, bound rc rd⟩

/-- **C11 — a circuit at rest stays at rest.**  Hypotheses of `C11_model_bounded` (positive C, L).  If the stored
energy `½ΣC v² + ½ΣL i²` is 0 at `t₁` and all sources are zero on `[t₁, ∞)`, then for every `t ≥ t₁` every number
the accessor rows report — `row_c·x(t) + row_d·u(t)` for the potential of every node label, the voltage and the
current of every branch — is exactly 0 (and so is the corresponding entry of the per-sample report). -/
theorem C11_reported_rest {N : Net L ℝ} {cvals lvals : ValDict ℝ}
    {Ainv S Delta : List (List ℝ)} {M : NSSM L ℝ}
    (h : RLC N cvals lvals) (hD : ssDelta N cvals = .ok Delta)
    (hM : nodalStateSpaceModel N cvals lvals Ainv S = .ok M)
    (hc : ModelCert id N cvals lvals Ainv S Delta)
    (hpos : ∀ b ∈ N.branches, 0 ≤ b.e.Yfin)
    (hval : ∀ k : Fin (ssNStates N cvals lvals), 0 < (cvals.vals ++ lvals.vals).getD k 0)
    {x : ℝ → Fin (ssNStates N cvals lvals) → ℝ} {u : ℝ → Fin (ssNInputs N lvals) → ℝ} {t1 : ℝ}
    (hx : ∀ t, HasDerivAt x
      (toM (ssNStates N cvals lvals) (ssNStates N cvals lvals) M.mats.A *ᵥ x t
        + toM (ssNStates N cvals lvals) (ssNInputs N lvals) M.mats.B *ᵥ u t) t)
    (hu : ∀ t, t1 ≤ t → u t = 0)
    (hE : (1 / 2) * ∑ k : Fin (ssNStates N cvals lvals), (cvals.vals ++ lvals.vals).getD k 0 * x t1 k ^ 2 = 0)
    (t : ℝ) (ht : t1 ≤ t) :
    let y := toM N.nY (ssNStates N cvals lvals) M.mats.C *ᵥ x t + toM N.nY (ssNInputs N lvals) M.mats.D *ᵥ u t
    let xdot := toM (ssNStates N cvals lvals) (ssNStates N cvals lvals) M.mats.A *ᵥ x t
                + toM (ssNStates N cvals lvals) (ssNInputs N lvals) M.mats.B *ᵥ u t
    let R := (sampleNet N cvals lvals (ssSources N lvals) (List.ofFn (u t)) (List.ofFn xdot)).reportOf (List.ofFn y)
    x t = 0
    ∧ (∀ n ∈ N.nodeLabels, ∃ rc rd, M.cRowPotential n = .ok rc ∧ M.dRowPotential n = .ok rd
        ∧ dotL rc (List.ofFn (x t)) + dotL rd (List.ofFn (u t)) = 0 ∧ R.pot n = 0)
    ∧ (∀ b ∈ N.branches, ∃ rc rd, M.cRowVoltage b.id = .ok rc ∧ M.dRowVoltage b.id = .ok rd
        ∧ dotL rc (List.ofFn (x t)) + dotL rd (List.ofFn (u t)) = 0 ∧ R.v b.id = 0)
    ∧ (∀ b ∈ N.branches, ∃ rc rd, M.cRowCurrent b.id = .ok rc ∧ M.dRowCurrent b.id = .ok rd
        ∧ dotL rc (List.ofFn (x t)) + dotL rd (List.ofFn (u t)) = 0 ∧ R.i b.id = 0) := by
  intro y xdot R
  have hb := (C11_model_bounded h hD (nodalStateSpaceModel_mats hM) hc hpos hval hx hu).2 t ht
  have hx0 : x t = 0 := by
    funext k
    have := hb k
    simp only at this
    rw [hE, mul_zero, zero_div] at this
    exact pow_eq_zero_iff (two_ne_zero) |>.mp (le_antisymm this (sq_nonneg _))
  have zero : ∀ rc rd : List ℝ, dotL rc (List.ofFn (x t)) + dotL rd (List.ofFn (u t)) = 0 := by
    intro rc rd
    rw [hu t ht, hx0, dotL_ofFn_zero, dotL_ofFn_zero, add_zero]
  obtain ⟨h1, h2, h3⟩ := C10_rows_report h hM (x t) (u t)
  refine ⟨hx0, fun n hn' => ?_, fun b hb => ?_, fun b hb => ?_⟩
  · obtain ⟨rc, rd, a, b, e⟩ := h1 n hn'
    exact ⟨rc, rd, a, b, zero rc rd, by rw [← e]; exact zero rc rd⟩
  · obtain ⟨rc, rd, a, b', e⟩ := h2 b hb
    exact ⟨rc, rd, a, b', zero rc rd, by rw [← e]; exact zero rc rd⟩
  · obtain ⟨rc, rd, a, b', e⟩ := h3 b hb
    exact ⟨rc, rd, a, b', zero rc rd, by rw [← e]; exact zero rc rd⟩

end model

/-! ### non-vacuity: the RC circuit over ℝ -/

theorem netRCr_model : ∃ M, nodalStateSpaceModel netRCr [("C", 1)] [] rcAinvR rcSR = .ok M := by
  obtain ⟨m, hm⟩ := netRCr_ssm
  exact ⟨⟨m, netRCr, [("C", 1)], []⟩, by simp [nodalStateSpaceModel, hm, bind, Except.bind, pure, Except.pure]⟩

/-- every hypothesis of `C11_reported_bounded_after_sources` / `C11_reported_rest` is met by the series circuit
`V(1,0) – R=1 (1,2) – C=1 (2,0)` over ℝ with `λ = 1`, the free response `x(t) = exp(tA)·x₀` from ANY initial
state (`x₀ = 0` for the rest case) and the input `u = 0`; the theorem applied gives the bound for every `t ≥ 0` -/
example : ∃ M, nodalStateSpaceModel netRCr [("C", 1)] [] rcAinvR rcSR = .ok M ∧
    ∀ x0 : Fin (ssNStates netRCr [("C", 1)] []) → ℝ, ∃ x : ℝ → Fin (ssNStates netRCr [("C", 1)] []) → ℝ,
      x 0 = x0 ∧
      (∀ t, HasDerivAt x
        (toM (ssNStates netRCr [("C", 1)] []) (ssNStates netRCr [("C", 1)] []) M.mats.A *ᵥ x t + toM (ssNStates netRCr [("C", 1)] []) (ssNInputs netRCr []) M.mats.B *ᵥ (0 : Fin (ssNInputs netRCr []) → ℝ)) t) ∧
      ∀ t, 0 ≤ t → ∀ b ∈ netRCr.branches, ∃ rc rd, M.cRowCurrent b.id = .ok rc ∧ M.dRowCurrent b.id = .ok rd
        ∧ (dotL rc (List.ofFn (x t)) + dotL rd (List.ofFn (0 : Fin (ssNInputs netRCr []) → ℝ))) ^ 2
            ≤ (rc.map (· ^ 2)).sum * (2 * ((1 / 2) * ∑ k : Fin (ssNStates netRCr [("C", 1)] []),
                (ValDict.vals [("C", (1 : ℝ))] ++ ValDict.vals []).getD k 0 * x 0 k ^ 2) / 1) := by
  obtain ⟨M, hM⟩ := netRCr_model
  refine ⟨M, hM, fun x0 => ?_⟩
  have hd : ∀ t, HasDerivAt (fun s : ℝ => NormedSpace.exp (s • toM (ssNStates netRCr [("C", 1)] []) (ssNStates netRCr [("C", 1)] []) M.mats.A) *ᵥ x0)
      (toM (ssNStates netRCr [("C", 1)] []) (ssNStates netRCr [("C", 1)] []) M.mats.A *ᵥ (NormedSpace.exp (t • toM (ssNStates netRCr [("C", 1)] []) (ssNStates netRCr [("C", 1)] []) M.mats.A) *ᵥ x0)
        + toM (ssNStates netRCr [("C", 1)] []) (ssNInputs netRCr []) M.mats.B *ᵥ (0 : Fin (ssNInputs netRCr []) → ℝ)) t := by
    intro t
    rw [mulVec_zero, add_zero]
    exact hasDerivAt_exp_mulVec _ x0 t
  refine ⟨fun t => NormedSpace.exp (t • toM (ssNStates netRCr [("C", 1)] []) (ssNStates netRCr [("C", 1)] []) M.mats.A) *ᵥ x0, exp_zero_mulVec _ x0, hd, ?_⟩
  intro t ht b hb
  have hv1 : ∀ k : Fin (ssNStates netRCr [("C", 1)] []),
      (1 : ℝ) ≤ (ValDict.vals [("C", (1 : ℝ))] ++ ValDict.vals []).getD k 0 := by
    rw [netRCr_ns]; intro k; fin_cases k; simp [ValDict.vals]
  obtain ⟨rc, rd, a, b', _, e⟩ := (C11_reported_bounded_after_sources netRCr_rlc netRCr_Delta hM netRCr_cert netRCr_pos
    one_pos hv1 (u := fun _ => 0) (t1 := 0) hd (fun _ _ => rfl) t ht).2.2 b hb
  exact ⟨rc, rd, a, b', e⟩

/-- the hypotheses of `C11_reported_rest` are satisfiable: the RC circuit at rest (`x = 0`, `u = 0`, energy 0) -/
example : ∃ M, nodalStateSpaceModel netRCr [("C", 1)] [] rcAinvR rcSR = .ok M ∧
    ∀ t, (0 : ℝ) ≤ t → ∀ b ∈ netRCr.branches, ∃ rc rd, M.cRowCurrent b.id = .ok rc ∧ M.dRowCurrent b.id = .ok rd
      ∧ dotL rc (List.ofFn (0 : Fin (ssNStates netRCr [("C", 1)] []) → ℝ))
          + dotL rd (List.ofFn (0 : Fin (ssNInputs netRCr []) → ℝ)) = 0 := by
  obtain ⟨M, hM⟩ := netRCr_model
  refine ⟨M, hM, fun t ht b hb => ?_⟩
  have hd : ∀ t : ℝ, HasDerivAt (fun _ : ℝ => (0 : Fin (ssNStates netRCr [("C", 1)] []) → ℝ))
      (toM (ssNStates netRCr [("C", 1)] []) (ssNStates netRCr [("C", 1)] []) M.mats.A *ᵥ 0
        + toM (ssNStates netRCr [("C", 1)] []) (ssNInputs netRCr []) M.mats.B *ᵥ (0 : Fin (ssNInputs netRCr []) → ℝ)) t := by
    intro t
    rw [mulVec_zero, mulVec_zero, add_zero]
    exact hasDerivAt_const t _
  obtain ⟨rc, rd, a, b', e, _⟩ := (C11_reported_rest netRCr_rlc netRCr_Delta hM netRCr_cert netRCr_pos netRCr_val
    (x := fun _ => 0) (u := fun _ => 0) (t1 := 0) hd (fun _ _ => rfl) (by simp) t ht).2.2.2 b hb
  exact ⟨rc, rd, a, b', e⟩

end CC
