/-
  Property C09 (and C03 through `TimeDomainSolution` / `FrequencyDomainSolution`), translator tie —
  `frequency_components` of `Circuit/circuit.py`, the function that decides which angular
  frequencies a multi-frequency analysis examines, is regenerated from the source on every run
  (harness/extract_freq.py → CC/Gen/Freq.lean: expressions translated node by node, the statement
  skeleton matched structurally, everything else refused) and proved equal to the hand-written
  model `CC.frequencyComponents` (CC/Model/MultiFreq.lean) that the theorems `C09_freqs_*` and
  `C09_once_*` are about.

  An edit of the function — the merge condition `w - distinct_frequencies[-1] > w_resolution`
  (`>=`, `abs`, `np.isclose`), merging before sorting, `np.ceil` for `np.floor`, the `arange`
  bound, the periodic-type test, the `KeyError` fallback — changes the generated definitions (or is
  refused by the translator) and the theorems below no longer compile.

  Trusted: the idioms of CC/Model/FreqBase.lean (`npFloor`, `npCeil`, `npArange`, `pyLast`,
  `pyFlatMapM`, `pyForM`), `sortQ` for `sorted`, exact rationals for binary64 (tie margin of
  `np.floor` of a rounded quotient and of the products `w*n`), `FComp` as the reading of a component.
  `transform` / `transform_circuit` of the same source file are tied by harness/extract_circuit.py
  (verbatim templates, CC/Gen/CircuitTables.lean).
-/
import CC.Gen.Freq
import CC.Properties.C09
import Mathlib.Tactic.NormNum
namespace CC
open CC.FreqBase CC.Gen

/-! ### the idioms against the functions of the hand model -/

/-- `np.arange(np.floor(x) + 1)` lists `0, 1, …, ⌊x⌋` -/
theorem C09_gen_arange_floor (x : Rat) :
    npArange (npFloor x + (1 : Rat)) = (List.range (x.floor + 1).toNat).map fun (n : Nat) => (n : Rat) := by
  have h : (npFloor x + (1 : Rat)) = ((x.floor + 1 : Int) : Rat) := by
    simp [npFloor]
  rw [npArange, h, Rat.ceil_intCast]

/-- the translated nested helper `frequencies(component)` is the hand model's `FComp.frequencies` -/
theorem C09_gen_frequencies (wmax wres : Rat) (c : FComp) :
    Freq.frequencies wmax wres c = c.frequencies wmax := by
  unfold Freq.frequencies FComp.frequencies FComp.isPeriodic
  cases c.w with
  | none => rfl
  | some w =>
    by_cases hp : ((c.ty == "periodic_voltage_source") || (c.ty == "periodic_current_source")) = true
    · by_cases hw : w = 0
      · simp [hp, hw]
      · simp [hp, hw, harmonicList, C09_gen_arange_floor, List.map_map, Function.comp_def]
    · simp [hp]

/-- the translated flattening comprehension is the hand model's `allFrequencies` -/
theorem C09_gen_flatten (wmax wres : Rat) (cs : List FComp) :
    pyFlatMapM (fun c => Freq.frequencies wmax wres c) cs = allFrequencies wmax cs := by
  have hf : (fun c => Freq.frequencies wmax wres c) = fun c => c.frequencies wmax :=
    funext (C09_gen_frequencies wmax wres)
  rw [hf]
  induction cs with
  | nil => rfl
  | cons c cs ih =>
    simp only [pyFlatMapM, allFrequencies, ih]
    cases FComp.frequencies wmax c with
    | error e => rfl
    | ok l => cases allFrequencies wmax cs <;> rfl

/-- the translated loop, entered with a non-empty list of kept frequencies ending in `last`, never
raises (the `IndexError` guard of `distinct_frequencies[-1]` is dead code behind the short-circuit
`or`) and appends exactly what the hand model's `mergeFrom` keeps -/
theorem C09_gen_loop_from (wmax wres : Rat) (l : List Rat) (acc : List Rat) (last : Rat) :
    pyForM (Freq.loop_step wmax wres) (acc ++ [last]) l = .ok (acc ++ [last] ++ mergeFrom wres last l) := by
  induction l generalizing acc last with
  | nil => simp [pyForM, mergeFrom]
  | cons w l ih =>
    have hlast : pyLast (acc ++ [last]) = last := by simp [pyLast]
    by_cases hk : w - last > wres
    · have hs : Freq.loop_step wmax wres (acc ++ [last]) w = .ok ((acc ++ [last]) ++ [w]) := by
        simp [Freq.loop_step, hlast, hk]
      simp only [pyForM, hs, mergeFrom, hk, if_true]
      rw [ih (acc ++ [last]) w]
      simp
    · have hs : Freq.loop_step wmax wres (acc ++ [last]) w = .ok (acc ++ [last]) := by
        simp [Freq.loop_step, hlast, hk]
      simp only [pyForM, hs, mergeFrom, hk, if_false]
      exact ih acc last

/-- the translated loop from the empty list is the hand model's `mergeRes` -/
theorem C09_gen_loop (wmax wres : Rat) (l : List Rat) :
    pyForM (Freq.loop_step wmax wres) [] l = .ok (mergeRes wres l) := by
  cases l with
  | nil => rfl
  | cons w l =>
    have hs : Freq.loop_step wmax wres [] w = .ok ([] ++ [w]) := by simp [Freq.loop_step]
    simp only [pyForM, hs, mergeRes]
    rw [C09_gen_loop_from]
    simp

/-- **translator tie of `frequency_components`.**  The Lean function generated from the current
source text of `Circuit/circuit.py: frequency_components` (CC/Gen/Freq.lean, regenerated on every
run) equals the hand-written model `CC.frequencyComponents` — the function the theorems
`C09_freqs_sorted`, `C09_freqs_mem`, `C09_once_*` are about — for every component list, every
`w_max` and every `w_resolution`, results and exceptions alike.

What it says about the code: an edit of the function (the merge condition, its comparison, the
order of sorting and merging, the harmonic bound `np.floor(w_max/w)`, the `arange` range, the
periodic-type test, the KeyError fallback) either changes the generated definition, and this proof
or the refusal of the translator shows it, or leaves it semantically equal.
What it does not say: numbers are exact rationals (binary64 rounding of `w*n` and of the quotient
inside `np.floor` is the tie margin of the correspondence check), `FComp` is the reading of a
component (`type`, `float(value['w'])` or `KeyError`), `sorted` is `sortQ`, and the meaning of
the idioms is fixed by CC/Model/FreqBase.lean (trusted). -/
theorem C09_gen_frequency_components (cs : List FComp) (wmax wres : Rat) :
    Freq.frequency_components cs wmax wres = frequencyComponents cs wmax wres := by
  unfold Freq.frequency_components frequencyComponents
  rw [C09_gen_flatten]
  cases allFrequencies wmax cs with
  | error e => rfl
  | ok l => simp only [List.map_id', C09_gen_loop]

/-- **the theorems about the listed frequencies, for the generated function**: what
`C09_freqs_sorted` and `C09_freqs_mem` prove of the hand model holds of the function translated from
the source — the listed frequencies are more than `w_resolution` apart (strictly increasing), each is
a source frequency or a harmonic `k·w0 ≤ w_max`, and every such frequency is represented by a listed
one at most `w_resolution` below it.  Hypothesis: the resolution is not negative (the default is
`1e-3`). -/
theorem C09_gen_freqs (cs : List FComp) (wmax wres : Rat) (hres : 0 ≤ wres) (ws : List Rat)
    (h : Freq.frequency_components cs wmax wres = .ok ws) :
    ws.Pairwise (fun a b => wres < b - a) ∧
    (∀ w ∈ ws, IsSourceFrequency cs wmax w) ∧
    (∀ f, IsSourceFrequency cs wmax f → ∃ k ∈ ws, k ≤ f ∧ f - k ≤ wres) := by
  rw [C09_gen_frequency_components] at h
  exact ⟨C09_freqs_sorted cs wmax wres hres ws h, C09_freqs_mem cs wmax wres hres ws h⟩

/-- non-vacuity: a single-frequency source at 1 rad/s and a periodic source with fundamental 2 rad/s,
analysed up to 5 rad/s at the default resolution — the generated function lists 0, 1, 2, 4 -/
example : Freq.frequency_components
    [⟨"ac_voltage_source", some 1⟩, ⟨"resistor", none⟩, ⟨"periodic_current_source", some 2⟩] 5 Freq.default_w_resolution
      = .ok [0, 1, 2, 4] := by decide +kernel

/-- non-vacuity of the error branch: a periodic source with `w = 0` raises `ZeroDivisionError` -/
example : Freq.frequency_components [⟨"periodic_voltage_source", some 0⟩] 5 (1/1000) = .error .zeroDivision := by
  decide +kernel

/-- the default `w_resolution` in the signature of `frequency_components` is the binary64 number
next to `1/1000` (the hand model's default; the tie theorem holds for every resolution) -/
theorem C09_gen_default_resolution :
    Freq.default_w_resolution - 1/1000 < 1/10^19 ∧ 1/1000 - Freq.default_w_resolution < 1/10^19 := by
  unfold Freq.default_w_resolution
  norm_num

end CC
