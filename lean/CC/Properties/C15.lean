/-
  C15 — saving, reloading and declarative descriptions preserve the circuit.

  Model: CC/Model/DrawIO.lean (symbol constructors, dictify / undictify, declarative
  handlers) over the generated tables CC/Gen/DrawTables.lean.
  Helper lemmas: CC/Proofs/Draw{IO,RoundTrip,Declarative}.lean.
-/
import CC.Proofs.DrawRoundTrip
import CC.Proofs.DrawDeclarative
namespace CC
open CC.Draw

/-- binary64 `numpy.pi` -/
def C15_pi64 : Rat := (884279719003555 : Rat) / 281474976710656
/-- list order as set order -/
def C15_listOrder : SetOrd Pt := ⟨id, id⟩

/-! ## generated-table obligations -/

/-- Every persistable symbol kind has a loader entry that rebuilds *its own* class: class →
`type` string → loader class is the identity on the persistable classes. -/
theorem C15_persistable_total :
    ∀ n ∈ persistableClasses, ∃ c, classInfo n = some c ∧
      ∃ lt ∈ Gen.loaderTypes, lt.typ = c.typ ∧ lt.cls = n := by decide

/-- The plumbing certificate (`roundTripShape`: which attribute feeds which constructor argument,
under which keyword the value comes back, where the signs sit, that left-over value keys do not
collide with constructor parameters) holds for every persistable class except the complex
current source (C13's finding); `undictify_element` merges its keyword sources in the order the
model assumes; `dictify_element` stores what the model assumes; every declarative handler
builds the class whose own `type` string is the handler's key. -/
theorem C15_tables :
    (∀ n ∈ persistableClasses, n ≠ "ComplexCurrentSource" → (classInfo n).map roundTripShape = some true) ∧
    Gen.undictifySteps = ["userparams", "name", "reverse", "circuit", "construct", "restore:segments",
      "restore:params", "restore:anchors", "restore:absanchors", "restore:transform", "restore:absdrop", "return"] ∧
    Gen.dictifySaved = ["_userparams", "segments", "params", "anchors", "absanchors", "transform", "absdrop"] ∧
    Gen.declDirections = [("right", "right"), ("left", "left"), ("up", "up"), ("down", "down")] ∧
    (∀ h ∈ Gen.declHandlers, h.typ = "lamp" ∨ (classInfo h.cls).map (·.typ) = some h.typ) ∧
    (∀ h ∈ Gen.declHandlers, h.cls ∈ declFrameClasses ∧ ∀ c, h.clsIfName = some c → c ∈ declFrameClasses) := by
  decide

/-! ## the kernels of one cycle -/

/-- One cycle returns the user's amplitude for either reversal flag: the sign flip of the symbol
constructor and the sign flip of the translator cancel. -/
theorem C15_value_roundtrip (rev : Bool) (v : GQ) : savedVal rev v = v :=
  savedVal_eq GQ.neg_neg' rev v

/-- Without the `deg` / `sin` flags the saved phase is the user's phase (so feeding it back
reproduces it); with a flag set the second cycle applies the conversion to an already converted
phase. -/
theorem C15_phase_roundtrip_partial {K : Type} [Sub K] (halfPi : K) (toRad : K → K) :
    (∀ phi, savedPhase halfPi toRad false false phi = phi) ∧
    (∀ sin deg phi, savedPhase halfPi toRad sin deg (savedPhase halfPi toRad sin deg phi) =
      phaseTrans toRad deg (phaseField halfPi sin (phaseTrans toRad deg (phaseField halfPi sin phi)))) :=
  ⟨fun _ => rfl, fun _ _ _ => rfl⟩

/-! ## one element, all values -/

/-- the drawing elements of the persistable kinds, as the constructor calls that make them
(valid values: real and non-negative where the component constructor checks it; no `deg` /
`sin` flag; the complex current source only reversed) -/
inductive C15_Canonical : DElem → Prop where
  | vsrc (z : GQ) (rev : Bool) (name : String) (a b : Pt) :
      C15_Canonical ⟨"VoltageSource", [("V", .num z), ("name", .str name), ("reverse", .bool rev)], a, b⟩
  | isrc (z : GQ) (rev : Bool) (name : String) (a b : Pt) :
      C15_Canonical ⟨"CurrentSource", [("I", .num z), ("name", .str name), ("reverse", .bool rev)], a, b⟩
  | cvsrc (z : GQ) (rev : Bool) (name : String) (a b : Pt) :
      C15_Canonical ⟨"ComplexVoltageSource", [("V", .num z), ("name", .str name), ("reverse", .bool rev)], a, b⟩
  | cisrc (z : GQ) (name : String) (a b : Pt) :
      C15_Canonical ⟨"ComplexCurrentSource", [("I", .num z), ("name", .str name), ("reverse", .bool true)], a, b⟩
  | acv (v w phi : GQ) (hv : v.im = 0) (hw : w.im = 0) (hw0 : ¬ w.re < 0) (hp : phi.im = 0) (rev : Bool)
      (name : String) (a b : Pt) :
      C15_Canonical ⟨"ACVoltageSource", [("V", .num v), ("w", .num w), ("phi", .num phi), ("name", .str name), ("reverse", .bool rev)], a, b⟩
  | aci (v w phi : GQ) (hv : v.im = 0) (hw : w.im = 0) (hw0 : ¬ w.re < 0) (hp : phi.im = 0) (rev : Bool)
      (name : String) (a b : Pt) :
      C15_Canonical ⟨"ACCurrentSource", [("I", .num v), ("w", .num w), ("phi", .num phi), ("name", .str name), ("reverse", .bool rev)], a, b⟩
  | rectv (v w phi : GQ) (hv : v.im = 0) (hw : w.im = 0) (hw0 : ¬ w.re < 0) (hp : phi.im = 0) (rev : Bool)
      (name : String) (a b : Pt) :
      C15_Canonical ⟨"RectVoltageSource", [("V", .num v), ("w", .num w), ("phi", .num phi), ("name", .str name), ("reverse", .bool rev)], a, b⟩
  | recti (v w phi : GQ) (hv : v.im = 0) (hw : w.im = 0) (hw0 : ¬ w.re < 0) (hp : phi.im = 0) (rev : Bool)
      (name : String) (a b : Pt) :
      C15_Canonical ⟨"RectCurrentSource", [("I", .num v), ("w", .num w), ("phi", .num phi), ("name", .str name), ("reverse", .bool rev)], a, b⟩
  | res (z : GQ) (him : z.im = 0) (hpos : ¬ z.re < 0) (rev : Bool) (name : String) (a b : Pt) :
      C15_Canonical ⟨"Resistor", [("R", .num z), ("name", .str name), ("reverse", .bool rev)], a, b⟩
  | cond (z : GQ) (him : z.im = 0) (hpos : ¬ z.re < 0) (rev : Bool) (name : String) (a b : Pt) :
      C15_Canonical ⟨"Conductance", [("G", .num z), ("name", .str name), ("reverse", .bool rev)], a, b⟩
  | cap (z : GQ) (him : z.im = 0) (hpos : ¬ z.re < 0) (rev : Bool) (name : String) (a b : Pt) :
      C15_Canonical ⟨"Capacitor", [("C", .num z), ("name", .str name), ("reverse", .bool rev)], a, b⟩
  | ind (z : GQ) (him : z.im = 0) (hpos : ¬ z.re < 0) (rev : Bool) (name : String) (a b : Pt) :
      C15_Canonical ⟨"Inductance", [("L", .num z), ("name", .str name), ("reverse", .bool rev)], a, b⟩
  | imp (r i : Rat) (rev : Bool) (name : String) (a b : Pt) :
      C15_Canonical ⟨"Impedance", [("Z", .num ⟨r, i⟩), ("name", .str name), ("reverse", .bool rev)], a, b⟩
  | gnd (name : String) (a b : Pt) : C15_Canonical ⟨"Ground", [("name", .str name)], a, b⟩
  | line (rev : Bool) (a b : Pt) : C15_Canonical ⟨"Line", [("reverse", .bool rev)], a, b⟩

/-- **Round trip of one element, for all values**: for every persistable kind, every value,
reversal flag, name and position, saving the element (with its translated component as circuit
section) and loading it back gives an element that (B) translates to the same component,
(F) is a fixed point of further save/load cycles, (S) keeps class, anchors, name, reversal flag
and node id — evaluated on the interpretive model over the generated tables. -/
theorem C15_roundtrip_partial (π : Rat) (d : DElem) (h : C15_Canonical d) : ElemStable π d := by
  cases h with
  | vsrc z rev name a b => exact stable_VoltageSource π z rev name a b
  | isrc z rev name a b => exact stable_CurrentSource π z rev name a b
  | cvsrc z rev name a b => exact stable_ComplexVoltageSource π z rev name a b
  | cisrc z name a b => exact stable_ComplexCurrentSource_reversed π z name a b
  | acv v w phi hv hw hw0 hp rev name a b => exact stable_ACVoltageSource π v w phi hv hw hw0 hp rev name a b
  | aci v w phi hv hw hw0 hp rev name a b => exact stable_ACCurrentSource π v w phi hv hw hw0 hp rev name a b
  | rectv v w phi hv hw hw0 hp rev name a b => exact stable_RectVoltageSource π v w phi hv hw hw0 hp rev name a b
  | recti v w phi hv hw hw0 hp rev name a b => exact stable_RectCurrentSource π v w phi hv hw hw0 hp rev name a b
  | res z him hpos rev name a b => exact stable_Resistor π z him hpos rev name a b
  | cond z him hpos rev name a b => exact stable_Conductance π z him hpos rev name a b
  | cap z him hpos rev name a b => exact stable_Capacitor π z him hpos rev name a b
  | ind z him hpos rev name a b => exact stable_Inductance π z him hpos rev name a b
  | imp r i rev name a b => exact stable_Impedance π r i rev name a b
  | gnd name a b => exact stable_Ground π name a b
  | line rev a b => exact stable_Line π rev "" a b

/-- non-vacuity: the reversed 5 V source really is translated, on both sides of the equation -/
example :
    elemComp C15_pi64 ⟨"VoltageSource", [("V", .num 5), ("name", .str "V1"), ("reverse", .bool true)], ⟨0, 0⟩, ⟨0, 5⟩⟩ ["a", "b"]
      = .ok (some { type := "dc_voltage_source", id := "V1", nodes := ["b", "a"],
                    value := [("V", .num ⟨5, 0⟩), ("R", .num ⟨0, 0⟩), ("w", .num ⟨0, 0⟩), ("phi", .num ⟨0, 0⟩)] }) := by
  decide +kernel

/-- **Any number of cycles** (per element): after `n ≥ 1` save/load cycles the element still
translates to the component of the original element. -/
theorem C15_stable (π : Rat) (d : DElem) (h : C15_Canonical d) (n : Nat) (la lb : String) :
    (do elemComp π (← reloadN π [la, lb] (n + 1) d) [la, lb]) = elemComp π d [la, lb] :=
  elem_cycles_stable (C15_roundtrip_partial π d h) n la lb

/-- **Induction over cycles, whole drawings**: if one save/load cycle keeps the translated circuit
on a domain that it maps into itself, then so does any number of cycles. -/
theorem C15_cycles (π : Rat) (ord : SetOrd Pt) (Dom : List DElem → Prop)
    (hstep : ∀ d, Dom d → ∃ d', saveLoad π ord d = .ok d' ∧ Dom d' ∧ circuitOf π ord d' = circuitOf π ord d) :
    ∀ (n : Nat) (d : List DElem), Dom d →
      ∃ d', cycles π ord n d = .ok d' ∧ Dom d' ∧ circuitOf π ord d' = circuitOf π ord d :=
  cycles_preserve π ord Dom hstep

/-! ## whole drawings: full statement and counterexample -/

/-- Full statement: one save/load cycle of any drawing over the persistable kinds keeps the
translated circuit. -/
def C15_roundtrip_statement : Prop :=
  ∀ (π : Rat) (ord : SetOrd Pt) (d d' : List DElem),
    (∀ e ∈ d, e.cls ∈ persistableClasses) → saveLoad π ord d = .ok d' →
      circuitOf π ord d' = circuitOf π ord d

/-- the drawing of the counterexample: one AC voltage source of 30°, `deg=True` -/
def C15_driftDrawing : List DElem :=
  [⟨"ACVoltageSource", [("V", .num 3), ("w", .num 100), ("phi", .num 30), ("deg", .bool true),
      ("name", .str "X"), ("reverse", .bool false)], ⟨0, 0⟩, ⟨0, 5⟩⟩]

/-- The current tree violates it: the phase of an AC source drawn with `deg=True` is converted
again on every load (30° ↦ π/6 ↦ π²/1080 ↦ …). -/
theorem C15_drift_counterexample : ¬ C15_roundtrip_statement := by
  intro h
  have hd : ∃ d', saveLoad C15_pi64 C15_listOrder C15_driftDrawing = .ok d' ∧
      circuitOf C15_pi64 C15_listOrder d' ≠ circuitOf C15_pi64 C15_listOrder C15_driftDrawing := by
    refine ⟨[⟨"ACVoltageSource", [("V", .num 3), ("w", .num 100),
        ("phi", .num ⟨(884279719003555 : Rat) / 1688849860263936, 0⟩), ("deg", .bool true),
        ("name", .str "X"), ("reverse", .bool false), ("R", .num ⟨0, 0⟩)], ⟨0, 0⟩, ⟨0, 5⟩⟩], ?_, ?_⟩
    · decide +kernel
    · decide +kernel
  obtain ⟨d', h1, h2⟩ := hd
  exact h2 (h C15_pi64 C15_listOrder C15_driftDrawing d' (by decide) h1)

/-! ## declarative descriptions -/

/-- **Declarative = programmatic**: for every handler class and all values, the symbol that
`element_factory` builds from the whole description (placement keys included) is the symbol the
programmatic constructor call builds: `type`, `direction`, `length`, `place_after` reach no
circuit-relevant attribute. -/
theorem C15_declarative (π : Rat) (r s t : Val) (name : String) (rev : Bool) (tv dv lv pv : Val) :
    DeclSame π "Resistor" [("R", r), ("name", .str name), ("reverse", .bool rev)] tv dv lv pv ∧
    DeclSame π "Conductance" [("G", r), ("name", .str name), ("reverse", .bool rev)] tv dv lv pv ∧
    DeclSame π "Impedance" [("Z", r), ("name", .str name), ("reverse", .bool rev)] tv dv lv pv ∧
    DeclSame π "Admittance" [("Y", r), ("name", .str name), ("reverse", .bool rev)] tv dv lv pv ∧
    DeclSame π "Capacitor" [("C", r), ("name", .str name), ("reverse", .bool rev)] tv dv lv pv ∧
    DeclSame π "Inductance" [("L", r), ("name", .str name), ("reverse", .bool rev)] tv dv lv pv ∧
    DeclSame π "Lamp" [("V_ref", r), ("P_ref", s), ("name", .str name), ("reverse", .bool rev)] tv dv lv pv ∧
    DeclSame π "VoltageSource" [("V", r), ("name", .str name), ("reverse", .bool rev)] tv dv lv pv ∧
    DeclSame π "CurrentSource" [("I", r), ("name", .str name), ("reverse", .bool rev)] tv dv lv pv ∧
    DeclSame π "ComplexVoltageSource" [("V", r), ("name", .str name), ("reverse", .bool rev)] tv dv lv pv ∧
    DeclSame π "ComplexCurrentSource" [("I", r), ("name", .str name), ("reverse", .bool rev)] tv dv lv pv ∧
    DeclSame π "ACVoltageSource" [("V", r), ("w", s), ("phi", t), ("name", .str name), ("reverse", .bool rev)] tv dv lv pv ∧
    DeclSame π "ACCurrentSource" [("I", r), ("w", s), ("phi", t), ("name", .str name), ("reverse", .bool rev)] tv dv lv pv ∧
    DeclSame π "LabeledLine" [("name", .str name), ("reverse", .bool rev)] tv dv lv pv ∧
    DeclSame π "Line" [("name", .str name), ("reverse", .bool rev)] tv dv lv pv ∧
    DeclSame π "Node" [("name", .str name), ("reverse", .bool rev)] tv dv lv pv ∧
    DeclSame π "Ground" [("name", .str name), ("reverse", .bool rev)] tv dv lv pv :=
  ⟨decl_Resistor π r s t name rev tv dv lv pv, decl_Conductance π r s t name rev tv dv lv pv,
   decl_Impedance π r s t name rev tv dv lv pv, decl_Admittance π r s t name rev tv dv lv pv,
   decl_Capacitor π r s t name rev tv dv lv pv, decl_Inductance π r s t name rev tv dv lv pv,
   decl_Lamp π r s t name rev tv dv lv pv, decl_VoltageSource π r s t name rev tv dv lv pv,
   decl_CurrentSource π r s t name rev tv dv lv pv, decl_ComplexVoltageSource π r s t name rev tv dv lv pv,
   decl_ComplexCurrentSource π r s t name rev tv dv lv pv, decl_ACVoltageSource π r s t name rev tv dv lv pv,
   decl_ACCurrentSource π r s t name rev tv dv lv pv, decl_LabeledLine π r s t name rev tv dv lv pv,
   decl_Line π r s t name rev tv dv lv pv, decl_Node π r s t name rev tv dv lv pv,
   decl_Ground π r s t name rev tv dv lv pv⟩

/-- non-vacuity: a declarative resistor description builds the resistor symbol -/
example :
    declarative C15_pi64 4 [[("type", .str "resistor"), ("R", .num 5), ("name", .str "R1"), ("direction", .str "up"), ("length", .num 2)]]
      = .ok [{ cls := "Resistor",
               kwargs := [("type", .str "resistor"), ("R", .num 5), ("name", .str "R1"), ("direction", .str "up"),
                          ("length", .num 2), ("reverse", .bool false)],
               method := "up", length := 8, after := none }] := by
  decide +kernel

end CC
