/-
  C15 — saving, reloading and declarative descriptions preserve the circuit.

  Model: CC/Model/DrawIO.lean (symbol constructors, dictify / undictify, declarative
  handlers) over the generated tables CC/Gen/DrawTables.lean.
  Helper lemmas: CC/Proofs/Draw{IO,RoundTrip,Declarative}.lean.
-/
import CC.Proofs.DrawRT1
import CC.Proofs.DrawRT2
import CC.Proofs.DrawRT3
import CC.Proofs.DrawRT4
import CC.Proofs.DrawRT5
import CC.Proofs.DrawRT6
import CC.Proofs.DrawLift
import CC.Proofs.DrawDeclarative
namespace CC
open CC.Draw

/-- binary64 `numpy.pi` -/
def C15_pi64 : Rat := (884279719003555 : Rat) / 281474976710656
/-- list order as set order -/
def C15_listOrder : SetOrd Pt := ⟨id, id⟩

/-! ## generated-table obligations -/

/-- Every persistable symbol kind has a loader entry that rebuilds *its own* class: class →
`type` string → loader class is the identity on the persistable classes. -/
theorem C15_persistable_total :
    ∀ n ∈ persistableClasses, ∃ c, classInfo n = some c ∧
      ∃ lt ∈ Gen.loaderTypes, lt.typ = c.typ ∧ lt.cls = n := by decide

/-- The plumbing certificate (`roundTripShape`: which attribute feeds which constructor argument,
under which keyword the value comes back, where the signs sit, that left-over value keys do not
collide with constructor parameters) holds for every persistable class; `undictify_element` merges its keyword sources in the order the
model assumes; `dictify_element` stores what the model assumes; every declarative handler
builds the class whose own `type` string is the handler's key. -/
theorem C15_tables :
    (∀ n ∈ persistableClasses, (classInfo n).map roundTripShape = some true) ∧
    Gen.undictifySteps = ["userparams", "name", "reverse", "circuit", "clear_flags_if_phi", "construct", "restore:segments",
      "restore:params", "restore:anchors", "restore:absanchors", "restore:transform", "restore:absdrop", "return"] ∧
    Gen.dictifySaved = ["_userparams", "segments", "params", "anchors", "absanchors", "transform", "absdrop"] ∧
    Gen.declDirections = [("right", "right"), ("left", "left"), ("up", "up"), ("down", "down")] ∧
    Gen.declOneTerminalPlain = true ∧
    (∀ h ∈ Gen.declHandlers, h.typ = "lamp" ∨ (classInfo h.cls).map (·.typ) = some h.typ) ∧
    (∀ h ∈ Gen.declHandlers, h.cls ∈ declFrameClasses ∧ ∀ c, h.clsIfName = some c → c ∈ declFrameClasses) := by
  decide

/-! ## the kernels of one cycle -/

/-- KERNEL LEMMA (about `savedVal`, a three-line function of CC/Proofs/DrawIO.lean that restates
the two sign flips, not about the interpretive model — the model-level statement is
`C15_roundtrip_element`): one cycle returns the user's amplitude for either reversal flag. -/
theorem C15_value_roundtrip (rev : Bool) (v : GQ) : savedVal rev v = v :=
  savedVal_eq GQ.neg_neg' rev v

/-- KERNEL LEMMA (about `savedPhase` of CC/Proofs/DrawIO.lean; it holds by `rfl` and only documents
the design of the repair 5d18a69 — the model-level statement is `C15_roundtrip_element`): the
saved phase fed back with the `deg` / `sin` flags cleared is saved again unchanged. -/
theorem C15_phase_roundtrip {K : Type} [Sub K] (halfPi ninety : K) (toRad : K → K) (sin deg : Bool) (phi : K) :
    savedPhase halfPi ninety toRad false false (savedPhase halfPi ninety toRad sin deg phi) =
      savedPhase halfPi ninety toRad sin deg phi :=
  savedPhase_reload halfPi ninety toRad sin deg phi

/-! ## one element, all values -/

/-- the drawing elements of the persistable kinds, as the constructor calls that make them
(valid values: real and non-negative — positive for the frequency of a periodic source — where the
component constructor checks it; every
reversal flag; AC sources with any `deg` / `sin` flags, rectangular sources with any `deg`) -/
inductive C15_Canonical : DElem → Prop where
  | vsrc (z : GQ) (rev : Bool) (name : String) (a b : Pt) :
      C15_Canonical ⟨"VoltageSource", [("V", .num z), ("name", .str name), ("reverse", .bool rev)], a, b⟩
  | isrc (z : GQ) (rev : Bool) (name : String) (a b : Pt) :
      C15_Canonical ⟨"CurrentSource", [("I", .num z), ("name", .str name), ("reverse", .bool rev)], a, b⟩
  | cvsrc (z : GQ) (rev : Bool) (name : String) (a b : Pt) :
      C15_Canonical ⟨"ComplexVoltageSource", [("V", .num z), ("name", .str name), ("reverse", .bool rev)], a, b⟩
  | cisrc (z : GQ) (rev : Bool) (name : String) (a b : Pt) :
      C15_Canonical ⟨"ComplexCurrentSource", [("I", .num z), ("name", .str name), ("reverse", .bool rev)], a, b⟩
  | acv (v w phi : GQ) (hv : v.im = 0) (hw : w.im = 0) (hw0 : ¬ w.re < 0) (hp : phi.im = 0) (rev : Bool)
      (name : String) (a b : Pt) :
      C15_Canonical ⟨"ACVoltageSource", [("V", .num v), ("w", .num w), ("phi", .num phi), ("name", .str name), ("reverse", .bool rev)], a, b⟩
  | aci (v w phi : GQ) (hv : v.im = 0) (hw : w.im = 0) (hw0 : ¬ w.re < 0) (hp : phi.im = 0) (rev : Bool)
      (name : String) (a b : Pt) :
      C15_Canonical ⟨"ACCurrentSource", [("I", .num v), ("w", .num w), ("phi", .num phi), ("name", .str name), ("reverse", .bool rev)], a, b⟩
  | acvFlags (v w phi : GQ) (hv : v.im = 0) (hw : w.im = 0) (hw0 : ¬ w.re < 0) (hp : phi.im = 0) (deg sin rev : Bool)
      (name : String) (a b : Pt) :
      C15_Canonical ⟨"ACVoltageSource", [("V", .num v), ("w", .num w), ("phi", .num phi), ("deg", .bool deg), ("sin", .bool sin), ("name", .str name), ("reverse", .bool rev)], a, b⟩
  | aciFlags (v w phi : GQ) (hv : v.im = 0) (hw : w.im = 0) (hw0 : ¬ w.re < 0) (hp : phi.im = 0) (deg sin rev : Bool)
      (name : String) (a b : Pt) :
      C15_Canonical ⟨"ACCurrentSource", [("I", .num v), ("w", .num w), ("phi", .num phi), ("deg", .bool deg), ("sin", .bool sin), ("name", .str name), ("reverse", .bool rev)], a, b⟩
  | rectv (v w phi : GQ) (hv : v.im = 0) (hw : w.im = 0) (hw0 : ¬ w.re ≤ 0) (hp : phi.im = 0) (rev : Bool)
      (name : String) (a b : Pt) :
      C15_Canonical ⟨"RectVoltageSource", [("V", .num v), ("w", .num w), ("phi", .num phi), ("name", .str name), ("reverse", .bool rev)], a, b⟩
  | recti (v w phi : GQ) (hv : v.im = 0) (hw : w.im = 0) (hw0 : ¬ w.re ≤ 0) (hp : phi.im = 0) (rev : Bool)
      (name : String) (a b : Pt) :
      C15_Canonical ⟨"RectCurrentSource", [("I", .num v), ("w", .num w), ("phi", .num phi), ("name", .str name), ("reverse", .bool rev)], a, b⟩
  | rectvDeg (v w phi : GQ) (hv : v.im = 0) (hw : w.im = 0) (hw0 : ¬ w.re ≤ 0) (hp : phi.im = 0) (deg rev : Bool)
      (name : String) (a b : Pt) :
      C15_Canonical ⟨"RectVoltageSource", [("V", .num v), ("w", .num w), ("phi", .num phi), ("deg", .bool deg), ("name", .str name), ("reverse", .bool rev)], a, b⟩
  | rectiDeg (v w phi : GQ) (hv : v.im = 0) (hw : w.im = 0) (hw0 : ¬ w.re ≤ 0) (hp : phi.im = 0) (deg rev : Bool)
      (name : String) (a b : Pt) :
      C15_Canonical ⟨"RectCurrentSource", [("I", .num v), ("w", .num w), ("phi", .num phi), ("deg", .bool deg), ("name", .str name), ("reverse", .bool rev)], a, b⟩
  | res (z : GQ) (him : z.im = 0) (hpos : ¬ z.re < 0) (rev : Bool) (name : String) (a b : Pt) :
      C15_Canonical ⟨"Resistor", [("R", .num z), ("name", .str name), ("reverse", .bool rev)], a, b⟩
  | cond (z : GQ) (him : z.im = 0) (hpos : ¬ z.re < 0) (rev : Bool) (name : String) (a b : Pt) :
      C15_Canonical ⟨"Conductance", [("G", .num z), ("name", .str name), ("reverse", .bool rev)], a, b⟩
  | cap (z : GQ) (him : z.im = 0) (hpos : ¬ z.re < 0) (rev : Bool) (name : String) (a b : Pt) :
      C15_Canonical ⟨"Capacitor", [("C", .num z), ("name", .str name), ("reverse", .bool rev)], a, b⟩
  | ind (z : GQ) (him : z.im = 0) (hpos : ¬ z.re < 0) (rev : Bool) (name : String) (a b : Pt) :
      C15_Canonical ⟨"Inductance", [("L", .num z), ("name", .str name), ("reverse", .bool rev)], a, b⟩
  | imp (r i : Rat) (rev : Bool) (name : String) (a b : Pt) :
      C15_Canonical ⟨"Impedance", [("Z", .num ⟨r, i⟩), ("name", .str name), ("reverse", .bool rev)], a, b⟩
  | gnd (name : String) (a b : Pt) : C15_Canonical ⟨"Ground", [("name", .str name)], a, b⟩
  | line (rev : Bool) (a b : Pt) : C15_Canonical ⟨"Line", [("reverse", .bool rev)], a, b⟩

/-- **Round trip of one element, for all values**: for every persistable kind, every value,
reversal flag, `deg` / `sin` flag, name and position, saving the element (with its translated
component as circuit section) and loading it back gives an element that (B) translates to the
same component for any terminal names, (F) is a fixed point of further save/load cycles,
(S) keeps class, anchors, name, reversal flag and node id — evaluated on the interpretive model
over the generated tables. -/
theorem C15_roundtrip_element (π : Rat) (d : DElem) (h : C15_Canonical d) : ElemStable π d := by
  cases h with
  | vsrc z rev name a b => exact stable_VoltageSource π z rev name a b
  | isrc z rev name a b => exact stable_CurrentSource π z rev name a b
  | cvsrc z rev name a b => exact stable_ComplexVoltageSource π z rev name a b
  | cisrc z rev name a b => exact stable_ComplexCurrentSource π z rev name a b
  | acv v w phi hv hw hw0 hp rev name a b => exact stable_ACVoltageSource π v w phi hv hw hw0 hp rev name a b
  | aci v w phi hv hw hw0 hp rev name a b => exact stable_ACCurrentSource π v w phi hv hw hw0 hp rev name a b
  | acvFlags v w phi hv hw hw0 hp deg sin rev name a b => exact stable_ACVoltageSource_flags π v w phi hv hw hw0 hp deg sin rev name a b
  | aciFlags v w phi hv hw hw0 hp deg sin rev name a b => exact stable_ACCurrentSource_flags π v w phi hv hw hw0 hp deg sin rev name a b
  | rectv v w phi hv hw hw0 hp rev name a b => exact stable_RectVoltageSource π v w phi hv hw hw0 hp rev name a b
  | recti v w phi hv hw hw0 hp rev name a b => exact stable_RectCurrentSource π v w phi hv hw hw0 hp rev name a b
  | rectvDeg v w phi hv hw hw0 hp deg rev name a b => exact stable_RectVoltageSource_deg π v w phi hv hw hw0 hp deg rev name a b
  | rectiDeg v w phi hv hw hw0 hp deg rev name a b => exact stable_RectCurrentSource_deg π v w phi hv hw hw0 hp deg rev name a b
  | res z him hpos rev name a b => exact stable_Resistor π z him hpos rev name a b
  | cond z him hpos rev name a b => exact stable_Conductance π z him hpos rev name a b
  | cap z him hpos rev name a b => exact stable_Capacitor π z him hpos rev name a b
  | ind z him hpos rev name a b => exact stable_Inductance π z him hpos rev name a b
  | imp r i rev name a b => exact stable_Impedance π r i rev name a b
  | gnd name a b => exact stable_Ground π name a b
  | line rev a b => exact stable_Line π rev "" a b

/-- non-vacuity: the reversed 5 V source really is translated, on both sides of the equation -/
example :
    elemComp C15_pi64 ⟨"VoltageSource", [("V", .num 5), ("name", .str "V1"), ("reverse", .bool true)], ⟨0, 0⟩, ⟨0, 5⟩⟩ ["a", "b"]
      = .ok (some { type := "dc_voltage_source", id := "V1", nodes := ["b", "a"],
                    value := [("V", .num ⟨5, 0⟩), ("R", .num ⟨0, 0⟩), ("w", .num ⟨0, 0⟩), ("phi", .num ⟨0, 0⟩)] }) := by
  decide +kernel

/-- **Any number of cycles, one element**: after `n ≥ 1` save/load cycles the element still
translates to the component of the original element. -/
theorem C15_stable_element (π : Rat) (d : DElem) (h : C15_Canonical d) (n : Nat) (la lb : String) :
    (do elemComp π (← reloadN π [la, lb] (n + 1) d) [la, lb]) = elemComp π d [la, lb] :=
  elem_cycles_stable (C15_roundtrip_element π d h) n la lb

/-! ## whole drawings -/

/-- **Round trip of a drawing**: for every drawing over the persistable kinds (any values, reversal
and `deg` / `sin` flags) whose element names are unique (wires are anonymous), for every set
iteration order: one save/load cycle yields a drawing that translates to the *same* circuit
(ids, kinds, values, terminal order, node names, reference node). -/
theorem C15_roundtrip (π : Rat) (ord : SetOrd Pt) (d d' : List DElem)
    (hcan : ∀ e ∈ d, C15_Canonical e) (hnames : NamesWF π d) (h : saveLoad π ord d = .ok d') :
    circuitOf π ord d' = circuitOf π ord d :=
  saveLoad_roundtrip π ord d d' (fun e he => C15_roundtrip_element π e (hcan e he)) hnames h

/-- **Any number of cycles**: the same after `n` save/load cycles. -/
theorem C15_stable (π : Rat) (ord : SetOrd Pt) (n : Nat) (d d' : List DElem)
    (hcan : ∀ e ∈ d, C15_Canonical e) (hnames : NamesWF π d) (h : cycles π ord n d = .ok d') :
    circuitOf π ord d' = circuitOf π ord d :=
  (cycles_roundtrip π ord n d d' ⟨fun e he => C15_roundtrip_element π e (hcan e he), hnames⟩ h).2

/-- **Induction over cycles** (generic form): if one save/load cycle keeps the translated circuit
on a domain that it maps into itself, then so does any number of cycles. -/
theorem C15_cycles (π : Rat) (ord : SetOrd Pt) (Dom : List DElem → Prop)
    (hstep : ∀ d, Dom d → ∃ d', saveLoad π ord d = .ok d' ∧ Dom d' ∧ circuitOf π ord d' = circuitOf π ord d) :
    ∀ (n : Nat) (d : List DElem), Dom d →
      ∃ d', cycles π ord n d = .ok d' ∧ Dom d' ∧ circuitOf π ord d' = circuitOf π ord d :=
  cycles_preserve π ord Dom hstep

/-- the drawing of the former counterexample (finding 3, repaired by 5d18a69): an AC voltage
source of 30°, `deg=True`, a resistor, two wires and a ground -/
def C15_driftDrawing : List DElem :=
  [⟨"ACVoltageSource", [("V", .num 3), ("w", .num 100), ("phi", .num 30), ("deg", .bool true), ("sin", .bool true),
      ("name", .str "X"), ("reverse", .bool false)], ⟨0, 0⟩, ⟨0, 5⟩⟩,
   ⟨"Resistor", [("R", .num 10), ("name", .str "R1"), ("reverse", .bool false)], ⟨0, 5⟩, ⟨5, 5⟩⟩,
   ⟨"Line", [("reverse", .bool false)], ⟨5, 5⟩, ⟨5, 0⟩⟩, ⟨"Line", [("reverse", .bool false)], ⟨5, 0⟩, ⟨0, 0⟩⟩,
   ⟨"Ground", [("name", .str "0")], ⟨0, 0⟩, ⟨0, 0⟩⟩]

/-- regression and non-vacuity: that drawing is saved, reloaded three times and still translates
to its (successfully translated) original circuit -/
example :
    (do circuitOf C15_pi64 C15_listOrder (← cycles C15_pi64 C15_listOrder 3 C15_driftDrawing))
      = circuitOf C15_pi64 C15_listOrder C15_driftDrawing ∧
    (circuitOf C15_pi64 C15_listOrder C15_driftDrawing).toOption.isSome = true := by
  decide +kernel

/-! ## declarative descriptions -/

/-- **Placement keys do not reach the constructor**: for every handler class and all values,
`construct cls (type :: values ++ [direction, length, place_after])` = `construct cls values` —
the four keys of a declarative description that `element_factory` hands on with the rest reach
no circuit-relevant attribute of the symbol (one fixed key order per class).  The model function
`declarative` itself (handler lookup, `line` with / without name, direction → method,
`length × unit`, `place_after` → end anchor of the named element) occurs in no theorem: it is tied
to `schematic.py` by the generated tables (`C15_tables`) and the correspondence, and "a declarative
element list produces the same symbol list / circuit as the constructor calls" is judged by the
oracle (see `OPEN_STATEMENTS` of harness/props/c15.py). -/
theorem C15_declarative (π : Rat) (r s t : Val) (name : String) (rev : Bool) (tv dv lv pv : Val) :
    DeclSame π "Resistor" [("R", r), ("name", .str name), ("reverse", .bool rev)] tv dv lv pv ∧
    DeclSame π "Conductance" [("G", r), ("name", .str name), ("reverse", .bool rev)] tv dv lv pv ∧
    DeclSame π "Impedance" [("Z", r), ("name", .str name), ("reverse", .bool rev)] tv dv lv pv ∧
    DeclSame π "Admittance" [("Y", r), ("name", .str name), ("reverse", .bool rev)] tv dv lv pv ∧
    DeclSame π "Capacitor" [("C", r), ("name", .str name), ("reverse", .bool rev)] tv dv lv pv ∧
    DeclSame π "Inductance" [("L", r), ("name", .str name), ("reverse", .bool rev)] tv dv lv pv ∧
    DeclSame π "Lamp" [("V_ref", r), ("P_ref", s), ("name", .str name), ("reverse", .bool rev)] tv dv lv pv ∧
    DeclSame π "VoltageSource" [("V", r), ("name", .str name), ("reverse", .bool rev)] tv dv lv pv ∧
    DeclSame π "CurrentSource" [("I", r), ("name", .str name), ("reverse", .bool rev)] tv dv lv pv ∧
    DeclSame π "ComplexVoltageSource" [("V", r), ("name", .str name), ("reverse", .bool rev)] tv dv lv pv ∧
    DeclSame π "ComplexCurrentSource" [("I", r), ("name", .str name), ("reverse", .bool rev)] tv dv lv pv ∧
    DeclSame π "ACVoltageSource" [("V", r), ("w", s), ("phi", t), ("name", .str name), ("reverse", .bool rev)] tv dv lv pv ∧
    DeclSame π "ACCurrentSource" [("I", r), ("w", s), ("phi", t), ("name", .str name), ("reverse", .bool rev)] tv dv lv pv ∧
    DeclSame π "LabeledLine" [("name", .str name), ("reverse", .bool rev)] tv dv lv pv ∧
    DeclSame π "Line" [("name", .str name), ("reverse", .bool rev)] tv dv lv pv ∧
    DeclSame π "Node" [("name", .str name), ("reverse", .bool rev)] tv dv lv pv ∧
    DeclSame π "Ground" [("name", .str name), ("reverse", .bool rev)] tv dv lv pv :=
  ⟨decl_Resistor π r s t name rev tv dv lv pv, decl_Conductance π r s t name rev tv dv lv pv,
   decl_Impedance π r s t name rev tv dv lv pv, decl_Admittance π r s t name rev tv dv lv pv,
   decl_Capacitor π r s t name rev tv dv lv pv, decl_Inductance π r s t name rev tv dv lv pv,
   decl_Lamp π r s t name rev tv dv lv pv, decl_VoltageSource π r s t name rev tv dv lv pv,
   decl_CurrentSource π r s t name rev tv dv lv pv, decl_ComplexVoltageSource π r s t name rev tv dv lv pv,
   decl_ComplexCurrentSource π r s t name rev tv dv lv pv, decl_ACVoltageSource π r s t name rev tv dv lv pv,
   decl_ACCurrentSource π r s t name rev tv dv lv pv, decl_LabeledLine π r s t name rev tv dv lv pv,
   decl_Line π r s t name rev tv dv lv pv, decl_Node π r s t name rev tv dv lv pv,
   decl_Ground π r s t name rev tv dv lv pv⟩

/-- non-vacuity: a declarative resistor description builds the resistor symbol -/
example :
    declarative C15_pi64 4 [[("type", .str "resistor"), ("R", .num 5), ("name", .str "R1"), ("direction", .str "up"), ("length", .num 2)]]
      = .ok [{ cls := "Resistor",
               kwargs := [("type", .str "resistor"), ("R", .num 5), ("name", .str "R1"), ("direction", .str "up"),
                          ("length", .num 2), ("reverse", .bool false)],
               method := "up", length := 8, after := none }] := by
  decide +kernel

end CC
