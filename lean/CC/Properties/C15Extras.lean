/-
  C15 (round 5b) — save ∘ load of drawings whose elements carry extra, opaque keywords
  (schemdraw placement / styling parameters such as `d`, `l`, `at`, `label`, `color`: keys the
  symbol class does not read and the loader does not write).

  Model: `CC.Draw.saveLoad` / `cycles` (CC/Model/DrawIO.lean; mirrors SimpleCircuit/dump_load.py
  `dictify_element`, `serialize_schemdraw_element`, `undictify_element`, `dictify_all`,
  `undictify_schematic`) over the generated class / loader / constructor tables.
  Helper lemmas: CC/Proofs/DrawExtras.lean (`Merge`, `ExtOf`, `saveLoad_ext`, `cycles_ext`), on
  top of `construct_congr` (CC/Proofs/DrawDeclarative2.lean) and of `C15_roundtrip` /
  `C15_stable` (CC/Properties/C15.lean), which are used, not re-proved.
-/
import CC.Proofs.DrawExtras
import CC.Properties.C15
namespace CC
open CC.Draw

/-! ## the restriction on the extras -/

/-- **Keys** (decidable): the element's class is one of the persistable classes, and no extra
has a key that the class or its ancestors read (`usedKeys`) or that `undictify_element` writes
itself (`reservedKeys`: `name`, `reverse`, `deg`, `sin`, the value keys of the component
constructors — they come back from the circuit section —, the keys of `combine_to_complex`). -/
def C15_extrasOK (cls : String) (ex : List (String × Val)) : Bool :=
  decide (cls ∈ persistableClasses) &&
    match classInfo cls with
    | some c => keysOK c ex
    | none => false

/-- **Values** (decidable; needed only for "the extras come back verbatim", not for the
circuit): no extra is `None` or a number with an imaginary part — i.e. every value is a real
number, a boolean, a string, `inf` or a point.  Exactly the values `v` with
`v ≠ None ∧ serializeVal v = v` (`CC.Draw.valKept_iff`). -/
def C15_valuesKept (ex : List (String × Val)) : Bool := ex.all fun kv => valKept kv.2

/-- the drawing `d0` with the extras `exs` (one list per element) appended to the keywords -/
def C15_withExtras (d0 : List DElem) (exs : List (List (String × Val))) : List DElem :=
  List.zipWith (fun y ex => ⟨y.cls, y.kwargs ++ ex, y.start, y.stop⟩) d0 exs

theorem C15_canonical_persistable (e : DElem) (h : C15_Canonical e) : e.cls ∈ persistableClasses := by
  cases h <;> (show _ ∈ persistableClasses; dsimp only; decide)

/-- a drawing with admissible extras is related, element by element, to the drawing without -/
theorem C15_withExtras_ext (d0 : List DElem) (exs : List (List (String × Val)))
    (hex : List.Forall₂ (fun y ex => C15_extrasOK y.cls ex = true) d0 exs) :
    All₃ ExtOf exs (C15_withExtras d0 exs) d0 := by
  induction hex with
  | nil => exact All₃.nil
  | @cons y ex ys exs hy _ ih =>
    refine All₃.cons ?_ ih
    unfold C15_extrasOK at hy
    obtain ⟨hp, hk⟩ := Bool.and_eq_true_iff.mp hy
    refine ⟨rfl, rfl, rfl, Merge.append _ _, of_decide_eq_true hp, ?_⟩
    intro c hc
    rw [hc] at hk
    exact (keysOK_iff c ex).mp hk

/-! ## one cycle -/

/-- **Save ∘ load with extras behaves like save ∘ load without** (any base drawing over the
persistable classes, any keyword layout of the base, any values of the extras): `saveLoad` of
the drawing with extras fails with the same error as `saveLoad` of the drawing without, or
both succeed; then each reloaded element has the class and anchors of the reloaded base element
and its keyword list is an interleaving (`Merge`) of the reloaded base keywords with the extras
after one cycle (`nextEx`: `None` entries dropped, complex values replaced by `None`, everything
else verbatim, in order).  The reloaded keyword lists are in general *not* `base ++ extras`
again (the loader appends the circuit values behind the extras), which is why the statement is
about interleavings. -/
theorem C15_saveLoad_extras (π : Rat) (ord : SetOrd Pt) (d0 : List DElem) (exs : List (List (String × Val)))
    (hex : List.Forall₂ (fun y ex => C15_extrasOK y.cls ex = true) d0 exs) :
    XRel (All₃ ExtOf (exs.map nextEx)) (saveLoad π ord (C15_withExtras d0 exs)) (saveLoad π ord d0) :=
  saveLoad_ext π ord (C15_withExtras_ext d0 exs hex)

/-- **Round trip of a drawing with extra keywords** (`C15_Canonical` layouts plus extras whose
keys satisfy `C15_extrasOK`; *any* values): if one save → load cycle of the drawing with extras
succeeds with `d'`, then the cycle of the drawing without extras succeeds with some `d0'`, and
(1) `d'` is `d0'` with the extras `nextEx ex` merged in (`ExtOf`), (2) the symbols of `d'` are
the symbols of `d0'` (`instantiate`: kinds, names, reversal flags, node ids, attribute values,
anchors), (3) `d'` translates to the circuit of the original drawing with extras, which is
(4) the circuit of the original drawing without.  Uses `C15_roundtrip` for the base.  Does not
say the symbols of `d'` equal those of the *original* drawing (`C15_roundtrip` does not either:
e.g. a `deg` flag is cleared on load); names must be unique in the base drawing (`NamesWF`). -/
theorem C15_roundtrip_extras (π : Rat) (ord : SetOrd Pt) (d0 : List DElem) (exs : List (List (String × Val)))
    (d' : List DElem) (hcan : ∀ e ∈ d0, C15_Canonical e) (hnames : NamesWF π d0)
    (hex : List.Forall₂ (fun y ex => C15_extrasOK y.cls ex = true) d0 exs)
    (h : saveLoad π ord (C15_withExtras d0 exs) = .ok d') :
    ∃ d0', saveLoad π ord d0 = .ok d0' ∧ All₃ ExtOf (exs.map nextEx) d' d0' ∧
      instantiate π d' = instantiate π d0' ∧
      circuitOf π ord d' = circuitOf π ord (C15_withExtras d0 exs) ∧
      circuitOf π ord d' = circuitOf π ord d0 := by
  have hext := C15_withExtras_ext d0 exs hex
  obtain ⟨d0', h0, hrel⟩ := (saveLoad_ext π ord hext).ok_left h
  have hc0 := C15_roundtrip π ord d0 d0' hcan hnames h0
  have hc : circuitOf π ord d' = circuitOf π ord d0 := (circuitOf_ext π ord hrel).trans hc0
  exact ⟨d0', h0, hrel, instantiate_ext π hrel, hc.trans (circuitOf_ext π ord hext).symm, hc⟩

/-- **The cycle with extras succeeds whenever the cycle without does** (converse direction of
the success claim in `C15_roundtrip_extras`). -/
theorem C15_saveLoad_extras_succeeds (π : Rat) (ord : SetOrd Pt) (d0 : List DElem) (exs : List (List (String × Val)))
    (d0' : List DElem) (hex : List.Forall₂ (fun y ex => C15_extrasOK y.cls ex = true) d0 exs)
    (h0 : saveLoad π ord d0 = .ok d0') :
    ∃ d', saveLoad π ord (C15_withExtras d0 exs) = .ok d' ∧ All₃ ExtOf (exs.map nextEx) d' d0' :=
  (C15_saveLoad_extras π ord d0 exs hex).ok_right h0

/-- **Extras with kept values come back verbatim**: if in addition no extra is `None` or complex
(`C15_valuesKept`), the reloaded drawing is the reloaded base with *the same* extras merged in
(same keys, same values, same relative order). -/
theorem C15_roundtrip_extras_verbatim (π : Rat) (ord : SetOrd Pt) (d0 : List DElem) (exs : List (List (String × Val)))
    (d' : List DElem) (hex : List.Forall₂ (fun y ex => C15_extrasOK y.cls ex = true) d0 exs)
    (hval : ∀ ex ∈ exs, C15_valuesKept ex = true)
    (h : saveLoad π ord (C15_withExtras d0 exs) = .ok d') :
    ∃ d0', saveLoad π ord d0 = .ok d0' ∧ All₃ ExtOf exs d' d0' := by
  obtain ⟨d0', h0, hrel⟩ := (C15_saveLoad_extras π ord d0 exs hex).ok_left h
  have : exs.map nextEx = exs := by
    conv_rhs => rw [← List.map_id exs]
    apply List.map_congr_left
    intro ex hm
    exact nextEx_self (fun kv hkv => List.all_eq_true.mp (hval ex hm) kv hkv)
  rw [this] at hrel
  exact ⟨d0', h0, hrel⟩

/-- every extra is an entry of the merged keyword list -/
theorem C15_merge_mem {a ex l : List (String × Val)} (h : Merge a ex l) : ∀ kv ∈ ex, kv ∈ l := by
  induction h with
  | nil => intro kv hkv; cases hkv
  | left x _ ih => intro kv hkv; exact List.mem_cons_of_mem _ (ih kv hkv)
  | right x _ ih =>
    intro kv hkv
    rcases List.mem_cons.mp hkv with rfl | hkv
    · exact List.mem_cons_self
    · exact List.mem_cons_of_mem _ (ih kv hkv)

/-! ## any number of cycles -/

/-- **Any number of cycles, with extras**: if `n` save → load cycles of the drawing with extras
(`C15_Canonical` layouts plus extras with admissible keys, any values) succeed with `d'`, then
`n` cycles of the drawing without succeed with some `d0'`, `d'` is `d0'` with the extras after
`n` cycles merged in, the symbols of `d'` are those of `d0'`, and `d'` translates to the circuit
of the original drawing (with or without extras).  Uses `C15_stable` for the base. -/
theorem C15_stable_extras (π : Rat) (ord : SetOrd Pt) (n : Nat) (d0 : List DElem) (exs : List (List (String × Val)))
    (d' : List DElem) (hcan : ∀ e ∈ d0, C15_Canonical e) (hnames : NamesWF π d0)
    (hex : List.Forall₂ (fun y ex => C15_extrasOK y.cls ex = true) d0 exs)
    (h : cycles π ord n (C15_withExtras d0 exs) = .ok d') :
    ∃ d0', cycles π ord n d0 = .ok d0' ∧ All₃ ExtOf (exs.map (nextExN n)) d' d0' ∧
      instantiate π d' = instantiate π d0' ∧
      circuitOf π ord d' = circuitOf π ord (C15_withExtras d0 exs) ∧
      circuitOf π ord d' = circuitOf π ord d0 := by
  have hext := C15_withExtras_ext d0 exs hex
  obtain ⟨d0', h0, hrel⟩ := (cycles_ext π ord n hext).ok_left h
  have hc0 := C15_stable π ord n d0 d0' hcan hnames h0
  have hc : circuitOf π ord d' = circuitOf π ord d0 := (circuitOf_ext π ord hrel).trans hc0
  exact ⟨d0', h0, hrel, instantiate_ext π hrel, hc.trans (circuitOf_ext π ord hext).symm, hc⟩

/-- **`n` cycles with extras succeed whenever `n` cycles without do**, and extras with kept
values are still there, verbatim, after `n` cycles. -/
theorem C15_stable_extras_verbatim (π : Rat) (ord : SetOrd Pt) (n : Nat) (d0 : List DElem) (exs : List (List (String × Val)))
    (d0' : List DElem) (hex : List.Forall₂ (fun y ex => C15_extrasOK y.cls ex = true) d0 exs)
    (hval : ∀ ex ∈ exs, C15_valuesKept ex = true) (h0 : cycles π ord n d0 = .ok d0') :
    ∃ d', cycles π ord n (C15_withExtras d0 exs) = .ok d' ∧ All₃ ExtOf exs d' d0' := by
  obtain ⟨d', h, hrel⟩ := (cycles_ext π ord n (C15_withExtras_ext d0 exs hex)).ok_right h0
  have : exs.map (nextExN n) = exs := by
    conv_rhs => rw [← List.map_id exs]
    apply List.map_congr_left
    intro ex hm
    exact nextExN_self (fun kv hkv => List.all_eq_true.mp (hval ex hm) kv hkv) n
  rw [this] at hrel
  exact ⟨d', h, hrel⟩

/-! ## non-vacuity and the witnesses for the value restriction -/

/-- a decidable check that implies `NamesWF` -/
def C15_namesCheck (π : Rat) (d : List DElem) : Bool :=
  d.all fun e₁ => d.all fun e₂ =>
    match e₁.toSym π, e₂.toSym π with
    | .ok s₁, .ok s₂ => decide (s₁.name ≠ s₂.name) || decide (e₁ = e₂) || (decide (e₁.cls = "Line") && decide (e₂.cls = "Line"))
    | _, _ => true

theorem C15_namesWF_of_check (π : Rat) (d : List DElem) (h : C15_namesCheck π d = true) : NamesWF π d := by
  intro e₁ h₁ e₂ h₂ s₁ s₂ hs₁ hs₂ hn
  unfold C15_namesCheck at h
  have := List.all_eq_true.mp (List.all_eq_true.mp h e₁ h₁) e₂ h₂
  simp only [hs₁, hs₂, hn, ne_eq, not_true_eq_false, decide_false, Bool.false_or, Bool.or_eq_true, Bool.and_eq_true,
    decide_eq_true_eq] at this
  exact this

/-- a 5 V source, a resistor, a ground — with the layouts of `C15_Canonical` -/
def C15_smallDrawing : List DElem :=
  [⟨"VoltageSource", [("V", .num 5), ("name", .str "V1"), ("reverse", .bool true)], ⟨0, 0⟩, ⟨0, 5⟩⟩,
   ⟨"Resistor", [("R", .num 10), ("name", .str "R1"), ("reverse", .bool false)], ⟨0, 5⟩, ⟨0, 0⟩⟩,
   ⟨"Ground", [("name", .str "0")], ⟨0, 0⟩, ⟨0, 0⟩⟩]

/-- placement / styling keywords as schemdraw users write them -/
def C15_smallExtras : List (List (String × Val)) :=
  [[("d", .str "up"), ("l", .num 5), ("label", .str "$U_q$")],
   [("d", .str "down"), ("at", .pt ⟨0, 5⟩), ("color", .str "red"), ("lw", .num 2), ("fill", .bool true)],
   []]

/-- non-vacuity of `C15_roundtrip_extras` / `C15_stable_extras` / the `_verbatim` theorems: the
small drawing meets every hypothesis, and one and three cycles of the drawing with extras succeed
and translate to the (successfully translated) original circuit -/
example :
    (∀ e ∈ C15_smallDrawing, C15_Canonical e) ∧ NamesWF C15_pi64 C15_smallDrawing ∧
    List.Forall₂ (fun y ex => C15_extrasOK y.cls ex = true) C15_smallDrawing C15_smallExtras ∧
    (∀ ex ∈ C15_smallExtras, C15_valuesKept ex = true) ∧
    (saveLoad C15_pi64 C15_listOrder (C15_withExtras C15_smallDrawing C15_smallExtras)).toOption.isSome = true ∧
    (do circuitOf C15_pi64 C15_listOrder (← cycles C15_pi64 C15_listOrder 3 (C15_withExtras C15_smallDrawing C15_smallExtras)))
      = circuitOf C15_pi64 C15_listOrder C15_smallDrawing ∧
    (circuitOf C15_pi64 C15_listOrder C15_smallDrawing).toOption.isSome = true := by
  refine ⟨?_, C15_namesWF_of_check _ _ (by decide +kernel), ?_, by decide +kernel, by decide +kernel, by decide +kernel,
    by decide +kernel⟩
  · intro e he
    simp only [C15_smallDrawing, List.mem_cons, List.not_mem_nil, or_false] at he
    rcases he with rfl | rfl | rfl
    · exact .vsrc 5 true "V1" _ _
    · exact .res 10 (by decide +kernel) (by decide +kernel) false "R1" _ _
    · exact .gnd "0" _ _
  · refine .cons (by decide +kernel) (.cons (by decide +kernel) (.cons (by decide +kernel) .nil))

/-- what the reloaded resistor looks like: the loader appends nothing here, the extras sit
between the base keywords — an interleaving, not `base ++ extras` in general (see the source,
whose circuit values `R`, `w`, `phi` and the cleared flags `deg`, `sin` land *behind* the extras) -/
example :
    (saveLoad C15_pi64 C15_listOrder (C15_withExtras C15_smallDrawing C15_smallExtras)).toOption.map
        (fun d => d.map (fun e => e.kwargs.map (·.1)))
      = some [["V", "name", "reverse", "d", "l", "label", "R", "w", "phi", "deg", "sin"],
              ["R", "name", "reverse", "d", "at", "color", "lw", "fill"], ["name", "reverse"]] := by
  decide +kernel

/-- **The value restriction of the `_verbatim` theorems cannot be dropped** (it is not needed
for the circuit): an extra with value `None` is gone after one cycle, a complex-valued extra is
`None` after one cycle and gone after two. -/
example :
    nextEx [("color", .none)] = [] ∧ nextEx [("z", .num ⟨0, 1⟩)] = [("z", .none)] ∧
    nextExN 2 [("z", .num ⟨0, 1⟩)] = [] ∧
    (saveLoad C15_pi64 C15_listOrder (C15_withExtras C15_smallDrawing [[("z", .num ⟨0, 1⟩)], [("color", .none)], []])).toOption.map
        (fun d => d.map (fun e => (e.kwargs.lookup "z", e.kwargs.lookup "color")))
      = some [(some .none, none), (none, none), (none, none)] ∧
    (cycles C15_pi64 C15_listOrder 2 (C15_withExtras C15_smallDrawing [[("z", .num ⟨0, 1⟩)], [("color", .none)], []])).toOption.map
        (fun d => d.map (fun e => (e.kwargs.lookup "z", e.kwargs.lookup "color")))
      = some [(none, none), (none, none), (none, none)] := by
  decide +kernel

/-- **`FixedAfter` fails for a complex-valued extra**: the reloaded element (extra stored as
`None`) is not a fixed point of the next cycle (the `None` is dropped) — so `ElemStable`, hence
`C15_roundtrip_element`, does not transfer to elements with arbitrary extras, although their
circuit is kept (`C15_roundtrip_extras`). -/
theorem C15_extras_not_fixed :
    ¬ FixedAfter C15_pi64
      ⟨"Resistor", [("R", .num 10), ("name", .str "R1"), ("reverse", .bool false), ("z", .num ⟨0, 1⟩)], ⟨0, 0⟩, ⟨0, 5⟩⟩ := by
  intro h
  have := h "a" "b" "a" "b"
  revert this
  decide +kernel

end CC
