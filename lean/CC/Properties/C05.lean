/-
  Property C05 — power is conserved and has the physically right sign.

  `C05_tellegen` holds for every network, every solution of the circuit equations and
  every field with a ring endomorphism `conj` (complex conjugation on ℂ and on the
  driver's Gaussian rationals; the identity for DC).  The sign facts are stated over ℂ.
-/
import CC.Proofs.NetBasics
import CC.Proofs.SpecLemmas
import Mathlib.Data.Complex.Basic
import Mathlib.Tactic.Linarith
set_option linter.unusedSectionVars false

namespace CC
variable {L K : Type} [DecidableEq L] [Field K] [DecidableEq K]

theorem sum_incidence_mul (ls : List L) (hnd : ls.Nodup) (b : Branch L K) (h1 : b.n1 ∈ ls)
    (h2 : b.n2 ∈ ls) (f : L → K) :
    (ls.map fun n => incidence b n * f n).sum = f b.n1 - f b.n2 := by
  unfold incidence
  have e : ∀ n : L, ((if b.n1 = n then (1 : K) else 0) - (if b.n2 = n then (1 : K) else 0)) * f n
      = (if n = b.n1 then f b.n1 else 0) + (if n = b.n2 then -f b.n2 else 0) := by
    intro n
    have c1 : (n = b.n1) ↔ (b.n1 = n) := eq_comm
    have c2 : (n = b.n2) ↔ (b.n2 = n) := eq_comm
    simp only [c1, c2]
    by_cases h1 : b.n1 = n <;> by_cases h2 : b.n2 = n <;> simp [h1, h2] <;> (try subst h1) <;> (try subst h2) <;> ring
  simp only [e, List.sum_map_add]
  rw [sum_single hnd, sum_single hnd]
  simp [h1, h2]; ring

/-- Tellegen's theorem needs only Kirchhoff's two laws (no element law): in every report that
satisfies the voltage law and the current law the complex powers of all elements sum to
zero: ideal sources and passive elements in the passive sign convention, linear (lossy)
sources counted as delivered power (their reported current is in generator direction). -/
theorem tellegen_of_kvl_kcl (conj : K →+* K) (N : Net L K) (R : Report L K)
    (hvolt : ∀ b ∈ N.branches, voltResidual R b = 0) (hkcl : ∀ n, kclResidual N R n = 0) :
    (N.branches.map fun b => R.v b.id * conj (b.e.physCurrent (R.i b.id))).sum = 0 := by
  set ls := dedupL N.allLabels with hls
  have hnd : ls.Nodup := nodup_dedupL _
  have hv : ∀ b ∈ N.branches, R.v b.id = (ls.map fun n => incidence b n * R.pot n).sum := by
    intro b hb
    rw [sum_incidence_mul ls hnd b
      (mem_dedupL.mpr (mem_allLabels_of_incident N hb (Or.inl rfl)))
      (mem_dedupL.mpr (mem_allLabels_of_incident N hb (Or.inr rfl)))]
    have := hvolt b hb
    unfold voltResidual at this
    linear_combination this
  have step : (N.branches.map fun b => R.v b.id * conj (b.e.physCurrent (R.i b.id))).sum
      = (N.branches.map fun b => (ls.map fun n =>
          R.pot n * (incidence b n * conj (b.e.physCurrent (R.i b.id)))).sum).sum := by
    apply congrArg; apply List.map_congr_left
    intro b hb
    rw [hv b hb, ← List.sum_map_mul_right]
    apply congrArg; apply List.map_congr_left
    intro n _; ring
  rw [step, sum_map_comm]
  apply List.sum_eq_zero
  intro y hy
  obtain ⟨n, _, rfl⟩ := List.mem_map.mp hy
  rw [List.sum_map_mul_left]
  have hk := hkcl n
  unfold kclResidual at hk
  have : (N.branches.map fun b => incidence b n * conj (b.e.physCurrent (R.i b.id))).sum
      = conj ((N.branches.map fun b => incidence b n * b.e.physCurrent (R.i b.id)).sum) := by
    rw [map_list_sum, List.map_map]
    apply congrArg; apply List.map_congr_left
    intro b _
    simp only [Function.comp_apply, map_mul]
    congr 1
    unfold incidence
    by_cases h1 : b.n1 = n <;> by_cases h2 : b.n2 = n <;> simp [h1, h2]
  rw [this, hk, map_zero, mul_zero]

/-- **C05 (Tellegen).**  In every solved circuit the complex powers of all elements sum to
zero: ideal sources and passive elements in the passive sign convention, linear (lossy)
sources counted as delivered power (their reported current is in generator direction). -/
theorem C05_tellegen (conj : K →+* K) (N : Net L K) (R : Report L K) (h : CircuitEqs N R) :
    (N.branches.map fun b => R.v b.id * conj (b.e.physCurrent (R.i b.id))).sum = 0 :=
  tellegen_of_kvl_kcl conj N R h.volt h.kcl_all

/-- **C05 (instantaneous and per-sample power balance).**  Time-domain and transient results
report `p(t) = v(t)·i(t)`; whenever the instantaneous values satisfy Kirchhoff's voltage and
current laws at an instant / sample (C09 `C09_kcl_instant`, C12 `C12_kcl_sample`), the
instantaneous powers sum to zero at that instant — Tellegen with the identity in place of
conjugation, over any field (ℝ for waveforms). -/
theorem C05_instant (N : Net L K) (R : Report L K)
    (hvolt : ∀ b ∈ N.branches, voltResidual R b = 0) (hkcl : ∀ n, kclResidual N R n = 0) :
    (N.branches.map fun b => R.v b.id * b.e.physCurrent (R.i b.id)).sum = 0 := by
  simpa using tellegen_of_kvl_kcl (RingHom.id K) N R hvolt hkcl

/-- reported power of a branch: `V · conj(I)` of the reported values; for a linear source
this is the *delivered* power, i.e. minus the power in the passive convention -/
theorem C05_power_sign (conj : K →+* K) (e : Elem K) (v i : K) :
    v * conj (e.physCurrent i) = if e.isLossy then -(v * conj i) else v * conj i := by
  unfold Elem.physCurrent
  by_cases h : e.isLossy = true <;> simp [h]

open Complex in
/-- **C05 (resistor).**  `P = R·|I|²`: real and non-negative. -/
theorem C05_resistor (R : ℝ) (hR : 0 ≤ R) (i : ℂ) :
    ((R : ℂ) * i) * (starRingEnd ℂ) i = ((R * normSq i : ℝ) : ℂ) ∧
    (((R : ℂ) * i) * (starRingEnd ℂ) i).im = 0 ∧ 0 ≤ (((R : ℂ) * i) * (starRingEnd ℂ) i).re := by
  have h : ((R : ℂ) * i) * (starRingEnd ℂ) i = ((R * normSq i : ℝ) : ℂ) := by
    rw [mul_assoc, mul_conj]; push_cast; ring
  refine ⟨h, ?_, ?_⟩
  · rw [h]; exact ofReal_im _
  · rw [h, ofReal_re]; exact mul_nonneg hR (normSq_nonneg i)

open Complex in
/-- **C05 (inductor).**  `Z = jωL`: the power is purely reactive with `Q = ωL·|I|² ≥ 0`. -/
theorem C05_inductor (w Lv : ℝ) (hw : 0 ≤ w) (hL : 0 ≤ Lv) (i : ℂ) :
    let P := ((⟨0, w * Lv⟩ : ℂ) * i) * (starRingEnd ℂ) i
    P.re = 0 ∧ P.im = w * Lv * normSq i ∧ 0 ≤ P.im := by
  have h : ((⟨0, w * Lv⟩ : ℂ) * i) * (starRingEnd ℂ) i = (⟨0, w * Lv⟩ : ℂ) * ((normSq i : ℝ) : ℂ) := by
    rw [mul_assoc, mul_conj]
  simp only [h]
  refine ⟨by simp, by simp, ?_⟩
  simp only [mul_im, ofReal_re, ofReal_im, mul_zero, zero_mul, add_zero, zero_add]
  exact mul_nonneg (mul_nonneg hw hL) (normSq_nonneg i)

open Complex in
/-- **C05 (capacitor).**  `Y = jωC`, `I = Y·V`: purely reactive with `Q = −ωC·|V|² ≤ 0`. -/
theorem C05_capacitor (w C : ℝ) (hw : 0 ≤ w) (hC : 0 ≤ C) (v : ℂ) :
    let P := v * (starRingEnd ℂ) ((⟨0, w * C⟩ : ℂ) * v)
    P.re = 0 ∧ P.im = -(w * C * normSq v) ∧ P.im ≤ 0 := by
  have h : v * (starRingEnd ℂ) ((⟨0, w * C⟩ : ℂ) * v) = (⟨0, -(w * C)⟩ : ℂ) * ((normSq v : ℝ) : ℂ) := by
    rw [map_mul, ← mul_assoc, mul_comm v, mul_assoc, mul_conj]
    congr 1
  simp only [h]
  refine ⟨by simp, by simp, ?_⟩
  simp only [mul_im, ofReal_re, ofReal_im, mul_zero, zero_mul, add_zero, zero_add]
  have := mul_nonneg (mul_nonneg hw hC) (normSq_nonneg v)
  nlinarith

/-- **C05 (peak vs RMS).**  With `r2·r2 = 2` real (`conj r2 = r2`): the RMS phasors are the
peak phasors divided by `r2`, and `V_rms·conj(I_rms) = ½·V_peak·conj(I_peak)`: both modes
report the same power. -/
theorem C05_modes (conj : K →+* K) (r2 : K) (h2 : r2 * r2 = 2) (hc : conj r2 = r2) (v i : K) :
    (v / r2) * conj (i / r2) = 1 / 2 * (v * conj i) := by
  by_cases hr : r2 = 0
  · -- degenerate characteristic: r2 = 0 forces 2 = 0, both sides vanish
    have h20 : (2 : K) = 0 := by rw [← h2, hr, mul_zero]
    simp [hr, h20]
  · have h2' : (2 : K) ≠ 0 := by rw [← h2]; exact mul_ne_zero hr hr
    rw [map_div₀, hc]
    field_simp
    rw [← h2]; ring

end CC
