/-
  C16 / C04 (translator tie) — every function of the hand-written model CC/Model/Transform.lean,
  which the C16 and C04 theorems are about, equals the function that
  harness/extract_transformers.py regenerates from the AST of Network/transformers.py on every
  run (CC/Gen/Transformers.lean).  A changed comprehension, condition, argument, terminal,
  exemption test, list operation or composition in transformers.py changes the generated
  definition, and the corresponding equality below stops compiling.

  All statements hold for every network, every exemption list and every field `K`; exceptions
  (`FloatingGroundNode`, `AmbiguousBranchIDs` of the `Network` constructor, `KeyError` of
  `network[id]`) included.  The exemption list of the generated functions is a list of element
  objects `(name, type, record)` compared by dataclass equality; the hand model's `ElemKey` is
  the same triple as a structure (`ElemKey.ofElt`, a bijection), so "all exemption lists" loses
  nothing.
-/
import CC.Proofs.TransformersGen

namespace CC
open CC.Gen.Core CC.Gen.Transformers CC.Py
variable {L K : Type} [DecidableEq L] [LabelOrd L] [Field K] [DecidableEq K]

/-- `Network(branches, zero)` — constructor plus `__post_init__` — is the model's `Net.mk?` -/
theorem C16_gen_construct (bs : List (Branch L K)) (z : L) :
    Py.construct Gen.Core.Network.post_init bs z = Net.mk? bs z := gen_construct bs z

/-- `element in keep` (dataclass equality) is the model's `keep.contains b.key`; every list of
`ElemKey`s is the image of a list of element objects -/
theorem C16_gen_keep (b : Branch L K) (keep : List (Py.Elt K)) :
    decide (Py.element b ∈ keep) = (keep.map ElemKey.ofElt).contains b.key
    ∧ Function.Injective (ElemKey.ofElt (K := K))
    ∧ ∀ ks : List (ElemKey K), ∃ keep' : List (Py.Elt K), keep'.map ElemKey.ofElt = ks := by
  refine ⟨gen_mem_keep b keep, ElemKey.ofElt_injective, fun ks => ⟨ks.map fun k => (k.id, k.ty, k.e), ?_⟩⟩
  simp [List.map_map, Function.comp_def, ElemKey.ofElt]

theorem C16_gen_is_zero_node (N : Net L K) (n : L) :
    Gen.Transformers.Network.is_zero_node N n = decide (n = N.zero) := rfl

theorem C16_gen_switchGround (N : Net L K) (g : L) : switch_ground_node N g = switchGround N g :=
  gen_switchGround N g

/-- `list(network.branches)`, `network[element]`, `.remove` (first equal branch), constructor -/
theorem C16_gen_removeElement (N : Net L K) (id : String) : remove_element N id = removeElement N id :=
  gen_removeElement N id

theorem C16_gen_removeOpen (N : Net L K) : remove_open_circuit_elements N = removeOpen N :=
  gen_removeOpen N

/-- the three comprehensions of the loop body -/
theorem C16_gen_contractStep (bs : List (Branch L K)) (an rn : L) :
    (((bs.map fun b => if decide (b.n1 = an) then Py.mkBranch rn b.n2 (Py.element b) else b).map
        fun b => if decide (b.n2 = an) then Py.mkBranch b.n1 rn (Py.element b) else b).filter
        fun b => decide (b.n1 ≠ b.n2)) = contractStep bs an rn := gen_contractStep bs an rn

/-- the initial list of terminal pairs of the non-exempt shorts, with the reference-node rule -/
theorem C16_gen_shortPairs (N : Net L K) (keep : List (Py.Elt K)) :
    ((N.branches.filter fun b => is_short_circuit b.e && decide (Py.element b ∉ keep)).map fun vs =>
        if (!(Gen.Transformers.Network.is_zero_node N vs.n1)) then (vs.n1, vs.n2) else (vs.n2, vs.n1))
      = shortPairs N (keep.map ElemKey.ofElt) := gen_shortPairs N keep

/-- `remove_short_circuit_elements`: the indexed loop `for k in range(len(pairs))` — take `pairs[k]`
(never an IndexError: the list keeps its length), orient it by the reference-node rule, contract,
rename the whole pair list — is the hand model's recursion `contractAll` over the remaining pairs -/
theorem C16_gen_removeShort (N : Net L K) (keep : List (Py.Elt K)) :
    remove_short_circuit_elements N keep = removeShort N (keep.map ElemKey.ofElt) := gen_removeShort N keep

/-- `short_circuitify_voltage_sources` with its helpers `zero_in_voltage`,
`is_intended_voltage_source` (also the tie for C04) -/
theorem C16_gen_shortCircuitifyVS (N : Net L K) (keep : List (Py.Elt K)) :
    short_circuitify_voltage_sources N keep = shortCircuitifyVS N (keep.map ElemKey.ofElt) :=
  gen_shortCircuitifyVS N keep

/-- `open_circuitify_current_sources` (also the tie for C04) -/
theorem C16_gen_openCircuitifyCS (N : Net L K) (keep : List (Py.Elt K)) :
    open_circuitify_current_sources N keep = openCircuitifyCS N (keep.map ElemKey.ofElt) :=
  gen_openCircuitifyCS N keep

theorem C16_gen_removeIdealCS (N : Net L K) (keep : List (Py.Elt K)) :
    remove_ideal_current_sources N keep = removeIdealCS N (keep.map ElemKey.ofElt) := gen_removeIdealCS N keep

theorem C16_gen_removeIdealVS (N : Net L K) (keep : List (Py.Elt K)) :
    remove_ideal_voltage_sources N keep = removeIdealVS N (keep.map ElemKey.ofElt) := gen_removeIdealVS N keep

theorem C16_gen_passiveNetwork (N : Net L K) (keep : List (Py.Elt K)) :
    passive_network N keep = passiveNetwork N (keep.map ElemKey.ofElt) := gen_passiveNetwork N keep

/-- the default argument `keep=[]` of the six functions that have one -/
theorem C16_gen_defaults (N : Net L K) :
    remove_short_circuit_elements N = removeShort N [] ∧ short_circuitify_voltage_sources N = shortCircuitifyVS N []
    ∧ open_circuitify_current_sources N = openCircuitifyCS N [] ∧ remove_ideal_current_sources N = removeIdealCS N []
    ∧ remove_ideal_voltage_sources N = removeIdealVS N [] ∧ passive_network N = passiveNetwork N [] :=
  ⟨gen_removeShort N [], gen_shortCircuitifyVS N [], gen_openCircuitifyCS N [], gen_removeIdealCS N [],
   gen_removeIdealVS N [], gen_passiveNetwork N []⟩

/-- `branch.element.Z` / `.Y` handed to `impedance` / `admittance` are numbers (never `np.inf`)
wherever the zeroing functions do so: a voltage source has a finite `Z`, a current source a
finite `Y` — the translator's `toNum` is sound there -/
theorem C16_gen_finite (e : Elem K) :
    (is_voltage_source e = true → (Gen.Core.Elem.Z e).isFin = true) ∧
    (is_current_source e = true → (Gen.Core.Elem.Y e).isFin = true) := gen_finite_zeroing e

end CC
