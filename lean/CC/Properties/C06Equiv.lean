/-
  Property C06, round 5 — the other functions of the port group (CC/Model/Port.lean), which had no theorem:
  `openCircuitVoltage`, `shortCircuitCurrent`, the Thevenin / Norton records, `elementImpedance`.

    C06_elementImpedance_def        element_impedance = open_circuit_impedance of the network without the
                                    element, at the element's terminals (BY DEFINITION of the model, unfolded);
    C06_elementImpedance_spec       … hence the Spec port impedance of that network (through C06_impl_eq_spec_pruned);
    C06_openCircuitVoltage_sound    the model's Voc is the port voltage of a solution of the circuit equations;
    C06_shortCircuitCurrent_def     Isc = Voc / Zth, i.e. Voc = Zth · Isc, the sign convention of the code
                                    (BY DEFINITION of the model, unfolded);
    C06_shortCircuitCurrent_spec    Isc is the current through a short circuit attached to the port;
    C06_thevenin_record_terminal    every load attached to the port sees V = U − Z·J (terminal equation of the
                                    Thevenin record);
    C06_norton_record_terminal      … and J = I − Y·V (terminal equation of the Norton record).
-/
import CC.Properties.C06Prune
set_option linter.unusedSectionVars false
set_option linter.unusedVariables false

namespace CC
variable {L K : Type} [DecidableEq L] [LabelOrd L] [Field K] [DecidableEq K]

/-! ## element_impedance -/

/-- **C06 (`element_impedance`, by definition).**  When `remove_element` succeeds with the network `N'` and the
element `id` is the branch `b`, `element_impedance(N, id)` IS `open_circuit_impedance(N', b.node1, b.node2)`,
and `N'` is `N` without (the first branch equal to) `b`, same reference node.  This is the definition of the
model unfolded — no mathematics; it is stated so that every theorem about `openCircuitImpedance` applies. -/
theorem C06_elementImpedance_def (solve : List (List K) → List K → Option (List K)) (N N' : Net L K)
    (id : String) (b : Branch L K) (hr : N.removeElement id = .ok N') (hb : N.get? id = some b) :
    N.elementImpedance solve id = N'.openCircuitImpedance solve b.n1 b.n2 ∧
      N'.branches = N.branches.erase b ∧ N'.zero = N.zero := by
  refine ⟨by simp [Net.elementImpedance, hr, hb], ?_⟩
  unfold Net.removeElement at hr
  rw [hb] at hr
  simp only at hr
  cases hc : ({ N with branches := N.branches.erase b } : Net L K).check with
  | error e => simp [hc, bind, Except.bind] at hr
  | ok u =>
    simp only [hc, bind, Except.bind, pure, Except.pure] at hr
    cases hr
    exact ⟨rfl, rfl⟩

/-- **C06 (`element_impedance` = port impedance of the network with the element removed, at its terminals).**
By `C06_elementImpedance_def` and `C06_impl_eq_spec_pruned` (a proof, not a definition: the Spec's `PortZ` knows
nothing of matrices): whenever that port impedance is defined and the function returns a number, the number is
the port impedance of `N` without the element between the element's terminals. -/
theorem C06_elementImpedance_spec (solve : List (List K) → List K → Option (List K)) (N N' : Net L K)
    (id pid : String) (b : Branch L K) (z z' : K) (hr : N.removeElement id = .ok N') (hb : N.get? id = some b)
    (hp : pid ∉ N'.ids) (hsolve : SolveOK solve) (hids : N'.ids.Nodup) (hsl : ∀ c ∈ N'.branches, c.n1 ≠ c.n2)
    (hdef : PortZ N' pid b.n1 b.n2 z') (h : N.elementImpedance solve id = .ok z) :
    PortZ N' pid b.n1 b.n2 z := by
  rw [(C06_elementImpedance_def solve N N' id b hr hb).1] at h
  exact C06_impl_eq_spec_pruned N' solve pid b.n1 b.n2 z z' hp hsolve hids hsl hdef h

/-! ## open_circuit_voltage -/

theorem solutionVector_some (solve : List (List K) → List K → Option (List K)) (N : Net L K) (x : List K)
    (hc : N.check = .ok ()) (hs : solve N.mnaA N.mnaB = some x) : N.solutionVector solve = .ok x := by
  simp [Net.solutionVector, Net.assemble, hc, hs, bind, Except.bind, pure, Except.pure]

/-- **C06 (`open_circuit_voltage` reports the port voltage of a solution of the circuit).**  For a valid network
(`WF`: distinct ids, reference node present, no self-loop), a solver that returns solutions (`SolveOK`) and does
return one for the network's own system (`hsome`; when numpy raises `LinAlgError` the code silently falls back
to the ZERO vector — that quirk is excluded here, not proved harmless), and two labels of the network: the
reported value is `φ(n1) − φ(n2)` of a report that satisfies all circuit equations of `N` (with its sources).
With `WellPosed N` that report is the only one (`C01_unique`). -/
theorem C06_openCircuitVoltage_sound (N : Net L K) (solve : List (List K) → List K → Option (List K))
    (n1 n2 : L) (V : K) (wf : N.WF) (hsolve : SolveOK solve) (hsome : solve N.mnaA N.mnaB ≠ none)
    (h1 : n1 ∈ N.allLabels) (h2 : n2 ∈ N.allLabels) (h : N.openCircuitVoltage solve n1 n2 = .ok V) :
    ∃ R : Report L K, CircuitEqs N R ∧ V = R.pot n1 - R.pot n2 := by
  cases hs : solve N.mnaA N.mnaB with
  | none => exact absurd hs hsome
  | some x =>
    obtain ⟨hxlen, hxsol⟩ := hsolve _ _ x hs
    have hc : N.check = .ok () := (Net.check_ok_iff N).mpr ⟨wf.zero_mem, wf.ids_nodup⟩
    have hx : x.length = N.nodes.length + N.vsIds.length := by
      rw [hxlen]; simp [Net.mnaB, vsSorted_length N wf.ids_nodup]
    obtain ⟨hpot, _, hR⟩ := C01_sound N x wf hx hxsol
    refine ⟨N.reportOf x, hR, ?_⟩
    unfold Net.openCircuitVoltage at h
    rw [solutionVector_some solve N x hc hs] at h
    by_cases e : n1 = n2
    · subst e
      simp [bind, Except.bind, pure, Except.pure] at h
      rw [← h]; simp
    · simp only [bind, Except.bind, e, if_false, hpot n1 h1, hpot n2 h2, pure, Except.pure] at h
      cases h; rfl

/-! ## short_circuit_current -/

/-- **C06 (`short_circuit_current`, by definition): `Isc = Voc / Zth`, i.e. `Voc = Zth · Isc`** — the sign
convention of the code: both `Voc` and `Isc` are counted from `node1` to `node2`, a positive `Isc` flows through
an attached short from `node1` to `node2`.  Stated for the main path (`open_circuit_impedance` returned a number;
an isolated port node gives `Isc = 0`, identical nodes raise `ZeroDivisionError`).  This is the definition of the
model unfolded. -/
theorem C06_shortCircuitCurrent_def (N : Net L K) (solve : List (List K) → List K → Option (List K))
    (n1 n2 : L) (Z I : K) (hZ : N.openCircuitImpedance solve n1 n2 = .ok Z)
    (h : N.shortCircuitCurrent solve n1 n2 = .ok I) :
    ∃ V, N.openCircuitVoltage solve n1 n2 = .ok V ∧ n1 ≠ n2 ∧ Z ≠ 0 ∧ I = V / Z ∧ V = Z * I := by
  unfold Net.shortCircuitCurrent at h
  rw [hZ] at h
  simp only at h
  cases hV : N.openCircuitVoltage solve n1 n2 with
  | error e => simp [hV, bind, Except.bind] at h
  | ok V =>
    simp only [hV, bind, Except.bind] at h
    by_cases e : n1 = n2
    · simp [e] at h
    · by_cases hz : Z = 0
      · simp [e, hz] at h
      · simp only [e, hz, if_false, pure, Except.pure, Except.ok.injEq] at h
        refine ⟨V, rfl, e, hz, h.symm, ?_⟩
        rw [← h]; field_simp

/-- **C06 (`short_circuit_current` is the current through a short circuit attached to the port).**  For a valid
network whose probe network is well-posed and whose port impedance is defined: in EVERY solution of the network
with a short circuit attached from `n1` to `n2`, the current through the short (first → second terminal) is the
value the function returns.  (Model level: `Voc` through `C06_openCircuitVoltage_sound`, `Zth` through
`C06_impl_eq_spec_pruned`, the link by the Spec-level `C06_norton`.) -/
theorem C06_shortCircuitCurrent_spec (N : Net L K) (solve : List (List K) → List K → Option (List K))
    (pid : String) (n1 n2 : L) (Z z' I : K) (wf : N.WF) (hsolve : SolveOK solve) (hp : pid ∉ N.ids)
    (hsome : solve N.mnaA N.mnaB ≠ none) (h1 : n1 ∈ N.allLabels) (h2 : n2 ∈ N.allLabels)
    (hw : WellPosed (probeNet N pid n1 n2 1)) (hdef : PortZ N pid n1 n2 z')
    (hZ : N.openCircuitImpedance solve n1 n2 = .ok Z) (h : N.shortCircuitCurrent solve n1 n2 = .ok I)
    (sid ty : String) (Rs : Report L K) (hs : CircuitEqs (N.attach ⟨n1, n2, sid, ty, .norton 0 0⟩) Rs) :
    Rs.i sid = I := by
  obtain ⟨V, hV, _, hz, hI, _⟩ := C06_shortCircuitCurrent_def N solve n1 n2 Z I hZ h
  obtain ⟨Roc, hoc, hVeq⟩ := C06_openCircuitVoltage_sound N solve n1 n2 V wf hsolve hsome h1 h2 hV
  have hPZ := C06_impl_eq_spec_pruned N solve pid n1 n2 Z z' hp hsolve wf.ids_nodup wf.no_self_loop hdef hZ
  have := C06_norton N wf.ids_nodup pid hp n1 n2 hw sid ty Roc Rs Z hoc hs hPZ
  rw [hI, hVeq, ← this]; field_simp

/-! ## the equivalent-source records -/

theorem theveninEquivalent_ok (N : Net L K) (solve : List (List K) → List K → Option (List K)) (n1 n2 : L)
    (T : TheveninEq K) (h : N.theveninEquivalent solve n1 n2 = .ok T) :
    N.openCircuitVoltage solve n1 n2 = .ok T.U ∧ N.openCircuitImpedance solve n1 n2 = .ok T.Z := by
  unfold Net.theveninEquivalent at h
  cases hV : N.openCircuitVoltage solve n1 n2 with
  | error e => simp [hV, bind, Except.bind] at h
  | ok V =>
    cases hZ : N.openCircuitImpedance solve n1 n2 with
    | error e => simp [hV, hZ, bind, Except.bind] at h
    | ok Z =>
      simp only [hV, hZ, bind, Except.bind, pure, Except.pure, Except.ok.injEq] at h
      subst h
      exact ⟨rfl, rfl⟩

/-- **C06 (the Thevenin record reproduces the port's terminal behaviour for every load).**  Attach ANY branch
`x` (an impedance, a source, a short circuit, …) from `n1` to `n2` to the network `N` (with all its sources).
In every solution of the loaded network the port voltage `V = φ(n1) − φ(n2)` and the physical current `J`
through `x` from `n1` to `n2` satisfy `V = U − Z·J` — the terminal equation of an ideal source `U` in series with
`Z`, where `⟨U, Z⟩` is what `TheveninEquivalentSource` stores.  So the load cannot tell the network from its
equivalent: both impose the same relation between its voltage and its current.

Hypotheses: valid network, `SolveOK`, the solver answers for the network's own system (see
`C06_openCircuitVoltage_sound`), well-posed probe network and defined port impedance (the domain of the
Spec-level `C06_port_equation`).  What it does not say: nothing about the import of
`Network/equivalent_sources.py` (CC/Gen/PortImports), nothing about binary64. -/
theorem C06_thevenin_record_terminal (N : Net L K) (solve : List (List K) → List K → Option (List K))
    (pid : String) (n1 n2 : L) (z' : K) (T : TheveninEq K) (wf : N.WF) (hsolve : SolveOK solve) (hp : pid ∉ N.ids)
    (hsome : solve N.mnaA N.mnaB ≠ none) (h1 : n1 ∈ N.allLabels) (h2 : n2 ∈ N.allLabels)
    (hw : WellPosed (probeNet N pid n1 n2 1)) (hdef : PortZ N pid n1 n2 z')
    (h : N.theveninEquivalent solve n1 n2 = .ok T)
    (x : Branch L K) (hx1 : x.n1 = n1) (hx2 : x.n2 = n2) (Rl : Report L K) (hl : CircuitEqs (N.attach x) Rl) :
    Rl.pot n1 - Rl.pot n2 = T.U - T.Z * x.e.physCurrent (Rl.i x.id) := by
  obtain ⟨hV, hZ⟩ := theveninEquivalent_ok N solve n1 n2 T h
  obtain ⟨Roc, hoc, hVeq⟩ := C06_openCircuitVoltage_sound N solve n1 n2 T.U wf hsolve hsome h1 h2 hV
  have hPZ := C06_impl_eq_spec_pruned N solve pid n1 n2 T.Z z' hp hsolve wf.ids_nodup wf.no_self_loop hdef hZ
  obtain ⟨⟨Rz, hRz⟩, hall⟩ := hPZ
  have key := C06_port_equation N wf.ids_nodup pid hp n1 n2 hw x hx1 hx2 Roc Rl Rz hoc hl hRz
  rw [hall Rz hRz, ← hVeq] at key
  exact key

/-- **C06 (the Norton record reproduces the port's terminal behaviour for every load).**  Same setting as
`C06_thevenin_record_terminal`, on the main path of `NortenEquivalentSource` (the Thevenin record exists; the
function has not raised, so `Z ≠ 0`): `J = I − Y·V` — the terminal equation of an ideal current source `I` in
parallel with the admittance `Y`; and the two records are consistent: `I = U/Z`, `Y = 1/Z`, `U = Z·I`. -/
theorem C06_norton_record_terminal (N : Net L K) (solve : List (List K) → List K → Option (List K))
    (pid : String) (n1 n2 : L) (z' : K) (T : TheveninEq K) (Q : NortonEq K) (wf : N.WF) (hsolve : SolveOK solve)
    (hp : pid ∉ N.ids) (hsome : solve N.mnaA N.mnaB ≠ none) (h1 : n1 ∈ N.allLabels) (h2 : n2 ∈ N.allLabels)
    (hw : WellPosed (probeNet N pid n1 n2 1)) (hdef : PortZ N pid n1 n2 z')
    (hT : N.theveninEquivalent solve n1 n2 = .ok T) (hQ : N.nortonEquivalent solve n1 n2 = .ok Q)
    (x : Branch L K) (hx1 : x.n1 = n1) (hx2 : x.n2 = n2) (Rl : Report L K) (hl : CircuitEqs (N.attach x) Rl) :
    (T.Z ≠ 0 ∧ Q.I = T.U / T.Z ∧ Q.Y = 1 / T.Z ∧ T.U = T.Z * Q.I) ∧
      x.e.physCurrent (Rl.i x.id) = Q.I - Q.Y * (Rl.pot n1 - Rl.pot n2) := by
  have key := C06_thevenin_record_terminal N solve pid n1 n2 z' T wf hsolve hp hsome h1 h2 hw hdef hT x hx1 hx2 Rl hl
  unfold Net.nortonEquivalent at hQ
  rw [hT] at hQ
  simp only at hQ
  by_cases he : N.portIsEarly n1 n2 = true
  · simp [he] at hQ
  · by_cases hz : T.Z = 0
    · simp [he, hz] at hQ
    · simp only [he, hz, if_false, pure, Except.pure, Except.ok.injEq, Bool.false_eq_true] at hQ
      subst hQ
      refine ⟨⟨hz, rfl, rfl, by field_simp⟩, ?_⟩
      simp only
      rw [key]; field_simp; ring

/-! ### non-vacuity -/

namespace C06ex

/-- a solver certificate table for `exN` (`Vs(1,0) = 10 V`, `R1(1,2) = 10 Ω`, `R2(2,0) = 10 Ω`): the port system
of `(2, 0)` and the network's own system -/
def solve1 : List (List ℚ) → List ℚ → Option (List ℚ) := fun A b =>
  if A = A0 ∧ b = [0, 1, 0] then some [0, 5, 1/2]
  else if A = A0 ∧ b = [0, 0, 10] then some [10, 5, -1/2] else none

theorem solve1_ok : SolveOK solve1 := by
  intro A b x h
  unfold solve1 at h
  split at h
  · rename_i hc
    obtain ⟨rfl, rfl⟩ := hc
    cases h
    refine ⟨rfl, ?_⟩
    simp [matVec, dotL, A0]; norm_num
  · split at h
    · rename_i hc
      obtain ⟨rfl, rfl⟩ := hc
      cases h
      refine ⟨rfl, ?_⟩
      simp [matVec, dotL, A0]; norm_num
    · cases h

theorem exN_mna' : exN.mnaA = A0 := exN_mna

theorem exN_nodes : exN.nodes = [1, 2] := by
  simp [Net.nodes, Net.nodeLabels, exN, sortL, dedupL, List.mergeSort, LabelOrd.le]

theorem exN_mnaB : exN.mnaB = [0, 0, 10] := by
  have hcs : exN.csSorted = [] := by
    simp [Net.csSorted, Net.csIds, Net.cs, exN, Elem.isCS, Elem.Ival, Net.byIds, sortL]
  simp [Net.mnaB, exN_nodes, Net.rhsNode, hcs]
  simp [Net.vsSorted, Net.vsIds, Net.vs, exN, Elem.isIdealVS, sortL, Net.byIds, Net.get?, Elem.Vval]

theorem exN_wf : exN.WF := by
  refine ⟨by decide, ?_, by decide⟩
  simp [Net.nodeLabels, exN, sortL, dedupL, List.mergeSort, LabelOrd.le]

theorem exN_check : exN.check = .ok () := (Net.check_ok_iff exN).mpr ⟨exN_wf.zero_mem, exN_wf.ids_nodup⟩

theorem exN_voc : exN.openCircuitVoltage solve1 2 0 = .ok 5 := by
  have hs : solve1 exN.mnaA exN.mnaB = some [10, 5, -1/2] := by
    rw [exN_mna', exN_mnaB]; simp [solve1]
  unfold Net.openCircuitVoltage
  rw [solutionVector_some solve1 exN _ exN_check hs]
  simp [bind, Except.bind, pure, Except.pure, Net.potential, exN_nodes, idxOf?]
  simp [exN]

theorem exN_zth : exN.openCircuitImpedance solve1 2 0 = .ok 5 := by
  unfold Net.openCircuitImpedance
  rw [exN_pre]
  simp [solve1]

theorem exN_thevenin : exN.theveninEquivalent solve1 2 0 = .ok ⟨5, 5⟩ := by
  simp [Net.theveninEquivalent, exN_voc, exN_zth, bind, Except.bind, pure, Except.pure]

theorem exN_not_early : exN.portIsEarly 2 0 = false := by
  simp [Net.portIsEarly, Net.branchesBetween, exN, Elem.isIdealVS]

theorem exN_norton : exN.nortonEquivalent solve1 2 0 = .ok ⟨1, 1/5⟩ := by
  unfold Net.nortonEquivalent
  rw [exN_thevenin]
  simp [exN_not_early, pure, Except.pure]

theorem exN_isc : exN.shortCircuitCurrent solve1 2 0 = .ok 1 := by
  unfold Net.shortCircuitCurrent
  rw [exN_zth]
  simp [exN_voc, bind, Except.bind, pure, Except.pure]

/-- `exP` with an extra element `X = 3 Ω` across the port `(2, 0)`: removing `X` gives `exP` -/
def exE : Net Nat ℚ := { branches := exP.branches ++ [⟨2, 0, "X", "", .norton 3 0⟩], zero := 0 }

theorem exE_get : exE.get? "X" = some ⟨2, 0, "X", "", .norton 3 0⟩ := by
  simp [Net.get?, exE, exP]

theorem exE_remove : exE.removeElement "X" = .ok exP := by
  have he : exE.branches.erase ⟨2, 0, "X", "", .norton 3 0⟩ = exP.branches := by
    simp [exE, exP]
  have hc : exP.check = .ok () := by
    simp [Net.check, Net.nodeLabels, Net.ids, exP, sortL, dedupL, List.mergeSort, LabelOrd.le]
  unfold Net.removeElement
  rw [exE_get]
  simp only [he]
  have : ({ exE with branches := exP.branches } : Net Nat ℚ) = exP := rfl
  rw [this, hc]
  rfl

theorem exE_value : exE.elementImpedance solveP "X" = .ok 5 := by
  rw [(C06_elementImpedance_def solveP exE exP "X" _ exE_remove exE_get).1]
  exact exP_model_value

end C06ex

/-- non-vacuity of `C06_openCircuitVoltage_sound`, `C06_shortCircuitCurrent_def/_spec`,
`C06_thevenin_record_terminal`, `C06_norton_record_terminal`: `exN` (`Vs(1,0) = 10 V`, `R1(1,2) = R2(2,0) = 10 Ω`),
port `(2, 0)`: `U = 5 V`, `Z = 5 Ω`, `I = 1 A`, `Y = 1/5 S`, `Isc = 1 A` — every hypothesis holds. -/
example : C06ex.exN.WF ∧ SolveOK C06ex.solve1 ∧ "p" ∉ C06ex.exN.ids ∧
    C06ex.solve1 C06ex.exN.mnaA C06ex.exN.mnaB ≠ none ∧ 2 ∈ C06ex.exN.allLabels ∧ 0 ∈ C06ex.exN.allLabels ∧
    WellPosed (probeNet C06ex.exN "p" 2 0 1) ∧ PortZ C06ex.exN "p" 2 0 5 ∧
    C06ex.exN.openCircuitVoltage C06ex.solve1 2 0 = .ok 5 ∧
    C06ex.exN.openCircuitImpedance C06ex.solve1 2 0 = .ok 5 ∧
    C06ex.exN.shortCircuitCurrent C06ex.solve1 2 0 = .ok 1 ∧
    C06ex.exN.theveninEquivalent C06ex.solve1 2 0 = .ok ⟨5, 5⟩ ∧
    C06ex.exN.nortonEquivalent C06ex.solve1 2 0 = .ok ⟨1, 1/5⟩ :=
  ⟨C06ex.exN_wf, C06ex.solve1_ok, by decide,
    by rw [C06ex.exN_mna', C06ex.exN_mnaB]; simp [C06ex.solve1],
    by simp [Net.allLabels, C06ex.exN], by simp [Net.allLabels, C06ex.exN],
    C06ex.exN_wellposed, C06ex.exN_spec_value, C06ex.exN_voc, C06ex.exN_zth, C06ex.exN_isc,
    C06ex.exN_thevenin, C06ex.exN_norton⟩

/-- non-vacuity of `C06_elementImpedance_def/_spec`: `exE` = `exP` plus `X = 3 Ω` across `(2, 0)`;
`element_impedance(exE, "X")` is the port impedance `5 Ω` of `exP` (which has a pruned node) -/
example : C06ex.exE.removeElement "X" = .ok C06ex.exP ∧
    C06ex.exE.get? "X" = some ⟨2, 0, "X", "", .norton 3 0⟩ ∧
    C06ex.exE.elementImpedance C06ex.solveP "X" = .ok 5 ∧ PortZ C06ex.exP "p" 2 0 5 :=
  ⟨C06ex.exE_remove, C06ex.exE_get, C06ex.exE_value,
    C06_elementImpedance_spec C06ex.solveP C06ex.exE C06ex.exP "X" "p" _ 5 5 C06ex.exE_remove C06ex.exE_get
      (by decide) C06ex.solveP_ok (by decide) (by decide) C06ex.exP_spec_value C06ex.exE_value⟩

end CC
