/-
  C20 — analyses are pure, repeatable functions of the circuit description.

  Model:  CC/Model/Effects.lean — a heap-passing state machine over the pool of argument
          objects; the write set of an operation comes from the *generated* effect summary
          CC/Gen/Effects.lean (regenerated from the Python AST on every run).
  What is proved here is about that summary and about every semantics that respects it
  (`Machine.Sound`).  That the real functions respect it is validated dynamically on every
  run (harness/props/c20.py) and proved for the loader model (`C20_loaders_sound`).
-/
import CC.Model.Effects
import CC.Proofs.LoadLemmas
import CC.Properties.C17
namespace CC
open CC.Load CC.Gen.Effects

/-! ## The generated summary -/

/-- every row of the scope: empty write set, or a named exception (generated table,
checked by evaluation) -/
theorem C20_frame_rows :
    (scopeRows.all fun fw => fw.2.isEmpty || frameExceptions.contains fw.1) = true := by
  decide +kernel

/-- **Frame.**  Every function of the modules in scope — public functions, methods, nested
functions, table lambdas, `functools.partial` bindings — has an *empty* write set, except the
ones listed by name in `frameExceptions`. -/
theorem C20_frame : ∀ f ∈ inScope, f ∉ frameExceptions → writeRoots f = some [] := by
  intro f hf hne
  simp only [inScope, List.mem_map] at hf
  obtain ⟨r, hr, hrf⟩ := hf
  have hsome : (scopeRows.find? (fun p => p.1 == f)).isSome := by
    rw [List.find?_isSome]; exact ⟨r, hr, by simp [hrf]⟩
  unfold writeRoots effects
  rw [List.find?_append]
  cases hfind : scopeRows.find? (fun p => p.1 == f) with
  | none => simp [hfind] at hsome
  | some r' =>
    have hmem := List.mem_of_find?_eq_some hfind
    have hname : r'.1 = f := by simpa using List.find?_some hfind
    have hrow := List.all_eq_true.1 C20_frame_rows r' hmem
    simp only [Bool.or_eq_true, List.isEmpty_iff, List.contains_iff_mem, hname] at hrow
    rcases hrow with h | h
    · simp [h]
    · exact absurd h hne

/-- The exception list is empty: since the fix commits b501fa0, cd8d9e4, 2481879 no function in
scope may write an argument.  (Until then it named `to_complex`, `load_network`, everything
forwarding to them, and the in-place conversions of dump_load.py.)
`frameExceptions` is a hand-written constant of CC/Model/Effects.lean, so this is `rfl` on a
literal `[]` — a registration that the list is empty, not a fact about the code; the fact about
the code is `C20_frame_rows` / `C20_frame_all` (`decide` over the generated table). -/
theorem C20_frame_exceptions_exact : frameExceptions = [] := rfl

/-- …so the frame is unconditional. -/
theorem C20_frame_all : ∀ f ∈ inScope, writeRoots f = some [] := by
  intro f hf
  exact C20_frame f hf (by simp [frameExceptions])

/-- **Defaults.**  No parameter with a mutable default value (`keep=[]`, `c_values={}`,
`l_values={}`, `w=[0]`, `w=np.array([0])`, `potential_nodes=[]`, …) is in the write set of
its function — so no call can change what a later call sees as default. -/
theorem C20_defaults :
    (mutableDefaults.all fun d =>
      match effects[d.1]? with
      | some (f, ws) => f == d.2.1 && d.2.2.all (fun p => !ws.contains p)   -- the row of that function
      | none => false) = true := by
  decide +kernel

/-- No function in the summary writes a module-level object (dispatch tables, codec tables). -/
theorem C20_no_global_writes : globalWrites = [] := by
  decide

/-- No callee outside the analysed modules and outside the allow-list receives an aliased
argument (nothing had to be classified "may write its arguments"). -/
theorem C20_no_unknown_callee : unknownCalls = [] := by
  decide

/-- No function of the analysed modules is wrapped by a decorator the translator does not know (or
re-bound at module level): the summary is about the callables themselves, none keeps state. -/
theorem C20_no_unknown_decorator : unknownDecorators = [] := by
  decide

/-! ## Histories -/

theorem Load.Machine.run_eq_of_sound {V O : Type} (M : Machine V O) (hs : M.Sound) (op : Op) (h : List V)
    (hw : op.writeCells = []) : (M.run op h).2 = h := by
  obtain ⟨hl, hf⟩ := hs op h
  apply List.ext_getElem? 
  intro i
  exact hf i (by simp [hw])

/-- **History.**  If every operation of a finite history has an empty write set, then under
every semantics that respects the summary the heap after the history is the initial heap,
and every output equals the output of the same operation run alone on the initial heap:
repeating, interleaving or sharing argument objects cannot change an answer. -/
theorem C20_history {V O : Type} (M : Machine V O) (hs : M.Sound) (ops : List Op) (h : List V)
    (hp : ∀ op ∈ ops, op.writeCells = []) :
    (M.runAll ops h).2 = h ∧ (M.runAll ops h).1 = ops.map (fun op => (M.run op h).1) := by
  induction ops with
  | nil => simp [Machine.runAll]
  | cons op r ih =>
    have h1 := M.run_eq_of_sound hs op h (hp op (by simp))
    have h2 := ih (fun q hq => hp q (by simp [hq]))
    simp only [Machine.runAll, h1, h2.1, h2.2, List.map_cons, and_self]

/-- Frame for arbitrary histories: a cell that is in no operation's write set has its
initial value after the history (whatever the mutating operations do to the other cells). -/
theorem C20_history_frame {V O : Type} (M : Machine V O) (hs : M.Sound) (ops : List Op) (h : List V) (i : Nat)
    (hi : ∀ op ∈ ops, i ∉ op.writeCells) : (M.runAll ops h).2[i]? = h[i]? := by
  induction ops generalizing h with
  | nil => simp [Machine.runAll]
  | cons op r ih =>
    have h1 := (hs op h).2 i (hi op (by simp))
    have h2 := ih (M.run op h).2 (fun q hq => hi q (by simp [hq]))
    simp only [Machine.runAll, h2, h1]

/-- an operation on a function of the scope that is not one of the named exceptions -/
@[reducible] def Load.Op.inFrame (op : Op) : Prop := op.fn ∈ inScope ∧ op.fn ∉ frameExceptions

theorem Load.Op.writeCells_of_inFrame (op : Op) (h : op.inFrame) : op.writeCells = [] := by
  have := C20_frame op.fn h.1 h.2
  simp [Op.writeCells, this]

/-- **C20.**  Any finite sequence of operations drawn from the functions in scope, other
than the named mutating loaders, over any pool of shared argument objects: the pool is
unchanged and every result is the result of the isolated call. -/
theorem C20_pure_history {V O : Type} (M : Machine V O) (hs : M.Sound) (ops : List Op) (h : List V)
    (hp : ∀ op ∈ ops, op.inFrame) :
    (M.runAll ops h).2 = h ∧ (M.runAll ops h).1 = ops.map (fun op => (M.run op h).1) :=
  C20_history M hs ops h (fun op ho => op.writeCells_of_inFrame (hp op ho))

/-- non-vacuity: a history over shared cells that meets the hypothesis -/
example : ∀ op ∈ [({ fn := "Network.transformers.passive_network", args := [("network", 0), ("keep", 1)] } : Op),
                  { fn := "Network.NodalAnalysis.bias_point_analysis.nodal_analysis_bias_point_solver", args := [("network", 0)] },
                  { fn := "Network.transformers.remove_short_circuit_elements", args := [("network", 0), ("keep", 1)] },
                  { fn := "Circuit.dump_load.undictify_circuit", args := [("circuit", 2)] }], op.inFrame := by
  decide +kernel

/-! ## The loader model respects the summary -/

theorem Load.set_sound (h : List J) (i : Nat) (v v' : J) (ws : List Nat) (hv : h[i]? = some v)
    (hw : v' = v ∨ i ∈ ws) :
    (h.set i v').length = h.length ∧ ∀ j, j ∉ ws → (h.set i v')[j]? = h[j]? := by
  refine ⟨by simp, ?_⟩
  intro j hj
  by_cases hji : i = j
  · subst hji
    rcases hw with rfl | hw
    · rw [List.getElem?_set_self' , hv]; simp [hv]
    · exact absurd hw hj
  · rw [List.getElem?_set_ne hji]

/-- every loader operation of the machine leaves the value of its argument cell as it was -/
theorem Load.loadSem_post (T : Trig) (fn : String) (flag : Bool) (v v' : J) (out : LoadOut)
    (h : loadSem T fn flag v = some (v', out)) : v' = v := by
  unfold loadSem at h
  repeat' split at h
  all_goals first
    | (simp only [Option.some.injEq, Prod.mk.injEq] at h; obtain ⟨rfl, -⟩ := h
       first
        | exact C17_toComplex_pure T v flag
        | exact C17_pure.1 T v
        | exact (C17_circuit_pure v).1
        | exact (C17_circuit_pure v).2
        | rfl)
    | cases h

/-- The loader model of C17, run as a machine over a pool of description objects, writes
nothing — whatever the summary says it may write (it says: nothing).
Scope of this theorem: for `to_complex`, `load_network`, `generate_component`, `undictify_circuit`
the post-state is *computed* by the model (it follows the generated flags `degreeInPlace`,
`entryCopied`, `componentCopied`) and its equality with the argument is `C17_pure` /
`C17_circuit_pure`.  For the four `dump_load.*` conversions `loadSem` returns the cell unchanged
*by construction* (since fix 2481879 the model of these functions has no post-state at all), so
for them the statement is definitional: their purity rests on the generated effect summary
(`C20_frame_all`) and the snapshot oracle, not on this theorem. -/
theorem C20_loaders_sound (T : Trig) : (loadMachine T).Sound := by
  intro op h
  simp only [loadMachine, loadStep]
  split
  · rename_i p i hargs
    split
    · rename_i v fn q hv hq
      by_cases hpq : p = q
      · simp only [hpq, if_true]
        cases hsem : loadSem T op.fn op.flag v with
        | none => simp
        | some r =>
          obtain ⟨v', out⟩ := r
          simp only
          exact set_sound h i v v' op.writeCells hv (Or.inl (loadSem_post T _ _ _ _ _ hsem))
      · simp [hpq]
    · simp
  · simp

/-- …hence on the loader machine itself: after *any* history of loader operations the pool of
descriptions is unchanged and each output is the output of the isolated call. -/
theorem C20_loader_histories (T : Trig) (ops : List Op) (h : List J) (hp : ∀ op ∈ ops, op.inFrame) :
    ((loadMachine T).runAll ops h).2 = h ∧
    ((loadMachine T).runAll ops h).1 = ops.map (fun op => ((loadMachine T).run op h).1) :=
  C20_pure_history (loadMachine T) (C20_loaders_sound T) ops h hp

end CC
