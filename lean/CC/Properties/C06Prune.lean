/-
  Property C06, round 5 — the pruning / re-indexing path of `open_circuit_impedance`
  (`keep = A.any(axis=0)`, `A[np.ix_(keep, keep)]`, `i1 = np.count_nonzero(keep[:i])`; model:
  `keepMask`, `subMatrix`, `countBefore` of CC/Model/Port.lean), which `C06_impl_eq_spec_partial`
  (CC/Properties/C06.lean) excludes by hypothesis.

    C06_prune_select_in_order, C06_prune_countBefore_position, C06_prune_dropped_zero
        index bookkeeping: the selection keeps exactly the marked entries in order, `countBefore` of a kept
        index is its position in the pruned system, a dropped unknown's row and column are entirely zero;
    C06_prune_extend_solves
        a solution of the pruned system, extended by zeros, solves the unpruned system and the entry the
        code reads is the entry of the port node;
    C06_impl_pruned_solution
        whatever number the function returns is the port voltage of SOME solution of the probe network —
        any number of pruned unknowns, no well-posedness hypothesis;
    C06_impl_eq_spec_pruned
        hence: whenever the Spec's port impedance is defined and the function returns a number, the number
        is the port impedance (extends `C06_impl_eq_spec_partial` to inputs with pruned nodes).
-/
import CC.Proofs.PortPrune
import CC.Properties.C06
set_option linter.unusedSectionVars false
set_option linter.unusedVariables false

namespace CC
variable {L K : Type} [DecidableEq L] [LabelOrd L] [Field K] [DecidableEq K]

/-- **C06 (pruning, code level): whatever number `open_circuit_impedance` returns is the port voltage of a
solution of the unit-current problem.**  For every network (any labels, any field, ideal voltage sources
anywhere, ANY number of unknowns pruned because they hang on zero-admittance branches only) with distinct ids
and without self-loops, and any linear solver that returns solutions (`SolveOK`): if the function does not take
one of its early `return 0` (those are `C06_impl_early_correct`) and returns the number `z`, then the probe
network of the Spec (sources deactivated, unit current injected into `n1` and drawn from `n2`) has a solution
whose port voltage is `z`.  The solution is the one the code computed, with potential zero at the pruned nodes.

No hypothesis on the mask, none on well-posedness.  What it does not say: that every OTHER solution of the
probe network has the same port voltage — that is `C06_impl_eq_spec_pruned` (needs the port impedance to be
defined). -/
theorem C06_impl_pruned_solution (N : Net L K) (solve : List (List K) → List K → Option (List K))
    (pid : String) (n1 n2 : L) (z : K) (hp : pid ∉ N.ids) (hsolve : SolveOK solve) (hids : N.ids.Nodup)
    (hsl : ∀ b ∈ N.branches, b.n1 ≠ b.n2) (hne : N.portIsEarly n1 n2 = false)
    (h : N.openCircuitImpedance solve n1 n2 = .ok z) :
    ∃ R : Report L K, CircuitEqs (probeNet N pid n1 n2 1) R ∧ R.pot n1 - R.pot n2 = z := by
  unfold Net.openCircuitImpedance at h
  cases hpre : N.portPre n1 n2 with
  | error e => rw [hpre] at h; cases h
  | ok pre =>
    rw [hpre] at h
    cases pre with
    | early => rw [portPre_early hpre] at hne; cases hne
    | infinite => simp only at h; cases h
    | sys N' keep A e i1 =>
      simp only at h
      obtain ⟨h12, hN', hcheck, hsys⟩ := portPre_sys hpre
      obtain ⟨hsw, hiso⟩ := portPre_sys_kept hpre
      obtain ⟨_, hkeepdef, hA, ⟨i, hidx, hi1⟩, he, hlt⟩ := portSys_sys hsys
      obtain ⟨i', hidx', hcol⟩ := isolated_false hsw hiso
      have hii : i' = i := by rw [hidx] at hidx'; exact (Option.some.inj hidx').symm
      subst hii
      have hids' : N'.ids.Nodup := by rw [hN']; exact hids
      have hp' : pid ∉ N'.ids := by rw [hN']; exact hp
      have hsl' : ∀ b ∈ N'.branches, b.n1 ≠ b.n2 := by rw [hN']; exact hsl
      have hzero : N'.zero ∈ N'.nodeLabels := ((Net.check_ok_iff N').mp hcheck).1
      cases hs : solve A e with
      | none => rw [hs] at h; cases h
      | some x =>
        rw [hs] at h
        simp only at h
        obtain ⟨hxlen, hxsol⟩ := hsolve A e x hs
        have hxz : x.getD i1 0 = z := by
          cases hxi : x[i1]? with
          | none => rw [hxi] at h; cases h
          | some w =>
            rw [hxi] at h; cases h
            rw [List.getD_eq_getElem?_getD, hxi]; rfl
        rw [hA, he, hA, hi1, hkeepdef] at hxsol
        obtain ⟨R, hR, hport⟩ := pruned_solution N' pid _ hids' hp' hsl' hzero i' hidx hcol x hxsol
        rw [← hkeepdef, ← hi1, hxz] at hport
        -- back to the network's own reference node
        have hR2 := probe_move N' pid _ N'.zero N.zero R hR
        have hback : ({ N' with zero := N.zero } : Net L K) = N := by rw [hN']
        rw [hback] at hR2
        have hport2 : (R.portShift (R.pot N.zero)).pot (if n1 = N.zero then n2 else n1)
            - (R.portShift (R.pot N.zero)).pot N'.zero = z := by
          simp only [Report.portShift]; linear_combination hport
        by_cases hz1 : n1 = N.zero
        · have ea : (if n1 = N.zero then n2 else n1) = n2 := by simp [hz1]
          have eg : N'.zero = n1 := by rw [hN']; simp [hz1]
          rw [ea, eg] at hR2 hport2
          obtain ⟨S, hS, hpot⟩ := probe_flip N pid hp n2 n1 _ hR2
          refine ⟨S, hS, ?_⟩
          rw [hpot n1, hpot n2]
          linear_combination hport2
        · have ea : (if n1 = N.zero then n2 else n1) = n1 := by simp [hz1]
          have eg : N'.zero = n2 := by rw [hN']; simp [hz1]
          rw [ea, eg] at hR2 hport2
          exact ⟨_, hR2, hport2⟩

/-- **C06 (code level, with pruned unknowns): whenever the port impedance is defined and
`open_circuit_impedance` returns a number, the number is the port impedance.**  Extends
`C06_impl_eq_spec_partial` to inputs in which any number of non-port unknowns is pruned (nodes that hang on
zero-admittance branches only: a capacitor at `w = 0`, an open circuit, an ideal current source): the
hypotheses "no pruned unknown" and "well-posed probe network" (which fails as soon as a node is pruned: its
potential is free) are replaced by the one that is genuinely needed — the Spec's impedance `PortZ` exists for
some value `z'` (the unit-current problem is solvable and all its solutions have the same port voltage).
The port nodes themselves are never pruned (the code has returned `np.inf`: `C06_isolated_port`).

What it does not say: that the function returns a number whenever `PortZ` is defined — it does not
(`C06_floating_island_counterexample`). -/
theorem C06_impl_eq_spec_pruned (N : Net L K) (solve : List (List K) → List K → Option (List K))
    (pid : String) (n1 n2 : L) (z z' : K) (hp : pid ∉ N.ids) (hsolve : SolveOK solve) (hids : N.ids.Nodup)
    (hsl : ∀ b ∈ N.branches, b.n1 ≠ b.n2) (hdef : PortZ N pid n1 n2 z')
    (h : N.openCircuitImpedance solve n1 n2 = .ok z) : PortZ N pid n1 n2 z := by
  cases hearly : N.portIsEarly n1 n2 with
  | true =>
    obtain ⟨h0, hz0⟩ := C06_impl_early_correct solve N pid hp n1 n2 hearly hdef.1
    rw [h0] at h; cases h; exact hz0
  | false =>
    obtain ⟨R, hR, hport⟩ := C06_impl_pruned_solution N solve pid n1 n2 z hp hsolve hids hsl hearly h
    have : z' = z := by rw [← hdef.2 R hR, hport]
    rw [← this]; exact hdef

/-! ### the index bookkeeping, stated for the code's vocabulary -/

/-- **C06 (pruning: the selection keeps exactly the marked entries, in order).**  `x[keep]` is the list of the
entries of `x` whose mask bit is set, in their original order; `A[np.ix_(keep, keep)]` applies it to the rows and
inside every kept row. -/
theorem C06_prune_select_in_order (keep : List Bool) (A : List (List K)) :
    subMatrix keep A = (((keep.zip A).filter (·.1)).map (·.2)).map
      (fun r => ((keep.zip r).filter (·.1)).map (·.2)) := by
  unfold subMatrix
  rw [selectL_eq_filter]
  apply List.map_congr_left
  intro r _
  exact selectL_eq_filter keep r

/-- **C06 (pruning: `np.count_nonzero(keep[:i])` of a kept index is its position in the pruned system).**  For a
kept index `i`: the entry of any selected vector at `countBefore keep i` is the entry of the vector at `i`, that
position lies inside the pruned system, and positions of different kept indices are different and in the same
order. -/
theorem C06_prune_countBefore_position (keep : List Bool) (i : Nat) (hi : keep[i]? = some true) :
    (∀ x : List K, (selectL keep x)[countBefore keep i]? = x[i]?) ∧
    countBefore keep i < (keep.filter id).length ∧
    (∀ j, i < j → countBefore keep i < countBefore keep j) :=
  ⟨fun x => selectL_getElem? keep x i hi, countBefore_lt keep i hi, fun j hj => countBefore_strict keep i j hi hj⟩

/-- **C06 (pruning: a dropped unknown's column and row of the MNA matrix are entirely zero).**  The column by
the definition of the mask (`keep = A.any(axis=0)`), the row because `[[Y, B], [Bᵀ, 0]]` is symmetric. -/
theorem C06_prune_dropped_zero (N : Net L K) (k : Nat)
    (hk : (keepMask N.mnaA.length N.mnaA)[k]? = some false) :
    (∀ r ∈ N.mnaA, r.getD k 0 = 0) ∧ (∀ r, N.mnaA[k]? = some r → ∀ v ∈ r, v = 0) :=
  ⟨keepMask_false_col _ _ k hk, fun r hr => mnaA_dropped_row_zero N k r (keepMask_false_col _ _ k hk) hr⟩

/-- **C06 (pruning: the solution of the pruned system, extended by zeros, solves the unpruned system; the
entry the code reads is the port node's entry).**  For the MNA matrix `A` of any network, its column mask
`keep`, any kept index `i` and any `x` with `A[np.ix_(keep, keep)] · x = unit(count_nonzero(keep[:i]))`:
the vector `x̃` with the entries of `x` at the kept positions and zero at the dropped ones satisfies
`A · x̃ = unit(i)`, and `x̃[i] = x[count_nonzero(keep[:i])]`. -/
theorem C06_prune_extend_solves (N : Net L K) (i : Nat) (x : List K)
    (hi : (keepMask N.mnaA.length N.mnaA)[i]? = some true)
    (hsol : matVec (subMatrix (keepMask N.mnaA.length N.mnaA) N.mnaA) x
      = unitVec (subMatrix (keepMask N.mnaA.length N.mnaA) N.mnaA).length
          (countBefore (keepMask N.mnaA.length N.mnaA) i)) :
    matVec N.mnaA (expandL (keepMask N.mnaA.length N.mnaA) x) = unitVec N.mnaA.length i ∧
      (expandL (keepMask N.mnaA.length N.mnaA) x).getD i 0
        = x.getD (countBefore (keepMask N.mnaA.length N.mnaA) i) 0 := by
  set keep := keepMask N.mnaA.length N.mnaA with hkeep
  have hklen : keep.length = N.mnaA.length := keepMask_length _ _
  have hfull := matVec_expandL keep keep N.mnaA x hklen.symm
    (fun r hr => by rw [mnaA_row_length N r hr, hklen, mnaA_length])
    (fun k r hk hr => mnaA_dropped_row_zero N k r (keepMask_false_col _ _ k hk) hr)
  have hsub' : (selectL keep N.mnaA).map (selectL keep) = subMatrix keep N.mnaA := rfl
  rw [hsub', hsol, subMatrix_length keep _ hklen.symm, expandL_unitVec keep i hi, hklen] at hfull
  exact ⟨hfull, expandL_getD_kept keep x i hi⟩

/-! ### non-vacuity: a network with a pruned node that sorts before the port node -/

namespace C06ex

/-- the pruned system of `exP` (`O(1,0)` open, `R(2,0) = 5`, `R2(3,2) = 7`) for the port `(2, 0)`: node `1` dropped -/
def AP : List (List ℚ) := [[0, 0, 0], [0, 12/35, -1/7], [0, -1/7, 1/7]]
def AP' : List (List ℚ) := [[12/35, -1/7], [-1/7, 1/7]]
def solveP : List (List ℚ) → List ℚ → Option (List ℚ) := fun A b => if A = AP' ∧ b = [1, 0] then some [5, 5] else none

theorem solveP_ok : SolveOK solveP := by
  intro A b x h
  unfold solveP at h
  split at h
  · rename_i hc
    obtain ⟨rfl, rfl⟩ := hc
    cases h
    refine ⟨rfl, ?_⟩
    simp [matVec, dotL, AP']
    norm_num
  · cases h

theorem exP_mna : ({exP with zero := 0} : Net Nat ℚ).mnaA = AP := by
  simp [Net.mnaA, Net.nodes, Net.nodeLabels, exP, sortL, dedupL, List.mergeSort, LabelOrd.le, Net.Yentry, Net.nonVS,
    Elem.isIdealVS, Elem.Yfin, Net.vsSorted, Net.vsIds, Net.vs, Net.byIds, Net.get?, Branch.dir, AP]
  norm_num

theorem exP_nodes : ({exP with zero := 0} : Net Nat ℚ).nodes = [1, 2, 3] := by
  simp [Net.nodes, Net.nodeLabels, exP, sortL, dedupL, List.mergeSort, LabelOrd.le]

theorem exP_keep : keepMask 3 AP = [false, true, true] := by
  have r3 : List.range 3 = [0, 1, 2] := by decide
  simp [keepMask, AP, r3]

theorem exP_sys : ({exP with zero := 0} : Net Nat ℚ).portSys 2
    = .ok (.sys {exP with zero := 0} [false, true, true] AP' [1, 0] 0) := by
  have r2 : List.range 2 = [0, 1] := by decide
  have hs : subMatrix [false, true, true] AP = AP' := by simp [subMatrix, selectL, AP, AP']
  unfold Net.portSys
  rw [exP_nodes, exP_mna]
  have hl : AP.length = 3 := rfl
  simp only [hl, exP_keep, hs]
  simp [idxOf?, countBefore, unitVec, r2, AP']

theorem exP_iso1 : exP.isolated 2 0 = .ok false := by
  have hc : ({exP with zero := 0} : Net Nat ℚ).check = .ok () := by
    simp [Net.check, Net.nodeLabels, Net.ids, exP, sortL, dedupL, List.mergeSort, LabelOrd.le]
  unfold Net.isolated Net.switchGround
  simp only [hc, bind, Except.bind, pure, Except.pure, exP_nodes, exP_mna]
  simp [idxOf?, colZero, AP]

theorem exP_iso2 : exP.isolated 0 2 = .ok false := by
  have hc : ({exP with zero := 2} : Net Nat ℚ).check = .ok () := by
    simp [Net.check, Net.nodeLabels, Net.ids, exP, sortL, dedupL, List.mergeSort, LabelOrd.le]
  have hn : ({exP with zero := 2} : Net Nat ℚ).nodes = [0, 1, 3] := by
    simp [Net.nodes, Net.nodeLabels, exP, sortL, dedupL, List.mergeSort, LabelOrd.le]
  have hm : ({exP with zero := 2} : Net Nat ℚ).mnaA = [[1/5, 0, 0], [0, 0, 0], [0, 0, 1/7]] := by
    simp [Net.mnaA, Net.nodes, Net.nodeLabels, exP, sortL, dedupL, List.mergeSort, LabelOrd.le, Net.Yentry, Net.nonVS,
      Elem.isIdealVS, Elem.Yfin, Net.vsSorted, Net.vsIds, Net.vs, Net.byIds, Net.get?, Branch.dir]
  unfold Net.isolated Net.switchGround
  simp only [hc, bind, Except.bind, pure, Except.pure, hn, hm]
  simp [idxOf?, colZero]

theorem exP_pre : exP.portPre 2 0 = .ok (.sys {exP with zero := 0} [false, true, true] AP' [1, 0] 0) := by
  have hc : ({exP with zero := 0} : Net Nat ℚ).check = .ok () := by
    simp [Net.check, Net.nodeLabels, Net.ids, exP, sortL, dedupL, List.mergeSort, LabelOrd.le]
  have hb : ¬ (exP.branchesBetween 2 0).any (·.e.isIdealVS) = true := by
    simp [Net.branchesBetween, exP, Elem.isIdealVS]
  have hz : exP.zero = 0 := rfl
  rw [portPre_unfold (by decide) hb]
  simp only [hz, show ((2 : Nat) = 0) = False from by simp, if_false, exP_iso1, exP_iso2]
  simp only [Net.switchGround, hc, bind, Except.bind, pure, Except.pure]
  exact exP_sys

/-- the model's value on the pruned example: the entry at the RE-INDEXED position `0` (node `2` is unknown
number `1` before pruning) -/
theorem exP_model_value : exP.openCircuitImpedance solveP 2 0 = .ok 5 := by
  unfold Net.openCircuitImpedance
  rw [exP_pre]
  simp [solveP]

theorem exP_not_early : exP.portIsEarly 2 0 = false := by
  simp [Net.portIsEarly, Net.branchesBetween, exP, Elem.isIdealVS]

end C06ex

/-- non-vacuity of `C06_impl_pruned_solution` / `C06_impl_eq_spec_pruned`: `exP` (`O(1,0)` open, `R(2,0) = 5 Ω`,
`R2(3,2) = 7 Ω`), port `(2, 0)` — node `1` hangs on an open branch only, is pruned, and sorts before the port
node `2`, whose index changes from `1` to `0`: every hypothesis holds, the model returns `5`, `PortZ` is `5`;
this input is outside the hypotheses of `C06_impl_eq_spec_partial` (`keep = [False, True, True]`). -/
example : "p" ∉ C06ex.exP.ids ∧ SolveOK C06ex.solveP ∧ C06ex.exP.ids.Nodup ∧
    (∀ b ∈ C06ex.exP.branches, b.n1 ≠ b.n2) ∧ C06ex.exP.portIsEarly 2 0 = false ∧
    (∃ z', PortZ C06ex.exP "p" 2 0 z') ∧ C06ex.exP.openCircuitImpedance C06ex.solveP 2 0 = .ok 5 ∧
    (∃ N' A e i1, C06ex.exP.portPre 2 0 = .ok (.sys N' [false, true, true] A e i1)) :=
  ⟨by decide, C06ex.solveP_ok, by decide, by decide, C06ex.exP_not_early, ⟨5, C06ex.exP_spec_value⟩,
    C06ex.exP_model_value, ⟨_, _, _, _, C06ex.exP_pre⟩⟩

example : PortZ C06ex.exP "p" 2 0 5 :=
  C06_impl_eq_spec_pruned C06ex.exP C06ex.solveP "p" 2 0 5 5 (by decide) C06ex.solveP_ok (by decide) (by decide)
    C06ex.exP_spec_value C06ex.exP_model_value

/-- non-vacuity of the bookkeeping lemmas: the mask `[False, True, True]`, kept index `1` ↦ position `0` -/
example : ([false, true, true] : List Bool)[1]? = some true ∧ countBefore [false, true, true] 1 = 0 ∧
    selectL [false, true, true] [(10 : ℚ), 20, 30] = [20, 30] ∧
    expandL [false, true, true] [(20 : ℚ), 30] = [0, 20, 30] := by
  refine ⟨rfl, rfl, rfl, rfl⟩

end CC
