/-
  C17 (circuit loader), round 5b — the two hand-written constructor interpreters simulate each other, and
  `Load.accepts` is exact.

  The constructor of a circuit component is modelled twice: `Load.callCompFactory` (Load group,
  CC/Model/Load.lean, over the JSON-like tree `J`, driven by the generated `componentFactories`) and
  `CtorSpec.construct` (Circuit group, CC/Model/Circuit.lean, over `Val`, driven by the generated
  `Gen.ctorSpecs`).  CC/Properties/C17Circuit.lean tied them through agreeing generated descriptions
  (`Load.agrees`, `C17_circuit_ctor_tables_agree`) only.  Here:

  * the translation between the two value representations is made explicit (`Load.J.toVal?`,
    `Load.Obj.toArgs?`, `Load.CompRel`, `Load.ResRel`);
  * `Load.callCompFactory_simulates`: ONE generic lemma about a pair of agreeing descriptions — stage by
    stage (keyword binding, guards, value dictionary) the two interpreters give corresponding results;
  * `C17_constructors_simulate` (+ `_cases`): for every kind of the generated table and every value block
    (a dictionary of translatable leaves) both succeed with the same component or both fail with the same
    exception class; `C17_loaders_simulate`: the same one level up, for the two `generate_component` models;
    `C17_simulation_needs_unique_keys`: the hypothesis "no key twice" cannot be dropped (witness);
  * `C17_circuit_accepts_iff`: `generate_component … = ok c` IFF `Load.accepts` (necessity added to
    `C17_circuit_loads_given`); `C17_circuit_rejects`: every failing branch with its exception
    (`IncorrectComponentInformation` ⇐ `TypeError` of the binding or of `'x' < 0`; `ValueError` of a sign
    guard; `AttributeError` of `.real` / `.imag` of a non-number).

  NOT proved here: that the Python functions compute what the models compute (correspondence,
  harness/props/c17.py); value blocks with `None` / list / dictionary leaves have no counterpart in `Val`,
  so the simulation does not speak about them (the loader side alone is covered by `C17_circuit_rejects`).
-/
import CC.Properties.C17Circuit
set_option linter.unusedSimpArgs false
set_option linter.unusedVariables false
set_option linter.unnecessarySeqFocus false
namespace CC
open CC.Load CC.Gen.Load CC.Spec.Load

namespace Load

/-! ## the translation between the two value representations -/

/-- a leaf of the loader's JSON-like tree as a value of the Circuit group's model: numbers, strings and
complex numbers as they are; a boolean as the number it equals in Python (`True == 1`; `Val` has no
booleans); `None`, lists and dictionaries have no counterpart (`none`) -/
def J.toVal? : J → Option Val
  | .num q => some (.num q)
  | .bool b => some (.num (if b then 1 else 0))
  | .str s => some (.str s)
  | .cx z => some (.cplx z.re z.im)
  | _ => none

/-- a dictionary of translatable leaves as a keyword list of the Circuit group's model (same keys, same order) -/
def Obj.toArgs? : Obj → Option (List (String × Val))
  | [] => some []
  | (k, v) :: r =>
    match v.toVal?, Obj.toArgs? r with
    | some v', some r' => some ((k, v') :: r')
    | _, _ => none

/-- results of the two interpreters correspond: both succeed with corresponding values, or both fail
with the same exception class -/
def ResRel {α β : Type} (R : α → β → Prop) : Except Err α → Except Err β → Prop
  | .ok a, .ok b => R a b
  | .error e, .error e' => e = e'
  | _, _ => False

/-- a loaded component (Load group's record) and a constructed component (Circuit group's record) are
the same component: same type, the identifier is that string, the nodes object is the list of these
strings, the value dictionary has the same keys in the same order with corresponding values -/
def CompRel (c : Comp) (c' : Component) : Prop :=
  c.ty = c'.kind ∧ c.id = .str c'.id ∧ c.nodes = .arr (c'.nodes.map J.str) ∧ Obj.toArgs? c.value = some c'.value

theorem toArgs_cons {k : String} {v : J} {r : Obj} {a : List (String × Val)}
    (h : Obj.toArgs? ((k, v) :: r) = some a) :
    ∃ v' r', v.toVal? = some v' ∧ Obj.toArgs? r = some r' ∧ a = (k, v') :: r' := by
  simp only [Obj.toArgs?] at h
  cases hv : v.toVal? with
  | none => simp [hv] at h
  | some v' =>
    cases hr : Obj.toArgs? r with
    | none => simp [hv, hr] at h
    | some r' =>
      simp only [hv, hr, Option.some.injEq] at h
      exact ⟨v', r', rfl, rfl, h.symm⟩

/-- a key found in the dictionary is found, translated, in the keyword list; a key absent there is absent here -/
theorem lookup_toArgs (o : Obj) (a : List (String × Val)) (h : Obj.toArgs? o = some a) (k : String) :
    a.lookup k = (Obj.find o k).bind J.toVal? := by
  induction o generalizing a with
  | nil => simp only [Obj.toArgs?, Option.some.injEq] at h; subst h; rfl
  | cons q r ih =>
    obtain ⟨k', v⟩ := q
    obtain ⟨v', r', hv, hr, e⟩ := toArgs_cons h
    subst e
    by_cases hk : k' = k
    · subst hk; simp [Obj.find, List.lookup, hv]
    · have hb : (k == k') = false := by simp [Ne.symm hk]
      simp [Obj.find, List.lookup, hk, hb, ih r' hr]

theorem lookup_of_find (o : Obj) (a : List (String × Val)) (h : Obj.toArgs? o = some a) (k : String) (v : J)
    (hf : Obj.find o k = some v) : ∃ v', v.toVal? = some v' ∧ a.lookup k = some v' := by
  induction o generalizing a with
  | nil => cases hf
  | cons q r ih =>
    obtain ⟨k', w⟩ := q
    obtain ⟨w', r', hw, hr, e⟩ := toArgs_cons h
    subst e
    by_cases hk : k' = k
    · subst hk
      simp only [Obj.find, if_true, Option.some.injEq] at hf
      subst hf
      exact ⟨w', hw, by simp [List.lookup]⟩
    · have hb : (k == k') = false := by simp [Ne.symm hk]
      simp only [Obj.find, hk, if_false] at hf
      obtain ⟨v', h1, h2⟩ := ih r' hr hf
      exact ⟨v', h1, by simp [List.lookup, hb, h2]⟩

theorem toArgs_keys (o : Obj) (a : List (String × Val)) (h : Obj.toArgs? o = some a) :
    a.map (·.1) = o.map (·.1) := by
  induction o generalizing a with
  | nil => simp only [Obj.toArgs?, Option.some.injEq] at h; subst h; rfl
  | cons q r ih =>
    obtain ⟨k', w⟩ := q
    obtain ⟨w', r', hw, hr, e⟩ := toArgs_cons h
    subst e
    simp [ih r' hr]

/-! ## stage 1: keyword binding -/

/-- what the Circuit group's `bindParams` does per parameter -/
def bindOne (args : List (String × Val)) (p : String × PTy × Option Val) : Except Err (String × Val) :=
  match args.lookup p.1 with
  | some v => .ok (p.1, v)
  | none => match p.2.2 with
    | some v => .ok (p.1, v)
    | none => .error .typeError

theorem ctor_bindParams_eq (ps : List (String × PTy × Option Val)) (args : List (String × Val)) :
    CC.bindParams ps args =
      if args.any (fun a => !(ps.any (fun p => p.1 == a.1))) then .error .typeError else ps.mapM (bindOne args) := rfl

theorem bindParams_sim (params : List (String × Option Int)) (ps : List (String × PTy × Option Val))
    (hps : ps.map (fun p => (p.1, p.2.2)) = params.map (fun p => (p.1, p.2.map fun n => Val.num n)))
    (vo : Obj) (args : List (String × Val)) (htr : Obj.toArgs? vo = some args) :
    ResRel (fun b e => Obj.toArgs? b = some e) (Load.bindParams params vo) (ps.mapM (bindOne args)) := by
  induction params generalizing ps with
  | nil =>
    cases ps with
    | nil => simp [Load.bindParams, ResRel, pure, Except.pure, Obj.toArgs?]
    | cons _ _ => simp at hps
  | cons q r ih =>
    cases ps with
    | nil => simp at hps
    | cons p ps' =>
      obtain ⟨k, d⟩ := q
      obtain ⟨k', ty, d'⟩ := p
      simp only [List.map_cons, List.cons.injEq, Prod.mk.injEq] at hps
      obtain ⟨⟨hk, hd⟩, hrest⟩ := hps
      subst hk
      subst hd
      have ih' := ih ps' hrest
      have hl := lookup_toArgs vo args htr k'
      simp only [Load.bindParams, List.mapM_cons, bindOne, bind, Except.bind, pure, Except.pure]
      cases h1 : Load.bindParams r vo with
      | error e =>
        have he := bindParams_error r vo e h1
        subst he
        cases h2 : List.mapM (bindOne args) ps' with
        | ok x => rw [h1, h2] at ih'; exact ih'.elim
        | error e' =>
          rw [h1, h2] at ih'
          simp only [ResRel] at ih'
          subst ih'
          cases hf : Obj.find vo k' with
          | some v =>
            obtain ⟨v', hv1, hv2⟩ := lookup_of_find vo args htr k' v hf
            simp [hv2, ResRel, bindOne, h2]
          | none =>
            rw [hf] at hl
            cases d with
            | some n => simp [hl, ResRel, bindOne, h2]
            | none => simp [hl, ResRel, bindOne, h2]
      | ok rest =>
        cases h2 : List.mapM (bindOne args) ps' with
        | error e' => rw [h1, h2] at ih'; exact ih'.elim
        | ok rest' =>
          rw [h1, h2] at ih'
          simp only [ResRel] at ih'
          cases hf : Obj.find vo k' with
          | some v =>
            obtain ⟨v', hv1, hv2⟩ := lookup_of_find vo args htr k' v hf
            simp [hv2, ResRel, bindOne, h2, Obj.toArgs?, hv1, ih']
          | none =>
            rw [hf] at hl
            cases d with
            | some n => simp [hl, ResRel, bindOne, h2, Obj.toArgs?, J.toVal?, ih']
            | none => simp [hl, ResRel, bindOne, h2]


theorem bindParams_keys (params : List (String × Option Int)) (vo b : Obj)
    (h : Load.bindParams params vo = .ok b) : b.map (·.1) = params.map (·.1) := by
  induction params generalizing b with
  | nil => simp only [Load.bindParams, Except.ok.injEq] at h; subst h; rfl
  | cons q r ih =>
    obtain ⟨k, d⟩ := q
    simp only [Load.bindParams] at h
    cases hr : Load.bindParams r vo with
    | error e => rw [hr] at h; cases h
    | ok rest =>
      rw [hr] at h
      have := ih rest hr
      cases hf : Obj.find vo k with
      | some v => rw [hf] at h; simp only [Except.ok.injEq] at h; subst h; simp [this]
      | none =>
        rw [hf] at h
        cases d with
        | some n => simp only [Except.ok.injEq] at h; subst h; simp [this]
        | none => cases h

theorem find_of_mem_keys (o : Obj) (k : String) (h : k ∈ o.map (·.1)) : ∃ v, Obj.find o k = some v := by
  induction o with
  | nil => cases h
  | cons q r ih =>
    obtain ⟨k', v⟩ := q
    by_cases hk : k' = k
    · exact ⟨v, by simp [Obj.find, hk]⟩
    · have : k ∈ r.map (·.1) := by
        rcases List.mem_cons.mp h with e | e
        · exact absurd e.symm hk
        · exact e
      obtain ⟨w, hw⟩ := ih this
      exact ⟨w, by simp [Obj.find, hk, hw]⟩

theorem mem_keys_of_any (params : List (String × Option Int)) (p : String)
    (h : params.any (fun q => q.1 == p) = true) : p ∈ params.map (·.1) := by
  rw [List.any_eq_true] at h
  obtain ⟨q, hq, e⟩ := h
  exact List.mem_map.mpr ⟨q, hq, by simpa using e⟩

/-- a bound parameter, seen from both sides -/
theorem bound_both (params : List (String × Option Int)) (vo bound : Obj) (env : List (String × Val))
    (hb : Load.bindParams params vo = .ok bound) (hbe : Obj.toArgs? bound = some env) (p : String)
    (hp : params.any (fun q => q.1 == p) = true) :
    ∃ v v', Obj.find bound p = some v ∧ v.toVal? = some v' ∧ env.lookup p = some v' := by
  have hk : p ∈ bound.map (·.1) := by rw [bindParams_keys params vo bound hb]; exact mem_keys_of_any params p hp
  obtain ⟨v, hv⟩ := find_of_mem_keys bound p hk
  obtain ⟨v', h1, h2⟩ := lookup_of_find bound env hbe p v hv
  exact ⟨v, v', hv, h1, h2⟩

/-! ## stage 2: the guards -/

theorem guard_one (env : List (String × Val)) (p : String) (b : Int) (v : J) (v' : Val)
    (h2 : v.toVal? = some v') (h3 : env.lookup p = some v') :
    (Guard.mk p .lt (b : Rat) "ValueError").check env =
      match guardLt v b with
      | none => .error .typeError
      | some true => .error .valueError
      | some false => .ok () := by
  have hexc : errOfExc "ValueError" = Err.valueError := by decide
  cases v with
  | num q =>
    simp only [J.toVal?, Option.some.injEq] at h2; subst h2
    by_cases hq : q < (b : Rat) <;> simp [Guard.check, h3, guardLt, Cmp.holds, hexc, hq]
  | bool t =>
    simp only [J.toVal?, Option.some.injEq] at h2; subst h2
    by_cases hq : (if t then (1 : Rat) else 0) < (b : Rat) <;> simp [Guard.check, h3, guardLt, Cmp.holds, hexc, hq]
  | str s => simp only [J.toVal?, Option.some.injEq] at h2; subst h2; simp [Guard.check, h3, guardLt]
  | cx z => simp only [J.toVal?, Option.some.injEq] at h2; subst h2; simp [Guard.check, h3, guardLt]
  | null => simp [J.toVal?] at h2
  | arr l => simp [J.toVal?] at h2
  | obj kv => simp [J.toVal?] at h2

theorem runGuards_sim (bound : Obj) (env : List (String × Val)) (guards : List (String × Int))
    (hb : ∀ g ∈ guards, ∃ v v', Obj.find bound g.1 = some v ∧ v.toVal? = some v' ∧ env.lookup g.1 = some v') :
    Load.runGuards bound guards
      = forM (guards.map fun g => Guard.mk g.1 .lt g.2 "ValueError") (fun g : Guard => g.check env) := by
  induction guards with
  | nil => rfl
  | cons g r ih =>
    obtain ⟨p, b⟩ := g
    obtain ⟨v, v', h1, h2, h3⟩ := hb (p, b) (List.mem_cons_self ..)
    have ih' := ih (fun g hg => hb g (List.mem_cons_of_mem _ hg))
    dsimp only at h1 h3
    have hg := guard_one env p b v v' h2 h3
    simp only [List.map_cons, List.forM_cons, Load.runGuards, h1, Option.getD_some, bind, Except.bind]
    rw [hg]
    cases guardLt v b with
    | none => rfl
    | some t => cases t <;> simp [ih']

/-! ## stage 3: the value dictionary -/

def valOne (env : List (String × Val)) (kv : String × VE) : Except Err (String × Val) :=
  do pure (kv.1, ← kv.2.eval env)

theorem valOne_eq (env : List (String × Val)) (k : String) (ve : VE) :
    valOne env (k, ve) = match ve.eval env with | .ok v => .ok (k, v) | .error e => .error e := by
  simp only [valOne, bind, Except.bind, pure, Except.pure]
  cases ve.eval env <;> rfl

theorem buildValue_sim (bound : Obj) (env : List (String × Val)) (value : List (String × VSrc))
    (hb : ∀ kv ∈ value, ∀ p, kv.2.param? = some p →
      ∃ v v', Obj.find bound p = some v ∧ v.toVal? = some v' ∧ env.lookup p = some v') :
    ResRel (fun o a => Obj.toArgs? o = some a) (Load.buildValue bound value)
      ((value.map fun kv => (kv.1, Load.VSrc.toVE kv.2)).mapM (valOne env)) := by
  induction value with
  | nil => simp [Load.buildValue, ResRel, pure, Except.pure, Obj.toArgs?]
  | cons kv r ih =>
    obtain ⟨k, s⟩ := kv
    have h0 := hb (k, s) (List.mem_cons_self ..)
    have ih' := ih (fun g hg => hb g (List.mem_cons_of_mem _ hg))
    simp only [List.map_cons, List.mapM_cons, Load.buildValue, valOne_eq, bind, Except.bind, pure, Except.pure]
    -- the head
    have head : (match s.eval bound with
        | none => (VSrc.toVE s).eval env = .error .attributeError
        | some v => ∃ v', v.toVal? = some v' ∧ (VSrc.toVE s).eval env = .ok v') := by
      cases s with
      | const n => simp [VSrc.eval, VSrc.toVE, VE.eval, J.toVal?]
      | param p =>
        obtain ⟨v, v', h1, h2, h3⟩ := h0 p rfl
        simp [VSrc.eval, VSrc.toVE, VE.eval, h1, h2, h3]
      | re p =>
        obtain ⟨v, v', h1, h2, h3⟩ := h0 p rfl
        cases v <;> simp [J.toVal?] at h2 <;> subst h2 <;> simp [VSrc.eval, VSrc.toVE, VE.eval, h1, h3, J.toVal?]
      | im p =>
        obtain ⟨v, v', h1, h2, h3⟩ := h0 p rfl
        cases v <;> simp [J.toVal?] at h2 <;> subst h2 <;> simp [VSrc.eval, VSrc.toVE, VE.eval, h1, h3, J.toVal?]
    cases hs : s.eval bound with
    | none =>
      rw [hs] at head
      simp [head, ResRel]
    | some v =>
      rw [hs] at head
      obtain ⟨v', hv, he⟩ := head
      simp only [he]
      cases h1 : Load.buildValue bound r with
      | error e =>
        cases h2 : List.mapM (valOne env) (r.map fun kv => (kv.1, Load.VSrc.toVE kv.2)) with
        | ok x => rw [h1, h2] at ih'; exact ih'.elim
        | error e' =>
          rw [h1, h2] at ih'
          simp only [ResRel] at ih'
          subst ih'
          simp [ResRel]
      | ok o =>
        cases h2 : List.mapM (valOne env) (r.map fun kv => (kv.1, Load.VSrc.toVE kv.2)) with
        | error e' => rw [h1, h2] at ih'; exact ih'.elim
        | ok a =>
          rw [h1, h2] at ih'
          simp only [ResRel] at ih'
          simp [ResRel, Obj.toArgs?, hv, ih']

/-! ## the two constructor interpreters -/

theorem construct_eq (s : CtorSpec) (id : String) (nodes : List String) (args : List (String × Val)) :
    s.construct (some id) (some nodes) args =
      match CC.bindParams s.params args with
      | .error e => .error e
      | .ok env =>
        match s.guards.forM (fun g => g.check env) with
        | .error e => .error e
        | .ok _ =>
          match s.waveChecks.forM (waveCheck env) with
          | .error e => .error e
          | .ok _ =>
            match s.values.mapM (valOne env) with
            | .error e => .error e
            | .ok value => .ok { kind := s.kind, id := id, nodes := nodes, value := value } := by
  unfold CtorSpec.construct valOne
  simp only [bind, Except.bind, pure, Except.pure]
  cases CC.bindParams s.params args with
  | error e => rfl
  | ok env =>
    simp only []
    cases s.guards.forM (fun g => g.check env) with
    | error e => rfl
    | ok u =>
      simp only []
      cases s.waveChecks.forM (waveCheck env) with
      | error e => rfl
      | ok u' =>
        simp only []
        generalize (List.mapM _ s.values : Except Err (List (String × Val))) = m
        cases m <;> rfl

theorem any_unknown_eq (params : List (String × Option Int)) (ps : List (String × PTy × Option Val))
    (hk : ps.map (·.1) = params.map (·.1)) (vo : Obj) (args : List (String × Val))
    (htr : Obj.toArgs? vo = some args) :
    args.any (fun a => !(ps.any (fun p => p.1 == a.1))) = vo.any (fun p => !(params.any (fun q => q.1 == p.1))) := by
  have hkeys : ∀ k, ps.any (fun p => p.1 == k) = params.any (fun q => q.1 == k) := by
    intro k
    have := congrArg (fun l => l.any (· == k)) hk
    simpa [List.any_map, Function.comp_def] using this
  have h1 : args.any (fun a => !(ps.any (fun p => p.1 == a.1)))
      = (args.map (·.1)).any (fun k => !(params.any (fun q => q.1 == k))) := by
    simp [List.any_map, Function.comp_def, hkeys]
  have h2 : vo.any (fun p => !(params.any (fun q => q.1 == p.1)))
      = (vo.map (·.1)).any (fun k => !(params.any (fun q => q.1 == k))) := by
    simp [List.any_map, Function.comp_def]
  rw [h1, h2, toArgs_keys vo args htr]

theorem any_unknown_keysKnown (params : List (String × Option Int)) (vo : Obj) :
    vo.any (fun p => !(params.any (fun q => q.1 == p.1))) = !(keysKnown params vo) := by
  simp [keysKnown, List.any_eq_not_all_not]

/-- **The generic simulation lemma.**  `f` (Load group) and `s` (Circuit group) are two descriptions of
one constructor that agree (`Load.agrees`), `f` is well-formed.  Then on corresponding arguments — the
identifier a string, the nodes a list of strings, the value block a dictionary (no key twice, as in every
Python `dict`) of translatable leaves and `args` its translation — the two hand-written interpreters
`Load.callCompFactory` and `CtorSpec.construct` return corresponding results: both succeed with the same
component (`CompRel`), or both fail with the same exception class. -/
theorem callCompFactory_simulates (f : CompFactory) (s : CtorSpec) (hag : Load.agrees f s = true)
    (hwf : f.wellFormed = true) (id : String) (nodes : List String) (vo : Obj) (args : List (String × Val))
    (hdup : dupKeys vo = false) (htr : Obj.toArgs? vo = some args) :
    ResRel CompRel (callCompFactory f (.str id) (.arr (nodes.map J.str)) (.obj vo))
      (s.construct (some id) (some nodes) args) := by
  simp only [Load.agrees, Bool.and_eq_true, beq_iff_eq, List.isEmpty_iff] at hag
  obtain ⟨⟨⟨⟨⟨hkind, hname⟩, hparams⟩, hguards⟩, hvalues⟩, hwave⟩ := hag
  have hwf' := hwf
  simp only [CompFactory.wellFormed, Bool.and_eq_true, List.all_eq_true] at hwf'
  obtain ⟨⟨⟨⟨_, _⟩, hwv⟩, hwg⟩, _⟩ := hwf'
  have hfst : s.params.map (·.1) = f.params.map (·.1) := by
    have := congrArg (List.map Prod.fst) hparams
    simpa [List.map_map, Function.comp_def] using this.symm
  have hany := any_unknown_eq f.params s.params hfst vo args htr
  rw [any_unknown_keysKnown] at hany
  rw [construct_eq, ctor_bindParams_eq, hany]
  cases hk : keysKnown f.params vo with
  | false =>
    rw [callCompFactory_unknown_key f _ _ vo hk]
    simp [ResRel]
  | true =>
    obtain ⟨hid, hnodes⟩ := keysKnown_no_id f hwf vo hk
    have hany' : vo.any (fun p => !(f.params.any (fun q => q.1 == p.1))) = false := by
      rw [any_unknown_keysKnown, hk]; rfl
    have h1 := bindParams_sim f.params s.params hparams.symm vo args htr
    simp only [callCompFactory, hid, hnodes, Bool.or_self, Bool.false_eq_true, if_false, bindArgs, hdup, hany',
      Bool.not_true]
    cases hb1 : Load.bindParams f.params vo with
    | error e =>
      cases hb2 : List.mapM (bindOne args) s.params with
      | ok x => rw [hb1, hb2] at h1; exact h1.elim
      | error e' => rw [hb1, hb2] at h1; simpa [ResRel] using h1
    | ok bound =>
      cases hb2 : List.mapM (bindOne args) s.params with
      | error e' => rw [hb1, hb2] at h1; exact h1.elim
      | ok env =>
        rw [hb1, hb2] at h1
        simp only [ResRel] at h1
        have hboth := bound_both f.params vo bound env hb1 h1
        have hg := runGuards_sim bound env f.guards (fun g hg => hboth g.1 (hwg g hg))
        rw [hguards] at hg
        have hgd : s.guards.forM (fun g => g.check env) = forM s.guards (fun g : Guard => g.check env) := rfl
        simp only [hg, hgd]
        cases hgr : forM s.guards (fun g : Guard => g.check env) with
        | error e => simp [ResRel]
        | ok u =>
          simp only [hwave, List.forM_nil, pure, Except.pure]
          have hv := buildValue_sim bound env f.value (by
            intro kv hkv p hp
            have := hwv kv hkv
            rw [hp] at this
            exact hboth p this)
          rw [hvalues] at hv
          cases hv1 : Load.buildValue bound f.value with
          | error e =>
            cases hv2 : List.mapM (valOne env) s.values with
            | ok x => rw [hv1, hv2] at hv; exact hv.elim
            | error e' => rw [hv1, hv2] at hv; simpa [ResRel, pure, Except.pure] using hv
          | ok o =>
            cases hv2 : List.mapM (valOne env) s.values with
            | error e' => rw [hv1, hv2] at hv; exact hv.elim
            | ok a =>
              rw [hv1, hv2] at hv
              simp only [ResRel] at hv
              simp [ResRel, CompRel, hkind, hv, pure, Except.pure]

/-! ## `accepts` is exact -/

/-- Python's keyword binding succeeds: no key twice, neither `id` nor `nodes` among the keys, every key a
keyword of the constructor, every parameter without default written -/
def bindable (f : CompFactory) (vo : Obj) : Bool :=
  !dupKeys vo && !Obj.has vo "id" && !Obj.has vo "nodes" && keysKnown f.params vo &&
  f.params.all (fun p => p.2.isSome || Obj.has vo p.1)

theorem bindArgs_eq (params : List (String × Option Int)) (vo : Obj) :
    bindArgs params vo =
      if (!dupKeys vo && keysKnown params vo && params.all (fun p => p.2.isSome || Obj.has vo p.1)) = true
      then .ok (boundOf params vo) else .error .typeError := by
  cases hd : dupKeys vo with
  | true => simp [bindArgs, hd]
  | false =>
    cases hk : keysKnown params vo with
    | false => simp [bindArgs_unknown_key params vo hk]
    | true =>
      cases hr : params.all (fun p => p.2.isSome || Obj.has vo p.1) with
      | true =>
        simp only [Bool.not_false, Bool.and_self, if_true]
        refine bindArgs_ok params vo hd hk ?_
        intro p hp hnone hf
        rw [List.all_eq_true] at hr
        have := hr p hp
        simp [hnone, Obj.has, hf] at this
      | false =>
        simp only [Bool.not_false, Bool.and_false, Bool.false_eq_true, if_false]
        rw [List.all_eq_false] at hr
        obtain ⟨⟨k, d⟩, hp, hn⟩ := hr
        cases d with
        | some n => simp at hn
        | none =>
          have hf : Obj.find vo k = none := by
            cases h : Obj.find vo k with
            | none => rfl
            | some v => simp [Obj.has, h] at hn
          exact bindArgs_missing params vo k hp hf

theorem callCompFactory_eq (f : CompFactory) (id nodes : J) (vo : Obj) :
    callCompFactory f id nodes (.obj vo) =
      if bindable f vo = true then
        match runGuards (boundOf f.params vo) f.guards with
        | .error e => .error e
        | .ok () =>
          match buildValue (boundOf f.params vo) f.value with
          | .error e => .error e
          | .ok v => .ok { ty := f.kind, id := id, nodes := nodes, value := v }
      else .error .typeError := by
  simp only [callCompFactory, bindable, bindArgs_eq]
  rcases Bool.eq_false_or_eq_true (Obj.has vo "id") with h1 | h1 <;>
  rcases Bool.eq_false_or_eq_true (Obj.has vo "nodes") with h2 | h2 <;>
  rcases Bool.eq_false_or_eq_true (dupKeys vo) with h3 | h3 <;>
  rcases Bool.eq_false_or_eq_true (keysKnown f.params vo) with h4 | h4 <;>
  rcases Bool.eq_false_or_eq_true (f.params.all (fun p => p.2.isSome || Obj.has vo p.1)) with h5 | h5 <;>
  (simp [h1, h2, h3, h4, h5]) <;>
  (cases runGuards (boundOf f.params vo) f.guards with
    | error e => rfl
    | ok u => cases buildValue (boundOf f.params vo) f.value <;> rfl)

theorem runGuards_ok_iff (bound : Obj) (guards : List (String × Int)) :
    runGuards bound guards = .ok () ↔
      ∀ g ∈ guards, guardLt ((Obj.find bound g.1).getD .null) g.2 = some false := by
  constructor
  · intro h
    induction guards with
    | nil => intro g hg; cases hg
    | cons g r ih =>
      obtain ⟨p, b⟩ := g
      simp only [runGuards] at h
      cases hgl : guardLt ((Obj.find bound p).getD .null) b with
      | none => rw [hgl] at h; cases h
      | some t =>
        cases t with
        | true => rw [hgl] at h; cases h
        | false =>
          rw [hgl] at h
          intro g hg
          rcases List.mem_cons.mp hg with e | e
          · subst e; exact hgl
          · exact ih h g e
  · exact runGuards_ok bound guards

/-- a failing guard run: `ValueError` from a sign guard that fires, or `TypeError` from comparing a non-number -/
theorem runGuards_error (bound : Obj) (guards : List (String × Int)) (e : Err)
    (h : runGuards bound guards = .error e) :
    (e = .valueError ∧ ∃ g ∈ guards, guardLt ((Obj.find bound g.1).getD .null) g.2 = some true) ∨
    (e = .typeError ∧ ∃ g ∈ guards, guardLt ((Obj.find bound g.1).getD .null) g.2 = none) := by
  induction guards with
  | nil => cases h
  | cons g r ih =>
    obtain ⟨p, b⟩ := g
    simp only [runGuards] at h
    cases hgl : guardLt ((Obj.find bound p).getD .null) b with
    | none =>
      rw [hgl] at h; cases h
      exact Or.inr ⟨rfl, (p, b), List.mem_cons_self .., hgl⟩
    | some t =>
      cases t with
      | true =>
        rw [hgl] at h; cases h
        exact Or.inl ⟨rfl, (p, b), List.mem_cons_self .., hgl⟩
      | false =>
        rw [hgl] at h
        rcases ih h with ⟨h1, g, hg, h2⟩ | ⟨h1, g, hg, h2⟩
        · exact Or.inl ⟨h1, g, List.mem_cons_of_mem _ hg, h2⟩
        · exact Or.inr ⟨h1, g, List.mem_cons_of_mem _ hg, h2⟩

theorem buildValue_ok_iff (bound : Obj) (value : List (String × VSrc)) :
    (∃ o, buildValue bound value = .ok o) ↔ ∀ kv ∈ value, (kv.2.eval bound).isSome = true := by
  constructor
  · rintro ⟨o, h⟩
    induction value generalizing o with
    | nil => intro kv hkv; cases hkv
    | cons kv r ih =>
      obtain ⟨k, s⟩ := kv
      simp only [buildValue] at h
      cases hs : s.eval bound with
      | none => rw [hs] at h; cases h
      | some v =>
        rw [hs] at h
        cases hr : buildValue bound r with
        | error e => rw [hr] at h; cases h
        | ok o' =>
          intro kv hkv
          rcases List.mem_cons.mp hkv with e | e
          · subst e; simp [hs]
          · exact ih o' hr kv e
  · intro h; exact ⟨_, buildValue_ok bound value h⟩

/-- a failing value dictionary: `AttributeError` from `.real` / `.imag` of something that is no number -/
theorem buildValue_error (bound : Obj) (value : List (String × VSrc)) (e : Err)
    (h : buildValue bound value = .error e) :
    e = .attributeError ∧ ∃ kv ∈ value, kv.2.eval bound = none := by
  induction value with
  | nil => cases h
  | cons kv r ih =>
    obtain ⟨k, s⟩ := kv
    simp only [buildValue] at h
    cases hs : s.eval bound with
    | none =>
      rw [hs] at h; cases h
      exact ⟨rfl, (k, s), List.mem_cons_self .., hs⟩
    | some v =>
      rw [hs] at h
      cases hr : buildValue bound r with
      | ok o' => rw [hr] at h; cases h
      | error e' =>
        rw [hr] at h; cases h
        obtain ⟨h1, kv, hkv, h2⟩ := ih hr
        exact ⟨h1, kv, List.mem_cons_of_mem _ hkv, h2⟩

theorem accepts_eq (f : CompFactory) (vo : Obj) :
    accepts f vo = (bindable f vo &&
      f.guards.all (fun g => guardLt ((Obj.find (boundOf f.params vo) g.1).getD .null) g.2 == some false) &&
      f.value.all (fun kv => (kv.2.eval (boundOf f.params vo)).isSome)) := rfl

/-- **`accepts` is exact** (constructor call): the call succeeds iff the value block is accepted, and then
the component is `builtBy`. -/
theorem callCompFactory_ok_iff (f : CompFactory) (id nodes : J) (vo : Obj) (c : Comp) :
    callCompFactory f id nodes (.obj vo) = .ok c ↔ accepts f vo = true ∧ c = builtBy f id nodes vo := by
  constructor
  · intro h
    have hacc : accepts f vo = true := by
      rw [callCompFactory_eq] at h
      cases hb : bindable f vo with
      | false => simp [hb] at h
      | true =>
        simp only [hb, if_true] at h
        cases hg : runGuards (boundOf f.params vo) f.guards with
        | error e => rw [hg] at h; cases h
        | ok u =>
          rw [hg] at h
          simp only [] at h
          cases hv : buildValue (boundOf f.params vo) f.value with
          | error e => rw [hv] at h; cases h
          | ok o =>
            have h1 := (runGuards_ok_iff _ _).mp hg
            have h2 := (buildValue_ok_iff _ _).mp ⟨o, hv⟩
            rw [accepts_eq, hb]
            simp only [Bool.true_and, Bool.and_eq_true, List.all_eq_true, beq_iff_eq]
            exact ⟨h1, h2⟩
    refine ⟨hacc, ?_⟩
    rw [callCompFactory_ok f id nodes vo hacc] at h
    exact (Except.ok.inj h).symm
  · rintro ⟨hacc, e⟩
    subst e
    exact callCompFactory_ok f id nodes vo hacc

/-- **Every failing branch, with its exception.**  A value block that is not accepted always raises, and:
`TypeError` iff the keyword binding fails (a key twice / `id` / `nodes` / an unexpected keyword / a missing
parameter) or a guarded parameter is no number (`'x' < 0`); `ValueError` iff the binding succeeds and a sign
guard fires; `AttributeError` iff binding and guards pass and `.real` / `.imag` is taken of a non-number. -/
theorem callCompFactory_rejects (f : CompFactory) (id nodes : J) (vo : Obj) (h : accepts f vo = false) :
    ∃ e, callCompFactory f id nodes (.obj vo) = .error e ∧
      ((e = .typeError ∧ (bindable f vo = false ∨ (bindable f vo = true ∧
          ∃ g ∈ f.guards, guardLt ((Obj.find (boundOf f.params vo) g.1).getD .null) g.2 = none))) ∨
       (e = .valueError ∧ bindable f vo = true ∧
          ∃ g ∈ f.guards, guardLt ((Obj.find (boundOf f.params vo) g.1).getD .null) g.2 = some true) ∨
       (e = .attributeError ∧ bindable f vo = true ∧
          (∀ g ∈ f.guards, guardLt ((Obj.find (boundOf f.params vo) g.1).getD .null) g.2 = some false) ∧
          ∃ kv ∈ f.value, kv.2.eval (boundOf f.params vo) = none)) := by
  rw [callCompFactory_eq]
  cases hb : bindable f vo with
  | false => exact ⟨.typeError, by simp, Or.inl ⟨rfl, Or.inl rfl⟩⟩
  | true =>
    simp only [if_true]
    cases hg : runGuards (boundOf f.params vo) f.guards with
    | error e =>
      refine ⟨e, rfl, ?_⟩
      rcases runGuards_error _ _ e hg with ⟨h1, h2⟩ | ⟨h1, h2⟩
      · exact Or.inr (Or.inl ⟨h1, trivial, h2⟩)
      · exact Or.inl ⟨h1, Or.inr ⟨trivial, h2⟩⟩
    | ok u =>
      have h1 := (runGuards_ok_iff _ _).mp hg
      simp only []
      cases hv : buildValue (boundOf f.params vo) f.value with
      | error e =>
        obtain ⟨h2, h3⟩ := buildValue_error _ _ e hv
        exact ⟨e, rfl, Or.inr (Or.inr ⟨h2, trivial, h1, h3⟩)⟩
      | ok o =>
        exfalso
        have h2 := (buildValue_ok_iff _ _).mp ⟨o, hv⟩
        rw [accepts_eq, hb] at h
        have : (f.guards.all (fun g => guardLt ((Obj.find (boundOf f.params vo) g.1).getD .null) g.2 == some false) &&
            f.value.all (fun kv => (kv.2.eval (boundOf f.params vo)).isSome)) = true := by
          simp only [Bool.and_eq_true, List.all_eq_true, beq_iff_eq]
          exact ⟨h1, h2⟩
        simp [this] at h

theorem ResRel.both {α β : Type} {R : α → β → Prop} {r : Except Err α} {r' : Except Err β} (h : ResRel R r r') :
    (∀ e, r = .error e ↔ r' = .error e) ∧
    (∀ a, r = .ok a → ∃ b, r' = .ok b ∧ R a b) ∧ (∀ b, r' = .ok b → ∃ a, r = .ok a ∧ R a b) := by
  cases r with
  | error e =>
    cases r' with
    | error e' => simp only [ResRel] at h; subst h; simp
    | ok b => exact h.elim
  | ok a =>
    cases r' with
    | error e' => exact h.elim
    | ok b => simp only [ResRel] at h; simp [h]

end Load

/-! ## the property theorems -/

/-- **C17, the two constructor interpreters simulate each other.**  For EVERY kind `p.1` of the generated
circuit table, with `f` the Load group's and `s` the Circuit group's description of its constructor, and for
EVERY identifier, node list and value block `vo` — a dictionary (no key twice) whose leaves are numbers,
strings, complex numbers or booleans, `args` its translation `Load.Obj.toArgs?` (number ↦ number, string ↦
string, complex ↦ complex, `True`/`False` ↦ 1/0; the Circuit group's `Val` has no booleans) —
`Load.callCompFactory f` (the loader's constructor call, CC/Model/Load.lean) and `s.construct` (the Circuit
group's constructor, CC/Model/Circuit.lean) give corresponding results (`Load.ResRel Load.CompRel`): both
succeed with the same type, identifier, nodes and value dictionary (same keys, same order, corresponding
values), or both fail with the same exception class (`TypeError`, `ValueError`, `AttributeError`).
Not covered: value blocks with a `None` / list / dictionary leaf (`Val` cannot express them; on the loader
side `C17_circuit_rejects` says what happens) and `Val.inf` arguments (no JSON counterpart).  Says nothing
about Python beyond the two models (correspondence runs). -/
theorem C17_constructors_simulate (p : String × String) (hp : p ∈ circuitComponentTranslators) :
    ∃ f s, Load.factoryOf p.1 = some f ∧ Gen.tables.ctor? p.2 = some s ∧ s ∈ Gen.ctorSpecs ∧
      ∀ (id : String) (nodes : List String) (vo : Obj) (args : List (String × Val)),
        Load.dupKeys vo = false → Load.Obj.toArgs? vo = some args →
        Load.ResRel Load.CompRel (Load.callCompFactory f (.str id) (.arr (nodes.map J.str)) (.obj vo))
          (s.construct (some id) (some nodes) args) := by
  obtain ⟨f, s, hf, hs, hmem, hag, _, _⟩ := C17_circuit_constructor_half p hp
  obtain ⟨f0, hf0, _, _, hwf⟩ := Load.factoryOf_table p hp
  rw [hf] at hf0; cases hf0
  exact ⟨f, s, hf, hs, hmem, fun id nodes vo args hdup htr =>
    Load.callCompFactory_simulates f s hag hwf id nodes vo args hdup htr⟩

/-- the same, spelt out: one fails iff the other fails, with the same exception; when one succeeds the
other succeeds with the corresponding component -/
theorem C17_constructors_simulate_cases (p : String × String) (hp : p ∈ circuitComponentTranslators) :
    ∃ f s, Load.factoryOf p.1 = some f ∧ Gen.tables.ctor? p.2 = some s ∧
      ∀ (id : String) (nodes : List String) (vo : Obj) (args : List (String × Val)),
        Load.dupKeys vo = false → Load.Obj.toArgs? vo = some args →
        (∀ e, Load.callCompFactory f (.str id) (.arr (nodes.map J.str)) (.obj vo) = .error e ↔
              s.construct (some id) (some nodes) args = .error e) ∧
        (∀ c, Load.callCompFactory f (.str id) (.arr (nodes.map J.str)) (.obj vo) = .ok c →
          ∃ c', s.construct (some id) (some nodes) args = .ok c' ∧
            c.ty = c'.kind ∧ c.id = .str c'.id ∧ c.nodes = .arr (c'.nodes.map J.str) ∧
            Load.Obj.toArgs? c.value = some c'.value) ∧
        (∀ c', s.construct (some id) (some nodes) args = .ok c' →
          ∃ c, Load.callCompFactory f (.str id) (.arr (nodes.map J.str)) (.obj vo) = .ok c ∧
            c.ty = c'.kind ∧ c.id = .str c'.id ∧ c.nodes = .arr (c'.nodes.map J.str) ∧
            Load.Obj.toArgs? c.value = some c'.value) := by
  obtain ⟨f, s, hf, hs, _, h⟩ := C17_constructors_simulate p hp
  exact ⟨f, s, hf, hs, fun id nodes vo args hdup htr => (h id nodes vo args hdup htr).both⟩

/-- non-vacuity: an a.c. source with a boolean and a default; both sides succeed -/
example : Load.dupKeys [("w", J.num 50), ("V", .bool true), ("phi", .num (1/2))] = false ∧
    Load.Obj.toArgs? [("w", J.num 50), ("V", .bool true), ("phi", .num (1/2))]
      = some [("w", .num 50), ("V", .num 1), ("phi", .num (1/2))] := ⟨by decide, rfl⟩

/-- … a complex source with a string where a complex number belongs: both sides `AttributeError` -/
example : ∃ f s, Load.factoryOf "complex_voltage_source" = some f ∧ Gen.tables.ctor? "complex_voltage_source" = some s ∧
    Load.callCompFactory f (.str "U") (.arr [.str "1", .str "0"]) (.obj [("V", .str "x")]) = .error .attributeError ∧
    s.construct (some "U") (some ["1", "0"]) [("V", .str "x")] = .error .attributeError :=
  ⟨_, _, rfl, rfl, by decide, by decide⟩

/-- **The hypothesis "no key twice" cannot be dropped** (it holds of every Python `dict`): on the list
`[("R", 5), ("R", 5)]` — not a dictionary — the loader model answers `TypeError` (its model of "multiple
values for keyword argument"), the Circuit group's model looks the first one up and succeeds. -/
theorem C17_simulation_needs_unique_keys :
    ∃ f s, Load.factoryOf "resistor" = some f ∧ Gen.tables.ctor? "resistor" = some s ∧
      Load.Obj.toArgs? [("R", J.num 5), ("R", J.num 5)] = some [("R", .num 5), ("R", .num 5)] ∧
      Load.callCompFactory f (.str "R1") (.arr [.str "1", .str "0"]) (.obj [("R", .num 5), ("R", .num 5)])
        = .error .typeError ∧
      s.construct (some "R1") (some ["1", "0"]) [("R", .num 5), ("R", .num 5)]
        = .ok ⟨"resistor", "R1", ["1", "0"], [("R", .num 5)]⟩ :=
  ⟨_, _, rfl, rfl, by decide, by decide, by decide⟩

theorem C17_loader_table_lookup :
    ∀ p ∈ circuitComponentTranslators, Gen.tables.loaders.lookup p.1 = some p.2 := by decide

/-- **C17, the two `generate_component` models simulate each other** on the kinds of the table: for every
kind `p.1` of the circuit table and every entry dictionary `o` (any key order, any further keys) whose `id`
is a string, whose `nodes` is a list of strings, whose `type` is `p.1` and whose `value` is a dictionary `vo`
(no key twice) of translatable leaves, the Load group's `Load.generateComponent` (dictionary → constructor
call) and the Circuit group's `CC.generateComponent` on the corresponding record give corresponding results:
the same component, or the same exception class (`IncorrectComponentInformation` for a `TypeError` of the
call, `ValueError`, `AttributeError`).  Outside the table the two models name the exception differently
(`.other "UnknownCircuitComponent"` / `.unknownKind`, one Python class) — not part of this statement. -/
theorem C17_loaders_simulate (p : String × String) (hp : p ∈ circuitComponentTranslators)
    (o : Obj) (id : String) (nodes : List String) (vo : Obj) (args : List (String × Val))
    (hid : Obj.find o "id" = some (.str id)) (hval : Obj.find o "value" = some (.obj vo))
    (hty : Obj.find o "type" = some (.str p.1)) (hnodes : Obj.find o "nodes" = some (.arr (nodes.map J.str)))
    (hdup : Load.dupKeys vo = false) (htr : Load.Obj.toArgs? vo = some args) :
    Load.ResRel Load.CompRel (Load.generateComponent (.obj o)).1
      (CC.generateComponent Gen.tables ⟨some id, some p.1, some nodes, some args⟩) := by
  obtain ⟨f, s, hf, hs, _, h⟩ := C17_constructors_simulate p hp
  have hsim := h id nodes vo args hdup htr
  rw [C17_circuit_fields]
  simp only [hid, hval, hty, hnodes, Load.fromFields, Load.dispatchC_factory p.1 f hf]
  simp only [CC.generateComponent, bind, Except.bind, pure, Except.pure, C17_loader_table_lookup p hp, hs]
  cases h1 : Load.callCompFactory f (.str id) (.arr (nodes.map J.str)) (.obj vo) with
  | ok c =>
    cases h2 : s.construct (some id) (some nodes) args with
    | error e => rw [h1, h2] at hsim; exact hsim.elim
    | ok c' => rw [h1, h2] at hsim; exact hsim
  | error e =>
    cases h2 : s.construct (some id) (some nodes) args with
    | ok c' => rw [h1, h2] at hsim; exact hsim.elim
    | error e' =>
      rw [h1, h2] at hsim
      simp only [Load.ResRel] at hsim
      subst hsim
      cases e <;> simp [Load.ResRel, throw, throwThe, MonadExceptOf.throw]

/-- non-vacuity of `C17_loaders_simulate`: an entry with a further key and another key order -/
example : Obj.find [("note", J.str "x"), ("nodes", .arr (["b", "a"].map J.str)), ("type", .str "ac_voltage_source"),
      ("value", .obj [("w", .num 50), ("V", .num 1)]), ("id", .str "U")] "nodes" = some (.arr (["b", "a"].map J.str)) ∧
    ("ac_voltage_source", "ac_voltage_source") ∈ circuitComponentTranslators := by decide

/-- a `None` leaf has no counterpart in the Circuit group's value type -/
example : Load.Obj.toArgs? [("R", J.null)] = none := by decide

/-! ### `accepts` is exact -/

/-- **C17, circuit loader: `Load.accepts` is necessary and sufficient.**  For any kind the table knows (`f`
its constructor description) and any entry dictionary with the four keys whose `value` is a dictionary `vo`:
`generate_component` succeeds with `c` IFF `f` accepts `vo` and `c` is the component `Load.builtBy` describes. -/
theorem C17_circuit_accepts_iff (kind : String) (f : CompFactory) (hf : Load.factoryOf kind = some f)
    (o : Obj) (id nodes : J) (vo : Obj)
    (hid : Obj.find o "id" = some id) (hval : Obj.find o "value" = some (.obj vo))
    (hty : Obj.find o "type" = some (.str kind)) (hnodes : Obj.find o "nodes" = some nodes) (c : Comp) :
    (Load.generateComponent (.obj o)).1 = .ok c ↔ Load.accepts f vo = true ∧ c = Load.builtBy f id nodes vo := by
  rw [C17_circuit_fields]
  simp only [hid, hval, hty, hnodes, Load.fromFields, Load.dispatchC_factory kind f hf]
  rw [← Load.callCompFactory_ok_iff f id nodes vo c]
  cases Load.callCompFactory f id nodes (.obj vo) with
  | ok c0 => simp
  | error e => cases e <;> simp

/-- **C17, circuit loader: every failing branch with its exception.**  Same setting; a value block that is
NOT accepted always raises, and exactly:
* `IncorrectComponentInformation` (the translated `TypeError`) iff the keyword binding fails
  (`Load.bindable` false: `id` / `nodes` / an unexpected keyword / a missing parameter) or a guarded
  parameter is no number (`'x' < 0`);
* `ValueError` iff the binding succeeds and a sign guard `P < bound` fires;
* `AttributeError` iff binding and all guards pass and `.real` / `.imag` is taken of something that is no
  number (a string, `None`, a list, a dictionary). -/
theorem C17_circuit_rejects (kind : String) (f : CompFactory) (hf : Load.factoryOf kind = some f)
    (o : Obj) (id nodes : J) (vo : Obj)
    (hid : Obj.find o "id" = some id) (hval : Obj.find o "value" = some (.obj vo))
    (hty : Obj.find o "type" = some (.str kind)) (hnodes : Obj.find o "nodes" = some nodes)
    (hacc : Load.accepts f vo = false) :
    ∃ e, (Load.generateComponent (.obj o)).1 = .error e ∧
      ((e = .other "IncorrectComponentInformation" ∧ (Load.bindable f vo = false ∨ (Load.bindable f vo = true ∧
          ∃ g ∈ f.guards, Load.guardLt ((Obj.find (Load.boundOf f.params vo) g.1).getD .null) g.2 = none))) ∨
       (e = .valueError ∧ Load.bindable f vo = true ∧
          ∃ g ∈ f.guards, Load.guardLt ((Obj.find (Load.boundOf f.params vo) g.1).getD .null) g.2 = some true) ∨
       (e = .attributeError ∧ Load.bindable f vo = true ∧
          (∀ g ∈ f.guards, Load.guardLt ((Obj.find (Load.boundOf f.params vo) g.1).getD .null) g.2 = some false) ∧
          ∃ kv ∈ f.value, kv.2.eval (Load.boundOf f.params vo) = none)) := by
  rw [C17_circuit_fields]
  simp only [hid, hval, hty, hnodes, Load.fromFields, Load.dispatchC_factory kind f hf]
  obtain ⟨e, he, hcase⟩ := Load.callCompFactory_rejects f id nodes vo hacc
  rw [he]
  rcases hcase with ⟨h1, h2⟩ | ⟨h1, h2⟩ | ⟨h1, h2⟩
  · subst h1; exact ⟨_, rfl, Or.inl ⟨rfl, h2⟩⟩
  · subst h1; exact ⟨_, rfl, Or.inr (Or.inl ⟨rfl, h2⟩)⟩
  · subst h1; exact ⟨_, rfl, Or.inr (Or.inr ⟨rfl, h2⟩)⟩

/-- non-vacuity, one witness per branch: a negative resistance (`ValueError`), a string resistance
(`TypeError` of `'x' < 0`, reported as `IncorrectComponentInformation`), a misspelt key (binding), a string
impedance (`AttributeError`) -/
example : ∃ f, Load.factoryOf "resistor" = some f ∧ Load.accepts f [("R", .num (-1))] = false ∧
    Load.accepts f [("R", .str "x")] = false ∧ Load.bindable f [("R", .str "x")] = true ∧
    Load.bindable f [("r", .num 1)] = false := ⟨_, rfl, by decide, by decide, by decide, by decide⟩
example : (Load.generateComponent (.obj [("id", .str "R1"), ("type", .str "resistor"),
    ("nodes", .arr [.str "1", .str "0"]), ("value", .obj [("R", .num (-1))])])).1 = .error .valueError := by decide
example : (Load.generateComponent (.obj [("id", .str "Z1"), ("type", .str "impedance"),
    ("nodes", .arr [.str "1", .str "0"]), ("value", .obj [("Z", .str "x")])])).1 = .error .attributeError := by decide
example : (Load.generateComponent (.obj [("id", .str "R1"), ("type", .str "resistor"),
    ("nodes", .arr [.str "1", .str "0"]), ("value", .obj [("R", .str "x")])])).1
      = .error (.other "IncorrectComponentInformation") := by decide

end CC

