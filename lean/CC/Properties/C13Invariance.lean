/-
  C13 — metamorphic part as theorems about the *translated circuit* of the drawing model
  (CC/Model/Draw.lean `circuitTranslator`), not only about the Spec relation `Joined`
  (`C13_geometry`, `C13_wire_split`, `C13_order` of CC/Properties/C13.lean).

  Helper lemmas: CC/Proofs/DrawInvariance.lean.  Composition with C03 (CC/Properties/C03.lean:
  `Net.rename`, `Report.comap`, `C03_perm`).

  Throughout, the two drawings may be read with two *different* iteration orders `ord`, `ord'` of
  the Python sets (any two permutations): the node names of the two translations then differ
  even for the identity transformation — unlabelled nodes are numbered in set order — which is
  why every statement is "up to a renaming `ρ` of node names".  `emap` is `Except.map`: an error of
  the first translation is the same error of the second (coordinate map, wire split).

  What stays assumed (explicit hypotheses, each shown satisfiable by an `example`):
    * `C13_DrawingWF`: no node name sits on two different electrical nodes;
    * `InjOnTerms g syms`: the map of rounded coordinates is injective on the terminals of the
      drawing; and `MappedBy g syms syms'` / `RoundCommutes t g syms`: the rounded terminals of
      the transformed drawing *are* the images of the rounded terminals (that rounding commutes
      with the float transformation schemdraw applies is a fact about float geometry, not proved);
    * split point unused (`c ∉ termPts`).
-/
import CC.Proofs.DrawInvariance
import CC.Properties.C13
import CC.Properties.C03
set_option linter.unusedSectionVars false
set_option linter.unusedVariables false
namespace CC
open CC.Draw

theorem C13_drawingWF_iff (syms : List Sym) : C13_DrawingWF syms ↔ NamesOK syms := Iff.rfl

/-! ## (1) coordinate maps -/

/-- **Translation, rotation, rescaling — any coordinate map injective on the terminals.**
`syms'` is the drawing `syms` symbol by symbol (same classes, names, reversal flags, attribute
values, same order) with every rounded terminal moved by `g` (`MappedBy`), `g` injective on the
rounded terminals of `syms` (`InjOnTerms`).  Then, for any two set orders, there are a renaming
`ρ` of node names and the naming `lab` of the first drawing such that
  * `lab` is what the parser answers on every parser node of `syms`;
  * `ρ` is injective on the names used by `syms`, and onto the names used by `syms'`
    (third conjunct: every parser node of `syms'` is `g p` and is named `ρ (lab p)`): the node
    partition of `syms'` is the image of that of `syms`;
  * on every terminal, `_get_node_index` of `syms'` at `g p` is `ρ` of that of `syms` at `p`
    (same `KeyError` off the parser nodes);
  * `circuit_translator syms'` is `circuit_translator syms` with node names sent through `ρ`:
    same error, or the same components in the same order — ids, kinds, values, terminal ORDER
    kept — and the reference node is `ρ` of the reference node.
Not claimed: that schemdraw's float transformation followed by `round_node` realises `MappedBy`
(see `C13_moved_raw`); that `ρ` fixes the names given by node symbols (true, not proved here). -/
theorem C13_moved (π : Rat) (ord ord' : SetOrd Pt) (hord : ord.Valid) (hord' : ord'.Valid)
    (g : Pt → Pt) (syms syms' : List Sym) (hm : MappedBy g syms syms') (hinj : InjOnTerms g syms)
    (hwf : C13_DrawingWF syms) :
    ∃ (ρ : String → String) (lab : Pt → String),
      (∀ p ∈ allNodes syms, labelOf ord syms p = .ok (lab p)) ∧
      (∀ a ∈ (allNodes syms).map lab, ∀ b ∈ (allNodes syms).map lab, ρ a = ρ b → a = b) ∧
      (∀ q ∈ allNodes syms', ∃ p ∈ allNodes syms, q = g p ∧ labelOf ord' syms' q = .ok (ρ (lab p))) ∧
      (∀ p ∈ termPts syms, labelOf ord' syms' (g p) = emap ρ (labelOf ord syms p)) ∧
      circuitTranslator π ord' syms' = emap (renameCircuit ρ) (circuitTranslator π ord syms) ∧
      C13_DrawingWF syms' := by
  obtain ⟨ρ, lab, h1, h2, h3, h4⟩ := circuitTranslator_moved π hord hord' g syms syms' hm hinj hwf
  refine ⟨ρ, lab, h1, h2, ?_, h3, h4, hm.namesOK hwf⟩
  intro q hq
  obtain ⟨p, hp, rfl⟩ := hm.mem_allNodes.mp hq
  refine ⟨p, hp, rfl, ?_⟩
  rw [h3 p (allNodes_sub_termPts hp), h1 p hp]
  rfl

/-- The three families of the property text are injective on *all* points (rational
coordinates, in particular grid points), hence on the terminals of every drawing: translation
by any vector (integer vectors included), any number of quarter turns, change of unit by a
non-zero factor (non-zero integers included); compositions of injective maps are injective. -/
theorem C13_rigid_maps_injective :
    (∀ a b : Rat, Function.Injective (Pt.shift a b)) ∧
    (∀ a b : Int, Function.Injective (Pt.shift (a : Rat) (b : Rat))) ∧
    (∀ n : Nat, Function.Injective (Pt.quarter^[n])) ∧
    (∀ k : Rat, k ≠ 0 → Function.Injective (Pt.scale k)) ∧
    (∀ k : Int, k ≠ 0 → Function.Injective (Pt.scale (k : Rat))) ∧
    (∀ (g : Pt → Pt), Function.Injective g → ∀ syms, InjOnTerms g syms) :=
  ⟨Pt.shift_injective, Pt.shift_int_injective, Pt.quarter_iterate_injective,
    fun _ hk => Pt.scale_injective hk, fun _ hk => Pt.scale_int_injective hk, fun _ h syms => injOnTerms_of_injective h syms⟩

/-- The same for a transformation `t` of the *raw* anchors (`moveRaw`): IF rounding after `t` is
`g` after rounding on the anchors of the drawing (`RoundCommutes` — the float-geometry
assumption, stated, not proved) and `g` is injective, THEN the translated circuits agree up to
the renaming. -/
theorem C13_moved_raw (π : Rat) (ord ord' : SetOrd Pt) (hord : ord.Valid) (hord' : ord'.Valid)
    (t g : Pt → Pt) (syms : List Sym) (hc : RoundCommutes t g syms) (hg : Function.Injective g)
    (hwf : C13_DrawingWF syms) :
    ∃ ρ : String → String,
      circuitTranslator π ord' (syms.map (moveRaw t)) = emap (renameCircuit ρ) (circuitTranslator π ord syms) := by
  obtain ⟨ρ, _, _, _, _, _, h, _⟩ := C13_moved π ord ord' hord hord' g syms _ (mappedBy_moveRaw hc)
    (injOnTerms_of_injective hg syms) hwf
  exact ⟨ρ, h⟩

/-! ### non-vacuity: a divider drawn on the grid, then scaled by 2, shifted by (3, 2) and turned -/

/-- V1 from (0,0) to (0,1), R1 to (1,1), R2 to (1,0), a wire back to (0,0), ground at (0,0) -/
def C13_exDrawing : List Sym :=
  [ { cls := "VoltageSource", name := "V1", rev := false, attrs := [("V", .num ⟨5, 0⟩)], start := ⟨0, 0⟩, stop := ⟨0, 1⟩ },
    { cls := "Resistor", name := "R1", attrs := [("R", .num ⟨2, 0⟩)], start := ⟨0, 1⟩, stop := ⟨1, 1⟩ },
    { cls := "Resistor", name := "R2", attrs := [("R", .num ⟨3, 0⟩)], start := ⟨1, 1⟩, stop := ⟨1, 0⟩ },
    { cls := "Line", start := ⟨1, 0⟩, stop := ⟨0, 0⟩ },
    { cls := "Ground", name := "gnd", nodeId := "0", start := ⟨0, 0⟩, stop := ⟨0, 0⟩ } ]

def C13_exMap : Pt → Pt := Pt.quarter ∘ Pt.shift 3 2 ∘ Pt.scale 2

theorem C13_exDrawing_wf : C13_DrawingWF C13_exDrawing := by
  intro ps hps qs hqs _
  have : nodeSymsOf C13_exDrawing = [(⟨0, 0⟩, "0")] := by decide +kernel
  rw [this] at hps hqs
  simp only [List.mem_cons, List.not_mem_nil, or_false] at hps hqs
  subst hps; subst hqs
  exact Joined.refl _

example : RoundCommutes C13_exMap C13_exMap C13_exDrawing := by unfold RoundCommutes; decide +kernel

example : Function.Injective C13_exMap :=
  Pt.quarter_injective.comp ((Pt.shift_injective 3 2).comp (Pt.scale_injective (by decide)))

/-- the two translations, read with different set orders: the unlabelled nodes swap their numbers -/
example :
    (circuitTranslator 3 ⟨id, id⟩ C13_exDrawing).toOption.map (fun c => (c.components.map (·.nodes), c.groundNode)) =
      some ([["0", "2"], ["2", "3"], ["3", "0"], ["0"]], "0") ∧
    (circuitTranslator 3 ⟨id, List.reverse⟩ (C13_exDrawing.map (moveRaw C13_exMap))).toOption.map
        (fun c => (c.components.map (·.nodes), c.groundNode)) =
      some ([["0", "3"], ["3", "2"], ["2", "0"], ["0"]], "0") := by
  constructor <;> decide +kernel

/-! ## (2) wire splitting and symbol order -/

/-- **Wire split.**  `l` is a wire of the drawing `pre ++ l :: post`; it is replaced by the two
wires `l₁ : l.start — c` and `l₂ : c — l.end` (`SplitAt`; nothing is assumed about collinearity,
the parser does not look at it), where the rounded point `c` is no terminal of any symbol of the
original drawing (`hfresh`).  Then, for any two set orders, with a renaming `ρ` injective on the
names used: every terminal of the original drawing is named `ρ` of its old name, and
`circuit_translator` of the split drawing is that of the original with node names sent through
`ρ` — same error, or the same component list (wires contribute no component) in the same order
with ids, kinds, values and terminal order kept, reference node `ρ` of the reference node.
A chain of several intermediate points is this theorem applied repeatedly. -/
theorem C13_split (π : Rat) (ord ord' : SetOrd Pt) (hord : ord.Valid) (hord' : ord'.Valid)
    (c : Pt) (pre post : List Sym) (l l₁ l₂ : Sym) (hs : SplitAt c pre post l l₁ l₂)
    (hfresh : c ∉ termPts (pre ++ l :: post)) (hwf : C13_DrawingWF (pre ++ l :: post)) :
    ∃ (ρ : String → String) (lab : Pt → String),
      (∀ p ∈ allNodes (pre ++ l :: post), labelOf ord (pre ++ l :: post) p = .ok (lab p)) ∧
      (∀ a ∈ (allNodes (pre ++ l :: post)).map lab, ∀ b ∈ (allNodes (pre ++ l :: post)).map lab, ρ a = ρ b → a = b) ∧
      (∀ p ∈ termPts (pre ++ l :: post),
        labelOf ord' (pre ++ l₁ :: l₂ :: post) p = emap ρ (labelOf ord (pre ++ l :: post) p)) ∧
      circuitTranslator π ord' (pre ++ l₁ :: l₂ :: post) =
        emap (renameCircuit ρ) (circuitTranslator π ord (pre ++ l :: post)) :=
  circuitTranslator_split π hord hord' c pre post l l₁ l₂ hs hfresh hwf

/-- non-vacuity: the wire (1,0)—(0,0) of the example drawing split at (1/2, 0) -/
example :
    let pre := C13_exDrawing.take 3
    let post := C13_exDrawing.drop 4
    let l : Sym := { cls := "Line", start := ⟨1, 0⟩, stop := ⟨0, 0⟩ }
    let l₁ : Sym := { cls := "Line", start := ⟨1, 0⟩, stop := ⟨1/2, 0⟩ }
    let l₂ : Sym := { cls := "Line", start := ⟨1/2, 0⟩, stop := ⟨0, 0⟩ }
    SplitAt (roundPt ⟨1/2, 0⟩) pre post l l₁ l₂ ∧ roundPt ⟨1/2, 0⟩ ∉ termPts (pre ++ l :: post) ∧
      pre ++ l :: post = C13_exDrawing := by
  refine ⟨⟨rfl, rfl, rfl, rfl, rfl, rfl, rfl⟩, by decide +kernel, rfl⟩

/-- **Symbol order.**  `syms'` is any permutation of the list `syms`.  Then, for any two set
orders, with a renaming `ρ` injective on the names used: every terminal is named `ρ` of its old
name (node *names* do depend on the order in which symbols were added — unlabelled nodes are
numbered in set order, several labels on one node: the last wins — so equality is up to `ρ`),
and IF the original drawing translates to a circuit `C`, the permuted one translates to a
circuit `C'` whose component list is a *permutation* of the renamed components of `C` (each with
id, kind, values and terminal order kept), and whose reference node is `ρ` of that of `C`
**provided `C` has a ground component**.  What does NOT hold in general: without a ground symbol
`Circuit.__post_init__` takes the first terminal of the *first* component as reference node,
which depends on the order (all potentials then shift by a constant, `C03_reref`); and when the
original translation raises, the permuted one raises too but possibly *another* error (the
first failing symbol in list order decides) — apply the theorem to `syms'` to get "raises ⇔ raises". -/
theorem C13_perm (π : Rat) (ord ord' : SetOrd Pt) (hord : ord.Valid) (hord' : ord'.Valid)
    (syms syms' : List Sym) (hp : syms.Perm syms') (hwf : C13_DrawingWF syms) :
    ∃ (ρ : String → String) (lab : Pt → String),
      (∀ p ∈ allNodes syms, labelOf ord syms p = .ok (lab p)) ∧
      (∀ a ∈ (allNodes syms).map lab, ∀ b ∈ (allNodes syms).map lab, ρ a = ρ b → a = b) ∧
      (∀ p ∈ termPts syms, labelOf ord' syms' p = emap ρ (labelOf ord syms p)) ∧
      (∀ C, circuitTranslator π ord syms = .ok C →
        ∃ C', circuitTranslator π ord' syms' = .ok C' ∧
          C'.components.Perm (C.components.map (renameComp ρ)) ∧
          ((∃ k ∈ C.components, k.type = "ground") → C'.groundNode = ρ C.groundNode)) :=
  circuitTranslator_perm π hord hord' syms syms' hp hwf

/-- "translates successfully ⇔ translates successfully" under a permutation -/
theorem C13_perm_ok_iff (π : Rat) (ord ord' : SetOrd Pt) (hord : ord.Valid) (hord' : ord'.Valid)
    (syms syms' : List Sym) (hp : syms.Perm syms') (hwf : C13_DrawingWF syms) :
    (∃ C, circuitTranslator π ord syms = .ok C) ↔ (∃ C', circuitTranslator π ord' syms' = .ok C') := by
  have hwf' : C13_DrawingWF syms' := by
    intro ps hps qs hqs hid
    have hN : (nodeSymsOf syms).Perm (nodeSymsOf syms') := (hp.filter _).map _
    have hW : (wiresOf syms).Perm (wiresOf syms') := (hp.filter _).map _
    exact (joined_perm hW).mp (hwf ps (hN.mem_iff.mpr hps) qs (hN.mem_iff.mpr hqs) hid)
  constructor
  · rintro ⟨C, hC⟩
    obtain ⟨_, _, _, _, _, h⟩ := C13_perm π ord ord' hord hord' syms syms' hp hwf
    obtain ⟨C', hC', _⟩ := h C hC
    exact ⟨C', hC'⟩
  · rintro ⟨C, hC⟩
    obtain ⟨_, _, _, _, _, h⟩ := C13_perm π ord' ord hord' hord syms' syms hp.symm hwf'
    obtain ⟨C', hC', _⟩ := h C hC
    exact ⟨C', hC'⟩

/-- the reference node does depend on the order when there is no ground symbol (why the last
conjunct of `C13_perm` carries its hypothesis): R1 from (0,1) to (1,1), R2 from (1,1) to (1,0);
listed R1, R2 the reference node is R1's first terminal (0,1); listed R2, R1 it is R2's first
terminal (1,1) — the common node of the two resistors, another electrical node -/
def C13_exR1 : Sym := { cls := "Resistor", name := "R1", attrs := [("R", .num ⟨2, 0⟩)], start := ⟨0, 1⟩, stop := ⟨1, 1⟩ }
def C13_exR2 : Sym := { cls := "Resistor", name := "R2", attrs := [("R", .num ⟨3, 0⟩)], start := ⟨1, 1⟩, stop := ⟨1, 0⟩ }
example :
    (circuitTranslator 3 ⟨id, id⟩ [C13_exR1, C13_exR2]).toOption.map
        (fun c => (c.components.map (fun k => (k.id, k.nodes)), c.groundNode)) =
      some ([("R1", ["1", "2"]), ("R2", ["2", "3"])], "1") ∧
    (circuitTranslator 3 ⟨id, id⟩ [C13_exR2, C13_exR1]).toOption.map
        (fun c => (c.components.map (fun k => (k.id, k.nodes)), c.groundNode)) =
      some ([("R2", ["1", "3"]), ("R1", ["2", "1"])], "1") := by
  constructor <;> decide +kernel

/-! ## (3) same netlist up to renaming ⇒ same solution (composition with C03) -/

section Solution
variable {K : Type} [Field K] [DecidableEq K]

/-- `C03_rename` with injectivity demanded only where it matters: on the labels that occur in
the network (the renamings produced above are injective on the names used, not on all strings). -/
theorem C13_circuitEqs_rename_on {L L' : Type} [DecidableEq L] [DecidableEq L'] (σ : L → L')
    (τ : String → String) (N : Net L K) (hσ : ∀ a ∈ N.allLabels, ∀ b ∈ N.allLabels, σ a = σ b → a = b)
    (R' : Report L' K) :
    CircuitEqs (N.rename σ τ) R' ↔ CircuitEqs N (R'.comap σ τ) := by
  have hlab : ∀ b ∈ N.branches, b.n1 ∈ N.allLabels ∧ b.n2 ∈ N.allLabels := by
    intro b hb
    unfold Net.allLabels
    simp only [List.mem_cons, List.mem_append, List.mem_map]
    exact ⟨Or.inr (Or.inl ⟨b, hb, rfl⟩), Or.inr (Or.inr ⟨b, hb, rfl⟩)⟩
  have hk : ∀ n ∈ N.allLabels, kclResidual (N.rename σ τ) R' (σ n) = kclResidual N (R'.comap σ τ) n := by
    intro n hn
    unfold kclResidual Net.rename
    simp only [List.map_map]
    apply congrArg; apply List.map_congr_left
    intro b hb
    simp only [Function.comp_apply]
    have hinc : incidence (b.rename σ τ) (σ n) = incidence b n := by
      unfold incidence Branch.rename
      have e1 : (σ b.n1 = σ n) ↔ (b.n1 = n) := ⟨hσ _ (hlab b hb).1 _ hn, fun h => by rw [h]⟩
      have e2 : (σ b.n2 = σ n) ↔ (b.n2 = n) := ⟨hσ _ (hlab b hb).2 _ hn, fun h => by rw [h]⟩
      simp only [e1, e2]
    rw [hinc]
    rfl
  have himg : ∀ n' ∈ (N.rename σ τ).allLabels, ∃ n ∈ N.allLabels, σ n = n' := by
    intro n' hn'
    unfold Net.allLabels Net.rename at hn'
    simp only [List.map_map, List.mem_cons, List.mem_append, List.mem_map, Function.comp_apply] at hn'
    rcases hn' with rfl | ⟨b, hb, rfl⟩ | ⟨b, hb, rfl⟩
    · exact ⟨N.zero, by unfold Net.allLabels; simp, rfl⟩
    · exact ⟨b.n1, (hlab b hb).1, rfl⟩
    · exact ⟨b.n2, (hlab b hb).2, rfl⟩
  constructor
  · intro h
    refine ⟨h.ref_zero, ?_, ?_, ?_⟩
    · intro b hb
      exact h.volt (b.rename σ τ) (List.mem_map.mpr ⟨b, hb, rfl⟩)
    · intro b hb
      exact h.law (b.rename σ τ) (List.mem_map.mpr ⟨b, hb, rfl⟩)
    · intro n hn
      rw [← hk n hn]; exact h.kcl_all (σ n)
  · intro h
    refine ⟨h.ref_zero, ?_, ?_, ?_⟩
    · intro b' hb'
      obtain ⟨b, hb, rfl⟩ := List.mem_map.mp hb'
      exact h.volt b hb
    · intro b' hb'
      obtain ⟨b, hb, rfl⟩ := List.mem_map.mp hb'
      exact h.law b hb
    · intro n' hn'
      obtain ⟨n, hn, rfl⟩ := himg n' hn'
      rw [hk n hn]; exact h.kcl n hn

/-- the network of the renamed circuit is the renamed network (for every node-blind reading
`elem` of components; a circuit without components has the placeholder reference node) -/
theorem C13_netOf_rename (elem : Component → Option (String × Elem K)) (ρ : String → String) (C : Circuit)
    (hC : C.components ≠ []) : netOf elem (renameCircuit ρ C) = (netOf elem C).rename ρ id := by
  unfold netOf Net.rename renameCircuit
  simp only [hC, if_false, Net.mk.injEq, and_true]
  generalize C.components = cs
  induction cs with
  | nil => rfl
  | cons c cs ih =>
    simp only [List.map_cons, List.filterMap_cons]
    have hshell : ({ renameComp ρ c with nodes := [] } : Component) = { c with nodes := [] } := rfl
    have hn : (renameComp ρ c).nodes = c.nodes.map ρ := rfl
    rw [hshell, hn]
    rcases hcn : c.nodes with _ | ⟨a, _ | ⟨b, _ | ⟨d, t⟩⟩⟩
    · simpa using ih
    · simpa using ih
    · cases he : elem { c with nodes := [] } with
      | none => simpa [he] using ih
      | some te => simp [ih, Branch.rename, renameComp]
    · simpa using ih

/-- the labels of the network of a circuit are node names of its components, or its reference node -/
theorem C13_netOf_labels (elem : Component → Option (String × Elem K)) (C : Circuit) :
    ∀ n ∈ (netOf elem C).allLabels, n = C.groundNode ∨ ∃ c ∈ C.components, n ∈ c.nodes := by
  intro n hn
  unfold Net.allLabels netOf at hn
  simp only [List.mem_cons, List.mem_append, List.mem_map, List.mem_filterMap] at hn
  rcases hn with rfl | ⟨b, ⟨c, hc, hb⟩, rfl⟩ | ⟨b, ⟨c, hc, hb⟩, rfl⟩
  · exact Or.inl rfl
  · right
    refine ⟨c, hc, ?_⟩
    rcases hcn : c.nodes with _ | ⟨a, _ | ⟨b', _ | ⟨d, t⟩⟩⟩ <;> rw [hcn] at hb <;> try (simp at hb)
    cases he : elem { c with nodes := [] } with
    | none => simp [he] at hb
    | some te => simp [he] at hb; rw [← hb]; simp
  · right
    refine ⟨c, hc, ?_⟩
    rcases hcn : c.nodes with _ | ⟨a, _ | ⟨b', _ | ⟨d, t⟩⟩⟩ <;> rw [hcn] at hb <;> try (simp at hb)
    cases he : elem { c with nodes := [] } with
    | none => simp [he] at hb
    | some te => simp [he] at hb; rw [← hb]; simp

/-- **Coordinate map ⇒ same solution.**  Under the hypotheses of `C13_moved`, if the original
drawing translates to a circuit `C` with at least one component, the moved drawing translates to
`renameCircuit ρ C`, and for every node-blind reading `elem` of components as electrical branch
records, over every field: a report solves the circuit equations (`CircuitEqs`: reference node
at 0, branch voltages, element laws, Kirchhoff's current law) of the moved drawing's network iff,
read through `ρ` (`Report.comap`), it solves those of the original's.  With `C01_unique` (a
well-posed network has exactly one solution) both drawings therefore have the same potentials at
corresponding nodes and the same voltage and current in every element. -/
theorem C13_moved_same_solution (π : Rat) (ord ord' : SetOrd Pt) (hord : ord.Valid) (hord' : ord'.Valid)
    (g : Pt → Pt) (syms syms' : List Sym) (hm : MappedBy g syms syms') (hinj : InjOnTerms g syms)
    (hwf : C13_DrawingWF syms) (C : Circuit) (hC : circuitTranslator π ord syms = .ok C)
    (hne : C.components ≠ []) :
    ∃ ρ : String → String, circuitTranslator π ord' syms' = .ok (renameCircuit ρ C) ∧
      ∀ (elem : Component → Option (String × Elem K)) (R' : Report String K),
        CircuitEqs (netOf elem (renameCircuit ρ C)) R' ↔ CircuitEqs (netOf elem C) (R'.comap ρ id) := by
  obtain ⟨ρ, lab, h1, h2, _, _, h5, _⟩ := C13_moved π ord ord' hord hord' g syms syms' hm hinj hwf
  refine ⟨ρ, by rw [h5, hC]; rfl, ?_⟩
  intro elem R'
  rw [C13_netOf_rename elem ρ C hne]
  obtain ⟨hn, hg⟩ := circuit_names_sub π hord syms hwf lab h1 hC
  have hsub : ∀ n ∈ (netOf elem C).allLabels, n ∈ (allNodes syms).map lab := by
    intro n hn'
    rcases C13_netOf_labels elem C n hn' with rfl | ⟨c, hc, hcn⟩
    · exact hg hne
    · exact hn c hc n hcn
  exact C13_circuitEqs_rename_on ρ id _ (fun a ha b hb => h2 a (hsub a ha) b (hsub b hb)) R'

/-- **Wire split ⇒ same solution** (as `C13_moved_same_solution`). -/
theorem C13_split_same_solution (π : Rat) (ord ord' : SetOrd Pt) (hord : ord.Valid) (hord' : ord'.Valid)
    (c : Pt) (pre post : List Sym) (l l₁ l₂ : Sym) (hs : SplitAt c pre post l l₁ l₂)
    (hfresh : c ∉ termPts (pre ++ l :: post)) (hwf : C13_DrawingWF (pre ++ l :: post))
    (C : Circuit) (hC : circuitTranslator π ord (pre ++ l :: post) = .ok C) (hne : C.components ≠ []) :
    ∃ ρ : String → String, circuitTranslator π ord' (pre ++ l₁ :: l₂ :: post) = .ok (renameCircuit ρ C) ∧
      ∀ (elem : Component → Option (String × Elem K)) (R' : Report String K),
        CircuitEqs (netOf elem (renameCircuit ρ C)) R' ↔ CircuitEqs (netOf elem C) (R'.comap ρ id) := by
  obtain ⟨ρ, lab, h1, h2, _, h5⟩ := C13_split π ord ord' hord hord' c pre post l l₁ l₂ hs hfresh hwf
  refine ⟨ρ, by rw [h5, hC]; rfl, ?_⟩
  intro elem R'
  rw [C13_netOf_rename elem ρ C hne]
  obtain ⟨hn, hg⟩ := circuit_names_sub π hord _ hwf lab h1 hC
  have hsub : ∀ n ∈ (netOf elem C).allLabels, n ∈ (allNodes (pre ++ l :: post)).map lab := by
    intro n hn'
    rcases C13_netOf_labels elem C n hn' with rfl | ⟨c, hc, hcn⟩
    · exact hg hne
    · exact hn c hc n hcn
  exact C13_circuitEqs_rename_on ρ id _ (fun a ha b hb => h2 a (hsub a ha) b (hsub b hb)) R'

/-- **Symbol order ⇒ same solution**, for drawings with a ground symbol: the permuted drawing
translates to some `C'`, and a report solves the network of `C'` iff, read through `ρ`, it
solves the network of `C` (`C03_perm` for the listing order, then the renaming). -/
theorem C13_perm_same_solution (π : Rat) (ord ord' : SetOrd Pt) (hord : ord.Valid) (hord' : ord'.Valid)
    (syms syms' : List Sym) (hp : syms.Perm syms') (hwf : C13_DrawingWF syms)
    (C : Circuit) (hC : circuitTranslator π ord syms = .ok C) (hgnd : ∃ k ∈ C.components, k.type = "ground") :
    ∃ (ρ : String → String) (C' : Circuit), circuitTranslator π ord' syms' = .ok C' ∧
      ∀ (elem : Component → Option (String × Elem K)) (R' : Report String K),
        CircuitEqs (netOf elem C') R' ↔ CircuitEqs (netOf elem C) (R'.comap ρ id) := by
  obtain ⟨ρ, lab, h1, h2, _, h⟩ := C13_perm π ord ord' hord hord' syms syms' hp hwf
  obtain ⟨C', hC', hperm, hg'⟩ := h C hC
  have hne : C.components ≠ [] := by
    obtain ⟨k, hk, _⟩ := hgnd
    intro h; rw [h] at hk; cases hk
  refine ⟨ρ, C', hC', ?_⟩
  intro elem R'
  have hz : (netOf elem C').zero = (netOf elem (renameCircuit ρ C)).zero := by
    show C'.groundNode = (renameCircuit ρ C).groundNode
    rw [hg' hgnd]
    show _ = if C.components = [] then C.groundNode else ρ C.groundNode
    rw [if_neg hne]
  have hb : (netOf elem C').branches.Perm (netOf elem (renameCircuit ρ C)).branches := by
    unfold netOf
    exact hperm.filterMap _
  rw [C03_perm _ _ hz hb R', C13_netOf_rename elem ρ C hne]
  obtain ⟨hn, hg⟩ := circuit_names_sub π hord syms hwf lab h1 hC
  have hsub : ∀ n ∈ (netOf elem C).allLabels, n ∈ (allNodes syms).map lab := by
    intro n hn'
    rcases C13_netOf_labels elem C n hn' with rfl | ⟨c, hc, hcn⟩
    · exact hg hne
    · exact hn c hc n hcn
  exact C13_circuitEqs_rename_on ρ id _ (fun a ha b hb => h2 a (hsub a ha) b (hsub b hb)) R'

end Solution

/-- non-vacuity of the "same solution" theorems: the example drawing translates to a circuit
with components and a ground component -/
example : ∃ C, circuitTranslator 3 ⟨id, id⟩ C13_exDrawing = .ok C ∧ C.components ≠ [] ∧
    ∃ k ∈ C.components, k.type = "ground" := by
  cases h : circuitTranslator 3 ⟨id, id⟩ C13_exDrawing with
  | error e =>
    have : (circuitTranslator 3 ⟨id, id⟩ C13_exDrawing).toOption.isSome = true := by decide +kernel
    rw [h] at this; cases this
  | ok C =>
    have h2 : (circuitTranslator 3 ⟨id, id⟩ C13_exDrawing).toOption.map
        (fun c => c.components.map (·.type)) = some ["dc_voltage_source", "resistor", "resistor", "ground"] := by
      decide +kernel
    rw [h] at h2
    have h3 : C.components.map (·.type) = ["dc_voltage_source", "resistor", "resistor", "ground"] := by
      simpa [Except.toOption] using h2
    refine ⟨C, rfl, ?_, ?_⟩
    · intro hc; rw [hc] at h3; cases h3
    · have : "ground" ∈ C.components.map (·.type) := by rw [h3]; simp
      obtain ⟨k, hk, hkt⟩ := List.mem_map.mp this
      exact ⟨k, hk, hkt⟩

end CC
