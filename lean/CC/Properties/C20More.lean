/-
  C20 (round 5) — the purity / repeatability statements made explicit per analysis, and tied
  to the generated effect summary group by group.

  Until now the history theorems of CC/Properties/C20.lean were generic over `Machine.Sound`
  and only the loader model was instantiated.  Here:

  * §1  three more corollaries for *every* sound machine (concatenated histories, permuted
        histories, two neighbouring calls exchanged);
  * §2  the generated table `CC.Gen.Effects` read by group of functions (file / function
        name): transformers, nodal analysis (MNA), nodal state-space model, multi-frequency
        solutions — every row of the group has an empty write set, the functions the machines
        below dispatch on are rows of the group, no row of the group occurs in the tables of
        module-level writes / unclassified callees / unknown decorators; the support table
        (`Network/network.py`, `elements.py`, `label_mapping.py`, …), which `C20_frame_rows`
        does not cover; the formatter, which the table does not contain at all;
  * §3–§7  the executable models CC/Model/{Transform, MNA, StateSpace, MultiFreq, Fmt}.lean
        run as machines over a pool of shared argument objects (`Sig.machine` of
        CC/Proofs/EffectsMore.lean): `Machine.Sound`, the history theorem, "equal
        descriptions ⇒ equal results", and — through §2 — the same conclusion for *any* sound
        machine whose operations carry these function names.

  What these theorems are and are not.  The model functions are Lean functions, so "the model
  does not write its arguments" holds by construction; the content of §3–§7 is the explicit
  dispatch  real qualified function name + real parameter names ↦ model function  and the
  resulting closed form of any history.  The fact about the *code* is in §2: it is evaluated
  (`decide +kernel`) on the table that harness/extract_load.py regenerates from the Python AST
  on every run.  What the table carries per function is the list of parameters (including
  `self`) through which the function may write a caller-visible object, plus the tables
  `globalWrites`, `unknownCalls`, `unknownDecorators`, `mutableDefaults`.  It carries *no*
  information about the returned value (the analysis computes the may-alias set of the result
  but does not emit it), so "returns a fresh object" is not provable from it — that part stays
  with the snapshot / identity oracle of harness/props/c20.py.
-/
import CC.Properties.C20
import CC.Proofs.EffectsMore
import CC.Model.Transform
import CC.Model.MNA
import CC.Model.StateSpace
import CC.Model.MultiFreq
import CC.Model.Fmt
set_option linter.unusedSectionVars false
namespace CC
open CC.Load CC.Gen.Effects

/-! ## §1  More corollaries for every sound machine -/

/-- A history cut in two: the outputs of `ops₁ ++ ops₂` are the outputs of `ops₁` followed by the
outputs `ops₂` would give *on the initial pool* — what ran before does not matter.
Hypothesis: every operation has an empty write set (for the functions in scope: `C20_frame_all`). -/
theorem C20_history_append {V O : Type} (M : Machine V O) (hs : M.Sound) (ops₁ ops₂ : List Op) (h : List V)
    (hp : ∀ op ∈ ops₁ ++ ops₂, op.writeCells = []) :
    (M.runAll (ops₁ ++ ops₂) h).1 = (M.runAll ops₁ h).1 ++ (M.runAll ops₂ h).1 := by
  have h12 := (C20_history M hs (ops₁ ++ ops₂) h hp).2
  have h1 := (C20_history M hs ops₁ h (fun op ho => hp op (List.mem_append_left _ ho))).2
  have h2 := (C20_history M hs ops₂ h (fun op ho => hp op (List.mem_append_right _ ho))).2
  rw [h12, h1, h2, List.map_append]

/-- The order of the calls is irrelevant: a permuted history leaves the same pool and gives
the same outputs, permuted the same way. -/
theorem C20_history_perm {V O : Type} (M : Machine V O) (hs : M.Sound) (ops ops' : List Op) (h : List V)
    (hperm : ops.Perm ops') (hp : ∀ op ∈ ops, op.writeCells = []) :
    (M.runAll ops' h).2 = (M.runAll ops h).2 ∧ ((M.runAll ops h).1).Perm ((M.runAll ops' h).1) := by
  have hp' : ∀ op ∈ ops', op.writeCells = [] := fun op ho => hp op (hperm.mem_iff.2 ho)
  have a := C20_history M hs ops h hp
  have b := C20_history M hs ops' h hp'
  rw [a.1, a.2, b.1, b.2]
  exact ⟨rfl, hperm.map _⟩

/-- Two neighbouring calls exchanged: their two outputs are exchanged, every other output is
the same. -/
theorem C20_history_swap {V O : Type} (M : Machine V O) (hs : M.Sound) (a b : Op) (pre post : List Op) (h : List V)
    (hp : ∀ op ∈ pre ++ a :: b :: post, op.writeCells = []) :
    ∃ xs oa ob ys, (M.runAll (pre ++ a :: b :: post) h).1 = xs ++ oa :: ob :: ys ∧
      (M.runAll (pre ++ b :: a :: post) h).1 = xs ++ ob :: oa :: ys ∧ xs.length = pre.length := by
  have hp' : ∀ op ∈ pre ++ b :: a :: post, op.writeCells = [] := by
    intro op ho; apply hp; simp at ho ⊢; rcases ho with ho | ho | ho | ho <;> simp [ho]
  refine ⟨pre.map fun op => (M.run op h).1, (M.run a h).1, (M.run b h).1, post.map fun op => (M.run op h).1, ?_, ?_, by simp⟩
  · rw [(C20_history M hs _ h hp).2]; simp
  · rw [(C20_history M hs _ h hp').2]; simp

/-- non-vacuity of the hypotheses of §1 (operations of the generated table, sharing cell 0) -/
example : ∀ op ∈ [({ fn := "Network.transformers.passive_network", args := [("network", 0), ("keep", 1)] } : Op)]
      ++ [{ fn := "Network.transformers.remove_open_circuit_elements", args := [("network", 0)] }],
    op.writeCells = [] := by
  intro op ho
  apply Op.writeCells_of_inFrame
  revert op
  decide +kernel

/-! ## §2  The generated summary, group by group -/

/-- the qualified names of Network/transformers.py -/
def isTransformerFn (f : String) : Bool := pfx "Network.transformers." f

/-- the transformers the machine of §3 dispatches on (every public function of the file) -/
def transformerFns : List String := [
  "Network.transformers.switch_ground_node", "Network.transformers.remove_element",
  "Network.transformers.remove_open_circuit_elements", "Network.transformers.remove_short_circuit_elements",
  "Network.transformers.short_circuitify_voltage_sources", "Network.transformers.open_circuitify_current_sources",
  "Network.transformers.remove_ideal_current_sources", "Network.transformers.remove_ideal_voltage_sources",
  "Network.transformers.passive_network"]

/-- (evaluated on the generated table) -/
theorem C20_effects_transformers_check : groupCheck isTransformerFn scopeRows transformerFns = true := by
  decide +kernel

/-- **Transformers.**  Every row of the generated summary whose name starts with
`Network.transformers.` — on the current tree the nine public functions of `transformerFns` and the
four nested helpers `zero_in_voltage`, `is_intended_voltage_source`, `zero_in_current`,
`is_intended_current_source` — has an EMPTY write set (neither `network` nor `keep` nor anything
reachable from them may be written), writes no module-level object, passes no aliased argument to
an unclassified callee, and carries no unknown decorator; and the nine functions are rows of the
table.  An edit that makes e.g. `remove_short_circuit_elements` rename nodes on the caller's branch
list (seeded change C20-B) or append to `keep` changes the generated row and breaks this theorem.
Not said: that the returned network shares nothing with the argument (the table has no such column). -/
theorem C20_effects_transformers_pure : GroupPure isTransformerFn scopeRows transformerFns :=
  groupCheck_spec C20_effects_transformers_check

/-- the qualified names of Network/NodalAnalysis/{solution, bias_point_analysis, node_analysis}.py -/
def isMnaFn (f : String) : Bool :=
  pfx "Network.NodalAnalysis." f && !pfx "Network.NodalAnalysis.state_space_model." f

/-- the functions the machine of §4 dispatches on (in table order) -/
def mnaFns : List String := [
  "Network.NodalAnalysis.solution.NodalAnalysisSolution.get_voltage",
  "Network.NodalAnalysis.solution.NodalAnalysisSolution.get_power",
  "Network.NodalAnalysis.bias_point_analysis.NodalAnalysisBiasPointSolution.get_potential",
  "Network.NodalAnalysis.bias_point_analysis.NodalAnalysisBiasPointSolution.get_current",
  "Network.NodalAnalysis.bias_point_analysis.nodal_analysis_bias_point_solver",
  "Network.NodalAnalysis.node_analysis.nodal_analysis_coefficient_matrix",
  "Network.NodalAnalysis.node_analysis.nodal_analysis_constants_vector"]

theorem C20_effects_mna_check : groupCheck isMnaFn scopeRows mnaFns = true := by
  decide +kernel

/-- **Nodal analysis.**  Every row of `Network.NodalAnalysis.solution.*`, `.bias_point_analysis.*`,
`.node_analysis.*` (33 rows on the current tree: matrix and right-hand-side builders with their
nested helpers, `open_circuit_impedance`, `element_impedance`, the solver, `__post_init__` and every
accessor of the solution classes): empty write set — in particular no accessor writes `self` —,
no module-level write, no unclassified callee, no unknown decorator; the seven functions of
`mnaFns` are among them. -/
theorem C20_effects_mna_pure : GroupPure isMnaFn scopeRows mnaFns :=
  groupCheck_spec C20_effects_mna_check

/-- the qualified names of Network/NodalAnalysis/state_space_model.py -/
def isStateFn (f : String) : Bool := pfx "Network.NodalAnalysis.state_space_model." f

/-- the functions the machine of §5 dispatches on (in table order) -/
def stateFns : List String := [
  "Network.NodalAnalysis.state_space_model.state_space_matrices",
  "Network.NodalAnalysis.state_space_model.NodalStateSpaceModel.c_row_for_potential",
  "Network.NodalAnalysis.state_space_model.NodalStateSpaceModel.c_row_voltage",
  "Network.NodalAnalysis.state_space_model.NodalStateSpaceModel.c_row_current",
  "Network.NodalAnalysis.state_space_model.NodalStateSpaceModel.d_row_for_potential",
  "Network.NodalAnalysis.state_space_model.NodalStateSpaceModel.d_row_voltage",
  "Network.NodalAnalysis.state_space_model.NodalStateSpaceModel.d_row_current",
  "Network.NodalAnalysis.state_space_model.NodalStateSpaceModel.sources",
  "Network.NodalAnalysis.state_space_model.nodal_state_space_model"]

theorem C20_effects_state_check : groupCheck isStateFn scopeRows stateFns = true := by
  decide +kernel

/-- **Nodal state-space model.**  Every row of `Network.NodalAnalysis.state_space_model.*` (14 rows:
`state_space_matrices` with its three nested builders, `nodal_state_space_model`, the row accessors
`_row_for_potential`, `c_/d_row_for_potential`, `c_/d_row_voltage`, `c_/d_row_current`, `_one_vector`,
`sources`): empty write set — no row accessor writes `self` (seeded changes C10-2A / C20-2A, `c_row -= …`
on a view of `self.C`, make the row `["self"]`), the builders write neither `network` nor `c_values`
nor `l_values` —, no module-level write, no unclassified callee, no unknown decorator. -/
theorem C20_effects_state_pure : GroupPure isStateFn scopeRows stateFns :=
  groupCheck_spec C20_effects_state_check

/-- the qualified names of the multi-frequency code: `frequency_components` (Circuit/circuit.py) with its
nested function, `TimeDomainSolution.*` and `FrequencyDomainSolution.*` (Circuit/solution.py) -/
def isMultiFreqFn (f : String) : Bool :=
  pfx "Circuit.solution.TimeDomainSolution." f || pfx "Circuit.solution.FrequencyDomainSolution." f
    || pfx "Circuit.circuit.frequency_components" f

/-- the functions the machine of §6 dispatches on (in table order) -/
def multiFreqFns : List String := [
  "Circuit.solution.TimeDomainSolution.get_voltage", "Circuit.solution.TimeDomainSolution.get_current",
  "Circuit.solution.TimeDomainSolution.get_potential", "Circuit.solution.FrequencyDomainSolution._series",
  "Circuit.circuit.frequency_components"]

theorem C20_effects_multifreq_check : groupCheck isMultiFreqFn scopeRows multiFreqFns = true := by
  decide +kernel

/-- **Multi-frequency solutions.**  `frequency_components`, its nested `frequencies`, and every method
of `TimeDomainSolution` / `FrequencyDomainSolution` (`__post_init__`, `_series`, `get_voltage`,
`get_current`, `get_potential`, `get_power`; 13 rows): empty write set (no getter writes `self`, the
constructors do not write `circuit`), no module-level write, no unclassified callee, no unknown
decorator.  Not covered by the table: a generator stored in `self` that a getter *consumes*
(seeded change C20-3B) is not a write in the sense of the analysis — that one is caught by the
object-level oracle only. -/
theorem C20_effects_multifreq_pure : GroupPure isMultiFreqFn scopeRows multiFreqFns :=
  groupCheck_spec C20_effects_multifreq_check

/-- **Support table.**  `C20_frame_rows` is about the rows of the anchor files only.  The rows of the
modules they call into (`Network/network.py`, `Network/elements.py`, `label_mapping.py`,
`Network/solution.py`, `Circuit/components.py`, `Circuit/transformers.py`, `SignalProcessing/*`) with a
NON-empty write set are exactly these three: `phi *= np.pi/180` / `X *= np.sqrt(2)` on a parameter, which
the conservative analysis classes as a possible in-place write (it is one if the caller passes a numpy
array).  They are value helpers of the element / component constructors; none of the predicates,
`Network.*` methods and index mappers that CC/Model/Net.lean mirrors is among them. -/
theorem C20_effects_support_rows :
    (supportRows.filter fun r => !r.2.isEmpty) =
      [("Network.elements.impedance_value", ["phi"]), ("Network.elements.admittance_value", ["phi"]),
       ("Network.elements.complex_value", ["X"])] := by
  decide +kernel

/-- …so every other support row has an empty write set. -/
theorem C20_effects_support_pure : ∀ r ∈ supportRows,
    r.1 ∉ ["Network.elements.impedance_value", "Network.elements.admittance_value", "Network.elements.complex_value"] →
    r.2 = [] := by
  intro r hr hn
  by_cases he : r.2 = []
  · exact he
  · have hm : r ∈ supportRows.filter fun r => !r.2.isEmpty :=
      List.mem_filter.2 ⟨hr, by simpa using he⟩
    rw [C20_effects_support_rows] at hm
    simp only [List.mem_cons, List.not_mem_nil, or_false] at hm hn
    rcases hm with rfl | rfl | rfl <;> simp at hn

/-- the qualified names the formatter (`Utils.py`, `SimpleCircuit/Display.py`) would have -/
def isFmtFn (f : String) : Bool := pfx "Utils." f || pfx "SimpleCircuit." f

theorem C20_effects_fmt_absent_scope : (scopeRows.all fun r => !isFmtFn r.1) = true := by
  decide +kernel
theorem C20_effects_fmt_absent_support : (supportRows.all fun r => !isFmtFn r.1) = true := by
  decide +kernel

/-- **Formatter: not in the summary.**  The generated table has no row for `Utils.py` or
`SimpleCircuit/Display.py` (they are not among the files the effect analysis is run on), so for every
formatter function the summary is silent (`writeRoots = none`, which `Op.writeCells` reads as "may write
every argument").  Consequently nothing about the formatter's *code* is proved in this file; §7 is about
the formatter *model* only.  (If the files are added to the analysis this theorem breaks — the moment to
add `C20_effects_fmt_pure`.) -/
theorem C20_effects_fmt_absent (fn : String) (hf : isFmtFn fn = true) : writeRoots fn = none := by
  apply writeRoots_none_of_absent isFmtFn _ fn hf
  unfold effects
  rw [List.all_append, C20_effects_fmt_absent_scope, C20_effects_fmt_absent_support]; rfl

/-- From a group statement to histories: under EVERY semantics that respects the generated summary, any
finite history of calls of the listed functions over any pool of shared objects leaves the pool as it was,
and each result is the result of the isolated call. -/
theorem C20_group_history {sel : String → Bool} {names : List String} (hg : GroupPure sel scopeRows names)
    {V O : Type} (M : Machine V O) (hs : M.Sound) (ops : List Op) (h : List V)
    (hp : ∀ op ∈ ops, op.fn ∈ names) :
    (M.runAll ops h).2 = h ∧ (M.runAll ops h).1 = ops.map (fun op => (M.run op h).1) :=
  C20_pure_history M hs ops h fun op ho =>
    ⟨List.mem_map.2 ⟨_, (hg.listed _ (hp op ho)).2, rfl⟩, by simp [frameExceptions]⟩

/-- any history of transformer calls, any sound machine -/
theorem C20_transformers_any_machine {V O : Type} (M : Machine V O) (hs : M.Sound) (ops : List Op) (h : List V)
    (hp : ∀ op ∈ ops, op.fn ∈ transformerFns) :
    (M.runAll ops h).2 = h ∧ (M.runAll ops h).1 = ops.map (fun op => (M.run op h).1) :=
  C20_group_history C20_effects_transformers_pure M hs ops h hp

/-- any history of nodal-analysis calls, any sound machine -/
theorem C20_mna_any_machine {V O : Type} (M : Machine V O) (hs : M.Sound) (ops : List Op) (h : List V)
    (hp : ∀ op ∈ ops, op.fn ∈ mnaFns) :
    (M.runAll ops h).2 = h ∧ (M.runAll ops h).1 = ops.map (fun op => (M.run op h).1) :=
  C20_group_history C20_effects_mna_pure M hs ops h hp

/-- any history of state-space-model calls, any sound machine -/
theorem C20_state_any_machine {V O : Type} (M : Machine V O) (hs : M.Sound) (ops : List Op) (h : List V)
    (hp : ∀ op ∈ ops, op.fn ∈ stateFns) :
    (M.runAll ops h).2 = h ∧ (M.runAll ops h).1 = ops.map (fun op => (M.run op h).1) :=
  C20_group_history C20_effects_state_pure M hs ops h hp

/-- any history of multi-frequency calls, any sound machine -/
theorem C20_multifreq_any_machine {V O : Type} (M : Machine V O) (hs : M.Sound) (ops : List Op) (h : List V)
    (hp : ∀ op ∈ ops, op.fn ∈ multiFreqFns) :
    (M.runAll ops h).2 = h ∧ (M.runAll ops h).1 = ops.map (fun op => (M.run op h).1) :=
  C20_group_history C20_effects_multifreq_pure M hs ops h hp

/-! ## §3  The transformer model as a machine -/

section
variable {L K : Type} [DecidableEq L] [LabelOrd L]
variable [Zero K] [One K] [Add K] [Mul K] [Neg K] [Sub K] [Inv K] [Div K] [DecidableEq K]

/-- the objects of a pool of network-level arguments -/
inductive NVal (L K : Type) where
  | net (N : Net L K)
  /-- an exemption list (`keep`) -/
  | keep (k : List (ElemKey K))
  | label (l : L)
  | id (s : String)
  /-- a solution object: the network it was built from and the solution vector it stores -/
  | sol (N : Net L K) (x : List K)

/-- the real parameter names (Network/transformers.py:4-62) -/
def transformParams : List (String × List String) := [
  ("Network.transformers.switch_ground_node", ["network", "new_ground"]),
  ("Network.transformers.remove_element", ["network", "element"]),
  ("Network.transformers.remove_open_circuit_elements", ["network"]),
  ("Network.transformers.remove_short_circuit_elements", ["network", "keep"]),
  ("Network.transformers.short_circuitify_voltage_sources", ["network", "keep"]),
  ("Network.transformers.open_circuitify_current_sources", ["network", "keep"]),
  ("Network.transformers.remove_ideal_current_sources", ["network", "keep"]),
  ("Network.transformers.remove_ideal_voltage_sources", ["network", "keep"]),
  ("Network.transformers.passive_network", ["network", "keep"])]

/-- function name ↦ model function of CC/Model/Transform.lean (`keep` must be bound: the shared
default `keep=[]` is the subject of `C20_defaults`) -/
def transformSem (fn : String) (_flag : Bool) (vs : List (NVal L K)) : Option (Except Err (Net L K)) :=
  match vs with
  | [.net N, .label g] => if fn = "Network.transformers.switch_ground_node" then some (switchGround N g) else none
  | [.net N, .id s] => if fn = "Network.transformers.remove_element" then some (removeElement N s) else none
  | [.net N] => if fn = "Network.transformers.remove_open_circuit_elements" then some (removeOpen N) else none
  | [.net N, .keep k] =>
    if fn = "Network.transformers.remove_short_circuit_elements" then some (removeShort N k)
    else if fn = "Network.transformers.short_circuitify_voltage_sources" then some (shortCircuitifyVS N k)
    else if fn = "Network.transformers.open_circuitify_current_sources" then some (openCircuitifyCS N k)
    else if fn = "Network.transformers.remove_ideal_current_sources" then some (removeIdealCS N k)
    else if fn = "Network.transformers.remove_ideal_voltage_sources" then some (removeIdealVS N k)
    else if fn = "Network.transformers.passive_network" then some (passiveNetwork N k)
    else none
  | _ => none

def transformSig : Sig (NVal L K) (Option (Except Err (Net L K))) :=
  { params := transformParams, sem := transformSem, bad := none }

/-- the transformer model run over a pool of shared networks / exemption lists -/
def transformMachine : Machine (NVal L K) (Option (Except Err (Net L K))) :=
  (transformSig (L := L) (K := K)).machine

/-- The transformer machine respects the effect summary (by construction: see the header). -/
theorem C20_transformers_sound : (transformMachine (L := L) (K := K)).Sound := Sig.machine_sound _

/-- **Transformers, any history.**  After any finite sequence of transformer calls on shared networks
and shared exemption lists the pool is what it was (the input network and `keep` are returned
unchanged), and the k-th result is the model transformer applied to the objects the k-th call's
parameters name in the INITIAL pool — it does not depend on what ran before or on how often. -/
theorem C20_transformers_histories (ops : List Op) (h : List (NVal L K)) :
    (transformMachine.runAll ops h).2 = h ∧
    (transformMachine.runAll ops h).1 = ops.map fun op => (transformSig (L := L) (K := K)).eval op h := by
  unfold transformMachine; rw [Sig.runAll_eq]; exact ⟨rfl, rfl⟩

/-- the closed form of one call (here `remove_short_circuit_elements`; the other eight are alike):
the machine's answer IS `removeShort` on the bound network and exemption list -/
theorem C20_transformers_call_removeShort (op : Op) (h : List (NVal L K)) (N : Net L K) (k : List (ElemKey K))
    (hf : op.fn = "Network.transformers.remove_short_circuit_elements")
    (hn : op.arg? "network" h = some (.net N)) (hk : op.arg? "keep" h = some (.keep k)) :
    (transformSig (L := L) (K := K)).eval op h = some (removeShort N k) := by
  simp [Sig.eval, Sig.paramsOf, transformSig, transformParams, hf, Op.argVals, hn, hk, transformSem]

theorem C20_transformers_call_passive (op : Op) (h : List (NVal L K)) (N : Net L K) (k : List (ElemKey K))
    (hf : op.fn = "Network.transformers.passive_network")
    (hn : op.arg? "network" h = some (.net N)) (hk : op.arg? "keep" h = some (.keep k)) :
    (transformSig (L := L) (K := K)).eval op h = some (passiveNetwork N k) := by
  simp [Sig.eval, Sig.paramsOf, transformSig, transformParams, hf, Op.argVals, hn, hk, transformSem]

/-- **Equal descriptions, equal networks.**  Two transformer calls (same function) whose parameters are
bound to equal values — different cells, different pools, different moments of different histories —
return the same result. -/
theorem C20_transformers_same_description (op op' : Op) (h h' : List (NVal L K))
    (hf : op.fn = op'.fn) (ha : ∀ p, op.arg? p h = op'.arg? p h') :
    (transformSig (L := L) (K := K)).eval op h = (transformSig (L := L) (K := K)).eval op' h' := by
  unfold Sig.eval
  rw [← hf]
  cases (transformSig (L := L) (K := K)).paramsOf op.fn with
  | none => rfl
  | some ps => simp only [Op.argVals_congr op op' h h' ha ps]; rfl

/-! ## §4  The nodal-analysis model as a machine -/

inductive MOut (K : Type) where
  | mat (A : List (List K))
  | vec (b : List K)
  | asm (r : Except Err (List (List K) × List K))
  | scal (r : Except Err K)
  | badOp

/-- the real parameter names (node_analysis.py:47,74; bias_point_analysis.py:29,34,57; solution.py:34,39) -/
def mnaParams : List (String × List String) := [
  ("Network.NodalAnalysis.node_analysis.nodal_analysis_coefficient_matrix", ["network"]),
  ("Network.NodalAnalysis.node_analysis.nodal_analysis_constants_vector", ["network"]),
  ("Network.NodalAnalysis.bias_point_analysis.nodal_analysis_bias_point_solver", ["network"]),
  ("Network.NodalAnalysis.bias_point_analysis.NodalAnalysisBiasPointSolution.get_potential", ["self", "node_id"]),
  ("Network.NodalAnalysis.bias_point_analysis.NodalAnalysisBiasPointSolution.get_current", ["self", "branch_id"]),
  ("Network.NodalAnalysis.solution.NodalAnalysisSolution.get_voltage", ["self", "branch_id"]),
  ("Network.NodalAnalysis.solution.NodalAnalysisSolution.get_power", ["self", "branch_id"])]

/-- function name ↦ model function of CC/Model/MNA.lean.  The solver's answer is `Net.assemble`
(everything `__post_init__` does before `numpy.linalg.solve`); a solution object is the pair
(network, stored solution vector); `conj` is complex conjugation of the number type. -/
def mnaSem (conj : K → K) (fn : String) (_flag : Bool) (vs : List (NVal L K)) : MOut K :=
  match vs with
  | [.net N] =>
    if fn = "Network.NodalAnalysis.node_analysis.nodal_analysis_coefficient_matrix" then .mat N.mnaA
    else if fn = "Network.NodalAnalysis.node_analysis.nodal_analysis_constants_vector" then .vec N.mnaB
    else if fn = "Network.NodalAnalysis.bias_point_analysis.nodal_analysis_bias_point_solver" then .asm N.assemble
    else .badOp
  | [.sol N x, .label n] =>
    if fn = "Network.NodalAnalysis.bias_point_analysis.NodalAnalysisBiasPointSolution.get_potential" then .scal (N.potential x n)
    else .badOp
  | [.sol N x, .id s] =>
    if fn = "Network.NodalAnalysis.bias_point_analysis.NodalAnalysisBiasPointSolution.get_current" then .scal (N.current x s)
    else if fn = "Network.NodalAnalysis.solution.NodalAnalysisSolution.get_voltage" then .scal (N.voltage x s)
    else if fn = "Network.NodalAnalysis.solution.NodalAnalysisSolution.get_power" then .scal (N.power conj x s)
    else .badOp
  | _ => .badOp

def mnaSig (conj : K → K) : Sig (NVal L K) (MOut K) :=
  { params := mnaParams, sem := mnaSem conj, bad := .badOp }

/-- the MNA builders and the solution accessors run over a pool of shared networks and solution objects -/
def mnaMachine (conj : K → K) : Machine (NVal L K) (MOut K) := (mnaSig (L := L) conj).machine

theorem C20_mna_sound (conj : K → K) : (mnaMachine (L := L) conj).Sound := Sig.machine_sound _

/-- **Nodal analysis, any history.**  Matrix, right-hand side, assembly and the four accessors, called
in any order and any number of times on shared networks / solution objects: the pool (network and stored
solution vector included) is unchanged and each answer is the model function on the initial objects —
an accessor's answer does not depend on which accessors were asked before. -/
theorem C20_mna_histories (conj : K → K) (ops : List Op) (h : List (NVal L K)) :
    ((mnaMachine conj).runAll ops h).2 = h ∧
    ((mnaMachine conj).runAll ops h).1 = ops.map fun op => (mnaSig (L := L) conj).eval op h := by
  unfold mnaMachine; rw [Sig.runAll_eq]; exact ⟨rfl, rfl⟩

/-- closed form of one accessor call: `get_voltage` on a solution object is `Net.voltage` of the
network and vector the object was built from -/
theorem C20_mna_call_voltage (conj : K → K) (op : Op) (h : List (NVal L K)) (N : Net L K) (x : List K) (s : String)
    (hf : op.fn = "Network.NodalAnalysis.solution.NodalAnalysisSolution.get_voltage")
    (hn : op.arg? "self" h = some (.sol N x)) (hk : op.arg? "branch_id" h = some (.id s)) :
    (mnaSig (L := L) conj).eval op h = .scal (N.voltage x s) := by
  simp [Sig.eval, Sig.paramsOf, mnaSig, mnaParams, hf, Op.argVals, hn, hk, mnaSem]

/-- two solution objects built from equal (network, vector) answer every query alike -/
theorem C20_mna_same_description (conj : K → K) (op op' : Op) (h h' : List (NVal L K))
    (hf : op.fn = op'.fn) (ha : ∀ p, op.arg? p h = op'.arg? p h') :
    (mnaSig (L := L) conj).eval op h = (mnaSig (L := L) conj).eval op' h' := by
  unfold Sig.eval
  rw [← hf]
  cases (mnaSig (L := L) conj).paramsOf op.fn with
  | none => rfl
  | some ps => simp only [Op.argVals_congr op op' h h' ha ps]; rfl

/-! ## §5  The nodal state-space model as a machine -/

inductive SVal (L K : Type) where
  | net (N : Net L K)
  /-- a value dictionary (`c_values`, `l_values`) -/
  | dict (d : ValDict K)
  /-- a `NodalStateSpaceModel` object -/
  | model (m : NSSM L K)
  | label (l : L)
  | id (s : String)

inductive SOut (L K : Type) where
  | mats (r : Except Err (SSMats K))
  | model (r : Except Err (NSSM L K))
  | row (r : Except Err (List K))
  | names (l : List String)
  | badOp

/-- the real parameter names (state_space_model.py:10,67-132) -/
def stateParams : List (String × List String) := [
  ("Network.NodalAnalysis.state_space_model.state_space_matrices", ["network", "c_values", "l_values"]),
  ("Network.NodalAnalysis.state_space_model.nodal_state_space_model", ["network", "c_values", "l_values"]),
  ("Network.NodalAnalysis.state_space_model.NodalStateSpaceModel.c_row_for_potential", ["self", "node_id"]),
  ("Network.NodalAnalysis.state_space_model.NodalStateSpaceModel.d_row_for_potential", ["self", "node_id"]),
  ("Network.NodalAnalysis.state_space_model.NodalStateSpaceModel.c_row_voltage", ["self", "branch_id"]),
  ("Network.NodalAnalysis.state_space_model.NodalStateSpaceModel.c_row_current", ["self", "branch_id"]),
  ("Network.NodalAnalysis.state_space_model.NodalStateSpaceModel.d_row_voltage", ["self", "branch_id"]),
  ("Network.NodalAnalysis.state_space_model.NodalStateSpaceModel.d_row_current", ["self", "branch_id"]),
  ("Network.NodalAnalysis.state_space_model.NodalStateSpaceModel.sources", ["self"])]

/-- function name ↦ model function of CC/Model/StateSpace.lean.  `inv` stands for the two
`numpy.linalg.inv` calls (the certificates `Ainv`, `S` of the model) as a function of the description —
assumed to be one (a deterministic library routine; interpreter-level state is outside the model). -/
def stateSem (inv : Net L K → ValDict K → ValDict K → List (List K) × List (List K))
    (fn : String) (_flag : Bool) (vs : List (SVal L K)) : SOut L K :=
  match vs with
  | [.net N, .dict c, .dict l] =>
    if fn = "Network.NodalAnalysis.state_space_model.state_space_matrices" then
      .mats (stateSpaceMatrices N c l (inv N c l).1 (inv N c l).2)
    else if fn = "Network.NodalAnalysis.state_space_model.nodal_state_space_model" then
      .model (nodalStateSpaceModel N c l (inv N c l).1 (inv N c l).2)
    else .badOp
  | [.model m, .label n] =>
    if fn = "Network.NodalAnalysis.state_space_model.NodalStateSpaceModel.c_row_for_potential" then .row (m.cRowPotential n)
    else if fn = "Network.NodalAnalysis.state_space_model.NodalStateSpaceModel.d_row_for_potential" then .row (m.dRowPotential n)
    else .badOp
  | [.model m, .id s] =>
    if fn = "Network.NodalAnalysis.state_space_model.NodalStateSpaceModel.c_row_voltage" then .row (m.cRowVoltage s)
    else if fn = "Network.NodalAnalysis.state_space_model.NodalStateSpaceModel.c_row_current" then .row (m.cRowCurrent s)
    else if fn = "Network.NodalAnalysis.state_space_model.NodalStateSpaceModel.d_row_voltage" then .row (m.dRowVoltage s)
    else if fn = "Network.NodalAnalysis.state_space_model.NodalStateSpaceModel.d_row_current" then .row (m.dRowCurrent s)
    else .badOp
  | [.model m] =>
    if fn = "Network.NodalAnalysis.state_space_model.NodalStateSpaceModel.sources" then .names m.sources else .badOp
  | _ => .badOp

def stateSig (inv : Net L K → ValDict K → ValDict K → List (List K) × List (List K)) : Sig (SVal L K) (SOut L K) :=
  { params := stateParams, sem := stateSem inv, bad := .badOp }

/-- the state-space builders and the row accessors over a pool of shared networks, value dictionaries and
model objects -/
def stateMachine (inv : Net L K → ValDict K → ValDict K → List (List K) × List (List K)) :
    Machine (SVal L K) (SOut L K) := (stateSig inv).machine

theorem C20_state_sound (inv : Net L K → ValDict K → ValDict K → List (List K) × List (List K)) :
    (stateMachine inv).Sound := Sig.machine_sound _

/-- **State-space model, any history.**  Builders and row accessors in any order, any number of times,
on shared networks / value dictionaries / model objects: the pool — the network, `c_values`, `l_values`,
and the matrices A, B, C, D a model object stores — is unchanged, and every row is the model row of the
initial object (asking `c_row_voltage` before or after `c_row_for_potential` makes no difference). -/
theorem C20_state_histories (inv : Net L K → ValDict K → ValDict K → List (List K) × List (List K))
    (ops : List Op) (h : List (SVal L K)) :
    ((stateMachine inv).runAll ops h).2 = h ∧
    ((stateMachine inv).runAll ops h).1 = ops.map fun op => (stateSig inv).eval op h := by
  unfold stateMachine; rw [Sig.runAll_eq]; exact ⟨rfl, rfl⟩

/-- closed form of one row query -/
theorem C20_state_call_cRowVoltage (inv : Net L K → ValDict K → ValDict K → List (List K) × List (List K))
    (op : Op) (h : List (SVal L K)) (m : NSSM L K) (s : String)
    (hf : op.fn = "Network.NodalAnalysis.state_space_model.NodalStateSpaceModel.c_row_voltage")
    (hn : op.arg? "self" h = some (.model m)) (hk : op.arg? "branch_id" h = some (.id s)) :
    (stateSig inv).eval op h = .row (m.cRowVoltage s) := by
  simp [Sig.eval, Sig.paramsOf, stateSig, stateParams, hf, Op.argVals, hn, hk, stateSem]

/-- two models built from equal descriptions are equal, and answer every row query alike -/
theorem C20_state_same_description (inv : Net L K → ValDict K → ValDict K → List (List K) × List (List K))
    (op op' : Op) (h h' : List (SVal L K)) (hf : op.fn = op'.fn) (ha : ∀ p, op.arg? p h = op'.arg? p h') :
    (stateSig inv).eval op h = (stateSig inv).eval op' h' := by
  unfold Sig.eval
  rw [← hf]
  cases (stateSig inv).paramsOf op.fn with
  | none => rfl
  | some ps => simp only [Op.argVals_congr op op' h h' ha ps]; rfl

/-- **The model object keeps its description.**  A successfully built `NodalStateSpaceModel` stores the
network and the two value dictionaries it was given, unchanged, and its matrices are those of
`state_space_matrices` on that description; every row accessor is a function of these four fields. -/
theorem C20_state_builder_keeps_description (N : Net L K) (c l : ValDict K) (Ainv S : List (List K))
    (m : NSSM L K) (hm : nodalStateSpaceModel N c l Ainv S = .ok m) :
    m.net = N ∧ m.cvals = c ∧ m.lvals = l ∧ stateSpaceMatrices N c l Ainv S = .ok m.mats := by
  unfold nodalStateSpaceModel at hm
  cases hs : stateSpaceMatrices N c l Ainv S with
  | error e => rw [hs] at hm; cases hm
  | ok mats =>
    rw [hs] at hm
    have : (⟨mats, N, c, l⟩ : NSSM L K) = m := by
      simpa [bind, Except.bind, pure, Except.pure] using hm
    subst this
    exact ⟨rfl, rfl, rfl, rfl⟩

end

/-! ## §6  The multi-frequency model as a machine -/

inductive FVal where
  /-- what `frequency_components` reads of the circuit -/
  | comps (cs : List FComp)
  | rat (q : Rat)
  /-- the frequency list a solution object stores (`self.w`) -/
  | freqs (ws : List Rat)
  | phasors (X : List GQ)
  /-- a `TimeDomainSolution` at one instant, for one queried quantity: per listed frequency the phasor
  and `cos(w t)`, `sin(w t)` -/
  | lines (l : List (GQ × Rat × Rat))

inductive FOut where
  | freqs (r : Except Err (List Rat))
  | series (s : List Rat × List GQ)
  | value (v : Rat)
  | badOp

/-- the real parameter names (circuit.py:45, solution.py:96-113,133); for the time-domain getters `self`
is bound to the `lines` the object holds for the queried quantity -/
def multiFreqParams : List (String × List String) := [
  ("Circuit.circuit.frequency_components", ["circuit", "w_max", "w_resolution"]),
  ("Circuit.solution.FrequencyDomainSolution._series", ["self", "values"]),
  ("Circuit.solution.TimeDomainSolution.get_voltage", ["self"]),
  ("Circuit.solution.TimeDomainSolution.get_current", ["self"]),
  ("Circuit.solution.TimeDomainSolution.get_potential", ["self"])]

/-- function name ↦ model function of CC/Model/MultiFreq.lean; `flag` is `self.one_sided` -/
def multiFreqSem (fn : String) (flag : Bool) (vs : List FVal) : FOut :=
  match vs with
  | [.comps cs, .rat wmax, .rat wres] =>
    if fn = "Circuit.circuit.frequency_components" then .freqs (frequencyComponents cs wmax wres) else .badOp
  | [.freqs ws, .phasors X] =>
    if fn = "Circuit.solution.FrequencyDomainSolution._series" then .series (series flag ws X) else .badOp
  | [.lines l] =>
    if fn = "Circuit.solution.TimeDomainSolution.get_voltage" ∨ fn = "Circuit.solution.TimeDomainSolution.get_current"
        ∨ fn = "Circuit.solution.TimeDomainSolution.get_potential" then .value (timeValue l) else .badOp
  | _ => .badOp

def multiFreqSig : Sig FVal FOut := { params := multiFreqParams, sem := multiFreqSem, bad := .badOp }
def multiFreqMachine : Machine FVal FOut := multiFreqSig.machine

theorem C20_multifreq_sound : multiFreqMachine.Sound := Sig.machine_sound _

/-- **Multi-frequency bookkeeping, any history.**  The frequency list, the (mirrored) spectrum and the
sum of lines, asked in any order and any number of times on shared objects: the pool (the component list,
the stored frequency list, the phasors) is unchanged and each answer is the model function on the initial
objects — a second `_series` on the same object gives the first answer again. -/
theorem C20_multifreq_histories (ops : List Op) (h : List FVal) :
    (multiFreqMachine.runAll ops h).2 = h ∧
    (multiFreqMachine.runAll ops h).1 = ops.map fun op => multiFreqSig.eval op h := by
  unfold multiFreqMachine; rw [Sig.runAll_eq]; exact ⟨rfl, rfl⟩

theorem C20_multifreq_call_series (op : Op) (h : List FVal) (ws : List Rat) (X : List GQ)
    (hf : op.fn = "Circuit.solution.FrequencyDomainSolution._series")
    (hn : op.arg? "self" h = some (.freqs ws)) (hk : op.arg? "values" h = some (.phasors X)) :
    multiFreqSig.eval op h = .series (series op.flag ws X) := by
  simp [Sig.eval, Sig.paramsOf, multiFreqSig, multiFreqParams, hf, Op.argVals, hn, hk, multiFreqSem]

theorem C20_multifreq_same_description (op op' : Op) (h h' : List FVal)
    (hf : op.fn = op'.fn) (hfl : op.flag = op'.flag) (ha : ∀ p, op.arg? p h = op'.arg? p h') :
    multiFreqSig.eval op h = multiFreqSig.eval op' h' :=
  Sig.eval_congr _ op op' h h' hf hfl ha

/-! ## §7  The formatter model as a machine -/

inductive PVal where
  | rat (q : Rat)
  | nat (n : Nat)
  | chars (u : List Char)
  | bool (b : Bool)
  /-- a complex argument with the libm values the model takes as parameters: `abs`, `angle` -/
  | cx (re im absV angle : Rat)
  /-- a `ScientificFloat` object: its configuration and its value -/
  | sf (c : Fmt.SFCfg) (v : Rat)

/-- the real parameter names (SimpleCircuit/Display.py:9-65, Utils.py:107) -/
def fmtParams : List (String × List String) := [
  ("SimpleCircuit.Display.print_real", ["value", "unit", "precision"]),
  ("SimpleCircuit.Display.print_abs", ["value", "unit", "precision"]),
  ("SimpleCircuit.Display.print_complex", ["value", "unit", "precision", "polar", "deg"]),
  ("SimpleCircuit.Display.print_active_power", ["value", "precision"]),
  ("SimpleCircuit.Display.print_active_reactive_power", ["value", "precision"]),
  ("Utils.ScientificFloat.__str__", ["self"])]

/-- function name ↦ model function of CC/Model/Fmt.lean -/
def fmtSem (fn : String) (_flag : Bool) (vs : List PVal) : Option (List Char) :=
  match vs with
  | [.rat v, .chars u, .nat p] =>
    if fn = "SimpleCircuit.Display.print_real" then some (Fmt.printReal v u p)
    else if fn = "SimpleCircuit.Display.print_abs" then some (Fmt.printAbs v u p)
    else none
  | [.cx re im a ang, .chars u, .nat p, .bool polar, .bool deg] =>
    if fn = "SimpleCircuit.Display.print_complex" then some (Fmt.printComplex re im a ang u p polar deg) else none
  | [.rat v, .nat p] =>
    if fn = "SimpleCircuit.Display.print_active_power" then some (Fmt.printActivePower v p) else none
  | [.cx re im _ _, .nat p] =>
    if fn = "SimpleCircuit.Display.print_active_reactive_power" then some (Fmt.printActiveReactivePower re im p) else none
  | [.sf c v] => if fn = "Utils.ScientificFloat.__str__" then some (c.str v) else none
  | _ => none

def fmtSig : Sig PVal (Option (List Char)) := { params := fmtParams, sem := fmtSem, bad := none }
def fmtMachine : Machine PVal (Option (List Char)) := fmtSig.machine

theorem C20_fmt_sound : fmtMachine.Sound := Sig.machine_sound _

/-- **Formatter model, any history.**  Any sequence of formatting calls on shared values / shared
`ScientificFloat` objects: the pool is unchanged and each string is the model string of the initial
objects (formatting a value twice, or after other values, prints the same text).  This is about the
MODEL: the formatter's code is not in the generated effect summary (`C20_effects_fmt_absent`), so — unlike
§3–§6 — there is no `…_any_machine` counterpart; for the code, repeatability of the printed text is
observed by the C18 / C14 correspondence runs only. -/
theorem C20_fmt_histories (ops : List Op) (h : List PVal) :
    (fmtMachine.runAll ops h).2 = h ∧
    (fmtMachine.runAll ops h).1 = ops.map fun op => fmtSig.eval op h := by
  unfold fmtMachine; rw [Sig.runAll_eq]; exact ⟨rfl, rfl⟩

theorem C20_fmt_call_str (op : Op) (h : List PVal) (c : Fmt.SFCfg) (v : Rat)
    (hf : op.fn = "Utils.ScientificFloat.__str__") (hn : op.arg? "self" h = some (.sf c v)) :
    fmtSig.eval op h = some (c.str v) := by
  simp [Sig.eval, Sig.paramsOf, fmtSig, fmtParams, hf, Op.argVals, hn, fmtSem]

theorem C20_fmt_same_description (op op' : Op) (h h' : List PVal)
    (hf : op.fn = op'.fn) (ha : ∀ p, op.arg? p h = op'.arg? p h') :
    fmtSig.eval op h = fmtSig.eval op' h' := by
  unfold Sig.eval
  rw [← hf]
  cases fmtSig.paramsOf op.fn with
  | none => rfl
  | some ps => simp only [Op.argVals_congr op op' h h' ha ps]; rfl

/-- every formatter operation is outside the summary: the generic `Machine.Sound` theorems give nothing
for it (its write set is "every argument") -/
theorem C20_fmt_not_in_summary : ∀ q ∈ fmtParams, writeRoots q.1 = none := by
  intro q hq
  apply C20_effects_fmt_absent
  revert q
  decide +kernel

/-! ## Non-vacuity -/

section Examples

/-- a network with a short circuit, a resistor and an ideal source; an exemption list; a solution -/
def exN : Net String Rat :=
  ⟨[⟨"1", "0", "V", "voltage_source", .norton 0 5⟩, ⟨"1", "2", "S", "short_circuit", .norton 0 0⟩,
    ⟨"2", "0", "R", "resistor", .norton 2 0⟩], "0"⟩
def exPool : List (NVal String Rat) := [.net exN, .keep [], .net exN, .sol exN [5, 5, -5/2], .id "R"]
def exOpA : Op := { fn := "Network.transformers.remove_short_circuit_elements", args := [("network", 0), ("keep", 1)] }
def exOpB : Op := { fn := "Network.transformers.remove_short_circuit_elements", args := [("network", 2), ("keep", 1)] }
def exOpV : Op := { fn := "Network.NodalAnalysis.solution.NodalAnalysisSolution.get_voltage", args := [("self", 3), ("branch_id", 4)] }

/-- the hypotheses of `C20_transformers_call_removeShort` are met … -/
example : exOpA.arg? "network" exPool = some (.net exN) ∧ exOpA.arg? "keep" exPool = some (.keep []) := ⟨rfl, rfl⟩
/-- … the call is not a `badOp`, and the model has a short circuit to contract (node 1 into node 2) -/
example : (transformSig (L := String) (K := Rat)).eval exOpA exPool = some (removeShort exN []) :=
  C20_transformers_call_removeShort exOpA exPool exN [] rfl rfl rfl
example : shortPairs exN [] = [("1", "2")] := by decide +kernel
/-- the hypothesis of `…_same_description`: two different cells holding equal networks -/
example : ∀ p, exOpA.arg? p exPool = exOpB.arg? p exPool := by
  intro p
  simp only [Op.arg?, exOpA, exOpB, List.find?]
  split <;> (try split) <;> rfl
/-- the hypothesis of `C20_transformers_any_machine` / `C20_mna_any_machine` -/
example : ∀ op ∈ [exOpA, exOpB, exOpA], op.fn ∈ transformerFns := by decide +kernel
example : ∀ op ∈ [exOpV, exOpV], op.fn ∈ mnaFns := by decide +kernel
/-- …applied to a concrete sound machine -/
example := C20_transformers_any_machine (transformMachine (L := String) (K := Rat)) C20_transformers_sound
  [exOpA, exOpB, exOpA] exPool (by decide +kernel)
/-- the accessor hypotheses are met, and the queried branch exists in the stored network -/
example : (mnaSig (L := String) (K := Rat) id).eval exOpV exPool = .scal (exN.voltage [5, 5, -5/2] "R") :=
  C20_mna_call_voltage id exOpV exPool exN _ "R" rfl rfl rfl
example : (exN.get? "R").map (fun b => (b.n1, b.n2)) = some ("2", "0") := by decide +kernel

/-- the hypothesis of `C20_state_builder_keeps_description` is satisfiable: the builder succeeds on a
network without reactive elements (empty value dictionaries; a model with zero states) -/
def exRC : Net String Rat :=
  ⟨[⟨"1", "0", "V", "voltage_source", .norton 0 1⟩, ⟨"1", "2", "R", "resistor", .norton 2 0⟩,
    ⟨"2", "0", "G", "resistor", .norton 3 0⟩], "0"⟩
example : ∃ m, nodalStateSpaceModel exRC [] [] [] [] = .ok m :=
  ⟨⟨ssCore exRC.nY (ssNStates exRC [] []) (ssNInputs exRC []) (ssInvLambda ([] : ValDict Rat) [])
    (ssDQ exRC [] [] []) (ssQS exRC []) [] [], exRC, [], []⟩, rfl⟩
/-- a row query on a model object that is not a `badOp` -/
example (m : NSSM String Rat) :
    (stateSig (L := String) (K := Rat) fun _ _ _ => ([], [])).eval
      { fn := "Network.NodalAnalysis.state_space_model.NodalStateSpaceModel.c_row_voltage", args := [("self", 0), ("branch_id", 1)] }
      [.model m, .id "R"] = .row (m.cRowVoltage "R") :=
  C20_state_call_cRowVoltage _ _ _ m "R" rfl rfl rfl

/-- multi-frequency and formatter calls that are not `badOp` -/
example : multiFreqSig.eval { fn := "Circuit.solution.FrequencyDomainSolution._series", args := [("self", 0), ("values", 1)] }
    [.freqs [0, 2], .phasors [GQ.ofRat 1, GQ.ofRat 3]] = .series (series false [0, 2] [GQ.ofRat 1, GQ.ofRat 3]) :=
  C20_multifreq_call_series _ _ _ _ rfl rfl rfl
example : (mirrorW [0, 2]) = [-2, 0, 2] := by decide +kernel
example : fmtSig.eval { fn := "Utils.ScientificFloat.__str__", args := [("self", 0)] } [.sf {} (3/2)] = some (({} : Fmt.SFCfg).str (3/2)) :=
  C20_fmt_call_str _ _ _ _ rfl rfl

end Examples

end CC
