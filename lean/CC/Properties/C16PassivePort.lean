/-
  C16 — `passive_network` and the port impedance of the Spec (`PortZ`, CC/Spec/Port.lean) (round 5b).

    C16_passive_probe_sound   every solution of the probe network of `N` (all sources of `N` zeroed, unit test
                              current between `a` and `b`) solves the probe network of `passive_network(N, keep)`,
                              for two nodes that the contraction does not rename (`PassiveKeepsNode`)
    C16_passive_port_mpr      `PortZ N' … z` and solvability of the probe network of `N`   ⟹ `PortZ N … z`
    C16_passive_port_mp       `PortZ N … z` and well-posedness of the probe network of `N'` ⟹ `PortZ N' … z`
    C16_passive_port          both: under the two hypotheses `PortZ N … z ↔ PortZ N' … z`

  What is missing for the unconditional equality: the converse of the contraction for source-free networks
  (every solution of the contracted network extends to the original: the currents through the contracted
  shorts have to be routed along a spanning forest of the short-circuit graph so that Kirchhoff's current law
  holds at the absorbed nodes).  With it `sol(probe N)` and `sol(probe N')` would have the same port voltages
  and both hypotheses could be dropped.  Here the well-posedness of the result's probe network replaces it.
-/
import CC.Properties.C16Passive
import CC.Proofs.PortLemmas
set_option linter.unusedSectionVars false
set_option linter.unusedVariables false

namespace CC
variable {L K : Type} [DecidableEq L] [LabelOrd L] [Field K] [DecidableEq K]

/-- the network `passive_network` hands to `remove_short_circuit_elements`: current sources zeroed, open
circuits removed, voltage sources zeroed (`N3` of `C16_passive_shape`) -/
def passiveStage (N : Net L K) (keep : List (ElemKey K)) : Net L K :=
  ⟨((N.branches.map (zeroCS keep)).filter fun b => !b.e.isOpen).map (zeroVS keep), N.zero⟩

/-- node `x` keeps its name in `passive_network(N, keep)`: the contraction's renaming fixes it -/
def PassiveKeepsNode (N : Net L K) (keep : List (ElemKey K)) (x : L) : Prop :=
  shortSigma (passiveStage N keep) keep x = x

/-- the reference node always keeps its name -/
theorem passiveKeepsNode_zero (N : Net L K) (keep : List (ElemKey K)) : PassiveKeepsNode N keep N.zero :=
  C16_short_sigma_zero (passiveStage N keep) keep

/-- a node that is not a terminal of a non-exempt short circuit of the stage network (an original short
or a zeroed ideal voltage source) keeps its name -/
theorem passiveKeepsNode_of_not_short_terminal (N : Net L K) (keep : List (ElemKey K)) (x : L)
    (h : ∀ s ∈ (passiveStage N keep).branches, s.e.isShort = true → keep.contains s.key = false →
      x ≠ s.n1 ∧ x ≠ s.n2) : PassiveKeepsNode N keep x :=
  C16_short_sigma_fix (passiveStage N keep) keep x h

/-- a branch with its source set to zero (the element map of `Net.zeroSources`) -/
def zsB (b : Branch L K) : Branch L K := { b with e := b.e.zeroSources }

theorem zs_eq_map (bs : List (Branch L K)) : zs bs = bs.map zsB := rfl

theorem Elem.zeroSources_eq_setSrc (e : Elem K) : e.zeroSources = e.setSrc 0 := by cases e <;> rfl

/-- the record the two zeroing operations write, with its source zeroed, is electrically the original record
with its source zeroed — whether or not the branch was exempted -/
theorem elecEq_zsB_zeroed (keep : List (ElemKey K)) (b : Branch L K) :
    Branch.ElecEq (zsB b) (zsB (zeroVS keep (zeroCS keep b))) := by
  rw [zeroVS_zeroCS]
  have hz : zsB b = ({ b with e := b.e.setSrc 0 } : Branch L K) := by
    unfold zsB; rw [Elem.zeroSources_eq_setSrc]
  by_cases hk : keep.contains b.key = true
  · rw [if_pos hk]; exact Branch.ElecEq.rfl' _
  · rw [if_neg hk]
    by_cases hc : b.e.isCS = true
    · rw [if_pos hc, hz]
      have : zsB (zeroInCurrent b) = zeroInCurrent b := rfl
      rw [this]; exact elecEq_zeroInCurrent b hc
    · rw [if_neg hc]
      by_cases hv : b.e.isVSrc = true
      · rw [if_pos hv, hz]
        have : zsB (zeroInVoltage b) = zeroInVoltage b := rfl
        rw [this]; exact elecEq_zeroInVoltage b hv
      · rw [if_neg hv]; exact Branch.ElecEq.rfl' _

/-- dropping open-circuit branches keeps every solution (list level, the branch list given as the image of an
index list; cf. `C16_open`) -/
theorem circuitEqsAll_filter_open {α : Type} (l : List α) (g : α → Branch L K) (q : α → Bool)
    (hq : ∀ x ∈ l, q x = false → (g x).e.isOpen = true) (z : L) (R : Report L K)
    (h : CircuitEqsAll (l.map g) z R) : CircuitEqsAll ((l.filter q).map g) z R := by
  have hsub : ∀ c ∈ (l.filter q).map g, c ∈ l.map g := by
    intro c hc
    obtain ⟨x, hx, rfl⟩ := List.mem_map.mp hc
    exact List.mem_map.mpr ⟨x, (List.mem_filter.mp hx).1, rfl⟩
  refine ⟨h.ref_zero, fun c hc => h.volt c (hsub c hc), fun c hc => h.law c (hsub c hc), fun n => ?_⟩
  have := h.kcl n
  unfold kclResidual at this ⊢
  simp only [List.map_map] at this ⊢
  rw [← this, sum_filter_eq_sum_ite]
  apply congrArg; apply List.map_congr_left
  intro x hx
  by_cases hqx : q x = true
  · simp [hqx]
  · have hqx' : q x = false := by simpa using hqx
    have ho := hq x hx hqx'
    have hl := h.law (g x) (List.mem_map.mpr ⟨x, hx, rfl⟩)
    have hi : R.i (g x).id = 0 := by
      cases he : (g x).e with
      | norton Z V => rw [he] at ho; simp [Elem.isOpen] at ho
      | thevenin Y I =>
        rw [he] at ho hl
        simp only [Elem.isOpen, Bool.and_eq_true, decide_eq_true_eq] at ho
        simpa [Elem.lawResidual, ho.1, ho.2] using hl
    have hp : (g x).e.physCurrent (R.i (g x).id) = 0 := by
      unfold Elem.physCurrent; rw [hi]; simp
    simp [hqx', hp]

/-- `passive_network`'s chain, re-stated with `passiveStage` -/
theorem passive_stage_eq (N N' : Net L K) (keep : List (ElemKey K)) (hr : passiveNetwork N keep = .ok N') :
    removeShort (passiveStage N keep) keep = .ok N' := by
  obtain ⟨N1, N2, N3, _, _, _, h4, z3, b3, _, _⟩ := C16_passive_shape N N' keep hr
  have : N3 = passiveStage N keep := by
    cases N3 with
    | mk br z => simp only at z3 b3; subst z3; subst b3; rfl
  rw [← this]; exact h4

/-- **C16 (`passive_network` and the probe network).**  `N'` = `passive_network(N, keep)`, `a ≠ b` two nodes
that the contraction does not rename.  Every solution of the circuit equations of the probe network of `N`
(`N` with ALL its sources set to zero in the sense of the Spec — `Net.zeroSources` — plus a test source of value
`J` injecting into `a`, returning from `b`) solves the probe network of `N'`.  For an exemption list that is
not empty the exempted sources stay in `N'` but are zeroed by the Spec's probe network all the same. -/
theorem C16_passive_probe_sound (N N' : Net L K) (keep : List (ElemKey K))
    (hr : passiveNetwork N keep = .ok N') (pid : String) (a b : L) (hab : a ≠ b)
    (ha : PassiveKeepsNode N keep a) (hb : PassiveKeepsNode N keep b) (J : K) (R : Report L K)
    (h : CircuitEqs (probeNet N pid a b J) R) : CircuitEqs (probeNet N' pid a b J) R := by
  have h4 := passive_stage_eq N N' keep hr
  obtain ⟨z4, b4⟩ := C16_short_branches (passiveStage N keep) N' keep h4
  set p : Branch L K := probeBranch pid a b J with hp
  have hz : (passiveStage N keep).zero = N.zero := rfl
  rw [← circuitEqsAll_iff] at h ⊢
  -- index list: the branches of `N` and the probe
  let idx : List (Option (Branch L K)) := N.branches.map some ++ [none]
  let g0 : Option (Branch L K) → Branch L K := fun o => match o with | some c => zsB c | none => p
  let g1 : Option (Branch L K) → Branch L K := fun o => match o with
    | some c => zsB (zeroVS keep (zeroCS keep c)) | none => p
  let q : Option (Branch L K) → Bool := fun o => match o with
    | some c => !(zeroCS keep c).e.isOpen | none => true
  have e0 : (probeNet N pid a b J).branches = idx.map g0 := by
    show zs N.branches ++ [p] = _
    simp only [idx, List.map_append, List.map_map, List.map_cons, List.map_nil, zs_eq_map]
    rfl
  have s1 : CircuitEqsAll (idx.map g1) N.zero R := by
    have h' : CircuitEqsAll (idx.map g0) N.zero R := by rw [← e0]; exact h
    refine circuitEqsAll_map_elecEq_mp idx g1 g0 ?_ N.zero R h'
    intro o _
    cases o with
    | none => exact Branch.ElecEq.rfl' _
    | some c => exact elecEq_zsB_zeroed keep c
  have s2 : CircuitEqsAll ((idx.filter q).map g1) N.zero R := by
    refine circuitEqsAll_filter_open idx g1 q ?_ N.zero R s1
    intro o _ hq
    cases o with
    | none => simp [q] at hq
    | some c =>
      have hc : (zeroCS keep c).e.isOpen = true := by simpa [q] using hq
      have h2 : (zeroVS keep (zeroCS keep c)).e.isOpen = true := by rw [isOpen_zeroVS]; exact hc
      show (zeroVS keep (zeroCS keep c)).e.zeroSources.isOpen = true
      cases he : (zeroVS keep (zeroCS keep c)).e with
      | norton Z V => rw [he] at h2; simp [Elem.isOpen] at h2
      | thevenin Y I =>
        rw [he] at h2
        simp only [Elem.isOpen, Bool.and_eq_true, decide_eq_true_eq] at h2
        simp [Elem.zeroSources, Elem.isOpen, h2.2]
  -- the filtered list is the stage network with its sources zeroed, plus the probe
  have e2 : (idx.filter q).map g1 = zs (passiveStage N keep).branches ++ [p] := by
    simp only [idx, List.filter_append, List.map_append, List.filter_map, List.map_map, passiveStage, zs_eq_map]
    congr 1
  rw [e2] at s2
  -- the ends of every contracted short are equipotential
  have hshort : ∀ s ∈ (passiveStage N keep).branches, s.e.isShort = true → R.pot s.n1 = R.pot s.n2 := by
    intro s hs hsh
    have hm : zsB s ∈ zs (passiveStage N keep).branches ++ [p] :=
      List.mem_append_left _ (List.mem_map.mpr ⟨s, hs, rfl⟩)
    have hv := s2.volt _ hm
    have hl := s2.law _ hm
    unfold voltResidual at hv
    cases he : s.e with
    | thevenin Y I => rw [he] at hsh; simp [Elem.isShort] at hsh
    | norton Z V =>
      rw [he] at hsh
      simp only [Elem.isShort, Bool.and_eq_true, decide_eq_true_eq] at hsh
      have : (zsB s).e = .norton 0 0 := by simp [zsB, he, Elem.zeroSources, hsh.2]
      rw [this] at hl
      simp only [Elem.lawResidual, if_true, sub_zero] at hl
      have e1 : (zsB s).n1 = s.n1 := rfl
      have e2' : (zsB s).n2 = s.n2 := rfl
      rw [hl, e1, e2'] at hv
      linear_combination -hv
  have heq : ∀ pr ∈ shortPairs (passiveStage N keep) keep, R.pot pr.1 = R.pot pr.2 := by
    intro pr hpr
    rcases shortPairs_mem _ keep pr hpr with ⟨s, hs, h1, _, e1, e2'⟩ | ⟨s, hs, h1, _, e1, e2'⟩
    · rw [← e1, ← e2']; exact hshort s hs h1
    · rw [← e1, ← e2']; exact (hshort s hs h1).symm
  have s3 := contractAll_sound (shortPairs (passiveStage N keep) keep) _ N.zero R s2 heq
  -- shape of the contracted list: the probe survives unchanged
  have e3 : contractAll N.zero (shortPairs (passiveStage N keep) keep) (zs (passiveStage N keep).branches ++ [p])
      = zs N'.branches ++ [p] := by
    rw [C16_contract_shape, List.map_append, List.filter_append, b4]
    congr 1
    · simp only [zs_eq_map, List.map_map, List.filter_map]
      rfl
    · have h1 : shortSigma (passiveStage N keep) keep a = a := ha
      have h2 : shortSigma (passiveStage N keep) keep b = b := hb
      have hpm : p.mapNodes (sigmaAll N.zero (shortPairs (passiveStage N keep) keep)) = p := by
        show ({ p with n1 := shortSigma (passiveStage N keep) keep b,
                       n2 := shortSigma (passiveStage N keep) keep a } : Branch L K) = p
        rw [h1, h2, hp]; rfl
      simp only [List.map_cons, List.map_nil, hpm]
      have hne : p.n1 ≠ p.n2 := fun e => hab e.symm
      simp [hne]
  rw [e3] at s3
  show CircuitEqsAll (zs N'.branches ++ [p]) N'.zero R
  rw [z4]; exact s3

/-- **C16 (port impedance, from the passive network back to the input).**  If the probe network of `N` is
solvable at all, the port impedance of `passive_network(N, keep)` between two nodes that keep their names is
the port impedance of `N`. -/
theorem C16_passive_port_mpr (N N' : Net L K) (keep : List (ElemKey K))
    (hr : passiveNetwork N keep = .ok N') (pid : String) (a b : L) (hab : a ≠ b)
    (ha : PassiveKeepsNode N keep a) (hb : PassiveKeepsNode N keep b) (z : K)
    (hex : ∃ R : Report L K, CircuitEqs (probeNet N pid a b 1) R)
    (hz : PortZ N' pid a b z) : PortZ N pid a b z :=
  ⟨hex, fun R hR => hz.2 R (C16_passive_probe_sound N N' keep hr pid a b hab ha hb 1 R hR)⟩

/-- **C16 (port impedance, from the input to the passive network).**  If the probe network of the result is
well-posed (its source-free version has only the zero solution), the port impedance of `N` between two nodes
that keep their names is the port impedance of `passive_network(N, keep)`. -/
theorem C16_passive_port_mp (N N' : Net L K) (keep : List (ElemKey K))
    (hr : passiveNetwork N keep = .ok N') (pid : String) (hpid : pid ∉ N'.ids) (a b : L) (hab : a ≠ b)
    (ha : PassiveKeepsNode N keep a) (hb : PassiveKeepsNode N keep b) (z : K)
    (hw : WellPosed (probeNet N' pid a b 1))
    (hz : PortZ N pid a b z) : PortZ N' pid a b z := by
  obtain ⟨⟨R, hR⟩, hall⟩ := hz
  have hR' := C16_passive_probe_sound N N' keep hr pid a b hab ha hb 1 R hR
  refine ⟨⟨R, hR'⟩, fun S hS => ?_⟩
  obtain ⟨h1, e1, _⟩ := (probe_iff N' pid a b 1 R).mp hR'
  obtain ⟨h2, e2, _⟩ := (probe_iff N' pid a b 1 S).mp hS
  rw [e1] at h1; rw [e2] at h2
  rw [port_unique N' pid hpid a b hw 1 S R h2 h1]
  exact hall R hR

/-- **C16 (`passive_network` keeps the port impedance) — `C16_passive_port`, PARTIAL.**  `N'` =
`passive_network(N, keep)`; `a ≠ b` two nodes that keep their names (`PassiveKeepsNode`: e.g. the reference node,
or any node that is not a terminal of a contracted short / zeroed ideal voltage source); the test source's
identifier is not one of `N'`.  If the probe network of `N` has a solution and the probe network of `N'` is
well-posed, then for every `z`: `z` is the Spec's port impedance of `N` between `a` and `b` iff it is that of `N'`.

The two hypotheses stand in for the lemma that is missing (converse of the contraction for source-free
networks, see the head of this file); with it, solvability and the set of port voltages would transfer in both
directions without them.  Not covered: ports at nodes that are renamed (state the theorem at the renamed
labels — needs `pot (σ x) = pot x`), `a = b` (`PortZ = 0` on both sides when solvable). -/
theorem C16_passive_port (N N' : Net L K) (keep : List (ElemKey K))
    (hr : passiveNetwork N keep = .ok N') (pid : String) (hpid : pid ∉ N'.ids) (a b : L) (hab : a ≠ b)
    (ha : PassiveKeepsNode N keep a) (hb : PassiveKeepsNode N keep b)
    (hex : ∃ R : Report L K, CircuitEqs (probeNet N pid a b 1) R)
    (hw : WellPosed (probeNet N' pid a b 1)) (z : K) :
    PortZ N pid a b z ↔ PortZ N' pid a b z :=
  ⟨C16_passive_port_mp N N' keep hr pid hpid a b hab ha hb z hw,
   C16_passive_port_mpr N N' keep hr pid a b hab ha hb z hex⟩

/-! ### the hypotheses are satisfiable -/

namespace C16ex

theorem exP_stage : (passiveStage exP []).branches = exP3 := by
  simp [passiveStage, exP, exP3, zeroCS, zeroVS, zeroInCurrent, zeroInVoltage, Elem.isCS, Elem.Ival, Elem.Yfin,
    Elem.isVSrc, Elem.Vval, Elem.Zfin, Elem.isOpen]

theorem exP_keeps_b : PassiveKeepsNode exP [] "b" := by
  apply passiveKeepsNode_of_not_short_terminal
  intro s hs hsh _
  rw [exP_stage] at hs
  simp only [exP3, List.mem_cons, List.mem_nil_iff, or_false] at hs
  rcases hs with rfl | rfl | rfl
  · simp
  · simp [Elem.isShort] at hsh
  · simp [Elem.isShort] at hsh

/-- a solution of the probe network of `exP` (unit current into `b`, out of the reference node) -/
def exPR : Report String ℚ :=
  { pot := fun n => if n = "b" then 4/3 else 0,
    v := fun id => if id = "V" then 0 else if id = "R1" then -4/3 else if id = "p" then -4/3 else 4/3,
    i := fun id => if id = "V" then 2/3 else if id = "R1" then -2/3 else if id = "I" then 0
      else if id = "R2" then 1/3 else 1 }

theorem exP_probe : (probeNet exP "p" "b" "z" (1 : ℚ)).branches =
    [⟨"a", "z", "V", "voltage_source", .norton 0 0⟩, ⟨"a", "b", "R1", "resistor", .norton 2 0⟩,
      ⟨"b", "z", "I", "current_source", .thevenin 0 0⟩, ⟨"b", "z", "R2", "resistor", .norton 4 0⟩,
      ⟨"z", "b", "p", "current_source", .thevenin 0 1⟩] := by
  simp [probeNet, probeBranch, Net.zeroSources, exP, Elem.zeroSources]

theorem exPR_solves : CircuitEqs (probeNet exP "p" "b" "z" (1 : ℚ)) exPR := by
  rw [← circuitEqsAll_iff, exP_probe]
  refine ⟨by simp [exPR, probeNet, exP], ?_, ?_, ?_⟩
  · intro b hb
    simp only [List.mem_cons, List.mem_nil_iff, or_false] at hb
    rcases hb with rfl | rfl | rfl | rfl | rfl <;> (simp [voltResidual, exPR]; try norm_num)
  · intro b hb
    simp only [List.mem_cons, List.mem_nil_iff, or_false] at hb
    rcases hb with rfl | rfl | rfl | rfl | rfl <;> (simp [Elem.lawResidual, exPR]; try norm_num)
  · intro n
    simp only [kclResidual, List.map_cons, List.map_nil, List.sum_cons, List.sum_nil, incidence,
      Elem.physCurrent, Elem.isLossy, Elem.kind, exPR]
    by_cases ha : n = "a"
    · subst ha; simp; try norm_num
    · by_cases hb : n = "b"
      · subst hb; simp; try norm_num
      · by_cases hz : n = "z"
        · subst hz; simp; try norm_num
        · have ha' : ¬ "a" = n := fun e => ha e.symm
          have hb' : ¬ "b" = n := fun e => hb e.symm
          have hz' : ¬ "z" = n := fun e => hz e.symm
          simp [ha', hb', hz']

theorem exP4_probe_wellPosed : WellPosed (probeNet (⟨exP4, "z"⟩ : Net String ℚ) "p" "b" "z" 1) := by
  intro R hR
  rw [probeNet_zeroSources] at hR
  have hbr : (probeNet (⟨exP4, "z"⟩ : Net String ℚ) "p" "b" "z" (0 : ℚ)).branches =
      [⟨"z", "b", "R1", "resistor", .norton 2 0⟩, ⟨"b", "z", "R2", "resistor", .norton 4 0⟩,
        ⟨"z", "b", "p", "current_source", .thevenin 0 0⟩] := by
    simp [probeNet, probeBranch, Net.zeroSources, exP4, Elem.zeroSources]
  have h0 : R.pot "z" = 0 := hR.ref_zero
  have hv := hR.volt; have hl := hR.law
  rw [hbr] at hv hl
  have v1 := hv ⟨"z", "b", "R1", "resistor", .norton 2 0⟩ (by simp)
  have v2 := hv ⟨"b", "z", "R2", "resistor", .norton 4 0⟩ (by simp)
  have v3 := hv ⟨"z", "b", "p", "current_source", .thevenin 0 0⟩ (by simp)
  have l1 := hl ⟨"z", "b", "R1", "resistor", .norton 2 0⟩ (by simp)
  have l2 := hl ⟨"b", "z", "R2", "resistor", .norton 4 0⟩ (by simp)
  have l3 := hl ⟨"z", "b", "p", "current_source", .thevenin 0 0⟩ (by simp)
  have k1 := hR.kcl "b" (by simp [Net.allLabels, probeNet, probeBranch])
  unfold kclResidual at k1
  rw [hbr] at k1
  simp [voltResidual] at v1 v2 v3
  simp [Elem.lawResidual] at l1 l2 l3
  simp [incidence, Elem.physCurrent, Elem.isLossy, Elem.kind] at k1
  have pb : R.pot "b" = 0 := by linear_combination (4/3) * k1 - (2/3) * l1 + (1/3) * l2 + (2/3) * v1 - (1/3) * v2 + (4/3) * l3 + h0
  have i1 : R.i "R1" = 0 := by linear_combination (1/2) * (v1 - l1) + (1/2) * h0 - (1/2) * pb
  have i2 : R.i "R2" = 0 := by linear_combination (1/4) * (v2 - l2) + (1/4) * pb - (1/4) * h0
  constructor
  · intro n hn
    simp only [Net.allLabels, probeNet, probeBranch, Net.zeroSources, exP4, List.map_cons, List.map_nil,
      List.cons_append, List.nil_append, List.mem_cons, List.mem_nil_iff, or_false] at hn
    rcases hn with rfl | rfl | rfl | rfl | rfl | rfl | rfl <;> simp [Report.zeroRep, h0, pb]
  · intro b hb
    have hb' : b ∈ (probeNet (⟨exP4, "z"⟩ : Net String ℚ) "p" "b" "z" (1 : ℚ)).branches := hb
    have hbr1 : (probeNet (⟨exP4, "z"⟩ : Net String ℚ) "p" "b" "z" (1 : ℚ)).branches =
      [⟨"z", "b", "R1", "resistor", .norton 2 0⟩, ⟨"b", "z", "R2", "resistor", .norton 4 0⟩,
        ⟨"z", "b", "p", "current_source", .thevenin 0 1⟩] := by
      simp [probeNet, probeBranch, Net.zeroSources, exP4, Elem.zeroSources]
    rw [hbr1] at hb'
    simp only [List.mem_cons, List.mem_nil_iff, or_false] at hb'
    rcases hb' with rfl | rfl | rfl <;> simp only [Report.zeroRep]
    · exact ⟨by linear_combination l1 + 2 * i1, i1⟩
    · exact ⟨by linear_combination l2 + 4 * i2, i2⟩
    · exact ⟨by linear_combination v3 + h0 - pb, l3⟩

/-- every hypothesis of `C16_passive_port` holds for `passive_network(exP)` seen between `b` and the reference
node: for every `z`, `PortZ` of the input and of the passive network are the same statement -/
example (z : ℚ) : PortZ exP "p" "b" "z" z ↔ PortZ (⟨exP4, "z"⟩ : Net String ℚ) "p" "b" "z" z :=
  C16_passive_port exP ⟨exP4, "z"⟩ [] exP_passive "p" (by decide) "b" "z" (by decide) exP_keeps_b
    (passiveKeepsNode_zero exP []) ⟨exPR, exPR_solves⟩ exP4_probe_wellPosed z
end C16ex

end CC
