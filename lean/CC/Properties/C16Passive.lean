/-
  C16 — solution-level soundness of the three composed transformers `remove_ideal_current_sources`,
  `remove_ideal_voltage_sources`, `passive_network` as ONE theorem each (round 5b).

  "The source-zeroed network" is the input's skeleton with the value of every non-exempt (current / voltage /
  any) source set to 0: `zeroWhere (selCS keep)`, `zeroWhere (selVS keep)`, `zeroWhere (selSrc keep)` of
  CC/Properties/C04Zeroing.lean — record class, immittance, terminals, identifier and order untouched.  The
  theorems say: every solution (potentials, voltages, reported currents) of the circuit equations of that
  network is a solution of the circuit equations of the returned network, and every branch of the result is a
  branch of the input (same identifier, the zeroed record) whose terminals moved only between nodes that the
  solution holds at the same potential.

    C16_removeIdealCS_sound, C16_removeIdealVS_sound, C16_passive_sound
    C16_passive_reported       the values the solver reports for a well-posed result are those of any solution
                               of the source-zeroed input (through C01)

  Proof: `C16_passive_shape` (the chain N → N1 → N2 → N3 → N'), the record-class lemmas of C04Zeroing
  (`C04_zero_current_solutions`, `C04_zero_voltage_solutions`, `C04_zeroed_branch_both`), `C16_open`, `C16_short`.
-/
import CC.Properties.C04Zeroing
set_option linter.unusedSectionVars false
set_option linter.unusedVariables false

namespace CC
variable {L K : Type} [DecidableEq L] [LabelOrd L] [Field K] [DecidableEq K]

/-- **C16 (`remove_ideal_current_sources`, solutions).**  Every solution of the input with its non-exempt
current sources set to 0 solves the returned network (the zeroed ideal current sources, now open circuits, and
the open circuits of the input are gone; everything else is in place). -/
theorem C16_removeIdealCS_sound (N N' : Net L K) (keep : List (ElemKey K)) (R : Report L K)
    (hr : removeIdealCS N keep = .ok N')
    (h : CircuitEqs ⟨N.branches.map (zeroWhere (selCS keep)), N.zero⟩ R) :
    CircuitEqs N' R ∧ N'.zero = N.zero ∧
      N'.branches = (N.branches.map (zeroCS keep)).filter fun b => !b.e.isOpen := by
  obtain ⟨⟨N1, h1, h2⟩, hz, hb⟩ := C16_removeIdealCS_shape N N' keep hr
  have e1 : CircuitEqs N1 R := (C04_zero_current_solutions N N1 keep h1 R).mpr h
  exact ⟨(C16_open N1 N' R h2 e1).1, hz, hb⟩

/-- **C16 (`remove_ideal_voltage_sources`, solutions).**  Every solution of the input with its non-exempt
voltage sources set to 0 solves the returned network; every branch of the result is a branch of the input with
the same identifier and the record `short_circuitify_voltage_sources` gives it, its terminals moved only between
nodes at the same potential (the ends of contracted shorts: original ones and zeroed ideal voltage sources). -/
theorem C16_removeIdealVS_sound (N N' : Net L K) (keep : List (ElemKey K)) (R : Report L K)
    (hr : removeIdealVS N keep = .ok N')
    (h : CircuitEqs ⟨N.branches.map (zeroWhere (selVS keep)), N.zero⟩ R) :
    CircuitEqs N' R ∧ N'.zero = N.zero ∧
    ∀ b' ∈ N'.branches, ∃ b ∈ N.branches, b'.id = b.id ∧ b'.ty = (zeroVS keep b).ty ∧ b'.e = (zeroVS keep b).e ∧
      R.pot b'.n1 = R.pot b.n1 ∧ R.pot b'.n2 = R.pot b.n2 := by
  obtain ⟨N1, h1, h2, z1, b1, hz, _⟩ := C16_removeIdealVS_shape N N' keep hr
  have e1 : CircuitEqs N1 R := (C04_zero_voltage_solutions N N1 keep h1 R).mpr h
  obtain ⟨e2, _, hs⟩ := C16_short N1 N' keep R h2 e1
  refine ⟨e2, hz, fun b' hb' => ?_⟩
  obtain ⟨c, hc, i1, i2, i3, i4, i5⟩ := hs b' hb'
  rw [b1] at hc
  obtain ⟨b, hb, rfl⟩ := List.mem_map.mp hc
  exact ⟨b, hb, i1.trans (zeroVS_nodes keep b).2.2, i2, i3,
    i4.trans (by rw [(zeroVS_nodes keep b).1]), i5.trans (by rw [(zeroVS_nodes keep b).2.1])⟩

/-- zeroing a voltage source neither creates nor removes an open circuit -/
theorem isOpen_zeroVS (keep : List (ElemKey K)) (c : Branch L K) :
    (zeroVS keep c).e.isOpen = c.e.isOpen := by
  unfold zeroVS
  by_cases hp : (!(keep.contains c.key) && c.e.isVSrc) = true
  · rw [if_pos hp]
    have hv : c.e.isVSrc = true := by simp only [Bool.and_eq_true] at hp; exact hp.2
    have : c.e.isOpen = false := by
      cases he : c.e with
      | norton Z V => rfl
      | thevenin Y I =>
        rw [he] at hv
        by_cases hY : Y = 0
        · simp [Elem.isVSrc, Elem.Vval, hY] at hv
        · simp [Elem.isOpen, hY]
    rw [this]; rfl
  · rw [if_neg hp]

/-- `Network(N.branches, N.zero)` of a network that a `Network(…)` call returned succeeds again -/
theorem mk?_self_of_ok {bs : List (Branch L K)} {z : L} {N' : Net L K} (h : Net.mk? bs z = .ok N') :
    Net.mk? N'.branches N'.zero = .ok N' := by
  have e := mk?_ok h
  subst e
  exact h

/-- **C16 (`passive_network`, solutions) — `C16_passive_sound`.**  For every network `N`, exemption list
`keep` and report `R`: if `passive_network(N, keep)` returns `N'` and `R` solves the circuit equations of the
source-zeroed input (skeleton of `N`, every non-exempt active source set to 0), then `R` solves the circuit
equations of `N'`; the reference label is unchanged; and every branch of `N'` is a branch of `N` — same
identifier, the record the two zeroing operations give it — whose terminals moved only between nodes that `R`
holds at the same potential.  So on surviving nodes and branches the source-zeroed input and the passive
network have the same potentials, voltages and reported currents; if `N'` is well-posed they are *the*
solution of `N'` (`C16_passive_reported`).

Composition, stage by stage: skeleton ≃ `zeroVS ∘ zeroCS` applied branch-wise (`C04_zeroed_branch_both`,
record-class change is electrically invisible) → open circuits removed (`C16_open`; `zeroVS` does not touch
openness, so the filter may be taken after both maps) → shorts contracted (`C16_short`).

Not covered: the converse (every solution of `N'` extends to the source-zeroed `N`); which branches survive
(`C16_passive_survivors_iff`); the link model ↔ Python (`C16_gen_passiveNetwork` + structural correspondence). -/
theorem C16_passive_sound (N N' : Net L K) (keep : List (ElemKey K)) (R : Report L K)
    (hr : passiveNetwork N keep = .ok N')
    (h : CircuitEqs ⟨N.branches.map (zeroWhere (selSrc keep)), N.zero⟩ R) :
    CircuitEqs N' R ∧ N'.zero = N.zero ∧
    ∀ b' ∈ N'.branches, ∃ b ∈ N.branches, b'.id = b.id ∧
      b'.ty = (zeroVS keep (zeroCS keep b)).ty ∧ b'.e = (zeroVS keep (zeroCS keep b)).e ∧
      R.pot b'.n1 = R.pot b.n1 ∧ R.pot b'.n2 = R.pot b.n2 := by
  obtain ⟨N1, N2, N3, h1, h2, h3, h4, z3, b3, hz, _⟩ := C16_passive_shape N N' keep hr
  -- stage 1: the record-class change
  let M : Net L K := ⟨N.branches.map fun b => zeroVS keep (zeroCS keep b), N.zero⟩
  have eM : CircuitEqs M R := by
    rw [← circuitEqsAll_iff] at h ⊢
    exact (circuitEqsAll_map_elecEq N.branches _ _ (fun b _ => (C04_zeroed_branch_both keep b).2) N.zero R).mpr h
  -- stage 2: open removal, after both maps
  have hb3 : N3.branches = M.branches.filter fun b => !b.e.isOpen := by
    rw [b3]
    show _ = (N.branches.map fun b => zeroVS keep (zeroCS keep b)).filter fun b => !b.e.isOpen
    have e : (N.branches.map fun b => zeroVS keep (zeroCS keep b))
        = (N.branches.map (zeroCS keep)).map (zeroVS keep) := by rw [List.map_map]; rfl
    have e2 : ((N.branches.map (zeroCS keep)).map (zeroVS keep)).filter (fun b => !b.e.isOpen)
        = ((N.branches.map (zeroCS keep)).filter fun b => !b.e.isOpen).map (zeroVS keep) := by
      rw [List.filter_map]
      congr 1
      apply List.filter_congr
      intro c _
      simp only [Function.comp_apply, isOpen_zeroVS]
    rw [e, e2]
  have hopen : removeOpen M = .ok N3 := by
    have := mk?_self_of_ok (show Net.mk? _ _ = .ok N3 from h3)
    rw [C16_open_shape, ← hb3]
    show Net.mk? N3.branches N.zero = .ok N3
    rw [← z3]; exact this
  have e3 : CircuitEqs N3 R := (C16_open M N3 R hopen eM).1
  -- stage 3: contraction
  obtain ⟨e4, _, hs⟩ := C16_short N3 N' keep R h4 e3
  refine ⟨e4, hz, fun b' hb' => ?_⟩
  obtain ⟨c, hc, i1, i2, i3, i4, i5⟩ := hs b' hb'
  rw [hb3] at hc
  obtain ⟨hcM, _⟩ := List.mem_filter.mp hc
  obtain ⟨b, hb, rfl⟩ := List.mem_map.mp hcM
  have n := zeroVS_nodes keep (zeroCS keep b)
  have m := zeroCS_nodes keep b
  exact ⟨b, hb, i1.trans (n.2.2.trans m.2.2), i2, i3,
    i4.trans (by rw [n.1, m.1]), i5.trans (by rw [n.2.1, m.2.1])⟩

/-- **C16 (`passive_network`, reported values).**  If the returned network is valid and well-posed, then
whatever vector satisfies the matrix equation the code builds for it, the accessors report — on every node
label and branch of the passive network — the values of ANY solution `R` of the source-zeroed input. -/
theorem C16_passive_reported (N N' : Net L K) (keep : List (ElemKey K)) (R : Report L K)
    (hr : passiveNetwork N keep = .ok N')
    (h : CircuitEqs ⟨N.branches.map (zeroWhere (selSrc keep)), N.zero⟩ R)
    (wf' : N'.WF) (hw' : WellPosed N') (x' : List K)
    (hx' : x'.length = N'.nodes.length + N'.vsIds.length) (h' : matVec N'.mnaA x' = N'.mnaB) :
    (N'.reportOf x').AgreeOn N' R :=
  C01_reported_is_the_solution N' wf' hw' x' hx' h' R (C16_passive_sound N N' keep R hr h).1

/-! ### the hypotheses are satisfiable -/

namespace C16ex
/-- exemption list: the voltage source of `exP` stays active -/
def keepV : List (ElemKey ℚ) := [⟨"V", "voltage_source", .norton 0 5⟩]
def exQ1 : List (Branch String ℚ) :=
  [⟨"a", "z", "V", "voltage_source", .norton 0 5⟩, ⟨"a", "b", "R1", "resistor", .norton 2 0⟩,
    ⟨"b", "z", "I", "admittance", .thevenin 0 0⟩, ⟨"b", "z", "R2", "resistor", .norton 4 0⟩]
def exQ2 : List (Branch String ℚ) :=
  [⟨"a", "z", "V", "voltage_source", .norton 0 5⟩, ⟨"a", "b", "R1", "resistor", .norton 2 0⟩,
    ⟨"b", "z", "R2", "resistor", .norton 4 0⟩]
theorem q1 : (exP.branches.map fun b =>
    if !(keepV.contains b.key) && b.e.isCS then zeroInCurrent b else b) = exQ1 := by
  simp [exP, exQ1, keepV, Branch.key, zeroInCurrent, Elem.isCS, Elem.Ival, Elem.Yfin]
theorem q2 : (exQ1.filter fun b => !b.e.isOpen) = exQ2 := by
  simp [exQ1, exQ2, Elem.isOpen]
theorem q3 : (exQ2.map fun b =>
    if !(keepV.contains b.key) && b.e.isVSrc then zeroInVoltage b else b) = exQ2 := by
  simp [exQ2, keepV, Branch.key, zeroInVoltage, Elem.isVSrc, Elem.Vval, Elem.Zfin]
theorem q4 : shortPairs (⟨exQ2, "z"⟩ : Net String ℚ) keepV = [] := by
  simp [shortPairs, exQ2, Elem.isShort]
theorem exQ_passive : passiveNetwork exP keepV = .ok ⟨exQ2, "z"⟩ := by
  have hV : (⟨"a", "z", "V", "voltage_source", .norton 0 5⟩ : Branch String ℚ) ∈ exQ2 := by simp [exQ2]
  have hV1 : (⟨"a", "z", "V", "voltage_source", .norton 0 5⟩ : Branch String ℚ) ∈ exQ1 := by simp [exQ1]
  have s1 : openCircuitifyCS exP keepV = .ok ⟨exQ1, "z"⟩ := by
    unfold openCircuitifyCS; rw [q1]
    exact C16ex_mk_ok _ _ ⟨_, hV1, Or.inr rfl⟩ (by decide)
  have s2 : removeOpen (⟨exQ1, "z"⟩ : Net String ℚ) = .ok ⟨exQ2, "z"⟩ := by
    unfold removeOpen; simp only; rw [q2]
    exact C16ex_mk_ok _ _ ⟨_, hV, Or.inr rfl⟩ (by decide)
  have s3 : shortCircuitifyVS (⟨exQ2, "z"⟩ : Net String ℚ) keepV = .ok ⟨exQ2, "z"⟩ := by
    unfold shortCircuitifyVS; simp only; rw [q3]
    exact C16ex_mk_ok _ _ ⟨_, hV, Or.inr rfl⟩ (by decide)
  have s4 : removeShort (⟨exQ2, "z"⟩ : Net String ℚ) keepV = .ok ⟨exQ2, "z"⟩ := by
    unfold removeShort; simp only; rw [q4, contractAll_nil]
    exact C16ex_mk_ok _ _ ⟨_, hV, Or.inr rfl⟩ (by decide)
  have c1 : removeIdealCS exP keepV = .ok ⟨exQ2, "z"⟩ := by unfold removeIdealCS; rw [s1]; exact s2
  have c2 : removeIdealVS (⟨exQ2, "z"⟩ : Net String ℚ) keepV = .ok ⟨exQ2, "z"⟩ := by
    unfold removeIdealVS; rw [s3]; exact s4
  unfold passiveNetwork; rw [c1]; exact c2

/-- the (non-zero) solution of `exP` with its current source set to 0 and its voltage source active -/
def exQR : Report String ℚ :=
  { pot := fun n => if n = "a" then 5 else if n = "b" then 10/3 else 0,
    v := fun id => if id = "V" then 5 else if id = "R1" then 5/3 else 10/3,
    i := fun id => if id = "V" then -5/6 else if id = "I" then 0 else 5/6 }

theorem exQ_zeroed : exP.branches.map (zeroWhere (selSrc keepV)) =
    [⟨"a", "z", "V", "voltage_source", .norton 0 5⟩, ⟨"a", "b", "R1", "resistor", .norton 2 0⟩,
      ⟨"b", "z", "I", "current_source", .thevenin 0 0⟩, ⟨"b", "z", "R2", "resistor", .norton 4 0⟩] := by
  simp [exP, keepV, zeroWhere, selSrc, Branch.key, Elem.isActive, Elem.isVSrc, Elem.Vval, Elem.isCS, Elem.Ival,
    Elem.setSrc]

theorem exQR_solves : CircuitEqs ⟨exP.branches.map (zeroWhere (selSrc keepV)), exP.zero⟩ exQR := by
  rw [exQ_zeroed, ← circuitEqsAll_iff]
  refine ⟨by simp [exQR, exP], ?_, ?_, ?_⟩
  · intro b hb
    simp only [List.mem_cons, List.mem_nil_iff, or_false] at hb
    rcases hb with rfl | rfl | rfl | rfl <;> (simp [voltResidual, exQR]; try norm_num)
  · intro b hb
    simp only [List.mem_cons, List.mem_nil_iff, or_false] at hb
    rcases hb with rfl | rfl | rfl | rfl <;> simp [Elem.lawResidual, exQR] <;> norm_num
  · intro n
    simp only [kclResidual, List.map_cons, List.map_nil, List.sum_cons, List.sum_nil, incidence,
      Elem.physCurrent, Elem.isLossy, Elem.kind, exQR]
    by_cases ha : n = "a"
    · subst ha; simp; norm_num
    · by_cases hb : n = "b"
      · subst hb; simp
      · by_cases hz : n = "z"
        · subst hz; simp; norm_num
        · have ha' : ¬ "a" = n := fun e => ha e.symm
          have hb' : ¬ "b" = n := fun e => hb e.symm
          have hz' : ¬ "z" = n := fun e => hz e.symm
          simp [ha', hb', hz']

/-- `C16_passive_sound` on a non-trivial input: `passive_network(exP, keep=[V])` returns `[V, R1, R2]`, the
source-zeroed input (current source set to 0, `V = 5` active) has the non-zero solution `exQR`, and that
solution solves the returned network -/
example : CircuitEqs (⟨exQ2, "z"⟩ : Net String ℚ) exQR :=
  (C16_passive_sound exP ⟨exQ2, "z"⟩ keepV exQR exQ_passive exQR_solves).1
/-- … and with the empty exemption list (everything deactivated; the zero report solves) -/
example : ∃ R : Report String ℚ,
    CircuitEqs ⟨exP.branches.map (zeroWhere (selSrc [])), exP.zero⟩ R ∧ passiveNetwork exP [] = .ok ⟨exP4, "z"⟩ := by
  refine ⟨Report.zeroRep, ?_, exP_passive⟩
  have e := C04_zeroing_is_withSrc exP.branches (by decide) (selSrc ([] : List (ElemKey ℚ)))
  have hs : srcWhere exP.branches (selSrc ([] : List (ElemKey ℚ))) = fun _ => 0 := by
    funext id
    unfold srcWhere
    cases hf : findId exP.branches id with
    | none => rfl
    | some b =>
      have hb : b ∈ exP.branches := by
        unfold findId at hf; exact List.mem_reverse.mp (List.mem_of_find?_eq_some hf)
      simp only [exP, List.mem_cons, List.mem_nil_iff, or_false] at hb
      rcases hb with rfl | rfl | rfl | rfl <;>
        simp [selSrc, Elem.isActive, Elem.isVSrc, Elem.Vval, Elem.isCS, Elem.Ival, Elem.src]
  rw [← circuitEqsAll_iff]
  simp only
  rw [e, hs]
  exact C04_zero_all exP.branches exP.zero
end C16ex

end CC
