/-
  Property C19, round 5 — fault classes that had no Lean statement.

  (1) `load_network` (Network/loaders.py) on the model CC/Model/Load.lean, whose tables, read/pop structure and
      exception mapping are the GENERATED CC/Gen/LoadTables.lean: unknown element type, missing structural key,
      missing required keyword, duplicate ids, reference node touching nothing, entry that is no dictionary —
      for every description and every position of the faulty entry.
  (2) unknown identifiers against the transient class: theorems about the GENERATED row accessors of
      `NodalStateSpaceModel` (CC/Gen/StateSpace.lean), and the generated guard table of the time- / frequency-
      domain classes quantified over its rows.
  (3) `C19_unknown_wave` linked to the generated lookup of periodic_functions.py for every name.
  Helper lemmas: CC/Proofs/C19Load.lean.
-/
import CC.Properties.C19
import CC.Properties.C17
import CC.Proofs.C19Load
import CC.Gen.StateSpace
set_option linter.unusedSimpArgs false
set_option linter.unusedSectionVars false
namespace CC
open Gen

/-! ## (3) wave lookup -/

/-- the wavetype list the circuit model is run with (`Gen.tables.waves`, from extract_circuit.py) is the
generated `waveTypes`, and that is the list of `wavetype` attributes of the generated `periodic_functions`
of `periodic_functions.py` (extract_fourier.py).  Both sides are regenerated definitions. -/
theorem C19_wave_tables_agree :
    Gen.tables.waves = Gen.waveTypes ∧
    Gen.waveTypes = Gen.Fourier.periodicFunctions.map Gen.Fourier.Wave.wavetype := by
  constructor
  · rfl
  · decide

/-- **C19 (unknown waveform, linked to the generated lookup).**  For EVERY name, the hand-written
`periodicFunction` of CC/Model/Circuit.lean, run on the generated table, accepts exactly when the generated
`Gen.Fourier.periodicFunction` (the translation of `periodic_function` of periodic_functions.py) returns the class
with that wavetype, and raises `UnknownWavetype` exactly when the generated lookup does.  So `C19_unknown_wave`
at the generated table is a statement about the regenerated lookup.  Not claimed: anything about a table other
than the generated one. -/
theorem C19_unknown_wave_linked (name : String) :
    (periodicFunction Gen.tables.waves name = .ok name ↔
      ∃ w, Gen.Fourier.periodicFunction name = .ok w ∧ w.wavetype = name) ∧
    (periodicFunction Gen.tables.waves name = .error (.other "UnknownWavetype") ↔
      Gen.Fourier.periodicFunction name = .error "UnknownWavetype") := by
  have hw : Gen.tables.waves = ["const", "cos", "sin", "rect", "tri", "saw"] := by decide
  by_cases h : name ∈ Gen.waveTypes
  · have hmem : name ∈ Gen.Fourier.periodicFunctions.map Gen.Fourier.Wave.wavetype := by
      rw [← C19_wave_tables_agree.2]; exact h
    obtain ⟨w, _, hwn⟩ := List.mem_map.mp hmem
    have hok : Gen.Fourier.periodicFunction name = .ok w := by
      rw [← hwn]; exact CC.C08_lookup.2.2.2.2.2.2.1 w
    have hm : periodicFunction Gen.tables.waves name = .ok name := by
      have : name ∈ Gen.tables.waves := h
      simp [periodicFunction, this]
    refine ⟨⟨fun _ => ⟨w, hok, hwn⟩, fun _ => hm⟩, ?_⟩
    rw [hm, hok]
    constructor <;> intro hc <;> cases hc
  · have hg := (C19_unknown_wave_generated name h).2
    have hm := C19_unknown_wave Gen.tables.waves name h
    refine ⟨?_, fun _ => hg, fun _ => hm⟩
    rw [hm, hg]
    constructor
    · intro hc; cases hc
    · rintro ⟨w, hc, _⟩; cases hc
end CC

namespace CC
open Gen Gen.Core Gen.State

section
variable {L K : Type} [DecidableEq L] [LabelOrd L]
variable [Zero K] [One K] [Add K] [Mul K] [Neg K] [Sub K] [Inv K] [Div K] [DecidableEq K]

/-- generated `Network.__getitem__`: an identifier that is no branch id raises `KeyError` -/
theorem C19_getitem_unknown (N : Net L K) (id : String) (h : id ∉ N.ids) :
    Network.getitem N id = .error .keyError := by
  unfold Network.getitem Py.dictGet
  have : (N.branches.map fun (b : Branch L K) => (b.id, b)).reverse.find? (fun p => p.1 = id) = none := by
    rw [List.find?_eq_none]
    intro p hp
    simp only [decide_eq_true_eq]
    intro he
    apply h
    obtain ⟨b, hb, rfl⟩ := List.mem_map.mp (List.mem_reverse.mp hp)
    exact he ▸ List.mem_map_of_mem hb
  simp [this, bind, Except.bind]

/-- **C19 (unknown query, transient class — voltage rows).**  The GENERATED `c_row_voltage` / `d_row_voltage` of
`NodalStateSpaceModel` (state_space_model.py; what `TransientSolution.get_voltage`, and through it `get_power`,
evaluates first) raise `KeyError` for every identifier that is no branch id of the model's network — for every
model object, whatever its matrices.  Not claimed: that `TransientSolution.get_voltage` calls these rows first
(the translator does not extract the getter bodies of that class; read from solution.py:191). -/
theorem C19_transient_unknown_voltage (g : NodalStateSpaceModel L K) (id : String) (h : id ∉ g.network.ids) :
    NodalStateSpaceModel.c_row_voltage g id = .error .keyError ∧
    NodalStateSpaceModel.d_row_voltage g id = .error .keyError := by
  have hg := C19_getitem_unknown g.network id h
  constructor
  · unfold NodalStateSpaceModel.c_row_voltage
    simp [hg, bind, Except.bind]
  · unfold NodalStateSpaceModel.d_row_voltage
    simp [hg, bind, Except.bind]

/-- **C19 (unknown query, transient class — potential rows).**  Generated `c_row_for_potential` /
`d_row_for_potential`: a label that is neither a mapped node nor the reference node raises `KeyError`. -/
theorem C19_transient_unknown_potential (g : NodalStateSpaceModel L K) (n : L)
    (h : n ∉ g.node_index_mapping.keys) (hz : n ≠ g.network.zero) :
    NodalStateSpaceModel.c_row_for_potential g n = .error .keyError ∧
    NodalStateSpaceModel.d_row_for_potential g n = .error .keyError := by
  constructor
  · unfold NodalStateSpaceModel.c_row_for_potential NodalStateSpaceModel.row_for_potential
    simp [h, hz, bind, Except.bind, throw, throwThe, MonadExceptOf.throw]
  · unfold NodalStateSpaceModel.d_row_for_potential NodalStateSpaceModel.row_for_potential
    simp [h, hz, bind, Except.bind, throw, throwThe, MonadExceptOf.throw]

/-- **C19 (unknown query, transient class — current rows).**  Generated `c_row_current` / `d_row_current`: an
identifier that is no branch, no capacitor key and no mapped source raises (`KeyError` for the `D` row; for the
`C` row the exception is that of the voltage-source filter if that one fails first, else `KeyError`). -/
theorem C19_transient_unknown_current (g : NodalStateSpaceModel L K) (id : String)
    (h : id ∉ g.network.ids) (hc : id ∉ (g.c_values).keys)
    (hv : id ∉ g.voltage_source_index_mapping.keys) (hs : id ∉ g.current_source_index_mapping.keys) :
    (∃ e, NodalStateSpaceModel.c_row_current g id = .error e) ∧
    NodalStateSpaceModel.d_row_current g id = .error .keyError := by
  have hg := C19_getitem_unknown g.network id h
  constructor
  · unfold NodalStateSpaceModel.c_row_current
    cases hf : (g.voltage_source_index_mapping).filterM (fun (x : String) => do
        let b11 ← Network.getitem g.network x
        pure (is_ideal_voltage_source b11.e)) with
    | error e => exact ⟨e, by simp [bind, Except.bind]⟩
    | ok m => exact ⟨.keyError, by simp [hc, hv, hs, hg, bind, Except.bind]⟩
  · unfold NodalStateSpaceModel.d_row_current
    simp [hc, hv, hs, hg, bind, Except.bind]

end
end CC
namespace CC
open Gen Gen.Core Gen.State
section
variable {L K : Type} [DecidableEq L] [LabelOrd L]
variable [Zero K] [One K] [Add K] [Mul K] [Neg K] [Sub K] [Inv K] [Div K] [DecidableEq K]

theorem c19_mem_dictKeys {α : Type} [DecidableEq α] {a : α} {l : List α} (h : a ∈ Py.dictKeys l) : a ∈ l := by
  induction l with
  | nil => simp [Py.dictKeys] at h
  | cons b l ih =>
    simp only [Py.dictKeys, List.mem_cons, List.mem_filter] at h ⊢
    rcases h with h | h
    · exact Or.inl h
    · exact Or.inr (ih h.1)

theorem c19_built_fields (inv : Py.Mat K → Py.Mat K) (re : K → K) (N : Net L K) (cv lv : ValDict K)
    (g : NodalStateSpaceModel L K) (hg : nodal_state_space_model inv re N cv lv = .ok g) :
    g.network = N ∧ g.c_values = cv ∧ g.node_index_mapping = alphabetic_node_mapper N ∧
    g.voltage_source_index_mapping = alphabetic_voltage_source_mapper N ∧
    g.current_source_index_mapping = alphabetic_current_source_mapper N := by
  unfold nodal_state_space_model at hg
  obtain ⟨r, _, hg⟩ := bind_eq_ok.mp hg
  obtain ⟨A, B, C, D⟩ := r
  simp only [pure, Except.pure, Except.ok.injEq] at hg
  subst hg
  exact ⟨rfl, rfl, rfl, rfl, rfl⟩

/-- **C19 (unknown query, transient class — the object the code builds).**  For the object the GENERATED
`nodal_state_space_model` returns (any network, any capacitor / inductor dictionaries, any `inv`): every row
accessor raises for an identifier that is no branch id (current rows: and no capacitor key), and the potential
rows raise `KeyError` for a label no branch touches that is not the reference label.  Hypothesis left: the
model was built (`hg`), and for the current rows `id ∉ c_values.keys` (a capacitor key that is no branch is
answered from the dictionary — the code does that too). -/
theorem C19_transient_unknown_built (inv : Py.Mat K → Py.Mat K) (re : K → K) (N : Net L K) (cv lv : ValDict K)
    (g : NodalStateSpaceModel L K) (hg : nodal_state_space_model inv re N cv lv = .ok g) :
    (∀ id : String, id ∉ N.ids →
      NodalStateSpaceModel.c_row_voltage g id = .error .keyError ∧
      NodalStateSpaceModel.d_row_voltage g id = .error .keyError) ∧
    (∀ id : String, id ∉ N.ids → id ∉ cv.keys →
      (∃ e, NodalStateSpaceModel.c_row_current g id = .error e) ∧
      NodalStateSpaceModel.d_row_current g id = .error .keyError) ∧
    (∀ n : L, n ≠ N.zero → (∀ b ∈ N.branches, b.n1 ≠ n ∧ b.n2 ≠ n) →
      NodalStateSpaceModel.c_row_for_potential g n = .error .keyError ∧
      NodalStateSpaceModel.d_row_for_potential g n = .error .keyError) := by
  obtain ⟨hn, hc, hnm, hvm, hcm⟩ := c19_built_fields inv re N cv lv g hg
  refine ⟨?_, ?_, ?_⟩
  · intro id hid
    exact C19_transient_unknown_voltage g id (hn ▸ hid)
  · intro id hid hcv
    apply C19_transient_unknown_current g id (hn ▸ hid) (hc ▸ hcv)
    · rw [hvm]
      intro hm
      have := mem_sortL.mp (c19_mem_dictKeys hm)
      obtain ⟨b, hb, rfl⟩ := List.mem_map.mp this
      exact hid (List.mem_map_of_mem (List.mem_filter.mp hb).1)
    · rw [hcm]
      intro hm
      have := mem_sortL.mp (c19_mem_dictKeys hm)
      obtain ⟨b, hb, rfl⟩ := List.mem_map.mp this
      exact hid (List.mem_map_of_mem (List.mem_filter.mp hb).1)
  · intro n hz hb
    apply C19_transient_unknown_potential g n _ (hn ▸ hz)
    rw [hnm]
    intro hm
    have hm' := c19_mem_dictKeys hm
    have hm2 := mem_sortL.mp (List.mem_filter.mp hm').1
    unfold Network.node_labels at hm2
    split at hm2
    · simp at hm2; exact hz hm2
    · have := mem_dedupL.mp (mem_sortL.mp hm2)
      rcases List.mem_append.mp this with h1 | h1
      · obtain ⟨b, hbm, rfl⟩ := List.mem_map.mp h1
        exact (hb b hbm).1 rfl
      · obtain ⟨b, hbm, rfl⟩ := List.mem_map.mp h1
        exact (hb b hbm).2 rfl
end
end CC


namespace CC
open Gen

/-! ## (2a) the generated guard table, row by row -/

/-- the check a getter performs first, by the kind the generated table records -/
def guardOfKind (kind : String) (cs : List Component) (id : String) : Except Err Unit :=
  if kind = "component" then requireComponent cs id
  else if kind = "node" then requireNode cs id
  else .ok ()

/-- **C19 (unknown query, every row of the generated guard table).**  Every row the translator emits — every
getter of every class it extracts (`TimeDomainSolution`, `FrequencyDomainSolution`; the table has exactly these
8 rows) — records a guard (no row is `"none"`), of the kind its getter takes, and that guard answers `KeyError`
for every circuit and every identifier that is no non-ground component id (resp. no terminal).  The transient
class has no row: the translator does not extract its getters (its unknown-id behaviour is `C19_transient_*`).
`requireComponent` / `requireNode` are the hand-written copies whose source text the translator compares. -/
theorem C19_unknown_query_all_rows :
    Gen.Sol.requireTable.length = 8 ∧
    (∀ r ∈ Gen.Sol.requireTable, r.1 ∈ ["TimeDomainSolution", "FrequencyDomainSolution"] ∧
      r.2.1 ∈ ["get_voltage", "get_current", "get_potential", "get_power"] ∧ r.2.2 = getterKind r.2.1) ∧
    (∀ r ∈ Gen.Sol.requireTable, ∀ (cs : List Component) (id : String),
      (r.2.2 = "component" → id ∉ (Spec.nonGround cs).map (·.id) → guardOfKind r.2.2 cs id = .error .keyError) ∧
      (r.2.2 = "node" → (∀ c ∈ cs, id ∉ c.nodes) → guardOfKind r.2.2 cs id = .error .keyError) ∧
      (r.2.2 = "component" ∨ r.2.2 = "node")) := by
  refine ⟨by decide, by decide, ?_⟩
  intro r hr cs id
  have hk : r.2.2 = "component" ∨ r.2.2 = "node" := by
    revert r; decide
  refine ⟨?_, ?_, hk⟩
  · intro hc h
    rw [hc]
    simp only [guardOfKind, if_true]
    exact C19_unknown_query_guarded.2.2.1 cs id h
  · intro hc h
    rw [hc]
    have : ¬ ("node" = "component") := by decide
    simp only [guardOfKind, this, if_false, if_true]
    exact C19_unknown_query_guarded.2.2.2 cs id h

end CC
namespace CC
open CC.Load CC.Gen.Load

/-! ## (1) `load_network` fault classes

`T : Load.Trig` are numpy's `cos`/`sin` (parameters of the model); "loads" below means `entry_to_branch` succeeds
on the entry.  Every theorem is about the model `loadNetwork` of CC/Model/Load.lean run on the generated tables
of CC/Gen/LoadTables.lean; the model is tied to the code by the `cc_load` correspondence (C17, C19). -/

/-- the first entry that fails to load decides the exception of `load_network`, with `KeyError` reported as
`FileExistsError` (the generated `loadCaught` / `loadRaised`) -/
theorem C19_load_reject_first (T : Load.Trig) (pre post : List J) (e : J) (x : Err)
    (hpre : ∀ y ∈ pre, ∃ b, (entryToBranch T y).1 = .ok b) (h : (entryToBranch T e).1 = .error x) :
    (loadNetwork T (.arr (pre ++ e :: post))).1 = .error (mapLoadErr x) := by
  rw [loadNetwork_arr, loadEntries_error_first T pre post e x hpre h]

/-- an entry that fails to load makes the whole description fail, wherever it stands -/
theorem C19_load_reject_mem (T : Load.Trig) (es : List J) (e : J) (he : e ∈ es) (x : Err)
    (h : (entryToBranch T e).1 = .error x) : ∃ x', (loadNetwork T (.arr es)).1 = .error x' := by
  obtain ⟨x', hx'⟩ := loadEntries_error_mem T es e he x h
  exact ⟨mapLoadErr x', by rw [loadNetwork_arr, hx']⟩

/-- one entry whose type string is no key of the generated `network_branch_translators`: `KeyError` -/
theorem C19_load_entry_unknown_type (T : Load.Trig) (o : Obj) (n1 n2 id : J) (kind : String)
    (h1 : Obj.find o "N1" = some n1) (h2 : Obj.find o "N2" = some n2) (h3 : Obj.find o "id" = some id)
    (h4 : Obj.find o "type" = some (.str kind)) (hk : kind ∉ networkBranchTranslators.map (·.kind)) :
    (entryToBranch T (.obj o)).1 = .error .keyError := by
  have hnone : networkBranchTranslators.find? (fun L => L.kind == kind) = none := by
    rw [List.find?_eq_none]
    intro L hL hc
    exact hk (List.mem_map.mpr ⟨L, hL, by simpa using hc⟩)
  rw [entryToBranch_obj, entryToBranchObj_eq T o n1 n2 id _ h1 h2 h3 h4]
  simp only [dispatch, hnone]

/-- **C19 (load_network, unknown element type).**  A description whose entries before position `|pre|` load and
whose entry at that position has its four structural keys and a type string that is no key of the generated
`network_branch_translators` raises `FileExistsError` (the `KeyError` of the table lookup, re-raised) — for every
description, every position, whatever follows. -/
theorem C19_load_unknown_type (T : Load.Trig) (pre post : List J) (o : Obj) (n1 n2 id : J) (kind : String)
    (hpre : ∀ y ∈ pre, ∃ b, (entryToBranch T y).1 = .ok b)
    (h1 : Obj.find o "N1" = some n1) (h2 : Obj.find o "N2" = some n2) (h3 : Obj.find o "id" = some id)
    (h4 : Obj.find o "type" = some (.str kind)) (hk : kind ∉ networkBranchTranslators.map (·.kind)) :
    (loadNetwork T (.arr (pre ++ .obj o :: post))).1 = .error .fileExists := by
  rw [C19_load_reject_first T pre post _ _ hpre (C19_load_entry_unknown_type T o n1 n2 id kind h1 h2 h3 h4 hk)]
  rw [mapLoadErr_values.1]

/-- … and without any hypothesis on the other entries the description is rejected (the exception is then that
of the first entry that fails) -/
theorem C19_load_unknown_type_anywhere (T : Load.Trig) (es : List J) (o : Obj) (n1 n2 id : J) (kind : String)
    (he : J.obj o ∈ es)
    (h1 : Obj.find o "N1" = some n1) (h2 : Obj.find o "N2" = some n2) (h3 : Obj.find o "id" = some id)
    (h4 : Obj.find o "type" = some (.str kind)) (hk : kind ∉ networkBranchTranslators.map (·.kind)) :
    ∃ x, (loadNetwork T (.arr es)).1 = .error x :=
  C19_load_reject_mem T es _ he _ (C19_load_entry_unknown_type T o n1 n2 id kind h1 h2 h3 h4 hk)

/-- **C19 (load_network, type that is no string).**  A number / boolean / `None` as type is a `KeyError`
(`FileExistsError`), a list / dictionary is unhashable (`TypeError`). -/
theorem C19_load_type_not_string (T : Load.Trig) (pre post : List J) (o : Obj) (n1 n2 id ty : J)
    (hpre : ∀ y ∈ pre, ∃ b, (entryToBranch T y).1 = .ok b)
    (h1 : Obj.find o "N1" = some n1) (h2 : Obj.find o "N2" = some n2) (h3 : Obj.find o "id" = some id)
    (h4 : Obj.find o "type" = some ty) (hs : ∀ kind, ty ≠ .str kind) :
    (loadNetwork T (.arr (pre ++ .obj o :: post))).1 = .error .fileExists ∨
    (loadNetwork T (.arr (pre ++ .obj o :: post))).1 = .error .typeError := by
  have he : (entryToBranch T (.obj o)).1 = dispatch T n1 n2 ty (stripped o id) := by
    rw [entryToBranch_obj, entryToBranchObj_eq T o n1 n2 id _ h1 h2 h3 h4]
  cases ty with
  | str kind => exact absurd rfl (hs kind)
  | arr _ => right; rw [C19_load_reject_first T pre post _ _ hpre he, mapLoadErr_values.2.1]
  | obj _ => right; rw [C19_load_reject_first T pre post _ _ hpre he, mapLoadErr_values.2.1]
  | null => left; rw [C19_load_reject_first T pre post _ _ hpre he, mapLoadErr_values.1]
  | bool _ => left; rw [C19_load_reject_first T pre post _ _ hpre he, mapLoadErr_values.1]
  | num _ => left; rw [C19_load_reject_first T pre post _ _ hpre he, mapLoadErr_values.1]
  | cx _ => left; rw [C19_load_reject_first T pre post _ _ hpre he, mapLoadErr_values.1]

/-- **C19 (load_network, missing structural key).**  An entry lacking `N1`, `N2`, `id` or `type` raises
`FileExistsError` (the `KeyError` of `entry.pop`), at every position (entries before it load). -/
theorem C19_load_missing_key (T : Load.Trig) (pre post : List J) (o : Obj) (k : String)
    (hpre : ∀ y ∈ pre, ∃ b, (entryToBranch T y).1 = .ok b)
    (hk : k ∈ ["N1", "N2", "id", "type"]) (h : Obj.find o k = none) :
    (loadNetwork T (.arr (pre ++ .obj o :: post))).1 = .error .fileExists := by
  have he : (entryToBranch T (.obj o)).1 = .error .keyError := by
    rw [entryToBranch_obj]; exact entryToBranchObj_missing T o k hk h
  rw [C19_load_reject_first T pre post _ _ hpre he, mapLoadErr_values.1]

/-- … rejected wherever it stands, whatever the other entries are -/
theorem C19_load_missing_key_anywhere (T : Load.Trig) (es : List J) (o : Obj) (k : String) (he : J.obj o ∈ es)
    (hk : k ∈ ["N1", "N2", "id", "type"]) (h : Obj.find o k = none) :
    ∃ x, (loadNetwork T (.arr es)).1 = .error x :=
  C19_load_reject_mem T es _ he _ (by rw [entryToBranch_obj]; exact entryToBranchObj_missing T o k hk h)

/-- **C19 (load_network, entry that is no dictionary).**  A description containing an entry that is no
dictionary (a number, a string, a list, `None`) is rejected, wherever the entry stands. -/
theorem C19_load_not_a_dict (T : Load.Trig) (es : List J) (e : J) (he : e ∈ es) (hno : ∀ o, e ≠ .obj o) :
    ∃ x, (loadNetwork T (.arr es)).1 = .error x := by
  cases h : (entryToBranch T e).1 with
  | error x => exact C19_load_reject_mem T es e he x h
  | ok b => obtain ⟨o, ho⟩ := entryToBranch_ok_obj T e b h; exact absurd ho (hno o)

/-- what `load_network` answers when some entry fails to load: the error of the first such entry, with
`KeyError` reported as `FileExistsError` -/
def FirstEntryError (T : Load.Trig) (es : List J) : Prop :=
  ∃ x, (loadEntries T es).1 = .error x ∧ (loadNetwork T (.arr es)).1 = .error (mapLoadErr x)

/-- **C19 (load_network, reference node touching nothing).**  A non-empty description none of whose entries has
`N1` or `N2` equal to the reference label `'0'` raises `FloatingGroundNode` — unless an entry fails to load, in
which case the exception is that entry's.  (An empty description is accepted: `Network([])`.) -/
theorem C19_load_floating (T : Load.Trig) (es : List J) (hne : es ≠ [])
    (h : ∀ e ∈ es, entryKey e "N1" ≠ some (.str "0") ∧ entryKey e "N2" ≠ some (.str "0")) :
    (loadNetwork T (.arr es)).1 = .error .floatingGround ∨ FirstEntryError T es := by
  cases hl : (loadEntries T es).1 with
  | error x => right; exact ⟨x, hl, by rw [loadNetwork_arr, hl]⟩
  | ok bs =>
    left
    have hmap := loadEntries_ok_map T (fun e => (entryKey e "N1", entryKey e "N2")) (fun b => (some b.n1, some b.n2))
      (entryToBranch_nodes T) es bs hl
    have hbne : bs.isEmpty = false := by
      cases bs with
      | nil => cases es with
        | nil => exact absurd rfl hne
        | cons _ _ => simp at hmap
      | cons _ _ => rfl
    have hany : (bs.any fun b => b.n1 == J.str "0" || b.n2 == J.str "0") = false := by
      rw [List.any_eq_false]
      intro b hb
      have : (some b.n1, some b.n2) ∈ es.map (fun e => (entryKey e "N1", entryKey e "N2")) := by
        rw [← hmap]; exact List.mem_map.mpr ⟨b, hb, rfl⟩
      obtain ⟨e, hem, hee⟩ := List.mem_map.mp this
      simp only [Prod.mk.injEq] at hee
      obtain ⟨q1, q2⟩ := h e hem
      simp only [Bool.or_eq_true, beq_iff_eq, not_or]
      constructor
      · intro hc; apply q1; rw [hee.1, hc]
      · intro hc; apply q2; rw [hee.2, hc]
    rw [loadNetwork_arr, hl]
    simp only [checkLoaded, hbne, hany]
    simp [mapLoadErr_values.2.2.2.1]

/-- **C19 (load_network, duplicate ids).**  A description in which two entries carry the same `id` is rejected:
`AmbiguousBranchIDs`, or `FloatingGroundNode` if the reference node is missing as well (checked first by
`Network.__post_init__`), or the exception of the first entry that fails to load.  Uses that a loaded branch
carries the entry's `id` as its name for EVERY row of the generated table (`entryToBranch_name`). -/
theorem C19_load_dup_id (T : Load.Trig) (es : List J) (hd : ¬ (es.map (entryKey · "id")).Nodup) :
    (loadNetwork T (.arr es)).1 = .error .floatingGround ∨ (loadNetwork T (.arr es)).1 = .error .ambiguousIds ∨
    FirstEntryError T es := by
  cases hl : (loadEntries T es).1 with
  | error x => right; right; exact ⟨x, hl, by rw [loadNetwork_arr, hl]⟩
  | ok bs =>
    have hmap := loadEntries_ok_map T (entryKey · "id") (fun b => some b.name) (entryToBranch_name T) es bs hl
    have hnd : ¬ (bs.map (·.name)).Nodup := by
      intro hn
      apply hd
      rw [← hmap]
      have : bs.map (fun b => some b.name) = (bs.map (·.name)).map some := by simp
      rw [this]
      exact hn.map (fun a b hab => Option.some.inj hab)
    have hlen : (dedupL (bs.map (·.name))).length ≠ bs.length := by
      intro he
      apply hnd
      apply (circ_dedupL_length_eq_iff _).mp
      simpa using he
    rw [loadNetwork_arr, hl]
    simp only [checkLoaded]
    by_cases hg : (!bs.isEmpty && !bs.any fun b => b.n1 == J.str "0" || b.n2 == J.str "0") = true
    · left; rw [if_pos hg]; simp only [mapLoadErr_values.2.2.2.1]
    · right; left; rw [if_neg hg, if_pos hlen]; simp only [mapLoadErr_values.2.2.2.2]

/-- … for every pair of positions carrying the same `id` -/
theorem C19_load_dup_id_positions (T : Load.Trig) (es : List J) (i j : Nat) (hij : i < j) (hj : j < es.length)
    (h : entryKey (es[i]'(Nat.lt_trans hij hj)) "id" = entryKey (es[j]'hj) "id") :
    ∃ x, (loadNetwork T (.arr es)).1 = .error x := by
  have hd : ¬ (es.map (entryKey · "id")).Nodup := by
    intro hn
    have hi : i < (es.map (entryKey · "id")).length := by simpa using Nat.lt_trans hij hj
    have hj' : j < (es.map (entryKey · "id")).length := by simpa using hj
    have := (List.nodup_iff_injective_get.mp hn) (a₁ := ⟨i, hi⟩) (a₂ := ⟨j, hj'⟩) (by simpa using h)
    have : i = j := by simpa using congrArg Fin.val this
    omega
  rcases C19_load_dup_id T es hd with h | h | ⟨x, _, h⟩ <;> exact ⟨_, h⟩

end CC

namespace CC
open CC.Load CC.Gen.Load

/-- **C19 (load_network, missing required keyword).**  An entry of a known type that lacks a keyword its element
factory requires (a parameter without default other than `name`: `R`, `G`, `Z`, `Y`, `I`, `V`) is rejected,
wherever it stands — for every row of the generated `network_branch_translators` / `elementFactories`.  The
exception class is not stated: it is `KeyError`→`FileExistsError` when the row reads the key itself
(`kwargs.pop('Z')`), `TypeError` when the factory misses its argument, or that of an earlier failing entry. -/
theorem C19_load_missing_value_key (T : Load.Trig) (es : List J) (o : Obj) (id : J) (kind : String) (L : NetLoader)
    (f : ElemFactory) (p : String) (he : J.obj o ∈ es)
    (h3 : Obj.find o "id" = some id) (h4 : Obj.find o "type" = some (.str kind))
    (hL : networkBranchTranslators.find? (fun L => L.kind == kind) = some L)
    (hf : elementFactories.find? (fun f => f.name == L.factory) = some f)
    (hp : (p, none) ∈ f.params) (hpn : p ≠ "name") (hmiss : Obj.find o p = none) :
    ∃ x, (loadNetwork T (.arr es)).1 = .error x := by
  obtain ⟨x, hx⟩ := entryToBranch_missing_value T o id kind L f p h3 h4 hL hf hp hpn hmiss
  exact C19_load_reject_mem T es _ he x hx

/-! ## non-vacuity -/

section Examples
open CC.Spec.Load

/-- a resistor that loads, used as the prefix of the examples -/
def c19GoodEntry : J := (⟨.resistor (.num 5), "R1", "1", "0"⟩ : Placed).tree

theorem c19GoodEntry_loads (T : Load.Trig) : ∀ y ∈ [c19GoodEntry], ∃ b, (entryToBranch T y).1 = .ok b := by
  intro y hy
  simp only [List.mem_singleton] at hy
  subst hy
  exact ⟨_, by rw [c19GoodEntry, Load.entryToBranch_faithful]⟩

example (T : Load.Trig) : (loadNetwork T (.arr ([c19GoodEntry] ++
    .obj [("N1", .str "1"), ("N2", .str "0"), ("id", .str "X"), ("type", .str "widget"), ("R", .num 1)] :: [c19GoodEntry]))).1
      = .error .fileExists :=
  C19_load_unknown_type T _ _ _ (.str "1") (.str "0") (.str "X") "widget" (c19GoodEntry_loads T)
    (by decide) (by decide) (by decide) (by decide) (by decide)

example (T : Load.Trig) : (loadNetwork T (.arr ([c19GoodEntry] ++
    .obj [("N1", .str "1"), ("id", .str "X"), ("type", .str "resistor"), ("R", .num 1)] :: []))).1
      = .error .fileExists :=
  C19_load_missing_key T _ _ _ "N2" (c19GoodEntry_loads T) (by decide) (by decide)

example (T : Load.Trig) : ∃ x, (loadNetwork T (.arr [c19GoodEntry,
    .obj [("N1", .str "1"), ("N2", .str "0"), ("id", .str "X"), ("type", .str "resistor")]])).1 = .error x :=
  C19_load_missing_value_key T _ [("N1", .str "1"), ("N2", .str "0"), ("id", .str "X"), ("type", .str "resistor")]
    (.str "X") "resistor" { kind := "resistor", factory := "resistor" }
    { name := "resistor", params := [("name", none), ("R", none)], norton := true, a := .param "R", b := .const 0, ty := "resistor" }
    "R" (by simp) (by decide) (by decide) (by decide) (by decide) (by decide) (by decide) (by decide)

/-- two loadable resistors between nodes 1 and 2: the reference node touches nothing -/
example (T : Load.Trig) : (loadNetwork T (.arr (([⟨.resistor (.num 5), "R1", "1", "2"⟩, ⟨.resistor (.num 5), "R2", "2", "1"⟩] :
    List Placed).map Placed.tree))).1 = .error .floatingGround := by
  have hl := Load.loadEntries_faithful T [⟨.resistor (.num 5), "R1", "1", "2"⟩, ⟨.resistor (.num 5), "R2", "2", "1"⟩]
  rcases C19_load_floating T (([⟨.resistor (.num 5), "R1", "1", "2"⟩, ⟨.resistor (.num 5), "R2", "2", "1"⟩] :
    List Placed).map Placed.tree) (by simp) (by decide) with h | ⟨x, hx, _⟩
  · exact h
  · rw [hl] at hx; cases hx

/-- the same identifier at positions 0 and 2 -/
example (T : Load.Trig) : ∃ x, (loadNetwork T (.arr [c19GoodEntry, (⟨.resistor (.num 5), "R2", "2", "1"⟩ : Placed).tree,
    c19GoodEntry])).1 = .error x :=
  C19_load_dup_id_positions T _ 0 2 (by decide) (by decide) rfl

/-- an unknown branch id against a model object (hypothesis of `C19_transient_unknown_voltage`) -/
example : Gen.State.NodalStateSpaceModel.c_row_voltage (L := String) (K := Rat)
    ⟨⟨0, 0, []⟩, ⟨0, 0, []⟩, ⟨0, 0, []⟩, ⟨0, 0, []⟩, ⟨[⟨"1", "0", "R", "", .norton 1 0⟩], "0"⟩, [], [], ⟨["1"]⟩, ⟨[]⟩, ⟨[]⟩⟩ "nope"
      = .error .keyError :=
  (C19_transient_unknown_voltage _ "nope" (by decide)).1

end Examples
end CC
