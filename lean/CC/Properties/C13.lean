/-
  C13 — schematic drawings are read as the netlist they depict.

  Model: CC/Model/Draw.lean (parser, translator interpreter) over the generated tables
  CC/Gen/DrawTables.lean.  Spec: CC/Spec/Draw.lean (`Joined`, `Realises`,
  `SameUpToRenaming`).  Helper lemmas: CC/Proofs/Draw{Closure,Parser,Spec,Tables}.lean.

  Every theorem holds for *every* iteration order `ord` of the Python sets
  (`ord.Valid`: the orders are permutations) and, where the point type is not fixed, for
  every point type.
-/
import CC.Proofs.DrawTables
import CC.Proofs.DrawSpec
namespace CC
open CC.Draw

/-! ## the wire closure -/

/-- `_get_equal_electrical_potential_nodes(p)` is exactly the set of points that coincide
with `p` or are joined to it by a chain of wires (soundness and completeness). -/
theorem C13_closure {P : Type} [DecidableEq P] (ws : List (P × P)) (p q : P) :
    q ∈ eqp ws p ↔ Joined ws p q :=
  mem_eqp_iff ws p q

/-- The `while` loop ends by its own condition within the fuel `2·|wires| + 1`: the returned
set is a fixed point of the loop body (a further sweep adds nothing). -/
theorem C13_closure_terminates {P : Type} [DecidableEq P] (ws : List (P × P)) (p : P) :
    sweep ws (eqp ws p) = eqp ws p := by
  have hc := eqp_closed ws p
  have : ∀ l : List (P × P), (∀ w ∈ l, w ∈ ws) → sweep l (eqp ws p) = eqp ws p := by
    intro l
    induction l with
    | nil => intro _; rfl
    | cons w l ih =>
      intro hl
      rw [sweep_cons]
      have hw := hc w (hl w List.mem_cons_self)
      have : stp (eqp ws p) w = eqp ws p := by
        unfold stp
        by_cases h1 : w.1 ∈ eqp ws p
        · simp [h1, sadd_of_mem (hw.mp h1)]
        · have h2 : w.2 ∉ eqp ws p := fun h => h1 (hw.mpr h)
          simp [h1, h2]
      rw [this]
      exact ih (fun w' h => hl w' (List.mem_cons_of_mem _ h))
  exact this ws (fun _ h => h)

example : eqp [((1 : Nat), 2), (3, 2), (4, 5)] 1 = [3, 2, 1] := by decide

/-! ## representatives and node names -/

/-- `unique_nodes` is a duplicate-free subset of `all_nodes` with exactly one element in
every class, and the set from which `unique_node_mapping` pops has at most one element —
for every set iteration order. -/
theorem C13_unique_rep {P : Type} [DecidableEq P] (ws : List (P × P)) (ord : SetOrd P)
    (hord : ord.Valid) (all : List P) (hall : all.Nodup) :
    UniqueOK ws all (uniqueNodes ws ord all) ∧
      ∀ n, ((uniqueNodes ws ord all).filter (· ∈ (eqp ws n).filter (· ≠ n))).length ≤ 1 :=
  ⟨uniqueNodes_ok ws hord hall, fun n => urep_candidates_le_one (uniqueNodes_ok ws hord hall) n⟩

/-- Two terminals get the same node name iff they coincide or are joined by wires: the naming
*realises* the wire partition.  Hypotheses: labelled-node symbols sit on terminals and no
name is used on two different electrical nodes (`NodeSymsWF`). -/
theorem C13_same_label_iff {P : Type} [DecidableEq P] (ws : List (P × P)) (ord : SetOrd P)
    (hord : ord.Valid) (all : List P) (hall : all.Nodup) (nodeSyms : List (P × String))
    (hwf : NodeSymsWF ws all nodeSyms) :
    ∃ lab : P → String,
      (∀ p ∈ all, getNodeIndex ws ord all nodeSyms p = .ok (lab p)) ∧ Realises ws all lab :=
  getNodeIndex_spec ws hord hall hwf

/-- non-vacuity: a two-resistor divider with a wire, a label and both iteration orders reversed -/
example :
    let ws : List (Nat × Nat) := [(2, 3)]
    let ord : SetOrd Nat := ⟨List.reverse, List.reverse⟩
    (getNodeIndex ws ord [0, 1, 2, 3] [(3, "A")] 2, getNodeIndex ws ord [0, 1, 2, 3] [(3, "A")] 3,
      getNodeIndex ws ord [0, 1, 2, 3] [(3, "A")] 0) = (.ok "A", .ok "A", .ok "3") := by decide

/-- A node or ground symbol names the electrical node it sits on (when several symbols sit on
one node, the last one in drawing order wins). -/
theorem C13_named {P : Type} [DecidableEq P] (ws : List (P × P)) (ord : SetOrd P)
    (hord : ord.Valid) (all : List P) (hall : all.Nodup) (pre post : List (P × String))
    (ps : P × String) (hwf : NodeSymsWF ws all (pre ++ ps :: post))
    (hlast : ∀ ps' ∈ post, ¬ Joined ws ps.1 ps'.1) :
    getNodeIndex ws ord all (pre ++ ps :: post) ps.1 = .ok ps.2 :=
  getNodeIndex_named ws hord hall hwf hlast

/-! ## polarity -/

/-- Every translator treats the reversal flag consistently — only an amplitude argument (`V` or `I`)
looks at the flag, and it is negated exactly when the terminals are swapped (`TrCase.polarityOK`,
evaluated on the generated translator bodies; passive symbols swap without a sign, 006d781) —
and for such a translator the signed argument
evaluates to the attribute value, negated exactly when the terminals are swapped: the source
contributes its element value from `start` to `end` whether or not it is marked reversed. -/
theorem C13_polarity :
    (∀ t ∈ Gen.translators, translatorPolarityOK t = true) ∧
    (∀ (π : Rat) (s : Sym) (e : VExpr),
      evalV π s (.ifNotRev e (.neg e)) = if s.rev then evalV π s (.neg e) else evalV π s e) ∧
    (∀ (rev : Bool) (a b : String) (rest : List String),
      nodeTuple .pairSwapIfRev rev (a :: b :: rest) = .ok (if rev then [b, a] else [a, b])) ∧
    (∀ (π : Rat) (s : Sym) (r : Bool) (e : VExpr), e.revFree = true →
      evalV π { s with rev := r } e = evalV π s e) :=
  ⟨by decide, evalV_signed, nodeTuple_swap, evalV_revFree⟩

/-- regression (finding 1, repaired by db741a0): a non-reversed complex current source is
translated, with its own value from `start` to `end` -/
example :
    translateSym 3 (fun _ => .ok "n")
        { cls := "ComplexCurrentSource", name := "I1", rev := false, attrs := [("I", .num ⟨1, 2⟩)],
            start := ⟨0, 0⟩, stop := ⟨0, 1⟩ }
      = .ok (some { type := "complex_current_source", id := "I1", nodes := ["n", "n"],
                      value := [("I_real", .num ⟨1, 0⟩), ("I_imag", .num ⟨2, 0⟩), ("G", .num ⟨0, 0⟩), ("B", .num ⟨0, 0⟩)] }) := by
  decide +kernel

/-- a reversed DC source of element value −5 between nodes a (start) and b (end) is listed from
b to a with value +5: the same source -/
example :
    translateSym 3 (fun p => .ok (if p = ⟨0, 0⟩ then "a" else "b"))
        { cls := "VoltageSource", name := "V1", rev := true, attrs := [("V", .num ⟨-5, 0⟩)],
            start := ⟨0, 0⟩, stop := ⟨0, 1⟩ }
      = .ok (some { type := "dc_voltage_source", id := "V1", nodes := ["b", "a"],
                      value := [("V", .num ⟨5, 0⟩), ("R", .num 0), ("w", .num 0), ("phi", .num 0)] }) := by
  decide +kernel

/-! ## the translated circuit -/

/-- what a drawing must satisfy for the netlist theorem: no name on two different nodes -/
def C13_DrawingWF (syms : List Sym) : Prop :=
  ∀ ps ∈ nodeSymsOf syms, ∀ ps' ∈ nodeSymsOf syms, ps.2 = ps'.2 → Joined (wiresOf syms) ps.1 ps'.1

/-- What is proved about `circuit_translator`: a node naming `lab` exists that is defined on every
terminal of every named symbol, *realises* the wire partition (same name ⇔ joined), and is the
naming `labelOf` the translation uses.  The fourth conjunct only unfolds the definition of
`circuitTranslator` (it is `rfl`, it needs no hypothesis): the components are the per-symbol
translations `translateSym` — an interpretation of the generated translator tables — under that
naming.  NOT proved here: that kinds and values are those of an independent Spec of the symbols
(the tables are tied to the code by generation, `C13_polarity` / `C13_tables` and the
correspondence; the intended netlist is judged by the oracle), that the reference node
(`groundNode`) is the node of the ground symbol, and that two translations agree up to a renaming
(see `OPEN_STATEMENTS` of harness/props/c13.py).  `C13_realising_unique`: two realising namings
induce the same partition. -/
theorem C13_netlist (π : Rat) (ord : SetOrd Pt) (hord : ord.Valid) (syms : List Sym) (hwf : C13_DrawingWF syms) :
    ∃ lab : Pt → String,
      Realises (wiresOf syms) (allNodes syms) lab ∧
      (∀ p ∈ allNodes syms, labelOf ord syms p = .ok (lab p)) ∧
      (∀ s ∈ syms, s.hasName = true → s.n1 ∈ allNodes syms ∧ s.n2 ∈ allNodes syms) ∧
      circuitTranslator π ord syms =
        (do let cs ← syms.mapM (translateSym π (labelOf ord syms)); mkCircuit (cs.filterMap id)) := by
  have hT : nodeClassesNamed = true := by decide
  obtain ⟨lab, h1, h2⟩ := getNodeIndex_spec (wiresOf syms) hord (nodup_allNodes syms)
    (nodeSyms := nodeSymsOf syms) ⟨nodeSyms_on_terminal hT syms, hwf⟩
  exact ⟨lab, h2, h1, fun s hs hn => mem_allNodes_of_named hs hn, rfl⟩

theorem C13_realising_unique {P L L' : Type} (ws : List (P × P)) (pts : List P) (lab : P → L) (lab' : P → L')
    (h : Realises ws pts lab) (h' : Realises ws pts lab') : SameUpToRenaming pts lab lab' :=
  fun p hp q hq => (h p hp q hq).trans (h' p hp q hq).symm

/-! ## metamorphic statements -/

/-- **geometry** (a statement about the Spec relation `Joined` only — no model or generated term
occurs in it): IF a coordinate map `f` is injective on the points used (`hinj`, an assumption:
that *rounding ∘ rotation / translation / rescaling* is injective on the terminals of a given
drawing is a fact about float geometry, checked per case by the oracle, never discharged
here), THEN it preserves and reflects "joined by wires", and namings that realise the original
and the transformed wire list induce the same partition.  That the two *translated circuits*
agree up to renaming, and hence have the same solution, is judged by the metamorphic streams only. -/
theorem C13_geometry {P Q L L' : Type} (f : P → Q) (D : P → Prop) (ws : List (P × P))
    (hinj : ∀ x y, D x → D y → f x = f y → x = y) (hD : CoversWires D ws) :
    (∀ p q, D p → D q → (Joined (mapWires f ws) (f p) (f q) ↔ Joined ws p q)) ∧
    (∀ (pts : List P) (lab : P → L) (lab' : Q → L'), (∀ p ∈ pts, D p) →
      Realises ws pts lab → Realises (mapWires f ws) (pts.map f) lab' →
      SameUpToRenaming pts lab (lab' ∘ f)) := by
  refine ⟨fun p q hp hq => joined_map_iff hinj hD hp hq, ?_⟩
  intro pts lab lab' hpts h h' p hp q hq
  rw [h p hp q hq]
  have := h' (f p) (List.mem_map.mpr ⟨p, hp, rfl⟩) (f q) (List.mem_map.mpr ⟨q, hq, rfl⟩)
  rw [Function.comp, Function.comp, this]
  exact (joined_map_iff hinj hD (hpts p hp) (hpts q hq)).symm

/-- **wire split** (again a lemma about `Joined` on wire lists, not about the model): replacing a
wire by a chain through fresh, pairwise distinct points does not change which of the original
points are joined.  Its lifting to translated circuits is judged by the oracle (`subdivide`). -/
theorem C13_wire_split {P : Type} [DecidableEq P] (pre post : List (P × P)) (a b : P) (cs : List P)
    (hfresh : ∀ c ∈ cs, FreshPt c (pre ++ (a, b) :: post)) (hnd : cs.Nodup)
    (p q : P) (hp : p ∉ cs) (hq : q ∉ cs) :
    Joined (pre ++ chainWires a cs b ++ post) p q ↔ Joined (pre ++ (a, b) :: post) p q :=
  joined_chain_iff cs hfresh hnd hp hq

example : chainWires (0 : Nat) [7, 8] 1 = [(0, 7), (7, 8), (8, 1)] := rfl

/-- **order**: permuting the symbol list permutes the model's wire list (`wiresOf`) and keeps
`allNodes` as a set, hence keeps `Joined`.  The third conjunct is the generic
`List.Perm.filterMap` (any per-symbol function commutes with the permutation); that the node
*naming*, the reference node and the solution are unaffected is judged by the oracle (`shuffle`). -/
theorem C13_order (syms syms' : List Sym) (h : syms.Perm syms') :
    (∀ p q, Joined (wiresOf syms) p q ↔ Joined (wiresOf syms') p q) ∧
    (∀ p, p ∈ allNodes syms ↔ p ∈ allNodes syms') ∧
    (∀ g : Sym → Option Component, (syms.filterMap g).Perm (syms'.filterMap g)) := by
  refine ⟨fun p q => joined_perm ((h.filter _).map _), fun p => ?_, fun g => h.filterMap g⟩
  unfold allNodes
  simp only [mem_toSet, List.mem_append, List.mem_map, List.mem_filter]
  constructor <;>
  · rintro (((⟨s, ⟨hs, hn⟩, rfl⟩ | ⟨s, ⟨hs, hn⟩, rfl⟩) | ⟨s, ⟨hs, hn⟩, rfl⟩) | ⟨s, ⟨hs, hn⟩, rfl⟩)
    · exact Or.inl (Or.inl (Or.inl ⟨s, ⟨by first | exact h.mem_iff.mp hs | exact h.mem_iff.mpr hs, hn⟩, rfl⟩))
    · exact Or.inl (Or.inl (Or.inr ⟨s, ⟨by first | exact h.mem_iff.mp hs | exact h.mem_iff.mpr hs, hn⟩, rfl⟩))
    · exact Or.inl (Or.inr ⟨s, ⟨by first | exact h.mem_iff.mp hs | exact h.mem_iff.mpr hs, hn⟩, rfl⟩)
    · exact Or.inr ⟨s, ⟨by first | exact h.mem_iff.mp hs | exact h.mem_iff.mpr hs, hn⟩, rfl⟩

/-! ## generated-table obligations -/

/-- The generated tables are closed and unambiguous: class names and map keys are distinct,
every translator / constructor the map refers to was extracted, node classes carry names,
every named symbol class (but `Admittance`) has a translator, the sine shift of a phase given in
degrees is 90 (finding 2, repaired by 0b34a29), every two-terminal translator swaps its terminals
under `reverse` (006d781), coordinates are snapped to 9 decimals before they are rounded to the
2-decimal node grid (631ff19). -/
theorem C13_tables :
    classNamesDistinct = true ∧ translatorMapKeysDistinct = true ∧ translatorMapClosed = true ∧
    nodeClassesNamed = true ∧ namedClassesTranslated = true ∧ sinShiftInDegrees = true ∧
    allTwoTerminalSwap = true ∧ Gen.roundDigits = [9, 2] := by decide

end CC
