/-
  Property C09, round 5 — the three statements that rested on correspondence + oracle only.

  (a) spectral lines = C02 peak phasors.  `tdSolutions`, `fdSolutions`, `tdLines`, `fdLines`, `fdGet`, `tdValue`
      below transcribe `TimeDomainSolution.__post_init__ / get_*` and `FrequencyDomainSolution.__post_init__ /
      get_*` of Circuit/solution.py line by line out of the *existing* model functions (`transform`,
      `transformCircuit`, `cxNet`, `cxGet`, `Net.quantity`, `series`, `timeValue`); the solver is a parameter.
        C09_line_phasor            the k-th value either class stores for quantity q IS
                                   `cxGet true r2 N_k (solve N_k) q id` with `cxNet … w_k = ok N_k`
                                   (`ComplexSolution(w_k, peak_values=True).get_q(id)`), as many lines as frequencies
        C09_line_td_eq_fd          the batch `transform(circuit, w=self.w)` of TimeDomainSolution and the
                                   per-frequency `ComplexSolution` objects of FrequencyDomainSolution hold the same
                                   (network, solution) pairs; the raw accessors of the one are the peak accessors of the other
        C09_line_phasor_td         the same for `TimeDomainSolution`: its time value is `timeValue` of those phasors
        C09_line_frequencies       composed with `frequencyComponents`: the statement for the frequency list the model computes
        C09_line_two_sided         two-sided getter: c(w_k) = X_k/2, c(−w_k) = conj X_k/2 with X_k that C02 phasor
        C09_line_circuit_eqs       composed with C02_exact: the stored lines solve the circuit equations of the intended
                                   phasor network at w_k
  (b) a periodic source's own voltage is the truncated Fourier series.
        C09_periodic_frequencies   one periodic source: the analysed frequencies are k·w0, k = 0 … ⌊w_max/w0⌋
        C09_periodic_own_line      ideal periodic voltage source in any circuit, at k·w0: every solution of the code's matrix
                                   equation reports amplitude(k)·(cos phase(k) + j sin phase(k)) as the source's own voltage
        C09_periodic_own_line_current  the dual: the own current of an ideal periodic current source
        C09_periodic_time_value    … hence the model's time value is Σ_k (a_k·c_k + b_k·s_k), a_k = A_k cos φ_k, b_k = −A_k sin φ_k
        C09_truncated_fourier      over ℝ/ℂ, every t, every N: Σ_{k≤N} Re(X_k e^{j k w0 t}) = Σ_{k≤N} (a_k cos + b_k sin)
                                   = amplitude(0) + Σ_{1≤n≤N} amplitude(n) cos(2πn t/T + phase(n)),  X_k, a_k, b_k of CC/Gen/Fourier.lean
        C09_reconstruction_mean_square  with C08_mean_square: the reconstruction converges to the waveform in the mean square
  (c) superposition of sources, currents.
        C09_superpose_sources_currents  physical currents of all branches, reported currents of branches that are no lossy
                                   source in any of the three networks
-/
import CC.Proofs.MultiFreqLine
import CC.Properties.C09
import CC.Properties.C02
import CC.Properties.C08
set_option linter.unusedSectionVars false
set_option linter.unusedVariables false

namespace CC
open Gen

/-! ## (a) the lines are the peak phasors of C02 -/

/-- `ComplexSolution.__post_init__` (solution.py:66-68): `network = transform(self.circuit, w=[self.w])[0]`,
`self._solution = self.solver(network)` — the network is `cxNet` of C02 (`transform_one` below) -/
def cxSolution (trig : Trig) (harm : Harm) (solve : Net String GQ → List GQ) (C : Circuit) (w : Rat) :
    Except Err (Net String GQ × List GQ) := do
  let N ← cxNet trig harm C w
  pure (N, solve N)

/-- `FrequencyDomainSolution.__post_init__` (solution.py:124):
`[ComplexSolution(circuit=self.circuit, solver=self.solver, w=w, peak_values=True) for w in self.w]` -/
def fdSolutions (trig : Trig) (harm : Harm) (solve : Net String GQ → List GQ) (C : Circuit) (ws : List Rat) :
    Except Err (List (Net String GQ × List GQ)) :=
  ws.mapM (cxSolution trig harm solve C)

/-- `TimeDomainSolution.__post_init__` (solution.py:95-96): `networks = transform(self.circuit, w=self.w)`,
`self._solutions = [self.solver(network) for network in networks]` -/
def tdSolutions (trig : Trig) (harm : Harm) (solve : Net String GQ → List GQ) (C : Circuit) (ws : List Rat) :
    Except Err (List (Net String GQ × List GQ)) := do
  let nets ← transform Gen.tables trig harm C ws Gen.defaultWResTransform
  pure (nets.map fun N => (N, solve N))

/-- `[solution.get_q(id) for solution in self._solutions]` of `FrequencyDomainSolution.get_*`
(the solutions are `ComplexSolution(…, peak_values=True)` objects: `cxGet true`) -/
def fdLines (r2 : Rat) (sols : List (Net String GQ × List GQ)) (q : Quantity) (id : String) : Except Err (List GQ) :=
  sols.mapM fun s => cxGet true r2 s.1 s.2 q id

/-- `[solution.get_q(id) for solution in self._solutions]` of `TimeDomainSolution.get_*`
(the solutions are the raw network solutions: `Net.quantity`) -/
def tdLines (sols : List (Net String GQ × List GQ)) (q : Quantity) (id : String) : Except Err (List GQ) :=
  sols.mapM fun s => s.1.quantity s.2 q id

/-- `FrequencyDomainSolution.get_q(id)` after the identifier check: `self._series(np.array([…]))` -/
def fdGet (oneSided : Bool) (r2 : Rat) (ws : List Rat) (sols : List (Net String GQ × List GQ)) (q : Quantity)
    (id : String) : Except Err (List Rat × List GQ) := do
  let X ← fdLines r2 sols q id
  pure (series oneSided ws X)

/-- `TimeDomainSolution.get_q(id)(t)` after the identifier check, at the instant whose units are
`cs[k] = (cos(w_k t), sin(w_k t))`: `np.sum([np.abs(V)*np.cos(w*t+np.angle(V)) for V, w in zip(values, self.w)])` -/
def tdValue (sols : List (Net String GQ × List GQ)) (q : Quantity) (id : String) (cs : List (Rat × Rat)) :
    Except Err Rat := do
  let X ← tdLines sols q id
  pure (timeValue (X.zip cs))

/-- `transform(circuit, w=[w])[0]` is the network `cxNet` of C02 -/
theorem transform_one (trig : Trig) (harm : Harm) (C : Circuit) (w : Rat) :
    transform Gen.tables trig harm C [w] Gen.defaultWResTransform = (cxNet trig harm C w).map fun N => [N] := by
  unfold transform cxNet
  rw [List.mapM_cons, List.mapM_nil]
  cases transformCircuit Gen.tables trig harm C w Gen.defaultWResTransform <;>
    simp [bind, Except.bind, pure, Except.pure, Except.map]

/-- **C09 (line, the two classes agree).**  The batch `transform(circuit, w=self.w)` + solver of
`TimeDomainSolution` and the list of `ComplexSolution(w=w, peak_values=True)` objects of
`FrequencyDomainSolution` hold the same (network, solution vector) pairs — for every circuit, every list
of frequencies, every solver, failures included (same first error) — and on them the raw accessors
`solution.get_q(id)` of the one are the peak accessors of the other. -/
theorem C09_line_td_eq_fd (trig : Trig) (harm : Harm) (solve : Net String GQ → List GQ) (C : Circuit) (ws : List Rat) :
    tdSolutions trig harm solve C ws = fdSolutions trig harm solve C ws ∧
    ∀ (r2 : Rat) (sols : List (Net String GQ × List GQ)) (q : Quantity) (id : String),
      tdLines sols q id = fdLines r2 sols q id := by
  constructor
  · unfold tdSolutions fdSolutions transform
    rw [mapM_bind_map]
    rfl
  · intro r2 sols q id
    unfold tdLines fdLines
    apply mapM_congr_except
    intro s _
    unfold cxGet
    cases s.1.quantity s.2 q id <;> rfl

/-- **C09 (line) — the spectral line at `w_k` IS the peak phasor of C02 at `w_k`.**
For every circuit `C`, every list `ws` of analysed frequencies, every solver, every quantity `q`
(potential / voltage / current) and identifier: when the per-frequency solutions are built
(`fdSolutions`, equivalently `tdSolutions`: `C09_line_td_eq_fd`) and the getter's list comprehension
succeeds with the values `X`, then there are exactly as many values as frequencies, and for every
position `k` the network `N` that `ComplexSolution(circuit, w=ws[k])` solves exists
(`cxNet … ws[k] = ok N`, the `transformCircuit` of C02/C07 at the default resolution) and
`X[k]` is what `ComplexSolution(circuit, w=ws[k], peak_values=True).get_q(id)` returns for the
solver's vector: `cxGet true r2 N (solve N) q id = ok X[k]`.
Not stated: that the solver's vector solves the matrix equation (C01; `C09_line_circuit_eqs`
assumes it), nor anything about rounding. -/
theorem C09_line_phasor (trig : Trig) (harm : Harm) (solve : Net String GQ → List GQ) (C : Circuit) (ws : List Rat)
    (r2 : Rat) (q : Quantity) (id : String) (sols : List (Net String GQ × List GQ)) (X : List GQ)
    (hs : fdSolutions trig harm solve C ws = .ok sols) (hX : fdLines r2 sols q id = .ok X) :
    X.length = ws.length ∧
    ∀ k (hk : k < ws.length) (hk' : k < X.length),
      ∃ N, cxNet trig harm C ws[k] = .ok N ∧ cxGet true r2 N (solve N) q id = .ok X[k] := by
  obtain ⟨hl1, h1⟩ := mapM_ok_index _ hs
  obtain ⟨hl2, h2⟩ := mapM_ok_index _ hX
  refine ⟨by rw [hl2, hl1], ?_⟩
  intro k hk hk'
  have hks : k < sols.length := by rw [hl1]; exact hk
  have e1 := h1 k hk hks
  have e2 := h2 k hks hk'
  unfold cxSolution at e1
  obtain ⟨N, hN, e1⟩ := bind_eq_ok.mp e1
  simp only [pure, Except.pure, Except.ok.injEq] at e1
  refine ⟨N, hN, ?_⟩
  rw [← e1] at e2
  exact e2

/-- the same statement for `TimeDomainSolution`: its stored values are those peak phasors, and its
time function is `timeValue` (the sum `Σ_k |X_k|·cos(w_k t + arg X_k)`, `C09_time_value`) of them -/
theorem C09_line_phasor_td (trig : Trig) (harm : Harm) (solve : Net String GQ → List GQ) (C : Circuit) (ws : List Rat)
    (r2 : Rat) (q : Quantity) (id : String) (sols : List (Net String GQ × List GQ)) (cs : List (Rat × Rat)) (v : Rat)
    (hs : tdSolutions trig harm solve C ws = .ok sols) (hv : tdValue sols q id cs = .ok v) :
    ∃ X, tdLines sols q id = .ok X ∧ v = timeValue (X.zip cs) ∧ X.length = ws.length ∧
      ∀ k (hk : k < ws.length) (hk' : k < X.length),
        ∃ N, cxNet trig harm C ws[k] = .ok N ∧ cxGet true r2 N (solve N) q id = .ok X[k] := by
  unfold tdValue at hv
  obtain ⟨X, hX, hv⟩ := bind_eq_ok.mp hv
  simp only [pure, Except.pure, Except.ok.injEq] at hv
  rw [(C09_line_td_eq_fd trig harm solve C ws).1] at hs
  have hX' := hX
  rw [(C09_line_td_eq_fd trig harm solve C ws).2 r2] at hX'
  obtain ⟨hl, h⟩ := C09_line_phasor trig harm solve C ws r2 q id sols X hs hX'
  exact ⟨X, hX, hv.symm, hl, h⟩

/-- **C09 (line), composed with the frequency list.**  `FrequencyDomainSolution(circuit, w_max)`:
the frequencies are `frequencyComponents` (C09_freqs_*), the one-sided getter returns them as axis, and the
value at position `k` is the C02 peak phasor at the `k`-th of them. -/
theorem C09_line_frequencies (fc : List FComp) (wmax : Rat) (trig : Trig) (harm : Harm)
    (solve : Net String GQ → List GQ) (C : Circuit) (ws : List Rat) (r2 : Rat) (q : Quantity) (id : String)
    (sols : List (Net String GQ × List GQ)) (out : List Rat × List GQ)
    (hw : frequencyComponents fc wmax = .ok ws)
    (hs : fdSolutions trig harm solve C ws = .ok sols) (hg : fdGet true r2 ws sols q id = .ok out) :
    out.1 = ws ∧ out.2.length = ws.length ∧
    ∀ k (hk : k < ws.length) (hk' : k < out.2.length),
      ∃ N, cxNet trig harm C ws[k] = .ok N ∧ cxGet true r2 N (solve N) q id = .ok out.2[k] := by
  unfold fdGet at hg
  obtain ⟨X, hX, hg⟩ := bind_eq_ok.mp hg
  simp only [pure, Except.pure, Except.ok.injEq, series, if_true] at hg
  subst hg
  obtain ⟨hl, h⟩ := C09_line_phasor trig harm solve C ws r2 q id sols X hs hX
  exact ⟨rfl, hl, h⟩

/-- **C09 (line), two-sided.**  `FrequencyDomainSolution(…, one_sided=False).get_q(id)`: for every AC position
`k` (every position when no DC line is listed, every position but the first otherwise) the returned series
contains `(w_k, X_k/2)` and `(−w_k, conj X_k / 2)` where `X_k` is the C02 peak phasor at `w_k`. -/
theorem C09_line_two_sided (trig : Trig) (harm : Harm) (solve : Net String GQ → List GQ) (C : Circuit) (ws : List Rat)
    (r2 : Rat) (q : Quantity) (id : String) (sols : List (Net String GQ × List GQ)) (out : List Rat × List GQ)
    (hs : fdSolutions trig harm solve C ws = .ok sols) (hg : fdGet false r2 ws sols q id = .ok out)
    (k : Nat) (hk : k < ws.length) (hd : dcCount ws ≤ k) :
    ∃ N x, cxNet trig harm C ws[k] = .ok N ∧ cxGet true r2 N (solve N) q id = .ok x ∧
      (ws[k], halfOf x) ∈ out.1.zip out.2 ∧ (-ws[k], halfOf (GQ.conj x)) ∈ out.1.zip out.2 := by
  unfold fdGet at hg
  obtain ⟨X, hX, hg⟩ := bind_eq_ok.mp hg
  simp only [pure, Except.pure, Except.ok.injEq, series, Bool.false_eq_true, if_false] at hg
  subst hg
  obtain ⟨hl, h⟩ := C09_line_phasor trig harm solve C ws r2 q id sols X hs hX
  have hk' : k < X.length := by rw [hl]; exact hk
  obtain ⟨N, hN, hx⟩ := h k hk hk'
  refine ⟨N, X[k], hN, hx, ?_⟩
  apply C09_two_sided_lines ws X hl.symm
  unfold linesOf
  rw [List.mem_iff_getElem]
  refine ⟨k - dcCount ws, by simp [List.length_drop, List.length_zip, hl]; omega, ?_⟩
  simp only [List.getElem_drop, List.getElem_zip]
  have : dcCount ws + (k - dcCount ws) = k := by omega
  simp only [this]

/-- **C09 (line), composed with C02_exact.**  For an accepted circuit over the kinds of C02 whose intended phasor
network `S` at the analysed frequency `w` exists, is a valid network and has no self-loop branch: the network
`ComplexSolution(w)` solves exists, and whenever the solver's vector solves the matrix equation the code builds for
it, the values that `C09_line_phasor` identifies as the stored spectral lines at `w` — the peak accessors
`cxGet true` for potentials, voltages and currents — are the potentials, voltages and currents of a solution of
Kirchhoff's laws and all element laws **of `S`** (inductor `jwL`, capacitor `jwC`, sources at `w` as phasors, the
others short / open).  Existence / uniqueness of such a vector is C01 (`C01_solvable`, `C01_unique`), not restated. -/
theorem C09_line_circuit_eqs (trig : Trig) (harm : Harm) (h0 : TrigZero trig) (cs : List Component) (C : Circuit)
    (w : Rat) (hne : cs ≠ []) (hC : Circuit.mk? cs = .ok C) (hex : ExactList cs)
    (S : Net String GQ) (hS : Spec.phasorNet trig harm cs w Gen.defaultWResTransform = some S)
    (hcheck : S.check = .ok ()) (hloop : ∀ b ∈ S.branches, b.n1 ≠ b.n2)
    (solve : Net String GQ → List GQ) (r2 : Rat)
    (hsolve : ∀ N, cxNet trig harm C w = .ok N →
      (solve N).length = N.nodes.length + N.vsIds.length ∧ matVec N.mnaA (solve N) = N.mnaB) :
    ∃ N, cxNet trig harm C w = .ok N ∧ CircuitEqs S (N.reportOf (solve N)) ∧
      (∀ n ∈ N.allLabels, cxGet true r2 N (solve N) .potential n = .ok ((N.reportOf (solve N)).pot n)) ∧
      (∀ b ∈ N.branches, cxGet true r2 N (solve N) .voltage b.id = .ok ((N.reportOf (solve N)).v b.id) ∧
                          cxGet true r2 N (solve N) .current b.id = .ok ((N.reportOf (solve N)).i b.id)) := by
  obtain ⟨N, hN, h⟩ := C02_exact trig harm h0 cs C w Gen.defaultWResTransform hne hC hex S hS hcheck hloop
  have hN' : cxNet trig harm C w = .ok N := hN
  obtain ⟨hx, hsol⟩ := hsolve N hN'
  obtain ⟨heq, hp, hvi⟩ := h _ hx hsol
  refine ⟨N, hN', heq, ?_, ?_⟩
  · intro n hn
    simp [cxGet, Net.quantity, hp n hn, bind, Except.bind, pure, Except.pure]
  · intro b hb
    constructor <;> simp [cxGet, Net.quantity, (hvi b hb).1, (hvi b hb).2, bind, Except.bind, pure, Except.pure]

/-! ## (b) a periodic source's own voltage is the truncated Fourier series -/

theorem forall₂_mem_left {α β : Type} {R : α → β → Prop} {l : List α} {bs : List β} (h : List.Forall₂ R l bs)
    {a : α} (ha : a ∈ l) : ∃ b ∈ bs, R a b := by
  induction h with
  | nil => simp at ha
  | cons hab _ ih =>
    rcases List.mem_cons.mp ha with rfl | ha'
    · exact ⟨_, List.mem_cons_self .., hab⟩
    · obtain ⟨b, hb, hr⟩ := ih ha'
      exact ⟨b, List.mem_cons_of_mem _ hb, hr⟩

theorem mapM_ok_range {α β ε : Type} (f : α → Except ε β) (l : List α) (g : ℕ → β)
    (h : ∀ k (hk : k < l.length), f l[k] = .ok (g k)) : l.mapM f = .ok ((List.range l.length).map g) := by
  induction l generalizing g with
  | nil => rfl
  | cons a l ih =>
    have h0 : f a = .ok (g 0) := h 0 (by simp)
    have ih' := ih (fun k => g (k + 1)) (fun k hk => h (k + 1) (by simp; omega))
    rw [List.mapM_cons, h0, ih']
    simp [bind, Except.bind, pure, Except.pure, List.range_succ_eq_map, List.map_map, Function.comp_def]

theorem defaultWRes_nonneg : (0 : ℚ) ≤ Gen.defaultWResTransform := by
  unfold Gen.defaultWResTransform; norm_num

/-- **C09 (one periodic source: the analysed frequencies).**  In a circuit whose only component with a frequency
is one periodic source with fundamental `w0 > 0.001` (any passive components before and after it), the analysed
frequencies are exactly the retained harmonics `k·w0`, `k = 0, 1, …, ⌊w_max/w0⌋`, in this order:
`N + 1 = ⌊w_max/w0⌋ + 1` lines (none when `w_max < 0`). -/
theorem C09_periodic_frequencies (pre post : List FComp) (src : FComp) (w0 wmax : ℚ)
    (hpre : ∀ c ∈ pre, c.w = none) (hpost : ∀ c ∈ post, c.w = none)
    (hp : src.isPeriodic = true) (hw : src.w = some w0) (hres : (1 / 1000 : ℚ) < w0) :
    frequencyComponents (pre ++ src :: post) wmax = .ok (harmonicList w0 wmax) ∧
    (harmonicList w0 wmax).length = ((wmax / w0).floor + 1).toNat ∧
    ∀ k (hk : k < (harmonicList w0 wmax).length), (harmonicList w0 wmax)[k] = w0 * (k : ℚ) :=
  ⟨frequencyComponents_single_periodic pre post src w0 wmax (1 / 1000) hpre hpost hp hw
      (lt_trans (by norm_num) hres) hres,
    harmonicList_length w0 wmax, harmonicList_getElem w0 wmax⟩

section OwnLine
variable (trig : Trig) (harm : Harm) (h0 : TrigZero trig) (C : Circuit) (c : Component) (a b wt : String)
  (V w0 phi : ℚ)
  (hc : c ∈ translated Gen.tables C.components)
  (hk : c.kind = "periodic_voltage_source") (hn : c.nodes = [a, b])
  (hwt : c.value.lookup "wavetype" = some (.str wt)) (hwave : wt ∈ Gen.waveTypes)
  (hV : c.value.lookup "V" = some (.num V)) (hw0 : c.value.lookup "w" = some (.num w0))
  (hphi : c.value.lookup "phi" = some (.num phi)) (hR : c.value.lookup "R" = some (.num 0))
  (hpos : 0 < w0)
include h0 hc hk hn hwt hwave hV hw0 hphi hR hpos

/-- **C09 (an ideal periodic voltage source's own line at `k·w0`).**  Any circuit that contains an ideal
(`R = 0`) periodic voltage source `c` of a known waveform with fundamental `w0 > 0`, analysed at the harmonic
frequency `k·w0` with a resolution `0 ≤ w_res < w0/2`: in the network `transform_circuit` produces (no self-loop
branch), **every** vector that solves the matrix equation the code builds reports, as the voltage of `c`,
the phasor `amplitude(k)·(cos phase(k) + j·sin phase(k))` of the `k`-th harmonic of the C07 translator
(`harm wt V phi k` = `(fourier_series.amplitude(k), fourier_series.phase(k))`, `trig` = numpy's `(cos, sin)`) —
also through the accessor `ComplexSolution(w = k·w0, peak_values=True).get_voltage(c.id)`. -/
theorem C09_periodic_own_line (k : ℕ) (wres : ℚ) (hres0 : 0 ≤ wres) (hres : 2 * wres < w0)
    (N : Net String GQ) (hN : transformCircuit Gen.tables trig harm C (w0 * (k : ℚ)) wres = .ok N)
    (hsl : ∀ b ∈ N.branches, b.n1 ≠ b.n2) (x : List GQ)
    (hx : x.length = N.nodes.length + N.vsIds.length) (hsol : matVec N.mnaA x = N.mnaB) (r2 : ℚ) :
    (N.reportOf x).v c.id = Spec.phasor trig (harm wt V phi (k : ℤ)).1 (harm wt V phi (k : ℤ)).2 ∧
    N.quantity x .voltage c.id = .ok (Spec.phasor trig (harm wt V phi (k : ℤ)).1 (harm wt V phi (k : ℤ)).2) ∧
    cxGet true r2 N x .voltage c.id
      = .ok (Spec.phasor trig (harm wt V phi (k : ℤ)).1 (harm wt V phi (k : ℤ)).2) := by
  obtain ⟨hzero, hids⟩ := (Net.check_ok_iff N).mp (transformCircuit_check hN)
  have wf : N.WF := ⟨hids, hzero, hsl⟩
  obtain ⟨_, hvi, heq⟩ := C01_sound N x wf hx hsol
  have hf := (C07_position_independent Gen.tables trig harm C (w0 * (k : ℚ)) wres N hN).1
  obtain ⟨br, hbr, htc⟩ := forall₂_mem_left hf hc
  have hwk : (0 : ℚ) ≤ w0 * (k : ℚ) := mul_nonneg hpos.le (by exact_mod_cast Nat.zero_le k)
  have hcv := (C07_harmonic_voltage trig harm c (w0 * (k : ℚ)) wres a b h0 wt V w0 phi 0 hk hn hwt hwave hV hw0
    hphi hR (le_refl 0) hpos hwk hres0 hres).1
  have hoff : ¬ periodicOff (w0 * (k : ℚ)) w0 wres := gate_harmonic w0 wres hpos hres0 k
  simp only [hoff, if_false, roundHalfEven_harmonic w0 hpos.ne' k] at hcv
  rw [hcv] at htc
  simp only [Option.some.injEq, Except.ok.injEq] at htc
  have hid : br.id = c.id := by rw [← htc]
  have he : br.e = .norton ⟨0, 0⟩ (Spec.phasor trig (harm wt V phi (k : ℤ)).1 (harm wt V phi (k : ℤ)).2) := by
    rw [← htc]
  have hlaw := heq.law br hbr
  rw [he, hid] at hlaw
  have hz : ((⟨0, 0⟩ : GQ) = 0) := rfl
  simp only [Elem.lawResidual, hz, if_true] at hlaw
  have hv : (N.reportOf x).v c.id = Spec.phasor trig (harm wt V phi (k : ℤ)).1 (harm wt V phi (k : ℤ)).2 :=
    sub_eq_zero.mp hlaw
  have := (hvi br hbr).1
  rw [hid, hv] at this
  refine ⟨hv, this, ?_⟩
  simp [cxGet, Net.quantity, this, bind, Except.bind, pure, Except.pure]

/-- **C09 (an ideal periodic voltage source's own time function, model level).**  For
`TimeDomainSolution(circuit, w_max)` of a circuit containing such a source, analysed at the harmonics
`harmonicList w0 w_max` (`C09_periodic_frequencies`), whenever the solver's vectors solve the matrix equations:
the values the getter collects for the source's own voltage are the harmonics `X_k = A_k·(cos φ_k + j sin φ_k)`,
`k = 0 … N`, and the time value at the instant with units `(c_k, s_k) = (cos(k w0 t), sin(k w0 t))` is the
truncated Fourier sum `Σ_{k ≤ N} (a_k·c_k + b_k·s_k)` with `a_k = A_k cos φ_k`, `b_k = −A_k sin φ_k`
(the `a`, `b` of periodic_functions.py, `C08_abc`).  `A_k, φ_k` are `harm wt V phi k`, `cos/sin` are `trig`. -/
theorem C09_periodic_time_value (solve : Net String GQ → List GQ) (wmax : ℚ)
    (hres : 2 * Gen.defaultWResTransform < w0)
    (sols : List (Net String GQ × List GQ))
    (hs : tdSolutions trig harm solve C (harmonicList w0 wmax) = .ok sols)
    (hsolve : ∀ s ∈ sols, (∀ b ∈ s.1.branches, b.n1 ≠ b.n2) ∧ s.2.length = s.1.nodes.length + s.1.vsIds.length ∧
      matVec s.1.mnaA s.2 = s.1.mnaB) (cs : List (ℚ × ℚ)) :
    tdLines sols .voltage c.id = .ok ((List.range (harmonicList w0 wmax).length).map fun k : ℕ =>
        Spec.phasor trig (harm wt V phi (k : ℤ)).1 (harm wt V phi (k : ℤ)).2) ∧
    tdValue sols .voltage c.id cs = .ok (((List.range (harmonicList w0 wmax).length).zip cs).map fun p =>
        ((harm wt V phi (p.1 : ℤ)).1 * (trig (harm wt V phi (p.1 : ℤ)).2).1) * p.2.1
          + (-((harm wt V phi (p.1 : ℤ)).1 * (trig (harm wt V phi (p.1 : ℤ)).2).2)) * p.2.2).sum := by
  rw [(C09_line_td_eq_fd trig harm solve C _).1] at hs
  obtain ⟨hl, hidx⟩ := mapM_ok_index _ hs
  have hlines : tdLines sols .voltage c.id = .ok ((List.range (harmonicList w0 wmax).length).map fun k : ℕ =>
      Spec.phasor trig (harm wt V phi (k : ℤ)).1 (harm wt V phi (k : ℤ)).2) := by
    rw [← hl]
    unfold tdLines
    apply mapM_ok_range
    intro k hki
    have hkw : k < (harmonicList w0 wmax).length := by rw [← hl]; exact hki
    have e := hidx k hkw hki
    unfold cxSolution at e
    obtain ⟨N, hN, e⟩ := bind_eq_ok.mp e
    simp only [pure, Except.pure, Except.ok.injEq] at e
    rw [harmonicList_getElem] at hN
    obtain ⟨hsl, hx, hsol⟩ := hsolve sols[k] (List.getElem_mem hki)
    rw [← e] at hsl hx hsol ⊢
    have := (C09_periodic_own_line trig harm h0 C c a b wt V w0 phi hc hk hn hwt hwave hV hw0 hphi hR hpos k
      Gen.defaultWResTransform defaultWRes_nonneg hres N hN hsl (solve N) hx hsol 1).2.1
    exact this
  refine ⟨hlines, ?_⟩
  unfold tdValue
  rw [hlines]
  simp only [bind, Except.bind, pure, Except.pure, timeValue, List.zip_map_left, List.map_map,
    Function.comp_def, Prod.map, lineValue, Spec.phasor, id]
  congr 1
  apply congrArg
  apply List.map_congr_left
  intro p _
  ring

end OwnLine

section OwnLineCurrent
variable (trig : Trig) (harm : Harm) (h0 : TrigZero trig) (C : Circuit) (c : Component) (a b wt : String)
  (I w0 phi : ℚ)
  (hc : c ∈ translated Gen.tables C.components)
  (hk : c.kind = "periodic_current_source") (hn : c.nodes = [a, b])
  (hwt : c.value.lookup "wavetype" = some (.str wt)) (hwave : wt ∈ Gen.waveTypes)
  (hI : c.value.lookup "I" = some (.num I)) (hw0 : c.value.lookup "w" = some (.num w0))
  (hphi : c.value.lookup "phi" = some (.num phi)) (hG : c.value.lookup "G" = some (.num 0))
  (hpos : 0 < w0)
include h0 hc hk hn hwt hwave hI hw0 hphi hG hpos

/-- **C09 (an ideal periodic current source's own line at `k·w0`)** — the dual of `C09_periodic_own_line`: every
solution of the code's matrix equation reports, as the current of the ideal (`G = 0`) periodic current source `c`,
the phasor `amplitude(k)·(cos phase(k) + j·sin phase(k))` of its `k`-th harmonic. -/
theorem C09_periodic_own_line_current (k : ℕ) (wres : ℚ) (hres0 : 0 ≤ wres) (hres : 2 * wres < w0)
    (N : Net String GQ) (hN : transformCircuit Gen.tables trig harm C (w0 * (k : ℚ)) wres = .ok N)
    (hsl : ∀ b ∈ N.branches, b.n1 ≠ b.n2) (x : List GQ)
    (hx : x.length = N.nodes.length + N.vsIds.length) (hsol : matVec N.mnaA x = N.mnaB) (r2 : ℚ) :
    (N.reportOf x).i c.id = Spec.phasor trig (harm wt I phi (k : ℤ)).1 (harm wt I phi (k : ℤ)).2 ∧
    N.quantity x .current c.id = .ok (Spec.phasor trig (harm wt I phi (k : ℤ)).1 (harm wt I phi (k : ℤ)).2) ∧
    cxGet true r2 N x .current c.id
      = .ok (Spec.phasor trig (harm wt I phi (k : ℤ)).1 (harm wt I phi (k : ℤ)).2) := by
  obtain ⟨hzero, hids⟩ := (Net.check_ok_iff N).mp (transformCircuit_check hN)
  have wf : N.WF := ⟨hids, hzero, hsl⟩
  obtain ⟨_, hvi, heq⟩ := C01_sound N x wf hx hsol
  have hf := (C07_position_independent Gen.tables trig harm C (w0 * (k : ℚ)) wres N hN).1
  obtain ⟨br, hbr, htc⟩ := forall₂_mem_left hf hc
  have hwk : (0 : ℚ) ≤ w0 * (k : ℚ) := mul_nonneg hpos.le (by exact_mod_cast Nat.zero_le k)
  have hcv := (C07_harmonic_current trig harm c (w0 * (k : ℚ)) wres a b h0 wt I w0 phi 0 hk hn hwt hwave hI hw0
    hphi hG (le_refl 0) hpos hwk hres0 hres).1
  have hoff : ¬ periodicOff (w0 * (k : ℚ)) w0 wres := gate_harmonic w0 wres hpos hres0 k
  simp only [hoff, if_false, roundHalfEven_harmonic w0 hpos.ne' k] at hcv
  rw [hcv] at htc
  simp only [Option.some.injEq, Except.ok.injEq] at htc
  have hid : br.id = c.id := by rw [← htc]
  have he : br.e = .thevenin ⟨0, 0⟩ (Spec.phasor trig (harm wt I phi (k : ℤ)).1 (harm wt I phi (k : ℤ)).2) := by
    rw [← htc]
  have hlaw := heq.law br hbr
  rw [he, hid] at hlaw
  have hz : ((⟨0, 0⟩ : GQ) = 0) := rfl
  simp only [Elem.lawResidual, hz, if_true] at hlaw
  have hv : (N.reportOf x).i c.id = Spec.phasor trig (harm wt I phi (k : ℤ)).1 (harm wt I phi (k : ℤ)).2 :=
    sub_eq_zero.mp hlaw
  have := (hvi br hbr).2
  rw [hid, hv] at this
  refine ⟨hv, this, ?_⟩
  simp [cxGet, Net.quantity, this, bind, Except.bind, pure, Except.pure]

end OwnLineCurrent

/-! ### over ℝ / ℂ: the sum of the lines is the truncated Fourier series of C08 -/

section Real
open CC.Gen.Fourier CC.Fourier Complex

/-- the phasor of harmonic `k` the C07 translator hands to the single-frequency source, over the reals:
`amplitude(k)·e^{j·phase(k)}` with `amplitude`, `phase` the generated functions of CC/Gen/Fourier.lean
(`Spec.phasor trig A φ = ⟨A cos φ, A sin φ⟩` with the true `cos`, `sin`) -/
noncomputable def harmLineR (h : HarmObj ℝ) (k : ℕ) : ℂ :=
  ((h.amplitude Real.pi (k : ℤ) : ℝ) : ℂ) * exp (((h.phase Real.pi (k : ℤ) : ℝ) : ℂ) * I)

/-- the time function `TimeDomainSolution` assigns to the source's own voltage when the lines are the
harmonics `0 … N` at the frequencies `k·w0`: `Σ_{k ≤ N} Re(X_k·e^{j k w0 t})`
(`= Σ |X_k| cos(k w0 t + arg X_k)`, `C09_time_function`) -/
noncomputable def ownVoltageR (h : HarmObj ℝ) (w0 : ℝ) (N : ℕ) (t : ℝ) : ℝ :=
  ∑ k ∈ Finset.range (N + 1), (harmLineR h k * exp ((((k : ℝ) * w0 * t : ℝ) : ℂ) * I)).re

theorem harm_phase_zero (h : HarmObj ℝ) : h.phase Real.pi 0 = 0 := by
  simp [HarmObj.phase, phaseCoefficient_zero]

/-- **C09 (reproduction of a periodic source = truncated Fourier series).**  For every harmonic object `h`
(every waveform, amplitude, phase, offset), every fundamental `w0`, every number `N` of retained harmonics and
every instant `t`:
`Σ_{k ≤ N} Re(X_k e^{j k w0 t})`, `X_k = amplitude(k)·e^{j phase(k)}`, equals
(1) the truncated Fourier series `Σ_{k ≤ N} (a_k cos(k w0 t) + b_k sin(k w0 t))` with the code's own `a`, `b`
    (`a_k = A_k cos φ_k`, `b_k = −A_k sin φ_k`, `C08_abc`), and
(2) for `w0 = 2π/T`: the reconstruction `amplitude(0) + Σ_{1 ≤ n ≤ N} amplitude(n)·cos(2πn·t/T + phase(n))`
    whose coefficients C08 proves to be the true Fourier coefficients of the waveform (`C08_all`) and which C08
    proves to converge to the waveform in the mean square (`C08_mean_square`).
With `N = ⌊w_max/w0⌋` these are the lines `TimeDomainSolution` sums (`C09_periodic_frequencies`,
`C09_periodic_time_value`).  Finite sums over ℝ/ℂ: nothing about binary64 rounding. -/
theorem C09_truncated_fourier (h : HarmObj ℝ) (w0 : ℝ) (N : ℕ) (t : ℝ) :
    ownVoltageR h w0 N t
      = ∑ k ∈ Finset.range (N + 1),
          (h.a Real.pi Real.cos Real.sin (k : ℤ) * Real.cos ((k : ℝ) * w0 * t)
            + h.b Real.pi Real.cos Real.sin (k : ℤ) * Real.sin ((k : ℝ) * w0 * t)) ∧
    ∀ T : ℝ, T ≠ 0 → w0 = 2 * Real.pi / T →
      ownVoltageR h w0 N t
        = h.amplitude Real.pi 0 + ∑ n ∈ Finset.Icc 1 N,
            h.amplitude Real.pi (n : ℤ) * Real.cos (2 * Real.pi * n / T * t + h.phase Real.pi (n : ℤ)) := by
  constructor
  · unfold ownVoltageR harmLineR
    apply Finset.sum_congr rfl
    intro k _
    rw [(re_harmonic_term _ _ _).1]
    simp only [HarmObj.a, HarmObj.b]
  · intro T hT hw
    unfold ownVoltageR harmLineR
    rw [sum_range_succ_eq_zero_add_Icc]
    congr 1
    · rw [(re_harmonic_term _ _ _).2]
      simp [harm_phase_zero]
    · apply Finset.sum_congr rfl
      intro n _
      rw [(re_harmonic_term _ _ _).2, hw]
      congr 2
      field_simp

/-- **C09 (reproduction up to the truncation).**  For each of the six built-in waveforms, any amplitude, phase,
offset and period `T > 0` (fundamental `w0 = 2π/T`): the time function assigned to the source's own voltage with
the harmonics `0 … N` retained converges to the waveform's own `time_function` in the mean square over one period as
`N → ∞` — the deviation of the reproduced waveform is the truncation of the retained harmonics and nothing else
(by Parseval, `C08_parseval`, its mean square is the tail `Σ_{n > N} amplitude(n)²/2`). -/
theorem C09_reconstruction_mean_square (w : WaveObj ℝ) (h : HarmObj ℝ) (hT : 0 < w.period)
    (hh : fourierSeries w = .ok h) :
    Filter.Tendsto
      (fun N : ℕ => ∫ t in (0:ℝ)..w.period, (timeR w t - ownVoltageR h (2 * Real.pi / w.period) N t) ^ 2)
      Filter.atTop (nhds 0) := by
  have key : ∀ (N : ℕ) (t : ℝ), ownVoltageR h (2 * Real.pi / w.period) N t
      = h.amplitude Real.pi 0 + ∑ n ∈ Finset.Icc 1 N,
          h.amplitude Real.pi (n : ℤ) * Real.cos (2 * Real.pi * n / w.period * t + h.phase Real.pi (n : ℤ)) :=
    fun N t => (C09_truncated_fourier h _ N t).2 w.period hT.ne' rfl
  simp only [key]
  exact C08_mean_square w h hT hh

/-- the number of retained harmonics: for `w_max ≥ 0`, `w0 > 0` the list `0, w0, …` has `N + 1` entries, `N = ⌊w_max/w0⌋` -/
theorem harmonicList_length_floor (w0 wmax : ℚ) (h0 : 0 < w0) (hmax : 0 ≤ wmax) :
    (harmonicList w0 wmax).length = (wmax / w0).floor.toNat + 1 := by
  rw [harmonicList_length]
  have : 0 ≤ (wmax / w0).floor := Rat.le_floor_iff.mpr (by simpa using div_nonneg hmax h0.le)
  omega

end Real

/-! ## (c) superposition of sources: currents -/

section Currents
variable {L : Type} [DecidableEq L] [LabelOrd L]

/-- one frequency: physical currents of all branches superpose (C04_linear with unit weights, transported to the
values the accessors report by C01) -/
theorem reported_superpose_phys (bs : List (Branch L GQ)) (z : L) (s1 s2 : String → GQ)
    (wf1 : (⟨withSrc bs s1, z⟩ : Net L GQ).WF) (wf2 : (⟨withSrc bs s2, z⟩ : Net L GQ).WF)
    (wf : (⟨withSrc bs fun id => s1 id + s2 id, z⟩ : Net L GQ).WF)
    (hw : WellPosed (⟨withSrc bs fun id => s1 id + s2 id, z⟩ : Net L GQ))
    (x1 x2 x : List GQ)
    (hx1 : x1.length = (⟨withSrc bs s1, z⟩ : Net L GQ).nodes.length + (⟨withSrc bs s1, z⟩ : Net L GQ).vsIds.length)
    (hx2 : x2.length = (⟨withSrc bs s2, z⟩ : Net L GQ).nodes.length + (⟨withSrc bs s2, z⟩ : Net L GQ).vsIds.length)
    (hx : x.length = (⟨withSrc bs fun id => s1 id + s2 id, z⟩ : Net L GQ).nodes.length
        + (⟨withSrc bs fun id => s1 id + s2 id, z⟩ : Net L GQ).vsIds.length)
    (h1 : matVec (⟨withSrc bs s1, z⟩ : Net L GQ).mnaA x1 = (⟨withSrc bs s1, z⟩ : Net L GQ).mnaB)
    (h2 : matVec (⟨withSrc bs s2, z⟩ : Net L GQ).mnaA x2 = (⟨withSrc bs s2, z⟩ : Net L GQ).mnaB)
    (h : matVec (⟨withSrc bs fun id => s1 id + s2 id, z⟩ : Net L GQ).mnaA x
        = (⟨withSrc bs fun id => s1 id + s2 id, z⟩ : Net L GQ).mnaB) :
    ∀ b ∈ bs,
      (b.e.setSrc (s1 b.id + s2 b.id)).physCurrent (((⟨withSrc bs fun id => s1 id + s2 id, z⟩ : Net L GQ).reportOf x).i b.id)
        = (b.e.setSrc (s1 b.id)).physCurrent (((⟨withSrc bs s1, z⟩ : Net L GQ).reportOf x1).i b.id)
          + (b.e.setSrc (s2 b.id)).physCurrent (((⟨withSrc bs s2, z⟩ : Net L GQ).reportOf x2).i b.id) := by
  have hids : (bs.map (·.id)).Nodup := by
    have := wf.ids_nodup
    simpa [Net.ids, withSrc_ids] using this
  have e1 := (circuitEqsAll_iff _ _).mpr (C01_sound _ x1 wf1 hx1 h1).2.2
  have e2 := (circuitEqsAll_iff _ _).mpr (C01_sound _ x2 wf2 hx2 h2).2.2
  obtain ⟨S, hS, _, _, hi⟩ := C04_linear bs z hids 1 1 s1 s2 _ _ e1 e2
  simp only [one_mul] at hS hi
  have hS' : CircuitEqs (⟨withSrc bs fun id => s1 id + s2 id, z⟩ : Net L GQ) S := (circuitEqsAll_iff _ S).mp hS
  obtain ⟨_, ab⟩ := C01_reported_is_the_solution _ wf hw x hx h S hS'
  intro b hb
  have hb' : ({ b with e := b.e.setSrc (s1 b.id + s2 b.id) } : Branch L GQ)
      ∈ (⟨withSrc bs fun id => s1 id + s2 id, z⟩ : Net L GQ).branches := List.mem_map.mpr ⟨b, hb, rfl⟩
  have := (ab _ hb').2
  simp only at this
  rw [this, hi b hb]

/-- physical first→second current phasor of the branch `id` from the values reported for the vector `x` -/
def physOfL (N : Net L GQ) (x : List GQ) (id : String) : GQ :=
  match N.get? id with
  | some b => b.e.physCurrent ((N.reportOf x).i id)
  | none => 0

theorem lineValue_neg (X : GQ) (c s : ℚ) : lineValue (-X) c s = -lineValue X c s := by
  simp only [lineValue, GQ.re_neg, GQ.im_neg]; ring

/-- **C09 (superposition of sources), currents — composed with C01 and C04.**  Under the hypotheses of
`C09_superpose_sources_reported` (per-frequency networks in skeleton form `withSrc bs s`, the three matrix
equations solved, the full network well-posed):
1. the time function of the **physical** (first→second) current of *every* branch — lossy sources included — is
   the sum of the physical-current time functions of the two parts;
2. the time function of the **reported** current of a branch is the sum of the reported-current time functions of
   the parts provided the branch is not a linear (lossy) source in any of the three networks at any analysed
   frequency.  The exclusion is genuine (C04_superpose): a lossy source reports its current in generator direction
   when active and in passive direction when deactivated, so its reported current does not superpose.
Still assumed, not proved: that the code's per-frequency networks for "each source alone" have the skeleton form. -/
theorem C09_superpose_sources_currents (lines : List (SuperLine L))
    (hl : ∀ l ∈ lines, l.N1.WF ∧ l.N2.WF ∧ l.N.WF ∧ WellPosed l.N ∧
      l.x1.length = l.N1.nodes.length + l.N1.vsIds.length ∧
      l.x2.length = l.N2.nodes.length + l.N2.vsIds.length ∧
      l.x.length = l.N.nodes.length + l.N.vsIds.length ∧
      matVec l.N1.mnaA l.x1 = l.N1.mnaB ∧ matVec l.N2.mnaA l.x2 = l.N2.mnaB ∧
      matVec l.N.mnaA l.x = l.N.mnaB) :
    (∀ id, (∀ l ∈ lines, ∃ b ∈ l.bs, b.id = id) →
      timeValue (lines.map fun l => (physOfL l.N l.x id, l.c, l.s))
        = timeValue (lines.map fun l => (physOfL l.N1 l.x1 id, l.c, l.s))
          + timeValue (lines.map fun l => (physOfL l.N2 l.x2 id, l.c, l.s))) ∧
    (∀ id, (∀ l ∈ lines, ∃ b ∈ l.bs, b.id = id ∧ (b.e.setSrc (l.s1 id + l.s2 id)).isLossy = false ∧
          (b.e.setSrc (l.s1 id)).isLossy = false ∧ (b.e.setSrc (l.s2 id)).isLossy = false) →
      timeValue (lines.map fun l => ((l.N.reportOf l.x).i id, l.c, l.s))
        = timeValue (lines.map fun l => ((l.N1.reportOf l.x1).i id, l.c, l.s))
          + timeValue (lines.map fun l => ((l.N2.reportOf l.x2).i id, l.c, l.s))) := by
  have key : ∀ l ∈ lines, ∀ b ∈ l.bs,
      (b.e.setSrc (l.s1 b.id + l.s2 b.id)).physCurrent ((l.N.reportOf l.x).i b.id)
        = (b.e.setSrc (l.s1 b.id)).physCurrent ((l.N1.reportOf l.x1).i b.id)
          + (b.e.setSrc (l.s2 b.id)).physCurrent ((l.N2.reportOf l.x2).i b.id) := by
    intro l hlm
    obtain ⟨w1, w2, w, hw, h1, h2, h3, e1, e2, e3⟩ := hl l hlm
    exact reported_superpose_phys l.bs l.z l.s1 l.s2 w1 w2 w hw l.x1 l.x2 l.x h1 h2 h3 e1 e2 e3
  have hget : ∀ l ∈ lines, ∀ b ∈ l.bs, ∀ s : String → GQ, (⟨withSrc l.bs s, l.z⟩ : Net L GQ).WF →
      (⟨withSrc l.bs s, l.z⟩ : Net L GQ).get? b.id = some { b with e := b.e.setSrc (s b.id) } := by
    intro l _ b hb s wf
    exact get?_of_mem (⟨withSrc l.bs s, l.z⟩ : Net L GQ) wf.ids_nodup
      (b := { b with e := b.e.setSrc (s b.id) }) (List.mem_map.mpr ⟨b, hb, rfl⟩)
  constructor
  · intro id hid
    simp only [timeValue, List.map_map, Function.comp_def]
    rw [← List.sum_map_add]
    apply congrArg; apply List.map_congr_left; intro l hlm
    obtain ⟨b, hb, rfl⟩ := hid l hlm
    obtain ⟨w1, w2, w, _⟩ := hl l hlm
    have g1 := hget l hlm b hb l.s1 w1
    have g2 := hget l hlm b hb l.s2 w2
    have g := hget l hlm b hb (fun id => l.s1 id + l.s2 id) w
    simp only [physOfL, SuperLine.N, SuperLine.N1, SuperLine.N2, g1, g2, g]
    rw [← lineValue_add]
    exact congrArg (fun X => lineValue X l.c l.s) (key l hlm b hb)
  · intro id hid
    simp only [timeValue, List.map_map, Function.comp_def]
    rw [← List.sum_map_add]
    apply congrArg; apply List.map_congr_left; intro l hlm
    obtain ⟨b, hb, rfl, l3, l1, l2⟩ := hid l hlm
    have := key l hlm b hb
    simp only [Elem.physCurrent, l1, l2, l3] at this
    rw [← lineValue_add]
    exact congrArg (fun X => lineValue X l.c l.s) (by simpa using this)

end Currents


/-! ## non-vacuity: a concrete circuit meets the hypotheses -/

section Examples

/-- ground, an ideal rectangular voltage source `Vp` (V = 1, w0 = 2), a 2 Ω resistor across it -/
def exPer : List Component :=
  [⟨"ground", "gnd", ["0"], []⟩,
   ⟨"periodic_voltage_source", "Vp", ["1", "0"],
     [("wavetype", .str "rect"), ("V", .num 1), ("w", .num 2), ("phi", .num 0), ("R", .num 0)]⟩,
   ⟨"resistor", "R", ["1", "0"], [("R", .num 2)]⟩]

def exTrig : Trig := fun _ => (1, 0)
/-- stand-in harmonics `A/(2n+1)` with phase 0 -/
def exHarm : Harm := fun _ A _ n => (A / (2 * n + 1), 0)

/-- the network of `exPer` at the third harmonic `w = 6` -/
def exNet3 : Net String GQ :=
  ⟨[⟨"1", "0", "Vp", "voltage_source", .norton ⟨0, 0⟩ ⟨1 / 7, 0⟩⟩,
    ⟨"1", "0", "R", "resistor", .norton ⟨2, 0⟩ 0⟩], "0"⟩

theorem exPer_branches3 : transformBranches Gen.tables exTrig exHarm exPer (2 * ((3 : ℕ) : ℚ)) Gen.defaultWResTransform
    = .ok exNet3.branches := by decide +kernel

theorem exPer_transform3 : transformCircuit Gen.tables exTrig exHarm ⟨exPer, "0"⟩ (2 * ((3 : ℕ) : ℚ))
    Gen.defaultWResTransform = .ok exNet3 := by
  unfold transformCircuit
  rw [exPer_branches3]
  simp [exNet3, bind, Except.bind, Net.check, Net.nodeLabels, sortL, dedupL, Net.ids, pure, Except.pure]

/-- its solution: 1 / 7 V across both, 1 / 14 A through the resistor, −1 / 14 A through the source -/
def exRep3 : Report String GQ :=
  { pot := fun n => if n = "1" then ⟨1 / 7, 0⟩ else 0
    v := fun _ => ⟨1 / 7, 0⟩
    i := fun id => if id = "Vp" then ⟨-1 / 14, 0⟩ else ⟨1 / 14, 0⟩ }

theorem exNet3_wf : exNet3.WF := by
  refine ⟨by decide, ?_, ?_⟩
  · rw [mem_nodeLabels]; right
    exact ⟨_, List.mem_cons_self .., Or.inr rfl⟩
  · intro b hb
    simp only [exNet3, List.mem_cons, List.mem_nil_iff, or_false] at hb
    rcases hb with rfl | rfl <;> decide

theorem exRep3_solves : CircuitEqs exNet3 exRep3 := by
  refine ⟨by decide, ?_, ?_, ?_⟩
  · intro b hb
    simp only [exNet3, List.mem_cons, List.mem_nil_iff, or_false] at hb
    rcases hb with rfl | rfl <;> decide +kernel
  · intro b hb
    simp only [exNet3, List.mem_cons, List.mem_nil_iff, or_false] at hb
    rcases hb with rfl | rfl <;> decide +kernel
  · intro n hn
    simp only [exNet3, Net.allLabels, List.map_cons, List.map_nil, List.cons_append,
      List.nil_append, List.mem_cons, List.mem_nil_iff, or_false] at hn
    rcases hn with rfl | rfl | rfl | rfl | rfl <;> decide +kernel

/-- the network of `exPer` at `w = 0` (harmonic 0) -/
def exNet0 : Net String GQ :=
  ⟨[⟨"1", "0", "Vp", "voltage_source", .norton ⟨0, 0⟩ ⟨1, 0⟩⟩,
    ⟨"1", "0", "R", "resistor", .norton ⟨2, 0⟩ 0⟩], "0"⟩

theorem exPer_branches0 : transformBranches Gen.tables exTrig exHarm exPer (2 * ((0 : ℕ) : ℚ)) Gen.defaultWResTransform
    = .ok exNet0.branches := by decide +kernel

theorem exPer_transform0 : transformCircuit Gen.tables exTrig exHarm ⟨exPer, "0"⟩ (2 * ((0 : ℕ) : ℚ))
    Gen.defaultWResTransform = .ok exNet0 := by
  unfold transformCircuit
  rw [exPer_branches0]
  simp [exNet0, bind, Except.bind, Net.check, Net.nodeLabels, sortL, dedupL, Net.ids, pure, Except.pure]

/-- its solution: 1 V across both, 1 / 2 A through the resistor, −1 / 2 A through the source -/
def exRep0 : Report String GQ :=
  { pot := fun n => if n = "1" then ⟨1, 0⟩ else 0
    v := fun _ => ⟨1, 0⟩
    i := fun id => if id = "Vp" then ⟨-1 / 2, 0⟩ else ⟨1 / 2, 0⟩ }

theorem exNet0_wf : exNet0.WF := by
  refine ⟨by decide, ?_, ?_⟩
  · rw [mem_nodeLabels]; right
    exact ⟨_, List.mem_cons_self .., Or.inr rfl⟩
  · intro b hb
    simp only [exNet0, List.mem_cons, List.mem_nil_iff, or_false] at hb
    rcases hb with rfl | rfl <;> decide

theorem exRep0_solves : CircuitEqs exNet0 exRep0 := by
  refine ⟨by decide, ?_, ?_, ?_⟩
  · intro b hb
    simp only [exNet0, List.mem_cons, List.mem_nil_iff, or_false] at hb
    rcases hb with rfl | rfl <;> decide +kernel
  · intro b hb
    simp only [exNet0, List.mem_cons, List.mem_nil_iff, or_false] at hb
    rcases hb with rfl | rfl <;> decide +kernel
  · intro n hn
    simp only [exNet0, Net.allLabels, List.map_cons, List.map_nil, List.cons_append,
      List.nil_append, List.mem_cons, List.mem_nil_iff, or_false] at hn
    rcases hn with rfl | rfl | rfl | rfl | rfl <;> decide +kernel

/-- the network of `exPer` at the fundamental `w = 2` -/
def exNet1 : Net String GQ :=
  ⟨[⟨"1", "0", "Vp", "voltage_source", .norton ⟨0, 0⟩ ⟨1 / 3, 0⟩⟩,
    ⟨"1", "0", "R", "resistor", .norton ⟨2, 0⟩ 0⟩], "0"⟩

theorem exPer_branches1 : transformBranches Gen.tables exTrig exHarm exPer (2 * ((1 : ℕ) : ℚ)) Gen.defaultWResTransform
    = .ok exNet1.branches := by decide +kernel

theorem exPer_transform1 : transformCircuit Gen.tables exTrig exHarm ⟨exPer, "0"⟩ (2 * ((1 : ℕ) : ℚ))
    Gen.defaultWResTransform = .ok exNet1 := by
  unfold transformCircuit
  rw [exPer_branches1]
  simp [exNet1, bind, Except.bind, Net.check, Net.nodeLabels, sortL, dedupL, Net.ids, pure, Except.pure]

/-- its solution: 1 / 3 V across both, 1 / 6 A through the resistor, −1 / 6 A through the source -/
def exRep1 : Report String GQ :=
  { pot := fun n => if n = "1" then ⟨1 / 3, 0⟩ else 0
    v := fun _ => ⟨1 / 3, 0⟩
    i := fun id => if id = "Vp" then ⟨-1 / 6, 0⟩ else ⟨1 / 6, 0⟩ }

theorem exNet1_wf : exNet1.WF := by
  refine ⟨by decide, ?_, ?_⟩
  · rw [mem_nodeLabels]; right
    exact ⟨_, List.mem_cons_self .., Or.inr rfl⟩
  · intro b hb
    simp only [exNet1, List.mem_cons, List.mem_nil_iff, or_false] at hb
    rcases hb with rfl | rfl <;> decide

theorem exRep1_solves : CircuitEqs exNet1 exRep1 := by
  refine ⟨by decide, ?_, ?_, ?_⟩
  · intro b hb
    simp only [exNet1, List.mem_cons, List.mem_nil_iff, or_false] at hb
    rcases hb with rfl | rfl <;> decide +kernel
  · intro b hb
    simp only [exNet1, List.mem_cons, List.mem_nil_iff, or_false] at hb
    rcases hb with rfl | rfl <;> decide +kernel
  · intro n hn
    simp only [exNet1, Net.allLabels, List.map_cons, List.map_nil, List.cons_append,
      List.nil_append, List.mem_cons, List.mem_nil_iff, or_false] at hn
    rcases hn with rfl | rfl | rfl | rfl | rfl <;> decide +kernel

def exSolve : Net String GQ → List GQ := fun N => N.pack exRep3.toSol

theorem exSolve_solves : (exSolve exNet3).length = exNet3.nodes.length + exNet3.vsIds.length ∧
    matVec exNet3.mnaA (exSolve exNet3) = exNet3.mnaB :=
  ⟨pack_length _ exNet3_wf.ids_nodup _, C01_complete _ _ exNet3_wf exRep3_solves⟩

/-- every hypothesis of `C09_periodic_own_line` is met by `exPer` at the third harmonic (`k = 3`, `w = 6`) -/
example := C09_periodic_own_line exTrig exHarm rfl ⟨exPer, "0"⟩
  ⟨"periodic_voltage_source", "Vp", ["1", "0"],
     [("wavetype", .str "rect"), ("V", .num 1), ("w", .num 2), ("phi", .num 0), ("R", .num 0)]⟩
  "1" "0" "rect" 1 2 0 (by decide) rfl rfl rfl (by decide) rfl rfl rfl rfl (by norm_num) 3
  Gen.defaultWResTransform defaultWRes_nonneg (by unfold Gen.defaultWResTransform; norm_num) exNet3 exPer_transform3
  exNet3_wf.no_self_loop (exSolve exNet3) exSolve_solves.1 exSolve_solves.2 1

theorem exFd : fdSolutions exTrig exHarm exSolve ⟨exPer, "0"⟩ [2 * ((3 : ℕ) : ℚ)] = .ok [(exNet3, exSolve exNet3)] := by
  unfold fdSolutions
  rw [List.mapM_cons, List.mapM_nil]
  unfold cxSolution cxNet
  rw [exPer_transform3]
  rfl

/-- the hypotheses of `C09_line_phasor` (the solutions are built, the getter succeeds) are met -/
example : ∃ X, fdLines 1 [(exNet3, exSolve exNet3)] .voltage "Vp" = .ok X := by
  have h := (C09_periodic_own_line exTrig exHarm rfl ⟨exPer, "0"⟩
    ⟨"periodic_voltage_source", "Vp", ["1", "0"],
      [("wavetype", .str "rect"), ("V", .num 1), ("w", .num 2), ("phi", .num 0), ("R", .num 0)]⟩
    "1" "0" "rect" 1 2 0 (by decide) rfl rfl rfl (by decide) rfl rfl rfl rfl (by norm_num) 3
    Gen.defaultWResTransform defaultWRes_nonneg (by unfold Gen.defaultWResTransform; norm_num) exNet3 exPer_transform3
    exNet3_wf.no_self_loop (exSolve exNet3) exSolve_solves.1 exSolve_solves.2 1).2.2
  have h' : cxGet true 1 exNet3 (exSolve exNet3) .voltage "Vp" = _ := h
  refine ⟨[Spec.phasor exTrig (exHarm "rect" 1 0 3).1 (exHarm "rect" 1 0 3).2], ?_⟩
  unfold fdLines
  rw [List.mapM_cons, List.mapM_nil, h']
  rfl

theorem exSpecRes : Spec.phasorNet (fun _ => (1, 0)) (fun _ _ _ _ => (0, 0)) exCs 2 Gen.defaultWResTransform
    = some ⟨[⟨"1", "0", "V", "", .norton ⟨1, 0⟩ ⟨3, 0⟩⟩, ⟨"1", "0", "C", "", .thevenin ⟨0, 8⟩ 0⟩], "0"⟩ := by
  have hb : (Spec.nonGround exCs).mapM
      (fun c => Spec.branchOf (fun _ => (1, 0)) (fun _ _ _ _ => (0, 0)) c 2 Gen.defaultWResTransform)
      = some [⟨"1", "0", "V", "", .norton ⟨1, 0⟩ ⟨3, 0⟩⟩, ⟨"1", "0", "C", "", .thevenin ⟨0, 8⟩ 0⟩] := by
    decide +kernel
  have hg : Spec.groundOf exCs = some "0" := by decide
  simp [Spec.phasorNet, hb, hg]

/-- the hypotheses of `C09_line_circuit_eqs` on the circuit (those of `C02_exact`) are met by `exCs` at `w = 2` -/
example := C09_line_circuit_eqs (fun _ => (1, 0)) (fun _ _ _ _ => (0, 0)) rfl exCs _ 2 (by decide) exCircuit exExact _
  exSpecRes (by simp [Net.check, Net.nodeLabels, sortL, dedupL, Net.ids])
  (by intro b hb; simp only [List.mem_cons, List.mem_nil_iff, or_false] at hb; rcases hb with rfl | rfl <;> decide)

/-- a solver for the two networks of `exPer` at `w_max = 3` (lines at 0 and 2) -/
def exSolve2 : Net String GQ → List GQ := fun N =>
  if N.branches = exNet0.branches then exNet0.pack exRep0.toSol else exNet1.pack exRep1.toSol

theorem exHarmonicList : harmonicList 2 3 = [2 * ((0 : ℕ) : ℚ), 2 * ((1 : ℕ) : ℚ)] := by decide +kernel

theorem exTd : tdSolutions exTrig exHarm exSolve2 ⟨exPer, "0"⟩ (harmonicList 2 3)
    = .ok [(exNet0, exNet0.pack exRep0.toSol), (exNet1, exNet1.pack exRep1.toSol)] := by
  rw [(C09_line_td_eq_fd _ _ _ _ _).1, exHarmonicList]
  unfold fdSolutions
  rw [List.mapM_cons, List.mapM_cons, List.mapM_nil]
  unfold cxSolution cxNet
  rw [exPer_transform0, exPer_transform1]
  have e0 : exSolve2 exNet0 = exNet0.pack exRep0.toSol := if_pos rfl
  have e1 : exSolve2 exNet1 = exNet1.pack exRep1.toSol := if_neg (by decide +kernel)
  simp [bind, Except.bind, pure, Except.pure, e0, e1]

/-- every hypothesis of `C09_periodic_time_value` is met by `exPer` with `w_max = 3` (two lines: DC and fundamental) -/
example (cs : List (ℚ × ℚ)) := C09_periodic_time_value exTrig exHarm rfl ⟨exPer, "0"⟩
  ⟨"periodic_voltage_source", "Vp", ["1", "0"],
     [("wavetype", .str "rect"), ("V", .num 1), ("w", .num 2), ("phi", .num 0), ("R", .num 0)]⟩
  "1" "0" "rect" 1 2 0 (by decide) rfl rfl rfl (by decide) rfl rfl rfl rfl (by norm_num) exSolve2 3
  (by unfold Gen.defaultWResTransform; norm_num) _ exTd
  (by
    intro s hs
    simp only [List.mem_cons, List.mem_nil_iff, or_false] at hs
    rcases hs with rfl | rfl
    · exact ⟨exNet0_wf.no_self_loop, pack_length _ exNet0_wf.ids_nodup _, C01_complete _ _ exNet0_wf exRep0_solves⟩
    · exact ⟨exNet1_wf.no_self_loop, pack_length _ exNet1_wf.ids_nodup _, C01_complete _ _ exNet1_wf exRep1_solves⟩)
  cs

/-- the same network with the source value 4/3 = 1 + 1/3 -/
def exNet4 : Net String GQ :=
  ⟨[⟨"1", "0", "Vp", "voltage_source", .norton ⟨0, 0⟩ ⟨4 / 3, 0⟩⟩,
    ⟨"1", "0", "R", "resistor", .norton ⟨2, 0⟩ 0⟩], "0"⟩

/-- its solution: 4 / 3 V across both, 2 / 3 A through the resistor, −2 / 3 A through the source -/
def exRep4 : Report String GQ :=
  { pot := fun n => if n = "1" then ⟨4 / 3, 0⟩ else 0
    v := fun _ => ⟨4 / 3, 0⟩
    i := fun id => if id = "Vp" then ⟨-2 / 3, 0⟩ else ⟨2 / 3, 0⟩ }

theorem exNet4_wf : exNet4.WF := by
  refine ⟨by decide, ?_, ?_⟩
  · rw [mem_nodeLabels]; right
    exact ⟨_, List.mem_cons_self .., Or.inr rfl⟩
  · intro b hb
    simp only [exNet4, List.mem_cons, List.mem_nil_iff, or_false] at hb
    rcases hb with rfl | rfl <;> decide

theorem exRep4_solves : CircuitEqs exNet4 exRep4 := by
  refine ⟨by decide, ?_, ?_, ?_⟩
  · intro b hb
    simp only [exNet4, List.mem_cons, List.mem_nil_iff, or_false] at hb
    rcases hb with rfl | rfl <;> decide +kernel
  · intro b hb
    simp only [exNet4, List.mem_cons, List.mem_nil_iff, or_false] at hb
    rcases hb with rfl | rfl <;> decide +kernel
  · intro n hn
    simp only [exNet4, Net.allLabels, List.map_cons, List.map_nil, List.cons_append,
      List.nil_append, List.mem_cons, List.mem_nil_iff, or_false] at hn
    rcases hn with rfl | rfl | rfl | rfl | rfl <;> decide +kernel


/-- `exNet4` is well-posed: with the source zeroed, `φ₁ = v = 0` and `2·i_R = 0` -/
theorem exNet4_wellPosed : WellPosed exNet4 := by
  intro R hR
  have hz : exNet4.zeroSources = (⟨[⟨"1", "0", "Vp", "voltage_source", .norton ⟨0, 0⟩ 0⟩,
      ⟨"1", "0", "R", "resistor", .norton ⟨2, 0⟩ 0⟩], "0"⟩ : Net String GQ) := by
    simp [Net.zeroSources, exNet4, Elem.zeroSources]
  rw [hz] at hR
  have h0 : R.pot "0" = 0 := hR.ref_zero
  have v1 := hR.volt ⟨"1", "0", "Vp", "voltage_source", .norton ⟨0, 0⟩ 0⟩ (by simp)
  have v2 := hR.volt ⟨"1", "0", "R", "resistor", .norton ⟨2, 0⟩ 0⟩ (by simp)
  have l1 := hR.law ⟨"1", "0", "Vp", "voltage_source", .norton ⟨0, 0⟩ 0⟩ (by simp)
  have l2 := hR.law ⟨"1", "0", "R", "resistor", .norton ⟨2, 0⟩ 0⟩ (by simp)
  have k1 := hR.kcl "1" (by simp [Net.allLabels])
  have z0 : (⟨0, 0⟩ : GQ) = 0 := rfl
  have nz2 : (⟨2, 0⟩ : GQ) ≠ 0 := by intro h; have := congrArg GQ.re h; simp at this
  simp only [voltResidual] at v1 v2
  simp only [Elem.lawResidual, z0, nz2, if_false, if_true] at l1 l2
  simp [kclResidual, incidence, Elem.physCurrent, Elem.isLossy, Elem.kind, z0, nz2] at k1
  have vV : R.v "Vp" = 0 := by linear_combination l1
  have p1 : R.pot "1" = 0 := by linear_combination -v1 + vV + h0
  have vR : R.v "R" = 0 := by linear_combination v2 + p1 - h0
  have iR : R.i "R" = 0 := by
    have : (⟨2, 0⟩ : GQ) * R.i "R" = 0 := by linear_combination vR - l2
    exact (mul_eq_zero.mp this).resolve_left nz2
  have iV : R.i "Vp" = 0 := by linear_combination k1 - iR
  constructor
  · intro n hn
    simp only [exNet4, Net.allLabels, List.map_cons, List.map_nil, List.cons_append,
      List.nil_append, List.mem_cons, List.mem_nil_iff, or_false] at hn
    rcases hn with rfl | rfl | rfl | rfl | rfl <;> simp [Report.zeroRep, h0, p1]
  · intro b hb
    simp only [exNet4, List.mem_cons, List.mem_nil_iff, or_false] at hb
    rcases hb with rfl | rfl <;> simp only [Report.zeroRep]
    · exact ⟨vV, iV⟩
    · exact ⟨vR, iR⟩

/-- one analysed frequency of a two-part decomposition: the source value 4/3 split as 1 + 1/3 -/
def exSuper : SuperLine String :=
  { c := 3 / 5, s := 4 / 5, bs := exNet0.branches, z := "0",
    s1 := fun id => if id = "Vp" then ⟨1, 0⟩ else 0, s2 := fun id => if id = "Vp" then ⟨1 / 3, 0⟩ else 0,
    x1 := exNet0.pack exRep0.toSol, x2 := exNet1.pack exRep1.toSol, x := exNet4.pack exRep4.toSol }

theorem exSuper_N1 : exSuper.N1 = exNet0 := by
  have : withSrc exNet0.branches exSuper.s1 = exNet0.branches := by decide +kernel
  show (⟨withSrc exNet0.branches exSuper.s1, "0"⟩ : Net String GQ) = exNet0
  rw [this]; rfl
theorem exSuper_N2 : exSuper.N2 = exNet1 := by
  have : withSrc exNet0.branches exSuper.s2 = exNet1.branches := by decide +kernel
  show (⟨withSrc exNet0.branches exSuper.s2, "0"⟩ : Net String GQ) = exNet1
  rw [this]; rfl
theorem exSuper_N : exSuper.N = exNet4 := by
  have : withSrc exNet0.branches (fun id => exSuper.s1 id + exSuper.s2 id) = exNet4.branches := by decide +kernel
  show (⟨withSrc exNet0.branches (fun id => exSuper.s1 id + exSuper.s2 id), "0"⟩ : Net String GQ) = exNet4
  rw [this]; rfl

/-- every hypothesis of `C09_superpose_sources_currents` (and of `C09_superpose_sources_reported`) is met by `[exSuper]`;
both branches are non-lossy in all three networks -/
example := C09_superpose_sources_currents [exSuper] (by
  intro l hl
  simp only [List.mem_cons, List.mem_nil_iff, or_false] at hl
  subst hl
  rw [exSuper_N1, exSuper_N2, exSuper_N]
  exact ⟨exNet0_wf, exNet1_wf, exNet4_wf, exNet4_wellPosed,
    pack_length _ exNet0_wf.ids_nodup _, pack_length _ exNet1_wf.ids_nodup _, pack_length _ exNet4_wf.ids_nodup _,
    C01_complete _ _ exNet0_wf exRep0_solves, C01_complete _ _ exNet1_wf exRep1_solves,
    C01_complete _ _ exNet4_wf exRep4_solves⟩)

example : ∃ b ∈ exSuper.bs, b.id = "R" ∧ (b.e.setSrc (exSuper.s1 "R" + exSuper.s2 "R")).isLossy = false ∧
    (b.e.setSrc (exSuper.s1 "R")).isLossy = false ∧ (b.e.setSrc (exSuper.s2 "R")).isLossy = false :=
  ⟨⟨"1", "0", "R", "resistor", .norton ⟨2, 0⟩ 0⟩, by simp [exSuper, exNet0], rfl, by decide +kernel, by decide +kernel,
    by decide +kernel⟩

/-- ground, an ideal rectangular current source `Ip` (I = 1, w0 = 2) feeding node 1, a 2 Ω resistor to ground -/
def exPerI : List Component :=
  [⟨"ground", "gnd", ["0"], []⟩,
   ⟨"periodic_current_source", "Ip", ["0", "1"],
     [("wavetype", .str "rect"), ("I", .num 1), ("w", .num 2), ("phi", .num 0), ("G", .num 0)]⟩,
   ⟨"resistor", "R", ["1", "0"], [("R", .num 2)]⟩]

/-- the network of `exPerI` at the fundamental `w = 2` -/
def exNetI : Net String GQ :=
  ⟨[⟨"0", "1", "Ip", "current_source", .thevenin ⟨0, 0⟩ ⟨1 / 3, 0⟩⟩,
    ⟨"1", "0", "R", "resistor", .norton ⟨2, 0⟩ 0⟩], "0"⟩

theorem exPerI_branches : transformBranches Gen.tables exTrig exHarm exPerI (2 * ((1 : ℕ) : ℚ)) Gen.defaultWResTransform
    = .ok exNetI.branches := by decide +kernel

theorem exPerI_transform : transformCircuit Gen.tables exTrig exHarm ⟨exPerI, "0"⟩ (2 * ((1 : ℕ) : ℚ))
    Gen.defaultWResTransform = .ok exNetI := by
  unfold transformCircuit
  rw [exPerI_branches]
  simp [exNetI, bind, Except.bind, Net.check, Net.nodeLabels, sortL, dedupL, Net.ids, pure, Except.pure]

def exRepI : Report String GQ :=
  { pot := fun n => if n = "1" then ⟨2 / 3, 0⟩ else 0
    v := fun id => if id = "Ip" then ⟨-2 / 3, 0⟩ else ⟨2 / 3, 0⟩
    i := fun _ => ⟨1 / 3, 0⟩ }

theorem exNetI_wf : exNetI.WF := by
  refine ⟨by decide, ?_, ?_⟩
  · rw [mem_nodeLabels]; right
    exact ⟨_, List.mem_cons_self .., Or.inl rfl⟩
  · intro b hb
    simp only [exNetI, List.mem_cons, List.mem_nil_iff, or_false] at hb
    rcases hb with rfl | rfl <;> decide

theorem exRepI_solves : CircuitEqs exNetI exRepI := by
  refine ⟨by decide, ?_, ?_, ?_⟩
  · intro b hb
    simp only [exNetI, List.mem_cons, List.mem_nil_iff, or_false] at hb
    rcases hb with rfl | rfl <;> decide +kernel
  · intro b hb
    simp only [exNetI, List.mem_cons, List.mem_nil_iff, or_false] at hb
    rcases hb with rfl | rfl <;> decide +kernel
  · intro n hn
    simp only [exNetI, Net.allLabels, List.map_cons, List.map_nil, List.cons_append,
      List.nil_append, List.mem_cons, List.mem_nil_iff, or_false] at hn
    rcases hn with rfl | rfl | rfl | rfl | rfl <;> decide +kernel

/-- every hypothesis of `C09_periodic_own_line_current` is met by `exPerI` at the fundamental (`k = 1`, `w = 2`) -/
example := C09_periodic_own_line_current exTrig exHarm rfl ⟨exPerI, "0"⟩
  ⟨"periodic_current_source", "Ip", ["0", "1"],
     [("wavetype", .str "rect"), ("I", .num 1), ("w", .num 2), ("phi", .num 0), ("G", .num 0)]⟩
  "0" "1" "rect" 1 2 0 (by decide) rfl rfl rfl (by decide) rfl rfl rfl rfl (by norm_num) 1
  Gen.defaultWResTransform defaultWRes_nonneg (by unfold Gen.defaultWResTransform; norm_num) exNetI exPerI_transform
  exNetI_wf.no_self_loop (exNetI.pack exRepI.toSol) (pack_length _ exNetI_wf.ids_nodup _)
  (C01_complete _ _ exNetI_wf exRepI_solves) 1

/-- `C09_periodic_frequencies`: `exPer` as `frequency_components` sees it, `w_max = 7`: lines at 0, 2, 4, 6 -/
example := C09_periodic_frequencies [⟨"ground", none⟩] [⟨"resistor", none⟩] ⟨"periodic_voltage_source", some 2⟩ 2 7
  (by simp) (by simp) rfl rfl (by norm_num)

/-- `C09_reconstruction_mean_square`: a sawtooth of period 1/50 -/
example := C09_reconstruction_mean_square ⟨.SawFunction, 1 / 50, 3 / 2, -40, -2⟩ _ (by norm_num) rfl

end Examples

end CC
