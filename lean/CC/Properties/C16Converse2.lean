/-
  C16 — the CONVERSE of short-circuit contraction (round 5c): every solution of the contracted network
  extends to a solution of the original one.  Built on CC/Proofs/ContractConverse.lean (`step_converse`,
  `contractAll_converse`: induction along the contraction steps; the current of one short per step balances
  Kirchhoff's current law at the absorbed node).

  Hypothesis (`DroppedZeroOK N keep`): if anything is contracted, every branch of `N` whose terminals are joined
  by non-exempt short circuits — exactly the branches that disappear, `C16_short_dropped_iff` — is consistent
  at zero voltage (`Elem.ZeroVoltOK`, i.e. it is NOT an ideal voltage source with `V ≠ 0`,
  `Elem.zeroVoltOK_iff`).  It is necessary: it holds whenever `N` has a solution at all
  (`C16_short_converse_needs`).

    C16_short_converse        solutions of N' extend to N: pot = pot' ∘ σ, survivors unchanged, dropped voltages 0
    C16_short_converse_needs  the hypothesis is necessary
    C16_short_iff             R' solves N'  ↔  some solution of N agrees with R' on N'   (under the hypothesis)
    C16_short_iff_sourceFree  the same when every dropped branch is source-free
    C16_short_solvable_iff    N solvable ↔ N' solvable and the hypothesis holds         (no hypothesis)
    C16_passive_converse      solutions of passive_network(N, keep) extend to the source-zeroed N
    C16_passive_converse_all  … unconditionally for the empty exemption list
-/
import CC.Proofs.ContractConverse
import CC.Properties.C16Converse
import CC.Properties.C16PassivePort
set_option linter.unusedSectionVars false
set_option linter.unusedVariables false

namespace CC
variable {L K : Type} [DecidableEq L] [LabelOrd L] [Field K] [DecidableEq K]

/-- **the hypothesis of the converse**: if a non-exempt short exists, every branch whose terminals are joined
by non-exempt shorts (every branch `remove_short_circuit_elements` drops) is consistent at zero voltage -/
def DroppedZeroOK (N : Net L K) (keep : List (ElemKey K)) : Prop :=
  ∀ b ∈ N.branches, HasShort N keep → ShortJoined N keep b.n1 b.n2 → b.e.ZeroVoltOK

theorem isShort_eq {e : Elem K} (h : e.isShort = true) : e = .norton 0 0 := by
  cases e with
  | norton Z V =>
    simp only [Elem.isShort, Bool.and_eq_true, decide_eq_true_eq] at h
    rw [h.1, h.2]
  | thevenin Y I => simp [Elem.isShort] at h

theorem pairShort_shortPairs (N : Net L K) (keep : List (ElemKey K)) :
    ∀ p ∈ shortPairs N keep, PairShort N.branches p := by
  intro p hp
  right
  rcases shortPairs_mem N keep p hp with ⟨s, hs, h1, _, e1, e2⟩ | ⟨s, hs, h1, _, e1, e2⟩
  · exact ⟨s, hs, isShort_eq h1, Or.inl ⟨e1, e2⟩⟩
  · exact ⟨s, hs, isShort_eq h1, Or.inr ⟨e1, e2⟩⟩

theorem hasShort_of_pairs_ne_nil (N : Net L K) (keep : List (ElemKey K)) (h : shortPairs N keep ≠ []) :
    HasShort N keep := by
  by_contra hn
  exact h (List.isEmpty_iff.mp ((shortPairs_isEmpty_iff N keep).mpr hn))

/-- every source-free branch list meets the hypothesis -/
theorem droppedZeroOK_of_sourceFree (N : Net L K) (keep : List (ElemKey K))
    (h : ∀ b ∈ N.branches, HasShort N keep → ShortJoined N keep b.n1 b.n2 → b.e.zeroSources = b.e) :
    DroppedZeroOK N keep :=
  fun b hb h1 h2 => Elem.zeroVoltOK_of_sourceFree _ (h b hb h1 h2)

/-- **C16 (short contraction, converse) — `C16_short_converse`.**  `N` any network with distinct identifiers,
`keep` any exemption list, `N'` = `remove_short_circuit_elements(N, keep)`.  If every dropped branch is
consistent at zero voltage (`DroppedZeroOK`; necessary, see `C16_short_converse_needs`), then EVERY solution
`R'` of the circuit equations of `N'` extends to a solution `R` of the circuit equations of `N` with
  * `R.pot x = R'.pot (σ x)` for every label `x` (σ = `shortSigma N keep`), in particular `R.pot = R'.pot` on
    every label of `N'`;
  * the same voltage and reported current on every branch of `N'`;
  * voltage 0 on every dropped branch.
Any number of shorts, chained, starred, parallel, in cycles, on the reference node.  Says nothing about
uniqueness of the extension (currents in cycles of shorts are not unique) nor about the link model ↔ Python. -/
theorem C16_short_converse (N N' : Net L K) (keep : List (ElemKey K)) (R' : Report L K)
    (hid : N.ids.Nodup) (hr : removeShort N keep = .ok N') (hd : DroppedZeroOK N keep)
    (h : CircuitEqs N' R') :
    ∃ R : Report L K, CircuitEqs N R ∧ (∀ x, R.pot x = R'.pot (shortSigma N keep x)) ∧
      (∀ b' ∈ N'.branches, R.v b'.id = R'.v b'.id ∧ R.i b'.id = R'.i b'.id) ∧
      (∀ n ∈ N'.allLabels, R.pot n = R'.pot n) ∧
      (∀ b ∈ N.branches, HasShort N keep → ShortJoined N keep b.n1 b.n2 → R.v b.id = 0) := by
  obtain ⟨z', b'eq⟩ := C16_short_branches N N' keep hr
  have hN' := mk?_ok hr
  subst hN'
  have h' := (circuitEqsAll_iff _ R').mpr h
  simp only at b'eq
  have hd' : shortPairs N keep ≠ [] → ∀ b ∈ N.branches,
      sigmaAll N.zero (shortPairs N keep) b.n1 = sigmaAll N.zero (shortPairs N keep) b.n2 → b.e.ZeroVoltOK :=
    fun hne b hb he => hd b hb (hasShort_of_pairs_ne_nil N keep hne) ((C16_short_sigma_eq_iff N keep _ _).mp he)
  obtain ⟨R, hR, hpot, hsurv⟩ := contractAll_converse N.zero (shortPairs N keep) N.branches hid
    (pairShort_shortPairs N keep) hd' R' h'
  refine ⟨R, (circuitEqsAll_iff N R).mp hR, hpot, hsurv, ?_, ?_⟩
  · intro n hn
    rw [hpot]
    have hfix : shortSigma N keep n = n := by
      simp only [Net.allLabels, List.mem_cons, List.mem_append, List.mem_map] at hn
      rcases hn with rfl | ⟨c, hc, rfl⟩ | ⟨c, hc, rfl⟩
      · exact C16_short_sigma_zero N keep
      · rw [b'eq] at hc
        obtain ⟨b, _, rfl⟩ := List.mem_map.mp (List.mem_filter.mp hc).1
        exact sigmaAll_idem _ _ _
      · rw [b'eq] at hc
        obtain ⟨b, _, rfl⟩ := List.mem_map.mp (List.mem_filter.mp hc).1
        exact sigmaAll_idem _ _ _
    exact congrArg R'.pot hfix
  · intro b hb _ hj
    exact converse_dropped_voltage N.zero (shortPairs N keep) N.branches R R' hR hpot b hb
      ((C16_short_sigma_eq_iff N keep _ _).mpr hj)

/-- in a solution of `N` any two nodes joined by non-exempt shorts are at the same potential -/
theorem shortJoined_equipotential (N : Net L K) (keep : List (ElemKey K)) (R : Report L K)
    (h : CircuitEqs N R) {a b : L} (hj : ShortJoined N keep a b) : R.pot a = R.pot b := by
  induction hj with
  | rel a b hab =>
    rcases shortBetween_mem N keep a b hab with h1 | h1
    · exact shortPairs_equipotential N keep R h _ h1
    · exact (shortPairs_equipotential N keep R h _ h1).symm
  | refl a => rfl
  | symm a b _ ih => exact ih.symm
  | trans a b c _ _ ih1 ih2 => exact ih1.trans ih2

/-- **the hypothesis of the converse is necessary**: if `N` has any solution, every branch whose terminals are
joined by non-exempt shorts is consistent at zero voltage.  (So when `DroppedZeroOK` fails, no solution of
`N'` extends — `N` has none — whereas `N'` may be solvable: `C16ex.exBad`.) -/
theorem C16_short_converse_needs (N : Net L K) (keep : List (ElemKey K)) (R : Report L K)
    (h : CircuitEqs N R) : DroppedZeroOK N keep := by
  intro b hb _ hj
  have hp := shortJoined_equipotential N keep R h hj
  have hv := h.volt b hb
  unfold voltResidual at hv
  have hv0 : R.v b.id = 0 := by rw [hp] at hv; linear_combination hv
  exact ⟨R.i b.id, by have := h.law b hb; rwa [hv0] at this⟩

/-- the circuit equations of a network only read the potentials of its labels and the quantities of its
branches -/
theorem circuitEqs_of_agreeOn (N : Net L K) (R S : Report L K) (hA : R.AgreeOn N S)
    (h : CircuitEqs N R) : CircuitEqs N S := by
  obtain ⟨hp, hb⟩ := hA
  have hz : N.zero ∈ N.allLabels := by simp [Net.allLabels]
  refine ⟨by rw [← hp _ hz]; exact h.ref_zero, ?_, ?_, ?_⟩
  · intro b hbm
    have := h.volt b hbm
    unfold voltResidual at this ⊢
    rw [← (hb b hbm).1, ← hp _ (mem_allLabels_of_incident N hbm (Or.inl rfl)),
      ← hp _ (mem_allLabels_of_incident N hbm (Or.inr rfl))]
    exact this
  · intro b hbm
    rw [← (hb b hbm).1, ← (hb b hbm).2]; exact h.law b hbm
  · intro n hn
    rw [← h.kcl n hn]
    unfold kclResidual
    apply congrArg; apply List.map_congr_left
    intro b hbm
    rw [(hb b hbm).2]

/-- **C16 (short contraction is an identity on solutions) — `C16_short_iff`.**  Under `DroppedZeroOK`: a report
solves the contracted network iff some solution of the original network agrees with it on everything the
contracted network has (potentials of its labels, voltage and current of its branches) — the solutions of
`N'` are exactly the restrictions of the solutions of `N`. -/
theorem C16_short_iff (N N' : Net L K) (keep : List (ElemKey K)) (R' : Report L K)
    (hid : N.ids.Nodup) (hr : removeShort N keep = .ok N') (hd : DroppedZeroOK N keep) :
    CircuitEqs N' R' ↔ ∃ R : Report L K, CircuitEqs N R ∧ R.AgreeOn N' R' := by
  constructor
  · intro h
    obtain ⟨R, hR, _, hs, hp, _⟩ := C16_short_converse N N' keep R' hid hr hd h
    exact ⟨R, hR, hp, hs⟩
  · rintro ⟨R, hR, hA⟩
    exact circuitEqs_of_agreeOn N' R R' hA (C16_short N N' keep R hr hR).1

/-- the same when every branch that is dropped is source-free (an impedance, an admittance, a short, an open
circuit) — no hypothesis on the branches that survive -/
theorem C16_short_iff_sourceFree (N N' : Net L K) (keep : List (ElemKey K)) (R' : Report L K)
    (hid : N.ids.Nodup) (hr : removeShort N keep = .ok N')
    (hsf : ∀ b ∈ N.branches, HasShort N keep → ShortJoined N keep b.n1 b.n2 → b.e.zeroSources = b.e) :
    CircuitEqs N' R' ↔ ∃ R : Report L K, CircuitEqs N R ∧ R.AgreeOn N' R' :=
  C16_short_iff N N' keep R' hid hr (droppedZeroOK_of_sourceFree N keep hsf)

/-- **solvability, no hypothesis on the elements**: the original network is solvable iff the contracted one is
and no dropped branch is an ideal voltage source with `V ≠ 0` -/
theorem C16_short_solvable_iff (N N' : Net L K) (keep : List (ElemKey K))
    (hid : N.ids.Nodup) (hr : removeShort N keep = .ok N') :
    (∃ R : Report L K, CircuitEqs N R) ↔ (∃ R' : Report L K, CircuitEqs N' R') ∧ DroppedZeroOK N keep := by
  constructor
  · rintro ⟨R, hR⟩
    exact ⟨⟨R, (C16_short N N' keep R hr hR).1⟩, C16_short_converse_needs N keep R hR⟩
  · rintro ⟨⟨R', hR'⟩, hd⟩
    obtain ⟨R, hR, _⟩ := C16_short_converse N N' keep R' hid hr hd hR'
    exact ⟨R, hR⟩

/-! ### `passive_network` -/

theorem mk?_ids_nodup {bs : List (Branch L K)} {z : L} {N' : Net L K} (h : Net.mk? bs z = .ok N') :
    N'.ids.Nodup := by
  obtain ⟨rfl, _, hn⟩ := (mk?_eq_ok_iff bs z N').mp h
  exact hn

/-- a branch that `short_circuitify_voltage_sources` does not exempt is consistent at zero voltage afterwards -/
theorem zeroVoltOK_zeroVS (keep : List (ElemKey K)) (c : Branch L K) (hk : keep.contains c.key = false) :
    (zeroVS keep c).e.ZeroVoltOK := by
  rw [Elem.zeroVoltOK_iff]
  intro V hV
  by_cases hv : c.e.isVSrc = true
  · rw [zeroVS_of_sel keep c hk hv] at hV
    simp only [zeroInVoltage] at hV
    injection hV with _ h2
    exact h2.symm
  · rw [zeroVS_of_not keep c (by simpa using hv)] at hV
    rw [hV] at hv
    by_contra hV0
    exact hv (by simp [Elem.isVSrc, Elem.Vval, hV0])

/-- the only branches of the stage network that can violate `DroppedZeroOK` are exempted ones -/
theorem droppedZeroOK_stage (N : Net L K) (keep : List (ElemKey K))
    (hk : ∀ c ∈ (passiveStage N keep).branches, keep.contains c.key = true → HasShort (passiveStage N keep) keep →
      ShortJoined (passiveStage N keep) keep c.n1 c.n2 → c.e.ZeroVoltOK) :
    DroppedZeroOK (passiveStage N keep) keep := by
  intro c hc h1 h2
  obtain ⟨c1, _, rfl⟩ := List.mem_map.mp (show c ∈ List.map (zeroVS keep) _ from hc)
  by_cases hkc : keep.contains c1.key = true
  · have e : zeroVS keep c1 = c1 := zeroVS_of_kept keep c1 hkc
    rw [e] at hc h2 ⊢
    exact hk c1 hc hkc h1 h2
  · exact zeroVoltOK_zeroVS keep c1 (by simpa using hkc)

/-- with the empty exemption list the hypothesis always holds -/
theorem droppedZeroOK_stage_nil (N : Net L K) : DroppedZeroOK (passiveStage N []) ([] : List (ElemKey K)) :=
  droppedZeroOK_stage N [] fun c _ hkc => by simp at hkc

/-- **C16 (`passive_network`, converse) — `C16_passive_converse`.**  `N'` = `passive_network(N, keep)`.  If no
EXEMPTED ideal voltage source with `V ≠ 0` lies parallel to a chain of contracted shorts (`hk`; the non-exempt
branches are zeroed and meet the hypothesis by themselves), then every solution `R'` of the circuit equations of
`N'` extends to a solution `R` of the source-zeroed input (skeleton of `N`, every non-exempt active source set to
0 — the network of `C16_passive_sound`): `R.pot x = R'.pot (σ x)` with σ the contraction's renaming,
`R.pot = R'.pot` on the labels of `N'`, the same voltage and current on every branch of `N'`.  Together with
`C16_passive_sound`: the passive network and the source-zeroed input have the same solutions on what survives. -/
theorem C16_passive_converse (N N' : Net L K) (keep : List (ElemKey K)) (R' : Report L K)
    (hr : passiveNetwork N keep = .ok N')
    (hk : ∀ c ∈ (passiveStage N keep).branches, keep.contains c.key = true → HasShort (passiveStage N keep) keep →
      ShortJoined (passiveStage N keep) keep c.n1 c.n2 → c.e.ZeroVoltOK)
    (h : CircuitEqs N' R') :
    ∃ R : Report L K, CircuitEqs ⟨N.branches.map (zeroWhere (selSrc keep)), N.zero⟩ R ∧
      (∀ x, R.pot x = R'.pot (shortSigma (passiveStage N keep) keep x)) ∧
      (∀ b' ∈ N'.branches, R.v b'.id = R'.v b'.id ∧ R.i b'.id = R'.i b'.id) ∧
      (∀ n ∈ N'.allLabels, R.pot n = R'.pot n) := by
  obtain ⟨N1, N2, N3, h1, h2, h3, h4, z3, b3, hz, _⟩ := C16_passive_shape N N' keep hr
  have e3 : N3 = passiveStage N keep := by
    cases N3 with
    | mk br z => simp only at z3 b3; subst z3; subst b3; rfl
  subst e3
  have hid3 : (passiveStage N keep).ids.Nodup := mk?_ids_nodup (show Net.mk? _ _ = .ok _ from h3)
  have hidN : N.ids.Nodup := by
    have := mk?_ids_nodup (show Net.mk? _ _ = .ok N1 from h1)
    have e := (C16_zero_current_branches N N1 keep h1).2
    unfold Net.ids at this ⊢
    rw [e, List.map_map] at this
    have e' : ((fun b : Branch L K => b.id) ∘ zeroCS keep) = fun b : Branch L K => b.id := by
      funext b; exact (zeroCS_nodes keep b).2.2
    rw [e'] at this; exact this
  -- contraction
  obtain ⟨R3, hR3, hpot3, hs3, hl3, _⟩ :=
    C16_short_converse (passiveStage N keep) N' keep R' hid3 h4 (droppedZeroOK_stage N keep hk) h
  -- open removal
  let M : Net L K := ⟨N.branches.map fun b => zeroVS keep (zeroCS keep b), N.zero⟩
  have hidM : M.ids.Nodup := by
    unfold Net.ids at hidN ⊢
    show ((N.branches.map fun b => zeroVS keep (zeroCS keep b)).map (·.id)).Nodup
    rw [List.map_map]
    have e' : ((fun b : Branch L K => b.id) ∘ fun b => zeroVS keep (zeroCS keep b)) = fun b : Branch L K => b.id := by
      funext b
      exact (zeroVS_nodes keep (zeroCS keep b)).2.2.trans (zeroCS_nodes keep b).2.2
    rw [e']; exact hidN
  have hb3 : (passiveStage N keep).branches = M.branches.filter fun b => !b.e.isOpen := by
    show ((N.branches.map (zeroCS keep)).filter fun b => !b.e.isOpen).map (zeroVS keep)
      = (N.branches.map fun b => zeroVS keep (zeroCS keep b)).filter fun b => !b.e.isOpen
    have e : (N.branches.map fun b => zeroVS keep (zeroCS keep b))
        = (N.branches.map (zeroCS keep)).map (zeroVS keep) := by rw [List.map_map]; rfl
    have e2 : ((N.branches.map (zeroCS keep)).map (zeroVS keep)).filter (fun b => !b.e.isOpen)
        = ((N.branches.map (zeroCS keep)).filter fun b => !b.e.isOpen).map (zeroVS keep) := by
      rw [List.filter_map]
      congr 1
      apply List.filter_congr
      intro c _
      simp only [Function.comp_apply, isOpen_zeroVS]
    rw [e, e2]
  have hopen : removeOpen M = .ok (passiveStage N keep) := by
    have := mk?_self_of_ok (show Net.mk? _ _ = .ok (passiveStage N keep) from h3)
    rw [C16_open_shape, ← hb3]
    exact this
  obtain ⟨hM, hpotM, hsM⟩ := C16_open_converse M (passiveStage N keep) R3 hidM hopen hR3
  -- the record-class change
  have hZ : CircuitEqs ⟨N.branches.map (zeroWhere (selSrc keep)), N.zero⟩ (R3.withOpens M) := by
    rw [← circuitEqsAll_iff] at hM ⊢
    exact (circuitEqsAll_map_elecEq N.branches _ _ (fun b _ => (C04_zeroed_branch_both keep b).2) N.zero _).mp hM
  refine ⟨R3.withOpens M, hZ, fun x => by rw [hpotM, hpot3], fun b' hb' => ?_, fun n hn => by rw [hpotM, hl3 n hn]⟩
  obtain ⟨c, hc, rfl, _⟩ := (C16_short_survivors_iff (passiveStage N keep) N' keep h4 b').mp hb'
  have := hsM c hc
  have h' := hs3 _ hb'
  exact ⟨this.1.trans h'.1, this.2.trans h'.2⟩

/-- **C16 (`passive_network`, converse, no exemptions) — unconditional.**  For the empty exemption list every
solution of `passive_network(N)` extends to a solution of `N` with all its sources set to 0. -/
theorem C16_passive_converse_all (N N' : Net L K) (R' : Report L K)
    (hr : passiveNetwork N [] = .ok N') (h : CircuitEqs N' R') :
    ∃ R : Report L K, CircuitEqs ⟨N.branches.map (zeroWhere (selSrc [])), N.zero⟩ R ∧
      (∀ x, R.pot x = R'.pot (shortSigma (passiveStage N []) [] x)) ∧
      (∀ b' ∈ N'.branches, R.v b'.id = R'.v b'.id ∧ R.i b'.id = R'.i b'.id) ∧
      (∀ n ∈ N'.allLabels, R.pot n = R'.pot n) :=
  C16_passive_converse N N' [] R' hr (fun c _ hkc => by simp at hkc) h

/-- **C16 (`passive_network` is an identity on solutions).**  Under `hk`: `R'` solves the passive network iff
some solution of the source-zeroed input agrees with it on everything the passive network has. -/
theorem C16_passive_iff (N N' : Net L K) (keep : List (ElemKey K)) (R' : Report L K)
    (hr : passiveNetwork N keep = .ok N')
    (hk : ∀ c ∈ (passiveStage N keep).branches, keep.contains c.key = true → HasShort (passiveStage N keep) keep →
      ShortJoined (passiveStage N keep) keep c.n1 c.n2 → c.e.ZeroVoltOK) :
    CircuitEqs N' R' ↔
      ∃ R : Report L K, CircuitEqs ⟨N.branches.map (zeroWhere (selSrc keep)), N.zero⟩ R ∧ R.AgreeOn N' R' := by
  constructor
  · intro h
    obtain ⟨R, hR, _, hs, hp⟩ := C16_passive_converse N N' keep R' hr hk h
    exact ⟨R, hR, hp, hs⟩
  · rintro ⟨R, hR, hA⟩
    exact circuitEqs_of_agreeOn N' R R' hA (C16_passive_sound N N' keep R hr hR).1

/-! ### the probe network and the port impedance -/

/-- extend a report to removed open-circuit branches of the list `cs`: current 0, voltage `φ(n1) − φ(n2)` -/
def openExt (cs : List (Branch L K)) (R : Report L K) : Report L K where
  pot := R.pot
  v := fun id => match findId cs id with
    | some c => if c.e.isOpen then R.pot c.n1 - R.pot c.n2 else R.v id
    | none => R.v id
  i := fun id => match findId cs id with
    | some c => if c.e.isOpen then 0 else R.i id
    | none => R.i id

theorem physCurrent_zero (e : Elem K) : e.physCurrent (0 : K) = 0 := by
  unfold Elem.physCurrent; split <;> simp

theorem isOpen_eq {e : Elem K} (h : e.isOpen = true) : e = .thevenin 0 0 := by
  cases e with
  | norton Z V => simp [Elem.isOpen] at h
  | thevenin Y I =>
    simp only [Elem.isOpen, Bool.and_eq_true, decide_eq_true_eq] at h
    rw [h.1, h.2]

/-- re-inserting dropped open-circuit branches (list level, the branch list given as the image of an index
list; converse of `circuitEqsAll_filter_open`) -/
theorem circuitEqsAll_filter_open_converse {α : Type} (l : List α) (g : α → Branch L K) (q : α → Bool)
    (hid : ((l.map g).map (·.id)).Nodup)
    (hq : ∀ x ∈ l, q x = false → (g x).e.isOpen = true) (z : L) (R : Report L K)
    (h : CircuitEqsAll ((l.filter q).map g) z R) : CircuitEqsAll (l.map g) z (openExt (l.map g) R) := by
  have hv : ∀ x ∈ l, (openExt (l.map g) R).v (g x).id =
      if (g x).e.isOpen then R.pot (g x).n1 - R.pot (g x).n2 else R.v (g x).id := by
    intro x hx
    simp only [openExt, findId_of_mem hid (List.mem_map.mpr ⟨x, hx, rfl⟩)]
  have hi : ∀ x ∈ l, (openExt (l.map g) R).i (g x).id = if (g x).e.isOpen then 0 else R.i (g x).id := by
    intro x hx
    simp only [openExt, findId_of_mem hid (List.mem_map.mpr ⟨x, hx, rfl⟩)]
  have hkept : ∀ x ∈ l, ¬ (g x).e.isOpen = true → g x ∈ (l.filter q).map g := by
    intro x hx ho
    refine List.mem_map.mpr ⟨x, List.mem_filter.mpr ⟨hx, ?_⟩, rfl⟩
    cases hqx : q x with
    | true => rfl
    | false => exact absurd (hq x hx hqx) ho
  refine ⟨h.ref_zero, ?_, ?_, ?_⟩
  · intro c hc
    obtain ⟨x, hx, rfl⟩ := List.mem_map.mp hc
    unfold voltResidual
    rw [hv x hx]
    by_cases ho : (g x).e.isOpen = true
    · rw [if_pos ho]; show R.pot (g x).n1 - R.pot (g x).n2 - (R.pot (g x).n1 - R.pot (g x).n2) = 0; ring
    · rw [if_neg ho]; exact h.volt _ (hkept x hx ho)
  · intro c hc
    obtain ⟨x, hx, rfl⟩ := List.mem_map.mp hc
    rw [hv x hx, hi x hx]
    by_cases ho : (g x).e.isOpen = true
    · rw [if_pos ho, if_pos ho, isOpen_eq ho]; simp [Elem.lawResidual]
    · rw [if_neg ho, if_neg ho]; exact h.law _ (hkept x hx ho)
  · intro n
    have := h.kcl n
    unfold kclResidual at this ⊢
    simp only [List.map_map] at this ⊢
    rw [sum_filter_eq_sum_ite] at this
    rw [← this]
    apply congrArg; apply List.map_congr_left
    intro x hx
    simp only [Function.comp_apply]
    rw [hi x hx]
    by_cases ho : (g x).e.isOpen = true
    · rw [if_pos ho, physCurrent_zero, mul_zero]
      cases hqx : q x with
      | false => simp
      | true =>
        have hm : g x ∈ (l.filter q).map g := List.mem_map.mpr ⟨x, List.mem_filter.mpr ⟨hx, hqx⟩, rfl⟩
        have hl := h.law _ hm
        rw [isOpen_eq ho] at hl
        have h0 : R.i (g x).id = 0 := by simpa [Elem.lawResidual] using hl
        simp [h0, physCurrent_zero]
    · rw [if_neg ho]
      cases hqx : q x with
      | false => exact absurd (hq x hx hqx) ho
      | true => simp

/-- **C16 (`passive_network` and the probe network, converse).**  `N'` = `passive_network(N, keep)`, `a ≠ b` two
nodes that the contraction does not rename, `pid` not an identifier of `N`.  Every solution `R'` of the probe
network of `N'` extends to a solution `R` of the probe network of `N` with the same potentials at `a` and `b`
(indeed `R.pot x = R'.pot (σ x)` everywhere).  No hypothesis on the elements: in the probe network every source
— exempted or not — is zeroed, so every dropped branch is consistent at zero voltage. -/
theorem C16_passive_probe_converse (N N' : Net L K) (keep : List (ElemKey K))
    (hr : passiveNetwork N keep = .ok N') (pid : String) (hpid : pid ∉ N.ids) (a b : L) (hab : a ≠ b)
    (ha : PassiveKeepsNode N keep a) (hb : PassiveKeepsNode N keep b) (J : K) (R' : Report L K)
    (h : CircuitEqs (probeNet N' pid a b J) R') :
    ∃ R : Report L K, CircuitEqs (probeNet N pid a b J) R ∧
      (∀ x, R.pot x = R'.pot (shortSigma (passiveStage N keep) keep x)) ∧
      R.pot a = R'.pot a ∧ R.pot b = R'.pot b := by
  have h4 := passive_stage_eq N N' keep hr
  obtain ⟨z4, b4⟩ := C16_short_branches (passiveStage N keep) N' keep h4
  obtain ⟨N1, N2, N3, h1, _, h3, _, z3, b3, _, _⟩ := C16_passive_shape N N' keep hr
  have hidN : N.ids.Nodup := by
    have := mk?_ids_nodup (show Net.mk? _ _ = .ok N1 from h1)
    have e := (C16_zero_current_branches N N1 keep h1).2
    unfold Net.ids at this ⊢
    rw [e, List.map_map] at this
    have e' : ((fun b : Branch L K => b.id) ∘ zeroCS keep) = fun b : Branch L K => b.id := by
      funext b; exact (zeroCS_nodes keep b).2.2
    rw [e'] at this; exact this
  set p : Branch L K := probeBranch pid a b J with hp
  rw [← circuitEqsAll_iff] at h
  let idx : List (Option (Branch L K)) := N.branches.map some ++ [none]
  let g0 : Option (Branch L K) → Branch L K := fun o => match o with | some c => zsB c | none => p
  let g1 : Option (Branch L K) → Branch L K := fun o => match o with
    | some c => zsB (zeroVS keep (zeroCS keep c)) | none => p
  let q : Option (Branch L K) → Bool := fun o => match o with
    | some c => !(zeroCS keep c).e.isOpen | none => true
  have e0 : (probeNet N pid a b J).branches = idx.map g0 := by
    show zs N.branches ++ [p] = _
    simp only [idx, List.map_append, List.map_map, List.map_cons, List.map_nil, zs_eq_map]
    rfl
  have e2 : (idx.filter q).map g1 = zs (passiveStage N keep).branches ++ [p] := by
    simp only [idx, List.filter_append, List.map_append, List.filter_map, List.map_map, passiveStage, zs_eq_map]
    congr 1
  have e3 : contractAll N.zero (shortPairs (passiveStage N keep) keep) (zs (passiveStage N keep).branches ++ [p])
      = zs N'.branches ++ [p] := by
    rw [C16_contract_shape, List.map_append, List.filter_append, b4]
    congr 1
    · simp only [zs_eq_map, List.map_map, List.filter_map]
      rfl
    · have h1 : shortSigma (passiveStage N keep) keep a = a := ha
      have h2 : shortSigma (passiveStage N keep) keep b = b := hb
      have hpm : p.mapNodes (sigmaAll N.zero (shortPairs (passiveStage N keep) keep)) = p := by
        show ({ p with n1 := shortSigma (passiveStage N keep) keep b,
                       n2 := shortSigma (passiveStage N keep) keep a } : Branch L K) = p
        rw [h1, h2, hp]; rfl
      simp only [List.map_cons, List.map_nil, hpm]
      have hne : p.n1 ≠ p.n2 := fun e => hab e.symm
      simp [hne]
  -- identifiers
  have hids1 : (idx.map g1).map (·.id) = N.ids ++ [pid] := by
    simp only [idx, List.map_append, List.map_map, List.map_cons, List.map_nil, Net.ids]
    congr 1
    apply List.map_congr_left
    intro c _
    show (zsB (zeroVS keep (zeroCS keep c))).id = c.id
    exact (zeroVS_nodes keep (zeroCS keep c)).2.2.trans (zeroCS_nodes keep c).2.2
  have hnd1 : ((idx.map g1).map (·.id)).Nodup := by
    rw [hids1]
    exact List.nodup_append.mpr ⟨hidN, by simp, by
      intro x hx y hy e
      simp only [List.mem_singleton] at hy
      exact hpid (by rw [← hy, ← e]; exact hx)⟩
  have hnd2 : ((zs (passiveStage N keep).branches ++ [p]).map (·.id)).Nodup := by
    rw [← e2]
    have : (((idx.filter q).map g1).map (·.id)).Sublist ((idx.map g1).map (·.id)) :=
      ((List.filter_sublist (l := idx) (p := q)).map g1).map _
    exact this.nodup hnd1
  -- (c) contraction
  have hps : ∀ pr ∈ shortPairs (passiveStage N keep) keep,
      PairShort (zs (passiveStage N keep).branches ++ [p]) pr := by
    intro pr hpr
    rcases pairShort_shortPairs (passiveStage N keep) keep pr hpr with h0 | ⟨s, hs, hse, hsn⟩
    · exact Or.inl h0
    · refine Or.inr ⟨zsB s, List.mem_append_left _ (List.mem_map.mpr ⟨s, hs, rfl⟩), ?_, hsn⟩
      show s.e.zeroSources = _
      rw [hse]; rfl
  have hd : shortPairs (passiveStage N keep) keep ≠ [] → ∀ c ∈ zs (passiveStage N keep).branches ++ [p],
      sigmaAll N.zero (shortPairs (passiveStage N keep) keep) c.n1 =
        sigmaAll N.zero (shortPairs (passiveStage N keep) keep) c.n2 → c.e.ZeroVoltOK := by
    intro _ c hc _
    rcases List.mem_append.mp hc with hc | hc
    · obtain ⟨s, _, rfl⟩ := List.mem_map.mp hc
      exact Elem.zeroVoltOK_zeroSources _
    · simp only [List.mem_singleton] at hc
      rw [hc]; exact Elem.zeroVoltOK_thevenin _ _
  have h' : CircuitEqsAll (contractAll N.zero (shortPairs (passiveStage N keep) keep)
      (zs (passiveStage N keep).branches ++ [p])) N.zero R' := by
    rw [e3]
    have : N.zero = N'.zero := z4.symm
    rw [this]; exact h
  obtain ⟨R3, hR3, hpot3, _⟩ := contractAll_converse N.zero (shortPairs (passiveStage N keep) keep)
    (zs (passiveStage N keep).branches ++ [p]) hnd2 hps hd R' h'
  -- (b) open circuits
  rw [← e2] at hR3
  have hR2 := circuitEqsAll_filter_open_converse idx g1 q hnd1 (by
    intro o _ hq
    cases o with
    | none => simp [q] at hq
    | some c =>
      have hc : (zeroCS keep c).e.isOpen = true := by simpa [q] using hq
      have h2 : (zeroVS keep (zeroCS keep c)).e.isOpen = true := by rw [isOpen_zeroVS]; exact hc
      show (zeroVS keep (zeroCS keep c)).e.zeroSources.isOpen = true
      rw [isOpen_eq h2]; simp [Elem.zeroSources, Elem.isOpen]) N.zero R3 hR3
  -- (a) record classes
  have hR0 : CircuitEqsAll (idx.map g0) N.zero (openExt (idx.map g1) R3) := by
    refine circuitEqsAll_map_elecEq_mp idx g0 g1 ?_ N.zero _ hR2
    intro o _
    cases o with
    | none => exact Branch.ElecEq.rfl' _
    | some c => exact (elecEq_zsB_zeroed keep c).symm
  have hpot : ∀ x, (openExt (idx.map g1) R3).pot x = R'.pot (shortSigma (passiveStage N keep) keep x) :=
    fun x => hpot3 x
  refine ⟨openExt (idx.map g1) R3, ?_, hpot, ?_, ?_⟩
  · rw [← circuitEqsAll_iff, e0]; exact hR0
  · rw [hpot a]; exact congrArg R'.pot ha
  · rw [hpot b]; exact congrArg R'.pot hb

/-- **C16 (`passive_network` keeps the port impedance) — `C16_passive_port_iff`, UNCONDITIONAL.**  `N'` =
`passive_network(N, keep)`; `a ≠ b` two nodes that keep their names (`PassiveKeepsNode`: e.g. the reference node,
or any node that is not a terminal of a contracted short / zeroed ideal voltage source); `pid` not an identifier
of `N`.  Then for every `z`: `z` is the Spec's port impedance of `N` between `a` and `b` iff it is that of `N'` —
neither solvability of the probe network of `N` nor well-posedness of the probe network of `N'` is assumed
(the two extra hypotheses of `C16_passive_port` are gone; both transfer through
`C16_passive_probe_sound` / `C16_passive_probe_converse`).  Not covered: ports at renamed nodes, `a = b`. -/
theorem C16_passive_port_iff (N N' : Net L K) (keep : List (ElemKey K))
    (hr : passiveNetwork N keep = .ok N') (pid : String) (hpid : pid ∉ N.ids) (a b : L) (hab : a ≠ b)
    (ha : PassiveKeepsNode N keep a) (hb : PassiveKeepsNode N keep b) (z : K) :
    PortZ N pid a b z ↔ PortZ N' pid a b z := by
  constructor
  · rintro ⟨⟨R, hR⟩, hall⟩
    refine ⟨⟨R, C16_passive_probe_sound N N' keep hr pid a b hab ha hb 1 R hR⟩, fun S hS => ?_⟩
    obtain ⟨R1, hR1, _, e1, e2⟩ := C16_passive_probe_converse N N' keep hr pid hpid a b hab ha hb 1 S hS
    rw [← e1, ← e2]; exact hall R1 hR1
  · rintro ⟨⟨S, hS⟩, hall⟩
    obtain ⟨R1, hR1, _⟩ := C16_passive_probe_converse N N' keep hr pid hpid a b hab ha hb 1 S hS
    exact ⟨⟨R1, hR1⟩, fun R hR => hall R (C16_passive_probe_sound N N' keep hr pid a b hab ha hb 1 R hR)⟩

/-- the probe networks of `N` and of `passive_network(N, keep)` are solvable together -/
theorem C16_passive_probe_solvable_iff (N N' : Net L K) (keep : List (ElemKey K))
    (hr : passiveNetwork N keep = .ok N') (pid : String) (hpid : pid ∉ N.ids) (a b : L) (hab : a ≠ b)
    (ha : PassiveKeepsNode N keep a) (hb : PassiveKeepsNode N keep b) (J : K) :
    (∃ R : Report L K, CircuitEqs (probeNet N pid a b J) R) ↔
      (∃ R' : Report L K, CircuitEqs (probeNet N' pid a b J) R') :=
  ⟨fun ⟨R, hR⟩ => ⟨R, C16_passive_probe_sound N N' keep hr pid a b hab ha hb J R hR⟩,
   fun ⟨S, hS⟩ =>
    let ⟨R1, hR1, _⟩ := C16_passive_probe_converse N N' keep hr pid hpid a b hab ha hb J S hS
    ⟨R1, hR1⟩⟩

/-! ### the hypotheses are satisfiable -/

namespace C16ex

/-- `exN` (C16Survive.lean: chain of two shorts `S1 (a,b)`, `S2 (c,a)`, resistor `R3 (b,c)` parallel to the chain,
exempt short `K`): distinct ids, a result, and every branch is source-free, so `DroppedZeroOK` holds -/
theorem exN_dropped : DroppedZeroOK exN exKeep :=
  droppedZeroOK_of_sourceFree exN exKeep fun b hb _ _ => by
    simp only [exN, List.mem_cons, List.mem_nil_iff, or_false] at hb
    rcases hb with rfl | rfl | rfl | rfl | rfl | rfl | rfl <;> rfl

example : exN.ids.Nodup ∧ removeShort exN exKeep = .ok exN' ∧ DroppedZeroOK exN exKeep :=
  ⟨by decide, exShort, exN_dropped⟩

/-- a DRIVEN network: current source `I` (1 A into `a`), chain of two shorts `S1 (a,b)`, `S2 (b,c)`, resistor
`Rp (a,c)` parallel to the chain, load `R1 (c,z)` -/
def exD : Net String ℚ :=
  ⟨[⟨"z", "a", "I", "current_source", .thevenin 0 1⟩, ⟨"a", "b", "S1", "short_circuit", .norton 0 0⟩,
    ⟨"b", "c", "S2", "short_circuit", .norton 0 0⟩, ⟨"a", "c", "Rp", "resistor", .norton 1 0⟩,
    ⟨"c", "z", "R1", "resistor", .norton 2 0⟩], "z"⟩
def exD' : Net String ℚ :=
  ⟨[⟨"z", "c", "I", "current_source", .thevenin 0 1⟩, ⟨"c", "z", "R1", "resistor", .norton 2 0⟩], "z"⟩

theorem exD_pairs : shortPairs exD [] = [("a", "b"), ("b", "c")] := by decide

theorem exD_contract : contractAll "z" [("a", "b"), ("b", "c")] exD.branches = exD'.branches := by
  rw [contractAll_cons, List.map_cons, List.map_nil, contractAll_cons, List.map_nil, contractAll_nil]
  decide

theorem exD_short : removeShort exD [] = .ok exD' := by
  unfold removeShort
  rw [exD_pairs, show exD.zero = "z" from rfl, exD_contract]
  exact C16ex_mk_ok _ _ ⟨⟨"c", "z", "R1", "resistor", .norton 2 0⟩, by simp [exD'], Or.inr rfl⟩ (by decide)

/-- the (non-zero) solution of the contracted network: 2 V across the load -/
def exDR : Report String ℚ :=
  { pot := fun n => if n = "c" then 2 else 0,
    v := fun id => if id = "R1" then 2 else -2,
    i := fun _ => 1 }

theorem exDR_solves : CircuitEqs exD' exDR := by
  rw [← circuitEqsAll_iff]
  refine ⟨by simp [exDR, exD'], ?_, ?_, ?_⟩
  · intro b hb
    simp only [exD', List.mem_cons, List.mem_nil_iff, or_false] at hb
    rcases hb with rfl | rfl <;> (simp [voltResidual, exDR]; try norm_num)
  · intro b hb
    simp only [exD', List.mem_cons, List.mem_nil_iff, or_false] at hb
    rcases hb with rfl | rfl <;> (simp [Elem.lawResidual, exDR]; try norm_num)
  · intro n
    simp only [exD', kclResidual, List.map_cons, List.map_nil, List.sum_cons, List.sum_nil, incidence,
      Elem.physCurrent, Elem.isLossy, Elem.kind, exDR]
    by_cases hc : n = "c"
    · subst hc; simp
    · by_cases hz : n = "z"
      · subst hz; simp
      · have hc' : ¬ "c" = n := fun e => hc e.symm
        have hz' : ¬ "z" = n := fun e => hz e.symm
        simp [hc', hz']

theorem exD_dropped : DroppedZeroOK exD [] :=
  fun b hb _ _ => by
    simp only [exD, List.mem_cons, List.mem_nil_iff, or_false] at hb
    rcases hb with rfl | rfl | rfl | rfl | rfl
    · exact Elem.zeroVoltOK_thevenin _ _
    all_goals exact Elem.zeroVoltOK_of_sourceFree _ rfl

/-- `C16_short_converse` on the driven network: the non-zero solution of the contracted network extends to the
original — two chained shorts and a parallel resistor re-inserted, 2 V at `a`, `b`, `c` alike -/
example : ∃ R : Report String ℚ, CircuitEqs exD R ∧ R.pot "a" = 2 ∧ R.pot "b" = 2 ∧ R.v "R1" = 2 ∧ R.v "Rp" = 0 := by
  obtain ⟨R, hR, hpot, hs, hl, hdv⟩ := C16_short_converse exD exD' [] exDR (by decide) exD_short exD_dropped exDR_solves
  have hc : R.pot "c" = 2 := by
    rw [hl "c" (by simp [Net.allLabels, exD'])]; simp [exDR]
  have hS1 := hR.volt ⟨"a", "b", "S1", "short_circuit", .norton 0 0⟩ (by simp [exD])
  have hS2 := hR.volt ⟨"b", "c", "S2", "short_circuit", .norton 0 0⟩ (by simp [exD])
  have lS1 := hR.law ⟨"a", "b", "S1", "short_circuit", .norton 0 0⟩ (by simp [exD])
  have lS2 := hR.law ⟨"b", "c", "S2", "short_circuit", .norton 0 0⟩ (by simp [exD])
  have hRp := hR.volt ⟨"a", "c", "Rp", "resistor", .norton 1 0⟩ (by simp [exD])
  simp only [voltResidual] at hS1 hS2 hRp
  simp only [Elem.lawResidual, if_true, sub_zero] at lS1 lS2
  have hb : R.pot "b" = 2 := by linear_combination hc - hS2 + lS2
  have ha : R.pot "a" = 2 := by linear_combination hb - hS1 + lS1
  refine ⟨R, hR, ha, hb, ?_, by linear_combination hRp + ha - hc⟩
  have := (hs ⟨"c", "z", "R1", "resistor", .norton 2 0⟩ (by simp [exD'])).1
  rw [this]; simp [exDR]

/-- the hypothesis cannot be dropped: an ideal 5 V source parallel to a short.  `DroppedZeroOK` fails, and the
network has no solution at all (`C16_short_converse_needs`), whatever its contraction looks like -/
def exBad : Net String ℚ :=
  ⟨[⟨"a", "z", "S", "short_circuit", .norton 0 0⟩, ⟨"a", "z", "V", "voltage_source", .norton 0 5⟩,
    ⟨"a", "z", "R", "resistor", .norton 2 0⟩], "z"⟩

theorem exBad_not_ok : ¬ DroppedZeroOK exBad [] := by
  intro h
  have hS : (⟨"a", "z", "S", "short_circuit", .norton 0 0⟩ : Branch String ℚ) ∈ exBad.branches := by simp [exBad]
  have := h ⟨"a", "z", "V", "voltage_source", .norton 0 5⟩ (by simp [exBad])
    ⟨_, hS, by simp [Elem.isShort], by simp⟩ (.rel _ _ ⟨_, hS, by simp [Elem.isShort], by simp, rfl, rfl⟩)
  rw [Elem.zeroVoltOK_iff] at this
  have := this 5 rfl
  norm_num at this

example : ¬ ∃ R : Report String ℚ, CircuitEqs exBad R :=
  fun ⟨R, hR⟩ => exBad_not_ok (C16_short_converse_needs exBad [] R hR)

/-- `C16_passive_converse_all`, `C16_passive_port_iff`: `passive_network(exP) = exP4` (C16Compose.lean), port between
`b` (keeps its name) and the reference node; no solvability or well-posedness hypothesis is needed any more -/
example (z : ℚ) : PortZ exP "p" "b" "z" z ↔ PortZ (⟨exP4, "z"⟩ : Net String ℚ) "p" "b" "z" z :=
  C16_passive_port_iff exP ⟨exP4, "z"⟩ [] exP_passive "p" (by decide) "b" "z" (by decide) exP_keeps_b
    (passiveKeepsNode_zero exP []) z
example : ∃ R : Report String ℚ, CircuitEqs ⟨exP.branches.map (zeroWhere (selSrc [])), exP.zero⟩ R :=
  let ⟨R, hR, _⟩ := C16_passive_converse_all exP ⟨exP4, "z"⟩ Report.zeroRep exP_passive
    (by
      have := C04_zero_all (K := ℚ) exP4 "z"
      exact (circuitEqsAll_iff (⟨exP4, "z"⟩ : Net String ℚ) _).mp this)
  ⟨R, hR⟩
end C16ex

end CC
