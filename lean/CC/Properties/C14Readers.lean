/-
  C14 (round 5b) — the Cartesian and time-function annotations read by the verified readers of round 5b
  (`CC.Properties.C18Readers`), and the numeric agreement of the Cartesian and polar readings of one quantity.

  As in `CC.Properties.C14Polar`: `d.absV`, `d.angle`, `d.phase`, `d.phaseDeg`, `d.w`, `d.wHz` are run-time parameters
  (libm values of the signed solution value); the Cartesian text depends on the signed solution value itself.
-/
import CC.Properties.C14Polar
import CC.Properties.C18Readers

namespace CC
open CC.Fmt CC.Annot CC.Gen.Annot

theorem specUnit_foreign (qt : Quantity) : 'j' ∉ specUnit qt ∧ ' ' ∉ specUnit qt ∧ '·' ∉ specUnit qt := by
  cases qt <;> decide

/-! ## Cartesian annotations -/

/-- **C14_denotes_cartesian** — a complex annotation in Cartesian form (`polar=False`), every quantity, both directions,
both parts of the signed solution value `v` (the solution's value in the element's reference direction, negated in
reverse) in the domain: the Cartesian reader of the Spec applied to the label returns parts that satisfy **every clause of
`RealOK` w.r.t. `Re v` and `Im v` with their signs** (half a unit of the `p`-th digit, engineering form, range `u…k`, sign
read off the `-`/`+` character) — `(tr, absent)` when `|Im v|` `is_zero`, `(absent, ti)` when `|Re v|` `is_zero` and
`|Im v|` does not, `(tr, ti)` otherwise.  Not claimed: that an absent part is negligible (open finding: `is_zero` drops
parts the prefixes can express). -/
theorem C14_denotes_cartesian (qt : Quantity) (reverse : Bool) (q : GQ) (d : Derived) (o : Opts)
    (hpol : o.polar = false) (hp : 1 ≤ o.precision)
    (hre : InDomain (specValue qt reverse q).re o.precision) (him : InDomain (specValue qt reverse q).im o.precision) :
    let v := specValue qt reverse q
    let sf := (scOfCall CC.Gen.Fmt.print_complex_call0 (specUnit qt) o.precision o.polar o.deg).toSFCfg
    ∃ (s : List Char) (tr ti : Text), annotText .complex qt reverse q d o = some s
      ∧ realFailures v.re o.precision 3 (some tr) = [] ∧ realFailures v.im o.precision 3 (some ti) = []
      ∧ ((sf.value3 (qabs v.im)).isZero = true → parseCartesian (specUnit qt) s = some (some tr, none))
      ∧ ((sf.value3 (qabs v.im)).isZero = false → (sf.value3 (qabs v.re)).isZero = true →
          parseCartesian (specUnit qt) s = some (none, some ti))
      ∧ ((sf.value3 (qabs v.im)).isZero = false → (sf.value3 (qabs v.re)).isZero = false →
          parseCartesian (specUnit qt) s = some (some tr, some ti)) := by
  intro v sf
  obtain ⟨a, ha, hpr, hunit, hv⟩ := adapter_facts .complex qt (by simp) reverse q
  have hprinter : a.printer = "print_complex" := by rw [hpr]; cases qt <;> rfl
  obtain ⟨huok, _⟩ := specUnit_ok qt
  obtain ⟨uj, us, _⟩ := specUnit_foreign qt
  set c := scOfCall CC.Gen.Fmt.print_complex_call0 (specUnit qt) o.precision o.polar o.deg with hc
  have hcfg : CfgOK c.toSFCfg := cfgOK_print_complex _ _ _ _ hp huok
  have hpolar : c.polar = false := by
    show (CC.Gen.Fmt.print_complex_call0.polar.getD o.polar) = false
    rw [hpol]; rfl
  have htext : annotText .complex qt reverse q d o = some (c.str v.re v.im d.absV d.angle) := by
    rw [annotText_eq ha, hv]
    unfold textOf
    simp only [hprinter, hunit, Option.getD_some]
    rfl
  have fj : Foreign 'j' c.toSFCfg :=
    foreign_print_complex 'j' not_numCh_j (by decide) (by decide) (by decide) _ _ _ _ uj
  have fs : Foreign ' ' c.toSFCfg :=
    foreign_print_complex ' ' not_numCh_space (by decide) (by decide) (by decide) _ _ _ _ us
  obtain ⟨tr, ti, h1, h2, h3, h4, h5⟩ := C18_cartesian_reads_back c v.re v.im d.absV d.angle hpolar hcfg hre him fj fs
  exact ⟨_, tr, ti, htext, h1, h2, h3, h4, h5⟩

example : ((annotText .complex .voltage false ⟨3, -4⟩ {} {}).bind (parseCartesian ['V'])).map
    (fun r => (r.1.map Text.isNeg, r.2.map Text.isNeg)) = some (some false, some true) := by decide +kernel

/-! ## time-function annotations -/

/-- **C14_denotes_sinusoid** — a time-function annotation, every quantity, both directions, read by `parseSinusoid`:
* `d.w ≠ 0`: the reader returns a wave with the flags `o.sin`, `o.hertz` (and `o.deg` when a phase is shown), an amplitude
  that satisfies every clause of `RealOK` w.r.t. `d.absV` in the unit of the quantity, a frequency `RealOK` w.r.t. `d.w`
  (`/s`) or `d.wHz` (`Hz`), and a phase that is absent exactly when `|d.phase| ≤` binary64 `1e-4` and otherwise `RealOK`
  w.r.t. `shownPhase d.phase d.phaseDeg o.deg` (`= d.phase` in radian mode).  What function the three numbers denote
  relative to `Re(X·e^{jwt})`: `C18_sinusoid_denotes`.
* `d.w = 0`: the reader returns the constant, `RealOK` w.r.t. `Re` of the signed solution value.
`d.absV` (peak modulus), `d.phase` (argument plus the quarter turn of the sine form), `d.phaseDeg`, `d.wHz` are run-time
parameters.  Not claimed: that the time-function *power* label is `p(t)` (open finding). -/
theorem C14_denotes_sinusoid (qt : Quantity) (reverse : Bool) (q : GQ) (d : Derived) (o : Opts) (hp : 1 ≤ o.precision) :
    (d.w ≠ 0 → InDomain d.absV o.precision → InDomain (if o.hertz then d.wHz else d.w) o.precision →
      (|d.phase| > CC.Gen.Fmt.print_sinosoidal_phase_threshold →
        InDomain (if o.deg then d.phaseDeg else d.phase) o.precision) →
      ∃ (s : List Char) (ta tf : Text) (tp : Option Text), annotText .timeDomain qt reverse q d o = some s
        ∧ parseSinusoid (specUnit qt) s
            = some (.wave { amplitude := ta, sine := o.sin, hertz := o.hertz, freq := tf, phase := tp,
                            deg := decide (|d.phase| > CC.Gen.Fmt.print_sinosoidal_phase_threshold) && o.deg })
        ∧ realFailures d.absV o.precision 3 (some ta) = []
        ∧ realFailures (if o.hertz then d.wHz else d.w) o.precision (if o.hertz then 12 else 16) (some tf) = []
        ∧ (|d.phase| ≤ CC.Gen.Fmt.print_sinosoidal_phase_threshold → tp = none)
        ∧ (|d.phase| > CC.Gen.Fmt.print_sinosoidal_phase_threshold →
            ∃ t, tp = some t ∧ realFailures (shownPhase d.phase d.phaseDeg o.deg) o.precision 16 (some t) = []))
    ∧ (d.w = 0 → InDomain (specValue qt reverse q).re o.precision →
      ∃ (s : List Char) (t : Text), annotText .timeDomain qt reverse q d o = some s
        ∧ parseSinusoid (specUnit qt) s = some (.const t)
        ∧ realFailures (specValue qt reverse q).re o.precision 3 (some t) = []) := by
  obtain ⟨a, ha, hpr, hunit, hv⟩ := adapter_facts .timeDomain qt (by simp) reverse q
  have hprinter : a.printer = "print_sinosoidal" := by rw [hpr]; cases qt <;> rfl
  obtain ⟨huok, _⟩ := specUnit_ok qt
  obtain ⟨_, _, udot⟩ := specUnit_foreign qt
  have htext : annotText .timeDomain qt reverse q d o
      = some (printSinusoidal (specValue qt reverse q).re d.absV d.phase d.phaseDeg d.w d.wHz (specUnit qt)
          o.precision o.sin o.deg o.hertz) := by
    rw [annotText_eq ha, hv]
    unfold textOf
    simp only [hprinter, hunit, Option.getD_some]
    rfl
  constructor
  · intro hw habs hfreq hph
    obtain ⟨ta, tf, tp, h1, h2, h3, h4, h5⟩ := C18_sinusoid_reads_back (specValue qt reverse q).re d.absV d.phase
      d.phaseDeg d.w d.wHz (specUnit qt) o.precision o.sin o.deg o.hertz hp huok udot hw habs hfreq hph
    exact ⟨_, ta, tf, tp, htext, h1, h2, h3, h4, h5⟩
  · intro hw hre
    obtain ⟨t, h1, h2⟩ := C18_sinusoid_const_reads_back (specValue qt reverse q).re d.absV d.phase d.phaseDeg d.wHz
      (specUnit qt) o.precision o.sin o.deg o.hertz hp huok udot hre
    refine ⟨_, t, htext, ?_, h2⟩
    rw [hw]; exact h1

example : ((annotText .timeDomain .voltage false ⟨3, 4⟩
      { absV := 5, phase := 1 / 2, phaseDeg := 28, w := 100, wHz := 16 } {}).bind (parseSinusoid ['V'])).map
    (fun r => match r with | .wave w => (w.sine, w.hertz, w.deg, w.phase.map Text.isNeg) | .const _ => (true, true, true, none))
    = some (false, false, false, some false) := by decide +kernel

/-! ## numeric agreement of the Cartesian and the polar reading -/

/-- `θ ↦ e^{jθ}` is 1-Lipschitz -/
theorem norm_exp_sub_exp_le (x y : ℝ) : ‖Complex.exp (Complex.I * x) - Complex.exp (Complex.I * y)‖ ≤ |x - y| := by
  have h : Complex.exp (Complex.I * x) - Complex.exp (Complex.I * y)
      = Complex.exp (Complex.I * y) * (Complex.exp (Complex.I * ((x - y : ℝ) : ℂ)) - 1) := by
    rw [mul_sub, mul_one, ← Complex.exp_add]; congr 2; push_cast; ring
  rw [h, norm_mul]
  have h1 : ‖Complex.exp (Complex.I * y)‖ = 1 := by
    rw [mul_comm]; exact Complex.norm_exp_ofReal_mul_I y
  rw [h1, one_mul]
  exact Real.norm_exp_I_mul_ofReal_sub_one_le

/-- **C14_agree_numeric** — the Cartesian and the polar reading of one quantity agree within the sum of their display
tolerances: if the Cartesian annotation is read as `a' ± j b'` and the polar annotation as `M'∠θ'` (radians), then
`|(a' + j b') − M'·e^{jθ'}| ≤ |a'−re| + |b'−im| + |M'−M| + |M|·|θ'−θ| + |(re + j im) − M·e^{jθ}|` — the first four terms are
the display tolerances (`C14_denotes_cartesian`: half a unit of the `p`-th digit of `re`, `im`; `C14_denotes_polar`: half a
unit of the `p`-th digit of `M = d.absV`, and `0.5·10^-4` rad / `0.5·10^-2`° of `θ = d.angle`), the last is the distance of
the run-time parameters `d.absV`, `d.angle` (libm `abs`, `angle`) from the modulus and argument of the signed solution
value `re + j im`: zero for exact values, a parameter here.  All reals; no hypothesis.  (Time function ↔ polar: both texts
start with the same `print_abs` text of the `absV` handed to them, `C14_agree_magnitude`; the time function is related to
the phasor by `C18_sinusoid_denotes`.) -/
theorem C14_agree_numeric (a' b' re im M' M θ' θ : ℝ) :
    ‖((a' : ℂ) + b' * Complex.I) - M' * Complex.exp (Complex.I * θ')‖
      ≤ |a' - re| + |b' - im| + |M' - M| + |M| * |θ' - θ|
        + ‖((re : ℂ) + im * Complex.I) - M * Complex.exp (Complex.I * θ)‖ := by
  have hsplit : ((a' : ℂ) + b' * Complex.I) - M' * Complex.exp (Complex.I * θ')
      = (((a' - re : ℝ) : ℂ) + ((b' - im : ℝ) : ℂ) * Complex.I)
        + (((re : ℂ) + im * Complex.I) - M * Complex.exp (Complex.I * θ))
        + ((M : ℂ) * (Complex.exp (Complex.I * θ) - Complex.exp (Complex.I * θ'))
            + ((M - M' : ℝ) : ℂ) * Complex.exp (Complex.I * θ')) := by
    push_cast; ring
  rw [hsplit]
  have e1 : ‖Complex.exp (Complex.I * θ')‖ = 1 := by
    rw [mul_comm]; exact Complex.norm_exp_ofReal_mul_I θ'
  have n1 : ‖((a' - re : ℝ) : ℂ) + ((b' - im : ℝ) : ℂ) * Complex.I‖ ≤ |a' - re| + |b' - im| := by
    refine (norm_add_le _ _).trans ?_
    rw [norm_mul, Complex.norm_I, mul_one, Complex.norm_real, Complex.norm_real]
    simp [Real.norm_eq_abs]
  have n2 : ‖(M : ℂ) * (Complex.exp (Complex.I * θ) - Complex.exp (Complex.I * θ'))
      + ((M - M' : ℝ) : ℂ) * Complex.exp (Complex.I * θ')‖ ≤ |M| * |θ' - θ| + |M' - M| := by
    refine (norm_add_le _ _).trans ?_
    rw [norm_mul, norm_mul, e1, mul_one, Complex.norm_real, Complex.norm_real, Real.norm_eq_abs, Real.norm_eq_abs,
      abs_sub_comm M M', abs_sub_comm θ' θ]
    have := mul_le_mul_of_nonneg_left (norm_exp_sub_exp_le θ θ') (abs_nonneg M)
    linarith
  refine (norm_add_le _ _).trans ?_
  have := norm_add_le (((a' - re : ℝ) : ℂ) + ((b' - im : ℝ) : ℂ) * Complex.I)
    (((re : ℂ) + im * Complex.I) - M * Complex.exp (Complex.I * θ))
  linarith

end CC
