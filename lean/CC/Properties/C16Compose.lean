/-
  C16 — what the other functions of Network/transformers.py return, exactly: which branches survive
  and what changes.  All statements are about the model functions of CC/Model/Transform.lean (tied to
  the Python source by `C16_gen_*`), for every network / exemption list / field.

    C16_open_shape, C16_open_branches, C16_open_survivors_iff      remove_open_circuit_elements
    C16_switch_ground_shape, C16_switch_ground_branches, C16_switch_ground_ok_iff   switch_ground_node
    C16_remove_element_shape, C16_remove_element_filter, C16_remove_element_missing remove_element
    C16_zero_current_branches, C16_zero_voltage_branches           the two source-zeroing maps
    C16_removeIdealCS_shape, C16_removeIdealVS_shape, C16_passive_shape            the compositions
    C16_passive_survivors_iff                                      membership in passive_network's result

  "The input network is never modified" has no counterpart here and needs none: the model functions are
  pure (they take values and return values; there is no state to modify).  That the Python functions do
  not mutate their arguments is not a statement about the model; it is judged by the oracle of
  harness/props/c16.py (`input_modified`) and by C20.
-/
import CC.Properties.C16Survive
set_option linter.unusedSectionVars false

namespace CC
variable {L K : Type} [DecidableEq L] [LabelOrd L] [Field K] [DecidableEq K]

/-- `Network(bs, z)` succeeds iff `__post_init__` accepts, and then returns exactly `⟨bs, z⟩` -/
theorem mk?_eq_ok_iff (bs : List (Branch L K)) (z : L) (N' : Net L K) :
    Net.mk? bs z = .ok N' ↔ N' = ⟨bs, z⟩ ∧ z ∈ (⟨bs, z⟩ : Net L K).nodeLabels ∧ (bs.map (·.id)).Nodup := by
  constructor
  · intro h
    have h' := mk?_ok h
    refine ⟨h', ?_⟩
    have hc : (⟨bs, z⟩ : Net L K).check = .ok () := by
      unfold Net.mk? at h
      simp only at h
      split at h
      · rename_i u hu; cases u; exact hu
      · cases h
    exact (Net.check_ok_iff _).mp hc
  · rintro ⟨rfl, h1, h2⟩
    have hc : (⟨bs, z⟩ : Net L K).check = .ok () := (Net.check_ok_iff _).mpr ⟨h1, h2⟩
    unfold Net.mk?
    simp only [hc]

/-! ### remove_open_circuit_elements -/

/-- **C16 (open removal, shape).**  Equation between returned values, exceptions included. -/
theorem C16_open_shape (N : Net L K) :
    removeOpen N = Net.mk? (N.branches.filter fun b => !b.e.isOpen) N.zero := rfl

/-- **C16 (open removal, survivors).**  The result has the same reference label and exactly the
branches of the input that are not open circuits, unchanged and in the same order (no hypothesis on the
network being solvable, unlike `C16_open`). -/
theorem C16_open_branches (N N' : Net L K) (hr : removeOpen N = .ok N') :
    N'.zero = N.zero ∧ N'.branches = N.branches.filter fun b => !b.e.isOpen := by
  have := mk?_ok hr; subst this; exact ⟨rfl, rfl⟩

theorem C16_open_survivors_iff (N N' : Net L K) (hr : removeOpen N = .ok N') (b : Branch L K) :
    b ∈ N'.branches ↔ b ∈ N.branches ∧ b.e.isOpen = false := by
  rw [(C16_open_branches N N' hr).2, List.mem_filter]; simp

/-! ### switch_ground_node -/

/-- **C16 (re-referencing, shape).** -/
theorem C16_switch_ground_shape (N : Net L K) (g : L) : switchGround N g = Net.mk? N.branches g := rfl

/-- **C16 (re-referencing changes the reference label only).**  Branch list identical, reference = `g`. -/
theorem C16_switch_ground_branches (N N' : Net L K) (g : L) (hr : switchGround N g = .ok N') :
    N'.branches = N.branches ∧ N'.zero = g := by
  have := mk?_ok hr; subst this; exact ⟨rfl, rfl⟩

/-- it succeeds exactly when `g` is a node label of the network (or, for an empty network, anything:
`node_labels` of an empty network is the reference label itself) and the identifiers are distinct -/
theorem C16_switch_ground_ok_iff (N : Net L K) (g : L) :
    switchGround N g = .ok ⟨N.branches, g⟩ ↔
      (N.branches = [] ∨ ∃ b ∈ N.branches, b.n1 = g ∨ b.n2 = g) ∧ N.ids.Nodup := by
  unfold switchGround
  rw [mk?_eq_ok_iff, mem_nodeLabels]
  constructor
  · rintro ⟨_, h1, h2⟩
    refine ⟨?_, h2⟩
    rcases h1 with ⟨h, _⟩ | h
    · exact Or.inl h
    · exact Or.inr h
  · rintro ⟨h1, h2⟩
    refine ⟨rfl, ?_, h2⟩
    rcases h1 with h | h
    · exact Or.inl ⟨h, rfl⟩
    · exact Or.inr h

/-! ### remove_element -/

/-- **C16 (element removal, shape).**  `KeyError` iff no branch carries the identifier; otherwise the
first branch equal to `network[id]` (the last branch with that identifier) is removed and the
`Network` constructor is applied. -/
theorem C16_remove_element_shape (N : Net L K) (id : String) :
    removeElement N id = match N.get? id with
      | none => .error .keyError
      | some b => Net.mk? (removeFirst b N.branches) N.zero := rfl

theorem removeFirst_eq_filter (l : List (Branch L K)) (hid : (l.map (·.id)).Nodup) (b : Branch L K)
    (hb : b ∈ l) : removeFirst b l = l.filter fun c => decide (c.id ≠ b.id) := by
  induction l with
  | nil => cases hb
  | cons a l ih =>
    rw [List.map_cons, List.nodup_cons] at hid
    unfold removeFirst
    by_cases hab : a = b
    · subst hab
      have hall : ∀ c ∈ l, c.id ≠ a.id := fun c hc he => hid.1 (he ▸ List.mem_map.mpr ⟨c, hc, rfl⟩)
      rw [if_pos rfl, List.filter_cons]
      simp only [ne_eq, not_true_eq_false, decide_false, Bool.false_eq_true, if_false]
      rw [List.filter_eq_self.mpr]
      intro c hc; simpa using hall c hc
    · have hbl : b ∈ l := by
        rcases List.mem_cons.mp hb with h | h
        · exact absurd h.symm hab
        · exact h
      have hne : a.id ≠ b.id := fun he => hid.1 (he ▸ List.mem_map.mpr ⟨b, hbl, rfl⟩)
      rw [if_neg hab, List.filter_cons]
      simp only [ne_eq, hne, not_false_eq_true, decide_true, if_true]
      rw [ih hid.2 hbl]

/-- **C16 (element removal changes only what it names).**  For a network with distinct identifiers:
the result has the same reference label and exactly the branches whose identifier is not `id`,
unchanged and in the same order; and `id` was an identifier of the network. -/
theorem C16_remove_element_filter (N N' : Net L K) (id : String) (hid : N.ids.Nodup)
    (hr : removeElement N id = .ok N') :
    id ∈ N.ids ∧ N'.zero = N.zero ∧ N'.branches = N.branches.filter fun c => decide (c.id ≠ id) := by
  obtain ⟨b, hg, hb, hz⟩ := C16_remove_element N N' id hr
  obtain ⟨hbm, hbid⟩ := get?_some_mem N hg
  refine ⟨hbid ▸ List.mem_map.mpr ⟨b, hbm, rfl⟩, hz, ?_⟩
  rw [hb, removeFirst_eq_filter N.branches hid b hbm, hbid]

/-- an identifier that no branch carries: `KeyError` -/
theorem C16_remove_element_missing (N : Net L K) (id : String) (h : id ∉ N.ids) :
    removeElement N id = .error .keyError := by
  unfold removeElement
  cases hg : N.get? id with
  | none => rfl
  | some b =>
    obtain ⟨hbm, hbid⟩ := get?_some_mem N hg
    exact absurd (hbid ▸ List.mem_map.mpr ⟨b, hbm, rfl⟩) h

/-! ### the source-zeroing maps and the three compositions -/

/-- what `open_circuitify_current_sources` does to one branch -/
def zeroCS (keep : List (ElemKey K)) (b : Branch L K) : Branch L K :=
  if !(keep.contains b.key) && b.e.isCS then zeroInCurrent b else b
/-- what `short_circuitify_voltage_sources` does to one branch -/
def zeroVS (keep : List (ElemKey K)) (b : Branch L K) : Branch L K :=
  if !(keep.contains b.key) && b.e.isVSrc then zeroInVoltage b else b

theorem zeroCS_nodes (keep : List (ElemKey K)) (b : Branch L K) :
    (zeroCS keep b).n1 = b.n1 ∧ (zeroCS keep b).n2 = b.n2 ∧ (zeroCS keep b).id = b.id := by
  unfold zeroCS; split <;> simp [zeroInCurrent]
theorem zeroVS_nodes (keep : List (ElemKey K)) (b : Branch L K) :
    (zeroVS keep b).n1 = b.n1 ∧ (zeroVS keep b).n2 = b.n2 ∧ (zeroVS keep b).id = b.id := by
  unfold zeroVS; split <;> simp [zeroInVoltage]

/-- every branch is kept, in place (`C16_zero_current_spec` says what `zeroCS` does to it) -/
theorem C16_zero_current_branches (N N' : Net L K) (keep : List (ElemKey K))
    (hr : openCircuitifyCS N keep = .ok N') :
    N'.zero = N.zero ∧ N'.branches = N.branches.map (zeroCS keep) := by
  have := mk?_ok hr; subst this; exact ⟨rfl, rfl⟩
theorem C16_zero_voltage_branches (N N' : Net L K) (keep : List (ElemKey K))
    (hr : shortCircuitifyVS N keep = .ok N') :
    N'.zero = N.zero ∧ N'.branches = N.branches.map (zeroVS keep) := by
  have := mk?_ok hr; subst this; exact ⟨rfl, rfl⟩

theorem C16_bind_ok {α β : Type} {x : Except Err α} {f : α → Except Err β} {y : β}
    (h : (x >>= f) = .ok y) : ∃ a, x = .ok a ∧ f a = .ok y := by
  cases x with
  | error e => cases h
  | ok a => exact ⟨a, rfl, h⟩

/-- **C16 (`remove_ideal_current_sources` is the composition).**  A returned network comes from an
intermediate network `N1` = the input with every non-exempt current source zeroed (all branches kept,
in place), from which the open circuits are removed: the result's branches are exactly the zeroed
branches that are not open circuits, in order; reference label unchanged. -/
theorem C16_removeIdealCS_shape (N N' : Net L K) (keep : List (ElemKey K))
    (hr : removeIdealCS N keep = .ok N') :
    (∃ N1, openCircuitifyCS N keep = .ok N1 ∧ removeOpen N1 = .ok N') ∧
    N'.zero = N.zero ∧
    N'.branches = (N.branches.map (zeroCS keep)).filter fun b => !b.e.isOpen := by
  obtain ⟨N1, h1, h2⟩ := C16_bind_ok (show (openCircuitifyCS N keep >>= removeOpen) = .ok N' from hr)
  have e1 := C16_zero_current_branches N N1 keep h1
  have e2 := C16_open_branches N1 N' h2
  exact ⟨⟨N1, h1, h2⟩, by rw [e2.1, e1.1], by rw [e2.2, e1.2]⟩

/-- **C16 (`remove_ideal_voltage_sources` is the composition).**  A returned network comes from the
intermediate network `N1` = the input with every non-exempt voltage source zeroed (all branches kept, in
place, same terminals), to which `remove_short_circuit_elements(·, keep)` is applied — so every
`C16_short_*` theorem of C16Survive.lean applies to the pair `(N1, N')`; in particular the result is
`N1`'s branch list renamed by `shortSigma N1 keep`, minus the branches whose renamed terminals coincide. -/
theorem C16_removeIdealVS_shape (N N' : Net L K) (keep : List (ElemKey K))
    (hr : removeIdealVS N keep = .ok N') :
    ∃ N1, shortCircuitifyVS N keep = .ok N1 ∧ removeShort N1 keep = .ok N' ∧
      N1.zero = N.zero ∧ N1.branches = N.branches.map (zeroVS keep) ∧ N'.zero = N.zero ∧
      N'.branches = ((N.branches.map (zeroVS keep)).map (Branch.mapNodes (shortSigma N1 keep))).filter
        fun b => (shortPairs N1 keep).isEmpty || decide (b.n1 ≠ b.n2) := by
  obtain ⟨N1, h1, h2⟩ := C16_bind_ok (show (shortCircuitifyVS N keep >>= fun M => removeShort M keep) = .ok N' from hr)
  have e1 := C16_zero_voltage_branches N N1 keep h1
  have e2 := C16_short_branches N1 N' keep h2
  exact ⟨N1, h1, h2, e1.1, e1.2, by rw [e2.1, e1.1], by rw [e2.2, e1.2]⟩

/-- **C16 (`passive_network` is the composition).**  A returned network comes from the chain
`N →(zero current sources) N1 →(remove opens) N2 →(zero voltage sources) N3 →(contract shorts) N'`;
`N3`'s branch list is the input's, with non-exempt current sources zeroed, open circuits removed and
non-exempt voltage sources zeroed (terminals, identifiers, order untouched); the result is `N3`'s branch
list renamed by `shortSigma N3 keep`, minus the branches whose renamed terminals coincide. -/
theorem C16_passive_shape (N N' : Net L K) (keep : List (ElemKey K))
    (hr : passiveNetwork N keep = .ok N') :
    ∃ N1 N2 N3, openCircuitifyCS N keep = .ok N1 ∧ removeOpen N1 = .ok N2 ∧
      shortCircuitifyVS N2 keep = .ok N3 ∧ removeShort N3 keep = .ok N' ∧
      N3.zero = N.zero ∧
      N3.branches = (((N.branches.map (zeroCS keep)).filter fun b => !b.e.isOpen).map (zeroVS keep)) ∧
      N'.zero = N.zero ∧
      N'.branches = (N3.branches.map (Branch.mapNodes (shortSigma N3 keep))).filter
        fun b => (shortPairs N3 keep).isEmpty || decide (b.n1 ≠ b.n2) := by
  obtain ⟨N2, h12, h34⟩ := C16_bind_ok (show (removeIdealCS N keep >>= fun M => removeIdealVS M keep) = .ok N' from hr)
  obtain ⟨⟨N1, h1, h2⟩, z2, b2⟩ := C16_removeIdealCS_shape N N2 keep h12
  obtain ⟨N3, h3, h4, z3, b3, z4, _⟩ := C16_removeIdealVS_shape N2 N' keep h34
  exact ⟨N1, N2, N3, h1, h2, h3, h4, by rw [z3, z2], by rw [b3, b2], by rw [z4, z2],
    (C16_short_branches N3 N' keep h4).2⟩

/-- **C16 (which branches survive `passive_network`).**  `b'` is a branch of the result iff it comes
from a branch `b` of the input that is not an open circuit once its (non-exempt) current source is
zeroed, with its sources zeroed and its terminals renamed, and whose terminals are not joined by
non-exempt short circuits of the intermediate network `N3` (original shorts and zeroed ideal voltage
sources) — or nothing was contracted. -/
theorem C16_passive_survivors_iff (N N' : Net L K) (keep : List (ElemKey K))
    (hr : passiveNetwork N keep = .ok N') :
    ∃ N3 : Net L K, N3.zero = N.zero ∧
      N3.branches = (((N.branches.map (zeroCS keep)).filter fun b => !b.e.isOpen).map (zeroVS keep)) ∧
      ∀ b', b' ∈ N'.branches ↔ ∃ b ∈ N.branches, (zeroCS keep b).e.isOpen = false ∧
        b' = (zeroVS keep (zeroCS keep b)).mapNodes (shortSigma N3 keep) ∧
        (¬ HasShort N3 keep ∨ ¬ ShortJoined N3 keep b.n1 b.n2) := by
  obtain ⟨N1, N2, N3, _, _, _, h4, z3, b3, _, _⟩ := C16_passive_shape N N' keep hr
  refine ⟨N3, z3, b3, fun b' => ?_⟩
  rw [C16_short_survivors_iff N3 N' keep h4 b']
  constructor
  · rintro ⟨c, hc, rfl, hj⟩
    rw [b3] at hc
    obtain ⟨c1, hc1, rfl⟩ := List.mem_map.mp hc
    obtain ⟨hc1m, hopen⟩ := List.mem_filter.mp hc1
    obtain ⟨b, hb, rfl⟩ := List.mem_map.mp hc1m
    refine ⟨b, hb, by simpa using hopen, rfl, ?_⟩
    rw [(zeroVS_nodes keep (zeroCS keep b)).1, (zeroVS_nodes keep (zeroCS keep b)).2.1,
      (zeroCS_nodes keep b).1, (zeroCS_nodes keep b).2.1] at hj
    exact hj
  · rintro ⟨b, hb, hopen, rfl, hj⟩
    refine ⟨zeroVS keep (zeroCS keep b), ?_, rfl, ?_⟩
    · rw [b3]
      exact List.mem_map.mpr ⟨_, List.mem_filter.mpr ⟨List.mem_map.mpr ⟨b, hb, rfl⟩, by simp [hopen]⟩, rfl⟩
    · rw [(zeroVS_nodes keep (zeroCS keep b)).1, (zeroVS_nodes keep (zeroCS keep b)).2.1,
        (zeroCS_nodes keep b).1, (zeroCS_nodes keep b).2.1]
      exact hj

/-! ### the hypotheses are satisfiable -/

namespace C16ex
def exP : Net String ℚ :=
  ⟨[⟨"a", "z", "V", "voltage_source", .norton 0 5⟩, ⟨"a", "b", "R1", "resistor", .norton 2 0⟩,
    ⟨"b", "z", "I", "current_source", .thevenin 0 1⟩, ⟨"b", "z", "R2", "resistor", .norton 4 0⟩], "z"⟩
def exP1 : List (Branch String ℚ) :=
  [⟨"a", "z", "V", "voltage_source", .norton 0 5⟩, ⟨"a", "b", "R1", "resistor", .norton 2 0⟩,
    ⟨"b", "z", "I", "admittance", .thevenin 0 0⟩, ⟨"b", "z", "R2", "resistor", .norton 4 0⟩]
def exP2 : List (Branch String ℚ) :=
  [⟨"a", "z", "V", "voltage_source", .norton 0 5⟩, ⟨"a", "b", "R1", "resistor", .norton 2 0⟩,
    ⟨"b", "z", "R2", "resistor", .norton 4 0⟩]
def exP3 : List (Branch String ℚ) :=
  [⟨"a", "z", "V", "impedance", .norton 0 0⟩, ⟨"a", "b", "R1", "resistor", .norton 2 0⟩,
    ⟨"b", "z", "R2", "resistor", .norton 4 0⟩]
def exP4 : List (Branch String ℚ) :=
  [⟨"z", "b", "R1", "resistor", .norton 2 0⟩, ⟨"b", "z", "R2", "resistor", .norton 4 0⟩]
theorem e1 : (exP.branches.map fun b =>
    if !(([] : List (ElemKey ℚ)).contains b.key) && b.e.isCS then zeroInCurrent b else b) = exP1 := by
  simp [exP, exP1, zeroInCurrent, Elem.isCS, Elem.Ival, Elem.Yfin]
theorem e2 : (exP1.filter fun b => !b.e.isOpen) = exP2 := by
  simp [exP1, exP2, Elem.isOpen]
theorem e3 : (exP2.map fun b =>
    if !(([] : List (ElemKey ℚ)).contains b.key) && b.e.isVSrc then zeroInVoltage b else b) = exP3 := by
  simp [exP2, exP3, zeroInVoltage, Elem.isVSrc, Elem.Vval, Elem.Zfin]
theorem e4 : shortPairs (⟨exP3, "z"⟩ : Net String ℚ) [] = [("a", "z")] := by
  simp [shortPairs, exP3, Elem.isShort]
theorem e5 : contractAll "z" [("a", "z")] exP3 = exP4 := by
  rw [contractAll_cons, List.map_nil, contractAll_nil]
  decide

theorem C16ex_mk_ok (bs : List (Branch String ℚ)) (z : String) (h1 : ∃ b ∈ bs, b.n1 = z ∨ b.n2 = z)
    (h2 : (bs.map (·.id)).Nodup) : Net.mk? bs z = .ok ⟨bs, z⟩ :=
  (mk?_eq_ok_iff bs z _).mpr ⟨rfl, (mem_nodeLabels _ _).mpr (Or.inr h1), h2⟩

theorem exP_cs : openCircuitifyCS exP [] = .ok ⟨exP1, "z"⟩ := by
  unfold openCircuitifyCS; rw [e1]
  exact C16ex_mk_ok _ _ ⟨⟨"a", "z", "V", "voltage_source", .norton 0 5⟩, by decide, Or.inr rfl⟩ (by decide)
theorem exP_open : removeOpen (⟨exP1, "z"⟩ : Net String ℚ) = .ok ⟨exP2, "z"⟩ := by
  unfold removeOpen; simp only; rw [e2]
  exact C16ex_mk_ok _ _ ⟨⟨"a", "z", "V", "voltage_source", .norton 0 5⟩, by decide, Or.inr rfl⟩ (by decide)
theorem exP_vs : shortCircuitifyVS (⟨exP2, "z"⟩ : Net String ℚ) [] = .ok ⟨exP3, "z"⟩ := by
  unfold shortCircuitifyVS; simp only; rw [e3]
  exact C16ex_mk_ok _ _ ⟨⟨"a", "z", "V", "impedance", .norton 0 0⟩, by decide, Or.inr rfl⟩ (by decide)
theorem exP_short : removeShort (⟨exP3, "z"⟩ : Net String ℚ) [] = .ok ⟨exP4, "z"⟩ := by
  unfold removeShort; simp only; rw [e4, e5]
  exact C16ex_mk_ok _ _ ⟨⟨"z", "b", "R1", "resistor", .norton 2 0⟩, by decide, Or.inl rfl⟩ (by decide)
theorem exP_idealCS : removeIdealCS exP [] = .ok ⟨exP2, "z"⟩ := by
  unfold removeIdealCS; rw [exP_cs]; exact exP_open
theorem exP_idealVS : removeIdealVS (⟨exP2, "z"⟩ : Net String ℚ) [] = .ok ⟨exP4, "z"⟩ := by
  unfold removeIdealVS; rw [exP_vs]; exact exP_short
/-- `passive_network` on a source, two resistors and an ideal current source: the current source becomes an
open circuit and is removed, the voltage source becomes a short and is contracted (`a` renamed to the
reference node `z`), the two resistors survive -/
theorem exP_passive : passiveNetwork exP [] = .ok ⟨exP4, "z"⟩ := by
  unfold passiveNetwork; rw [exP_idealCS]; exact exP_idealVS
example : ∃ N', removeOpen (⟨exP1, "z"⟩ : Net String ℚ) = .ok N' := ⟨_, exP_open⟩
example : ∃ N', removeIdealCS exP [] = .ok N' := ⟨_, exP_idealCS⟩
example : ∃ N', removeIdealVS (⟨exP2, "z"⟩ : Net String ℚ) [] = .ok N' := ⟨_, exP_idealVS⟩
example : ∃ N', passiveNetwork exP [] = .ok N' := ⟨_, exP_passive⟩
example : ∃ N', switchGround exP "b" = .ok N' :=
  ⟨_, (C16_switch_ground_ok_iff exP "b").mpr
    ⟨Or.inr ⟨⟨"a", "b", "R1", "resistor", .norton 2 0⟩, by decide, Or.inr rfl⟩, by decide⟩⟩
/-- `C16_remove_element_filter`: distinct identifiers, and the removal of `R1` succeeds -/
example : exP.ids.Nodup := by decide
example : ∃ N', removeElement exP "R1" = .ok N' := by
  have hg : exP.get? "R1" = some ⟨"a", "b", "R1", "resistor", .norton 2 0⟩ :=
    get?_of_mem exP (by decide) (b := ⟨"a", "b", "R1", "resistor", .norton 2 0⟩) (by decide)
  refine ⟨⟨exP.branches.filter fun c => decide (c.id ≠ "R1"), "z"⟩, ?_⟩
  rw [C16_remove_element_shape, hg]
  simp only
  rw [removeFirst_eq_filter exP.branches (by decide) _ (by decide)]
  exact C16ex_mk_ok _ _ ⟨⟨"a", "z", "V", "voltage_source", .norton 0 5⟩, by decide, Or.inr rfl⟩ (by decide)
/-- `C16_remove_element_missing` -/
example : "nothing" ∉ exP.ids := by decide
end C16ex

end CC
