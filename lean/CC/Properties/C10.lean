/-
  C10 — the state-space model is an exact realisation of the circuit.

  Proved (every field, every size):
    C10_sample_system, C10_realisation, C10_dc_gain   matrix algebra from the two certificate
        equations, the symmetry of Ã and Λ·Λ⁻¹ = 1 (Mathlib `Matrix`, CC/Proofs/StateAlgebra.lean);
    C10_model_realisation    the same for the matrices the executable model
        CC/Model/StateSpace.lean returns (bridge CC/Proofs/StateBridge.lean);
    C10_dims, C10_sources_length, C10_container, C10_unknown_node_zero_row (reference ⇒ zero
        row, unknown id ⇒ KeyError, since fix f9f472e);
    C10_columns_follow_sources   FULL strength since fix 3361ab5 (block-position column
        selection): column k of QS belongs to sources[k], column k of QL to the k-th key of
        l_values — every network, every naming, every listing order.  The two former
        counterexample inputs ('A','M','Z'; {'L2','L1'}) are kept as regression examples.
    C10_augmented_is_circuit   every solution y of (Ã − s·DQ Λ DQᵀ) y = QS u reports a solution of the
        circuit equations of the phasor network at s (capacitor Y = sC, inductor Z = sL) — via the
        substituted network + C01_sound + the right-hand-side identity (CC/Proofs/StateRhs.lean);
    C10_transfer, C10_transfer_unique   hence the model's outputs for x = (s − A)⁻¹ B u ARE the
        phasor solution (for a well-posed phasor network: the unique one, C01_unique).
  OPEN (stated below, not proved): C10_output_rows_statement — the theorems above speak about the Spec-side report
  `(sampleNet …).reportOf y` read from the output VECTOR y = C x + D u; that the model's voltage and current OUTPUT ROWS
  (`NSSM.cRowVoltage / cRowCurrent / dRowVoltage / dRowCurrent`, i.e. c_row_voltage, c_row_current, d_row_*) applied to
  (x, u) give exactly that report is NOT a theorem: the rows are tied to the code by the generated definitions
  (C10_gen_row_potential / _voltage / _current), the correspondence and the transfer-function oracle only.
-/
import CC.Proofs.StateModel
import CC.Spec.StateSpace
import CC.Proofs.StatePhasor
import Mathlib.LinearAlgebra.Matrix.Notation
import Mathlib.Tactic.NormNum
import Mathlib.Tactic.FinCases

set_option linter.unusedSectionVars false

namespace CC
open Matrix Mx StateAlg

section algebra
variable {K : Type} [Field K]
variable {n p q : Type} [Fintype n] [Fintype p] [Fintype q] [DecidableEq n] [DecidableEq p] [DecidableEq q]
variable {At Ainv : Matrix n n K} {DQ : Matrix n p K} {QS : Matrix n q K} {Lam Li S : Matrix p p K}

/-- For EVERY state `x` and input `u`: `y = C x + D u` solves the nodal system in which the
reactive elements are replaced by sources of strength `Λ·(A x + B u)`, and `x = DQᵀ y`. -/
theorem C10_sample_system (hA : At * Ainv = 1) (hs : Atᵀ = At) (hS : (DQᵀ * Ainv * DQ) * S = 1)
    (hL : Lam * Li = 1) (x : p → K) (u : q → K) :
    At *ᵥ (ssC DQ Ainv S *ᵥ x + ssD DQ QS Ainv S *ᵥ u)
        = QS *ᵥ u + DQ *ᵥ (Lam *ᵥ (ssA Li S *ᵥ x + ssB DQ QS Ainv Li S *ᵥ u))
    ∧ DQᵀ *ᵥ (ssC DQ Ainv S *ᵥ x + ssD DQ QS Ainv S *ᵥ u) = x :=
  sample_system hA hs hS hL x u

/-- With `x = (s − A)⁻¹ B u` (written `s·x = A x + B u`), `y = C x + D u` satisfies
`(Ã − s·DQ Λ DQᵀ) y = QS u` and `x = DQᵀ y`. -/
theorem C10_realisation (hA : At * Ainv = 1) (hs : Atᵀ = At) (hS : (DQᵀ * Ainv * DQ) * S = 1)
    (hL : Lam * Li = 1) (s : K) (x : p → K) (u : q → K)
    (hx : s • x = ssA Li S *ᵥ x + ssB DQ QS Ainv Li S *ᵥ u) :
    (At - s • (DQ * Lam * DQᵀ)) *ᵥ (ssC DQ Ainv S *ᵥ x + ssD DQ QS Ainv S *ᵥ u) = QS *ᵥ u
    ∧ DQᵀ *ᵥ (ssC DQ Ainv S *ᵥ x + ssD DQ QS Ainv S *ᵥ u) = x :=
  realisation hA hs hS hL s x u hx

/-- the resolvent form: `x = R (B u)` with `(s·1 − A) R = 1` meets the hypothesis of `C10_realisation` -/
theorem C10_resolvent {A R : Matrix p p K} (s : K) (hR : (s • (1 : Matrix p p K) - A) * R = 1) (b : p → K) :
    s • (R *ᵥ b) = A *ᵥ (R *ᵥ b) + b := resolvent_state s hR b

/-- DC gain: at a rest point (`A x + B u = 0`, i.e. `s = 0`) the outputs are the DC solution. -/
theorem C10_dc_gain (hA : At * Ainv = 1) (hs : Atᵀ = At) (hS : (DQᵀ * Ainv * DQ) * S = 1)
    (hL : Lam * Li = 1) (x : p → K) (u : q → K)
    (hx : ssA Li S *ᵥ x + ssB DQ QS Ainv Li S *ᵥ u = 0) :
    ssC DQ Ainv S *ᵥ x + ssD DQ QS Ainv S *ᵥ u = Ainv *ᵥ (QS *ᵥ u) :=
  dc_gain hA hs hS hL x u hx

end algebra

/-- non-vacuity: the series circuit `V(1,0) – R=1 (1,2) – C=1 (2,0)`; unknowns `(φ₁, φ₂, i_V)` -/
example :
    let At : Matrix (Fin 3) (Fin 3) ℚ := !![1, -1, 1; -1, 1, 0; 1, 0, 0]
    let Ainv : Matrix (Fin 3) (Fin 3) ℚ := !![0, 0, 1; 0, 1, 1; 1, 1, 0]
    let DQ : Matrix (Fin 3) (Fin 1) ℚ := !![0; 1; 0]
    let S : Matrix (Fin 1) (Fin 1) ℚ := !![1]
    let Lam : Matrix (Fin 1) (Fin 1) ℚ := !![-1]
    At * Ainv = 1 ∧ Atᵀ = At ∧ (DQᵀ * Ainv * DQ) * S = 1 ∧ Lam * Lam = 1
      ∧ ssA Lam S = !![-1] := by
  intro At Ainv DQ S Lam
  refine ⟨?_, ?_, ?_, ?_, ?_⟩ <;>
    (ext i j; fin_cases i <;> fin_cases j <;>
      simp [At, Ainv, DQ, S, Lam, ssA, Matrix.mul_apply, Fin.sum_univ_succ, Matrix.one_apply])

section model
variable {L K : Type} [DecidableEq L] [LabelOrd L] [Field K] [DecidableEq K]

/-- **Realisation, for the executable model.**  Whenever `stateSpaceMatrices` succeeds on
arguments that satisfy the certificate equations (`ModelCert`: `Ã·Ainv = 1`,
`(DQᵀ Ainv DQ)·S = 1`, no zero capacitance / inductance, `re 0 = 0`; the symmetry of `Ã` is proved,
not assumed), the returned `A, B, C, D` realise the
augmented nodal system built from the model's own `Ã`, `DQ`, `QS`, `Λ` at every `s`. -/
theorem C10_model_realisation (re : K → K) {N : Net L K} {cvals lvals : ValDict K}
    {Ainv S Delta : List (List K)} {m : SSMats K} (hD : ssDelta N cvals = .ok Delta)
    (hm : stateSpaceMatrices N cvals lvals Ainv S = .ok m)
    (hc : ModelCert re N cvals lvals Ainv S Delta)
    (s : K) (x : Fin (ssNStates N cvals lvals) → K) (u : Fin (ssNInputs N lvals) → K)
    (hx : s • x = toM _ _ m.A *ᵥ x + toM _ _ m.B *ᵥ u) :
    let ny := N.nY; let ns := ssNStates N cvals lvals; let nu := ssNInputs N lvals
    let y := toM ny ns m.C *ᵥ x + toM ny nu m.D *ᵥ u
    let DQ := toM ny ns (ssDQ N cvals lvals Delta)
    (toM ny ny (ssAtilde re N)
        - s • (DQ * (diagonal fun i : Fin ns => (ssLambda cvals lvals).getD i 0) * DQᵀ)) *ᵥ y
      = toM ny nu (ssQS N lvals) *ᵥ u
    ∧ DQᵀ *ᵥ y = x :=
  model_realisation re hD hm hc s x u hx

/-- what the driver checks with the model's own product is the certificate equation -/
theorem C10_certificate_check {n : Nat} {A B : List (List K)} (h : Mx.mul n n n A B = Mx.one n) :
    toM n n A * toM n n B = 1 := toM_mul_eq_one h

/-- state dimension = #capacitors + #inductors (the lengths of the two dictionaries); shapes of
the four matrices -/
theorem C10_dims {N : Net L K} {cvals lvals : ValDict K} {Ainv S : List (List K)} {m : SSMats K}
    (hm : stateSpaceMatrices N cvals lvals Ainv S = .ok m) :
    let ns := cvals.length + lvals.length
    let nu := ssNInputs N lvals
    IsShape m.A ns ns ∧ IsShape m.B ns nu ∧ IsShape m.C N.nY ns ∧ IsShape m.D N.nY nu :=
  model_dims hm

/-- the number of input columns is the number of published sources -/
theorem C10_sources_length (N : Net L K) (lvals : ValDict K) :
    ssNInputs N lvals = (ssSources N lvals).length := sources_length N lvals

/-- the container's five checks accept exactly the consistent shapes -/
theorem C10_container (a b c d : Nat × Nat) :
    containerCheck a b c d = .ok () ↔ (a.1 = a.2 ∧ b.1 = a.1 ∧ c.2 = a.1 ∧ d.1 = c.1 ∧ d.2 = b.2) :=
  containerCheck_ok_iff a b c d

/-- output rows for node ids outside the node map (since fix f9f472e): the reference node gets a
ZERO row, any other unmapped id is a `KeyError` — so `TransientSolution.get_potential('unknown')`
raises instead of answering with a series of zeros -/
theorem C10_unknown_node_zero_row (m : NSSM L K) :
    (m.cRowPotential m.net.zero = .ok (Mx.zeroVec m.nStates)
      ∧ m.dRowPotential m.net.zero = .ok (Mx.zeroVec m.nInputs))
    ∧ ∀ node : L, idxOf? node m.net.nodes = none → node ≠ m.net.zero →
        m.cRowPotential node = .error .keyError ∧ m.dRowPotential node = .error .keyError :=
  ⟨⟨rowForPotential_reference m _ _, rowForPotential_reference m _ _⟩,
   fun node h hz => ⟨rowForPotential_unknown m node _ _ h hz, rowForPotential_unknown m node _ _ h hz⟩⟩

/-- **input columns follow the published source order, inductor columns the dictionary** — full
strength: every network with distinct ids, every dictionary whose keys are ideal voltage sources
(short circuits) of the network; no hypothesis on names or on the listing order -/
theorem C10_columns_follow_sources (N : Net L K) (lvals : ValDict K) (hids : N.ids.Nodup)
    (hkeys : ∀ id ∈ lvals.keys, id ∈ N.vsIds) :
    ssColsS N lvals = specColsS N lvals ∧ ssColsL N lvals = specColsL N lvals :=
  cols_follow_sources N lvals hids hkeys

end model

/-! ### a concrete instance of the model-level hypotheses -/

def netRC : Net String ℚ := { zero := "0", branches := [
  { n1 := "1", n2 := "0", id := "V", e := .norton 0 1 },
  { n1 := "1", n2 := "2", id := "R", e := .norton 1 0 },
  { n1 := "2", n2 := "0", id := "C", e := .thevenin 0 0 }] }

theorem netRC_nodes : netRC.nodes = ["1", "2"] := by
  simp [netRC, Net.nodes, Net.nodeLabels, dedupL, sortL, List.mergeSort, LabelOrd.le, List.MergeSort.Internal.splitInTwo]
theorem netRC_vsIds : netRC.vsIds = ["V"] := by
  simp [netRC, Net.vsIds, Net.vs, Elem.isIdealVS, sortL]
theorem netRC_csIds : netRC.csIds = [] := by
  simp [netRC, Net.csIds, Net.cs, Elem.isCS, Elem.Ival, sortL]
theorem netRC_srcIds : netRC.srcIds = ["V"] := by
  simp [netRC, Net.srcIds, Net.cs, Net.vs, Elem.isCS, Elem.isIdealVS, Elem.Ival, sortL]
theorem netRC_At : ssAtilde id netRC = [[1, -1, 1], [-1, 1, 0], [1, 0, 0]] := by
  simp only [ssAtilde, Net.mnaA, Net.vsSorted, Net.byIds, netRC_nodes, netRC_vsIds]
  simp [Net.get?, Net.Yentry, Net.nonVS, Branch.dir, Elem.isIdealVS, Elem.Yfin, netRC]

theorem netRC_getC : netRC.get? "C" = some { n1 := "2", n2 := "0", id := "C", e := .thevenin 0 0 } := by
  simp [Net.get?, netRC]
theorem netRC_Delta : ssDelta netRC [("C", 1)] = .ok [[0, 1, 0]] := by
  simp only [ssDelta, ValDict.keys, List.map_cons, List.map_nil, List.mapM_cons, List.mapM_nil, netRC_nodes,
    netRC_getC, ssDeltaRow, Net.nV, netRC_vsIds]
  simp [bind, Except.bind, pure, Except.pure]

theorem netRC_colsL : ssColsL netRC [] = [] := by
  simp [ssColsL, ValDict.keys]
theorem netRC_colsS : ssColsS netRC [] = [0] := by
  simp [ssColsS, netRC_csIds, netRC_vsIds, Net.nC, ValDict.has, ValDict.keys, idxOf?]
theorem netRC_nY : netRC.nY = 3 := by simp [Net.nY, Net.nN, Net.nV, netRC_nodes, netRC_vsIds]
theorem netRC_ns : ssNStates netRC [("C", 1)] [] = 1 := by simp [ssNStates, netRC_colsL]

/-- the two certificates for the RC circuit, as the driver finds them -/
def rcAinv : List (List ℚ) := [[0, 0, 1], [0, 1, 1], [1, 1, 0]]
def rcS : List (List ℚ) := [[1]]

theorem netRC_DQ : ssDQ netRC [("C", 1)] [] [[0, 1, 0]] = [[0], [1], [0]] := by
  simp only [ssDQ, netRC_nY, netRC_colsL, ssQL]
  simp [Mx.hstack, Mx.transpose, Mx.ofFn, Mx.get, Mx.selectCols, List.range_succ]

/-- non-vacuity of `ModelCert` (the hypotheses of `C10_model_realisation`, `C12_*`): the series
circuit `V(1,0) – R=1 (1,2) – C=1 (2,0)` with the two inverses the driver finds -/
theorem netRC_cert : ModelCert id netRC [("C", 1)] [] rcAinv rcS [[0, 1, 0]] where
  hA := by
    apply C10_certificate_check
    rw [netRC_nY, netRC_At]
    simp [Mx.mul, Mx.one, Mx.ofFn, Mx.sumTo, Mx.get, rcAinv, List.range_succ]
  hre := rfl
  hS := by
    rw [netRC_nY, netRC_ns, netRC_DQ, ← toM_transpose, ← toM_mul, ← toM_mul]
    apply C10_certificate_check
    simp [Mx.mul, Mx.one, Mx.ofFn, Mx.sumTo, Mx.get, Mx.transpose, rcAinv, rcS, List.range_succ]
  hnz := by simp [ssLambda, ValDict.vals]

example : ∃ m, stateSpaceMatrices netRC [("C", 1)] [] rcAinv rcS = .ok m := by
  simp [stateSpaceMatrices, netRC_Delta, netRC_colsL, bind, Except.bind, pure, Except.pure]

/-! ### regression examples: the two inputs that refuted the column statement before fix 3361ab5 -/

/-- voltage source 'A', inductor 'M', current source 'Z' -/
def netAMZ : Net String ℚ := { zero := "0", branches := [
  { n1 := "1", n2 := "0", id := "A", e := .norton 0 1 },
  { n1 := "1", n2 := "2", id := "R1", e := .norton 2 0 },
  { n1 := "2", n2 := "3", id := "M", e := .norton 0 0 },
  { n1 := "3", n2 := "0", id := "R2", e := .norton 4 0 },
  { n1 := "0", n2 := "3", id := "Z", e := .thevenin 0 1 }] }

/-- two inductors 'L1', 'L2' and a voltage source 'Vq' -/
def netL12 : Net String ℚ := { zero := "0", branches := [
  { n1 := "1", n2 := "0", id := "Vq", e := .norton 0 1 },
  { n1 := "1", n2 := "2", id := "R1", e := .norton 2 0 },
  { n1 := "2", n2 := "3", id := "L1", e := .norton 0 0 },
  { n1 := "3", n2 := "0", id := "R2", e := .norton 4 0 },
  { n1 := "3", n2 := "0", id := "L2", e := .norton 0 0 }] }

theorem netAMZ_csIds : netAMZ.csIds = ["Z"] := by
  simp [netAMZ, Net.csIds, Net.cs, Elem.isCS, Elem.Ival, sortL]
theorem netAMZ_vsIds : netAMZ.vsIds = ["A", "M"] := by
  simp [netAMZ, Net.vsIds, Net.vs, Elem.isIdealVS, sortL, List.mergeSort, LabelOrd.le,
    List.MergeSort.Internal.splitInTwo]

/-- interleaved names: columns of `Q` are Z | A, M; the inductor 'M' gets its own column 2, the
inputs are `sources = [Z, A]` at columns 0, 1 (before the fix: `QL = [1]`, `QS = [0, 2]`) -/
example : ssColsL netAMZ [("M", 1/2)] = [2] ∧ ssColsS netAMZ [("M", 1/2)] = [0, 1]
    ∧ ssSources netAMZ [("M", 1/2)] = ["Z", "A"] := by
  refine ⟨?_, ?_, ?_⟩
  · simp [ssColsL, netAMZ_csIds, netAMZ_vsIds, Net.nC, ValDict.keys, idxOf?]
  · simp [ssColsS, netAMZ_csIds, netAMZ_vsIds, Net.nC, ValDict.has, ValDict.keys, idxOf?]
  · simp [ssSources, netAMZ_csIds, netAMZ_vsIds, ValDict.has, ValDict.keys]

theorem netL12_csIds : netL12.csIds = [] := by
  simp [netL12, Net.csIds, Net.cs, Elem.isCS, Elem.Ival, sortL]
theorem netL12_vsIds : netL12.vsIds = ["L1", "L2", "Vq"] := by
  simp [netL12, Net.vsIds, Net.vs, Elem.isIdealVS, sortL, List.mergeSort, LabelOrd.le,
    List.MergeSort.Internal.splitInTwo]

/-- inductors listed as L2, L1: the columns of `QL` come in that order (before the fix: `[0, 1]`) -/
example : ssColsL netL12 [("L2", 1/4), ("L1", 1/8)] = [1, 0] := by
  simp [ssColsL, netL12_csIds, netL12_vsIds, Net.nC, ValDict.keys, idxOf?]

/-! ### the augmented system is the circuit; transfer behaviour -/

section circuit
variable {L K : Type} [DecidableEq L] [LabelOrd L] [Field K] [DecidableEq K]

/-- **The augmented nodal system is the circuit.**  For the `w = 0` network of an RLC + ideal-source
circuit (`RLC`: distinct ids, no self-loops, capacitors open, inductors shorted, no lossy element):
every solution `y` of `(Ã − s·DQ Λ DQᵀ) y = QS u` reports a solution of the circuit equations of the
phasor network at complex frequency `s` driven by `u` (capacitor `Y = s·C`, inductor `Z = s·L`).  The
report is the accessor report of the substituted network: potentials and voltage-source / inductor
currents from `y`, capacitor currents `C·s·v_C`, every other current by the branch law. -/
theorem C10_augmented_is_circuit {N : Net L K} {cvals lvals : ValDict K} {Delta : List (List K)}
    (h : RLC N cvals lvals) (hD : ssDelta N cvals = .ok Delta) (s : K)
    (y : Fin N.nY → K) (u : Fin (ssNInputs N lvals) → K)
    (hsys : (toM N.nY N.nY N.mnaA
              - s • (toM N.nY (ssNStates N cvals lvals) (ssDQ N cvals lvals Delta)
                  * (diagonal fun i : Fin (ssNStates N cvals lvals) => (ssLambda cvals lvals).getD i 0)
                  * (toM N.nY (ssNStates N cvals lvals) (ssDQ N cvals lvals Delta))ᵀ)) *ᵥ y
            = toM N.nY (ssNInputs N lvals) (ssQS N lvals) *ᵥ u) :
    let x := (toM N.nY (ssNStates N cvals lvals) (ssDQ N cvals lvals Delta))ᵀ *ᵥ y
    let P := sampleNet N cvals lvals (ssSources N lvals) (List.ofFn u) (List.ofFn (s • x))
    CircuitEqs (phasorNet N cvals lvals (ssSources N lvals) (List.ofFn u) s) (P.reportOf (List.ofFn y)) :=
  augmented_is_circuit h hD s y u hsys

/-- **Transfer behaviour.**  With `x = (s − A)⁻¹ B u` the outputs `y = C x + D u` of the executable
model solve the phasor network at `s` with the sources at amplitudes `u` — every potential, every
element's voltage and current. -/
theorem C10_transfer {N : Net L K} {cvals lvals : ValDict K} {Ainv S Delta : List (List K)}
    {m : SSMats K} (h : RLC N cvals lvals) (hD : ssDelta N cvals = .ok Delta)
    (hm : stateSpaceMatrices N cvals lvals Ainv S = .ok m)
    (hc : ModelCert id N cvals lvals Ainv S Delta)
    (s : K) (x : Fin (ssNStates N cvals lvals) → K) (u : Fin (ssNInputs N lvals) → K)
    (hx : s • x = toM _ _ m.A *ᵥ x + toM _ _ m.B *ᵥ u) :
    let y := toM N.nY (ssNStates N cvals lvals) m.C *ᵥ x + toM N.nY (ssNInputs N lvals) m.D *ᵥ u
    let P := sampleNet N cvals lvals (ssSources N lvals) (List.ofFn u) (List.ofFn (s • x))
    CircuitEqs (phasorNet N cvals lvals (ssSources N lvals) (List.ofFn u) s) (P.reportOf (List.ofFn y)) :=
  model_transfer h hD hm hc s x u hx

/-- … and when the phasor network is well-posed they are THE phasor solution: they agree with every
solution of its circuit equations (in particular with the one the phasor engine reports, C01/C02). -/
theorem C10_transfer_unique {N : Net L K} {cvals lvals : ValDict K} {Ainv S Delta : List (List K)}
    {m : SSMats K} (h : RLC N cvals lvals) (hD : ssDelta N cvals = .ok Delta)
    (hm : stateSpaceMatrices N cvals lvals Ainv S = .ok m)
    (hc : ModelCert id N cvals lvals Ainv S Delta)
    (s : K) (x : Fin (ssNStates N cvals lvals) → K) (u : Fin (ssNInputs N lvals) → K)
    (hx : s • x = toM _ _ m.A *ᵥ x + toM _ _ m.B *ᵥ u)
    (hw : WellPosed (phasorNet N cvals lvals (ssSources N lvals) (List.ofFn u) s))
    (R : Report L K) (hR : CircuitEqs (phasorNet N cvals lvals (ssSources N lvals) (List.ofFn u) s) R) :
    let y := toM N.nY (ssNStates N cvals lvals) m.C *ᵥ x + toM N.nY (ssNInputs N lvals) m.D *ᵥ u
    let P := sampleNet N cvals lvals (ssSources N lvals) (List.ofFn u) (List.ofFn (s • x))
    (P.reportOf (List.ofFn y)).AgreeOn (phasorNet N cvals lvals (ssSources N lvals) (List.ofFn u) s) R :=
  model_transfer_unique h hD hm hc s x u hx hw R hR

end circuit

/-- non-vacuity of `RLC`: the series circuit `V(1,0) – R=1 (1,2) – C=1 (2,0)` -/
theorem netRC_rlc : RLC netRC [("C", 1)] [] where
  wf := { ids_nodup := by simp [Net.ids, netRC]
          zero_mem := by
            simp [netRC, Net.nodeLabels, dedupL, sortL, List.mergeSort, LabelOrd.le,
              List.MergeSort.Internal.splitInTwo]
          no_self_loop := by intro b hb; simp [netRC] at hb; rcases hb with rfl | rfl | rfl <;> simp }
  capOpen := by intro b hb hk; simp [netRC] at hb; rcases hb with rfl | rfl | rfl <;> simp [ValDict.keys] at hk ⊢
  indShort := by intro b _ hk; simp [ValDict.keys] at hk
  capMem := by simp [ValDict.keys, Net.ids, netRC]
  indMem := by simp [ValDict.keys]
  capNodup := by simp [ValDict.keys]
  indNodup := by simp [ValDict.keys]
  notLossy := by intro b hb; simp [netRC] at hb; rcases hb with rfl | rfl | rfl <;> simp [Elem.isLossy, Elem.kind]

/-- OPEN.  The OUTPUT ROWS deliver the report: for every state `x` and input `u`, the potential / voltage / current rows
of the model (`c_row_for_potential`, `c_row_voltage`, `c_row_current` and their `d_row_*` partners) applied to `(x, u)` are
the potential of the node / the voltage and the current of the branch in the report `(sampleNet …).reportOf y` that
`C10_transfer`, `C12_sample_circuit` … speak about (`y = C x + D u`, `ẋ = A x + B u`).  Not proved: a change of
`cRowVoltage` to a sum or a sign flip of the capacitor row leaves every theorem of C10–C12 intact; the rows are covered
by `C10_gen_row_*` (model = generated code), the correspondence and the oracle. -/
def C10_output_rows_statement : Prop :=
  ∀ (K : Type) [Field K] [DecidableEq K] (N : Net String K) (cvals lvals : ValDict K)
    (Ainv S Delta : List (List K)) (m : NSSM String K) (x u : List K),
    RLC N cvals lvals → ssDelta N cvals = .ok Delta →
    nodalStateSpaceModel N cvals lvals Ainv S = .ok m → ModelCert id N cvals lvals Ainv S Delta →
    x.length = ssNStates N cvals lvals → u.length = ssNInputs N lvals →
    let y := Mx.vecAdd (matVec m.mats.C x) (matVec m.mats.D u)
    let xdot := Mx.vecAdd (matVec m.mats.A x) (matVec m.mats.B u)
    let R := (sampleNet N cvals lvals (ssSources N lvals) u xdot).reportOf y
    (∀ n ∈ N.nodeLabels, ∃ rc rd, m.cRowPotential n = .ok rc ∧ m.dRowPotential n = .ok rd ∧ dotL rc x + dotL rd u = R.pot n)
    ∧ (∀ b ∈ N.branches, ∃ rc rd, m.cRowVoltage b.id = .ok rc ∧ m.dRowVoltage b.id = .ok rd ∧ dotL rc x + dotL rd u = R.v b.id)
    ∧ (∀ b ∈ N.branches, ∃ rc rd, m.cRowCurrent b.id = .ok rc ∧ m.dRowCurrent b.id = .ok rd ∧ dotL rc x + dotL rd u = R.i b.id)

end CC
