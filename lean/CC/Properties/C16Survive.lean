/-
  C16 — WHICH branches survive `remove_short_circuit_elements` (and what happens to them).

  `C16_short`, `C16_short_no_new_branch`, `C16_short_complete` (CC/Properties/C16.lean) say that what
  is left is right; a model discarding every branch would satisfy them.  This file characterises
  the result completely.  With
      σ = shortSigma N keep = sigmaAll N.zero (shortPairs N keep)        (CC/Proofs/ContractShape.lean)
  the node renaming composed from the per-step renamings `an → rn` of the loop:

    C16_contract_shape      contractAll z ps bs = (bs with terminals renamed by σ).filter (ps = [] ∨ n1 ≠ n2)
    C16_short_shape         removeShort N keep = Network((N.branches renamed by σ).filter …, N.zero)
                            — as an equation between the returned values, exceptions included
    C16_short_branches      the same, for a returned network
    C16_short_no_shorts     nothing to contract ⇒ the branch list is returned unchanged
    C16_short_sigma_*       σ fixes the reference node and every node that is not a terminal of a
                            non-exempt short, maps nothing to an absorbed node, is idempotent, and
                            σ a = σ b ↔ a and b are joined by non-exempt shorts (`ShortJoined`)
    C16_short_survivors_iff membership in the result, exactly
    C16_short_absorbed_is_short_terminal   absorbed nodes are terminals of non-exempt shorts
    C16_short_survives(_sigma)  a branch whose terminals are not joined by non-exempt shorts is in the
                            result (renamed terminals; id, type, record, orientation kept)
    C16_short_contracted_dropped   a non-exempt short is not (its renamed terminals coincide)
    C16_short_dropped_iff   (distinct ids) a branch's id is missing from the result iff something was
                            contracted and its terminals are joined by non-exempt shorts
    C16_exempt_dropped_only_if_joined / C16_exempt_survives
                            an exempt element can only disappear by having become a self-loop
    C16_short_order         the result's (id, type, record) list is a sublist of the input's
-/
import CC.Proofs.ContractShape
import CC.Properties.C16
set_option linter.unusedSectionVars false

namespace CC
variable {L K : Type} [DecidableEq L] [LabelOrd L] [Field K] [DecidableEq K]

/-- the node renaming performed by `remove_short_circuit_elements(N, keep)` -/
def shortSigma (N : Net L K) (keep : List (ElemKey K)) : L → L := sigmaAll N.zero (shortPairs N keep)

/-- a short circuit of `N` that is not exempted lies between `a` and `b` (from `a` to `b`) -/
def ShortBetween (N : Net L K) (keep : List (ElemKey K)) (a b : L) : Prop :=
  ∃ s ∈ N.branches, s.e.isShort = true ∧ keep.contains s.key = false ∧ s.n1 = a ∧ s.n2 = b

/-- `a` and `b` are joined by non-exempt short circuits of `N`: equivalence closure of
`ShortBetween` (any chain / star / cycle of such shorts, in any orientation; `a = b` included) -/
def ShortJoined (N : Net L K) (keep : List (ElemKey K)) : L → L → Prop :=
  Relation.EqvGen (ShortBetween N keep)

/-- `N` has a short circuit that is not exempted -/
def HasShort (N : Net L K) (keep : List (ElemKey K)) : Prop :=
  ∃ s ∈ N.branches, s.e.isShort = true ∧ keep.contains s.key = false

/-! ### the shape of the result -/

/-- **C16 (shape of the contraction loop).**  For every reference label, pair list and branch list:
the loop returns the original branches, in the original order, each with its identifier, type,
element record and orientation, its terminals renamed by `sigmaAll z ps`; exactly the branches
whose renamed terminals coincide are dropped — if there is at least one pair; with no pair the
list comes back untouched (self-loops included).  Says nothing about the `Network` constructor
(see `C16_short_shape`). -/
theorem C16_contract_shape (z : L) (ps : List (L × L)) (bs : List (Branch L K)) :
    contractAll z ps bs =
      (bs.map (Branch.mapNodes (sigmaAll z ps))).filter fun b => ps.isEmpty || decide (b.n1 ≠ b.n2) :=
  contractAll_eq z ps bs

/-- **C16 (shape of `remove_short_circuit_elements`).**  An equation between returned values, valid
for every network and exemption list, exceptions of the `Network` constructor included: the
function returns `Network(B, N.zero)` where `B` is the input branch list renamed by
`shortSigma N keep` and filtered as in `C16_contract_shape`. -/
theorem C16_short_shape (N : Net L K) (keep : List (ElemKey K)) :
    removeShort N keep =
      Net.mk? ((N.branches.map (Branch.mapNodes (shortSigma N keep))).filter
        fun b => (shortPairs N keep).isEmpty || decide (b.n1 ≠ b.n2)) N.zero := by
  unfold removeShort shortSigma
  rw [contractAll_eq]

/-- the same for a returned network: reference label unchanged, branch list as described -/
theorem C16_short_branches (N N' : Net L K) (keep : List (ElemKey K))
    (hr : removeShort N keep = .ok N') :
    N'.zero = N.zero ∧
    N'.branches = (N.branches.map (Branch.mapNodes (shortSigma N keep))).filter
        fun b => (shortPairs N keep).isEmpty || decide (b.n1 ≠ b.n2) := by
  rw [C16_short_shape] at hr
  have := mk?_ok hr
  subst this
  exact ⟨rfl, rfl⟩

theorem shortPairs_isEmpty_iff (N : Net L K) (keep : List (ElemKey K)) :
    (shortPairs N keep).isEmpty = true ↔ ¬ HasShort N keep := by
  unfold shortPairs HasShort
  rw [List.isEmpty_iff, List.map_eq_nil_iff, List.filter_eq_nil_iff]
  constructor
  · rintro h ⟨s, hs, h1, h2⟩
    exact h s hs (by rw [h1, h2]; rfl)
  · intro h s hs hc
    simp only [Bool.and_eq_true, Bool.not_eq_true'] at hc
    exact h ⟨s, hs, hc.1, hc.2⟩

/-- nothing to contract: the branch list comes back as it is -/
theorem C16_short_no_shorts (N N' : Net L K) (keep : List (ElemKey K))
    (hr : removeShort N keep = .ok N') (h : ¬ HasShort N keep) : N' = N := by
  have he : shortPairs N keep = [] := List.isEmpty_iff.mp ((shortPairs_isEmpty_iff N keep).mpr h)
  unfold removeShort at hr
  rw [he, contractAll_nil] at hr
  have := mk?_ok hr
  subst this; rfl

/-! ### the renaming -/

theorem shortPairs_mem (N : Net L K) (keep : List (ElemKey K)) (p : L × L) (hp : p ∈ shortPairs N keep) :
    ShortBetween N keep p.1 p.2 ∨ ShortBetween N keep p.2 p.1 := by
  unfold shortPairs at hp
  obtain ⟨s, hs, rfl⟩ := List.mem_map.mp hp
  obtain ⟨hsm, hc⟩ := List.mem_filter.mp hs
  simp only [Bool.and_eq_true, Bool.not_eq_true'] at hc
  by_cases hz : s.n1 = N.zero
  · right; simp only [hz, ne_eq, not_true_eq_false, if_false]
    exact ⟨s, hsm, hc.1, hc.2, hz, rfl⟩
  · left; simp only [ne_eq, hz, not_false_eq_true, if_true]
    exact ⟨s, hsm, hc.1, hc.2, rfl, rfl⟩

theorem shortBetween_mem (N : Net L K) (keep : List (ElemKey K)) (a b : L) (h : ShortBetween N keep a b) :
    (a, b) ∈ shortPairs N keep ∨ (b, a) ∈ shortPairs N keep := by
  obtain ⟨s, hs, h1, h2, rfl, rfl⟩ := h
  have hf : s ∈ N.branches.filter fun b => b.e.isShort && !(keep.contains b.key) :=
    List.mem_filter.mpr ⟨hs, by rw [h1, h2]; rfl⟩
  unfold shortPairs
  by_cases hz : s.n1 = N.zero
  · right; exact List.mem_map.mpr ⟨s, hf, by simp [hz]⟩
  · left; exact List.mem_map.mpr ⟨s, hf, by simp [hz]⟩

/-- the pair list of `removeShort` joins exactly the nodes joined by non-exempt shorts -/
theorem pairJoined_shortPairs_iff (N : Net L K) (keep : List (ElemKey K)) (a b : L) :
    PairJoined (shortPairs N keep) a b ↔ ShortJoined N keep a b := by
  constructor
  · intro h
    refine eqvGen_lift (fun x => x) ?_ h
    intro x y hxy
    rcases shortPairs_mem N keep (x, y) hxy with h | h
    · exact .rel _ _ h
    · exact .symm _ _ (.rel _ _ h)
  · intro h
    refine eqvGen_lift (fun x => x) ?_ h
    intro x y hxy
    rcases shortBetween_mem N keep x y hxy with h | h
    · exact .rel _ _ h
    · exact .symm _ _ (.rel _ _ h)

/-- **C16 (σ identifies exactly the nodes joined by non-exempt shorts).** -/
theorem C16_short_sigma_eq_iff (N : Net L K) (keep : List (ElemKey K)) (a b : L) :
    shortSigma N keep a = shortSigma N keep b ↔ ShortJoined N keep a b := by
  unfold shortSigma
  rw [sigmaAll_eq_iff, pairJoined_shortPairs_iff]

/-- **C16 (the reference node keeps its name).** -/
theorem C16_short_sigma_zero (N : Net L K) (keep : List (ElemKey K)) :
    shortSigma N keep N.zero = N.zero := sigmaAll_zero _ _

/-- **C16 (σ moves only terminals of contracted shorts).**  A node that is not a terminal of a
non-exempt short circuit of `N` keeps its name. -/
theorem C16_short_sigma_fix (N : Net L K) (keep : List (ElemKey K)) (x : L)
    (h : ∀ s ∈ N.branches, s.e.isShort = true → keep.contains s.key = false → x ≠ s.n1 ∧ x ≠ s.n2) :
    shortSigma N keep x = x := by
  refine sigmaAll_fix_nonterm _ _ x ?_
  rintro ⟨p, hp, hx⟩
  rcases shortPairs_mem N keep p hp with ⟨s, hs, h1, h2, e1, e2⟩ | ⟨s, hs, h1, h2, e1, e2⟩
  · rcases hx with hx | hx
    · exact (h s hs h1 h2).1 (by rw [hx, e1])
    · exact (h s hs h1 h2).2 (by rw [hx, e2])
  · rcases hx with hx | hx
    · exact (h s hs h1 h2).2 (by rw [hx, e2])
    · exact (h s hs h1 h2).1 (by rw [hx, e1])

/-- **C16 (absorbed nodes are gone).**  σ maps no node to an absorbed node, every node that is
never absorbed keeps its name, hence σ ∘ σ = σ; absorbed nodes are terminals of non-exempt shorts
and never the reference node (`zero_not_absorbed`). -/
theorem C16_short_sigma_absorbed (N : Net L K) (keep : List (ElemKey K)) :
    (∀ x, shortSigma N keep x ∉ absorbedAll N.zero (shortPairs N keep)) ∧
    (∀ x, x ∉ absorbedAll N.zero (shortPairs N keep) → shortSigma N keep x = x) ∧
    (∀ x, shortSigma N keep (shortSigma N keep x) = shortSigma N keep x) ∧
    N.zero ∉ absorbedAll N.zero (shortPairs N keep) :=
  ⟨sigmaAll_not_absorbed _ _, sigmaAll_fix _ _, sigmaAll_idem _ _, zero_not_absorbed _ _⟩

/-- no terminal of a branch of the result is an absorbed node -/
theorem C16_short_no_absorbed_terminal (N N' : Net L K) (keep : List (ElemKey K))
    (hr : removeShort N keep = .ok N') :
    ∀ b' ∈ N'.branches, b'.n1 ∉ absorbedAll N.zero (shortPairs N keep) ∧
      b'.n2 ∉ absorbedAll N.zero (shortPairs N keep) := by
  intro b' hb'
  rw [(C16_short_branches N N' keep hr).2] at hb'
  obtain ⟨b, _, rfl⟩ := List.mem_map.mp (List.mem_filter.mp hb').1
  exact ⟨sigmaAll_not_absorbed _ _ _, sigmaAll_not_absorbed _ _ _⟩

/-! ### survivors -/

/-- **C16 (membership in the result, exactly).**  `b'` is a branch of the result iff it is a branch
`b` of the input with its terminals renamed by σ (everything else identical), and either nothing
was contracted or the terminals of `b` are not joined by non-exempt shorts. -/
theorem C16_short_survivors_iff (N N' : Net L K) (keep : List (ElemKey K))
    (hr : removeShort N keep = .ok N') (b' : Branch L K) :
    b' ∈ N'.branches ↔ ∃ b ∈ N.branches, b' = b.mapNodes (shortSigma N keep) ∧
      (¬ HasShort N keep ∨ ¬ ShortJoined N keep b.n1 b.n2) := by
  rw [(C16_short_branches N N' keep hr).2, List.mem_filter, List.mem_map]
  constructor
  · rintro ⟨⟨b, hb, rfl⟩, hc⟩
    refine ⟨b, hb, rfl, ?_⟩
    rcases Bool.or_eq_true _ _ |>.mp hc with h | h
    · exact Or.inl ((shortPairs_isEmpty_iff N keep).mp h)
    · right; rw [← C16_short_sigma_eq_iff]; exact of_decide_eq_true h
  · rintro ⟨b, hb, rfl, hc⟩
    refine ⟨⟨b, hb, rfl⟩, ?_⟩
    rcases hc with h | h
    · rw [(shortPairs_isEmpty_iff N keep).mpr h]; rfl
    · rw [← C16_short_sigma_eq_iff] at h
      simp [h]

/-- **C16 (what is not contracted survives).**  Every branch of the input — a short or not, exempt
or not — whose terminals are not joined by non-exempt short circuits is in the result, with its
identifier, type, record and orientation, its terminals renamed by σ. -/
theorem C16_short_survives (N N' : Net L K) (keep : List (ElemKey K))
    (hr : removeShort N keep = .ok N') (b : Branch L K) (hb : b ∈ N.branches)
    (h : ¬ ShortJoined N keep b.n1 b.n2) : b.mapNodes (shortSigma N keep) ∈ N'.branches :=
  (C16_short_survivors_iff N N' keep hr _).mpr ⟨b, hb, rfl, Or.inr h⟩

/-- the same with the renaming itself: a branch whose renamed terminals differ is in the result -/
theorem C16_short_survives_sigma (N N' : Net L K) (keep : List (ElemKey K))
    (hr : removeShort N keep = .ok N') (b : Branch L K) (hb : b ∈ N.branches)
    (h : shortSigma N keep b.n1 ≠ shortSigma N keep b.n2) : b.mapNodes (shortSigma N keep) ∈ N'.branches :=
  C16_short_survives N N' keep hr b hb fun hj => h ((C16_short_sigma_eq_iff N keep _ _).mpr hj)

/-- every absorbed node is a terminal of a non-exempt short circuit of the input -/
theorem C16_short_absorbed_is_short_terminal (N : Net L K) (keep : List (ElemKey K)) (x : L)
    (hx : x ∈ absorbedAll N.zero (shortPairs N keep)) :
    ∃ s ∈ N.branches, s.e.isShort = true ∧ keep.contains s.key = false ∧ (x = s.n1 ∨ x = s.n2) := by
  obtain ⟨p, hp, hxp⟩ := absorbed_isTerm _ _ x hx
  rcases shortPairs_mem N keep p hp with ⟨s, hs, h1, h2, e1, e2⟩ | ⟨s, hs, h1, h2, e1, e2⟩
  · exact ⟨s, hs, h1, h2, by rw [e1, e2]; exact hxp⟩
  · exact ⟨s, hs, h1, h2, by rw [e1, e2]; exact hxp.symm⟩

/-- for a branch of the input: its renamed copy is in the result iff nothing was contracted or its
terminals are not joined -/
theorem C16_short_survives_iff (N N' : Net L K) (keep : List (ElemKey K))
    (hr : removeShort N keep = .ok N') (b : Branch L K) (hb : b ∈ N.branches) :
    b.mapNodes (shortSigma N keep) ∈ N'.branches ↔
      (¬ HasShort N keep ∨ ¬ ShortJoined N keep b.n1 b.n2) := by
  constructor
  · intro h
    obtain ⟨b0, _, he, hc⟩ := (C16_short_survivors_iff N N' keep hr _).mp h
    have e1 : shortSigma N keep b.n1 = shortSigma N keep b0.n1 := congrArg Branch.n1 he
    have e2 : shortSigma N keep b.n2 = shortSigma N keep b0.n2 := congrArg Branch.n2 he
    rcases hc with hc | hc
    · exact Or.inl hc
    · right
      rw [← C16_short_sigma_eq_iff] at hc ⊢
      rw [e1, e2]; exact hc
  · intro h; exact (C16_short_survivors_iff N N' keep hr _).mpr ⟨b, hb, rfl, h⟩

/-- **C16 (the contracted shorts are dropped).**  The renamed terminals of a non-exempt short
coincide, so it fails the filter of `C16_short_shape`; no branch of the result is a renamed copy of
it. -/
theorem C16_short_contracted_dropped (N N' : Net L K) (keep : List (ElemKey K))
    (hr : removeShort N keep = .ok N') (s : Branch L K) (hs : s ∈ N.branches)
    (h1 : s.e.isShort = true) (h2 : keep.contains s.key = false) :
    shortSigma N keep s.n1 = shortSigma N keep s.n2 ∧ s.mapNodes (shortSigma N keep) ∉ N'.branches := by
  have hj : ShortJoined N keep s.n1 s.n2 := .rel _ _ ⟨s, hs, h1, h2, rfl, rfl⟩
  refine ⟨(C16_short_sigma_eq_iff N keep _ _).mpr hj, ?_⟩
  rw [C16_short_survives_iff N N' keep hr s hs]
  rintro (h | h)
  · exact h ⟨s, hs, h1, h2⟩
  · exact h hj

/-- **C16 (which identifiers disappear).**  For a network with distinct identifiers: the identifier
of a branch `b` of the input is missing from the result iff at least one short was contracted and
the terminals of `b` are joined by non-exempt shorts (`b` is such a short, or lies parallel to a
chain of them — it became a self-loop). -/
theorem C16_short_dropped_iff (N N' : Net L K) (keep : List (ElemKey K))
    (hr : removeShort N keep = .ok N') (hid : N.ids.Nodup) (b : Branch L K) (hb : b ∈ N.branches) :
    (∀ b' ∈ N'.branches, b'.id ≠ b.id) ↔ (HasShort N keep ∧ ShortJoined N keep b.n1 b.n2) := by
  constructor
  · intro h
    by_contra hc
    have : ¬ HasShort N keep ∨ ¬ ShortJoined N keep b.n1 b.n2 := by
      by_cases h1 : HasShort N keep
      · exact Or.inr fun h2 => hc ⟨h1, h2⟩
      · exact Or.inl h1
    exact h _ ((C16_short_survives_iff N N' keep hr b hb).mpr this) rfl
  · rintro ⟨h1, h2⟩ b' hb' hid'
    obtain ⟨b0, hb0, rfl, hc⟩ := (C16_short_survivors_iff N N' keep hr b').mp hb'
    have : b0 = b := by
      have := get?_of_mem N hid hb0
      rw [show b0.id = b.id from hid', get?_of_mem N hid hb] at this
      exact (Option.some.inj this).symm
    subst this
    rcases hc with hc | hc
    · exact hc h1
    · exact hc h2

/-- **C16 (an exempt element disappears only as a self-loop).**  If no branch of the result carries
the identifier of a branch `b` of the input (exempt or not), then a non-exempt short was contracted
and the two terminals of `b` are joined by non-exempt short circuits.  No hypothesis on identifiers. -/
theorem C16_exempt_dropped_only_if_joined (N N' : Net L K) (keep : List (ElemKey K))
    (hr : removeShort N keep = .ok N') (b : Branch L K) (hb : b ∈ N.branches)
    (h : ∀ b' ∈ N'.branches, b'.id ≠ b.id) : HasShort N keep ∧ ShortJoined N keep b.n1 b.n2 := by
  by_contra hc
  have : ¬ HasShort N keep ∨ ¬ ShortJoined N keep b.n1 b.n2 := by
    by_cases h1 : HasShort N keep
    · exact Or.inr fun h2 => hc ⟨h1, h2⟩
    · exact Or.inl h1
  exact h _ ((C16_short_survives_iff N N' keep hr b hb).mpr this) rfl

/-- **C16 (exempt elements survive).**  An exempt element whose terminals are not joined by
non-exempt shorts is in the result with the same `(name, type, record)` — still exempt — between
the renamed terminals. -/
theorem C16_exempt_survives (N N' : Net L K) (keep : List (ElemKey K))
    (hr : removeShort N keep = .ok N') (b : Branch L K) (hb : b ∈ N.branches)
    (_hk : keep.contains b.key = true) (h : ¬ ShortJoined N keep b.n1 b.n2) :
    ∃ b' ∈ N'.branches, b'.key = b.key ∧ b'.n1 = shortSigma N keep b.n1 ∧ b'.n2 = shortSigma N keep b.n2 :=
  ⟨_, C16_short_survives N N' keep hr b hb h, rfl, rfl, rfl⟩

/-- **C16 (order and multiplicity).**  The list of `(name, type, record)` of the result is a sublist
of the input's: nothing is reordered, duplicated or invented. -/
theorem C16_short_order (N N' : Net L K) (keep : List (ElemKey K))
    (hr : removeShort N keep = .ok N') :
    (N'.branches.map Branch.key).Sublist (N.branches.map Branch.key) := by
  rw [(C16_short_branches N N' keep hr).2]
  have h1 := (List.filter_sublist (l := N.branches.map (Branch.mapNodes (shortSigma N keep)))
    (p := fun b => (shortPairs N keep).isEmpty || decide (b.n1 ≠ b.n2))).map Branch.key
  have h2 : (N.branches.map (Branch.mapNodes (shortSigma N keep))).map Branch.key = N.branches.map Branch.key := by
    rw [List.map_map]; rfl
  rw [h2] at h1; exact h1

/-! ### the hypotheses are satisfiable: a network with a chain of two shorts (the second one listed
against the first: `S2 (c,a)` after `S1 (a,b)`), a resistor parallel to the chain, an exempt short on
the reference node and untouched branches -/

namespace C16ex
def exN : Net String ℚ :=
  ⟨[⟨"a", "z", "R1", "resistor", .norton 2 0⟩, ⟨"a", "b", "S1", "short_circuit", .norton 0 0⟩,
    ⟨"c", "a", "S2", "short_circuit", .norton 0 0⟩, ⟨"c", "z", "R2", "resistor", .norton 4 0⟩,
    ⟨"b", "c", "R3", "resistor", .norton 1 0⟩, ⟨"d", "z", "K", "short_circuit", .norton 0 0⟩,
    ⟨"d", "a", "R4", "resistor", .norton 3 0⟩], "z"⟩
def exKeep : List (ElemKey ℚ) := [⟨"K", "short_circuit", .norton 0 0⟩]
/-- what `remove_short_circuit_elements(exN, keep=[K])` returns: `S1`, `S2` contracted, `R3` (parallel to
the chain) dropped as a self-loop, the exempt short `K` kept, `a` and `c` renamed to `b` -/
def exN' : Net String ℚ :=
  ⟨[⟨"b", "z", "R1", "resistor", .norton 2 0⟩, ⟨"b", "z", "R2", "resistor", .norton 4 0⟩,
    ⟨"d", "z", "K", "short_circuit", .norton 0 0⟩, ⟨"d", "b", "R4", "resistor", .norton 3 0⟩], "z"⟩

theorem exPairs : shortPairs exN exKeep = [("a", "b"), ("c", "a")] := by decide

theorem exContract : contractAll "z" [("a", "b"), ("c", "a")] exN.branches = exN'.branches := by
  rw [contractAll_cons, List.map_cons, List.map_nil, contractAll_cons, List.map_nil, contractAll_nil]
  decide

theorem exCheck : (⟨exN'.branches, "z"⟩ : Net String ℚ).check = .ok () := by
  rw [Net.check_ok_iff, mem_nodeLabels]
  exact ⟨Or.inr ⟨⟨"b", "z", "R1", "resistor", .norton 2 0⟩, by decide, Or.inr rfl⟩, by decide⟩

theorem exShort : removeShort exN exKeep = .ok exN' := by
  unfold removeShort
  rw [exPairs, show exN.zero = "z" from rfl, exContract]
  unfold Net.mk?
  simp only [exCheck]
  rfl

theorem exSigma (x : String) :
    shortSigma exN exKeep x = if x = "a" then "b" else if x = "c" then "b" else x := by
  unfold shortSigma
  rw [exPairs, show exN.zero = "z" from rfl, sigmaAll_cons, List.map_cons, List.map_nil, sigmaAll_cons,
    List.map_nil, sigmaAll_nil]
  have h1 : orient "z" (("a", "b") : String × String) = ("a", "b") := by decide
  have h2 : renPair "a" "b" (("c", "a") : String × String) = ("c", "b") := by decide
  have h3 : orient "z" (("c", "b") : String × String) = ("c", "b") := by decide
  rw [h1]; simp only; rw [h2, h3]; simp only
  unfold renNode
  by_cases ha : x = "a"
  · subst ha; decide
  · by_cases hc : x = "c"
    · subst hc; decide
    · simp [ha, hc]

/-- `hr` of every theorem above is met -/
example : ∃ N', removeShort exN exKeep = .ok N' := ⟨_, exShort⟩
/-- something is contracted -/
theorem exHasShort : HasShort exN exKeep :=
  ⟨⟨"a", "b", "S1", "short_circuit", .norton 0 0⟩, by decide, by decide, by decide⟩
/-- `C16_short_survives` / `C16_exempt_survives`: the terminals of `R1 (a,z)` and of the exempt short
`K (d,z)` are not joined -/
theorem exR1_not_joined : ¬ ShortJoined exN exKeep "a" "z" := by
  rw [← C16_short_sigma_eq_iff, exSigma, exSigma]; decide
theorem exK_not_joined : ¬ ShortJoined exN exKeep "d" "z" := by
  rw [← C16_short_sigma_eq_iff, exSigma, exSigma]; decide
example : (⟨"b", "z", "R1", "resistor", .norton 2 0⟩ : Branch String ℚ) ∈ exN'.branches := by
  have := C16_short_survives exN exN' exKeep exShort ⟨"a", "z", "R1", "resistor", .norton 2 0⟩ (by decide)
    exR1_not_joined
  rw [show (Branch.mapNodes (shortSigma exN exKeep) (⟨"a", "z", "R1", "resistor", .norton 2 0⟩ : Branch String ℚ))
      = ⟨"b", "z", "R1", "resistor", .norton 2 0⟩ from by
    unfold Branch.mapNodes; simp only [exSigma]; decide] at this
  exact this
example : ∃ b' ∈ exN'.branches, b'.key = ⟨"K", "short_circuit", .norton 0 0⟩ :=
  let ⟨b', h, hk, _⟩ := C16_exempt_survives exN exN' exKeep exShort ⟨"d", "z", "K", "short_circuit", .norton 0 0⟩
    (by decide) (by decide) exK_not_joined
  ⟨b', h, hk⟩
/-- `C16_short_dropped_iff`: distinct ids; `R3 (b,c)` is parallel to the chain `S1`, `S2` -/
example : exN.ids.Nodup := by decide
theorem exR3_joined : ShortJoined exN exKeep "b" "c" := by
  rw [← C16_short_sigma_eq_iff, exSigma, exSigma]; decide
example : ∀ b' ∈ exN'.branches, b'.id ≠ "R3" :=
  (C16_short_dropped_iff exN exN' exKeep exShort (by decide) ⟨"b", "c", "R3", "resistor", .norton 1 0⟩
    (by decide)).mpr ⟨exHasShort, exR3_joined⟩
/-- `C16_short_sigma_fix`: `d` is not a terminal of a non-exempt short (it is one of the exempt `K`) -/
example : ∀ s ∈ exN.branches, s.e.isShort = true → exKeep.contains s.key = false → "d" ≠ s.n1 ∧ "d" ≠ s.n2 := by
  decide
/-- `C16_short_no_shorts`: the result has no non-exempt short left, and contracting it again returns it -/
theorem exNoShort : ¬ HasShort exN' exKeep := by unfold HasShort; decide
example : removeShort exN' exKeep = .ok exN' := by
  unfold removeShort
  rw [show shortPairs exN' exKeep = [] from by decide, contractAll_nil]
  unfold Net.mk?
  simp only [show exN'.zero = "z" from rfl, exCheck]
  rfl
end C16ex

end CC
