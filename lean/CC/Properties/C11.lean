/-
  C11 — derived dynamics are passive and stable.

  Proved (Mathlib `Matrix`; CC/Proofs/StateAlgebra.lean):
    C11_symm_S          `sorted_A_tilde` is symmetric because `Ã` is;
    C11_lyapunov_form   xᵀ(W A + Aᵀ W)x = −2·yᵀ(Jn Ã)y, y = C x  (every field);
    C11_signed_form     for Ã = [[Y, Bm],[Bmᵀ, 0]], Jn = diag(1, −1):  yᵀ(Jn Ã)y = φᵀ Y φ;
    C11_lyapunov        hence xᵀ(W A + Aᵀ W)x ≤ 0 when the resistive form is non-negative
                        (ordered field);
    C11_energy_rate     xᵀ W (A x) = ½ xᵀ(W A + Aᵀ W)x  — the rate of the stored energy;
    C11_eig             real form of `A v = λ v, v ≠ 0 ⇒ re λ ≤ 0` for a positive diagonal W.
    C11_structure       the executable model HAS the structure C11_lyapunov assumes: Jn·DQ = −DQ·J, and
                        yᵀ(Jn Ã)y = Σ_b G_b (Δφ_b)² ≥ 0 for every network without negative conductances;
    C11_model_lyapunov  hence xᵀ(W A + Aᵀ W)x ≤ 0 for the A the model returns (every RLC network,
                        every naming / listing order, any certificates);
    C11_model_eig       hence re λ ≤ 0 for every eigenpair of that A when all C, L are positive.
  NOT a theorem (listed as open, decided per instance by the sampled-energy stream of the oracle only): the FLOW clause
  of the property — along exp(tA) the stored energy ½ x(t)ᵀ W x(t) cannot grow, simulated responses stay bounded and
  the stored energy is non-increasing after all sources have returned to zero.  Only its rate form is proved
  (C11_energy_rate + C11_model_lyapunov: d/dt ½xᵀWx = xᵀW A x ≤ 0 at every state); integrating it along the matrix
  exponential is not formalised.
-/
import CC.Proofs.StatePassive
import Mathlib.LinearAlgebra.Matrix.Notation
import Mathlib.Tactic.NormNum
import Mathlib.Tactic.FinCases

set_option linter.unusedSectionVars false

namespace CC
open Matrix Mx StateAlg

section
variable {K : Type} [Field K]
variable {n p : Type} [Fintype n] [Fintype p] [DecidableEq n] [DecidableEq p]
variable {At Ainv Jn : Matrix n n K} {DQ : Matrix n p K} {Li S W J : Matrix p p K}

/-- `S = (DQᵀ Ãinv DQ)⁻¹` is symmetric since `Ã` is -/
theorem C11_symm_S (hA : At * Ainv = 1) (hs : Atᵀ = At) (hS : (DQᵀ * Ainv * DQ) * S = 1) : Sᵀ = S :=
  S_symm hA hs hS

/-- the Lyapunov form is minus twice the signed nodal form of the output vector `y = C x`
(`W Λ⁻¹ = J = diag(−1…, +1…)`; `Jn·DQ = −DQ·J`: capacitor columns of `DQ` live in node rows,
inductor columns in voltage-source rows) -/
theorem C11_lyapunov_form (hA : At * Ainv = 1) (hs : Atᵀ = At) (hS : (DQᵀ * Ainv * DQ) * S = 1)
    (hW : Wᵀ = W) (hWJ : W * Li = J) (hJn : Jn * DQ = -(DQ * J)) (x : p → K) :
    x ⬝ᵥ (W * ssA Li S + (ssA Li S)ᵀ * W) *ᵥ x
      = -2 * ((ssC DQ Ainv S *ᵥ x) ⬝ᵥ (Jn * At) *ᵥ (ssC DQ Ainv S *ᵥ x)) :=
  lyapunov_form hA hs hS hW hWJ hJn x

variable {nn nv : Type} [Fintype nn] [Fintype nv] [DecidableEq nn] [DecidableEq nv]

/-- for the nodal matrix `[[Y, Bm],[Bmᵀ, 0]]` the signed form is the form of the node admittance
matrix: `yᵀ(Jn Ã)y = φᵀ Y φ` (`= Σ_b G_b (Δφ_b)²` for a resistive network) -/
theorem C11_signed_form (Y : Matrix nn nn K) (Bm : Matrix nn nv K) (φ : nn → K) (i : nv → K) :
    (Sum.elim φ i) ⬝ᵥ ((fromBlocks (1 : Matrix nn nn K) 0 0 (-1 : Matrix nv nv K)) * fromBlocks Y Bm Bmᵀ 0)
        *ᵥ (Sum.elim φ i) = φ ⬝ᵥ Y *ᵥ φ :=
  signed_form_blocks Y Bm φ i

end

/-- `Ã` (the real part of the nodal matrix at `w = 0`) is symmetric for EVERY network: the
hypothesis `Atᵀ = At` of the theorems above is always met by the model -/
theorem C11_Atilde_symm {L K : Type} [DecidableEq L] [LabelOrd L] [Field K] [DecidableEq K]
    (re : K → K) (hre : re 0 = 0) (N : Net L K) :
    (toM N.nY N.nY (ssAtilde re N))ᵀ = toM N.nY N.nY (ssAtilde re N) :=
  Atilde_symm re hre N N.nY

section ordered
variable {F : Type} [Field F] [LinearOrder F] [IsStrictOrderedRing F]
variable {n p : Type} [Fintype n] [Fintype p] [DecidableEq n] [DecidableEq p]
variable {At Ainv Jn : Matrix n n F} {DQ : Matrix n p F} {Li S W J : Matrix p p F}

/-- **Lyapunov inequality** `xᵀ(W A + Aᵀ W)x ≤ 0` for every `x` -/
theorem C11_lyapunov (hA : At * Ainv = 1) (hs : Atᵀ = At) (hS : (DQᵀ * Ainv * DQ) * S = 1)
    (hW : Wᵀ = W) (hWJ : W * Li = J) (hJn : Jn * DQ = -(DQ * J))
    (hpass : ∀ y : n → F, 0 ≤ y ⬝ᵥ (Jn * At) *ᵥ y) (x : p → F) :
    x ⬝ᵥ (W * ssA Li S + (ssA Li S)ᵀ * W) *ᵥ x ≤ 0 :=
  lyapunov hA hs hS hW hWJ hJn hpass x

/-- the stored energy `½ xᵀ W x` changes at the rate `xᵀ W (A x) = ½ xᵀ(W A + Aᵀ W)x` along
`ẋ = A x` -/
theorem C11_energy_rate (A W : Matrix p p F) (hW : Wᵀ = W) (x : p → F) :
    x ⬝ᵥ W *ᵥ (A *ᵥ x) = (1 / 2) * (x ⬝ᵥ (W * A + Aᵀ * W) *ᵥ x) :=
  energy_rate A W hW x

/-- **natural frequencies**: an eigenpair `λ = α + jβ`, `v = a + jb ≠ 0` of `A` (real form:
`A a = α a − β b`, `A b = β a + α b`) has `α ≤ 0` -/
theorem C11_eig (A : Matrix p p F) (w : p → F) (hw : ∀ i, 0 < w i)
    (hlyap : ∀ x : p → F, x ⬝ᵥ (diagonal w * A + Aᵀ * diagonal w) *ᵥ x ≤ 0)
    (α β : F) (a b : p → F) (hab : a ≠ 0 ∨ b ≠ 0)
    (ha : A *ᵥ a = α • a - β • b) (hb : A *ᵥ b = β • a + α • b) : α ≤ 0 :=
  eig_re_nonpos A w hw hlyap α β a b hab ha hb

end ordered

/-- non-vacuity of the hypotheses of `C11_lyapunov`: the series circuit `V(1,0) – R=1 – C=1`
(unknowns `(φ₁, φ₂, i_V)`, one capacitor state): `W = [1]`, `Λ⁻¹ = [−1]`, `J = [−1]`,
`Jn = diag(1, 1, −1)` -/
example :
    let At : Matrix (Fin 3) (Fin 3) ℚ := !![1, -1, 1; -1, 1, 0; 1, 0, 0]
    let Jn : Matrix (Fin 3) (Fin 3) ℚ := !![1, 0, 0; 0, 1, 0; 0, 0, -1]
    let DQ : Matrix (Fin 3) (Fin 1) ℚ := !![0; 1; 0]
    let W : Matrix (Fin 1) (Fin 1) ℚ := !![1]
    let Li : Matrix (Fin 1) (Fin 1) ℚ := !![-1]
    let J : Matrix (Fin 1) (Fin 1) ℚ := !![-1]
    Wᵀ = W ∧ W * Li = J ∧ Jn * DQ = -(DQ * J)
      ∧ ∀ y : Fin 3 → ℚ, y ⬝ᵥ (Jn * At) *ᵥ y = (y 0 - y 1) * (y 0 - y 1) := by
  intro At Jn DQ W Li J
  refine ⟨?_, ?_, ?_, ?_⟩
  · ext i j; fin_cases i; fin_cases j; simp [W]
  · ext i j; fin_cases i; fin_cases j; simp [W, Li, J]
  · ext i j; fin_cases i <;> fin_cases j <;> simp [Jn, DQ, J, Matrix.mul_apply, Fin.sum_univ_succ]
  · intro y
    simp [At, Jn, dotProduct, Matrix.mulVec, Matrix.mul_apply, Fin.sum_univ_succ]
    ring

/-! ### the executable model has the structure, hence is passive -/

section model
variable {L F : Type} [DecidableEq L] [LabelOrd L] [Field F] [LinearOrder F] [IsStrictOrderedRing F]

/-- the two structural hypotheses of `C11_lyapunov`, for every network: signature identity and
non-negative resistive form (`Jn = diag(+1 node rows, −1 voltage-source rows)`,
`J = diag(−1 capacitor states, +1 inductor states)`) -/
theorem C11_structure (N : Net L F) (cvals lvals : ValDict F) {Delta : List (List F)} (wf : N.WF)
    (hD : ssDelta N cvals = .ok Delta) (hpos : ∀ b ∈ N.branches, 0 ≤ b.e.Yfin) :
    (diagonal fun i : Fin N.nY => if (i : Nat) < N.nN then (1 : F) else -1)
        * toM N.nY (ssNStates N cvals lvals) (ssDQ N cvals lvals Delta)
      = -(toM N.nY (ssNStates N cvals lvals) (ssDQ N cvals lvals Delta)
          * diagonal fun k : Fin (ssNStates N cvals lvals) => if (k : Nat) < cvals.length then (-1 : F) else 1)
    ∧ ∀ y : Fin N.nY → F,
        0 ≤ y ⬝ᵥ ((diagonal fun i : Fin N.nY => if (i : Nat) < N.nN then (1 : F) else -1)
                  * toM N.nY N.nY N.mnaA) *ᵥ y :=
  ⟨model_signature N cvals lvals wf.ids_nodup hD, model_passive N wf hpos⟩

/-- **Passivity of the derived dynamics, for the model**: `xᵀ(W A + Aᵀ W)x ≤ 0` for every `x`, with
`W = diag(C…, L…)` in dictionary order -/
theorem C11_model_lyapunov {N : Net L F} {cvals lvals : ValDict F} {Ainv S Delta : List (List F)} {m : SSMats F}
    (h : RLC N cvals lvals) (hD : ssDelta N cvals = .ok Delta)
    (hm : stateSpaceMatrices N cvals lvals Ainv S = .ok m)
    (hc : ModelCert id N cvals lvals Ainv S Delta)
    (hpos : ∀ b ∈ N.branches, 0 ≤ b.e.Yfin) (x : Fin (ssNStates N cvals lvals) → F) :
    let W : Matrix (Fin (ssNStates N cvals lvals)) (Fin (ssNStates N cvals lvals)) F :=
      diagonal fun k => (cvals.vals ++ lvals.vals).getD k 0
    let A := toM (ssNStates N cvals lvals) (ssNStates N cvals lvals) m.A
    x ⬝ᵥ (W * A + Aᵀ * W) *ᵥ x ≤ 0 :=
  model_lyapunov h hD hm hc hpos x

/-- **Stability, for the model**: with positive C, L every eigenpair `λ = α + jβ`, `v = a + jb ≠ 0` of
the model's `A` has `α ≤ 0` -/
theorem C11_model_eig {N : Net L F} {cvals lvals : ValDict F} {Ainv S Delta : List (List F)} {m : SSMats F}
    (h : RLC N cvals lvals) (hD : ssDelta N cvals = .ok Delta)
    (hm : stateSpaceMatrices N cvals lvals Ainv S = .ok m)
    (hc : ModelCert id N cvals lvals Ainv S Delta)
    (hpos : ∀ b ∈ N.branches, 0 ≤ b.e.Yfin)
    (hval : ∀ k : Fin (ssNStates N cvals lvals), 0 < (cvals.vals ++ lvals.vals).getD k 0)
    (α β : F) (a b : Fin (ssNStates N cvals lvals) → F) (hab : a ≠ 0 ∨ b ≠ 0)
    (ha : toM _ _ m.A *ᵥ a = α • a - β • b) (hb : toM _ _ m.A *ᵥ b = β • a + α • b) : α ≤ 0 :=
  eig_re_nonpos _ _ hval (fun x => model_lyapunov h hD hm hc hpos x) α β a b hab ha hb

end model

end CC
