/-
  Property C04 — linearity and superposition of sources.

  Stated at the level of the Spec (CC/Spec/Circuit.lean): a *skeleton* `bs` fixes topology,
  identifiers and immittances; `withSrc bs s` gives every branch `b` the source value
  `s b.id`.  The library's own source-zeroing operations produce exactly such networks
  (`C16_zero_voltage_spec`, `C16_zero_current_spec` in CC/Properties/C16.lean: same
  identifiers, terminals, order and immittance, source value 0, exempted elements
  untouched).  All theorems: any skeleton, any field, any number of sources.
-/
import CC.Proofs.Linear
import CC.Properties.C01
set_option linter.unusedSectionVars false

namespace CC
variable {L K : Type} [DecidableEq L] [Field K] [DecidableEq K]

/-- **C04 (linearity).**  If `R1` solves the skeleton with sources `s1` and `R2` with
sources `s2`, then the skeleton with sources `a·s1 + c·s2` has a solution whose potentials
and voltages are `a·R1 + c·R2` and whose *physical* (first→second) branch currents are the
same combination of the physical currents. -/
theorem C04_linear (bs : List (Branch L K)) (z : L) (hids : (bs.map (·.id)).Nodup) (a c : K)
    (s1 s2 : String → K) (R1 R2 : Report L K)
    (h1 : CircuitEqsAll (withSrc bs s1) z R1) (h2 : CircuitEqsAll (withSrc bs s2) z R2) :
    ∃ R : Report L K,
      CircuitEqsAll (withSrc bs fun id => a * s1 id + c * s2 id) z R ∧
      (∀ n, R.pot n = a * R1.pot n + c * R2.pot n) ∧
      (∀ id, R.v id = a * R1.v id + c * R2.v id) ∧
      (∀ b ∈ bs, (b.e.setSrc (a * s1 b.id + c * s2 b.id)).physCurrent (R.i b.id)
          = a * (b.e.setSrc (s1 b.id)).physCurrent (R1.i b.id)
            + c * (b.e.setSrc (s2 b.id)).physCurrent (R2.i b.id)) := by
  have i1 : ((withSrc bs s1).map (·.id)).Nodup := by rw [withSrc_ids]; exact hids
  have i2 : ((withSrc bs s2).map (·.id)).Nodup := by rw [withSrc_ids]; exact hids
  have i3 : ((withSrc bs fun id => a * s1 id + c * s2 id).map (·.id)).Nodup := by
    rw [withSrc_ids]; exact hids
  have p1 := physEqs_of_circuitEqs _ z i1 R1 h1
  have p2 := physEqs_of_circuitEqs _ z i2 R2 h2
  have p := physEqs_lin bs z a c s1 s2 _ _ p1 p2
  refine ⟨_, circuitEqs_of_physEqs _ z i3 _ p, fun n => rfl, fun id => rfl, ?_⟩
  intro b hb
  have m1 : ({ b with e := b.e.setSrc (s1 b.id) } : Branch L K) ∈ withSrc bs s1 :=
    List.mem_map.mpr ⟨b, hb, rfl⟩
  have m2 : ({ b with e := b.e.setSrc (s2 b.id) } : Branch L K) ∈ withSrc bs s2 :=
    List.mem_map.mpr ⟨b, hb, rfl⟩
  have m3 : ({ b with e := b.e.setSrc (a * s1 b.id + c * s2 b.id) } : Branch L K)
      ∈ withSrc bs fun id => a * s1 id + c * s2 id := List.mem_map.mpr ⟨b, hb, rfl⟩
  have f1 := findId_of_mem i1 m1
  have f2 := findId_of_mem i2 m2
  have f3 := findId_of_mem i3 m3
  simp only at f1 f2 f3
  simp only [PhysReport.toReport, PhysReport.lin, Report.toPhys, f1, f2, f3, physCurrent_invol]

/-- **C04 (superposition).**  The response to the sum of two source assignments is the sum
of the responses: potentials and voltages always; the *reported* current of every branch
that is not a linear (lossy) source in any of the three networks.  (For a lossy source the
reported current changes its reference direction when the source is zeroed — generator
direction when active, passive direction when deactivated — so only its physical current
superposes; see `C04_linear`.) -/
theorem C04_superpose (bs : List (Branch L K)) (z : L) (hids : (bs.map (·.id)).Nodup)
    (s1 s2 : String → K) (R1 R2 : Report L K)
    (h1 : CircuitEqsAll (withSrc bs s1) z R1) (h2 : CircuitEqsAll (withSrc bs s2) z R2) :
    ∃ R : Report L K,
      CircuitEqsAll (withSrc bs fun id => s1 id + s2 id) z R ∧
      (∀ n, R.pot n = R1.pot n + R2.pot n) ∧
      (∀ id, R.v id = R1.v id + R2.v id) ∧
      (∀ b ∈ bs, (b.e.setSrc (s1 b.id + s2 b.id)).isLossy = false →
          (b.e.setSrc (s1 b.id)).isLossy = false → (b.e.setSrc (s2 b.id)).isLossy = false →
          R.i b.id = R1.i b.id + R2.i b.id) := by
  obtain ⟨R, hR, hp, hv, hi⟩ := C04_linear bs z hids 1 1 s1 s2 R1 R2 h1 h2
  simp only [one_mul] at hR hp hv hi
  refine ⟨R, hR, hp, hv, ?_⟩
  intro b hb l3 l1 l2
  have := hi b hb
  simpa [Elem.physCurrent, l1, l2, l3] using this

theorem setSrc_mul_isLossy (e : Elem K) (a s : K) (ha : a ≠ 0) :
    (e.setSrc (a * s)).isLossy = (e.setSrc s).isLossy := by
  cases e with
  | norton Z V =>
    by_cases hZ : Z = 0 <;> by_cases hs : s = 0 <;> simp [Elem.setSrc, Elem.isLossy, Elem.kind, hZ, hs, ha]
  | thevenin Y I =>
    by_cases hY : Y = 0 <;> by_cases hs : s = 0 <;> simp [Elem.setSrc, Elem.isLossy, Elem.kind, hY, hs, ha]

/-- **C04 (scaling).**  Scaling every source by `a ≠ 0` scales every potential, voltage and
reported current by `a`. -/
theorem C04_scale (bs : List (Branch L K)) (z : L) (hids : (bs.map (·.id)).Nodup) (a : K) (ha : a ≠ 0)
    (s : String → K) (R1 : Report L K) (h1 : CircuitEqsAll (withSrc bs s) z R1) :
    ∃ R : Report L K,
      CircuitEqsAll (withSrc bs fun id => a * s id) z R ∧
      (∀ n, R.pot n = a * R1.pot n) ∧ (∀ id, R.v id = a * R1.v id) ∧
      (∀ b ∈ bs, R.i b.id = a * R1.i b.id) := by
  obtain ⟨R, hR, hp, hv, hi⟩ := C04_linear bs z hids a 0 s s R1 R1 h1 h1
  have e : (fun id => a * s id + 0 * s id) = fun id => a * s id := by funext id; ring
  rw [e] at hR
  refine ⟨R, hR, fun n => by rw [hp]; ring, fun id => by rw [hv]; ring, ?_⟩
  intro b hb
  have := hi b hb
  have e2 : a * s b.id + 0 * s b.id = a * s b.id := by ring
  rw [e2] at this
  unfold Elem.physCurrent at this
  rw [setSrc_mul_isLossy _ _ _ ha] at this
  by_cases hl : (b.e.setSrc (s b.id)).isLossy = true
  · simp only [hl, if_true] at this; linear_combination -this
  · simp only [hl, Bool.false_eq_true, if_false] at this; linear_combination this

/-- power scales with `a · conj a` -/
theorem C04_scale_power (conj : K →+* K) (a v i : K) :
    (a * v) * conj (a * i) = (a * conj a) * (v * conj i) := by
  rw [map_mul]; ring

/-- **C04 (all sources deactivated).**  A network whose sources are all zero has the zero solution. -/
theorem C04_zero_all (bs : List (Branch L K)) (z : L) :
    CircuitEqsAll (withSrc bs fun _ => 0) z (Report.zeroRep : Report L K) := by
  refine ⟨rfl, ?_, ?_, ?_⟩
  · intro b _; simp [voltResidual, Report.zeroRep]
  · intro b' hb'
    obtain ⟨b, _, rfl⟩ := List.mem_map.mp hb'
    cases he : b.e with
    | norton Z V => by_cases hZ : Z = 0 <;> simp [Elem.setSrc, Elem.lawResidual, Report.zeroRep, hZ]
    | thevenin Y I => by_cases hY : Y = 0 <;> simp [Elem.setSrc, Elem.lawResidual, Report.zeroRep, hY]
  · intro n
    unfold kclResidual
    apply List.sum_eq_zero
    intro y hy
    obtain ⟨b, _, rfl⟩ := List.mem_map.mp hy
    simp [Elem.physCurrent, Report.zeroRep]

end CC

/-! ### the same statement about the numbers the code reports -/

namespace CC
variable {L K : Type} [DecidableEq L] [LabelOrd L] [Field K] [DecidableEq K]

/-- **C04 (reported values).**  For a skeleton `bs` with reference `z`: whatever vectors
satisfy the three matrix equations the code builds for the source assignments `s1`, `s2`
and `s1 + s2` (the last network well-posed), the potentials and voltages the accessors
report for the sum are the sums of those reported for the parts — on every node label and
every branch. -/
theorem C04_reported_superpose (bs : List (Branch L K)) (z : L) (s1 s2 : String → K)
    (wf1 : (⟨withSrc bs s1, z⟩ : Net L K).WF) (wf2 : (⟨withSrc bs s2, z⟩ : Net L K).WF)
    (wf : (⟨withSrc bs fun id => s1 id + s2 id, z⟩ : Net L K).WF)
    (hw : WellPosed (⟨withSrc bs fun id => s1 id + s2 id, z⟩ : Net L K))
    (x1 x2 x : List K)
    (hx1 : x1.length = (⟨withSrc bs s1, z⟩ : Net L K).nodes.length + (⟨withSrc bs s1, z⟩ : Net L K).vsIds.length)
    (hx2 : x2.length = (⟨withSrc bs s2, z⟩ : Net L K).nodes.length + (⟨withSrc bs s2, z⟩ : Net L K).vsIds.length)
    (hx : x.length = (⟨withSrc bs fun id => s1 id + s2 id, z⟩ : Net L K).nodes.length
        + (⟨withSrc bs fun id => s1 id + s2 id, z⟩ : Net L K).vsIds.length)
    (h1 : matVec (⟨withSrc bs s1, z⟩ : Net L K).mnaA x1 = (⟨withSrc bs s1, z⟩ : Net L K).mnaB)
    (h2 : matVec (⟨withSrc bs s2, z⟩ : Net L K).mnaA x2 = (⟨withSrc bs s2, z⟩ : Net L K).mnaB)
    (h : matVec (⟨withSrc bs fun id => s1 id + s2 id, z⟩ : Net L K).mnaA x
        = (⟨withSrc bs fun id => s1 id + s2 id, z⟩ : Net L K).mnaB) :
    let N : Net L K := ⟨withSrc bs fun id => s1 id + s2 id, z⟩
    let R := N.reportOf x
    let R1 := (⟨withSrc bs s1, z⟩ : Net L K).reportOf x1
    let R2 := (⟨withSrc bs s2, z⟩ : Net L K).reportOf x2
    (∀ n ∈ N.allLabels, R.pot n = R1.pot n + R2.pot n) ∧
    (∀ b ∈ N.branches, R.v b.id = R1.v b.id + R2.v b.id) := by
  intro N R R1 R2
  have hids : (bs.map (·.id)).Nodup := by
    have := wf.ids_nodup
    simpa [Net.ids, withSrc_ids] using this
  have e1 := (circuitEqsAll_iff _ _).mpr (C01_sound _ x1 wf1 hx1 h1).2.2
  have e2 := (circuitEqsAll_iff _ _).mpr (C01_sound _ x2 wf2 hx2 h2).2.2
  obtain ⟨S, hS, hp, hv, _⟩ := C04_superpose bs z hids s1 s2 R1 R2 e1 e2
  have hS' : CircuitEqs N S := (circuitEqsAll_iff N S).mp hS
  obtain ⟨ap, ab⟩ := C01_reported_is_the_solution N wf hw x hx h S hS'
  exact ⟨fun n hn => by rw [ap n hn, hp], fun b hb => by rw [(ab b hb).1, hv]⟩

end CC
