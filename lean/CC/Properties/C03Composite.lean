/-
  Property C03 — the four transformations applied TOGETHER (round 5c).

  CC/Properties/C03.lean proves the invariance of the circuit equations under each transformation separately
  (`C03_perm`, `C03_rename`, `C03_reverse`, `C03_reref`), CC/Properties/C03State.lean the transfer / sample level
  (`C03_transfer_*`, `C03_sample_*`), each with its own well-posedness hypothesis about its own target network.
  The property quantifies over all four at once.  Here the transformed description is

      N  ──switch_ground_node(g)──▶  N₁  ──reverse the branches f──▶  N₁.flip f  ──permute──▶  N₃  ──rename σ, τ──▶  N₃.rename σ τ

  (`N₃` is ANY network with the reference of `N₁` whose branch list is a permutation of that of `N₁.flip f`), and
  one theorem per level relates a report `R'` of the transformed description to a report `R` of the original:

      R'.pot (σ n)   = R.pot n − R.pot g              (shift by the potential of the new reference)
      R'.v (τ id)    = ± R.v id,   R'.i (τ id) = ± R.i id      (− exactly for the reversed branches)

    C03_composite           circuit equations: forward (the transformed report solves the transformed network),
                            backward (a report of the transformed network, read back, solves the original), and —
                            `N` with distinct ids and well-posed, THE ONLY well-posedness hypothesis — every pair of
                            solutions is related as above
    C03_reported_composite  the same about the values the accessors return for whatever vectors satisfy the two
                            matrix equations
    C03_transfer_composite  state-space transfer level: the response `y = C x + D u` at `s` of the model of the
                            transformed description against that of the original (well-posedness of the ORIGINAL
                            phasor network only)
    C03_sample_composite    transient sample level, for states related by the induced state map

  Non-vacuity: `C03cx` at the end instantiates every hypothesis of `C03_composite` (re-reference, reverse `R`, permute,
  rename the identifiers; `σ = id`) with two explicit solutions.  `C03_transfer_composite` / `C03_sample_composite` have NO
  separate example: their hypotheses are `StateModelOK`, `SameValues`, `SameInput`, `SameState` and one well-posedness
  hypothesis, instantiated (for the reversal) in `C03ex` of C03State.lean, plus the three structural hypotheses
  instantiated in `C03cx`.

  NOT proved here: well-posedness of the transformed network from that of the original is not needed (uniqueness is
  used at the original), trajectories under the integrator (`lsim`) are per sample as in C03State.lean.
-/
import CC.Properties.C03State
import CC.Properties.C16Compose
set_option linter.unusedSectionVars false
set_option linter.unusedVariables false
set_option linter.unusedTactic false
set_option linter.unreachableTactic false

namespace CC
open Matrix Mx

section spec
variable {L L' K : Type} [DecidableEq L] [LabelOrd L] [DecidableEq L'] [LabelOrd L'] [Field K] [DecidableEq K]

/-! ### reversing twice -/

theorem Elem.reversed_reversed (e : Elem K) : e.reversed.reversed = e := by
  cases e <;> simp [Elem.reversed]

theorem Branch.flip_flip (f : String → Bool) (b : Branch L K) : (b.flip f).flip f = b := by
  unfold Branch.flip
  by_cases hf : f b.id = true
  · simp only [hf, if_true, Elem.reversed_reversed]
  · simp only [hf, Bool.false_eq_true, if_false]

theorem Net.flip_flip (f : String → Bool) (N : Net L K) : (N.flip f).flip f = N := by
  unfold Net.flip
  simp only [List.map_map]
  have : N.branches.map (Branch.flip f ∘ Branch.flip f) = N.branches := by
    conv_rhs => rw [← List.map_id N.branches]
    apply List.map_congr_left
    intro b _
    exact Branch.flip_flip f b
  rw [this]

/-- the report of the transformed description read BACK to the original: through `σ`, `τ`, the sign flips, and a
shift of the potentials to the original reference `z` -/
def Report.readBack (σ : L → L') (τ : String → String) (f : String → Bool) (z : L) (R' : Report L' K) :
    Report L K :=
  ((R'.comap σ τ).flip f).shift (((R'.comap σ τ).flip f).pot z)

/-- forward: a solution of `N`, shifted to the new reference and flipped, solves the permuted, reversed,
re-referenced network; any `R'` that reads as it through `σ`, `τ` solves the renamed one -/
theorem composite_forward (N N₁ N₃ : Net L K) (g : L) (f : String → Bool)
    (hbr : N₁.branches = N.branches) (hg : N₁.zero = g)
    (hz : N₃.zero = N₁.zero) (hp : (N₁.flip f).branches.Perm N₃.branches)
    (σ : L → L') (hσ : Function.Injective σ) (τ : String → String)
    (R : Report L K) (h : CircuitEqs N R) (R' : Report L' K)
    (hR' : R'.comap σ τ = (R.shift (R.pot g)).flip f) :
    CircuitEqs (N₃.rename σ τ) R' := by
  have h1 : CircuitEqs N₁ (R.shift (R.pot g)) := by
    have := circuitEqs_reref N N₁ hbr R h
    rwa [hg] at this
  have h2 := C03_reverse f N₁ _ h1
  have h3 := (C03_perm (N₁.flip f) N₃ hz.symm hp _).mp h2
  rw [C03_rename σ hσ τ N₃ R', hR']
  exact h3

/-- backward: a solution of the transformed network, read back, solves the original -/
theorem composite_back (N N₁ N₃ : Net L K) (f : String → Bool)
    (hbr : N₁.branches = N.branches)
    (hz : N₃.zero = N₁.zero) (hp : (N₁.flip f).branches.Perm N₃.branches)
    (σ : L → L') (hσ : Function.Injective σ) (τ : String → String)
    (R' : Report L' K) (h' : CircuitEqs (N₃.rename σ τ) R') :
    CircuitEqs N (R'.readBack σ τ f N.zero) := by
  have h3 : CircuitEqs N₃ (R'.comap σ τ) := (C03_rename σ hσ τ N₃ R').mp h'
  have h2 : CircuitEqs (N₁.flip f) (R'.comap σ τ) := (C03_perm (N₁.flip f) N₃ hz.symm hp _).mpr h3
  have h1 := C03_reverse f _ _ h2
  rw [Net.flip_flip] at h1
  exact circuitEqs_reref N₁ N hbr.symm _ h1

/-- what agreement with the read-back report says, read FORWARD -/
theorem readBack_forward (M : Net L K) (g : L) (f : String → Bool) (σ : L → L') (τ : String → String)
    (R : Report L K) (R' : Report L' K) (hz' : R'.pot (σ g) = 0)
    (ha : R.AgreeOn M (R'.readBack σ τ f M.zero)) :
    (g ∈ M.allLabels → ∀ n ∈ M.allLabels, R'.pot (σ n) = R.pot n - R.pot g) ∧
    (∀ b ∈ M.branches, R'.v (τ b.id) = if f b.id then - R.v b.id else R.v b.id) ∧
    (∀ b ∈ M.branches, R'.i (τ b.id) = if f b.id then - R.i b.id else R.i b.id) := by
  obtain ⟨ap, ab⟩ := ha
  refine ⟨fun hg n hn => ?_, fun b hb => ?_, fun b hb => ?_⟩
  · have e1 := ap n hn
    have e2 := ap g hg
    simp only [Report.readBack, Report.shift, Report.flip, Report.comap] at e1 e2
    rw [hz'] at e2
    rw [e1, e2]; ring
  · have e := (ab b hb).1
    simp only [Report.readBack, Report.shift, Report.flip, Report.comap] at e
    by_cases hf : f b.id = true
    · simp only [hf, if_true] at e ⊢; rw [e]; ring
    · simp only [hf, Bool.false_eq_true, if_false] at e ⊢; rw [e]
  · have e := (ab b hb).2
    simp only [Report.readBack, Report.shift, Report.flip, Report.comap] at e
    by_cases hf : f b.id = true
    · simp only [hf, if_true] at e ⊢; rw [e]; ring
    · simp only [hf, Bool.false_eq_true, if_false] at e ⊢; rw [e]

/-- **C03 (all four transformations together, circuit equations).**  `N₁` is what `switch_ground_node(N, g)`
returns, `N₃` any network with the reference of `N₁` whose branch list is a permutation of `N₁` with the branches
selected by `f` reversed (terminals swapped, source value negated), `σ` an injective renaming of node labels, `τ`
any renaming of identifiers; the transformed description is `N₃.rename σ τ`.
* forward: if `R` solves `N`, every report `R'` that reads through `σ`, `τ` as `R` shifted by `R.pot g` and negated
  on the reversed branches solves the transformed network;
* backward: if `R'` solves the transformed network, `R'` read back (`Report.readBack`) solves `N`;
* relation: if `N` has distinct identifiers and is well-posed — the ONLY well-posedness hypothesis, about the
  original — then for ANY solutions `R` of `N` and `R'` of the transformed network: `R` agrees on `N` with `R'` read
  back; read forward: every branch voltage and current of the transformed network is that of the original up to `τ`,
  negated exactly on the reversed branches, and (when `g` is a label of `N`) every potential is the original
  potential minus the original potential of the new reference `g`.
Nothing about floating point; the link model ↔ code is C01 / C16. -/
theorem C03_composite (N N₁ N₃ : Net L K) (g : L) (f : String → Bool)
    (hr : switchGround N g = .ok N₁)
    (hz : N₃.zero = N₁.zero) (hp : (N₁.flip f).branches.Perm N₃.branches)
    (σ : L → L') (hσ : Function.Injective σ) (τ : String → String) :
    (∀ (R : Report L K) (R' : Report L' K), CircuitEqs N R →
        R'.comap σ τ = (R.shift (R.pot g)).flip f → CircuitEqs (N₃.rename σ τ) R') ∧
    (∀ R' : Report L' K, CircuitEqs (N₃.rename σ τ) R' → CircuitEqs N (R'.readBack σ τ f N.zero)) ∧
    (N.ids.Nodup → WellPosed N → ∀ (R : Report L K) (R' : Report L' K),
        CircuitEqs N R → CircuitEqs (N₃.rename σ τ) R' →
        R.AgreeOn N (R'.readBack σ τ f N.zero) ∧
        (g ∈ N.allLabels → ∀ n ∈ N.allLabels, R'.pot (σ n) = R.pot n - R.pot g) ∧
        (∀ b ∈ N.branches, R'.v (τ b.id) = if f b.id then - R.v b.id else R.v b.id) ∧
        (∀ b ∈ N.branches, R'.i (τ b.id) = if f b.id then - R.i b.id else R.i b.id)) := by
  have hN₁ : N₁ = ⟨N.branches, g⟩ := mk?_ok hr
  have hbr : N₁.branches = N.branches := by rw [hN₁]
  have hg : N₁.zero = g := by rw [hN₁]
  refine ⟨fun R R' h hR' => composite_forward N N₁ N₃ g f hbr hg hz hp σ hσ τ R h R' hR',
    fun R' h' => composite_back N N₁ N₃ f hbr hz hp σ hσ τ R' h', ?_⟩
  intro hids hw R R' h h'
  have ha : R.AgreeOn N (R'.readBack σ τ f N.zero) :=
    C01_unique N hids hw _ _ h (composite_back N N₁ N₃ f hbr hz hp σ hσ τ R' h')
  have hz' : R'.pot (σ g) = 0 := by
    have := h'.ref_zero
    simpa [Net.rename, hz, hg] using this
  exact ⟨ha, readBack_forward N g f σ τ R R' hz' ha⟩

/-- **C03 (all four transformations together, reported values).**  `N` valid and well-posed (the only
well-posedness hypothesis), the transformed description `N₃.rename σ τ` valid.  Whatever vectors `x`, `x'` satisfy
the two matrix equations the code builds: the potentials, voltages and currents the accessors report for the
transformed description are those reported for the original, read through `σ`, `τ`, negated on the reversed
branches, potentials shifted by the reported potential of the new reference. -/
theorem C03_reported_composite (N N₁ N₃ : Net L K) (g : L) (f : String → Bool)
    (hr : switchGround N g = .ok N₁)
    (hz : N₃.zero = N₁.zero) (hp : (N₁.flip f).branches.Perm N₃.branches)
    (σ : L → L') (hσ : Function.Injective σ) (τ : String → String)
    (wf : N.WF) (hw : WellPosed N) (wf' : (N₃.rename σ τ).WF) (x x' : List K)
    (hx : x.length = N.nodes.length + N.vsIds.length)
    (hx' : x'.length = (N₃.rename σ τ).nodes.length + (N₃.rename σ τ).vsIds.length)
    (h : matVec N.mnaA x = N.mnaB) (h' : matVec (N₃.rename σ τ).mnaA x' = (N₃.rename σ τ).mnaB) :
    let R := N.reportOf x
    let R' := (N₃.rename σ τ).reportOf x'
    R.AgreeOn N (R'.readBack σ τ f N.zero) ∧
    (g ∈ N.allLabels → ∀ n ∈ N.allLabels, R'.pot (σ n) = R.pot n - R.pot g) ∧
    (∀ b ∈ N.branches, R'.v (τ b.id) = if f b.id then - R.v b.id else R.v b.id) ∧
    (∀ b ∈ N.branches, R'.i (τ b.id) = if f b.id then - R.i b.id else R.i b.id) :=
  (C03_composite N N₁ N₃ g f hr hz hp σ hσ τ).2.2 wf.ids_nodup hw _ _
    (C01_sound N x wf hx h).2.2 (C01_sound (N₃.rename σ τ) x' wf' hx' h').2.2

/-! ### transfer and sample level -/

/-- the element substitution (`phasorElem` / `stateElem`) commutes with the composite transformation -/
theorem composite_mapElems (N N₁ N₃ : Net L K) (f : String → Bool)
    (hbr : N₁.branches = N.branches)
    (hz : N₃.zero = N₁.zero) (hp : (N₁.flip f).branches.Perm N₃.branches)
    (σ : L → L') (τ : String → String) (ge : Branch L K → Elem K) (ge' : Branch L' K → Elem K)
    (hrel : ∀ b ∈ N.branches, ge' ((b.flip f).rename σ τ) = Elem.rev (f b.id) (ge b)) :
    ∃ M₁ M₃ : Net L K, M₁.branches = (N.mapElems ge).branches ∧ M₃.zero = M₁.zero ∧
      (M₁.flip f).branches.Perm M₃.branches ∧ (N₃.rename σ τ).mapElems ge' = M₃.rename σ τ := by
  refine ⟨N₁.mapElems ge, N₃.mapElems (fun b => ge' (b.rename σ τ)), ?_, hz, ?_, ?_⟩
  · exact mapElems_branches_congr N N₁ ge ge hbr fun _ _ => rfl
  · have e : (N₁.flip f).mapElems (fun b => ge' (b.rename σ τ)) = (N₁.mapElems ge).flip f :=
      mapElems_flip f N₁ ge _ fun b hb => hrel b (hbr ▸ hb)
    rw [← e]
    exact mapElems_perm (N₁.flip f) N₃ _ _ hp fun _ _ => rfl
  · exact mapElems_rename σ τ N₃ _ ge' fun _ _ => rfl

end spec

section state
variable {L L' K : Type} [DecidableEq L] [LabelOrd L] [DecidableEq L'] [LabelOrd L'] [Field K] [DecidableEq K]
variable {N N₁ N₃ : Net L K} {cv lv cv' lv' : ValDict K} {Ainv S Delta Ainv' S' Delta' : List (List K)} {m m' : SSMats K}

/-- **C03 (state-space transfer, all four transformations together).**  Two settings (`StateModelOK`): the `w = 0`
network `N` of an RLC + ideal-source circuit and the transformed description `N₃.rename σ τ` (re-referenced at `g`,
branches `f` reversed, branch list permuted, nodes renamed by the injective `σ`, identifiers by `τ`), each with the
matrices `stateSpaceMatrices` returns for valid certificates; the dictionaries give the same C / L to the same
renamed element (`SameValues τ`), the inputs the same amplitude to the same renamed source, negated for a reversed
source (`SameInput τ f`).  For every `s`, `x = (s − A)⁻¹B u`, `x' = (s − A')⁻¹B' u'`: if the phasor network of the
ORIGINAL setting at `s` is well-posed (the only well-posedness hypothesis), the response of the original model
agrees with the response of the transformed model read back; read forward: voltages and currents equal up to `τ`
and the sign of the reversed elements, potentials shifted by the original potential of the new reference. -/
theorem C03_transfer_composite (g : L) (f : String → Bool) (σ : L → L') (hσ : Function.Injective σ)
    (τ : String → String)
    (hr : switchGround N g = .ok N₁)
    (hz : N₃.zero = N₁.zero) (hp : (N₁.flip f).branches.Perm N₃.branches)
    (ok : StateModelOK N cv lv Ainv S Delta m)
    (ok' : StateModelOK (N₃.rename σ τ) cv' lv' Ainv' S' Delta' m')
    (hv : SameValues τ N cv lv cv' lv')
    (s : K) (x : Fin (ssNStates N cv lv) → K) (u : Fin (ssNInputs N lv) → K)
    (x' : Fin (ssNStates (N₃.rename σ τ) cv' lv') → K) (u' : Fin (ssNInputs (N₃.rename σ τ) lv') → K)
    (hu : SameInput τ f N (ssSources N lv) (List.ofFn u) (ssSources (N₃.rename σ τ) lv') (List.ofFn u'))
    (hx : s • x = toM _ _ m.A *ᵥ x + toM _ _ m.B *ᵥ u)
    (hx' : s • x' = toM _ _ m'.A *ᵥ x' + toM _ _ m'.B *ᵥ u')
    (hw : WellPosed (phasorOf N cv lv u s)) :
    let R := transferReport N cv lv m s x u
    let R' := transferReport (N₃.rename σ τ) cv' lv' m' s x' u'
    R.AgreeOn (phasorOf N cv lv u s) (R'.readBack σ τ f N.zero) ∧
    (g ∈ (phasorOf N cv lv u s).allLabels →
      ∀ n ∈ (phasorOf N cv lv u s).allLabels, R'.pot (σ n) = R.pot n - R.pot g) ∧
    (∀ b ∈ (phasorOf N cv lv u s).branches, R'.v (τ b.id) = if f b.id then - R.v b.id else R.v b.id) ∧
    (∀ b ∈ (phasorOf N cv lv u s).branches, R'.i (τ b.id) = if f b.id then - R.i b.id else R.i b.id) := by
  intro R R'
  have hN₁ : N₁ = ⟨N.branches, g⟩ := mk?_ok hr
  have hbr : N₁.branches = N.branches := by rw [hN₁]
  have hg : N₁.zero = g := by rw [hN₁]
  obtain ⟨M₁, M₃, b1, z3, p3, e3⟩ := composite_mapElems N N₁ N₃ f hbr hz hp σ τ
    (phasorElem cv lv (ssSources N lv) (List.ofFn u) s)
    (phasorElem cv' lv' (ssSources (N₃.rename σ τ) lv') (List.ofFn u') s)
    (fun b hb => phasorElem_rel τ f s hv hu b hb ((b.flip f).rename σ τ)
      (by show τ (b.flip f).id = τ b.id; rw [flip_id]) (by show (b.flip f).e = _; exact flip_e f b))
  have hph : phasorOf (N₃.rename σ τ) cv' lv' u' s = M₃.rename σ τ := by rw [phasorOf_eq]; exact e3
  have ha : R.AgreeOn (phasorOf N cv lv u s) (R'.readBack σ τ f N.zero) := by
    refine transfer_core ok' ok s x' u' x u hx' hx (fun Q => Q.readBack σ τ f N.zero) ?_ hw
    intro Q hQ
    rw [hph] at hQ
    exact composite_back (phasorOf N cv lv u s) M₁ M₃ f (by rw [b1, phasorOf_eq]) z3 p3 σ hσ τ Q hQ
  have hz' : R'.pot (σ g) = 0 := by
    have := (C03_transfer_solves ok' s x' u' hx').ref_zero
    have e : (phasorOf (N₃.rename σ τ) cv' lv' u' s).zero = σ g := by
      show σ N₃.zero = σ g; rw [hz, hg]
    rwa [e] at this
  exact ⟨ha, readBack_forward (phasorOf N cv lv u s) g f σ τ R R' hz' ha⟩

/-- **C03 (transient sample, all four transformations together).**  Settings and transformation as in
`C03_transfer_composite`; for EVERY pair of states related by the induced state map (`SameState τ f`: same capacitor
voltage / inductor current for the same renamed element, negated for a reversed one) and inputs related by
`SameInput τ f` — hence for every integrator — the per-sample reports (`y = C x + D u`, `ẋ = A x + B u`) are related
as above, provided the ORIGINAL circuit with its states imposed is well-posed. -/
theorem C03_sample_composite (g : L) (f : String → Bool) (σ : L → L') (hσ : Function.Injective σ)
    (τ : String → String)
    (hr : switchGround N g = .ok N₁)
    (hz : N₃.zero = N₁.zero) (hp : (N₁.flip f).branches.Perm N₃.branches)
    (ok : StateModelOK N cv lv Ainv S Delta m)
    (ok' : StateModelOK (N₃.rename σ τ) cv' lv' Ainv' S' Delta' m')
    (x : Fin (ssNStates N cv lv) → K) (u : Fin (ssNInputs N lv) → K)
    (x' : Fin (ssNStates (N₃.rename σ τ) cv' lv') → K) (u' : Fin (ssNInputs (N₃.rename σ τ) lv') → K)
    (hs : SameState τ f N cv lv cv' lv' (List.ofFn x) (List.ofFn x'))
    (hu : SameInput τ f N (ssSources N lv) (List.ofFn u) (ssSources (N₃.rename σ τ) lv') (List.ofFn u'))
    (hw : WellPosed (stateNet N cv lv u x)) :
    let R := sampleReport N cv lv m x u
    let R' := sampleReport (N₃.rename σ τ) cv' lv' m' x' u'
    R.AgreeOn (stateNet N cv lv u x) (R'.readBack σ τ f N.zero) ∧
    (g ∈ (stateNet N cv lv u x).allLabels →
      ∀ n ∈ (stateNet N cv lv u x).allLabels, R'.pot (σ n) = R.pot n - R.pot g) ∧
    (∀ b ∈ (stateNet N cv lv u x).branches, R'.v (τ b.id) = if f b.id then - R.v b.id else R.v b.id) ∧
    (∀ b ∈ (stateNet N cv lv u x).branches, R'.i (τ b.id) = if f b.id then - R.i b.id else R.i b.id) := by
  intro R R'
  have hN₁ : N₁ = ⟨N.branches, g⟩ := mk?_ok hr
  have hbr : N₁.branches = N.branches := by rw [hN₁]
  have hg : N₁.zero = g := by rw [hN₁]
  obtain ⟨M₁, M₃, b1, z3, p3, e3⟩ := composite_mapElems N N₁ N₃ f hbr hz hp σ τ
    (stateElem cv lv (ssSources N lv) (List.ofFn u) (List.ofFn x))
    (stateElem cv' lv' (ssSources (N₃.rename σ τ) lv') (List.ofFn u') (List.ofFn x'))
    (fun b hb => stateElem_rel τ f hs hu b hb ((b.flip f).rename σ τ)
      (by show τ (b.flip f).id = τ b.id; rw [flip_id]) (by show (b.flip f).e = _; exact flip_e f b))
  have hph : stateNet (N₃.rename σ τ) cv' lv' u' x' = M₃.rename σ τ := e3
  have ha : R.AgreeOn (stateNet N cv lv u x) (R'.readBack σ τ f N.zero) := by
    refine sample_core ok' ok x' u' x u (fun Q => Q.readBack σ τ f N.zero) ?_ hw
    intro Q hQ
    rw [hph] at hQ
    exact composite_back (stateNet N cv lv u x) M₁ M₃ f b1 z3 p3 σ hσ τ Q hQ
  have hz' : R'.pot (σ g) = 0 := by
    have := (C03_sample_state ok' x' u').ref_zero
    have e : (stateNet (N₃.rename σ τ) cv' lv' u' x').zero = σ g := by
      show σ N₃.zero = σ g; rw [hz, hg]
    rwa [e] at this
  exact ⟨ha, readBack_forward (stateNet N cv lv u x) g f σ τ R R' hz' ha⟩

end state

/-! ### non-vacuity -/

namespace C03cx

/-- `V = 1` (1,0), `R = 1` (1,2), admittance `1` (0,2) — the phasor network of `C03ex` at `s = 1` -/
def cxN : Net String ℚ := { zero := "0", branches := [
  { n1 := "1", n2 := "0", id := "V", e := .norton 0 1 },
  { n1 := "1", n2 := "2", id := "R", e := .norton 1 0 },
  { n1 := "0", n2 := "2", id := "C", e := .thevenin 1 0 }] }
/-- re-referenced at node `2` -/
def cxN1 : Net String ℚ := ⟨cxN.branches, "2"⟩
/-- `R` reversed, then listed in the order `C, V, R` -/
def cxN3 : Net String ℚ := { zero := "2", branches := [
  { n1 := "0", n2 := "2", id := "C", e := .thevenin 1 0 },
  { n1 := "1", n2 := "0", id := "V", e := .norton 0 1 },
  { n1 := "2", n2 := "1", id := "R", e := .norton 1 0 }] }
def cxF : String → Bool := fun id => id == "R"
def cxTau : String → String := fun id => id ++ "'"

def cxR : Report String ℚ :=
  { pot := fun n => if n = "1" then 1 else if n = "2" then 1/2 else 0,
    v := fun id => if id = "V" then 1 else if id = "R" then 1/2 else -1/2,
    i := fun id => if id = "R" then 1/2 else -1/2 }
def cxR' : Report String ℚ :=
  { pot := fun n => if n = "1" then 1/2 else if n = "2" then 0 else -1/2,
    v := fun id => if id = "V'" then 1 else -1/2,
    i := fun _ => -1/2 }

theorem cxN_wellPosed : WellPosed cxN := by
  have := C03ex.rcf_phasor_wellposed
  rw [C03ex.rcf_phasor] at this
  exact this

theorem cx_switch : switchGround cxN "2" = .ok cxN1 := by
  unfold switchGround
  rw [mk?_eq_ok_iff]
  refine ⟨rfl, ?_, by simp [cxN]⟩
  rw [mem_nodeLabels]; right
  exact ⟨⟨"1", "2", "R", "", .norton 1 0⟩, by simp [cxN], Or.inr rfl⟩

theorem cx_perm : (cxN1.flip cxF).branches.Perm cxN3.branches := by
  have e : (cxN1.flip cxF).branches = [
      { n1 := "1", n2 := "0", id := "V", e := .norton 0 1 },
      { n1 := "2", n2 := "1", id := "R", e := .norton 1 0 },
      { n1 := "0", n2 := "2", id := "C", e := .thevenin 1 0 }] := by
    simp [cxN1, cxN, Net.flip, Branch.flip, cxF, Elem.reversed]
  rw [e]
  exact (List.Perm.cons _ (List.Perm.swap _ _ _)).trans (List.Perm.swap _ _ _)

theorem cxR_solves : CircuitEqs cxN cxR := by
  rw [← circuitEqsAll_iff]
  refine ⟨by simp [cxN, cxR], ?_, ?_, ?_⟩
  · intro b hb
    simp only [cxN, List.mem_cons, List.mem_nil_iff, or_false] at hb
    rcases hb with rfl | rfl | rfl <;> simp [voltResidual, cxR] <;> norm_num
  · intro b hb
    simp only [cxN, List.mem_cons, List.mem_nil_iff, or_false] at hb
    rcases hb with rfl | rfl | rfl <;> simp [Elem.lawResidual, cxR] <;> norm_num
  · intro n
    by_cases h1 : "1" = n
    · subst h1; simp [cxN, kclResidual, incidence, Elem.physCurrent, Elem.isLossy, Elem.kind, cxR] <;> norm_num
    · by_cases h2 : "2" = n
      · subst h2; simp [cxN, kclResidual, incidence, Elem.physCurrent, Elem.isLossy, Elem.kind, cxR] <;> norm_num
      · by_cases h0 : "0" = n
        · subst h0; simp [cxN, kclResidual, incidence, Elem.physCurrent, Elem.isLossy, Elem.kind, cxR] <;> norm_num
        · simp [cxN, kclResidual, incidence, Elem.physCurrent, Elem.isLossy, Elem.kind, cxR, h1, h2, h0]

theorem cx_renamed : cxN3.rename id cxTau = { zero := "2", branches := [
    { n1 := "0", n2 := "2", id := "C'", e := .thevenin 1 0 },
    { n1 := "1", n2 := "0", id := "V'", e := .norton 0 1 },
    { n1 := "2", n2 := "1", id := "R'", e := .norton 1 0 }] } := by
  simp [cxN3, Net.rename, Branch.rename, cxTau]

theorem cxR'_solves : CircuitEqs (cxN3.rename id cxTau) cxR' := by
  rw [cx_renamed, ← circuitEqsAll_iff]
  refine ⟨by simp [cxR'], ?_, ?_, ?_⟩
  · intro b hb
    simp only [List.mem_cons, List.mem_nil_iff, or_false] at hb
    rcases hb with rfl | rfl | rfl <;> simp [voltResidual, cxR'] <;> norm_num
  · intro b hb
    simp only [List.mem_cons, List.mem_nil_iff, or_false] at hb
    rcases hb with rfl | rfl | rfl <;> simp [Elem.lawResidual, cxR'] <;> norm_num
  · intro n
    by_cases h1 : "1" = n
    · subst h1; simp [kclResidual, incidence, Elem.physCurrent, Elem.isLossy, Elem.kind, cxR'] <;> norm_num
    · by_cases h2 : "2" = n
      · subst h2; simp [kclResidual, incidence, Elem.physCurrent, Elem.isLossy, Elem.kind, cxR'] <;> norm_num
      · by_cases h0 : "0" = n
        · subst h0; simp [kclResidual, incidence, Elem.physCurrent, Elem.isLossy, Elem.kind, cxR'] <;> norm_num
        · simp [kclResidual, incidence, Elem.physCurrent, Elem.isLossy, Elem.kind, cxR', h1, h2, h0]

/-- **non-vacuity of `C03_composite`**: re-reference at node `2`, reverse `R`, list as `C, V, R`, rename every
identifier `id ↦ id'` (node renaming `σ = id`): every hypothesis holds, both networks are solved, and the relation
read off the theorem is the one between the two explicit solutions — the reversed resistor's voltage is negated
(`−1/2 = −(1/2)`), the potential of node `1` is shifted by the potential of the new reference (`1/2 = 1 − 1/2`). -/
example : switchGround cxN "2" = .ok cxN1 ∧ cxN3.zero = cxN1.zero ∧ (cxN1.flip cxF).branches.Perm cxN3.branches
    ∧ cxN.ids.Nodup ∧ WellPosed cxN ∧ CircuitEqs cxN cxR ∧ CircuitEqs (cxN3.rename id cxTau) cxR'
    ∧ cxR'.v (cxTau "R") = - cxR.v "R" ∧ cxR'.pot "1" = cxR.pot "1" - cxR.pot "2" := by
  have h := (C03_composite cxN cxN1 cxN3 "2" cxF cx_switch rfl cx_perm id Function.injective_id cxTau).2.2
    (by simp [Net.ids, cxN]) cxN_wellPosed cxR cxR' cxR_solves cxR'_solves
  refine ⟨cx_switch, rfl, cx_perm, by simp [Net.ids, cxN], cxN_wellPosed, cxR_solves, cxR'_solves, ?_, ?_⟩
  · have := h.2.2.1 ⟨"1", "2", "R", "", .norton 1 0⟩ (by simp [cxN])
    simpa [cxF] using this
  · exact h.2.1 (by simp [Net.allLabels, cxN]) "1" (by simp [Net.allLabels, cxN])

end C03cx

end CC
