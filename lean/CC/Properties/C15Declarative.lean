/-
  C15 (round 5) — the declarative front end `create_schematic` as a whole, and keyword layouts
  with extra keys.

  Model: `CC.Draw.declarative` (CC/Model/DrawIO.lean; mirrors SimpleSimulation/schematic.py
  `transform_to_schematic_element`, `element_factory`, `apply_direction_and_length`,
  `apply_position`) over the generated handler / class tables.
  Helper lemmas: CC/Proofs/DrawDeclarative2.lean.
-/
import CC.Proofs.DrawDeclarative2
import CC.Proofs.DrawLift
import CC.Properties.C15
namespace CC
open CC.Draw

/-! ## (1) the model function `declarative`, list level -/

/-- **`declarative` characterised, for every description list.**  `declarative π unit elems`
succeeds with the placement list `ps` **iff** `elems` and `ps` correspond entry by entry, in
order (`DeclRel`, threaded with the names of the symbols built so far): for each entry `e` and
its placement `p` (`EntrySpec`) the `type` of `e` is a key `t` of the generated handler table
with handler `h`; `p.cls` is the handler's class (`LabeledLine` instead of `Line` exactly when
the entry has a `name`); `p.kwargs` is the entry plus `element_factory`'s defaults; that
constructor call succeeds; `p.method` is the entry's `direction` looked up in the generated
direction table (`""` = no call); `p.length = length × unit` (`length` defaults to 1);
`p.plain` says whether the class is one-terminal (method called without length); `p.after` is
`none` without `place_after`, else the index of the *first* earlier symbol with that name (it
exists).  Says nothing about schemdraw's geometry (a parameter of the model) and nothing about
`schematic.py` beyond the model (correspondence `draw_declarative`). -/
theorem C15_declarative_list (π unit : Rat) (elems : List (List (String × Val))) (ps : List Placement) :
    declarative π unit elems = .ok ps ↔ ∃ out, DeclRel π unit [] elems ps out := by
  rw [declarative_eq_declFrom]
  exact ⟨declFrom_ok π unit elems [] ps, fun ⟨_, h⟩ => declFrom_of_rel h⟩

/-- one placement per entry (order is part of `C15_declarative_list` / `C15_declarative_symbols`) -/
theorem C15_declarative_length (π unit : Rat) (elems : List (List (String × Val))) (ps : List Placement)
    (h : declarative π unit elems = .ok ps) : ps.length = elems.length := by
  obtain ⟨_, hr⟩ := (C15_declarative_list π unit elems ps).mp h
  exact hr.length

/-- what entry `e` and its placement `p` have to do with each other, besides `place_after` -/
def C15_EntryBuilt (π unit : Rat) (e : List (String × Val)) (p : Placement) : Prop :=
  ∃ t h, e.lookup "type" = some (.str t) ∧ Gen.declHandlers.find? (·.typ = t) = some h ∧
    p.cls = handlerClass h e ∧
    construct π p.cls p.kwargs = construct π (handlerClass h e) (ctorKw e) ∧
    (∃ o, construct π (handlerClass h e) (ctorKw e) = .ok o) ∧
    p.method = entryMethod e ∧ p.length = entryLen e * unit ∧ p.plain = oneTerminal (handlerClass h e)

theorem C15_entryBuilt_of_spec {π unit : Rat} {names : List String} {e : List (String × Val)} {p : Placement} {n : String}
    (h : EntrySpec π unit names e p n) : C15_EntryBuilt π unit e p := by
  obtain ⟨t, hd, o, a, h1, h2, h3, h4, hp, hn⟩ := h
  subst hp
  have hf := declarative_frame π hd (List.mem_of_find?_eq_some h2) e
  exact ⟨t, hd, h1, h2, rfl, hf, ⟨o, hf ▸ h3⟩, rfl, rfl, rfl⟩

theorem C15_rel_built {π unit : Rat} {names out : List String} {elems : List (List (String × Val))} {ps : List Placement}
    (hr : DeclRel π unit names elems ps out) : List.Forall₂ (C15_EntryBuilt π unit) elems ps := by
  induction hr with
  | nil names => exact List.Forall₂.nil
  | cons n hs _ ih => exact List.Forall₂.cons (C15_entryBuilt_of_spec hs) ih

/-- **The symbols are the ones the constructors build** (same kind, name, reversal flag, node
id, values — `construct` returns all of them), in the order of the entries: for every
description list that builds, entries and placements correspond one to one in order, and for
each the constructor call made by the declarative path (`p.cls(**p.kwargs)`, whole description)
equals — as a value of `Except Err SymObj` — the programmatic call `Class(**ctorKw e)` with the
constructor keywords only (the description without `type`, `direction`, `length`,
`place_after`; `name=''`, `reverse=False` when absent), for **any** keys, key order and values;
both succeed; the direction method, `length × unit` and the one-terminal flag are what the
entry says.  The generic frame fact behind it is `CC.Draw.construct_congr`: the constructor
reads its keywords by `lookup` at the class's own keys only. -/
theorem C15_declarative_symbols (π unit : Rat) (elems : List (List (String × Val))) (ps : List Placement)
    (h : declarative π unit elems = .ok ps) : List.Forall₂ (C15_EntryBuilt π unit) elems ps := by
  obtain ⟨out, hr⟩ := (C15_declarative_list π unit elems ps).mp h
  exact C15_rel_built hr

/-- **Unknown type ⇒ `UnknownCircuitElement`**: if the entries before `e` build and the `type`
of `e` is a string that is no key of the handler table, the whole call fails with
`Err.unknownKind` (whatever follows). -/
theorem C15_declarative_unknown (π unit : Rat) (pre post : List (List (String × Val))) (e : List (String × Val))
    (ps : List Placement) (t : String) (hpre : declarative π unit pre = .ok ps)
    (h1 : e.lookup "type" = some (.str t)) (h2 : Gen.declHandlers.find? (·.typ = t) = none) :
    declarative π unit (pre ++ e :: post) = .error Err.unknownKind := by
  obtain ⟨out, hr⟩ := (C15_declarative_list π unit pre ps).mp hpre
  rw [declarative_eq_declFrom, declFrom_append hr]
  simp only [declFrom, declStep_unknown h1 h2]
  rfl

/-- **No `type` key ⇒ `MissingArgument`** (same shape). -/
theorem C15_declarative_untyped (π unit : Rat) (pre post : List (List (String × Val))) (e : List (String × Val))
    (ps : List Placement) (hpre : declarative π unit pre = .ok ps) (h1 : e.lookup "type" = none) :
    declarative π unit (pre ++ e :: post) = .error (Err.other "MissingArgument") := by
  obtain ⟨out, hr⟩ := (C15_declarative_list π unit pre ps).mp hpre
  rw [declarative_eq_declFrom, declFrom_append hr]
  simp only [declFrom, declStep_untyped h1]
  rfl

/-- non-vacuity of the hypotheses of `C15_declarative_unknown`: a resistor followed by a `transistor` -/
example :
    declarative C15_pi64 3 [[("type", .str "resistor"), ("R", .num 1), ("name", .str "R1")]] ≠ .error Err.unknownKind ∧
    Gen.declHandlers.find? (·.typ = "transistor") = none := by
  constructor
  · decide +kernel
  · decide

/-! ## (2) the circuit -/

/-- the drawing of a placement list once schemdraw has put the elements at `anch` -/
def C15_drawingOf (ps : List Placement) (anch : List (Pt × Pt)) : List DElem :=
  List.zipWith (fun p a => ⟨p.cls, p.kwargs, a.1, a.2⟩) ps anch

/-- the programmatic counterpart: same classes, methods, lengths, anchors — constructor keywords only -/
def C15_programmatic (elems : List (List (String × Val))) (ps : List Placement) : List Placement :=
  List.zipWith (fun e p => { p with kwargs := ctorKw e }) elems ps

theorem C15_instantiate_same (π unit : Rat) (elems : List (List (String × Val))) (ps : List Placement)
    (h : List.Forall₂ (C15_EntryBuilt π unit) elems ps) :
    ∀ anch, instantiate π (C15_drawingOf ps anch) = instantiate π (C15_drawingOf (C15_programmatic elems ps) anch) := by
  induction h with
  | nil => intro anch; rfl
  | @cons e p es ps' hep _ ih =>
    intro anch
    cases anch with
    | nil => rfl
    | cons a as =>
      obtain ⟨t, hd, h1, h2, hc, hf, _, _, _, _⟩ := hep
      have ih' := ih as
      unfold instantiate at ih' ⊢
      simp only [C15_drawingOf, C15_programmatic, List.zipWith_cons_cons, List.mapM_cons] at ih' ⊢
      rw [ih']
      have hf' : construct π p.cls p.kwargs = construct π p.cls (ctorKw e) := by rw [hf, hc]
      simp only [DElem.toSym, hf']

/-- **The declarative drawing translates to the circuit of the programmatic drawing**: for every
description list that builds, every placement of the elements by schemdraw (`anch`: start / end
anchors, the same for both drawings — they are functions of class, method, length and
`place_after`, which `C15_declarative_list` shows to be the entry's) and every set iteration
order, the symbol list of the declarative drawing *is* the symbol list built by the
constructor calls, hence both give the same circuit or the same error. -/
theorem C15_declarative_circuit (π unit : Rat) (ord : SetOrd Pt) (elems : List (List (String × Val))) (ps : List Placement)
    (anch : List (Pt × Pt)) (h : declarative π unit elems = .ok ps) :
    instantiate π (C15_drawingOf ps anch) = instantiate π (C15_drawingOf (C15_programmatic elems ps) anch) ∧
    circuitOf π ord (C15_drawingOf ps anch) = circuitOf π ord (C15_drawingOf (C15_programmatic elems ps) anch) := by
  have hi := C15_instantiate_same π unit elems ps (C15_declarative_symbols π unit elems ps h) anch
  refine ⟨hi, ?_⟩
  unfold circuitOf
  rw [hi]

/-- non-vacuity of `C15_declarative_symbols` / `C15_declarative_circuit`: a three-entry description
(keys in a non-canonical order, a `place_after`, a one-terminal ground) builds, and the circuit of
its drawing is translated -/
example :
    (declarative C15_pi64 4
      [[("direction", .str "up"), ("type", .str "voltage_source"), ("name", .str "V1"), ("V", .num 5)],
       [("type", .str "resistor"), ("length", .num 2), ("R", .num 10), ("name", .str "R1"), ("direction", .str "down"),
        ("place_after", .str "V1")],
       [("type", .str "ground")]]).toOption.map (fun ps => ps.map (fun p => (p.cls, p.method, p.length, p.after)))
      = some [("VoltageSource", "up", 4, none), ("Resistor", "down", 8, some 0), ("Ground", "", 4, none)] ∧
    ((do let ps ← declarative C15_pi64 4
            [[("direction", .str "up"), ("type", .str "voltage_source"), ("name", .str "V1"), ("V", .num 5)],
             [("type", .str "resistor"), ("length", .num 2), ("R", .num 10), ("name", .str "R1"), ("direction", .str "down"),
              ("place_after", .str "V1")],
             [("type", .str "ground")]]
         circuitOf C15_pi64 C15_listOrder (C15_drawingOf ps [(⟨0, 0⟩, ⟨0, 4⟩), (⟨0, 4⟩, ⟨0, 0⟩), (⟨0, 0⟩, ⟨0, 0⟩)])).toOption.isSome = true) := by
  decide +kernel

/-! ## (3) keyword layouts with extra keys -/

/-- **Extra keywords do not reach the circuit**: a drawing element whose keyword list is a
layout `kw` followed by extra keywords `ex` (placement parameters `d`, `l`, `at`, … — any keys
the class and its ancestors do not read) is the same symbol as the element with `kw` alone, so a
drawing with such extras translates to the circuit of the drawing without them.  This is about
`construct` / translation only; that save ∘ load of a layout with extras *again* yields such a
layout (extras carried verbatim) is not proved here. -/
theorem C15_extra_keys_symbol (π : Rat) (cls : String) (c : ElemClass) (hc : classInfo cls = some c)
    (kw ex : List (String × Val)) (hex : ∀ k ∈ usedKeys c, ex.lookup k = none) (a b : Pt) :
    (⟨cls, kw ++ ex, a, b⟩ : DElem).toSym π = (⟨cls, kw, a, b⟩ : DElem).toSym π := by
  have : construct π cls (kw ++ ex) = construct π cls kw := by
    apply construct_congr π cls c hc
    intro k hk
    rw [List.lookup_append, hex k hk, Option.or_none]
  simp only [DElem.toSym, this]

/-- `x` is the element `y` with extra keywords (keys the class of `y` does not read) appended -/
def C15_ExtraOf (x y : DElem) : Prop :=
  ∃ c ex, classInfo y.cls = some c ∧ x = ⟨y.cls, y.kwargs ++ ex, y.start, y.stop⟩ ∧ ∀ k ∈ usedKeys c, ex.lookup k = none

/-- **A drawing with extra keywords translates to the circuit of the drawing without them**
(any layout for the base keywords — in particular the layouts of `C15_Canonical`, for which
`C15_roundtrip` / `C15_stable` then speak about that circuit).  Not proved: that `saveLoad` of
the drawing *with* extras succeeds with a drawing that is again of this form. -/
theorem C15_extra_keys_circuit (π : Rat) (ord : SetOrd Pt) (d d0 : List DElem) (h : List.Forall₂ C15_ExtraOf d d0) :
    instantiate π d = instantiate π d0 ∧ circuitOf π ord d = circuitOf π ord d0 := by
  have hi : instantiate π d = instantiate π d0 := by
    unfold instantiate
    induction h with
    | nil => rfl
    | @cons x y xs ys hxy _ ih =>
      obtain ⟨c, ex, hc, hx, hex⟩ := hxy
      have : x.toSym π = y.toSym π := by
        rw [hx]; exact C15_extra_keys_symbol π y.cls c hc y.kwargs ex hex y.start y.stop
      simp only [List.mapM_cons, this, ih]
  refine ⟨hi, ?_⟩
  unfold circuitOf
  rw [hi]

/-- non-vacuity: a resistor drawn `right` with length 7 at a point -/
example :
    ∃ c, classInfo "Resistor" = some c ∧
      ∀ k ∈ usedKeys c, ([("d", .str "right"), ("l", .num 7), ("at", .pt ⟨0, 0⟩)] : List (String × Val)).lookup k = none := by
  refine ⟨_, rfl, ?_⟩
  decide +kernel

end CC

