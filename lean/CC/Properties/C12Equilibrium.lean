/-
  C12 — equilibrium = DC solution (the algebraic core of "settling to DC").

  For a constant input `u`, a state `x*` with `A x* + B u = 0` (a rest point of `ẋ = A x + B u`) gives a
  report — read from `y = C x* + D u` — that solves the circuit equations of the DC (`s = 0`) network:
  capacitors carry no current, inductors no voltage, every source has its value `u`.  Instance of
  `C10_transfer` at `s = 0` (`0 • x* = A x* + B u`), equivalently of `C12_sample_circuit` with `ẋ = 0`.

  NOT proved here: that a trajectory *converges* to such a rest point (that is a statement about the
  spectrum of `A` and about the integrator; the settling clause stays with the oracle of
  harness/props/c12.py), nor that the rest point exists or is unique.
-/
import CC.Properties.C10
import CC.Properties.C12
namespace CC
open Matrix Mx StateAlg

section
variable {L K : Type} [DecidableEq L] [LabelOrd L] [Field K] [DecidableEq K]

/-- **Equilibrium is the DC solution.**  If `A x + B u = 0` then the report read from `y = C x + D u`
(sources at `u`, reactive sources at strength `ẋ = 0`) satisfies the circuit equations of the phasor
network at `s = 0` driven by `u`. -/
theorem C12_equilibrium_is_dc {N : Net L K} {cvals lvals : ValDict K} {Ainv S Delta : List (List K)}
    {m : SSMats K} (h : RLC N cvals lvals) (hD : ssDelta N cvals = .ok Delta)
    (hm : stateSpaceMatrices N cvals lvals Ainv S = .ok m)
    (hc : ModelCert id N cvals lvals Ainv S Delta)
    (x : Fin (ssNStates N cvals lvals) → K) (u : Fin (ssNInputs N lvals) → K)
    (hx : toM (ssNStates N cvals lvals) (ssNStates N cvals lvals) m.A *ᵥ x
            + toM (ssNStates N cvals lvals) (ssNInputs N lvals) m.B *ᵥ u = 0) :
    let y := toM N.nY (ssNStates N cvals lvals) m.C *ᵥ x + toM N.nY (ssNInputs N lvals) m.D *ᵥ u
    let P := sampleNet N cvals lvals (ssSources N lvals) (List.ofFn u)
      (List.ofFn (0 : Fin (ssNStates N cvals lvals) → K))
    CircuitEqs (phasorNet N cvals lvals (ssSources N lvals) (List.ofFn u) 0) (P.reportOf (List.ofFn y)) := by
  have h0 : (0 : K) • x = toM (ssNStates N cvals lvals) (ssNStates N cvals lvals) m.A *ᵥ x
      + toM (ssNStates N cvals lvals) (ssNInputs N lvals) m.B *ᵥ u := by rw [hx, zero_smul]
  have := C10_transfer h hD hm hc 0 x u h0
  simpa only [zero_smul] using this

/-- …and when the DC network is well-posed it is THE DC solution: it agrees with every solution of the
DC circuit equations (in particular the one the DC engine reports, C01/C02). -/
theorem C12_equilibrium_is_dc_unique {N : Net L K} {cvals lvals : ValDict K} {Ainv S Delta : List (List K)}
    {m : SSMats K} (h : RLC N cvals lvals) (hD : ssDelta N cvals = .ok Delta)
    (hm : stateSpaceMatrices N cvals lvals Ainv S = .ok m)
    (hc : ModelCert id N cvals lvals Ainv S Delta)
    (x : Fin (ssNStates N cvals lvals) → K) (u : Fin (ssNInputs N lvals) → K)
    (hx : toM (ssNStates N cvals lvals) (ssNStates N cvals lvals) m.A *ᵥ x
            + toM (ssNStates N cvals lvals) (ssNInputs N lvals) m.B *ᵥ u = 0)
    (hw : WellPosed (phasorNet N cvals lvals (ssSources N lvals) (List.ofFn u) 0))
    (R : Report L K) (hR : CircuitEqs (phasorNet N cvals lvals (ssSources N lvals) (List.ofFn u) 0) R) :
    let y := toM N.nY (ssNStates N cvals lvals) m.C *ᵥ x + toM N.nY (ssNInputs N lvals) m.D *ᵥ u
    let P := sampleNet N cvals lvals (ssSources N lvals) (List.ofFn u)
      (List.ofFn (0 : Fin (ssNStates N cvals lvals) → K))
    (P.reportOf (List.ofFn y)).AgreeOn (phasorNet N cvals lvals (ssSources N lvals) (List.ofFn u) 0) R := by
  have h0 : (0 : K) • x = toM (ssNStates N cvals lvals) (ssNStates N cvals lvals) m.A *ᵥ x
      + toM (ssNStates N cvals lvals) (ssNInputs N lvals) m.B *ᵥ u := by rw [hx, zero_smul]
  have := C10_transfer_unique h hD hm hc 0 x u h0 hw R hR
  simpa only [zero_smul] using this

/-- non-vacuity: the structural hypotheses hold for the series circuit `V – R – C` of CC/Properties/C10.lean
(`netRC_rlc`, `netRC_Delta`, `netRC_cert`, matrices exist), and the rest-point hypothesis is met there by the
rest state under zero input (for a non-zero constant input the rest point is `x* = −A⁻¹ B u` whenever `A`
is invertible — existence is not claimed by the theorems). -/
example : ∃ m, RLC netRC [("C", 1)] [] ∧ ssDelta netRC [("C", 1)] = .ok [[0, 1, 0]]
    ∧ stateSpaceMatrices netRC [("C", 1)] [] rcAinv rcS = .ok m
    ∧ ModelCert id netRC [("C", 1)] [] rcAinv rcS [[0, 1, 0]]
    ∧ toM (ssNStates netRC [("C", 1)] []) (ssNStates netRC [("C", 1)] []) m.A *ᵥ (0 : Fin _ → ℚ)
        + toM (ssNStates netRC [("C", 1)] []) (ssNInputs netRC []) m.B *ᵥ (0 : Fin _ → ℚ) = 0 := by
  have hm : ∃ m, stateSpaceMatrices netRC [("C", 1)] [] rcAinv rcS = .ok m := by
    simp [stateSpaceMatrices, netRC_Delta, netRC_colsL, bind, Except.bind, pure, Except.pure]
  obtain ⟨m, hm⟩ := hm
  exact ⟨m, netRC_rlc, netRC_Delta, hm, netRC_cert, by simp⟩

end
end CC
