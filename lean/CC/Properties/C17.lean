/-
  C17 — loading describes exactly what was written, without side effects.

  Spec:   CC/Spec/Load.lean   (notations, documented kinds and their meaning, documents)
  Model:  CC/Model/Load.lean  (mirrors loaders.py / dump_load.py / Circuit/dump_load.py as they
          are; tables generated into CC/Gen/LoadTables.lean on every run)

  The current code violates four clauses of the property; per DESIGN §3.4 each full statement
  stays visible as a `def …_statement : Prop`, its negation is proved with a concrete witness
  (`…_counterexample`), and the strongest true restriction is proved (`…_partial`).
-/
import CC.Model.Load
import CC.Spec.Load
import CC.Proofs.LoadLemmas
namespace CC
open CC.Load CC.Gen.Load CC.Spec.Load

/-! ## Complex notations -/

/-- Both notations are read as the number they denote (no degree option). -/
theorem C17_polar_cartesian (T : Trig) (n : CxNote) :
    (toComplex T n.tree false).1 = .ok (n.denote T) := by
  cases n <;>
    simp [CxNote.tree, CxNote.denote, toComplex, cartesian?, polar?, pyComplex, J.asCx, Obj.find,
      cart_value, polar_value]

/-- …hence polar notation and the Cartesian notation of the same number load equally. -/
theorem C17_polar_eq_cartesian (T : Trig) (r p : Rat) :
    (toComplex T (CxNote.polar r p).tree false).1
      = (toComplex T (CxNote.cart (r * T.cos p) (r * T.sin p)).tree false).1 := by
  rw [C17_polar_cartesian, C17_polar_cartesian]; rfl

/-- The degree option is the radian reading at `φ·π/180` (`T.rad` is that product as the
library computes it). -/
theorem C17_degree_radian (T : Trig) (r p : Rat) :
    (toComplex T (CxNote.polar r p).tree true).1
      = (toComplex T (CxNote.polar r (T.rad p)).tree false).1 := by
  simp [CxNote.tree, toComplex, cartesian?, polar?, pyComplex, J.asCx, Obj.find, Obj.put]

/-- The generic conversion of dump_load.py reads the three documented notations as the
same numbers (`abs ≥ 0` is what that function demands). -/
theorem C17_undictify_notations (T : Trig) (a b r p : Rat) (hr : ¬ r < 0) :
    undictifyValue T (CxNote.cart a b).tree = .ok (some (.cx ⟨a, b⟩)) ∧
    undictifyValue T (CxNote.polar r p).tree = .ok (some (.cx ((CxNote.polar r p).denote T))) ∧
    undictifyValue T (.obj [("abs", .num r), ("phase_deg", .num p)])
      = undictifyValue T (CxNote.polar r (T.deg2rad p)).tree := by
  refine ⟨?_, ?_, ?_⟩ <;>
    simp [CxNote.tree, CxNote.denote, undictifyValue, Obj.keysAre, Obj.has, Obj.find, pyComplex, J.asCx,
      absFactor, hr, cart_value, polar_value]

/-! ## Every documented kind loads into exactly what was written -/

/-- Full statement: *every* valid description over the documented kinds loads into the
intended branches.  False of the current code (`C17_faithful_counterexample`). -/
def C17_faithful_statement : Prop :=
  ∀ (T : Trig) (ps : List Placed), ValidDescription ps →
    (loadNetwork T (.arr (ps.map Placed.tree))).1 = .ok (ps.map (Placed.intended T))

/-- what `entry_to_branch` leaves of the caller's entry: the value fields and a new key -/
def Spec.Load.Placed.leftover (p : Placed) : J := .obj (p.e.fields ++ [("name", .str p.id)])

/-- unfold the loader model on a concrete entry -/
macro "load_simp" : tactic => `(tactic|
  simp [Placed.tree, Placed.intended, Placed.leftover, NetEntry.tree, NetEntry.intended, NetEntry.fields, NetEntry.kind,
    optField, CxNote.tree, CxNote.denote,
    entryToBranch, entryToBranchObj, entryRead, entryReads, entryCopied, Obj.read, Obj.find, Obj.del, Obj.put,
    networkBranchTranslators, applyLoader, elementFactories, evalCxArgs, toComplex, cartesian?, polar?, pyComplex, J.asCx,
    translateToComplex, callElemFactory, bindArgs, bindParams, dupKeys, Obj.has, Src.eval, cart_value, polar_value])

/-- one entry of any documented kind but `admittance`: the branch is the intended one —
and the entry has lost `type`, `id`, `N1`, `N2` and gained `name` -/
theorem Load.entryToBranch_faithful (T : Trig) (p : Placed) (hk : p.e.kind ≠ "admittance") :
    entryToBranch T p.tree = (.ok (p.intended T), p.leftover) := by
  obtain ⟨e, id, n1, n2⟩ := p
  cases e with
  | admittance Y => exact absurd rfl hk
  | resistor R => load_simp
  | conductor G => load_simp
  | impedance Z => cases Z <;> load_simp
  | linearCurrentSource I Y => cases I <;> cases Y <;> load_simp
  | currentSource I => cases I <;> load_simp
  | realCurrentSource I Y => cases Y <;> load_simp
  | linearVoltageSource V Z => cases V <;> cases Z <;> load_simp
  | voltageSource V => cases V <;> load_simp
  | realVoltageSource V Z => cases Z <;> load_simp
  | shortCircuit => load_simp
  | openCircuit => load_simp

theorem Load.intended_n1 (T : Trig) (p : Placed) : (p.intended T).n1 = .str p.n1 := by
  obtain ⟨e, id, n1, n2⟩ := p; cases e <;> rfl
theorem Load.intended_n2 (T : Trig) (p : Placed) : (p.intended T).n2 = .str p.n2 := by
  obtain ⟨e, id, n1, n2⟩ := p; cases e <;> rfl
theorem Load.intended_name (T : Trig) (p : Placed) : (p.intended T).name = .str p.id := by
  obtain ⟨e, id, n1, n2⟩ := p; cases e <;> rfl

theorem Load.loadEntries_faithful (T : Trig) (ps : List Placed) (hk : ∀ p ∈ ps, p.e.kind ≠ "admittance") :
    loadEntries T (ps.map Placed.tree) = (.ok (ps.map (Placed.intended T)), ps.map Placed.leftover) := by
  induction ps with
  | nil => simp [loadEntries]
  | cons p r ih =>
    have h1 := entryToBranch_faithful T p (hk p (by simp))
    have h2 := ih (fun q hq => hk q (by simp [hq]))
    simp [loadEntries, h1, h2]

theorem Load.checkLoaded_valid (T : Trig) (ps : List Placed) (hv : ValidDescription ps) :
    checkLoaded (ps.map (Placed.intended T)) = .ok (ps.map (Placed.intended T)) := by
  obtain ⟨hg, hid⟩ := hv
  have hnames : (ps.map (Placed.intended T)).map (·.name) = ps.map (fun p => J.str p.id) := by
    simp [List.map_map, Function.comp_def, intended_name]
  have hlen : (dedupL ((ps.map (Placed.intended T)).map (·.name))).length = (ps.map (Placed.intended T)).length := by
    rw [hnames, hid, List.length_map]
  have hground : (!(ps.map (Placed.intended T)).isEmpty &&
      !((ps.map (Placed.intended T)).any fun b => b.n1 == J.str "0" || b.n2 == J.str "0")) = false := by
    rcases hg with rfl | ⟨p, hp, h0⟩
    · simp
    · have : ((ps.map (Placed.intended T)).any fun b => b.n1 == J.str "0" || b.n2 == J.str "0") = true := by
        simp only [List.any_map, List.any_eq_true]
        refine ⟨p, hp, ?_⟩
        simp only [Function.comp, intended_n1, intended_n2]
        rcases h0 with h | h <;> simp [h]
      simp [this]
  unfold checkLoaded
  simp only [hground, hlen]
  simp

/-- **C17_faithful (restriction).**  Every valid description — any number of entries, every
documented kind except `admittance`, every identifier, terminals and value, complex values
in either notation — loads into exactly the intended branches, in order. -/
theorem C17_faithful_partial (T : Trig) (ps : List Placed) (hv : ValidDescription ps)
    (hk : ∀ p ∈ ps, p.e.kind ≠ "admittance") :
    (loadNetwork T (.arr (ps.map Placed.tree))).1 = .ok (ps.map (Placed.intended T)) := by
  simp [loadNetwork, loadEntries_faithful T ps hk, checkLoaded_valid T ps hv]

/-- non-vacuity: a two-entry description with a polar impedance meets the hypotheses -/
example : ValidDescription [⟨.impedance (.polar 2 (1/2)), "Z", "0", "1"⟩, ⟨.resistor (.num 5), "R1", "1", "0"⟩] := by
  refine ⟨Or.inr ⟨_, List.mem_cons_self .., Or.inl rfl⟩, by decide⟩

/-- Every admittance entry, whatever its value, identifier and terminals: `TypeError`. -/
theorem C17_admittance_always_fails (T : Trig) (Y : CxNote) (id n1 n2 : String) :
    (loadNetwork T (.arr [(NetEntry.admittance Y).tree id n1 n2])).1 = .error .typeError := by
  cases Y <;>
  simp [loadNetwork, loadEntries, mapLoadErr, loadCaught, errOfName, NetEntry.tree, NetEntry.fields, NetEntry.kind,
    CxNote.tree, entryToBranch, entryToBranchObj, entryRead, entryReads, entryCopied, Obj.read, Obj.find, Obj.del, Obj.put,
    networkBranchTranslators, applyLoader, elementFactories, evalCxArgs, toComplex, cartesian?, polar?, pyComplex, J.asCx,
    translateToComplex, callElemFactory, bindArgs, bindParams, dupKeys, Obj.has]

/-- The `admittance` kind never loads: the table entry reads `Y` with `kwargs['Y']` and then
forwards `**kwargs`, so the factory receives `Y` twice (`TypeError`). -/
theorem C17_faithful_counterexample : ¬ C17_faithful_statement := by
  intro h
  have h1 := h ⟨fun _ => 1, fun _ => 0, fun _ => 0, fun _ => 0⟩ [⟨.admittance (.cart 1 2), "Y1", "1", "0"⟩]
    ⟨Or.inr ⟨_, List.mem_cons_self .., Or.inr rfl⟩, by decide⟩
  have h2 := C17_admittance_always_fails ⟨fun _ => 1, fun _ => 0, fun _ => 0, fun _ => 0⟩ (.cart 1 2) "Y1" "1" "0"
  simp only [List.map, Placed.tree] at h1
  rw [h2] at h1
  cases h1


/-! ## The generated tables -/

/-- `"K" : elm.f` / `lambda **kwargs: elm.f(P=to_complex(<read K>), …, **kwargs)` is a well-formed
entry when `f` is a factory whose first parameter is `name`, every explicit keyword and every
translated key is a parameter of `f`, and no explicit keyword is forwarded a second time
through `**kwargs` (a key equal to its parameter must be read with `pop`). -/
def Load.NetLoader.wellFormed (L : NetLoader) : Bool :=
  match elementFactories.find? (fun f => f.name == L.factory) with
  | none => false
  | some f =>
    (f.params.head?.map (·.1) == some "name") &&
    L.cxArgs.all (fun (p, k, how) => f.params.any (·.1 == p) && (how == .pop || p != k)) &&
    L.translateKeys.all (fun k => f.params.any (·.1 == k))

/-- Every documented kind has a loader and every loader is a documented kind (generated
table, checked by evaluation). -/
theorem C17_table_total :
    (documentedKinds.all fun k => networkBranchTranslators.any (·.kind == k)) = true ∧
    (networkBranchTranslators.all fun L => documentedKinds.contains L.kind) = true ∧
    (networkBranchTranslators.map (·.kind)).Nodup := by
  decide

def C17_table_wellformed_statement : Prop :=
  ∀ L ∈ networkBranchTranslators, L.wellFormed = true

/-- Every entry but `admittance` passes keyword names that match its factory. -/
theorem C17_table_wellformed_partial :
    ∀ L ∈ networkBranchTranslators, L.kind ≠ "admittance" → L.wellFormed = true := by
  decide

theorem C17_table_wellformed_counterexample : ¬ C17_table_wellformed_statement := by
  unfold C17_table_wellformed_statement
  decide

/-- The circuit table: documented kinds = table kinds, every kind is built by the
constructor of the same kind, which exists. -/
theorem C17_circuit_table_total :
    (documentedComponentKinds.all fun k => circuitComponentTranslators.any (·.1 == k)) = true ∧
    (circuitComponentTranslators.all fun p => documentedComponentKinds.contains p.1) = true ∧
    (circuitComponentTranslators.all fun p =>
      componentFactories.any fun f => f.name == p.2 && f.kind == p.1) = true := by
  decide

/-! ## Loading never mutates the description -/

def C17_pure_statement : Prop :=
  (∀ (T : Trig) (d : J), (loadNetwork T d).2 = d) ∧ (∀ (T : Trig) (z : J) (deg : Bool), (toComplex T z deg).2 = z)

/-- Without the degree option `to_complex` leaves its argument alone — for every value. -/
theorem C17_toComplex_pure_partial (T : Trig) (z : J) : (toComplex T z false).2 = z := by
  unfold toComplex
  cases z <;> simp
  split <;> simp

/-- With the degree option the caller's `phase` is overwritten by `phase·π/180`. -/
theorem C17_toComplex_pure_counterexample (T : Trig) (r p : Rat) (h : T.rad p ≠ p) :
    (toComplex T (CxNote.polar r p).tree true).2 = (CxNote.polar r (T.rad p)).tree ∧
    (toComplex T (CxNote.polar r p).tree true).2 ≠ (CxNote.polar r p).tree := by
  have h1 : (toComplex T (CxNote.polar r p).tree true).2 = (CxNote.polar r (T.rad p)).tree := by
    simp [CxNote.tree, toComplex, cartesian?, pyComplex, J.asCx, Obj.find, Obj.put, degreeInPlace]
  refine ⟨h1, ?_⟩
  rw [h1]
  simp [CxNote.tree, h]

/-- What a successful load does to the caller's description, exactly: every entry loses
`type`, `id`, `N1`, `N2`, gains `name`, and keeps its value fields untouched. -/
theorem C17_mutation_exact (T : Trig) (ps : List Placed) (hk : ∀ p ∈ ps, p.e.kind ≠ "admittance") :
    (loadNetwork T (.arr (ps.map Placed.tree))).2 = .arr (ps.map Placed.leftover) := by
  simp only [loadNetwork, loadEntries_faithful T ps hk]

theorem Load.leftover_ne_tree (p : Placed) : p.leftover ≠ p.tree := by
  obtain ⟨e, id, n1, n2⟩ := p
  intro h
  have := congrArg (fun t => match t with | J.obj o => Obj.find o "N1" | _ => none) h
  cases e with
  | realCurrentSource I Y =>
    cases Y <;> simp [Placed.leftover, Placed.tree, NetEntry.tree, NetEntry.fields, optField, Obj.find] at this
  | realVoltageSource V Z =>
    cases Z <;> simp [Placed.leftover, Placed.tree, NetEntry.tree, NetEntry.fields, optField, Obj.find] at this
  | _ => simp [Placed.leftover, Placed.tree, NetEntry.tree, NetEntry.fields, optField, Obj.find] at this

/-- Every non-empty description (over the loadable kinds) is changed by loading it. -/
theorem C17_pure_counterexample : ¬ C17_pure_statement := by
  intro ⟨h, _⟩
  let T : Trig := ⟨fun _ => 1, fun _ => 0, fun _ => 0, fun _ => 0⟩
  have h1 := h T (.arr ([⟨.resistor (.num 10), "R1", "1", "0"⟩].map Placed.tree))
  rw [C17_mutation_exact T _ (by decide)] at h1
  simp only [List.map, J.arr.injEq, List.cons.injEq, and_true] at h1
  exact leftover_ne_tree _ h1

/-- The strongest purity that does hold: the empty description, `to_complex` without the
degree option, and the circuit loader (which works on a copy). -/
theorem C17_pure_partial (T : Trig) :
    (loadNetwork T (.arr [])).2 = .arr [] ∧
    (∀ z, (toComplex T z false).2 = z) ∧
    (∀ c, (generateComponent c).2 = c) := by
  refine ⟨by simp [loadNetwork, loadEntries, checkLoaded], C17_toComplex_pure_partial T, ?_⟩
  intro c
  cases c <;> simp [generateComponent, componentCopied]

/-! ## Loading the same object twice -/

def C17_idempotent_statement : Prop :=
  ∀ (T : Trig) (d : J), (loadNetwork T (loadNetwork T d).2).1 = (loadNetwork T d).1

theorem Load.entryToBranch_leftover (T : Trig) (p : Placed) :
    (entryToBranch T p.leftover).1 = .error .keyError := by
  obtain ⟨e, id, n1, n2⟩ := p
  cases e with
  | realCurrentSource I Y => cases Y <;> load_simp
  | realVoltageSource V Z => cases Z <;> load_simp
  | _ => load_simp

/-- After any successful load of a non-empty description, loading the *same object* again
raises `FileExistsError`: the first load consumed `N1`. -/
theorem C17_second_load_fails (T : Trig) (ps : List Placed) (hne : ps ≠ [])
    (hk : ∀ p ∈ ps, p.e.kind ≠ "admittance") :
    (loadNetwork T (loadNetwork T (.arr (ps.map Placed.tree))).2).1 = .error .fileExists := by
  rw [C17_mutation_exact T ps hk]
  cases ps with
  | nil => exact absurd rfl hne
  | cons p r =>
    have h := entryToBranch_leftover T p
    simp only [List.map, loadNetwork, loadEntries]
    generalize entryToBranch T p.leftover = x at h
    obtain ⟨x1, x2⟩ := x
    simp only at h
    subst h
    simp [mapLoadErr, loadCaught, loadRaised, errOfName]

theorem C17_idempotent_counterexample : ¬ C17_idempotent_statement := by
  intro h
  let T : Trig := ⟨fun _ => 1, fun _ => 0, fun _ => 0, fun _ => 0⟩
  let ps : List Placed := [⟨.resistor (.num 10), "R1", "1", "0"⟩]
  have h1 := h T (.arr (ps.map Placed.tree))
  rw [C17_second_load_fails T ps (by decide) (by decide),
      C17_faithful_partial T ps ⟨Or.inr ⟨_, List.mem_cons_self .., Or.inr rfl⟩, by decide⟩ (by decide)] at h1
  cases h1

/-! ## The circuit loader works on a copy -/

theorem Load.genComponents_post (l : List J) : (genComponents l).2 = l := by
  induction l with
  | nil => simp [genComponents]
  | cons e r ih =>
    have he : (generateComponent e).2 = e := by cases e <;> simp [generateComponent, componentCopied]
    unfold genComponents
    generalize hg : generateComponent e = g at he
    obtain ⟨g1, g2⟩ := g
    simp only at he; subst he
    cases g1 with
    | error x => simp
    | ok c =>
      generalize hr : genComponents r = q at ih
      obtain ⟨q1, q2⟩ := q
      simp only at ih; subst ih
      cases q1 <;> simp

/-- `generate_component` and `undictify_circuit` leave their argument as it was. -/
theorem C17_circuit_pure (c : J) : (generateComponent c).2 = c ∧ (undictifyCircuit c).2 = c := by
  refine ⟨by cases c <;> simp [generateComponent, componentCopied], ?_⟩
  cases c with
  | obj o =>
    unfold undictifyCircuit
    cases hf : Obj.find o "components" with
    | none => simp only [hf]
    | some v =>
      cases v with
      | arr l =>
        simp only [hf]
        have hp := genComponents_post l
        generalize genComponents l = q at hp
        obtain ⟨q1, q2⟩ := q
        simp only at hp; subst hp
        cases q1 <;> simp [Obj.put_same o "components" _ hf]
      | obj kv => simp only [hf]; cases kv <;> simp
      | str s => simp only [hf]; split <;> simp
      | null => simp only [hf]
      | bool b => simp only [hf]
      | num q => simp only [hf]
      | cx z => simp only [hf]
  | _ => simp [undictifyCircuit]

/-- …hence loading the same circuit description object twice gives equal results. -/
theorem C17_circuit_idempotent (c : J) :
    (undictifyCircuit (undictifyCircuit c).2).1 = (undictifyCircuit c).1 ∧
    (generateComponent (generateComponent c).2).1 = (generateComponent c).1 := by
  rw [(C17_circuit_pure c).1, (C17_circuit_pure c).2]; exact ⟨rfl, rfl⟩

/-! ## Round trips through `dump_load` -/

theorem Load.dictifyAllItems_id : (o : List (String × J)) → dictifyAllItems o = o
  | [] => by simp [dictifyAllItems]
  | (k, .obj o') :: r => by simp [dictifyAllItems, dictifyAllItems_id o', dictifyAllItems_id r]
  | (k, .null) :: r => by simp [dictifyAllItems, dictifyAllItems_id r]
  | (k, .bool _) :: r => by simp [dictifyAllItems, dictifyAllItems_id r]
  | (k, .num _) :: r => by simp [dictifyAllItems, dictifyAllItems_id r]
  | (k, .str _) :: r => by simp [dictifyAllItems, dictifyAllItems_id r]
  | (k, .cx _) :: r => by simp [dictifyAllItems, dictifyAllItems_id r]
  | (k, .arr _) :: r => by simp [dictifyAllItems, dictifyAllItems_id r]

/-- `dictify_all_complex_values` is the identity on every dictionary: it never converts a
complex value, at any depth (it also never changes its argument). -/
theorem C17_dictifyAll_identity (o : Obj) : dictifyAll (.obj o) = (none, .obj o) := by
  simp [dictifyAll, dictifyAllItems_id]

/-- Full statement (tree level): preparing a document for serialisation yields a plain tree
from which the inverse conversion recovers the document — for every document that does not
itself contain a dictionary looking like a complex notation. -/
def C17_roundtrip_statement : Prop :=
  ∀ (T : Trig) (o : Obj), InertO o = true →
    Plain (dictifyAll (.obj o)).2 = true ∧ undictifyAll T (dictifyAll (.obj o)).2 = (none, .obj o)

theorem C17_roundtrip_counterexample : ¬ C17_roundtrip_statement := by
  intro h
  have := (h ⟨fun _ => 1, fun _ => 0, fun _ => 0, fun _ => 0⟩ [("a", .cx ⟨1, 2⟩)] (by simp [InertO])).1
  rw [C17_dictifyAll_identity] at this
  simp [Plain, PlainO] at this

/-- What reaches the library serialiser is the caller's document itself, complex leaves
included (`json.dumps` then raises `TypeError`; `yaml.dump` emits a `!!python/complex` tag
that `yaml.safe_load` refuses). -/
theorem C17_serialize_passes_complex (dumps : String → J → Except Err String) (o : Obj) (fmt lib : String)
    (hf : serializers.find? (fun p => p.1 == fmt) = some (fmt, lib)) :
    (serialize dumps (.obj o) fmt).1 = dumps lib (.obj o) := by
  simp [serialize, hf, C17_dictifyAll_identity]

theorem Load.undictifyValue_inert (T : Trig) (o : Obj) (h : cxLike o = false) :
    undictifyValue T (.obj o) = .ok none := by
  simp only [cxLike, Bool.or_eq_false_iff] at h
  simp [undictifyValue, h.1.1, h.1.2, h.2]

theorem Load.undictifyCx_inert (T : Trig) : (o : List (String × J)) → InertO o = true → undictifyCx T o = (none, o)
  | [], _ => by simp [undictifyCx]
  | (k, .obj o') :: r, h => by
    simp only [InertO, Bool.and_eq_true, Bool.not_eq_true'] at h
    simp [undictifyCx, undictifyValue_inert T o' h.1.1, undictifyCx_inert T r h.2]
  | (k, .arr l) :: r, h => by
    simp only [InertO, Bool.and_eq_true] at h
    simp [undictifyCx, undictifyValue, undictifyCx_inert T r h.2]
  | (k, .null) :: r, h => by
    simp only [InertO] at h; simp [undictifyCx, undictifyValue, undictifyCx_inert T r h]
  | (k, .bool _) :: r, h => by
    simp only [InertO] at h; simp [undictifyCx, undictifyValue, undictifyCx_inert T r h]
  | (k, .num _) :: r, h => by
    simp only [InertO] at h; simp [undictifyCx, undictifyValue, undictifyCx_inert T r h]
  | (k, .str _) :: r, h => by
    simp only [InertO] at h; simp [undictifyCx, undictifyValue, undictifyCx_inert T r h]
  | (k, .cx _) :: r, h => by
    simp only [InertO] at h; simp [undictifyCx, undictifyValue, undictifyCx_inert T r h]

mutual
theorem Load.undictifyAllItems_inert (T : Trig) :
    (o : List (String × J)) → InertO o = true → undictifyAllItems T o = (none, o)
  | [], _ => by simp [undictifyAllItems]
  | (k, .obj o') :: r, h => by
    simp only [InertO, Bool.and_eq_true, Bool.not_eq_true'] at h
    simp [undictifyAllItems, undictifyFinish, undictifyAllItems_inert T o' h.1.2, undictifyCx_inert T o' h.1.2,
      undictifyAllItems_inert T r h.2]
  | (k, .arr l) :: r, h => by
    simp only [InertO, Bool.and_eq_true] at h
    simp [undictifyAllItems, undictifyAllElems_inert T l h.1, undictifyAllItems_inert T r h.2]
  | (k, .null) :: r, h => by
    simp only [InertO] at h; simp [undictifyAllItems, undictifyAllItems_inert T r h]
  | (k, .bool _) :: r, h => by
    simp only [InertO] at h; simp [undictifyAllItems, undictifyAllItems_inert T r h]
  | (k, .num _) :: r, h => by
    simp only [InertO] at h; simp [undictifyAllItems, undictifyAllItems_inert T r h]
  | (k, .str _) :: r, h => by
    simp only [InertO] at h; simp [undictifyAllItems, undictifyAllItems_inert T r h]
  | (k, .cx _) :: r, h => by
    simp only [InertO] at h; simp [undictifyAllItems, undictifyAllItems_inert T r h]
theorem Load.undictifyAllElems_inert (T : Trig) :
    (l : List J) → InertL l = true → undictifyAllElems T l = (none, l)
  | [], _ => by simp [undictifyAllElems]
  | .obj o :: r, h => by
    simp only [InertL, Bool.and_eq_true] at h
    simp [undictifyAllElems, undictifyFinish, undictifyAllItems_inert T o h.1, undictifyCx_inert T o h.1,
      undictifyAllElems_inert T r h.2]
  | .null :: _, h => by simp [InertL] at h
  | .bool _ :: _, h => by simp [InertL] at h
  | .num _ :: _, h => by simp [InertL] at h
  | .str _ :: _, h => by simp [InertL] at h
  | .cx _ :: _, h => by simp [InertL] at h
  | .arr _ :: _, h => by simp [InertL] at h
end

theorem Load.undictifyAll_inert (T : Trig) (o : Obj) (h : InertO o = true) : undictifyAll T (.obj o) = (none, .obj o) := by
  simp [undictifyAll, undictifyAllObj, undictifyFinish, undictifyAllItems_inert T o h, undictifyCx_inert T o h]

/-- **C17_roundtrip (restriction).**  For every format of the table, every (de)serialiser that
is lossless on plain trees, and every document — nested to any depth — that is plain (no
complex leaf), whose lists contain only dictionaries and in which no dictionary value looks
like a complex notation: what `serialize` writes, `deserialize` reads back unchanged. -/
theorem C17_roundtrip_partial (T : Trig) (dumps : String → J → Except Err String)
    (loads : String → String → Except Err J)
    (hcodec : ∀ (ld ll : String) (t : J) (s : String), Plain t = true → dumps ld t = .ok s → loads ll s = .ok t)
    (o : Obj) (hp : PlainO o = true) (hi : InertO o = true) (fmt s : String)
    (hfmt : fmt = "json" ∨ fmt = "yaml" ∨ fmt = "yml")
    (hs : (serialize dumps (.obj o) fmt).1 = .ok s) :
    deserialize loads T s fmt = .ok (.obj o) := by
  have hplain : Plain (.obj o) = true := by simp [Plain, hp]
  rcases hfmt with rfl | rfl | rfl <;>
  · simp only [serialize, serializers, deserializers, deserialize, List.find?, C17_dictifyAll_identity] at hs ⊢
    simp at hs ⊢
    rw [hcodec _ _ _ _ hplain hs]
    simp [undictifyAll_inert T o hi]

/-- non-vacuity: a nested document with a list of dictionaries meets the hypotheses -/
example : PlainO [("a", .num 1), ("l", .arr [.obj [("b", .str "x")]]), ("d", .obj [("real", .num 2)])] = true ∧
    InertO [("a", .num 1), ("l", .arr [.obj [("b", .str "x")]]), ("d", .obj [("real", .num 2)])] = true := by
  simp [PlainO, Plain, PlainL, InertO, InertL, cxLike, Obj.keysAre, Obj.has, Obj.find]

/-- A list of scalars — e.g. the `nodes` of a component — stops the conversion with
`AttributeError` (`.items()` is called on every list element). -/
theorem C17_undictify_scalar_list_counterexample (T : Trig) :
    (undictifyAll T (.obj [("nodes", .arr [.str "0", .str "1"])])).1 = some .attributeError := by
  simp [undictifyAll, undictifyAllObj, undictifyFinish, undictifyAllItems, undictifyAllElems]

/-- The circuit loader does not convert complex notations: a complex impedance written as
`{"real": 1, "imag": 2}` reaches `ccp.impedance`, whose `Z.real` raises `AttributeError`. -/
theorem C17_circuit_complex_counterexample :
    (generateComponent (.obj [("type", .str "impedance"), ("id", .str "Z1"), ("nodes", .arr [.str "0", .str "1"]),
      ("value", .obj [("Z", (CxNote.cart 1 2).tree)])])).1 = .error .attributeError := by
  simp [generateComponent, generateComponentObj, compRead, componentReads, Obj.read, Obj.find, Obj.del, circuitComponentTranslators,
    componentFactories, callCompFactory, Obj.has, bindArgs, bindParams, dupKeys, runGuards, buildValue, VSrc.eval, CxNote.tree]

/-! ## The proposed repair of `dictify_all` / `undictify_all` (not the current code)

The patch proposed in notes/load.md makes both conversions recurse through dictionaries *and*
lists, convert at every depth, and build new containers.  The theorem below is the round-trip
statement for that repaired pair — every tree, any nesting — so the proposal is known to meet
the property before anybody writes it in Python. -/

namespace Load.Repair

mutual
def dictify : J → J
  | .cx z => .obj [("real", .num z.re), ("imag", .num z.im)]
  | .obj o => .obj (dictifyO o)
  | .arr l => .arr (dictifyL l)
  | t => t
def dictifyO : List (String × J) → List (String × J)
  | [] => []
  | (k, v) :: r => (k, dictify v) :: dictifyO r
def dictifyL : List J → List J
  | [] => []
  | a :: r => dictify a :: dictifyL r
end

mutual
def undictify (T : Trig) : J → J
  | .obj o =>
    match undictifyValue T (.obj (undictifyO T o)) with
    | .ok (some c) => c
    | _ => .obj (undictifyO T o)
  | .arr l => .arr (undictifyL T l)
  | t => t
def undictifyO (T : Trig) : List (String × J) → List (String × J)
  | [] => []
  | (k, v) :: r => (k, undictify T v) :: undictifyO T r
def undictifyL (T : Trig) : List J → List J
  | [] => []
  | a :: r => undictify T a :: undictifyL T r
end

mutual
/-- no dictionary anywhere in the tree looks like a complex notation (such a document is
ambiguous by design and excluded from the property) -/
def Unambiguous : J → Bool
  | .obj o => !cxLike o && UnambiguousO o
  | .arr l => UnambiguousL l
  | _ => true
def UnambiguousO : List (String × J) → Bool
  | [] => true
  | (_, v) :: r => Unambiguous v && UnambiguousO r
def UnambiguousL : List J → Bool
  | [] => true
  | a :: r => Unambiguous a && UnambiguousL r
end

mutual
theorem roundtrip (T : Trig) : (t : J) → Unambiguous t = true → undictify T (dictify t) = t
  | .cx z, _ => by
    cases z
    simp [dictify, undictify, undictifyO, undictifyValue, Obj.keysAre, Obj.has, Obj.find, pyComplex, J.asCx, cart_value]
  | .obj o, h => by
    simp only [Unambiguous, Bool.and_eq_true, Bool.not_eq_true'] at h
    simp [dictify, undictify, roundtripO T o h.2, undictifyValue_inert T o h.1]
  | .arr l, h => by
    simp only [Unambiguous] at h
    simp [dictify, undictify, roundtripL T l h]
  | .null, _ => by simp [dictify, undictify]
  | .bool _, _ => by simp [dictify, undictify]
  | .num _, _ => by simp [dictify, undictify]
  | .str _, _ => by simp [dictify, undictify]
theorem roundtripO (T : Trig) : (o : List (String × J)) → UnambiguousO o = true → undictifyO T (dictifyO o) = o
  | [], _ => by simp [dictifyO, undictifyO]
  | (k, v) :: r, h => by
    simp only [UnambiguousO, Bool.and_eq_true] at h
    simp [dictifyO, undictifyO, roundtrip T v h.1, roundtripO T r h.2]
theorem roundtripL (T : Trig) : (l : List J) → UnambiguousL l = true → undictifyL T (dictifyL l) = l
  | [], _ => by simp [dictifyL, undictifyL]
  | a :: r, h => by
    simp only [UnambiguousL, Bool.and_eq_true] at h
    simp [dictifyL, undictifyL, roundtrip T a h.1, roundtripL T r h.2]
end

mutual
theorem dictify_plain : (t : J) → Plain (dictify t) = true
  | .cx _ => by simp [dictify, Plain, PlainO]
  | .obj o => by simp [dictify, Plain, dictifyO_plain o]
  | .arr l => by simp [dictify, Plain, dictifyL_plain l]
  | .null => by simp [dictify, Plain]
  | .bool _ => by simp [dictify, Plain]
  | .num _ => by simp [dictify, Plain]
  | .str _ => by simp [dictify, Plain]
theorem dictifyO_plain : (o : List (String × J)) → PlainO (dictifyO o) = true
  | [] => by simp [dictifyO, PlainO]
  | (k, v) :: r => by simp [dictifyO, PlainO, dictify_plain v, dictifyO_plain r]
theorem dictifyL_plain : (l : List J) → PlainL (dictifyL l) = true
  | [] => by simp [dictifyL, PlainL]
  | a :: r => by simp [dictifyL, PlainL, dictify_plain a, dictifyL_plain r]
end

end Load.Repair

/-- **C17_roundtrip for the proposed repair**: for every unambiguous tree — complex leaves
anywhere, in dictionaries and in lists, scalars in lists, any depth — the repaired `dictify`
yields a plain tree (so any lossless serialiser carries it) and the repaired `undictify`
recovers the tree exactly. -/
theorem C17_roundtrip_repaired (T : Trig) (t : J) (h : Load.Repair.Unambiguous t = true) :
    Plain (Load.Repair.dictify t) = true ∧ Load.Repair.undictify T (Load.Repair.dictify t) = t :=
  ⟨Load.Repair.dictify_plain t, Load.Repair.roundtrip T t h⟩

end CC
