/-
  C17 — loading describes exactly what was written, without side effects.

  Spec:   CC/Spec/Load.lean   (notations, documented kinds and their meaning, documents)
  Model:  CC/Model/Load.lean  (mirrors loaders.py / dump_load.py / Circuit/dump_load.py as they
          are; tables and the copy / in-place structure generated into CC/Gen/LoadTables.lean
          on every run)

  History: until the fix commits b501fa0 (entry copy), cd8d9e4 (local phase), 00005ff
  (admittance `pop`), 2481879 (dump_load rewrite), b379006 (circuit files convert complex
  notations) four clauses were false of the code and this file carried counterexample
  theorems.  The model follows the repaired code; the formerly refuted clauses — network
  loader faithful for every kind, purity, idempotence, round trip, table well-formedness — are
  now proved at full strength.  Reverting a fix changes CC/Gen/LoadTables.lean (or the
  correspondence) and the theorem that rests on it stops compiling.

  What is NOT proved here at full strength: the *circuit* loader clause "every kind of the
  circuit table loads to exactly the given id, nodes and value".  This file has
  `C17_circuit_table_total` (names only, `decide`), `C17_circuit_pure/idempotent`, and
  `C17_circuit_complex` (one kind — impedance — with a fixed id and fixed nodes, both notations).
  The general statement is proved on the *constructor* model of the Circuit group:
  `C19_stored_unaltered` (CC/Properties/C19.lean: a constructor stores the identifier, the
  terminals and the kind it was called with and writes exactly the keys of its value dictionary)
  and `C07_reads_written` / `C07_table_total` (CC/Properties/C07.lean); the step from a description
  dictionary to the constructor call (`generateComponent` of CC/Model/Load.lean: which keys are
  read, how the value block is bound to the parameters) is tied to the code by the correspondence
  and the intended-meaning oracle of harness/props/c17.py (every kind × four notations, fault
  streams), not by a theorem — listed under OPEN_STATEMENTS.
-/
import CC.Model.Load
import CC.Spec.Load
import CC.Proofs.LoadLemmas
namespace CC
open CC.Load CC.Gen.Load CC.Spec.Load

/-! ## Complex notations -/

/-- Both notations are read as the number they denote — with or without the degree option
for the Cartesian one, without it for the polar one. -/
theorem C17_polar_cartesian (T : Trig) (n : CxNote) :
    (toComplex T n.tree false).1 = .ok (n.denote T) := by
  cases n <;>
    simp [CxNote.tree, CxNote.denote, toComplex, cartesian?, polar?, pyComplex, J.asCx, Obj.find,
      cart_value, polar_value]

/-- …hence polar notation and the Cartesian notation of the same number load equally. -/
theorem C17_polar_eq_cartesian (T : Trig) (r p : Rat) :
    (toComplex T (CxNote.polar r p).tree false).1
      = (toComplex T (CxNote.cart (r * T.cos p) (r * T.sin p)).tree false).1 := by
  rw [C17_polar_cartesian, C17_polar_cartesian]; rfl

/-- The degree option is the radian reading at `φ·π/180` (`T.rad` is that product as the
library computes it). -/
theorem C17_degree_radian (T : Trig) (r p : Rat) :
    (toComplex T (CxNote.polar r p).tree true).1
      = (toComplex T (CxNote.polar r (T.rad p)).tree false).1 := by
  simp [CxNote.tree, toComplex, cartesian?, polar?, pyComplex, J.asCx, Obj.find, Obj.put]

/-- The generic conversion of dump_load.py (`_complex_from_notation`) reads the three documented
notations as the same numbers (`abs ≥ 0` is what that function demands). -/
theorem C17_undictify_notations (T : Trig) (a b r p : Rat) (hr : ¬ r < 0) :
    undictifyValue T (CxNote.cart a b).tree = .ok (some (.cx ⟨a, b⟩)) ∧
    undictifyValue T (CxNote.polar r p).tree = .ok (some (.cx ((CxNote.polar r p).denote T))) ∧
    undictifyValue T (.obj [("abs", .num r), ("phase_deg", .num p)])
      = undictifyValue T (CxNote.polar r (T.deg2rad p)).tree := by
  refine ⟨?_, ?_, ?_⟩ <;>
    simp [CxNote.tree, CxNote.denote, undictifyValue, notationBySortedKeys, Obj.keysAre, Obj.has, Obj.find, pyComplex, J.asCx,
      absFactor, hr, cart_value, polar_value, notationBySortedKeys]

/-! ## Every documented kind loads into exactly what was written -/

/-- unfold the loader model on a concrete entry -/
macro "load_simp" : tactic => `(tactic|
  simp [Placed.tree, Placed.intended, NetEntry.tree, NetEntry.intended, NetEntry.fields, NetEntry.kind,
    optField, CxNote.tree, CxNote.denote, pyDict,
    entryToBranch, entryToBranchObj, entryRead, entryReads, entryCopied, Obj.read, Obj.find, Obj.del, Obj.put,
    networkBranchTranslators, applyLoader, elementFactories, evalCxArgs, toComplex, cartesian?, polar?, pyComplex, J.asCx,
    translateToComplex, callElemFactory, bindArgs, bindParams, dupKeys, Obj.has, Src.eval, cart_value, polar_value])

/-- one entry of any documented kind: the branch is the intended one, and the entry is left
as it was -/
theorem Load.entryToBranch_faithful (T : Trig) (p : Placed) :
    entryToBranch T p.tree = (.ok (p.intended T), p.tree) := by
  obtain ⟨e, id, n1, n2⟩ := p
  cases e with
  | resistor R => load_simp
  | conductor G => load_simp
  | impedance Z => cases Z <;> load_simp
  | admittance Y => cases Y <;> load_simp
  | linearCurrentSource I Y => cases I <;> cases Y <;> load_simp
  | currentSource I => cases I <;> load_simp
  | realCurrentSource I Y => cases Y <;> load_simp
  | linearVoltageSource V Z => cases V <;> cases Z <;> load_simp
  | voltageSource V => cases V <;> load_simp
  | realVoltageSource V Z => cases Z <;> load_simp
  | shortCircuit => load_simp
  | openCircuit => load_simp

theorem Load.intended_n1 (T : Trig) (p : Placed) : (p.intended T).n1 = .str p.n1 := by
  obtain ⟨e, id, n1, n2⟩ := p; cases e <;> rfl
theorem Load.intended_n2 (T : Trig) (p : Placed) : (p.intended T).n2 = .str p.n2 := by
  obtain ⟨e, id, n1, n2⟩ := p; cases e <;> rfl
theorem Load.intended_name (T : Trig) (p : Placed) : (p.intended T).name = .str p.id := by
  obtain ⟨e, id, n1, n2⟩ := p; cases e <;> rfl

theorem Load.loadEntries_faithful (T : Trig) (ps : List Placed) :
    loadEntries T (ps.map Placed.tree) = (.ok (ps.map (Placed.intended T)), ps.map Placed.tree) := by
  induction ps with
  | nil => simp [loadEntries]
  | cons p r ih => simp [loadEntries, entryToBranch_faithful T p, ih]

theorem Load.checkLoaded_valid (T : Trig) (ps : List Placed) (hv : ValidDescription ps) :
    checkLoaded (ps.map (Placed.intended T)) = .ok (ps.map (Placed.intended T)) := by
  obtain ⟨hg, hid⟩ := hv
  have hnames : (ps.map (Placed.intended T)).map (·.name) = ps.map (fun p => J.str p.id) := by
    simp [List.map_map, Function.comp_def, intended_name]
  have hlen : (dedupL ((ps.map (Placed.intended T)).map (·.name))).length = (ps.map (Placed.intended T)).length := by
    rw [hnames, hid, List.length_map]
  have hground : (!(ps.map (Placed.intended T)).isEmpty &&
      !((ps.map (Placed.intended T)).any fun b => b.n1 == J.str "0" || b.n2 == J.str "0")) = false := by
    rcases hg with rfl | ⟨p, hp, h0⟩
    · simp
    · have : ((ps.map (Placed.intended T)).any fun b => b.n1 == J.str "0" || b.n2 == J.str "0") = true := by
        simp only [List.any_map, List.any_eq_true]
        refine ⟨p, hp, ?_⟩
        simp only [Function.comp, intended_n1, intended_n2]
        rcases h0 with h | h <;> simp [h]
      simp [this]
  unfold checkLoaded
  simp only [hground, hlen]
  simp

/-- **C17_faithful.**  Every valid description — any number of entries, *every* documented kind
(`admittance` included), every identifier, terminals and value, complex values in either
notation — loads into exactly the intended branches, in order. -/
theorem C17_faithful (T : Trig) (ps : List Placed) (hv : ValidDescription ps) :
    (loadNetwork T (.arr (ps.map Placed.tree))).1 = .ok (ps.map (Placed.intended T)) := by
  simp [loadNetwork, loadSeq, loadEntries_faithful T ps, checkLoaded_valid T ps hv]

/-- non-vacuity: a description with a polar impedance, an admittance and a resistor -/
example : ValidDescription [⟨.impedance (.polar 2 (1/2)), "Z", "0", "1"⟩, ⟨.admittance (.cart 1 2), "Y1", "1", "0"⟩,
    ⟨.resistor (.num 5), "R1", "1", "0"⟩] := by
  refine ⟨Or.inr ⟨_, List.mem_cons_self .., Or.inl rfl⟩, by decide⟩

/-! ## The generated tables -/

/-- `"K" : elm.f` / `lambda **kwargs: elm.f(P=to_complex(<read K>), …, **kwargs)` is a well-formed
entry when `f` is a factory whose first parameter is `name`, every explicit keyword and every
translated key is a parameter of `f`, and no explicit keyword is forwarded a second time
through `**kwargs` (a key equal to its parameter must be read with `pop`). -/
def Load.NetLoader.wellFormed (L : NetLoader) : Bool :=
  match elementFactories.find? (fun f => f.name == L.factory) with
  | none => false
  | some f =>
    (f.params.head?.map (·.1) == some "name") &&
    L.cxArgs.all (fun (p, k, how) => f.params.any (·.1 == p) && (how == .pop || p != k)) &&
    L.translateKeys.all (fun k => f.params.any (·.1 == k))

/-- Every documented kind has a loader and every loader is a documented kind (generated
table, checked by evaluation). -/
theorem C17_table_total :
    (documentedKinds.all fun k => networkBranchTranslators.any (·.kind == k)) = true ∧
    (networkBranchTranslators.all fun L => documentedKinds.contains L.kind) = true ∧
    (networkBranchTranslators.map (·.kind)).Nodup := by
  decide

/-- Every entry passes keyword names that match its factory and forwards none twice. -/
theorem C17_table_wellformed : ∀ L ∈ networkBranchTranslators, L.wellFormed = true := by
  decide

/-- The circuit table: documented kinds = table kinds, every kind is built by the
constructor of the same kind, which exists.  (A statement about *names*; that a constructor stores
exactly the given id, nodes and value is `C19_stored_unaltered`, see the header.) -/
theorem C17_circuit_table_total :
    (documentedComponentKinds.all fun k => circuitComponentTranslators.any (·.1 == k)) = true ∧
    (circuitComponentTranslators.all fun p => documentedComponentKinds.contains p.1) = true ∧
    (circuitComponentTranslators.all fun p =>
      componentFactories.any fun f => f.name == p.2 && f.kind == p.1) = true := by
  decide

/-- No function or class of the loader modules carries a decorator the translator does not know,
and none is re-bound at module level: the callables *are* the bodies the model mirrors (a
`functools.lru_cache` on `load`, for instance, would make a second load of a rewritten file
return the old content — the file-level oracle of harness/props/c17.py then supplies the input). -/
theorem C17_no_decorated_loader : decoratedFunctions = [] := by decide

/-! ## Loading never mutates the description -/

theorem Load.entryToBranch_post (T : Trig) (e : J) : (entryToBranch T e).2 = e := by
  simp only [entryToBranch, entryCopied, if_true]
  split <;> rfl

theorem Load.loadEntries_post (T : Trig) (es : List J) : (loadEntries T es).2 = es := by
  induction es with
  | nil => simp [loadEntries]
  | cons e r ih =>
    have he := entryToBranch_post T e
    unfold loadEntries
    generalize entryToBranch T e = x at he
    obtain ⟨x1, x2⟩ := x
    simp only at he; subst he
    cases x1 with
    | error a => simp
    | ok b =>
      generalize loadEntries T r = y at ih
      obtain ⟨y1, y2⟩ := y
      simp only at ih; subst ih
      cases y1 <;> simp

/-- Without or with the degree option `to_complex` leaves its argument alone — every value. -/
theorem C17_toComplex_pure (T : Trig) (z : J) (deg : Bool) : (toComplex T z deg).2 = z := by
  unfold toComplex
  cases z <;> simp
  split
  · rfl
  · split
    · split <;> simp [degreeInPlace]
    · rfl

/-- **C17_pure.**  `load_network` leaves *every* argument as it was — valid or malformed, list,
dictionary or anything else — and so does `to_complex`. -/
theorem C17_pure : (∀ (T : Trig) (d : J), (loadNetwork T d).2 = d) ∧
    (∀ (T : Trig) (z : J) (deg : Bool), (toComplex T z deg).2 = z) := by
  refine ⟨?_, C17_toComplex_pure⟩
  intro T d
  cases d with
  | arr es =>
    have := loadEntries_post T es
    simp only [loadNetwork, loadSeq]
    generalize loadEntries T es = y at this
    obtain ⟨y1, y2⟩ := y
    simp only at this; subst this
    cases y1 <;> simp
  | _ => simp [loadNetwork]

/-- **C17_idempotent.**  Loading the same object twice gives equal results. -/
theorem C17_idempotent (T : Trig) (d : J) :
    (loadNetwork T (loadNetwork T d).2).1 = (loadNetwork T d).1 := by
  rw [C17_pure.1 T d]

/-! ## The circuit loader works on a copy -/

theorem Load.genComponents_post (l : List J) : (genComponents l).2 = l := by
  induction l with
  | nil => simp [genComponents]
  | cons e r ih =>
    have he : (generateComponent e).2 = e := by cases e <;> simp [generateComponent, componentCopied]
    unfold genComponents
    generalize hg : generateComponent e = g at he
    obtain ⟨g1, g2⟩ := g
    simp only at he; subst he
    cases g1 with
    | error x => simp
    | ok c =>
      generalize hr : genComponents r = q at ih
      obtain ⟨q1, q2⟩ := q
      simp only at ih; subst ih
      cases q1 <;> simp

/-- `generate_component` and `undictify_circuit` leave their argument as it was. -/
theorem C17_circuit_pure (c : J) : (generateComponent c).2 = c ∧ (undictifyCircuit c).2 = c := by
  refine ⟨by cases c <;> simp [generateComponent, componentCopied], ?_⟩
  cases c with
  | obj o =>
    unfold undictifyCircuit
    cases hf : Obj.find o "components" with
    | none => simp only [hf]
    | some v =>
      cases v with
      | arr l =>
        simp only [hf]
        have hp := genComponents_post l
        generalize genComponents l = q at hp
        obtain ⟨q1, q2⟩ := q
        simp only at hp; subst hp
        cases q1 <;> simp [Obj.put_same o "components" _ hf]
      | obj kv => simp only [hf]; cases kv <;> simp
      | str s => simp only [hf]; split <;> simp
      | null => simp only [hf]
      | bool b => simp only [hf]
      | num q => simp only [hf]
      | cx z => simp only [hf]
  | _ => simp [undictifyCircuit]

/-- …hence loading the same circuit description object twice gives equal results. -/
theorem C17_circuit_idempotent (c : J) :
    (undictifyCircuit (undictifyCircuit c).2).1 = (undictifyCircuit c).1 ∧
    (generateComponent (generateComponent c).2).1 = (generateComponent c).1 := by
  rw [(C17_circuit_pure c).1, (C17_circuit_pure c).2]; exact ⟨rfl, rfl⟩

/-! ## Round trips through `dump_load` -/

theorem Load.undictifyValue_unlike (T : Trig) (o : Obj) (h : cxLike o = false) :
    undictifyValue T (.obj o) = .ok none := by
  simp only [cxLike, Bool.or_eq_false_iff] at h
  simp [undictifyValue, notationBySortedKeys, h.1.1, h.1.2, h.2]

/-- How the generated tables say the notations are recognised and written: by key *set* (a mapping
whose keys have different types — YAML `1: x`, `a: y` — is just a mapping), the three documented key
sets, and parts stored as plain floats (a `numpy.complex128` then survives every serialiser). -/
theorem C17_notation_shape :
    notationBySortedKeys = false ∧ dictifyPlainFloats = true ∧
    notationKeySets = [["real", "imag"], ["abs", "phase"], ["abs", "phase_deg"]] := by decide

mutual
theorem Load.roundtrip (T : Trig) : (t : J) → Unambiguous t = true → undictifyAll T (dictifyAll t) = .ok t
  | .cx z, _ => by
    cases z
    simp [dictifyAll, undictifyAll, undictifyAllO, undictifyValue, notationBySortedKeys, Obj.keysAre, Obj.has, Obj.find, pyComplex, J.asCx, cart_value]
  | .obj o, h => by
    simp only [Unambiguous, Bool.and_eq_true, Bool.not_eq_true'] at h
    simp [dictifyAll, undictifyAll, Load.roundtripO T o h.2, Load.undictifyValue_unlike T o h.1]
  | .arr l, h => by
    simp only [Unambiguous] at h
    simp [dictifyAll, undictifyAll, Load.roundtripL T l h]
  | .null, _ => by simp [dictifyAll, undictifyAll]
  | .bool _, _ => by simp [dictifyAll, undictifyAll]
  | .num _, _ => by simp [dictifyAll, undictifyAll]
  | .str _, _ => by simp [dictifyAll, undictifyAll]
theorem Load.roundtripO (T : Trig) :
    (o : List (String × J)) → UnambiguousO o = true → undictifyAllO T (dictifyAllO o) = .ok o
  | [], _ => by simp [dictifyAllO, undictifyAllO]
  | (k, v) :: r, h => by
    simp only [UnambiguousO, Bool.and_eq_true] at h
    simp [dictifyAllO, undictifyAllO, Load.roundtrip T v h.1, Load.roundtripO T r h.2]
theorem Load.roundtripL (T : Trig) :
    (l : List J) → UnambiguousL l = true → undictifyAllL T (dictifyAllL l) = .ok l
  | [], _ => by simp [dictifyAllL, undictifyAllL]
  | a :: r, h => by
    simp only [UnambiguousL, Bool.and_eq_true] at h
    simp [dictifyAllL, undictifyAllL, Load.roundtrip T a h.1, Load.roundtripL T r h.2]
end

mutual
theorem Load.dictifyAll_plain : (t : J) → Plain (dictifyAll t) = true
  | .cx _ => by simp [dictifyAll, Plain, PlainO]
  | .obj o => by simp [dictifyAll, Plain, Load.dictifyAllO_plain o]
  | .arr l => by simp [dictifyAll, Plain, Load.dictifyAllL_plain l]
  | .null => by simp [dictifyAll, Plain]
  | .bool _ => by simp [dictifyAll, Plain]
  | .num _ => by simp [dictifyAll, Plain]
  | .str _ => by simp [dictifyAll, Plain]
theorem Load.dictifyAllO_plain : (o : List (String × J)) → PlainO (dictifyAllO o) = true
  | [] => by simp [dictifyAllO, PlainO]
  | (k, v) :: r => by simp [dictifyAllO, PlainO, Load.dictifyAll_plain v, Load.dictifyAllO_plain r]
theorem Load.dictifyAllL_plain : (l : List J) → PlainL (dictifyAllL l) = true
  | [] => by simp [dictifyAllL, PlainL]
  | a :: r => by simp [dictifyAllL, PlainL, Load.dictifyAll_plain a, Load.dictifyAllL_plain r]
end

/-- **C17_roundtrip.**  For every unambiguous tree — complex leaves anywhere, in dictionaries and
in lists, scalars in lists, any depth — `dictify_all_complex_values` yields a plain tree (which a
serialiser can carry) and `undictify_all_complex_values` recovers the tree exactly. -/
theorem C17_roundtrip (T : Trig) (t : J) (h : Unambiguous t = true) :
    Plain (dictifyAll t) = true ∧ undictifyAll T (dictifyAll t) = .ok t :=
  ⟨Load.dictifyAll_plain t, Load.roundtrip T t h⟩

/-- A mapping with keys of different types and no complex notation passes through the conversion
unchanged (it used to raise `TypeError` from `sorted`) — instance of `C17_roundtrip` for the
harness' encoding of the keys `1` and `'a'`. -/
theorem C17_mixed_keys (T : Trig) (x y : J) (hx : Unambiguous x = true) (hy : Unambiguous y = true) :
    undictifyAll T (dictifyAll (.obj [("\u0001n:1", x), ("a", y)])) = .ok (.obj [("\u0001n:1", x), ("a", y)]) := by
  apply (C17_roundtrip T _ _).2
  simp [Unambiguous, UnambiguousO, cxLike, Obj.keysAre, Obj.has, Obj.find, hx, hy]

/-- a (de)serialiser pair is lossless on plain trees *for the library pairs the two tables put
together* (`json.dumps`/`json.loads`, `yaml.dump`/`yaml.safe_load`): this is the recorded
assumption about json / yaml, nothing is assumed about mismatched libraries -/
def LosslessCodec (dumps : String → J → Except Err String) (loads : String → String → Except Err J) : Prop :=
  ∀ (fmt ld ll : String), (fmt, ld) ∈ serializers → (fmt, ll) ∈ deserializers →
    ∀ (t : J) (s : String), Plain t = true → dumps ld t = .ok s → loads ll s = .ok t

/-- …and through `serialize` / `deserialize`, for every format of the table and every
(de)serialiser that is lossless on plain trees.  The hypothesis is an assumption about the
libraries (json, yaml are outside Lean); that it is satisfiable at all is shown by the
`example` below, the unconditional part of the clause is `C17_roundtrip`. -/
theorem C17_roundtrip_codec (T : Trig) (dumps : String → J → Except Err String)
    (loads : String → String → Except Err J) (hcodec : LosslessCodec dumps loads)
    (t : J) (hu : Unambiguous t = true) (fmt s : String)
    (hfmt : fmt = "json" ∨ fmt = "yaml" ∨ fmt = "yml")
    (hs : serialize dumps t fmt = .ok s) :
    deserialize loads T s fmt = .ok t := by
  have key : ∀ (f ld ll : String), (f, ld) ∈ serializers → (f, ll) ∈ deserializers →
      dumps ld (dictifyAll t) = .ok s → loads ll s = .ok (dictifyAll t) :=
    fun f ld ll h1 h2 hd => hcodec f ld ll h1 h2 _ _ (Load.dictifyAll_plain t) hd
  rcases hfmt with rfl | rfl | rfl
  · simp only [serialize, serializers, deserializers, deserialize, List.find?] at hs ⊢
    simp at hs ⊢
    rw [key "json" _ _ (by simp [serializers]) (by simp [deserializers]) hs]
    simp [Load.roundtrip T t hu]
  · simp only [serialize, serializers, deserializers, deserialize, List.find?] at hs ⊢
    simp at hs ⊢
    rw [key "yaml" _ _ (by simp [serializers]) (by simp [deserializers]) hs]
    simp [Load.roundtrip T t hu]
  · simp only [serialize, serializers, deserializers, deserialize, List.find?] at hs ⊢
    simp at hs ⊢
    rw [key "yml" _ _ (by simp [serializers]) (by simp [deserializers]) hs]
    simp [Load.roundtrip T t hu]

/-- satisfiability witness for `LosslessCodec` (non-vacuous: it serialises one document): a toy
codec that knows a single plain tree.  Real codecs are json / yaml — outside Lean, checked per
case by the round-trip oracle of the harness. -/
example : ∃ (dumps : String → J → Except Err String) (loads : String → String → Except Err J),
    LosslessCodec dumps loads ∧ dumps "json.dumps" (.obj [("a", .num 1)]) = .ok "doc" := by
  refine ⟨fun _ t => if t = .obj [("a", .num 1)] then .ok "doc" else .error .typeError,
          fun _ s => if s = "doc" then .ok (.obj [("a", .num 1)]) else .error .valueError, ?_, by simp⟩
  intro fmt ld ll _ _ t s _ hd
  by_cases ht : t = .obj [("a", .num 1)]
  · simp only [ht, if_true, Except.ok.injEq] at hd
    simp [← hd, ht]
  · simp [ht] at hd

/-- non-vacuity: complex leaves in a dictionary and in a list, a list of scalars, nesting -/
example : Unambiguous (.obj [("a", .cx ⟨1, 2⟩), ("nodes", .arr [.str "0", .str "1"]),
    ("l", .arr [.cx ⟨0, 1⟩, .obj [("b", .cx ⟨3, 4⟩)]]), ("d", .obj [("real", .num 2)])]) = true := by
  simp [Unambiguous, UnambiguousO, UnambiguousL, cxLike, Obj.keysAre, Obj.has, Obj.find]

/-- The former failing inputs: a complex leaf is converted before serialisation … -/
theorem C17_dictify_converts (z : GQ) (k : String) :
    dictifyAll (.obj [(k, .cx z)]) = .obj [(k, .obj [("real", .num z.re), ("imag", .num z.im)])] := by
  simp [dictifyAll, dictifyAllO]

/-- … and a list of scalars passes through the inverse conversion untouched. -/
theorem C17_undictify_scalar_list (T : Trig) :
    undictifyAll T (.obj [("nodes", .arr [.str "0", .str "1"])]) = .ok (.obj [("nodes", .arr [.str "0", .str "1"])]) := by
  simp [undictifyAll, undictifyAllO, undictifyAllL, undictifyValue, notationBySortedKeys, Obj.keysAre, Obj.has, Obj.find]

/-- A circuit *file* may carry a complex value in either notation: the conversion turns the
notation into the number, and `ccp.impedance` then stores its real and imaginary part. -/
theorem C17_circuit_complex (T : Trig) (n : CxNote) (hn : ∀ r p, n = .polar r p → ¬ r < 0) :
    (match undictifyAll T (.obj [("components", .arr [.obj [("type", .str "impedance"), ("id", .str "Z1"),
          ("nodes", .arr [.str "0", .str "1"]), ("value", .obj [("Z", n.tree)])]])]) with
     | .ok t => (undictifyCircuit t).1
     | .error e => .error e)
    = .ok { components := [{ ty := "impedance", id := .str "Z1", nodes := .arr [.str "0", .str "1"],
                             value := [("R", .num (n.denote T).re), ("X", .num (n.denote T).im)] }],
            ground := .str "0" } := by
  cases n with
  | cart a b =>
    simp [CxNote.tree, CxNote.denote, undictifyAll, undictifyAllO, undictifyAllL, undictifyValue, notationBySortedKeys, Obj.keysAre, Obj.has, Obj.find,
      pyComplex, J.asCx, cart_value, undictifyCircuit, genComponents, generateComponent, generateComponentObj, compRead,
      componentReads, componentCopied, Obj.read, Obj.del, circuitComponentTranslators, componentFactories, callCompFactory,
      bindArgs, bindParams, dupKeys, runGuards, buildValue, VSrc.eval, mkCircuit, firstNode, dedupL]
    rfl
  | polar r p =>
    have hr := hn r p rfl
    simp [CxNote.tree, CxNote.denote, undictifyAll, undictifyAllO, undictifyAllL, undictifyValue, notationBySortedKeys, Obj.keysAre, Obj.has, Obj.find,
      absFactor, hr, polar_value, undictifyCircuit, genComponents, generateComponent, generateComponentObj, compRead,
      componentReads, componentCopied, Obj.read, Obj.del, circuitComponentTranslators, componentFactories, callCompFactory,
      bindArgs, bindParams, dupKeys, runGuards, buildValue, VSrc.eval, mkCircuit, firstNode, dedupL]
    rfl

end CC
