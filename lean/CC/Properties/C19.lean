/-
  Property C19 — malformed circuits are rejected, not reinterpreted.

  Model   CC/Model/Net.lean (`Net.check`, accessors of CC/Model/MNA.lean),
          CC/Model/Circuit.lean (`Circuit.mk?`, `CtorSpec.construct` over the generated
          constructor table, `generateComponent`, `undictifyCircuit`, `periodicFunction`,
          `elmLoad`, DC / complex wrappers)
  Every "wherever in the list" clause is a statement over all lists and all positions.
-/
import CC.Properties.C07
import CC.Proofs.NetBasics
import CC.Proofs.GQField
import CC.Gen.Solution
import CC.Properties.C08
namespace CC
open Gen

/-! ## duplicate identifiers -/

/-- **C19 (duplicate ids, networks).**  A network whose branch identifiers are not pairwise
distinct is rejected — `FloatingGroundNode` if the reference node is missing as well,
`AmbiguousBranchIDs` otherwise. -/
theorem C19_dup_id_network (N : Net String GQ) (h : ¬ N.ids.Nodup) :
    N.check = .error .floatingGround ∨ N.check = .error .ambiguousIds := by
  unfold Net.check
  by_cases h1 : N.zero ∈ N.nodeLabels
  · right
    have hl : N.branches.length = N.ids.length := by simp [Net.ids]
    have : (dedupL N.ids).length ≠ N.branches.length := by
      intro he; exact h ((circ_dedupL_length_eq_iff _).mp (hl ▸ he))
    simp [h1, this]
  · left; simp [h1]

/-- **C19 (duplicate ids, circuits).**  A component list whose identifiers are not pairwise
distinct is rejected by `Circuit(...)`, whatever else it contains. -/
theorem C19_dup_id (cs : List Component) (h : ¬ (cs.map (·.id)).Nodup) :
    ∃ e, Circuit.mk? cs = .error e := by
  unfold Circuit.mk?
  cases cs with
  | nil => simp at h
  | cons c0 rest =>
    simp only
    cases hgs : ((c0 :: rest).filter (fun c => decide (c.kind = "ground"))).mapM (fun c => c.node 0) with
    | error e => exact ⟨e, by simp [bind, Except.bind]⟩
    | ok gs =>
      simp only [bind, Except.bind]
      split
      · exact ⟨_, rfl⟩
      · cases hg : pickGround c0 gs with
        | error e => exact ⟨e, rfl⟩
        | ok g =>
          have : (dedupL ((c0 :: rest).map (·.id))).length ≠ (c0 :: rest).length := by
            intro he
            apply h
            apply (circ_dedupL_length_eq_iff _).mp
            simpa using he
          exact ⟨.ambiguousIds, by show (if _ then _ else _) = _; rw [if_pos this]⟩

/-- … in particular for every pair of positions carrying the same identifier -/
theorem C19_dup_id_positions (cs : List Component) (i j : Nat) (hij : i < j) (hj : j < cs.length)
    (h : (cs[i]'(Nat.lt_trans hij hj)).id = (cs[j]'hj).id) : ∃ e, Circuit.mk? cs = .error e := by
  apply C19_dup_id
  intro hn
  have hi : i < (cs.map (·.id)).length := by simpa using Nat.lt_trans hij hj
  have hj' : j < (cs.map (·.id)).length := by simpa using hj
  have := (List.nodup_iff_injective_get.mp hn) (a₁ := ⟨i, hi⟩) (a₂ := ⟨j, hj'⟩) (by simpa using h)
  have : i = j := by simpa using congrArg Fin.val this
  omega

/-- the precise exception when nothing else is wrong: at most one ground, every ground and
the first component have a terminal -/
theorem C19_dup_id_exception (cs : List Component)
    (hg : (cs.filter (fun c => decide (c.kind = "ground"))).length ≤ 1)
    (hnodes : ∀ c ∈ cs, c.nodes ≠ []) (hne : cs ≠ []) (h : ¬ (cs.map (·.id)).Nodup) :
    Circuit.mk? cs = .error .ambiguousIds := by
  have hnode : ∀ c ∈ cs, ∃ n, c.node 0 = .ok n := by
    intro c hc
    cases hcn : c.nodes with
    | nil => exact absurd hcn (hnodes c hc)
    | cons n _ => exact ⟨n, by simp [Component.node, hcn]⟩
  unfold Circuit.mk?
  cases cs with
  | nil => exact absurd rfl hne
  | cons c0 rest =>
    simp only
    obtain ⟨gs, hgs⟩ := mapM_ok_of_forall (fun c : Component => c.node 0)
      ((c0 :: rest).filter (fun c => decide (c.kind = "ground")))
      (fun c hc => hnode c (List.mem_filter.mp hc).1)
    have hlen : gs.length = ((c0 :: rest).filter (fun c => decide (c.kind = "ground"))).length :=
      (mapM_ok_forall₂ _ _ _ hgs).length_eq.symm
    have hgl : ¬ gs.length > 1 := by omega
    obtain ⟨g, hg'⟩ : ∃ g, pickGround c0 gs = .ok g := by
      cases gs with
      | nil => exact hnode c0 (List.mem_cons_self ..)
      | cons g _ => exact ⟨g, rfl⟩
    have : (dedupL ((c0 :: rest).map (·.id))).length ≠ (c0 :: rest).length := by
      intro he
      apply h
      apply (circ_dedupL_length_eq_iff _).mp
      simpa using he
    simp only [hgs, bind, Except.bind, hgl, if_false, hg']
    rw [if_pos this]

/-! ## reference node -/

section WithField

/-- **C19 (floating ground).**  A non-empty network none of whose branches touches the
reference node is rejected with `FloatingGroundNode`. -/
theorem C19_floating_ground (N : Net String GQ) (hne : N.branches ≠ [])
    (h : ∀ b ∈ N.branches, b.n1 ≠ N.zero ∧ b.n2 ≠ N.zero) : N.check = .error .floatingGround := by
  have : N.zero ∉ N.nodeLabels := by
    rw [mem_nodeLabels]
    rintro (⟨he, _⟩ | ⟨b, hb, hb'⟩)
    · exact hne he
    · rcases hb' with hb' | hb'
      · exact (h b hb).1 hb'
      · exact (h b hb).2 hb'
  simp [Net.check, this]

/-- the same at circuit level: when no translated component touches the ground node, the
conversion (and with it every solution class) raises `FloatingGroundNode` -/
theorem C19_floating_ground_circuit (T : Tables) (trig : Trig) (harm : Harm) (C : Circuit) (w wres : Rat)
    (bs : List (Branch String GQ)) (hbs : transformBranches T trig harm C.components w wres = .ok bs)
    (hne : bs ≠ []) (h : ∀ b ∈ bs, b.n1 ≠ C.ground ∧ b.n2 ≠ C.ground) :
    transformCircuit T trig harm C w wres = .error .floatingGround := by
  have := C19_floating_ground { branches := bs, zero := C.ground } hne h
  simp [transformCircuit, hbs, this, bind, Except.bind]

end WithField

/-- **C19 (multiple grounds).**  Two or more ground components are rejected, wherever they
stand in the list. -/
theorem C19_multi_ground (cs : List Component)
    (h : 1 < (cs.filter (fun c => decide (c.kind = "ground"))).length) : ∃ e, Circuit.mk? cs = .error e := by
  unfold Circuit.mk?
  cases cs with
  | nil => simp at h
  | cons c0 rest =>
    simp only
    cases hgs : ((c0 :: rest).filter (fun c => decide (c.kind = "ground"))).mapM (fun c => c.node 0) with
    | error e => exact ⟨e, by simp [bind, Except.bind]⟩
    | ok gs =>
      have hlen : gs.length = ((c0 :: rest).filter (fun c => decide (c.kind = "ground"))).length :=
        (mapM_ok_forall₂ _ _ _ hgs).length_eq.symm
      have : gs.length > 1 := by omega
      exact ⟨.multipleGrounds, by simp [bind, Except.bind, this]⟩

/-- with the precise exception, when every ground has its node -/
theorem C19_multi_ground_exception (cs : List Component)
    (h : 1 < (cs.filter (fun c => decide (c.kind = "ground"))).length)
    (hnodes : ∀ c ∈ cs, c.kind = "ground" → c.nodes ≠ []) : Circuit.mk? cs = .error .multipleGrounds := by
  unfold Circuit.mk?
  cases cs with
  | nil => simp at h
  | cons c0 rest =>
    simp only
    obtain ⟨gs, hgs⟩ := mapM_ok_of_forall (fun c : Component => c.node 0)
      ((c0 :: rest).filter (fun c => decide (c.kind = "ground")))
      (fun c hc => by
        have hm := List.mem_filter.mp hc
        cases hcn : c.nodes with
        | nil => exact absurd hcn (hnodes c hm.1 (by simpa using hm.2))
        | cons n _ => exact ⟨n, by simp [Component.node, hcn]⟩)
    have hlen : gs.length = ((c0 :: rest).filter (fun c => decide (c.kind = "ground"))).length :=
      (mapM_ok_forall₂ _ _ _ hgs).length_eq.symm
    have : gs.length > 1 := by omega
    simp [hgs, bind, Except.bind, this]


/-- **C19 (acceptance).**  `Circuit(...)` does not reject more than it must: a component list
with pairwise distinct identifiers, at most one ground and a terminal on every component is
accepted and stored as given (without this, a constructor that rejects every non-empty list
would satisfy all rejection theorems above). -/
theorem C19_mk_accepts (cs : List Component)
    (hg : (cs.filter (fun c => decide (c.kind = "ground"))).length ≤ 1)
    (hnodes : ∀ c ∈ cs, c.nodes ≠ []) (h : (cs.map (·.id)).Nodup) :
    ∃ g, Circuit.mk? cs = .ok ⟨cs, g⟩ := by
  have hnode : ∀ c ∈ cs, ∃ n, c.node 0 = .ok n := by
    intro c hc
    cases hcn : c.nodes with
    | nil => exact absurd hcn (hnodes c hc)
    | cons n _ => exact ⟨n, by simp [Component.node, hcn]⟩
  unfold Circuit.mk?
  cases cs with
  | nil => exact ⟨"", rfl⟩
  | cons c0 rest =>
    simp only
    obtain ⟨gs, hgs⟩ := mapM_ok_of_forall (fun c : Component => c.node 0)
      ((c0 :: rest).filter (fun c => decide (c.kind = "ground")))
      (fun c hc => hnode c (List.mem_filter.mp hc).1)
    have hlen : gs.length = ((c0 :: rest).filter (fun c => decide (c.kind = "ground"))).length :=
      (mapM_ok_forall₂ _ _ _ hgs).length_eq.symm
    have hgl : ¬ gs.length > 1 := by omega
    obtain ⟨g, hg'⟩ : ∃ g, pickGround c0 gs = .ok g := by
      cases gs with
      | nil => exact hnode c0 (List.mem_cons_self ..)
      | cons g _ => exact ⟨g, rfl⟩
    have : ¬ (dedupL ((c0 :: rest).map (·.id))).length ≠ (c0 :: rest).length := by
      intro hne; apply hne
      have := (circ_dedupL_length_eq_iff ((c0 :: rest).map (·.id))).mpr h
      simpa using this
    refine ⟨g, ?_⟩
    simp only [hgs, bind, Except.bind, hgl, if_false, hg']
    rw [if_neg this]

/-! ## sign guards of the constructors (generated table + one semantic lemma) -/

/-- the parameters property C19 names: resistance, conductance, capacitance, inductance,
frequency, rated power, rated voltage -/
def namedParams : List String := ["R", "G", "C", "L", "w", "P", "V_ref"]

def hasSignGuard (s : CtorSpec) (p : String) : Bool :=
  s.guards.any fun g => g.param == p && (g.cmp == Cmp.lt || g.cmp == Cmp.le) && g.bound == 0 && g.exc == "ValueError"

/-- every constructor guards every named parameter it takes with `if p < 0: raise ValueError`
(or the stricter `if p <= 0`) -/
def C19_negative_table_statement : Prop :=
  ∀ s ∈ ctorSpecs, ∀ p ∈ s.params, p.1 ∈ namedParams → hasSignGuard s p.1 = true

/-- **C19 (negative, table).**  (Until fix 286e6a4 `periodic_current_source` guarded neither `w`
nor `G`.) -/
theorem C19_negative_table : C19_negative_table_statement := by
  unfold C19_negative_table_statement; decide

/-- the only guards in the module are sign guards `< 0` or `<= 0` raising `ValueError` -/
theorem C19_guards_are_sign_guards :
    ∀ s ∈ ctorSpecs, ∀ g ∈ s.guards, (g.cmp = Cmp.lt ∨ g.cmp = Cmp.le) ∧ g.bound = 0 ∧ g.exc = "ValueError" := by decide

/-- **C19 (rated voltage).**  A rated voltage must be positive: every constructor that takes
`V_ref` (lamp, resistive_load) guards it with `if V_ref <= 0: raise ValueError` — a load with
`V_ref = 0` has no finite admittance `P / V_ref²` and cannot be translated.  (Until fix e174570
the guard was `< 0`: `V_ref = 0` was accepted and `elements.load` raised when the circuit was
transformed.) -/
theorem C19_rated_voltage_positive :
    ∀ s ∈ ctorSpecs, ∀ p ∈ s.params, p.1 = "V_ref" → (⟨"V_ref", Cmp.le, 0, "ValueError"⟩ : Guard) ∈ s.guards := by
  decide

/-- **C19 (fundamental of a periodic source).**  A periodic source needs a finite period: every
constructor that takes a `wavetype` guards `w` with `if w <= 0: raise ValueError`.  (Until fix
149a545 `w = 0` was accepted and the component could not be analysed.) -/
theorem C19_fundamental_positive :
    ∀ s ∈ ctorSpecs, ("wavetype", PTy.str, none) ∈ s.params → (⟨"w", Cmp.le, 0, "ValueError"⟩ : Guard) ∈ s.guards :=
  C07_periodic_fundamental_guarded

/-- … and `<= 0` is used for nothing else: 0 is a fault only for a rated voltage and for the
fundamental of a periodic source; for every other parameter — the frequency of a DC / AC source
included — the value 0 is legal -/
theorem C19_only_rated_voltage_strict :
    ∀ s ∈ ctorSpecs, ∀ g ∈ s.guards, g.cmp = Cmp.le →
      g.param = "V_ref" ∨ (g.param = "w" ∧ ("wavetype", PTy.str, none) ∈ s.params) := by decide

/-- **C19 (negative).**  A constructor call whose arguments bind, and in which some guard
`if p <cmp> bound: raise` is met by the value of `p`, raises — whatever the other arguments,
the identifier and the terminals are.  (With `C19_negative_table`: a negative
resistance, conductance, capacitance, inductance, frequency, rated power or rated voltage is
rejected by every constructor.) -/
theorem C19_negative (s : CtorSpec) (id : String) (nodes : List String) (args env : List (String × Val))
    (henv : bindParams s.params args = .ok env) (g : Guard) (hg : g ∈ s.guards) (q : Rat)
    (hq : env.lookup g.param = some (.num q)) (hfire : g.cmp.holds q g.bound = true) :
    ∃ e, s.construct (some id) (some nodes) args = .error e := by
  have hge : g.check env = .error (errOfExc g.exc) := by simp [Guard.check, hq, hfire]
  obtain ⟨e, he⟩ := forM_error_of_mem (fun g : Guard => g.check env) s.guards g hg _ hge
  refine ⟨e, ?_⟩
  unfold CtorSpec.construct
  simp only [pure, Except.pure, bind, Except.bind, henv]
  have he' : s.guards.forM (fun g => g.check env) = .error e := he
  simp [he']

/-- the exception is `ValueError` when the fired guard is the first one that fires and all
guarded parameters are numbers -/
theorem C19_negative_first (s : CtorSpec) (id : String) (nodes : List String) (args env : List (String × Val))
    (henv : bindParams s.params args = .ok env) (pre post : List Guard) (g : Guard)
    (hsplit : s.guards = pre ++ g :: post) (hpre : ∀ g' ∈ pre, g'.check env = .ok ())
    (q : Rat) (hq : env.lookup g.param = some (.num q)) (hfire : g.cmp.holds q g.bound = true)
    (hexc : g.exc = "ValueError") :
    s.construct (some id) (some nodes) args = .error .valueError := by
  have hge : g.check env = .error .valueError := by simp [Guard.check, hq, hfire, hexc, errOfExc]
  have : forM s.guards (fun g : Guard => g.check env) = (Except.error .valueError : Except Err Unit) := by
    rw [hsplit]
    clear hsplit
    induction pre with
    | nil => simp [List.forM_cons, hge, bind, Except.bind]
    | cons x pre ih =>
      have hx := hpre x (List.mem_cons_self ..)
      have := ih (fun y hy => hpre y (List.mem_cons_of_mem _ hy))
      simp only [List.cons_append, List.forM_cons, hx, bind, Except.bind]
      exact this
  unfold CtorSpec.construct
  simp only [pure, Except.pure, bind, Except.bind, henv]
  have he' : s.guards.forM (fun g => g.check env) = .error .valueError := this
  simp [he']

/-- the sign guards let the boundary value through: when every parameter guarded by `< 0` is
bound to a non-negative number (and the rated voltage, guarded by `<= 0`, to a positive one), no
guard fires -/
theorem C19_zero_passes_guards (s : CtorSpec) (hs : s ∈ ctorSpecs) (env : List (String × Val))
    (h : ∀ g ∈ s.guards, ∃ q : Rat, env.lookup g.param = some (.num q) ∧ 0 ≤ q ∧ (g.cmp = Cmp.le → 0 < q)) :
    forM s.guards (fun g : Guard => g.check env) = (Except.ok () : Except Err Unit) := by
  apply forM_ok_of_forall
  intro g hg
  obtain ⟨q, hq, hpos, hstrict⟩ := h g hg
  obtain ⟨hc, hb, _⟩ := C19_guards_are_sign_guards s hs g hg
  rcases hc with hc | hc
  · have : ¬ q < 0 := by grind
    simp [Guard.check, hq, hc, hb, Cmp.holds, this]
  · have := hstrict hc
    have : ¬ q ≤ 0 := by grind
    simp [Guard.check, hq, hc, hb, Cmp.holds, this]

/-- arguments that set every real parameter to 0 — except the rated voltage and the fundamental
of a periodic source, set to 1 — (complex ones to 0, wavetype to "cos") -/
def zeroArgs (s : CtorSpec) : List (String × Val) :=
  s.params.map fun p => (p.1, match p.2.1 with
    | .real => if p.1 = "V_ref" ∨ (p.1 = "w" ∧ ("wavetype", PTy.str, none) ∈ s.params) then Val.num 1 else Val.num 0
    | .cplx => Val.cplx 0 0
    | .str => Val.str "cos")

/-- **C19 (boundary).**  The value exactly 0 is accepted by every constructor for every
parameter other than the rated voltage and the fundamental of a periodic source. -/
theorem C19_zero_accepted :
    ∀ s ∈ ctorSpecs, (s.construct (some "x") (some ["a", "b"]) (zeroArgs s)).toOption.isSome = true := by
  decide +kernel

/-! ## unknown kinds, unknown waveforms, missing fields — wherever in the list -/

/-- **C19 (list).**  If any entry of a description fails to load, the whole description is
rejected, at whatever position the entry stands. -/
theorem C19_any_bad_entry_rejects (T : Tables) (ds : List Desc) (d : Desc) (hd : d ∈ ds) (e : Err)
    (h : generateComponent T d = .error e) : ∃ e', undictifyCircuit T ds = .error e' := by
  obtain ⟨e', he'⟩ := mapM_error_of_mem (generateComponent T) ds d hd e h
  exact ⟨e', by simp [undictifyCircuit, he', bind, Except.bind]⟩

/-- … and the exception is that of the first bad entry -/
theorem C19_first_bad_entry (T : Tables) (pre post : List Desc) (d : Desc) (e : Err)
    (hpre : ∀ x ∈ pre, ∃ c, generateComponent T x = .ok c) (h : generateComponent T d = .error e) :
    undictifyCircuit T (pre ++ d :: post) = .error e := by
  simp [undictifyCircuit, mapM_error_first (generateComponent T) pre d post e hpre h, bind, Except.bind]

/-- **C19 (unknown kind).**  An entry whose type string is no key of the loader table raises
`UnknownCircuitComponent` (given it has an id, a value and nodes). -/
theorem C19_unknown_kind (T : Tables) (id ty : String) (nodes : List String) (value : List (String × Val))
    (h : T.loaders.lookup ty = none) :
    generateComponent T ⟨some id, some ty, some nodes, some value⟩ = .error .unknownKind := by
  simp [generateComponent, h, bind, Except.bind, pure, Except.pure, throw, throwThe, MonadExceptOf.throw]

/-- **C19 (missing field).**  An entry lacking its id, value, type or nodes is rejected with
the loader's typed exception, in the order the loader looks for them. -/
theorem C19_missing_field (T : Tables) (d : Desc) :
    (d.id = none → generateComponent T d = .error (.other "UnidentifiedComponent")) ∧
    (d.id ≠ none → (d.value = none ∨ d.type = none ∨ d.nodes = none) →
      generateComponent T d = .error (.other "IncorrectComponentInformation")) := by
  constructor
  · intro h
    simp [generateComponent, h, bind, Except.bind, throw, throwThe, MonadExceptOf.throw]
  · intro hid h
    cases hi : d.id with
    | none => exact absurd hi hid
    | some i =>
      cases hv : d.value with
      | none => simp [generateComponent, hi, hv, bind, Except.bind, pure, Except.pure, throw, throwThe, MonadExceptOf.throw]
      | some v =>
        cases ht : d.type with
        | none => simp [generateComponent, hi, hv, ht, bind, Except.bind, pure, Except.pure, throw, throwThe, MonadExceptOf.throw]
        | some t =>
          cases hn : d.nodes with
          | none => simp [generateComponent, hi, hv, ht, hn, bind, Except.bind, pure, Except.pure, throw, throwThe, MonadExceptOf.throw]
          | some n => rcases h with h | h | h <;> simp_all

/-- a missing required value key (or an unexpected one) is a Python `TypeError` inside the
constructor call, which the loader reports as `IncorrectComponentInformation` -/
theorem C19_missing_value_key (T : Tables) (id ty fn : String) (nodes : List String) (value : List (String × Val))
    (cs : CtorSpec) (hl : T.loaders.lookup ty = some fn) (hc : T.ctor? fn = some cs)
    (h : bindParams cs.params value = .error .typeError) :
    generateComponent T ⟨some id, some ty, some nodes, some value⟩ = .error (.other "IncorrectComponentInformation") := by
  have : cs.construct (some id) (some nodes) value = .error .typeError := by
    simp [CtorSpec.construct, h, bind, Except.bind, pure, Except.pure]
  simp [generateComponent, hl, hc, this, bind, Except.bind, pure, Except.pure, throw, throwThe, MonadExceptOf.throw]

theorem bindParams_missing (params : List (String × PTy × Option Val)) (args : List (String × Val))
    (p : String × PTy × Option Val) (hp : p ∈ params) (hreq : p.2.2 = none) (hmiss : args.lookup p.1 = none) :
    bindParams params args = .error .typeError := by
  unfold bindParams
  split
  · rfl
  · have hfail : (fun p : String × PTy × Option Val =>
        match args.lookup p.1 with
        | some v => (Except.ok (p.1, v) : Except Err (String × Val))
        | none => match p.2.2 with
          | some v => .ok (p.1, v)
          | none => .error .typeError) p = .error .typeError := by simp [hmiss, hreq]
    -- every failure of this function is a `typeError`, so the first one is too
    have hall : ∀ (l : List (String × PTy × Option Val)), p ∈ l →
        l.mapM (fun p : String × PTy × Option Val =>
          match args.lookup p.1 with
          | some v => (Except.ok (p.1, v) : Except Err (String × Val))
          | none => match p.2.2 with
            | some v => .ok (p.1, v)
            | none => .error .typeError) = .error .typeError := by
      intro l
      induction l with
      | nil => intro h; cases h
      | cons x l ih =>
        intro hm
        rw [List.mapM_cons]
        cases hx : args.lookup x.1 with
        | some v =>
          rcases List.mem_cons.mp hm with rfl | hm'
          · rw [hmiss] at hx; cases hx
          · simp [hx, ih hm', bind, Except.bind]
        | none =>
          cases hd : x.2.2 with
          | none => simp [hx, hd, bind, Except.bind]
          | some v =>
            rcases List.mem_cons.mp hm with rfl | hm'
            · rw [hreq] at hd; cases hd
            · simp [hx, hd, ih hm', bind, Except.bind]
    exact hall params hp

/-- **C19 (unknown waveform, lookup — model level).**  The hand-written `periodicFunction` of
CC/Model/Circuit.lean (a membership test; tied to the code by the `cc_periodic_function`
correspondence) raises `UnknownWavetype` for every name outside the given list.  The statement
about the *generated* lookup of `periodic_functions.py` is `C08_lookup`; `C19_unknown_wave_generated`
below links the two lists. -/
theorem C19_unknown_wave (waves : List String) (name : String) (h : name ∉ waves) :
    periodicFunction waves name = .error (.other "UnknownWavetype") := by
  simp [periodicFunction, h]

/-- keyword binding hands an argument that is present to the parameter of that name -/
theorem bindParams_lookup (params : List (String × PTy × Option Val)) (args env : List (String × Val))
    (h : bindParams params args = .ok env) (p : String × PTy × Option Val) (hp : p ∈ params) (v : Val)
    (hv : args.lookup p.1 = some v) : env.lookup p.1 = some v := by
  unfold bindParams at h
  split at h
  · cases h
  · clear * - h hp hv
    induction params generalizing env with
    | nil => cases hp
    | cons x l ih =>
      rw [List.mapM_cons] at h
      obtain ⟨y, hy, h⟩ := bind_eq_ok.mp h
      obtain ⟨ys, hys, h⟩ := bind_eq_ok.mp h
      simp only [pure, Except.pure, Except.ok.injEq] at h
      subst h
      by_cases hx : x.1 = p.1
      · have : y = (x.1, v) := by
          rw [hx] at hy ⊢
          simp only [hv, Except.ok.injEq] at hy
          exact hy.symm
        subst this
        simp [List.lookup, hx]
      · have hyk : y.1 = x.1 := by
          split at hy
          · simp only [Except.ok.injEq] at hy; rw [← hy]
          · split at hy
            · simp only [Except.ok.injEq] at hy; rw [← hy]
            · cases hy
        have hne : ¬ (p.1 == y.1) = true := by
          rw [hyk]; intro he; exact hx (beq_iff_eq.mp he).symm
        rcases List.mem_cons.mp hp with rfl | hp'
        · exact absurd rfl hx
        · have := ih ys hp' hys
          cases y with
          | mk k val =>
            simp only at hne
            simp [List.lookup, hne, this]

/-- the wavetype list the constructors check against (generated by extract_circuit.py) is the
list of the generated lookup of property C08 (extract_fourier.py), for which `C08_lookup` proves
that every other name raises `UnknownWavetype` -/
theorem C19_unknown_wave_generated (s : String) (h : s ∉ Gen.waveTypes) :
    Gen.waveTypes = ["const", "cos", "sin", "rect", "tri", "saw"] ∧
    Gen.Fourier.periodicFunction s = .error "UnknownWavetype" :=
  ⟨by decide, CC.C08_lookup.2.2.2.2.2.2.2 s h⟩

/-- every constructor that takes a `wavetype` validates it with `periodic_function` -/
theorem C19_wave_checked :
    ∀ s ∈ ctorSpecs, ("wavetype", PTy.str, none) ∈ s.params → ("wavetype", Gen.waveTypes) ∈ s.waveChecks := by
  decide

/-- unknown waveform types are rejected when the component is constructed -/
def C19_unknown_wave_statement : Prop :=
  ∀ s ∈ ctorSpecs, ∀ (id : String) (nodes : List String) (args : List (String × Val)) (wt : String),
    args.lookup "wavetype" = some (.str wt) → wt ∉ Gen.waveTypes → ("wavetype", PTy.str, none) ∈ s.params →
    ∃ e, s.construct (some id) (some nodes) args = .error e

/-- **C19 (unknown waveform, construction).**  (Until fix 5ae07b1 the constructors accepted any
string and `UnknownWavetype` surfaced only at analysis.) -/
theorem C19_unknown_wave_construct : C19_unknown_wave_statement := by
  intro s hs id nodes args wt hwt hnot hp
  have hwc := C19_wave_checked s hs hp
  unfold CtorSpec.construct
  simp only [pure, Except.pure, bind, Except.bind]
  cases henv : bindParams s.params args with
  | error e => exact ⟨e, rfl⟩
  | ok env =>
    simp only
    cases hg : s.guards.forM (fun g => g.check env) with
    | error e => exact ⟨e, rfl⟩
    | ok u =>
      simp only
      have hl := bindParams_lookup s.params args env henv _ hp _ hwt
      have hfail : waveCheck env ("wavetype", Gen.waveTypes) = .error (.other "UnknownWavetype") := by
        simp [waveCheck, hl, hnot]
      obtain ⟨e, he⟩ := forM_error_of_mem (waveCheck env) s.waveChecks _ hwc _ hfail
      have he' : s.waveChecks.forM (waveCheck env) = .error e := he
      exact ⟨e, by simp [he']⟩

/-! ## queries for unknown identifiers -/

theorem idxOf?_none {α : Type} [DecidableEq α] (a : α) (l : List α) (h : a ∉ l) : idxOf? a l = none := by
  induction l with
  | nil => rfl
  | cons b l ih =>
    have hb : b ≠ a := fun he => h (he ▸ List.mem_cons_self ..)
    have := ih (fun hm => h (List.mem_cons_of_mem _ hm))
    simp [idxOf?, hb, this]

theorem get?_none (N : Net String GQ) (id : String) (h : id ∉ N.ids) : N.get? id = none := by
  unfold Net.get?
  rw [List.find?_eq_none]
  intro b hb
  simp only [decide_eq_true_eq]
  intro he
  exact h (by rw [← he]; exact List.mem_map_of_mem (List.mem_reverse.mp hb))

theorem vsIds_subset (N : Net String GQ) (id : String) (h : id ∈ N.vsIds) : id ∈ N.ids := by
  unfold Net.vsIds at h
  rw [mem_sortL] at h
  obtain ⟨b, hb, rfl⟩ := List.mem_map.mp h
  exact List.mem_map_of_mem (List.mem_filter.mp hb).1

/-- **C19 (unknown query).**  Asking the network solution for the voltage, current or power of
an identifier that is no branch, or for the potential of a label that is no node, raises
`KeyError`; it never returns a value.  The DC and complex wrappers pass the exception on. -/
theorem C19_unknown_query (N : Net String GQ) (x : List GQ) (id : String) (hid : id ∉ N.ids) :
    N.voltage x id = .error .keyError ∧ N.current x id = .error .keyError ∧
    N.power GQ.conj x id = .error .keyError := by
  have hg := get?_none N id hid
  have hv : N.voltage x id = .error .keyError := by simp [Net.voltage, hg]
  have hvs : idxOf? id N.vsIds = none := idxOf?_none id _ (fun h => hid (vsIds_subset N id h))
  have hc : N.current x id = .error .keyError := by simp [Net.current, hvs, hg]
  exact ⟨hv, hc, by simp [Net.power, hv, bind, Except.bind]⟩

section WithField2

theorem C19_unknown_query_potential (N : Net String GQ) (x : List GQ) (n : String)
    (hn : n ∉ N.nodeLabels) (hz : n ≠ N.zero) : N.potential x n = .error .keyError := by
  have : idxOf? n N.nodes = none := idxOf?_none n _ (fun h => hn ((mem_nodes_iff N n).mp h).1)
  simp [Net.potential, hz, this]

end WithField2

/-- the wrappers of `DCSolution` and `ComplexSolution` never turn an exception into a value -/
theorem C19_unknown_query_wrappers (N : Net String GQ) (x : List GQ) (q : Quantity) (id : String) (e : Err)
    (h : N.quantity x q id = .error e) (peak : Bool) (r2 : Rat) :
    dcGet N x q id = .error e ∧ cxGet peak r2 N x q id = .error e := by
  simp [dcGet, cxGet, h, bind, Except.bind]

/-! ### time- and frequency-domain solutions: the identifier is validated before the (possibly
empty) list of single-frequency solutions is touched -/

/-- the kind of identifier each getter takes -/
def getterKind (m : String) : String := if m = "get_potential" then "node" else "component"

/-- **C19 (unknown query, time / frequency domain).**  Every getter of `TimeDomainSolution` and
`FrequencyDomainSolution` validates its identifier first (generated table; `get_power` of the
time-domain class through `get_voltage`); conjuncts 3–4 are about the hand-written copies
`requireComponent` / `requireNode` of CC/Model/Circuit.lean (their source text is compared verbatim
by the translator) — so an unknown id raises `KeyError` whatever the list of frequency components is, the
empty list (passive circuit, complex sources only, `w_max` below the fundamental) included.
(Until fix 38fda4c the getters summed over zero solutions and returned 0 / empty arrays.) -/
theorem C19_unknown_query_guarded :
    (∀ cls ∈ ["TimeDomainSolution", "FrequencyDomainSolution"],
      ∀ m ∈ ["get_voltage", "get_current", "get_potential", "get_power"],
        (cls, m, getterKind m) ∈ Gen.Sol.requireTable) ∧
    Gen.Sol.requireDefined = ["_require_component", "_require_node"] ∧
    (∀ (cs : List Component) (id : String), id ∉ (Spec.nonGround cs).map (·.id) →
      requireComponent cs id = .error .keyError) ∧
    (∀ (cs : List Component) (n : String), (∀ c ∈ cs, n ∉ c.nodes) → requireNode cs n = .error .keyError) := by
  refine ⟨by decide, by decide, ?_, ?_⟩
  · intro cs id h
    have : id ∉ (cs.filter (fun c => decide (c.kind ≠ "ground"))).map (·.id) := h
    unfold requireComponent
    rw [if_neg this]
  · intro cs n h
    have : n ∉ cs.flatMap (·.nodes) := by
      simp only [List.mem_flatMap, not_exists, not_and]
      exact h
    simp [requireNode, this]

/-! ## an accepted description is stored unaltered -/

/-- **C19 (stored unaltered).**  `Circuit(...)` keeps the component list it was given;
a constructor stores the identifier, the terminals and the kind it was called with, writes
exactly the keys of its value dictionary, and stores a plain parameter as given. -/
theorem C19_stored_unaltered :
    (∀ cs C, Circuit.mk? cs = .ok C → C.components = cs) ∧
    (∀ (s : CtorSpec) id nodes args c, s.construct (some id) (some nodes) args = .ok c →
      c.id = id ∧ c.nodes = nodes ∧ c.kind = s.kind ∧ c.value.map (·.1) = s.values.map (·.1)) := by
  constructor
  · intro cs C h
    cases cs with
    | nil => simp [Circuit.mk?] at h; rw [← h]
    | cons c0 rest => exact (C07_ground _ C (by simp) h).2
  · intro s id nodes args c h
    have h3 := construct_ok h
    refine ⟨h3.1, h3.2.1, h3.2.2, ?_⟩
    unfold CtorSpec.construct at h
    simp only [pure, Except.pure] at h
    obtain ⟨_, h0, h⟩ := bind_eq_ok.mp h
    obtain ⟨_, h1, h⟩ := bind_eq_ok.mp h
    obtain ⟨env, _, h⟩ := bind_eq_ok.mp h
    obtain ⟨_, _, h⟩ := bind_eq_ok.mp h
    obtain ⟨_, _, h⟩ := bind_eq_ok.mp h
    obtain ⟨value, hval, h⟩ := bind_eq_ok.mp h
    simp at h
    subst h
    have hf := mapM_ok_forall₂ _ _ _ hval
    have key : ∀ (kv : String × VE) (b : String × Val),
        (do let v ← kv.2.eval env; pure (kv.1, v) : Except Err (String × Val)) = .ok b → b.1 = kv.1 := by
      intro kv b hb
      obtain ⟨v, _, hv⟩ := bind_eq_ok.mp hb
      simp [pure, Except.pure] at hv
      rw [← hv]
    exact forall₂_map_eq key hf

/-- a value written as a plain parameter is the argument itself -/
theorem C19_param_stored (env : List (String × Val)) (p : String) (v : Val) (h : env.lookup p = some v) :
    (VE.param p).eval env = .ok v := by
  simp [VE.eval, h]

/-! ## non-vacuity -/

section Examples

example : ∃ e, Circuit.mk? [⟨"resistor", "R", ["1", "0"], []⟩, ⟨"capacitor", "C", ["1", "0"], []⟩,
    ⟨"resistor", "R", ["2", "0"], []⟩] = .error e :=
  C19_dup_id_positions _ 0 2 (by decide) (by decide) rfl

/-- hypotheses of `C19_negative`: `resistor(R = -1)` -/
example : ∃ e, (⟨"resistor", "resistor", none, none, [("R", .real, none)], [⟨"R", .lt, 0, "ValueError"⟩],
    [("R", .param "R")], []⟩ : CtorSpec).construct (some "R1") (some ["1", "0"]) [("R", .num (-1))] = .error e :=
  C19_negative _ "R1" ["1", "0"] [("R", .num (-1))] [("R", .num (-1))] (by decide +kernel) ⟨"R", .lt, 0, "ValueError"⟩
    (List.mem_cons_self ..) (-1) rfl (by decide +kernel)

example : (Circuit.mk? [⟨"ground", "g1", ["0"], []⟩, ⟨"resistor", "R", ["1", "0"], []⟩, ⟨"ground", "g2", ["1"], []⟩])
    = .error .multipleGrounds :=
  C19_multi_ground_exception _ (by decide) (by decide)

end Examples

end CC
