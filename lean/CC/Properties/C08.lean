/-
  C08 — Fourier series of the built-in periodic waveforms are the true coefficients.

  All statements are about the definitions in CC/Gen/Fourier.lean, which the translator
  regenerates from SignalProcessing/periodic_functions.py on every run.

  Algebraic part (any field `K`, `π`, `cos`, `sin` arbitrary parameters):
    C08_abc, C08_conj, C08_neg_index, C08_lookup, C08_mapping_total.
  Analytic part (ℝ/ℂ, Mathlib; `π := Real.pi`, `cos/sin := Real.cos/Real.sin`,
  float `%` := `x − y⌊x/y⌋`): for every amplitude (either sign), phase, offset, period `T > 0`:
    the object returned by `fourier_series` for the waveform has
      c₀(time_function) = amplitude(0),
      cₙ(time_function) = amplitude(n)/2 · exp(j·phase(n))   for every n ≥ 1,
    where cₙ(f) = (1/T)∫₀ᵀ f(t)·exp(−2πi·n·t/T) dt   — C08_const … C08_tri,
    and `c(n)` of the code is that coefficient for every n ≠ 0 of either sign — C08_c_true;
    C08_all (all six at once), C08_parseval (energy = amplitude(0)² + Σ amplitude(n)²/2),
    C08_mean_square (the reconstruction converges to the time function in the mean square).
-/
import CC.Proofs.FourierAlg
import CC.Proofs.FourierWave
import CC.Proofs.FourierParseval
import CC.Proofs.FourierMeanSquare

namespace CC
open CC.Gen.Fourier CC.Fourier

/-! ## algebraic part -/
section algebraic
variable {K : Type} [Field K]

/-- `a = A·cos φ`, `b = −A·sin φ`, and for `n ≥ 0` the complex form is `c = (a − j·b)/2`
(pairs are `(re, im)`). -/
theorem C08_abc (π : K) (cos sin : K → K) (h : HarmObj K) (n : ℤ) :
    h.a π cos sin n = h.amplitude π n * cos (h.phase π n)
    ∧ h.b π cos sin n = -(h.amplitude π n * sin (h.phase π n))
    ∧ (0 ≤ n → h.c π cos sin n = (h.a π cos sin n / 2, -(h.b π cos sin n) / 2)) := by
  refine ⟨rfl, ?_, ?_⟩
  · simp [HarmObj.b]
  · intro hn
    have : ¬ n < 0 := by omega
    simp [HarmObj.c, HarmObj.a, HarmObj.b, this, rsmul, expj]
    constructor <;> ring

/-- `amplitude(−n) = amplitude(n)`, `phase(−n) = −phase(n)` for every integer `n`. -/
theorem C08_neg_index (π : K) (h : HarmObj K) (n : ℤ) :
    h.amplitude π (-n) = h.amplitude π n ∧ h.phase π (-n) = -h.phase π n :=
  ⟨amplitude_neg π h n, phase_neg π h n⟩

/-- `c(−n) = conj c(n)` for every integer `n`, for any even `cos` and odd `sin`. -/
theorem C08_conj [CharZero K] (π : K) (cos sin : K → K)
    (hcos : ∀ x, cos (-x) = cos x) (hsin : ∀ x, sin (-x) = -sin x) (h : HarmObj K) (n : ℤ) :
    h.c π cos sin (-n) = ((h.c π cos sin n).1, -(h.c π cos sin n).2) := by
  have hs0 : sin 0 = 0 := by
    have := hsin 0
    rw [neg_zero] at this
    have h2 : (2 : K) * sin 0 = 0 := by linear_combination this
    rcases mul_eq_zero.mp h2 with h3 | h3
    · exact absurd h3 two_ne_zero
    · exact h3
  unfold HarmObj.c
  rcases lt_trichotomy n 0 with hn | hn | hn
  · have h1 : ¬ (-n < 0) := by omega
    simp only [h1, hn, if_true, if_false, rsmul, expj, neg_mul, one_mul, hcos, hsin]
    simp
  · subst hn
    have hp : h.phase π 0 = 0 := by
      simp [HarmObj.phase, phaseCoefficient_zero]
    simp [rsmul, expj, hp, hs0]
  · have h1 : ¬ (n < 0) := by omega
    have h2 : -n < 0 := by omega
    simp only [h1, h2, if_true, if_false, rsmul, expj, neg_mul, one_mul, hcos, hsin, neg_neg]
    simp

end algebraic

/-- every wave class is a key of `fourier_series_mapping`, its harmonic class is the one
of the same waveform, and `fourier_series` passes amplitude, phase, offset through -/
theorem C08_mapping_total :
    (∀ w : Wave, (fourierSeriesMapping.lookup w).isSome)
    ∧ fourierSeriesMapping =
        [(.ConstantFunction, .ConstFunctionHarmonics), (.CosFunction, .CosFunctionHarmonics),
         (.SinFunction, .SinFunctionHarmonics), (.RectFunction, .RectFunctionHarmonics),
         (.TriFunction, .TriFunctionHarmonics), (.SawFunction, .SawFunctionHarmonics)] := by
  refine ⟨?_, rfl⟩
  intro w; cases w <;> decide

/-- looking a waveform up by its type name returns that waveform; an unknown name is an
`UnknownWavetype` error -/
theorem C08_lookup :
    periodicFunction "const" = .ok .ConstantFunction
    ∧ periodicFunction "cos" = .ok .CosFunction
    ∧ periodicFunction "sin" = .ok .SinFunction
    ∧ periodicFunction "rect" = .ok .RectFunction
    ∧ periodicFunction "tri" = .ok .TriFunction
    ∧ periodicFunction "saw" = .ok .SawFunction
    ∧ (∀ w : Wave, periodicFunction w.wavetype = .ok w)
    ∧ (∀ s : String, s ∉ ["const", "cos", "sin", "rect", "tri", "saw"] →
        periodicFunction s = .error "UnknownWavetype") := by
  refine ⟨by decide, by decide, by decide, by decide, by decide, by decide, ?_, ?_⟩
  · intro w; cases w <;> decide
  · intro s hs
    have hnil : periodicFunctions.filter (fun pf => pf.wavetype == s) = [] := by
      rw [List.filter_eq_nil_iff]
      intro w _
      cases w <;> simp [Wave.wavetype] <;> intro h <;> simp [← h] at hs
    simp [periodicFunction, hnil]

/-! ## analytic part -/
open Complex

/-- The C08 claim for one waveform object: `fourier_series` succeeds and its amplitude / phase
pair *is* the Fourier coefficient of the object's own time function, for every order. -/
def TrueCoefficients (w : WaveObj ℝ) : Prop :=
  ∃ h : HarmObj ℝ, fourierSeries w = .ok h
    ∧ coeff (timeR w) w.period 0 = ((h.amplitude Real.pi 0 : ℝ) : ℂ)
    ∧ ∀ n : ℕ, 1 ≤ n →
        coeff (timeR w) w.period n
          = ((h.amplitude Real.pi n / 2 : ℝ) : ℂ) * cexp (I * ((h.phase Real.pi n : ℝ) : ℂ))

private theorem natCast_int_not_neg (n : ℕ) : ¬ ((n : ℤ) < 0) := by omega

theorem C08_const (T A φ off : ℝ) (hT : 0 < T) : TrueCoefficients ⟨.ConstantFunction, T, A, φ, off⟩ := by
  refine ⟨⟨.ConstFunctionHarmonics, A, φ, off⟩, rfl, ?_, ?_⟩
  · show coeff (timeR _) T 0 = _
    rw [timeR_const, coeff_lin_zero T _ _ hT.ne']
    simp [HarmObj.amplitude, HarmObj.amplitudeCoefficient, ConstFunctionHarmonics.amplitudeCoefficient]
  · intro n hn
    have hn0 : (n : ℤ) ≠ 0 := by omega
    show coeff (timeR _) T n = _
    rw [timeR_const, coeff_lin T _ _ hT.ne' n hn0]
    have hn1 : n ≠ 0 := by omega
    simp [HarmObj.amplitude, HarmObj.amplitudeCoefficient, ConstFunctionHarmonics.amplitudeCoefficient,
      hn1]

theorem C08_cos (T A φ off : ℝ) (hT : 0 < T) : TrueCoefficients ⟨.CosFunction, T, A, φ, off⟩ := by
  refine ⟨⟨.CosFunctionHarmonics, A, φ, off⟩, rfl, ?_, ?_⟩
  · show coeff (timeR _) T 0 = _
    rw [timeR_cos, coeff_cos T A φ off hT.ne' 0]
    simp [HarmObj.amplitude, HarmObj.amplitudeCoefficient, CosFunctionHarmonics.amplitudeCoefficient]
  · intro n hn
    show coeff (timeR _) T n = _
    rw [timeR_cos, coeff_cos T A φ off hT.ne' n]
    have hn1 : n ≠ 0 := by omega
    have h3 : ¬ ((n : ℤ) + 1 = 0) := by omega
    have h4 : ¬ ((n : ℤ) = 0) := by omega
    rcases Nat.eq_or_lt_of_le hn with h1 | h1
    · subst h1
      simp [HarmObj.amplitude, HarmObj.phase, HarmObj.amplitudeCoefficient, HarmObj.phaseCoefficient,
        CosFunctionHarmonics.amplitudeCoefficient, CosFunctionHarmonics.phaseCoefficient, mul_comm]
    · have h2 : ¬ ((n : ℤ) - 1 = 0) := by omega
      have h5 : ¬ ((n : ℤ) = 1) := by omega
      have h6 : ¬ ((n : ℤ) < 0) := by omega
      simp [HarmObj.amplitude, HarmObj.phase, HarmObj.amplitudeCoefficient, HarmObj.phaseCoefficient,
        CosFunctionHarmonics.amplitudeCoefficient, CosFunctionHarmonics.phaseCoefficient, h2, h3, h5, h6, hn1]

theorem C08_sin (T A φ off : ℝ) (hT : 0 < T) : TrueCoefficients ⟨.SinFunction, T, A, φ, off⟩ := by
  refine ⟨⟨.SinFunctionHarmonics, A, φ, off⟩, rfl, ?_, ?_⟩
  · show coeff (timeR _) T 0 = _
    rw [timeR_sin, coeff_cos T A _ off hT.ne' 0]
    simp [HarmObj.amplitude, HarmObj.amplitudeCoefficient, SinFunctionHarmonics.amplitudeCoefficient]
  · intro n hn
    show coeff (timeR _) T n = _
    rw [timeR_sin, coeff_cos T A _ off hT.ne' n]
    have hn1 : n ≠ 0 := by omega
    have h3 : ¬ ((n : ℤ) + 1 = 0) := by omega
    have h4 : ¬ ((n : ℤ) = 0) := by omega
    rcases Nat.eq_or_lt_of_le hn with h1 | h1
    · subst h1
      simp [HarmObj.amplitude, HarmObj.phase, HarmObj.amplitudeCoefficient, HarmObj.phaseCoefficient,
        SinFunctionHarmonics.amplitudeCoefficient, SinFunctionHarmonics.phaseCoefficient, mul_comm]
    · have h2 : ¬ ((n : ℤ) - 1 = 0) := by omega
      have h5 : ¬ ((n : ℤ) = 1) := by omega
      have h6 : ¬ ((n : ℤ) < 0) := by omega
      simp [HarmObj.amplitude, HarmObj.phase, HarmObj.amplitudeCoefficient, HarmObj.phaseCoefficient,
        SinFunctionHarmonics.amplitudeCoefficient, SinFunctionHarmonics.phaseCoefficient, h2, h3, h5, h6, hn1]

private theorem cexp_phase_shift (x : ℝ) :
    cexp (I * ((-Real.pi / 2 + x : ℝ) : ℂ)) = -I * cexp (I * (x : ℂ)) := by
  have : I * ((-Real.pi / 2 + x : ℝ) : ℂ) = -(Real.pi : ℂ) / 2 * I + I * (x : ℂ) := by push_cast; ring
  rw [this, Complex.exp_add, Complex.exp_neg_pi_div_two_mul_I]

private theorem parity_cases (n : ℕ) :
    ((n : ℤ) % 2 = 0 ∧ ((-1 : ℂ)) ^ (n : ℤ) = 1) ∨ (¬ ((n : ℤ) % 2 = 0) ∧ ((-1 : ℂ)) ^ (n : ℤ) = -1) := by
  rcases Int.emod_two_eq_zero_or_one (n : ℤ) with h | h
  · exact Or.inl ⟨h, (Int.even_iff.mpr h).neg_one_zpow⟩
  · exact Or.inr ⟨by omega, (Int.odd_iff.mpr h).neg_one_zpow⟩

theorem C08_rect (T A φ off : ℝ) (hT : 0 < T) : TrueCoefficients ⟨.RectFunction, T, A, φ, off⟩ := by
  refine ⟨⟨.RectFunctionHarmonics, A, φ, off⟩, rfl, ?_, ?_⟩
  · show coeff (timeR _) T 0 = _
    rw [coeff_rect_zero T A φ off hT]
    simp [HarmObj.amplitude, HarmObj.amplitudeCoefficient, RectFunctionHarmonics.amplitudeCoefficient]
  · intro n hn
    have hn0 : (n : ℤ) ≠ 0 := by omega
    have hneg : ¬ ((n : ℤ) < 0) := by omega
    have hnC : (n : ℂ) ≠ 0 := by exact_mod_cast (show n ≠ 0 by omega)
    have hpi : (Real.pi : ℂ) ≠ 0 := by exact_mod_cast Real.pi_ne_zero
    show coeff (timeR _) T n = _
    rw [coeff_rect T A φ off hT n hn0]
    simp only [HarmObj.amplitude, HarmObj.phase, HarmObj.amplitudeCoefficient, HarmObj.phaseCoefficient,
      RectFunctionHarmonics.amplitudeCoefficient, RectFunctionHarmonics.phaseCoefficient, hneg, hn0, if_false]
    rcases parity_cases n with ⟨hp, hs⟩ | ⟨hp, hs⟩
    · simp [hp, hs]
    · simp only [hp, hs, if_false, Int.cast_ofNat, Int.cast_natCast, cexp_phase_shift]
      push_cast
      field_simp
      ring

theorem C08_saw (T A φ off : ℝ) (hT : 0 < T) : TrueCoefficients ⟨.SawFunction, T, A, φ, off⟩ := by
  refine ⟨⟨.SawFunctionHarmonics, A, φ, off⟩, rfl, ?_, ?_⟩
  · show coeff (timeR _) T 0 = _
    rw [coeff_saw_zero T A φ off hT]
    simp [HarmObj.amplitude, HarmObj.amplitudeCoefficient, SawFunctionHarmonics.amplitudeCoefficient]
  · intro n hn
    have hn0 : (n : ℤ) ≠ 0 := by omega
    have hneg : ¬ ((n : ℤ) < 0) := by omega
    have hnC : (n : ℂ) ≠ 0 := by exact_mod_cast (show n ≠ 0 by omega)
    have hpi : (Real.pi : ℂ) ≠ 0 := by exact_mod_cast Real.pi_ne_zero
    show coeff (timeR _) T n = _
    rw [coeff_saw T A φ off hT n hn0]
    simp only [HarmObj.amplitude, HarmObj.phase, HarmObj.amplitudeCoefficient, HarmObj.phaseCoefficient,
      SawFunctionHarmonics.amplitudeCoefficient, SawFunctionHarmonics.phaseCoefficient, hneg, hn0, if_false,
      Int.cast_ofNat, Int.cast_natCast, Int.cast_neg, cexp_phase_shift]
    push_cast
    field_simp

theorem C08_tri (T A φ off : ℝ) (hT : 0 < T) : TrueCoefficients ⟨.TriFunction, T, A, φ, off⟩ := by
  refine ⟨⟨.TriFunctionHarmonics, A, φ, off⟩, rfl, ?_, ?_⟩
  · show coeff (timeR _) T 0 = _
    rw [coeff_tri_zero T A φ off hT]
    simp [HarmObj.amplitude, HarmObj.amplitudeCoefficient, TriFunctionHarmonics.amplitudeCoefficient]
  · intro n hn
    have hn0 : (n : ℤ) ≠ 0 := by omega
    have hneg : ¬ ((n : ℤ) < 0) := by omega
    have hnC : (n : ℂ) ≠ 0 := by exact_mod_cast (show n ≠ 0 by omega)
    have hpi : (Real.pi : ℂ) ≠ 0 := by exact_mod_cast Real.pi_ne_zero
    show coeff (timeR _) T n = _
    rw [coeff_tri T A φ off hT n hn0]
    simp only [HarmObj.amplitude, HarmObj.phase, HarmObj.amplitudeCoefficient, HarmObj.phaseCoefficient,
      TriFunctionHarmonics.amplitudeCoefficient, TriFunctionHarmonics.phaseCoefficient, hneg, hn0, if_false]
    rcases parity_cases n with ⟨hp, hs⟩ | ⟨hp, hs⟩
    · simp [hp, hs]
    · simp only [hp, hs, if_false]
      push_cast
      field_simp
      ring

/-! ### the complex form `c(n)`, both signs of `n` -/

/-- a pair `(re, im)` of the generated model as a complex number -/
def pairC (p : ℝ × ℝ) : ℂ := ⟨p.1, p.2⟩

private theorem ofReal_mul_cexp (r θ : ℝ) :
    ((r : ℝ) : ℂ) * cexp (I * (θ : ℂ)) = ⟨r * Real.cos θ, r * Real.sin θ⟩ := by
  rw [mul_comm I, Complex.exp_mul_I]
  apply Complex.ext <;>
    simp [Complex.cos_ofReal_re, Complex.sin_ofReal_re, Complex.cos_ofReal_im, Complex.sin_ofReal_im]

/-- For every waveform whose amplitude/phase pair is true (C08_const … C08_tri), the code's
complex form `c(n)` is the complex Fourier coefficient for **every** `n ≠ 0`, negative orders
included. -/
theorem C08_c_true (w : WaveObj ℝ) (hw : TrueCoefficients w) (h : HarmObj ℝ)
    (hh : fourierSeries w = .ok h) (n : ℤ) (hn : n ≠ 0) :
    pairC (h.c Real.pi Real.cos Real.sin n) = coeff (timeR w) w.period n := by
  obtain ⟨h', e', -, hpos⟩ := hw
  rw [hh] at e'
  have : h = h' := by injection e'
  subst this
  rcases lt_or_gt_of_ne hn with hlt | hgt
  · obtain ⟨k, rfl⟩ : ∃ k : ℕ, n = -(k : ℤ) := ⟨n.natAbs, by omega⟩
    have hk : 1 ≤ k := by omega
    rw [coeff_neg, hpos k hk, ofReal_mul_cexp]
    simp only [HarmObj.c, hlt, if_true, neg_neg, rsmul, expj, pairC, Int.cast_one, neg_mul, one_mul,
      Real.cos_neg, Real.sin_neg, Int.cast_ofNat]
    apply Complex.ext <;> simp
  · obtain ⟨k, rfl⟩ : ∃ k : ℕ, n = (k : ℤ) := ⟨n.natAbs, by omega⟩
    have hk : 1 ≤ k := by omega
    have hneg : ¬ ((k : ℤ) < 0) := by omega
    rw [hpos k hk, ofReal_mul_cexp]
    simp only [HarmObj.c, hneg, if_false, rsmul, expj, pairC, Int.cast_one, one_mul, Int.cast_ofNat]

/-! ### examples: the hypotheses are satisfiable by concrete, non-trivial inputs -/

example : TrueCoefficients ⟨.RectFunction, 2, -3, 100, 1⟩ := C08_rect 2 (-3) 100 1 (by norm_num)
example : TrueCoefficients ⟨.SawFunction, 1 / 50, 3 / 2, -40, -2⟩ := C08_saw _ _ _ _ (by norm_num)
example (n : ℤ) :
    (HarmObj.c Real.pi Real.cos Real.sin ⟨.TriFunctionHarmonics, (2 : ℝ), 1, 0⟩ (-n))
      = ((HarmObj.c Real.pi Real.cos Real.sin ⟨.TriFunctionHarmonics, (2 : ℝ), 1, 0⟩ n).1,
         -(HarmObj.c Real.pi Real.cos Real.sin ⟨.TriFunctionHarmonics, (2 : ℝ), 1, 0⟩ n).2) :=
  C08_conj Real.pi Real.cos Real.sin Real.cos_neg Real.sin_neg _ n
example (n : ℤ) (hn : n ≠ 0) :
    pairC (HarmObj.c Real.pi Real.cos Real.sin ⟨.RectFunctionHarmonics, (-3 : ℝ), 100, 1⟩ n)
      = coeff (timeR ⟨.RectFunction, 2, -3, 100, 1⟩) 2 n :=
  C08_c_true _ (C08_rect 2 (-3) 100 1 (by norm_num)) _ rfl n hn

/-! ### all six at once, and Parseval -/

/-- every built-in waveform object with a positive period has true coefficients -/
theorem C08_all (w : WaveObj ℝ) (hT : 0 < w.period) : TrueCoefficients w := by
  obtain ⟨cls, T, A, φ, off⟩ := w
  cases cls
  exacts [C08_const T A φ off hT, C08_cos T A φ off hT, C08_sin T A φ off hT, C08_rect T A φ off hT,
    C08_tri T A φ off hT, C08_saw T A φ off hT]

/-- **Parseval**: the mean square of the time function over one period equals
`amplitude(0)² + Σ_{n≥1} amplitude(n)²/2` (all six waveforms, all parameters, `T > 0`). -/
theorem C08_parseval (w : WaveObj ℝ) (h : HarmObj ℝ) (hT : 0 < w.period) (hh : fourierSeries w = .ok h) :
    HasSum (fun n : ℕ => if n = 0 then (h.amplitude Real.pi 0) ^ 2 else (h.amplitude Real.pi n) ^ 2 / 2)
      ((1 / w.period) * ∫ t in (0:ℝ)..w.period, (timeR w t) ^ 2) := by
  obtain ⟨h', e', h0, hpos⟩ := C08_all w hT
  rw [hh] at e'
  have : h = h' := by injection e'
  subst this
  obtain ⟨hm, C, hb⟩ := measurable_bounded_timeR w hT
  have key := parseval_of_coeff (timeR w) w.period hT hm C hb (fun n : ℕ => h.amplitude Real.pi (n : ℤ))
    (by rw [h0]; simp [Complex.norm_real])
    (by
      intro n hn
      rw [hpos n hn, norm_mul, Complex.norm_real, mul_comm I, Complex.norm_exp_ofReal_mul_I, mul_one,
        Real.norm_eq_abs, abs_div, abs_two])
  simpa using key

/-- **mean-square convergence**: the reconstruction
`amplitude(0) + Σ_{1≤n≤N} amplitude(n)·cos(2πn·t/T + phase(n))` converges to the time function
in the mean square over one period (all six waveforms, all parameters, `T > 0`). -/
theorem C08_mean_square (w : WaveObj ℝ) (h : HarmObj ℝ) (hT : 0 < w.period) (hh : fourierSeries w = .ok h) :
    Filter.Tendsto
      (fun N : ℕ => ∫ t in (0:ℝ)..w.period,
        (timeR w t - (h.amplitude Real.pi 0 + ∑ n ∈ Finset.Icc 1 N,
          h.amplitude Real.pi n * Real.cos (2 * Real.pi * n / w.period * t + h.phase Real.pi n))) ^ 2)
      Filter.atTop (nhds 0) := by
  obtain ⟨h', e', h0, hpos⟩ := C08_all w hT
  rw [hh] at e'
  have : h = h' := by injection e'
  subst this
  obtain ⟨hm, C, hb⟩ := measurable_bounded_timeR w hT
  have key := mean_square_of_coeff (timeR w) w.period hT hm C hb
    (fun n : ℕ => h.amplitude Real.pi (n : ℤ)) (fun n : ℕ => h.phase Real.pi (n : ℤ))
    (by simpa using h0) (fun n hn => hpos n hn)
  simpa [partialSum] using key

example :
    HasSum (fun n : ℕ => if n = 0 then (HarmObj.amplitude Real.pi ⟨.SawFunctionHarmonics, (3 / 2 : ℝ), -40, -2⟩ 0) ^ 2
        else (HarmObj.amplitude Real.pi ⟨.SawFunctionHarmonics, (3 / 2 : ℝ), -40, -2⟩ n) ^ 2 / 2)
      ((1 / (1 / 50 : ℝ)) * ∫ t in (0:ℝ)..(1 / 50), (timeR ⟨.SawFunction, 1 / 50, 3 / 2, -40, -2⟩ t) ^ 2) :=
  C08_parseval ⟨.SawFunction, 1 / 50, 3 / 2, -40, -2⟩ _ (by norm_num) rfl

end CC
