/-
  C10 / C11 (translator tie, circuit-level wrapper) — `Circuit/state_space_model.py::state_space_model`
  as harness/extract_statewrap.py regenerates it on every run (CC/Gen/StateWrap.lean) equals the hand-written
  model: the value dictionaries (with the `float(...)` cast as the explicit node `Py.toFloat`), the call
  `nodal_state_space_model(network=transform_circuit(circuit, w=0), c_values=…, l_values=…)` on the component
  model of CC/Model/Circuit.lean, and the stacking of the requested output rows.

  `np.linalg.inv` is an arbitrary shape-preserving function `inv`, `.real` is `re`; `T`, `trig`, `harm`, `wres`
  are the parameters of `transformCircuit` (tables generated from the sources, numpy's cos/sin, the periodic
  source spectrum, the default `w_resolution`).
-/
import CC.Gen.StateWrap
import CC.Properties.C10Gen
import CC.Properties.C10Rows
import CC.Proofs.NetBasics
import CC.Proofs.GQField

namespace CC
open CC.Gen.Core CC.Gen.State CC.Gen.StateWrap CC.Py

namespace Wrap

theorem ok_bind {α β : Type} (a : α) (f : α → Except Err β) : (Except.ok a >>= f) = f a := rfl
theorem err_bind {α β : Type} (e : Err) (f : α → Except Err β) : (Except.error e >>= f) = .error e := rfl

/-- `mapM` in `Except` succeeds exactly when every call does, with the results in order -/
theorem mapM_ok_iff {α β : Type} (f : α → Except Err β) (l : List α) (d : List β) :
    l.mapM f = .ok d ↔ List.Forall₂ (fun a b => f a = .ok b) l d := by
  induction l generalizing d with
  | nil =>
    rw [List.mapM_nil]
    constructor
    · intro h; cases h; exact .nil
    · intro h; cases h; rfl
  | cons a l ih =>
    rw [List.mapM_cons]
    cases ha : f a with
    | error e =>
      rw [err_bind]
      constructor
      · intro h; cases h
      · intro h; cases h with | cons h1 _ => rw [ha] at h1; cases h1
    | ok b =>
      rw [ok_bind]
      cases hl : l.mapM f with
      | error e =>
        rw [err_bind]
        constructor
        · intro h; cases h
        · intro h
          cases h with
          | cons h1 h2 => rw [(ih _).2 h2] at hl; cases hl
      | ok bs =>
        rw [ok_bind]
        constructor
        · intro h
          cases h
          exact .cons ha ((ih _).1 hl)
        · intro h
          cases h with
          | cons h1 h2 =>
            rw [ha] at h1; cases h1
            rw [(ih _).2 h2] at hl; cases hl; rfl

end Wrap

/-- hand-written model of one value dictionary of the circuit-level callers: the components of type `ty` in
listing order, `id ↦ float(value[key])` (`Component.float`, CC/Model/Circuit.lean — the reading the circuit
translators use), as a number among the complex network entries -/
def wrapValues (C : Circuit) (ty key : String) : Except Err (ValDict GQ) :=
  (C.components.filter fun c => decide (c.kind = ty)).mapM fun c => do
    let q ← c.float key
    pure (c.id, GQ.ofRat q)

theorem Wrap.float_eq (c : Component) (k : String) :
    (do let raw ← Py.compValue c k; Py.toFloat raw) = c.float k := by
  unfold Py.compValue Component.float Component.get?
  cases h : c.value.lookup k with
  | none => rfl
  | some v => cases v <;> rfl

theorem Wrap.entry_eq (c : Component) (k : String) :
    (do let raw ← Py.compValue c k
        let x ← Py.toFloat raw
        pure (c.id, Py.promote x) : Except Err (String × GQ))
      = (do let q ← c.float k; pure (c.id, GQ.ofRat q)) := by
  rw [← Wrap.float_eq]
  cases Py.compValue c k with
  | error e => rfl
  | ok v => rfl

/-- **The generated dictionaries are the model's** — `c_values` / `l_values` of
`Circuit/state_space_model.py::state_space_model` as translated from the source (filter on `type`, key `id`,
value `float(value['C'])` resp. `float(value['L'])`, listing order, first failing component decides the error)
equal `wrapValues`.  A source that drops the `float(...)` cast generates `Py.noCast` instead of `Py.toFloat`
and this proof fails (a string value is then no `ValueError` at this place).  Not covered: the dtype of the
resulting numpy arrays (an `int` value stays an integer entry without the cast) — exact numbers have no dtype. -/
theorem C10_gen_wrapper_values (C : Circuit) :
    wrapper_c_values C = wrapValues C "capacitor" "C"
    ∧ wrapper_l_values C = wrapValues C "inductance" "L" := by
  unfold wrapper_c_values wrapper_l_values wrapValues
  constructor
  · congr 1; funext c; exact Wrap.entry_eq c "C"
  · congr 1; funext c; exact Wrap.entry_eq c "L"

/-- what a successful dictionary contains: one entry per component of the type, in listing order, keyed by the
component id, holding the component's value -/
theorem C10_gen_wrapper_values_ok (C : Circuit) (ty key : String) (d : ValDict GQ) :
    wrapValues C ty key = .ok d ↔
      List.Forall₂ (fun c e => ∃ q, c.float key = .ok q ∧ e = (c.id, GQ.ofRat q))
        (C.components.filter fun c => decide (c.kind = ty)) d := by
  unfold wrapValues
  rw [Wrap.mapM_ok_iff]
  constructor <;> intro h <;> refine h.imp ?_
  · intro c e he
    cases hq : c.float key with
    | error x => rw [hq] at he; cases he
    | ok q => rw [hq] at he; cases he; exact ⟨q, rfl, rfl⟩
  · rintro c e ⟨q, hq, rfl⟩
    rw [hq]; rfl

/-- link to `reactiveValues` (CC/Model/StateSpace.lean — the `cvals` / `lvals` of the C10 theorems): when every
component of the type has a readable value `v c`, the dictionary is `reactiveValues` of the component list -/
theorem C10_gen_wrapper_values_reactive (C : Circuit) (ty key : String) (v : Component → Rat)
    (h : ∀ c ∈ C.components, c.kind = ty → c.float key = .ok (v c)) :
    wrapValues C ty key
      = .ok (reactiveValues (C.components.map fun c => (c.kind, c.id, GQ.ofRat (v c))) ty) := by
  rw [C10_gen_wrapper_values_ok]
  unfold reactiveValues
  generalize C.components = cs at h
  induction cs with
  | nil => exact .nil
  | cons c cs ih =>
    have ih' := ih (fun c hc => h c (List.mem_cons_of_mem _ hc))
    by_cases hk : c.kind = ty
    · rw [List.filter_cons_of_pos (by simpa using hk), List.map_cons,
        List.filter_cons_of_pos (by simpa using hk), List.map_cons]
      exact .cons ⟨v c, h c List.mem_cons_self hk, rfl⟩ ih'
    · rw [List.filter_cons_of_neg (by simpa using hk), List.map_cons,
        List.filter_cons_of_neg (by simpa using hk)]
      exact ih'

/-- hand-written model of the first statement of the wrapper: the DC network of the circuit
(`transformCircuit … 0`), the two dictionaries, and `nodalStateSpaceModel` fed with the two inverses that
`inv` delivers -/
def wrapperModel (T : Tables) (trig : Trig) (harm : Harm) (wres : Rat) (inv : Py.Mat GQ → Py.Mat GQ)
    (re : GQ → GQ) (C : Circuit) : Except Err (NSSM String GQ) := do
  let N ← transformCircuit T trig harm C 0 wres
  let cv ← wrapValues C "capacitor" "C"
  let lv ← wrapValues C "inductance" "L"
  let Delta ← ssDelta N cv
  let Ainv := (inv ⟨N.nY, N.nY, ssAtilde re N⟩).rows
  let S := (inv ⟨ssNStates N cv lv, ssNStates N cv lv, ssM N cv lv Delta Ainv⟩).rows
  nodalStateSpaceModel N cv lv Ainv S

theorem Wrap.transform_ids {T : Tables} {trig : Trig} {harm : Harm} {C : Circuit} {w wres : Rat}
    {N : Net String GQ} (h : transformCircuit T trig harm C w wres = .ok N) : N.ids.Nodup := by
  unfold transformCircuit at h
  cases hb : transformBranches T trig harm C.components w wres with
  | error e => rw [hb] at h; cases h
  | ok bs =>
    rw [hb, Wrap.ok_bind] at h
    dsimp only at h
    cases hc : Net.check ({ branches := bs, zero := C.ground } : Net String GQ) with
    | error e => rw [hc] at h; cases h
    | ok u =>
      rw [hc, Wrap.ok_bind] at h
      cases h
      exact ((Net.check_ok_iff _).1 hc).2

/-- the object of a successful `wrapperModel` is related to its generated counterpart, its network is the DC
network of the circuit and its dictionaries are the circuit's -/
theorem Wrap.model_ok {T : Tables} {trig : Trig} {harm : Harm} {wres : Rat} {inv : Py.Mat GQ → Py.Mat GQ}
    {re : GQ → GQ} {C : Circuit} {m : NSSM String GQ} (h : wrapperModel T trig harm wres inv re C = .ok m) :
    transformCircuit T trig harm C 0 wres = .ok m.net
    ∧ wrapValues C "capacitor" "C" = .ok m.cvals ∧ wrapValues C "inductance" "L" = .ok m.lvals
    ∧ m.net.ids.Nodup ∧ SSRel (ssToGen m.net m.cvals m.lvals m.mats) m
    ∧ ∃ Ainv S, nodalStateSpaceModel m.net m.cvals m.lvals Ainv S = .ok m := by
  unfold wrapperModel at h
  cases hN : transformCircuit T trig harm C 0 wres with
  | error e => rw [hN] at h; cases h
  | ok N =>
  rw [hN, Wrap.ok_bind] at h
  cases hc : wrapValues C "capacitor" "C" with
  | error e => rw [hc] at h; cases h
  | ok cv =>
  rw [hc, Wrap.ok_bind] at h
  cases hl : wrapValues C "inductance" "L" with
  | error e => rw [hl] at h; cases h
  | ok lv =>
  rw [hl, Wrap.ok_bind] at h
  cases hD : ssDelta N cv with
  | error e => rw [hD] at h; cases h
  | ok Delta =>
  rw [hD, Wrap.ok_bind] at h
  have hids := Wrap.transform_ids hN
  have h0 := h
  unfold nodalStateSpaceModel at h
  cases hm : stateSpaceMatrices N cv lv (inv ⟨N.nY, N.nY, ssAtilde re N⟩).rows
      (inv ⟨ssNStates N cv lv, ssNStates N cv lv, ssM N cv lv Delta (inv ⟨N.nY, N.nY, ssAtilde re N⟩).rows⟩).rows with
  | error e => simp only [hm] at h; cases h
  | ok mats =>
    simp only [hm] at h
    cases h
    exact ⟨rfl, rfl, rfl, hids, ssRel_toGen N hids cv lv _ _ mats hm, _, _, h0⟩

/-- **The model object the wrapper builds** — the generated first statement
`ssm = nodal_state_space_model(network=transform_circuit(circuit, w=0), c_values=…, l_values=…)` equals
`wrapperModel`: `nodalStateSpaceModel` of `transformCircuit circuit 0` with the dictionaries of
`C10_gen_wrapper_values` (same errors in the same order: network, then `c_values`, then `l_values`, then the
builder).  So `C10_transfer`, `C10_output_rows`, the C11 theorems … apply to the object the wrapper uses.
Hypothesis: `inv` preserves shapes (numpy's does).  A source with another frequency literal (`w=1`) generates
another term and this proof fails. -/
theorem C10_gen_wrapper_model (T : Tables) (trig : Trig) (harm : Harm) (wres : Rat)
    (inv : Py.Mat GQ → Py.Mat GQ) (re : GQ → GQ) (C : Circuit)
    (hinv : ∀ M : Py.Mat GQ, (inv M).nrows = M.nrows ∧ (inv M).ncols = M.ncols) :
    wrapper_ssm T trig harm wres inv re C
      = (do let m ← wrapperModel T trig harm wres inv re C
            pure (ssToGen m.net m.cvals m.lvals m.mats)) := by
  unfold wrapper_ssm wrapperModel
  rw [(C10_gen_wrapper_values C).1, (C10_gen_wrapper_values C).2]
  cases hN : transformCircuit T trig harm C 0 wres with
  | error e => rfl
  | ok N =>
  simp only [Wrap.ok_bind]
  cases hc : wrapValues C "capacitor" "C" with
  | error e => rfl
  | ok cv =>
  simp only [Wrap.ok_bind]
  cases hl : wrapValues C "inductance" "L" with
  | error e => rfl
  | ok lv =>
  simp only [Wrap.ok_bind]
  rw [C10_gen_model inv re N (Wrap.transform_ids hN) cv lv hinv]
  cases hD : ssDelta N cv with
  | error e => rfl
  | ok Delta =>
  simp only [Wrap.ok_bind]
  unfold nodalStateSpaceModel
  simp only [bind_assoc, pure_bind]

/-! ### the stacked outputs -/

/-- a requested output quantity -/
inductive OutReq where
  | potential (node : String)
  | voltage (id : String)
  | current (id : String)
deriving DecidableEq, Repr

/-- the requests in the order the wrapper stacks them: potentials, then voltages, then currents -/
def outReqs (pots volts curs : List String) : List OutReq :=
  pots.map .potential ++ volts.map .voltage ++ curs.map .current

def NSSM.cRowOf (m : NSSM String GQ) : OutReq → Except Err (List GQ)
  | .potential n => m.cRowPotential n
  | .voltage i => m.cRowVoltage i
  | .current i => m.cRowCurrent i

def NSSM.dRowOf (m : NSSM String GQ) : OutReq → Except Err (List GQ)
  | .potential n => m.dRowPotential n
  | .voltage i => m.dRowVoltage i
  | .current i => m.dRowCurrent i

theorem Wrap.stack_eq (f : OutReq → Except Err (List GQ)) (pots volts curs : List String) :
    (do let p ← pots.mapM (fun n => f (.potential n))
        let v ← volts.mapM (fun i => f (.voltage i))
        let c ← curs.mapM (fun i => f (.current i))
        pure (p ++ v ++ c) : Except Err (List (List GQ)))
      = (outReqs pots volts curs).mapM f := by
  unfold outReqs
  rw [List.mapM_append, List.mapM_append, List.mapM_map, List.mapM_map, List.mapM_map]
  simp only [bind_assoc, pure_bind, Function.comp_def]

theorem Wrap.forall₂_get {α β : Type} {R : α → β → Prop} {l : List α} {d : List β} (h : List.Forall₂ R l d) :
    d.length = l.length ∧ ∀ k (hk : k < l.length) (hk' : k < d.length), R (l[k]) (d[k]) := by
  induction h with
  | nil => exact ⟨rfl, fun k hk => absurd hk (Nat.not_lt_zero _)⟩
  | cons h1 _ ih =>
    refine ⟨by simp [ih.1], ?_⟩
    intro k hk hk'
    cases k with
    | zero => exact h1
    | succ k => exact ih.2 k (by simpa using hk) (by simpa using hk')

/-- **The generated wrapper is the model's, and row `k` is the accessor of request `k`.**
(1) The whole generated `state_space_model` equals: build `wrapperModel`, stack with `NSSM.circuitModel`
(all C rows, then all D rows), return `A`, `B` of the model object.
(2) Whenever it returns `(A, B, Cm, Dm)`: there is the model object `m` (`wrapperModel … = .ok m`) with
`Cm`/`Dm` of one row per request, and row `k` of `Cm` (`Dm`) is `c_row_*` (`d_row_*`) of the `k`-th request in
the order potentials, voltages, currents.  With `C10_output_rows` (CC/Properties/C10Rows.lean) these rows applied
to `(x, u)` are the requested entries of the circuit's report.  A source that stacks the blocks in another order
generates another term and this proof fails.  Not covered: the column count `numpy` keeps for an EMPTY request
list (`wrapper_widths` records what the source writes), and the `StateSpaceModel.__post_init__` shape checks
(`C10_gen_container`). -/
theorem C10_gen_wrapper_outputs (T : Tables) (trig : Trig) (harm : Harm) (wres : Rat)
    (inv : Py.Mat GQ → Py.Mat GQ) (re : GQ → GQ) (C : Circuit)
    (hinv : ∀ M : Py.Mat GQ, (inv M).nrows = M.nrows ∧ (inv M).ncols = M.ncols)
    (pots volts curs : List String) :
    state_space_model T trig harm wres inv re C pots volts curs
      = (do let m ← wrapperModel T trig harm wres inv re C
            let r ← m.circuitModel pots volts curs
            let g := ssToGen m.net m.cvals m.lvals m.mats
            pure (g.A, g.B, r.C, r.D))
    ∧ ∀ A B Cm Dm, state_space_model T trig harm wres inv re C pots volts curs = .ok (A, B, Cm, Dm) →
        ∃ m, wrapperModel T trig harm wres inv re C = .ok m
          ∧ A.rows = m.mats.A ∧ B.rows = m.mats.B
          ∧ Cm.length = (outReqs pots volts curs).length ∧ Dm.length = (outReqs pots volts curs).length
          ∧ ∀ k (hk : k < (outReqs pots volts curs).length) (hc : k < Cm.length) (hd : k < Dm.length),
              m.cRowOf ((outReqs pots volts curs)[k]) = .ok (Cm[k])
              ∧ m.dRowOf ((outReqs pots volts curs)[k]) = .ok (Dm[k]) := by
  have h1 : state_space_model T trig harm wres inv re C pots volts curs
      = (do let m ← wrapperModel T trig harm wres inv re C
            let r ← m.circuitModel pots volts curs
            let g := ssToGen m.net m.cvals m.lvals m.mats
            pure (g.A, g.B, r.C, r.D)) := by
    have h0 : state_space_model T trig harm wres inv re C pots volts curs
        = (do let ssm ← wrapper_ssm T trig harm wres inv re C
              circuit_state_space_model ssm pots volts curs) := rfl
    rw [h0, C10_gen_wrapper_model T trig harm wres inv re C hinv]
    cases hm : wrapperModel T trig harm wres inv re C with
    | error e => rfl
    | ok m =>
      obtain ⟨_, _, _, hids, hrel, _⟩ := Wrap.model_ok hm
      simp only [Wrap.ok_bind, pure_bind]
      rw [C10_gen_wrapper hrel hids pots volts curs]
  refine ⟨h1, ?_⟩
  intro A B Cm Dm hok
  rw [h1] at hok
  cases hm : wrapperModel T trig harm wres inv re C with
  | error e => rw [hm] at hok; cases hok
  | ok m =>
    rw [hm, Wrap.ok_bind] at hok
    unfold NSSM.circuitModel at hok
    have hC : m.stackC pots volts curs = (outReqs pots volts curs).mapM m.cRowOf := Wrap.stack_eq m.cRowOf pots volts curs
    have hD : m.stackD pots volts curs = (outReqs pots volts curs).mapM m.dRowOf := Wrap.stack_eq m.dRowOf pots volts curs
    cases hc : m.stackC pots volts curs with
    | error e => simp only [hc, Wrap.err_bind] at hok; cases hok
    | ok Cr =>
      cases hd : m.stackD pots volts curs with
      | error e => simp only [hc, hd, Wrap.ok_bind, Wrap.err_bind] at hok; cases hok
      | ok Dr =>
        simp only [hc, hd, Wrap.ok_bind, pure_bind] at hok
        cases hok
        rw [hC] at hc; rw [hD] at hd
        have fc := Wrap.forall₂_get ((Wrap.mapM_ok_iff _ _ _).1 hc)
        have fd := Wrap.forall₂_get ((Wrap.mapM_ok_iff _ _ _).1 hd)
        exact ⟨m, rfl, rfl, rfl, fc.1, fd.1, fun k hk hc' hd' => ⟨fc.2 k hk hc', fd.2 k hk hd'⟩⟩

/-! ### non-vacuity: a circuit with one capacitor and one inductance -/

def wrapDemo : Circuit :=
  ⟨[⟨"resistor", "R", ["1", "0"], [("R", .num 2)]⟩,
    ⟨"capacitor", "C1", ["1", "0"], [("C", .num 3)]⟩,
    ⟨"inductance", "L1", ["1", "2"], [("L", .num 7)]⟩,
    ⟨"capacitor", "C2", ["2", "0"], [("C", .num 5)]⟩], "0"⟩

example : wrapper_c_values wrapDemo = .ok [("C1", GQ.ofRat 3), ("C2", GQ.ofRat 5)]
    ∧ wrapper_l_values wrapDemo = .ok [("L1", GQ.ofRat 7)] := by
  constructor <;> decide

example : outReqs ["1"] ["R"] ["C1", "L1"] = [.potential "1", .voltage "R", .current "C1", .current "L1"] := rfl

end CC
