/-
  Property C09 — multi-frequency steady state is the superposition of single-frequency solutions.

  Model: CC/Model/MultiFreq.lean (frequency list, source gates, line sums, spectrum mirror).
    C09_freqs_sorted, C09_freqs_mem        any two analysed frequencies are more than w_res apart (increasing);
                                           every analysed frequency is a source frequency / harmonic (k = 0
                                           included) and every source frequency is represented within w_res
    C09_once_statement                     "no source contributes one harmonic at two analysed frequencies" — after
    C09_once_counterexample                fix 6e56e9e still FALSE for chains (0, 0.0009, 0.0011 with w_res 0.001);
    C09_once_partial                       true when distinct analysed frequencies are > 2·w_res apart
    C09_line                               bookkeeping only: the one-sided series passes axis and values through (rfl)
    C09_time_function, C09_time_value      |X|·cos(θ + arg X) = Re(X·e^{jθ}) = X.re·cos θ − X.im·sin θ  (over ℂ)
    C09_kcl_instant                        list algebra (no model term): KCL per frequency ⇒ KCL of the summed lines
    C09_superpose_sources                  list algebra (no model term): line-wise ⇒ time-function superposition
    C09_source_reconstruction              one-term identity only: a line A·e^{jφ} contributes A·cos(θ + φ)
    C09_two_sided, _dc, _lines             `_series` after fix 0a2e57e: c(±w_k) = X_k/2 resp. conj X_k/2, c(0) = X₀
    C09_kcl_instant_circuit                composed with C01_sound + C07: networks of `transformCircuit`, any certificates ⇒
                                           the physical-current time functions obey KCL at every node, every instant
    C09_superpose_sources_reported         composed with C01 + C04_reported_superpose: time functions of potentials and
                                           voltages are the sums over the two parts (skeleton form per frequency)
-/
import CC.Proofs.MultiFreqLemmas
import CC.Properties.C07
import CC.Properties.C04
import CC.Proofs.GQField
import Mathlib.Analysis.SpecialFunctions.Complex.Arg
import Mathlib.Tactic.NormNum
set_option linter.unusedSectionVars false
set_option linter.unusedVariables false

namespace CC

/-! ## the frequency list -/

theorem frequencies_ok_of_all {wmax : ℚ} {cs : List FComp} {l : List ℚ}
    (h : allFrequencies wmax cs = .ok l) {c : FComp} (hc : c ∈ cs) :
    ∃ lc, c.frequencies wmax = .ok lc := by
  induction cs generalizing l with
  | nil => simp at hc
  | cons d cs ih =>
    unfold allFrequencies at h
    cases hd : d.frequencies wmax with
    | error e => rw [hd] at h; cases h
    | ok ld =>
      rw [hd] at h
      cases hr : allFrequencies wmax cs with
      | error e => rw [hr] at h; cases h
      | ok r =>
        rcases List.mem_cons.mp hc with rfl | hc'
        · exact ⟨ld, hd⟩
        · exact ih hr hc'

/-- membership in a component's own list -/
theorem mem_frequencies {wmax : ℚ} {c : FComp} {lc : List ℚ} (h : c.frequencies wmax = .ok lc) (w : ℚ) :
    w ∈ lc ↔ ∃ w0, c.w = some w0 ∧
      ((c.isPeriodic = false ∧ w = w0) ∨
       (c.isPeriodic = true ∧ ∃ k : ℕ, (k : ℤ) ≤ (wmax / w0).floor ∧ w = w0 * (k : ℚ))) := by
  unfold FComp.frequencies at h
  cases hcw : c.w with
  | none => rw [hcw] at h; cases h; simp
  | some w0 =>
    rw [hcw] at h
    by_cases hp : c.isPeriodic = true
    · simp only [hp, if_true] at h
      by_cases h0 : w0 = 0
      · simp [h0] at h
      · simp only [h0, if_false] at h
        cases h
        rw [mem_harmonicList]
        constructor
        · intro hk; exact ⟨w0, rfl, Or.inr ⟨hp, hk⟩⟩
        · rintro ⟨w1, e, hcase⟩
          cases e
          rcases hcase with ⟨hf, _⟩ | ⟨_, hk⟩
          · rw [hp] at hf; cases hf
          · exact hk
    · simp only [hp, if_false] at h
      cases h
      simp only [List.mem_singleton]
      constructor
      · intro e; exact ⟨w0, rfl, Or.inl ⟨by simpa using hp, e⟩⟩
      · rintro ⟨w1, e, hcase⟩
        cases e
        rcases hcase with ⟨_, e⟩ | ⟨hf, _⟩
        · exact e
        · exact absurd hf hp

/-- `f` is a frequency the sources of the circuit contain: the frequency of a single-frequency
source, or a harmonic `k·w0` (`k = 0, 1, 2, …`) of a periodic source with `k ≤ ⌊w_max/w0⌋`
(for `w0 > 0`: `k·w0 ≤ w_max`, `harmonic_le_iff`) -/
def IsSourceFrequency (cs : List FComp) (wmax f : ℚ) : Prop :=
  ∃ c ∈ cs, ∃ w0, c.w = some w0 ∧
    ((c.isPeriodic = false ∧ f = w0) ∨
     (c.isPeriodic = true ∧ ∃ k : ℕ, (k : ℤ) ≤ (wmax / w0).floor ∧ f = w0 * (k : ℚ)))

theorem mem_all_iff {wmax : ℚ} {cs : List FComp} {l : List ℚ} (hl : allFrequencies wmax cs = .ok l) (f : ℚ) :
    f ∈ l ↔ IsSourceFrequency cs wmax f := by
  rw [mem_allFrequencies hl]
  constructor
  · rintro ⟨c, hc, lc, hlc, hw⟩
    exact ⟨c, hc, (mem_frequencies hlc f).mp hw⟩
  · rintro ⟨c, hc, hcase⟩
    obtain ⟨lc, hlc⟩ := frequencies_ok_of_all hl hc
    exact ⟨c, hc, lc, hlc, (mem_frequencies hlc f).mpr hcase⟩

/-- **C09 (frequency list, order and separation).**  For a resolution `w_res ≥ 0` any two analysed
frequencies are more than `w_res` apart, in increasing order — in particular the list is
strictly increasing and no physical frequency is analysed twice. -/
theorem C09_freqs_sorted (cs : List FComp) (wmax wres : ℚ) (hres : 0 ≤ wres) (ws : List ℚ)
    (h : frequencyComponents cs wmax wres = .ok ws) : ws.Pairwise (fun a b => wres < b - a) := by
  unfold frequencyComponents at h
  cases hl : allFrequencies wmax cs with
  | error e => rw [hl] at h; cases h
  | ok l =>
    rw [hl] at h; cases h
    exact mergeRes_separated wres hres _

/-- **C09 (frequency list, content).**  Every analysed frequency is a source frequency (k = 0 of a
periodic source included), and every source frequency `f` is represented by an analysed frequency
`k ≤ f` with `f − k ≤ w_res`. -/
theorem C09_freqs_mem (cs : List FComp) (wmax wres : ℚ) (hres : 0 ≤ wres) (ws : List ℚ)
    (h : frequencyComponents cs wmax wres = .ok ws) :
    (∀ w ∈ ws, IsSourceFrequency cs wmax w) ∧
    (∀ f, IsSourceFrequency cs wmax f → ∃ k ∈ ws, k ≤ f ∧ f - k ≤ wres) := by
  unfold frequencyComponents at h
  cases hl : allFrequencies wmax cs with
  | error e => rw [hl] at h; cases h
  | ok l =>
    rw [hl] at h; cases h
    constructor
    · intro w hw
      exact (mem_all_iff hl w).mp (mem_sortQ.mp (mem_mergeRes hw))
    · intro f hf
      have hfl : f ∈ sortQ l := mem_sortQ.mpr ((mem_all_iff hl f).mpr hf)
      have hsorted := sortQ_sorted l
      cases hsl : sortQ l with
      | nil => rw [hsl] at hfl; simp at hfl
      | cons a t =>
        rw [hsl] at hfl hsorted
        obtain ⟨ha, ht⟩ := List.pairwise_cons.mp hsorted
        rcases List.mem_cons.mp hfl with rfl | hft
        · exact ⟨f, by simp [mergeRes], le_refl _, by rw [sub_self]; exact hres⟩
        · rcases mergeFrom_covers wres hres a t ht ha f hft with h1 | ⟨k, hk, hk2⟩
          · exact ⟨a, by simp [mergeRes], ha f hft, h1⟩
          · exact ⟨k, by simp [mergeRes, hk], hk2⟩

/-! ## every physical frequency is analysed once -/

theorem insertQ_le {a b : ℚ} (h : a ≤ b) (l : List ℚ) : insertQ a (b :: l) = a :: b :: l := by
  simp [insertQ, h]

theorem mergeFrom_keep {wres last w : ℚ} (h : wres < w - last) (l : List ℚ) :
    mergeFrom wres last (w :: l) = w :: mergeFrom wres w l := by
  simp [mergeFrom, h]

theorem mergeFrom_drop {wres last w : ℚ} (h : ¬ wres < w - last) (l : List ℚ) :
    mergeFrom wres last (w :: l) = mergeFrom wres last l := by
  simp [mergeFrom, h]

/-- **C09 (once), full statement.**  No source contributes the same harmonic at two different
analysed frequencies (a single-frequency source is active at one analysed frequency only). -/
def C09_once_statement : Prop :=
  ∀ (cs : List FComp) (wmax wres : ℚ) (ws : List ℚ), 0 ≤ wres →
    frequencyComponents cs wmax wres = .ok ws →
    ∀ c ∈ cs, ∀ s, c.toSrc? = some s → ∀ w1 ∈ ws, ∀ w2 ∈ ws, ∀ n,
      s.activeIndex w1 wres = some n → s.activeIndex w2 wres = some n → w1 = w2

/-- **C09 (residual finding after fix 6e56e9e: chains).**  Sources at `0`, `0.0009` and `0.0011` with
resolution `0.001`: the merge keeps `0` and `0.0011` (they are more than the resolution apart), and
the source at `0.0009` lies within the resolution of *both* — it is active at both analysed
frequencies and its response is still counted twice. -/
theorem C09_once_counterexample : ¬ C09_once_statement := by
  intro h
  let c1 : FComp := ⟨"ac_voltage_source", some 0⟩
  let c2 : FComp := ⟨"ac_voltage_source", some (9 / 10000)⟩
  let c3 : FComp := ⟨"ac_voltage_source", some (11 / 10000)⟩
  have hws : frequencyComponents [c1, c2, c3] 10 (1 / 1000) = .ok [0, 11 / 10000] := by
    have hall : allFrequencies 10 [c1, c2, c3] = .ok [0, 9 / 10000, 11 / 10000] := by
      simp [allFrequencies, FComp.frequencies, FComp.isPeriodic, c1, c2, c3]
    have hsort : sortQ [0, 9 / 10000, 11 / 10000] = [0, 9 / 10000, 11 / 10000] := by
      have e1 : insertQ (11 / 10000) [] = [11 / 10000] := rfl
      have e2 : insertQ (9 / 10000) [11 / 10000] = [9 / 10000, 11 / 10000] :=
        insertQ_le (by norm_num) _
      have e3 : insertQ 0 [9 / 10000, 11 / 10000] = [0, 9 / 10000, 11 / 10000] :=
        insertQ_le (by norm_num) _
      simp only [sortQ, e1, e2, e3]
    have hmerge : mergeRes (1 / 1000) [0, 9 / 10000, 11 / 10000] = [0, 11 / 10000] := by
      have m1 : mergeFrom (1 / 1000) 0 [9 / 10000, 11 / 10000] = mergeFrom (1 / 1000) 0 [11 / 10000] :=
        mergeFrom_drop (by norm_num) _
      have m2 : mergeFrom (1 / 1000) 0 [11 / 10000] = 11 / 10000 :: mergeFrom (1 / 1000) (11 / 10000) [] :=
        mergeFrom_keep (by norm_num) _
      show (0 : ℚ) :: mergeFrom (1 / 1000) 0 [9 / 10000, 11 / 10000] = [0, 11 / 10000]
      rw [m1, m2]; rfl
    simp only [frequencyComponents, hall, hsort, hmerge]
  have a1 : (⟨false, 9 / 10000⟩ : Src).activeIndex 0 (1 / 1000) = some 0 := by
    simp [Src.activeIndex, gateSingle, mfAbsQ]; norm_num
  have a2 : (⟨false, 9 / 10000⟩ : Src).activeIndex (11 / 10000) (1 / 1000) = some 0 := by
    simp [Src.activeIndex, gateSingle, mfAbsQ]; norm_num
  have := h [c1, c2, c3] 10 (1 / 1000) _ (by norm_num) hws c2 (by simp) ⟨false, 9 / 10000⟩
    (by simp [FComp.toSrc?, FComp.isPeriodic, c2]) 0 (by simp) (11 / 10000) (by simp) 0 a1 a2
  norm_num at this

theorem mfAbsQ_eq_abs (x : ℚ) : mfAbsQ x = |x| := by
  unfold mfAbsQ
  split
  · rename_i h; exact (abs_of_nonneg h).symm
  · rename_i h; exact (abs_of_neg (not_le.mp h)).symm

/-- **C09 (once), the part that holds.**  If any two *different* analysed frequencies are more
than `2·w_res` apart, no source contributes the same harmonic at two of them. -/
theorem C09_once_partial (ws : List ℚ) (wres : ℚ) (hres : 0 ≤ wres)
    (sep : ∀ w1 ∈ ws, ∀ w2 ∈ ws, w1 ≠ w2 → 2 * wres < |w1 - w2|)
    (s : Src) (hs : s.periodic = true → 0 < s.w) (w1 w2 : ℚ) (h1 : w1 ∈ ws) (h2 : w2 ∈ ws) (n : ℤ)
    (a1 : s.activeIndex w1 wres = some n) (a2 : s.activeIndex w2 wres = some n) : w1 = w2 := by
  by_contra hne
  have hsep := sep w1 h1 w2 h2 hne
  unfold Src.activeIndex at a1 a2
  by_cases hp : s.periodic = true
  · have h0 := hs hp
    simp only [hp, if_true] at a1 a2
    by_cases g1 : gatePeriodic w1 s.w wres = true
    · by_cases g2 : gatePeriodic w2 s.w wres = true
      · simp only [g1, g2, if_true, Option.some.injEq] at a1 a2
        unfold gatePeriodic at g1 g2
        rw [a1] at g1; rw [a2] at g2
        simp only [Bool.not_eq_true', decide_eq_false_iff_not, not_lt, mfAbsQ_eq_abs] at g1 g2
        -- |w_i/w0 − n| ≤ w_res/w0  ⇒  |w_i − n·w0| ≤ w_res
        have e1 : |w1 - n * s.w| ≤ wres := by
          have : w1 - n * s.w = (w1 / s.w - n) * s.w := by field_simp
          rw [this, abs_mul, abs_of_pos h0]
          calc |w1 / s.w - ↑n| * s.w ≤ wres / s.w * s.w := by
                exact mul_le_mul_of_nonneg_right g1 (le_of_lt h0)
            _ = wres := by field_simp
        have e2 : |w2 - n * s.w| ≤ wres := by
          have : w2 - n * s.w = (w2 / s.w - n) * s.w := by field_simp
          rw [this, abs_mul, abs_of_pos h0]
          calc |w2 / s.w - ↑n| * s.w ≤ wres / s.w * s.w := by
                exact mul_le_mul_of_nonneg_right g2 (le_of_lt h0)
            _ = wres := by field_simp
        have : |w1 - w2| ≤ 2 * wres := by
          have : w1 - w2 = (w1 - n * s.w) - (w2 - n * s.w) := by ring
          rw [this]
          calc |(w1 - n * s.w) - (w2 - n * s.w)| ≤ |w1 - n * s.w| + |w2 - n * s.w| := abs_sub _ _
            _ ≤ 2 * wres := by linarith
        linarith
      · simp [g2] at a2
    · simp [g1] at a1
  · simp only [hp, if_false, Bool.false_eq_true] at a1 a2
    by_cases g1 : gateSingle w1 s.w wres = true
    · by_cases g2 : gateSingle w2 s.w wres = true
      · unfold gateSingle at g1 g2
        simp only [Bool.not_eq_true', decide_eq_false_iff_not, not_lt, mfAbsQ_eq_abs] at g1 g2
        have : |w1 - w2| ≤ 2 * wres := by
          have : w1 - w2 = (w1 - s.w) - (w2 - s.w) := by ring
          rw [this]
          calc |(w1 - s.w) - (w2 - s.w)| ≤ |w1 - s.w| + |w2 - s.w| := abs_sub _ _
            _ ≤ 2 * wres := by linarith
        linarith
      · simp [g2] at a2
    · simp [g1] at a1

/-! ## spectral lines and time functions -/

/-- **C09 (line) — bookkeeping only.**  `oneSided` passes the frequency axis and the list of line values
through unchanged, position by position (`rfl`; true for any list `X`).  That the `k`-th value handed to it
IS the peak phasor of C02 at `w_k` is not a Lean statement: it holds by construction of
`FrequencyDomainSolution` (`ComplexSolution(w_k, peak_values=True)`) and is checked by the
correspondence / oracle of `harness/props/c09.py` (line vs `ComplexSolution`, harmonic lines vs `fourier_series`). -/
theorem C09_line (ws : List ℚ) (X : List GQ) (k : ℕ) :
    (oneSided ws X).1[k]? = ws[k]? ∧ (oneSided ws X).2[k]? = X[k]? := ⟨rfl, rfl⟩

open Complex in
/-- **C09 (time function).**  `|X|·cos(θ + arg X) = Re(X·e^{jθ})` for every complex `X` and real `θ`
(also for `X = 0`, where numpy's `angle` returns 0). -/
theorem C09_time_function (X : ℂ) (θ : ℝ) :
    ‖X‖ * Real.cos (θ + arg X) = (X * exp (θ * I)).re := by
  conv_rhs => rw [← norm_mul_exp_arg_mul_I X]
  rw [mul_assoc, ← Complex.exp_add, ← add_mul, add_comm, ← ofReal_add, re_ofReal_mul,
    exp_ofReal_mul_I_re]

open Complex in
/-- **C09 (what the executable model sums).**  `Re(X·e^{jθ}) = X.re·cos θ − X.im·sin θ`:
the expression `lineValue` evaluates from `c = cos θ`, `s = sin θ`. -/
theorem C09_time_value (X : ℂ) (θ : ℝ) :
    ‖X‖ * Real.cos (θ + arg X) = X.re * Real.cos θ - X.im * Real.sin θ := by
  rw [C09_time_function, mul_re, exp_ofReal_mul_I_re, exp_ofReal_mul_I_im]

theorem lineValue_eq (X : GQ) (c s : ℚ) : lineValue X c s = X.re * c - X.im * s := rfl

open Complex in
/-- **C09 (a periodic source's own line) — the one-term identity only.**  A line `A·e^{jφ}` with *real*
amplitude `A` of either sign contributes `A·cos(θ + φ)` to a time function.  No sum over harmonics, no
truncation bound and no term of the model occur in this statement: that the source's lines are the harmonics
`amplitude(k)·e^{j·phase(k)}` of C08 for `k ≤ ⌊w_max/w0⌋`, and that the reconstructed waveform approaches the
source's waveform up to the truncation (Parseval tail), is established by the oracle of
`harness/props/c09.py` only (`check_harmonic_lines`, `check_reconstruction`). -/
theorem C09_source_reconstruction (A φ θ : ℝ) :
    ((A : ℂ) * exp (φ * I) * exp (θ * I)).re = A * Real.cos (θ + φ) := by
  rw [mul_assoc, ← Complex.exp_add, ← add_mul, ← ofReal_add, re_ofReal_mul, exp_ofReal_mul_I_re,
    add_comm]

theorem re_list_sum (l : List ℂ) : l.sum.re = (l.map Complex.re).sum := by
  induction l with
  | nil => simp
  | cons a l ih => simp [ih]

/-- **C09 (Kirchhoff's current law at every instant) — list algebra, no model term.**  (The statement about the
networks of `transformCircuit` and the reported currents is `C09_kcl_instant_circuit`.)  `lines` lists the analysed
frequencies: for each, the unit `u = e^{j w t}` and the physical branch currents `J b` of that
frequency's solution.  If Kirchhoff's current law holds at node `n` in every single-frequency
solution (C01), it holds for the time functions `i_b(t) = Σ_k Re(J_k b · u_k)` — for every
choice of the units, i.e. at every instant `t`.  `inc b` is the incidence (+1, −1, 0) of
branch `b` at the node. -/
theorem C09_kcl_instant {B : Type} (branches : List B) (inc : B → ℝ) (lines : List (ℂ × (B → ℂ)))
    (hk : ∀ l ∈ lines, (branches.map fun b => (inc b : ℂ) * l.2 b).sum = 0) :
    (branches.map fun b => inc b * (lines.map fun l => (l.2 b * l.1).re).sum).sum = 0 := by
  have swap : (branches.map fun b => inc b * (lines.map fun l => (l.2 b * l.1).re).sum).sum
      = (lines.map fun l => (branches.map fun b => inc b * (l.2 b * l.1).re).sum).sum := by
    induction lines with
    | nil => simp
    | cons l ls ih =>
      have ih' := ih (fun l hl => hk l (List.mem_cons_of_mem _ hl))
      simp only [List.map_cons, List.sum_cons, mul_add, List.sum_map_add]
      rw [ih']
  rw [swap]
  apply List.sum_eq_zero
  intro x hx
  obtain ⟨l, hl, rfl⟩ := List.mem_map.mp hx
  have h := hk l hl
  have : (branches.map fun b => inc b * (l.2 b * l.1).re).sum
      = ((branches.map fun b => (inc b : ℂ) * l.2 b).sum * l.1).re := by
    rw [← List.sum_map_mul_right, re_list_sum, List.map_map]
    apply congrArg; apply List.map_congr_left; intro b _
    simp only [Function.comp_apply]
    rw [mul_assoc, Complex.re_ofReal_mul]
  rw [this, h, zero_mul, Complex.zero_re]

/-- **C09 (superposition of sources) — list algebra, no model term.**  (The statement composed with C01/C04 is
`C09_superpose_sources_reported`: potentials and voltages only, for per-frequency networks given in skeleton form
`withSrc bs s`; that the code's networks for "each source alone" have that form is not proved.)
If at every analysed frequency the line is the sum of the
lines obtained with each source alone (C04 at that frequency — which requires that no other
frequency within the resolution is analysed separately, `C09_once_partial`), the time function
is the sum of the time functions with each source alone. -/
theorem C09_superpose_sources {S : Type} (sources : List S) (lines : List (ℂ × ℂ × (S → ℂ)))
    (hl : ∀ l ∈ lines, l.2.1 = (sources.map l.2.2).sum) :
    (lines.map fun l => (l.2.1 * l.1).re).sum
      = (sources.map fun s => (lines.map fun l => (l.2.2 s * l.1).re).sum).sum := by
  induction lines with
  | nil => simp
  | cons l ls ih =>
    have ih' := ih (fun l hl' => hl l (List.mem_cons_of_mem _ hl'))
    simp only [List.map_cons, List.sum_cons, List.sum_map_add]
    rw [ih', hl l (by simp), ← List.sum_map_mul_right, re_list_sum, List.map_map]
    rfl

/-! ## the two-sided spectrum -/

/-- the one-sided lines as (frequency, value) pairs -/
def linesOf (ws : List ℚ) (X : List GQ) : List (ℚ × GQ) := ws.zip X

def halfOf (z : GQ) : GQ := GQ.ofRat (1/2) * z

theorem zip_reverse' {α β : Type} (l1 : List α) (l2 : List β) (h : l1.length = l2.length) :
    l1.reverse.zip l2.reverse = (l1.zip l2).reverse := by
  unfold List.zip; exact (List.reverse_zipWith h).symm

theorem dcCount_le (ws : List ℚ) : dcCount ws ≤ ws.length := by
  cases ws with
  | nil => simp [dcCount]
  | cons w t => simp only [dcCount]; split <;> simp

/-- **C09 (two-sided spectrum).**  `_series` of solution.py (after fix 0a2e57e) on line values: the
two-sided series consists of `(−w_k, conj X_k / 2)` for the AC lines in decreasing order, the DC line
`(0, X₀)` *unchanged* when one is listed, and `(w_k, X_k / 2)` for the AC lines.  (`d = dcCount ws`
is 1 when the first analysed frequency is 0, else 0 — then the lowest line is mirrored too.) -/
theorem C09_two_sided (ws : List ℚ) (X : List GQ) (hlen : ws.length = X.length) :
    (mirrorW ws).zip (mirrorX ws X)
      = (((linesOf ws X).drop (dcCount ws)).reverse.map fun p => (-p.1, halfOf (GQ.conj p.2)))
        ++ (linesOf ws X).take (dcCount ws)
        ++ ((linesOf ws X).drop (dcCount ws)).map fun p => (p.1, halfOf p.2) := by
  have hd := dcCount_le ws
  set d := dcCount ws with hdd
  have htake : ws.length - (ws.drop d).length = d := by simp; omega
  have hdz : (ws.drop d).zip (X.drop d) = (ws.zip X).drop d := by
    unfold List.zip; exact List.drop_zipWith.symm
  have htz : (ws.take d).zip (X.take d) = (ws.zip X).take d := by
    unfold List.zip; exact List.take_zipWith.symm
  have e1 : mirrorW ws = ((ws.drop d).reverse.map fun w => -w) ++ (ws.take d ++ ws.drop d) := by
    simp only [mirrorW, ← hdd, List.take_append_drop]
  have e2 : mirrorX ws X = ((X.drop d).reverse.map fun z => GQ.ofRat (1/2) * GQ.conj z)
      ++ (X.take d ++ (X.drop d).map fun z => GQ.ofRat (1/2) * z) := by
    simp only [mirrorX, ← hdd, htake, List.append_assoc]
  rw [e1, e2, List.zip_append (by simp [hlen]), List.zip_append (by simp [hlen])]
  unfold linesOf
  rw [← hdz, ← htz, List.append_assoc]
  congr 1
  · rw [List.zip_map, zip_reverse' _ _ (by simp [hlen])]
    rfl
  · congr 1
    rw [← List.map_id (ws.drop d), List.zip_map, List.map_id]
    rfl

/-- **C09 (two-sided, DC).**  When a DC line is listed it is reported unchanged: `c(0) = X₀`. -/
theorem C09_two_sided_dc (ws : List ℚ) (X : List GQ) (x0 : GQ) (hlen : ws.length = X.length) :
    ((0 : ℚ), x0) ∈ (mirrorW (0 :: ws)).zip (mirrorX (0 :: ws) (x0 :: X)) := by
  rw [C09_two_sided _ _ (by simp [hlen])]
  simp [linesOf, dcCount]

/-- **C09 (two-sided, AC lines).**  Every AC line `(w, x)` appears as `c(w) = x/2` and `c(−w) = conj x / 2`. -/
theorem C09_two_sided_lines (ws : List ℚ) (X : List GQ) (hlen : ws.length = X.length) (w : ℚ) (x : GQ)
    (h : (w, x) ∈ (linesOf ws X).drop (dcCount ws)) :
    (w, halfOf x) ∈ (mirrorW ws).zip (mirrorX ws X) ∧
    (-w, halfOf (GQ.conj x)) ∈ (mirrorW ws).zip (mirrorX ws X) := by
  rw [C09_two_sided ws X hlen]
  constructor
  · apply List.mem_append_right
    exact List.mem_map.mpr ⟨(w, x), h, rfl⟩
  · apply List.mem_append_left
    apply List.mem_append_left
    exact List.mem_map.mpr ⟨(w, x), List.mem_reverse.mpr h, rfl⟩

/-! ### non-vacuity -/

/-- the separation hypothesis of `C09_once_partial` is met by the dyadic list `[0, 1/2, 1]`
with the default resolution -/
example : ∀ w1 ∈ ([0, 1/2, 1] : List ℚ), ∀ w2 ∈ ([0, 1/2, 1] : List ℚ), w1 ≠ w2 →
    2 * (1/1000 : ℚ) < |w1 - w2| := by
  intro w1 h1 w2 h2 hne
  simp only [List.mem_cons, List.mem_nil_iff, or_false] at h1 h2
  rcases h1 with rfl | rfl | rfl <;> rcases h2 with rfl | rfl | rfl <;> first | (exact absurd rfl hne) | norm_num [abs_of_pos, abs_of_neg]


/-! ## composition with C01 / C07: Kirchhoff's current law for the reported time functions -/

theorem lineValue_add (X Y : GQ) (c s : ℚ) : lineValue (X + Y) c s = lineValue X c s + lineValue Y c s := by
  simp only [lineValue, GQ.re_add, GQ.im_add]; ring

theorem lineValue_zero (c s : ℚ) : lineValue 0 c s = 0 := by simp [lineValue, GQ.re_zero, GQ.im_zero]

theorem lineValue_smul (r : ℚ) (X : GQ) (c s : ℚ) : lineValue (GQ.ofRat r * X) c s = r * lineValue X c s := by
  simp only [lineValue, GQ.ofRat, GQ.re_mul, GQ.im_mul]; ring

theorem forall₂_map_eq_mem {α β γ : Type} {R : α → β → Prop} {g : β → γ} {h : α → γ} :
    ∀ {l : List α} {bs : List β}, List.Forall₂ R l bs →
      (∀ a b, a ∈ l → b ∈ bs → R a b → g b = h a) → bs.map g = l.map h := by
  intro l bs hf
  induction hf with
  | nil => intro _; rfl
  | cons hab _ ih =>
    intro hR
    simp only [List.map_cons]
    rw [hR _ _ (List.mem_cons_self ..) (List.mem_cons_self ..) hab,
      ih (fun a b ha hb => hR a b (List.mem_cons_of_mem _ ha) (List.mem_cons_of_mem _ hb))]

theorem lineValue_sum {α : Type} (l : List α) (f : α → GQ) (c s : ℚ) :
    lineValue (l.map f).sum c s = (l.map fun a => lineValue (f a) c s).sum := by
  induction l with
  | nil => simp [lineValue_zero]
  | cons a l ih => simp [lineValue_add, ih]

/-- incidence of a component at node `n`, read from the component's own node list
(+1 first terminal, −1 second terminal) -/
def compInc (c : Component) (n : String) : ℚ :=
  (if c.nodes[0]? = some n then 1 else 0) - (if c.nodes[1]? = some n then 1 else 0)

/-- physical first→second current phasor of the branch with identifier `id`, from the values
the accessors report for the certificate `x` (`physCurrent` undoes the generator direction in
which a linear source reports its current) -/
def physOf (N : Net String GQ) (x : List GQ) (id : String) : GQ :=
  match N.get? id with
  | some b => b.e.physCurrent ((N.reportOf x).i id)
  | none => 0

theorem transformCircuit_check {T : Tables} {trig : Trig} {harm : Harm} {C : Circuit} {w wres : ℚ}
    {N : Net String GQ} (h : transformCircuit T trig harm C w wres = .ok N) : N.check = .ok () := by
  unfold transformCircuit at h
  obtain ⟨bs, _, h⟩ := bind_eq_ok.mp h
  obtain ⟨u, hu, h⟩ := bind_eq_ok.mp h
  simp [pure, Except.pure] at h
  subst h
  cases u; exact hu

/-- Kirchhoff's current law of one analysed frequency, summed over the *components* -/
theorem kcl_components (trig : Trig) (harm : Harm) (C : Circuit) (w wres : ℚ) (N : Net String GQ)
    (hN : transformCircuit Gen.tables trig harm C w wres = .ok N)
    (hsl : ∀ b ∈ N.branches, b.n1 ≠ b.n2) (x : List GQ)
    (hx : x.length = N.nodes.length + N.vsIds.length) (hsol : matVec N.mnaA x = N.mnaB) (n : String) :
    ((translated Gen.tables C.components).map fun c => GQ.ofRat (compInc c n) * physOf N x c.id).sum = 0 := by
  obtain ⟨hzero, hids⟩ := (Net.check_ok_iff N).mp (transformCircuit_check hN)
  have wf : N.WF := ⟨hids, hzero, hsl⟩
  have hkcl := (C01_sound N x wf hx hsol).2.2.kcl_all n
  unfold kclResidual at hkcl
  rw [← hkcl]
  have hf := (C07_position_independent Gen.tables trig harm C w wres N hN).1
  have hmap : (N.branches.map fun b => incidence b n * b.e.physCurrent ((N.reportOf x).i b.id))
      = (translated Gen.tables C.components).map fun c => GQ.ofRat (compInc c n) * physOf N x c.id := by
    refine forall₂_map_eq_mem hf ?_
    intro c b _ hb hcb
    obtain ⟨hid, h0, h1⟩ := C07_branch_id_terminals Gen.tables C07_table_wellformed trig harm c w wres b hcb
    have hget : N.get? c.id = some b := by rw [← hid]; exact get?_of_mem N hids hb
    have hinc : incidence b n = GQ.ofRat (compInc c n) := by
      unfold incidence compInc
      rw [h0, h1]
      by_cases e1 : b.n1 = n <;> by_cases e2 : b.n2 = n <;>
        simp [e1, e2, GQ.ofRat] <;> apply GQ.ext' <;> simp
    simp only [physOf, hget, hinc, hid]
  rw [hmap]

/-- one analysed frequency of a time-domain solution: the frequency, the unit `(c, s) = (cos w t, sin w t)`
of the instant considered, the network `transform_circuit` produced and a solution vector -/
structure FreqLine where
  w : ℚ
  c : ℚ
  s : ℚ
  N : Net String GQ
  x : List GQ

/-- the time function `Σ_k |J_k|·cos(w_k t + arg J_k)` of the physical current of component `id`
(`timeValue` of CC/Model/MultiFreq.lean over the per-frequency lines) -/
def currentAt (lines : List FreqLine) (id : String) : ℚ :=
  timeValue (lines.map fun l => (physOf l.N l.x id, l.c, l.s))

theorem currentAt_eq (lines : List FreqLine) (id : String) :
    currentAt lines id = (lines.map fun l => lineValue (physOf l.N l.x id) l.c l.s).sum := by
  simp [currentAt, timeValue, List.map_map, Function.comp_def]

/-- **C09 (Kirchhoff's current law at every instant), composed with C01 and C07.**  Take any circuit,
any list of analysed frequencies, and for each of them the network the model of `transform_circuit`
produces (without self-loop branch) and *any* vector solving the matrix equation the code builds
for it (whatever `numpy.linalg.solve` returns).  Then at every node `n` the time functions of the
physical branch currents — built from the currents the accessors report — sum to zero, for every
choice of the units `(c, s)`, i.e. at every instant.  (The physical current of a linear source is
minus its reported current at the frequencies where it is active: the time function of the
*reported* current of such a source mixes the two directions — finding C09-4.) -/
theorem C09_kcl_instant_circuit (trig : Trig) (harm : Harm) (C : Circuit) (wres : ℚ) (lines : List FreqLine)
    (hl : ∀ l ∈ lines, transformCircuit Gen.tables trig harm C l.w wres = .ok l.N ∧
      (∀ b ∈ l.N.branches, b.n1 ≠ b.n2) ∧ l.x.length = l.N.nodes.length + l.N.vsIds.length ∧
      matVec l.N.mnaA l.x = l.N.mnaB) (n : String) :
    ((translated Gen.tables C.components).map fun c => compInc c n * currentAt lines c.id).sum = 0 := by
  have h1 : ((translated Gen.tables C.components).map fun c => compInc c n * currentAt lines c.id)
      = (translated Gen.tables C.components).map fun c =>
          (lines.map fun l => lineValue (GQ.ofRat (compInc c n) * physOf l.N l.x c.id) l.c l.s).sum := by
    apply List.map_congr_left
    intro c _
    rw [currentAt_eq, ← List.sum_map_mul_left]
    apply congrArg; apply List.map_congr_left; intro l _
    rw [lineValue_smul]
  rw [h1, sum_map_comm]
  apply List.sum_eq_zero
  intro y hy
  obtain ⟨l, hlm, rfl⟩ := List.mem_map.mp hy
  obtain ⟨hN, hsl, hx, hsol⟩ := hl l hlm
  rw [← lineValue_sum, kcl_components trig harm C l.w wres l.N hN hsl l.x hx hsol n, lineValue_zero]

/-! ## composition with C01 / C04: superposition of the reported time functions -/

/-- one analysed frequency of a two-source decomposition in skeleton form (C04): the skeleton
`bs` (topology, ids, immittances at this frequency), the source assignments `s1`, `s2` of the two
parts, and solution vectors of the three systems the code builds -/
structure SuperLine (L : Type) where
  c : ℚ
  s : ℚ
  bs : List (Branch L GQ)
  z : L
  s1 : String → GQ
  s2 : String → GQ
  x1 : List GQ
  x2 : List GQ
  x : List GQ

namespace SuperLine
variable {L : Type} (l : SuperLine L)
def N1 : Net L GQ := ⟨withSrc l.bs l.s1, l.z⟩
def N2 : Net L GQ := ⟨withSrc l.bs l.s2, l.z⟩
def N : Net L GQ := ⟨withSrc l.bs fun id => l.s1 id + l.s2 id, l.z⟩
end SuperLine

/-- **C09 (superposition of sources), composed with C01 and C04.**  If at every analysed frequency
the three matrix equations (part 1, part 2, both) are solved by the given vectors and the full
network is well-posed, then the time function of every node potential and of every branch voltage
of the full circuit is the sum of the time functions of the two parts — at every instant. -/
theorem C09_superpose_sources_reported {L : Type} [DecidableEq L] [LabelOrd L] (lines : List (SuperLine L))
    (hl : ∀ l ∈ lines, l.N1.WF ∧ l.N2.WF ∧ l.N.WF ∧ WellPosed l.N ∧
      l.x1.length = l.N1.nodes.length + l.N1.vsIds.length ∧
      l.x2.length = l.N2.nodes.length + l.N2.vsIds.length ∧
      l.x.length = l.N.nodes.length + l.N.vsIds.length ∧
      matVec l.N1.mnaA l.x1 = l.N1.mnaB ∧ matVec l.N2.mnaA l.x2 = l.N2.mnaB ∧
      matVec l.N.mnaA l.x = l.N.mnaB) :
    (∀ n, (∀ l ∈ lines, n ∈ l.N.allLabels) →
      timeValue (lines.map fun l => ((l.N.reportOf l.x).pot n, l.c, l.s))
        = timeValue (lines.map fun l => ((l.N1.reportOf l.x1).pot n, l.c, l.s))
          + timeValue (lines.map fun l => ((l.N2.reportOf l.x2).pot n, l.c, l.s))) ∧
    (∀ id, (∀ l ∈ lines, ∃ b ∈ l.N.branches, b.id = id) →
      timeValue (lines.map fun l => ((l.N.reportOf l.x).v id, l.c, l.s))
        = timeValue (lines.map fun l => ((l.N1.reportOf l.x1).v id, l.c, l.s))
          + timeValue (lines.map fun l => ((l.N2.reportOf l.x2).v id, l.c, l.s))) := by
  have key : ∀ l ∈ lines,
      (∀ n ∈ l.N.allLabels, (l.N.reportOf l.x).pot n = (l.N1.reportOf l.x1).pot n + (l.N2.reportOf l.x2).pot n) ∧
      (∀ b ∈ l.N.branches, (l.N.reportOf l.x).v b.id = (l.N1.reportOf l.x1).v b.id + (l.N2.reportOf l.x2).v b.id) := by
    intro l hlm
    obtain ⟨w1, w2, w, hw, h1, h2, h3, e1, e2, e3⟩ := hl l hlm
    exact C04_reported_superpose l.bs l.z l.s1 l.s2 w1 w2 w hw l.x1 l.x2 l.x h1 h2 h3 e1 e2 e3
  constructor
  · intro n hn
    simp only [timeValue, List.map_map, Function.comp_def]
    rw [← List.sum_map_add]
    apply congrArg; apply List.map_congr_left; intro l hlm
    rw [(key l hlm).1 n (hn l hlm), lineValue_add]
  · intro id hid
    simp only [timeValue, List.map_map, Function.comp_def]
    rw [← List.sum_map_add]
    apply congrArg; apply List.map_congr_left; intro l hlm
    obtain ⟨b, hb, rfl⟩ := hid l hlm
    rw [(key l hlm).2 b hb, lineValue_add]

end CC
