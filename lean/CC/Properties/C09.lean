/-
  Property C09 — multi-frequency steady state is the superposition of single-frequency solutions.

  Model: CC/Model/MultiFreq.lean (frequency list, source gates, line sums, spectrum mirror).
    C09_freqs_sorted, C09_freqs_mem        the list is strictly increasing; membership
                                           characterisation (k = 0 included)
    C09_once_statement                     "every physical frequency is analysed once" — FALSE on the
    C09_once_counterexample                unchanged code (frequencies merged by exact equality);
    C09_once_partial                       true when distinct listed frequencies are > 2·w_res apart
    C09_line                               the one-sided series carries the per-frequency phasors
    C09_time_function, C09_time_value      |X|·cos(θ + arg X) = Re(X·e^{jθ}) = X.re·cos θ − X.im·sin θ  (over ℂ)
    C09_kcl_instant                        KCL per frequency ⇒ KCL for the time functions at every instant
    C09_superpose_sources                  line-wise superposition ⇒ superposition of the time functions
    C09_source_reconstruction              a line A·e^{jφ} contributes A·cos(k w0 t + φ)
    C09_two_sided_mirror                   the mirror of solution.py:117-119 applied to line values
    C09_two_sided_dc_counterexample        … halves the DC line (c(0) = X₀/2 ≠ X₀)
    C09_two_sided_as_written_counterexample  … and as written it raises for every non-empty list
-/
import CC.Proofs.MultiFreqLemmas
import Mathlib.Analysis.SpecialFunctions.Complex.Arg
import Mathlib.Tactic.NormNum
set_option linter.unusedSectionVars false
set_option linter.unusedVariables false

namespace CC

/-! ## the frequency list -/

theorem frequencies_ok_of_all {wmax : ℚ} {cs : List FComp} {l : List ℚ}
    (h : allFrequencies wmax cs = .ok l) {c : FComp} (hc : c ∈ cs) :
    ∃ lc, c.frequencies wmax = .ok lc := by
  induction cs generalizing l with
  | nil => simp at hc
  | cons d cs ih =>
    unfold allFrequencies at h
    cases hd : d.frequencies wmax with
    | error e => rw [hd] at h; cases h
    | ok ld =>
      rw [hd] at h
      cases hr : allFrequencies wmax cs with
      | error e => rw [hr] at h; cases h
      | ok r =>
        rcases List.mem_cons.mp hc with rfl | hc'
        · exact ⟨ld, hd⟩
        · exact ih hr hc'

/-- **C09 (frequency list, order).**  The analysed frequencies are strictly increasing — in
particular no frequency is listed twice. -/
theorem C09_freqs_sorted (cs : List FComp) (wmax : ℚ) (ws : List ℚ)
    (h : frequencyComponents cs wmax = .ok ws) : ws.Pairwise (· < ·) := by
  unfold frequencyComponents at h
  cases hl : allFrequencies wmax cs with
  | error e => rw [hl] at h; cases h
  | ok l =>
    rw [hl] at h; cases h
    apply pairwise_lt_of_le_of_nodup (sortQ_sorted _)
    exact (sortQ_perm _).nodup_iff.mpr (nodup_dedupL l)

/-- **C09 (frequency list, content).**  `w` is analysed iff it is the frequency of a
single-frequency source, or a harmonic `k·w0` (`k = 0, 1, 2, …`) of a periodic source with
`k ≤ ⌊w_max/w0⌋` — for `w0 > 0` that is `k·w0 ≤ w_max` (`harmonic_le_iff`). -/
theorem C09_freqs_mem (cs : List FComp) (wmax : ℚ) (ws : List ℚ)
    (h : frequencyComponents cs wmax = .ok ws) (w : ℚ) :
    w ∈ ws ↔ ∃ c ∈ cs, ∃ w0, c.w = some w0 ∧
      ((c.isPeriodic = false ∧ w = w0) ∨
       (c.isPeriodic = true ∧ ∃ k : ℕ, (k : ℤ) ≤ (wmax / w0).floor ∧ w = w0 * (k : ℚ))) := by
  unfold frequencyComponents at h
  cases hl : allFrequencies wmax cs with
  | error e => rw [hl] at h; cases h
  | ok l =>
    rw [hl] at h; cases h
    rw [mem_sortQ, mem_dedupL, mem_allFrequencies hl]
    constructor
    · rintro ⟨c, hc, lc, hlc, hw⟩
      refine ⟨c, hc, ?_⟩
      unfold FComp.frequencies at hlc
      cases hcw : c.w with
      | none => rw [hcw] at hlc; cases hlc; simp at hw
      | some w0 =>
        rw [hcw] at hlc
        refine ⟨w0, rfl, ?_⟩
        by_cases hp : c.isPeriodic = true
        · simp only [hp, if_true] at hlc
          by_cases h0 : w0 = 0
          · simp [h0] at hlc
          · simp only [h0, if_false] at hlc
            cases hlc
            exact Or.inr ⟨hp, (mem_harmonicList w0 wmax w).mp hw⟩
        · simp only [hp, if_false] at hlc
          cases hlc
          simp only [List.mem_singleton] at hw
          exact Or.inl ⟨by simpa using hp, hw⟩
    · rintro ⟨c, hc, w0, hcw, hcase⟩
      -- the whole list was computed without an exception, so this component's list exists
      have hex : ∃ lc, c.frequencies wmax = .ok lc := frequencies_ok_of_all hl hc
      obtain ⟨lc, hlc⟩ := hex
      refine ⟨c, hc, lc, hlc, ?_⟩
      unfold FComp.frequencies at hlc
      rw [hcw] at hlc
      rcases hcase with ⟨hp, rfl⟩ | ⟨hp, hk⟩
      · simp only [hp, Bool.false_eq_true, if_false] at hlc
        cases hlc; simp
      · simp only [hp, if_true] at hlc
        by_cases h0 : w0 = 0
        · simp [h0] at hlc
        · simp only [h0, if_false] at hlc
          cases hlc
          exact (mem_harmonicList w0 wmax w).mpr hk

/-! ## every physical frequency is analysed once -/

/-- **C09 (once), full statement.**  No source contributes the same harmonic at two different
analysed frequencies (a single-frequency source is active at one analysed frequency only). -/
def C09_once_statement : Prop :=
  ∀ (cs : List FComp) (wmax wres : ℚ) (ws : List ℚ), 0 ≤ wres →
    frequencyComponents cs wmax = .ok ws →
    ∀ c ∈ cs, ∀ s, c.toSrc? = some s → ∀ w1 ∈ ws, ∀ w2 ∈ ws, ∀ n,
      s.activeIndex w1 wres = some n → s.activeIndex w2 wres = some n → w1 = w2

/-- **C09 (finding).**  Two sinusoidal sources at `w = 1` and `w = 1 + 10⁻⁹` (resolution `10⁻³`):
both frequencies are analysed (the set merges only *equal* values) and the first source is
active at both — its response is counted twice. -/
theorem C09_once_counterexample : ¬ C09_once_statement := by
  intro h
  let c1 : FComp := ⟨"ac_voltage_source", some 1⟩
  let c2 : FComp := ⟨"ac_voltage_source", some (1 + 1 / 10 ^ 9)⟩
  have hok : ∃ ws, frequencyComponents [c1, c2] 10 = .ok ws := by
    cases hf : frequencyComponents [c1, c2] 10 with
    | ok ws => exact ⟨ws, rfl⟩
    | error e => simp [frequencyComponents, allFrequencies, FComp.frequencies, FComp.isPeriodic, c1, c2] at hf
  obtain ⟨ws, hws⟩ := hok
  have m1 : (1 : ℚ) ∈ ws :=
    (C09_freqs_mem _ _ _ hws 1).mpr ⟨c1, by simp, 1, rfl, Or.inl ⟨by simp [FComp.isPeriodic, c1], rfl⟩⟩
  have m2 : (1 + 1 / 10 ^ 9 : ℚ) ∈ ws :=
    (C09_freqs_mem _ _ _ hws _).mpr ⟨c2, by simp, _, rfl, Or.inl ⟨by simp [FComp.isPeriodic, c2], rfl⟩⟩
  have a1 : (⟨false, 1⟩ : Src).activeIndex 1 (1 / 1000) = some 0 := by
    simp [Src.activeIndex, gateSingle, mfAbsQ]
  have a2 : (⟨false, 1⟩ : Src).activeIndex (1 + 1 / 10 ^ 9) (1 / 1000) = some 0 := by
    simp [Src.activeIndex, gateSingle, mfAbsQ]; norm_num
  have := h [c1, c2] 10 (1 / 1000) ws (by norm_num) hws c1 (by simp) ⟨false, 1⟩
    (by simp [FComp.toSrc?, FComp.isPeriodic, c1]) 1 m1 _ m2 0 a1 a2
  norm_num at this

theorem mfAbsQ_eq_abs (x : ℚ) : mfAbsQ x = |x| := by
  unfold mfAbsQ
  split
  · rename_i h; exact (abs_of_nonneg h).symm
  · rename_i h; exact (abs_of_neg (not_le.mp h)).symm

/-- **C09 (once), the part that holds.**  If any two *different* analysed frequencies are more
than `2·w_res` apart, no source contributes the same harmonic at two of them. -/
theorem C09_once_partial (ws : List ℚ) (wres : ℚ) (hres : 0 ≤ wres)
    (sep : ∀ w1 ∈ ws, ∀ w2 ∈ ws, w1 ≠ w2 → 2 * wres < |w1 - w2|)
    (s : Src) (hs : s.periodic = true → 0 < s.w) (w1 w2 : ℚ) (h1 : w1 ∈ ws) (h2 : w2 ∈ ws) (n : ℤ)
    (a1 : s.activeIndex w1 wres = some n) (a2 : s.activeIndex w2 wres = some n) : w1 = w2 := by
  by_contra hne
  have hsep := sep w1 h1 w2 h2 hne
  unfold Src.activeIndex at a1 a2
  by_cases hp : s.periodic = true
  · have h0 := hs hp
    simp only [hp, if_true] at a1 a2
    by_cases g1 : gatePeriodic w1 s.w wres = true
    · by_cases g2 : gatePeriodic w2 s.w wres = true
      · simp only [g1, g2, if_true, Option.some.injEq] at a1 a2
        unfold gatePeriodic at g1 g2
        rw [a1] at g1; rw [a2] at g2
        simp only [Bool.not_eq_true', decide_eq_false_iff_not, not_lt, mfAbsQ_eq_abs] at g1 g2
        -- |w_i/w0 − n| ≤ w_res/w0  ⇒  |w_i − n·w0| ≤ w_res
        have e1 : |w1 - n * s.w| ≤ wres := by
          have : w1 - n * s.w = (w1 / s.w - n) * s.w := by field_simp
          rw [this, abs_mul, abs_of_pos h0]
          calc |w1 / s.w - ↑n| * s.w ≤ wres / s.w * s.w := by
                exact mul_le_mul_of_nonneg_right g1 (le_of_lt h0)
            _ = wres := by field_simp
        have e2 : |w2 - n * s.w| ≤ wres := by
          have : w2 - n * s.w = (w2 / s.w - n) * s.w := by field_simp
          rw [this, abs_mul, abs_of_pos h0]
          calc |w2 / s.w - ↑n| * s.w ≤ wres / s.w * s.w := by
                exact mul_le_mul_of_nonneg_right g2 (le_of_lt h0)
            _ = wres := by field_simp
        have : |w1 - w2| ≤ 2 * wres := by
          have : w1 - w2 = (w1 - n * s.w) - (w2 - n * s.w) := by ring
          rw [this]
          calc |(w1 - n * s.w) - (w2 - n * s.w)| ≤ |w1 - n * s.w| + |w2 - n * s.w| := abs_sub _ _
            _ ≤ 2 * wres := by linarith
        linarith
      · simp [g2] at a2
    · simp [g1] at a1
  · simp only [hp, if_false, Bool.false_eq_true] at a1 a2
    by_cases g1 : gateSingle w1 s.w wres = true
    · by_cases g2 : gateSingle w2 s.w wres = true
      · unfold gateSingle at g1 g2
        simp only [Bool.not_eq_true', decide_eq_false_iff_not, not_lt, mfAbsQ_eq_abs] at g1 g2
        have : |w1 - w2| ≤ 2 * wres := by
          have : w1 - w2 = (w1 - s.w) - (w2 - s.w) := by ring
          rw [this]
          calc |(w1 - s.w) - (w2 - s.w)| ≤ |w1 - s.w| + |w2 - s.w| := abs_sub _ _
            _ ≤ 2 * wres := by linarith
        linarith
      · simp [g2] at a2
    · simp [g1] at a1

/-! ## spectral lines and time functions -/

/-- **C09 (line).**  The one-sided series reports, at the `k`-th analysed frequency, the value
the per-frequency (peak) phasor solution reports there: frequency axis and line values are
passed through unchanged, position by position. -/
theorem C09_line (ws : List ℚ) (X : List GQ) (k : ℕ) :
    (oneSided ws X).1[k]? = ws[k]? ∧ (oneSided ws X).2[k]? = X[k]? := ⟨rfl, rfl⟩

open Complex in
/-- **C09 (time function).**  `|X|·cos(θ + arg X) = Re(X·e^{jθ})` for every complex `X` and real `θ`
(also for `X = 0`, where numpy's `angle` returns 0). -/
theorem C09_time_function (X : ℂ) (θ : ℝ) :
    ‖X‖ * Real.cos (θ + arg X) = (X * exp (θ * I)).re := by
  conv_rhs => rw [← norm_mul_exp_arg_mul_I X]
  rw [mul_assoc, ← Complex.exp_add, ← add_mul, add_comm, ← ofReal_add, re_ofReal_mul,
    exp_ofReal_mul_I_re]

open Complex in
/-- **C09 (what the executable model sums).**  `Re(X·e^{jθ}) = X.re·cos θ − X.im·sin θ`:
the expression `lineValue` evaluates from `c = cos θ`, `s = sin θ`. -/
theorem C09_time_value (X : ℂ) (θ : ℝ) :
    ‖X‖ * Real.cos (θ + arg X) = X.re * Real.cos θ - X.im * Real.sin θ := by
  rw [C09_time_function, mul_re, exp_ofReal_mul_I_re, exp_ofReal_mul_I_im]

theorem lineValue_eq (X : GQ) (c s : ℚ) : lineValue X c s = X.re * c - X.im * s := rfl

open Complex in
/-- **C09 (a periodic source's own line).**  A line `A·e^{jφ}` with *real* amplitude `A` of either
sign (the harmonic `amplitude(k)`, `phase(k)` of C08) contributes `A·cos(θ + φ)`; summed over
`k ≤ ⌊w_max/w0⌋` with `θ = k·w0·t` this is the truncated Fourier sum of the source. -/
theorem C09_source_reconstruction (A φ θ : ℝ) :
    ((A : ℂ) * exp (φ * I) * exp (θ * I)).re = A * Real.cos (θ + φ) := by
  rw [mul_assoc, ← Complex.exp_add, ← add_mul, ← ofReal_add, re_ofReal_mul, exp_ofReal_mul_I_re,
    add_comm]

theorem re_list_sum (l : List ℂ) : l.sum.re = (l.map Complex.re).sum := by
  induction l with
  | nil => simp
  | cons a l ih => simp [ih]

/-- **C09 (Kirchhoff's current law at every instant).**  `lines` lists the analysed
frequencies: for each, the unit `u = e^{j w t}` and the physical branch currents `J b` of that
frequency's solution.  If Kirchhoff's current law holds at node `n` in every single-frequency
solution (C01), it holds for the time functions `i_b(t) = Σ_k Re(J_k b · u_k)` — for every
choice of the units, i.e. at every instant `t`.  `inc b` is the incidence (+1, −1, 0) of
branch `b` at the node. -/
theorem C09_kcl_instant {B : Type} (branches : List B) (inc : B → ℝ) (lines : List (ℂ × (B → ℂ)))
    (hk : ∀ l ∈ lines, (branches.map fun b => (inc b : ℂ) * l.2 b).sum = 0) :
    (branches.map fun b => inc b * (lines.map fun l => (l.2 b * l.1).re).sum).sum = 0 := by
  have swap : (branches.map fun b => inc b * (lines.map fun l => (l.2 b * l.1).re).sum).sum
      = (lines.map fun l => (branches.map fun b => inc b * (l.2 b * l.1).re).sum).sum := by
    induction lines with
    | nil => simp
    | cons l ls ih =>
      have ih' := ih (fun l hl => hk l (List.mem_cons_of_mem _ hl))
      simp only [List.map_cons, List.sum_cons, mul_add, List.sum_map_add]
      rw [ih']
  rw [swap]
  apply List.sum_eq_zero
  intro x hx
  obtain ⟨l, hl, rfl⟩ := List.mem_map.mp hx
  have h := hk l hl
  have : (branches.map fun b => inc b * (l.2 b * l.1).re).sum
      = ((branches.map fun b => (inc b : ℂ) * l.2 b).sum * l.1).re := by
    rw [← List.sum_map_mul_right, re_list_sum, List.map_map]
    apply congrArg; apply List.map_congr_left; intro b _
    simp only [Function.comp_apply]
    rw [mul_assoc, Complex.re_ofReal_mul]
  rw [this, h, zero_mul, Complex.zero_re]

/-- **C09 (superposition of sources).**  If at every analysed frequency the line is the sum of the
lines obtained with each source alone (C04 at that frequency — which requires that no other
frequency within the resolution is analysed separately, `C09_once_partial`), the time function
is the sum of the time functions with each source alone. -/
theorem C09_superpose_sources {S : Type} (sources : List S) (lines : List (ℂ × ℂ × (S → ℂ)))
    (hl : ∀ l ∈ lines, l.2.1 = (sources.map l.2.2).sum) :
    (lines.map fun l => (l.2.1 * l.1).re).sum
      = (sources.map fun s => (lines.map fun l => (l.2.2 s * l.1).re).sum).sum := by
  induction lines with
  | nil => simp
  | cons l ls ih =>
    have ih' := ih (fun l hl' => hl l (List.mem_cons_of_mem _ hl'))
    simp only [List.map_cons, List.sum_cons, List.sum_map_add]
    rw [ih', hl l (by simp), ← List.sum_map_mul_right, re_list_sum, List.map_map]
    rfl

/-! ## the two-sided spectrum -/

/-- the one-sided lines as (frequency, value) pairs -/
def linesOf (ws : List ℚ) (X : List GQ) : List (ℚ × GQ) := ws.zip X

def halfOf (z : GQ) : GQ := GQ.ofRat (1/2) * z

theorem zip_reverse' {α β : Type} (l1 : List α) (l2 : List β) (h : l1.length = l2.length) :
    l1.reverse.zip l2.reverse = (l1.zip l2).reverse := by
  unfold List.zip; exact (List.reverse_zipWith h).symm

/-- **C09 (two-sided mirror).**  The two lines of solution.py:117-119, applied to line values:
the two-sided series consists of `(−w_k, conj X_k / 2)` for `k = n−1, …, 1` followed by
`(w_k, X_k / 2)` for `k = 0, …, n−1`. -/
theorem C09_two_sided_mirror (ws : List ℚ) (X : List GQ) (hlen : ws.length = X.length) :
    (mirrorW ws).zip (mirrorX X)
      = (((linesOf ws X).drop 1).reverse.map fun p => (-p.1, halfOf (GQ.conj p.2)))
        ++ (linesOf ws X).map fun p => (p.1, halfOf p.2) := by
  unfold mirrorW mirrorX linesOf
  rw [List.map_append, List.zip_append (by simp [hlen])]
  congr 1
  · have hd : (ws.drop 1).zip (X.drop 1) = (ws.zip X).drop 1 := by
      unfold List.zip; exact List.drop_zipWith.symm
    rw [List.map_map, List.zip_map, zip_reverse' _ _ (by simp [hlen]), hd]
    rfl
  · rw [← List.map_id ws, List.zip_map]
    simp only [List.map_id]
    rfl

/-- **C09 (finding: the mirror halves the DC line).**  For a circuit with a DC component the
two-sided series has `c(0) = X₀/2`, not `X₀`. -/
theorem C09_two_sided_dc_counterexample :
    ∃ (ws : List ℚ) (X : List GQ), ws = [0, 1] ∧ X = [⟨2, 0⟩, ⟨1, 1⟩] ∧
      (mirrorW ws).zip (mirrorX X) = [(-1, ⟨1/2, -1/2⟩), (0, ⟨1, 0⟩), (1, ⟨1/2, 1/2⟩)] ∧
      ((0 : ℚ), (⟨2, 0⟩ : GQ)) ∉ (mirrorW ws).zip (mirrorX X) := by
  refine ⟨_, _, rfl, rfl, ?_, ?_⟩
  · simp [mirrorW, mirrorX, GQ.conj, GQ.ofRat, GQ.mul_def]; norm_num
  · simp [mirrorW, mirrorX, GQ.conj, GQ.ofRat, GQ.mul_def]

/-- **C09 (two-sided), statement the property demands of the code as written.** -/
def C09_two_sided_statement : Prop :=
  ∀ ws : List ℚ, ∃ l, twoSidedAsWritten ws = .ok l

/-- **C09 (finding: the two-sided option raises).**  As written, the mirror is applied to the
array of solution objects: for every non-empty frequency list the constructor raises `TypeError`. -/
theorem C09_two_sided_as_written_counterexample : ¬ C09_two_sided_statement := by
  intro h
  obtain ⟨l, hl⟩ := h [0]
  simp [twoSidedAsWritten] at hl

/-! ### non-vacuity -/

/-- the separation hypothesis of `C09_once_partial` is met by the dyadic list `[0, 1/2, 1]`
with the default resolution -/
example : ∀ w1 ∈ ([0, 1/2, 1] : List ℚ), ∀ w2 ∈ ([0, 1/2, 1] : List ℚ), w1 ≠ w2 →
    2 * (1/1000 : ℚ) < |w1 - w2| := by
  intro w1 h1 w2 h2 hne
  simp only [List.mem_cons, List.mem_nil_iff, or_false] at h1 h2
  rcases h1 with rfl | rfl | rfl <;> rcases h2 with rfl | rfl | rfl <;> first | (exact absurd rfl hne) | norm_num [abs_of_pos, abs_of_neg]

end CC
