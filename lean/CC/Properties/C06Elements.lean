/-
  Property C06, round 5b — "follows jwL and 1/(jwC) over frequency, and obeys series/parallel composition":
  the element clause of the property text, the composition lemmas for explicit two-branch networks, and the
  wrappers of Circuit/impedance.py.

  Spec level (CC/Spec/Port.lean, any field, any labels, any reference node `g`):
    C06_single_element_impedance   the port impedance of ONE branch between its own terminals is the element's
                                   impedance `Zfin` (`Z` of an impedance record — sources deactivated, internal impedance
                                   kept —, `1/Y` of an admittance record with `Y ≠ 0`): existence AND value;
    C06_portZ_series               two branches `a — m — b`: `Z₁ + Z₂` (existence and value);
    C06_portZ_parallel             two branches `a — b`, `Z₁ + Z₂ ≠ 0`: `Z₁·Z₂/(Z₁ + Z₂)` (existence and value), and
                                   `1/Z = 1/Z₁ + 1/Z₂` when both are non-zero (`C06_portZ_parallel_harmonic`);
  Model level (CC/Model/Port.lean):
    C06_model_value_of_portZ       whenever `open_circuit_impedance` returns a number and `PortZ` is `z'`, the number is `z'`;
    C06_single_element_model / C06_series_model / C06_parallel_model   … hence the three closed forms for the model;
  Circuit level (translators of Circuit/transformers.py as regenerated in CC/Gen, via C07_faithful_*):
    C06_capacitor_impedance        a capacitor component at `w ≠ 0`, `C ≠ 0`: branch with `PortZ = 1/(j·w·C)`;
    C06_inductance_impedance       an inductance component: `j·w·L` (also at `w = 0`: a short circuit, `0`);
    C06_resistor_impedance         a resistor component: `R`;
    C06_capacitor_dc_open          a capacitor at `w = 0` is an open circuit: NO port impedance (the unit current has no path);
  Wrappers (Circuit/impedance.py; `sweep`, `dcResistance` of CC/Model/Port.lean):
    C06_sweep_pointwise            `sweep f nets = ok zs` iff `zs` is, entry by entry, `f` of the network (`none` for `np.inf`);
    C06_sweep_error                … and raises iff some network raises (the first such exception);
    C06_sweep_map                  when `f` returns `g n` on every network: `sweep f nets = nets.map g`;
    C06_dcResistance_eq            `dcResistance = re (f net₀)`, the one-frequency sweep at the `w = 0` network.
-/
import CC.Properties.C06Replace
import CC.Properties.C07
set_option linter.unusedSectionVars false
set_option linter.unusedVariables false
set_option linter.unnecessarySeqFocus false

namespace CC
section spec
variable {L K : Type} [DecidableEq L] [LabelOrd L] [Field K] [DecidableEq K]

theorem eqsInj1_iff (b1 : Branch L K) (z : L) (R : Report L K) (inj : L → K) :
    EqsInj [b1] z R inj ↔
      R.pot z = 0 ∧ voltResidual R b1 = 0 ∧ b1.e.lawResidual (R.v b1.id) (R.i b1.id) = 0 ∧
      ∀ n, incidence b1 n * b1.e.physCurrent (R.i b1.id) = inj n := by
  constructor
  · intro h
    refine ⟨h.ref_zero, h.volt b1 (by simp), h.law b1 (by simp), fun n => ?_⟩
    have := h.kcl n
    simpa using this
  · rintro ⟨h0, v1, l1, hk⟩
    refine ⟨h0, ?_, ?_, fun n => ?_⟩
    · intro b hb; simp only [List.mem_singleton] at hb; subst hb; exact v1
    · intro b hb; simp only [List.mem_singleton] at hb; subst hb; exact l1
    · simpa using hk n

theorem eqsInj2_iff (b1 b2 : Branch L K) (z : L) (R : Report L K) (inj : L → K) :
    EqsInj [b1, b2] z R inj ↔
      R.pot z = 0 ∧ (voltResidual R b1 = 0 ∧ voltResidual R b2 = 0) ∧
      (b1.e.lawResidual (R.v b1.id) (R.i b1.id) = 0 ∧ b2.e.lawResidual (R.v b2.id) (R.i b2.id) = 0) ∧
      ∀ n, incidence b1 n * b1.e.physCurrent (R.i b1.id) + incidence b2 n * b2.e.physCurrent (R.i b2.id) = inj n := by
  constructor
  · intro h
    refine ⟨h.ref_zero, ⟨h.volt b1 (by simp), h.volt b2 (by simp)⟩, ⟨h.law b1 (by simp), h.law b2 (by simp)⟩,
      fun n => ?_⟩
    have := h.kcl n
    simp only [List.map_cons, List.map_nil, List.sum_cons, List.sum_nil, add_zero] at this
    exact this
  · rintro ⟨h0, ⟨v1, v2⟩, ⟨l1, l2⟩, hk⟩
    refine ⟨h0, ?_, ?_, fun n => ?_⟩
    · intro b hb
      simp only [List.mem_cons, List.not_mem_nil, or_false] at hb
      rcases hb with rfl | rfl <;> assumption
    · intro b hb
      simp only [List.mem_cons, List.not_mem_nil, or_false] at hb
      rcases hb with rfl | rfl <;> assumption
    · simp only [List.map_cons, List.map_nil, List.sum_cons, List.sum_nil, add_zero]
      exact hk n

/-- the law of a source-free branch that is not an (ideal) current source / open circuit: `v = Z·i` with the
element's impedance `Zfin` (`Z` of an impedance record, `1/Y` of an admittance record) -/
theorem law_zs_Zfin (e : Elem K) (h : e.isIdealCS = false) (v i : K) :
    e.zeroSources.lawResidual v i = 0 ↔ v = e.Zfin * i := by
  cases e with
  | norton Z V => rw [law_zs_norton]; rfl
  | thevenin Y I =>
    have hY : Y ≠ 0 := by simpa [Elem.isIdealCS] using h
    rw [law_zs_thevenin]
    simp only [Elem.Zfin, hY, if_false]
    constructor
    · intro h; rw [h]; field_simp
    · intro h; rw [h]; field_simp

/-- from a solution with the reference at `z`, one with the reference at any `g`, as a solution of the probe network -/
theorem probe_exists_of_eqsInj (N : Net L K) (pid : String) (hp : pid ∉ N.ids) (a b z : L) (R : Report L K)
    (h : EqsInj (zs N.branches) z R (injAB a b 1)) :
    ∃ S : Report L K, CircuitEqs (probeNet N pid a b 1) S :=
  ⟨_, probe_of_eqsInj N pid hp a b 1 _ (eqsInj_shift N.zero h)⟩

/-- **C06 (the impedance of a single element).**  The network that consists of ONE branch from `a` to `b` (any record
that is not an ideal current source / open circuit; any reference node `g`; a source's value is irrelevant — it is
deactivated — and its internal impedance is kept) has a port impedance between `a` and `b`, and it is the element's
impedance `Zfin`: `Z` for an impedance record `(Z, V)`, `1/Y` for an admittance record `(Y, I)`.  With the records the
translators write (`C06_capacitor_impedance`, `C06_inductance_impedance`, `C06_resistor_impedance`) this is
"an inductor contributes `jwL`, a capacitor `1/(jwC)`". -/
theorem C06_single_element_impedance (g a b : L) (id ty pid : String) (e : Elem K)
    (hcs : e.isIdealCS = false) (hab : a ≠ b) (hpid : pid ≠ id) :
    PortZ (⟨[⟨a, b, id, ty, e⟩], g⟩ : Net L K) pid a b e.Zfin := by
  have hp : pid ∉ (⟨[⟨a, b, id, ty, e⟩], g⟩ : Net L K).ids := by simp [Net.ids, hpid]
  have hzs : zs (⟨[⟨a, b, id, ty, e⟩], g⟩ : Net L K).branches = [⟨a, b, id, ty, e.zeroSources⟩] := rfl
  have hba : b ≠ a := fun h => hab h.symm
  refine ⟨?_, fun R hR => ?_⟩
  · apply probe_exists_of_eqsInj _ pid hp a b b
      (⟨fun n => if n = a then e.Zfin else 0, fun _ => e.Zfin, fun _ => 1⟩ : Report L K)
    rw [hzs, eqsInj1_iff]
    refine ⟨by simp [hba], by simp [voltResidual, hba], ?_, fun n => ?_⟩
    · rw [law_zs_Zfin e hcs]; simp
    · simp only [zs_not_lossy, incidence, injAB]; ring
  · obtain ⟨h, hi, _⟩ := (probe_iff _ pid a b 1 R).mp hR
    rw [hzs, eqsInj1_iff] at h
    obtain ⟨_, v1, l1, hk⟩ := h
    have ka := hk a
    simp only [zs_not_lossy, incidence, injAB, if_true, hba, if_false, hi] at ka
    simp only [voltResidual] at v1
    rw [law_zs_Zfin e hcs] at l1
    simp only at l1
    have hi1 : R.i id = 1 := by linear_combination ka
    rw [hi1] at l1
    linear_combination l1 - v1

/-- **C06 (series composition of two branches).**  Two branches in series, `a — m — b` (neither an ideal current
source / open circuit; any reference node): the port impedance between `a` and `b` exists and is `Z₁ + Z₂`. -/
theorem C06_portZ_series (g a m b : L) (id1 ty1 id2 ty2 pid : String) (e1 e2 : Elem K)
    (h1 : e1.isIdealCS = false) (h2 : e2.isIdealCS = false) (hab : a ≠ b) (ham : a ≠ m) (hmb : m ≠ b)
    (hid : id1 ≠ id2) (hp1 : pid ≠ id1) (hp2 : pid ≠ id2) :
    PortZ (⟨[⟨a, m, id1, ty1, e1⟩, ⟨m, b, id2, ty2, e2⟩], g⟩ : Net L K) pid a b (e1.Zfin + e2.Zfin) := by
  have hp : pid ∉ (⟨[⟨a, m, id1, ty1, e1⟩, ⟨m, b, id2, ty2, e2⟩], g⟩ : Net L K).ids := by simp [Net.ids, hp1, hp2]
  have hzs : zs (⟨[⟨a, m, id1, ty1, e1⟩, ⟨m, b, id2, ty2, e2⟩], g⟩ : Net L K).branches
      = [⟨a, m, id1, ty1, e1.zeroSources⟩, ⟨m, b, id2, ty2, e2.zeroSources⟩] := rfl
  have hba : b ≠ a := fun h => hab h.symm
  have hma : m ≠ a := fun h => ham h.symm
  have hbm : b ≠ m := fun h => hmb h.symm
  have hid' : id2 ≠ id1 := fun h => hid h.symm
  refine ⟨?_, fun R hR => ?_⟩
  · apply probe_exists_of_eqsInj _ pid hp a b b
      (⟨fun n => if n = a then e1.Zfin + e2.Zfin else if n = m then e2.Zfin else 0,
        fun i => if i = id1 then e1.Zfin else e2.Zfin, fun _ => 1⟩ : Report L K)
    rw [hzs, eqsInj2_iff]
    refine ⟨by simp [hba, hbm], ⟨by simp [voltResidual, hma], by simp [voltResidual, hma, hba, hbm, hid']⟩,
      ⟨?_, ?_⟩, fun n => ?_⟩
    · rw [law_zs_Zfin e1 h1]; simp
    · rw [law_zs_Zfin e2 h2]; simp [hid']
    · simp only [zs_not_lossy, incidence, injAB]; ring
  · obtain ⟨h, hi, _⟩ := (probe_iff _ pid a b 1 R).mp hR
    rw [hzs, eqsInj2_iff] at h
    obtain ⟨_, ⟨v1, v2⟩, ⟨l1, l2⟩, hk⟩ := h
    have ka := hk a
    have km := hk m
    simp only [zs_not_lossy, incidence, injAB, if_true, hba, hma, ham, hbm, if_false, hi] at ka km
    simp only [voltResidual] at v1 v2
    rw [law_zs_Zfin e1 h1] at l1
    rw [law_zs_Zfin e2 h2] at l2
    simp only at l1 l2
    have hi1 : R.i id1 = 1 := by linear_combination ka
    have hi2 : R.i id2 = 1 := by linear_combination km + ka
    rw [hi1] at l1; rw [hi2] at l2
    linear_combination l1 + l2 - v1 - v2

/-- **C06 (parallel composition of two branches).**  Two branches from `a` to `b` (neither an ideal current source /
open circuit; any reference node) with `Z₁ + Z₂ ≠ 0`: the port impedance exists and is `Z₁·Z₂/(Z₁ + Z₂)`.  (For
`Z₁ + Z₂ = 0` with non-zero `Z₁` — exact resonance of a loss-free pair — the unit current has no solution.) -/
theorem C06_portZ_parallel (g a b : L) (id1 ty1 id2 ty2 pid : String) (e1 e2 : Elem K)
    (h1 : e1.isIdealCS = false) (h2 : e2.isIdealCS = false) (hab : a ≠ b)
    (hid : id1 ≠ id2) (hp1 : pid ≠ id1) (hp2 : pid ≠ id2) (hD : e1.Zfin + e2.Zfin ≠ 0) :
    PortZ (⟨[⟨a, b, id1, ty1, e1⟩, ⟨a, b, id2, ty2, e2⟩], g⟩ : Net L K) pid a b
      (e1.Zfin * e2.Zfin / (e1.Zfin + e2.Zfin)) := by
  have hp : pid ∉ (⟨[⟨a, b, id1, ty1, e1⟩, ⟨a, b, id2, ty2, e2⟩], g⟩ : Net L K).ids := by simp [Net.ids, hp1, hp2]
  have hzs : zs (⟨[⟨a, b, id1, ty1, e1⟩, ⟨a, b, id2, ty2, e2⟩], g⟩ : Net L K).branches
      = [⟨a, b, id1, ty1, e1.zeroSources⟩, ⟨a, b, id2, ty2, e2.zeroSources⟩] := rfl
  have hba : b ≠ a := fun h => hab h.symm
  have hid' : id2 ≠ id1 := fun h => hid h.symm
  refine ⟨?_, fun R hR => ?_⟩
  · apply probe_exists_of_eqsInj _ pid hp a b b
      (⟨fun n => if n = a then e1.Zfin * e2.Zfin / (e1.Zfin + e2.Zfin) else 0,
        fun _ => e1.Zfin * e2.Zfin / (e1.Zfin + e2.Zfin),
        fun i => if i = id1 then e2.Zfin / (e1.Zfin + e2.Zfin) else e1.Zfin / (e1.Zfin + e2.Zfin)⟩ : Report L K)
    rw [hzs, eqsInj2_iff]
    refine ⟨by simp [hba], ⟨by simp [voltResidual, hba], by simp [voltResidual, hba]⟩, ⟨?_, ?_⟩, fun n => ?_⟩
    · rw [law_zs_Zfin e1 h1]; simp only [if_true]; field_simp
    · rw [law_zs_Zfin e2 h2]; simp only [hid', if_false]; field_simp
    · simp only [zs_not_lossy, incidence, injAB, if_true, hid', if_false]
      have : e2.Zfin / (e1.Zfin + e2.Zfin) + e1.Zfin / (e1.Zfin + e2.Zfin) = 1 := by field_simp; ring
      linear_combination ((if a = n then (1 : K) else 0) - (if b = n then (1 : K) else 0)) * this
  · obtain ⟨h, hi, _⟩ := (probe_iff _ pid a b 1 R).mp hR
    rw [hzs, eqsInj2_iff] at h
    obtain ⟨_, ⟨v1, v2⟩, ⟨l1, l2⟩, hk⟩ := h
    have ka := hk a
    simp only [zs_not_lossy, incidence, injAB, if_true, hba, if_false, hi] at ka
    simp only [voltResidual] at v1 v2
    rw [law_zs_Zfin e1 h1] at l1
    rw [law_zs_Zfin e2 h2] at l2
    simp only at l1 l2
    rw [eq_div_iff hD]
    linear_combination (-(e1.Zfin + e2.Zfin)) * v1 + e2.Zfin * l1 + e1.Zfin * (l2 - v2 + v1) + e1.Zfin * e2.Zfin * ka

/-- the parallel value as the harmonic sum: `1/Z = 1/Z₁ + 1/Z₂` for non-zero `Z₁`, `Z₂`, `Z₁ + Z₂` -/
theorem C06_portZ_parallel_harmonic (Z1 Z2 : K) (h1 : Z1 ≠ 0) (h2 : Z2 ≠ 0) (hD : Z1 + Z2 ≠ 0) :
    1 / (Z1 * Z2 / (Z1 + Z2)) = 1 / Z1 + 1 / Z2 := by
  field_simp; ring

/-- uniqueness of the value of `PortZ` -/
theorem portZ_value_unique (N : Net L K) (pid : String) (a b : L) (z z' : K)
    (h : PortZ N pid a b z) (h' : PortZ N pid a b z') : z = z' := by
  obtain ⟨⟨R, hR⟩, hall⟩ := h
  rw [← hall R hR, h'.2 R hR]

/-- **C06 (model: whenever `open_circuit_impedance` returns a number and the Spec impedance is `z'`, the number is
`z'`).**  `C06_impl_eq_spec_pruned` plus uniqueness of `PortZ`. -/
theorem C06_model_value_of_portZ (N : Net L K) (solve : List (List K) → List K → Option (List K))
    (pid : String) (n1 n2 : L) (z z' : K) (hp : pid ∉ N.ids) (hsolve : SolveOK solve) (hids : N.ids.Nodup)
    (hsl : ∀ b ∈ N.branches, b.n1 ≠ b.n2) (hdef : PortZ N pid n1 n2 z')
    (h : N.openCircuitImpedance solve n1 n2 = .ok z) : z = z' :=
  portZ_value_unique N pid n1 n2 z z' (C06_impl_eq_spec_pruned N solve pid n1 n2 z z' hp hsolve hids hsl hdef h) hdef

/-- **C06 (model, single element).**  Whatever number the model of `open_circuit_impedance` returns for the one-branch
network between the branch's terminals is the element's impedance. -/
theorem C06_single_element_model (solve : List (List K) → List K → Option (List K)) (hsolve : SolveOK solve)
    (g a b : L) (id ty : String) (e : Elem K) (hcs : e.isIdealCS = false) (hab : a ≠ b) (z : K)
    (h : (⟨[⟨a, b, id, ty, e⟩], g⟩ : Net L K).openCircuitImpedance solve a b = .ok z) : z = e.Zfin := by
  have hne : id ++ "'" ≠ id := by
    intro h; have := congrArg String.length h; simp at this
  exact C06_model_value_of_portZ _ solve (id ++ "'") a b z _ (by simp [Net.ids, hne]) hsolve (by simp [Net.ids])
    (by intro br hbr; simp only [List.mem_singleton] at hbr; subst hbr; exact hab)
    (C06_single_element_impedance g a b id ty _ e hcs hab hne) h

/-- **C06 (model, series).** -/
theorem C06_series_model (solve : List (List K) → List K → Option (List K)) (hsolve : SolveOK solve)
    (g a m b : L) (id1 ty1 id2 ty2 pid : String) (e1 e2 : Elem K)
    (h1 : e1.isIdealCS = false) (h2 : e2.isIdealCS = false) (hab : a ≠ b) (ham : a ≠ m) (hmb : m ≠ b)
    (hid : id1 ≠ id2) (hp1 : pid ≠ id1) (hp2 : pid ≠ id2) (z : K)
    (h : (⟨[⟨a, m, id1, ty1, e1⟩, ⟨m, b, id2, ty2, e2⟩], g⟩ : Net L K).openCircuitImpedance solve a b = .ok z) :
    z = e1.Zfin + e2.Zfin :=
  C06_model_value_of_portZ _ solve pid a b z _ (by simp [Net.ids, hp1, hp2]) hsolve (by simp [Net.ids, hid])
    (by intro br hbr
        simp only [List.mem_cons, List.not_mem_nil, or_false] at hbr
        rcases hbr with rfl | rfl <;> assumption)
    (C06_portZ_series g a m b id1 ty1 id2 ty2 pid e1 e2 h1 h2 hab ham hmb hid hp1 hp2) h

/-- **C06 (model, parallel).** -/
theorem C06_parallel_model (solve : List (List K) → List K → Option (List K)) (hsolve : SolveOK solve)
    (g a b : L) (id1 ty1 id2 ty2 pid : String) (e1 e2 : Elem K)
    (h1 : e1.isIdealCS = false) (h2 : e2.isIdealCS = false) (hab : a ≠ b)
    (hid : id1 ≠ id2) (hp1 : pid ≠ id1) (hp2 : pid ≠ id2) (hD : e1.Zfin + e2.Zfin ≠ 0) (z : K)
    (h : (⟨[⟨a, b, id1, ty1, e1⟩, ⟨a, b, id2, ty2, e2⟩], g⟩ : Net L K).openCircuitImpedance solve a b = .ok z) :
    z = e1.Zfin * e2.Zfin / (e1.Zfin + e2.Zfin) :=
  C06_model_value_of_portZ _ solve pid a b z _ (by simp [Net.ids, hp1, hp2]) hsolve (by simp [Net.ids, hid])
    (by intro br hbr
        simp only [List.mem_cons, List.not_mem_nil, or_false] at hbr
        rcases hbr with rfl | rfl <;> assumption)
    (C06_portZ_parallel g a b id1 ty1 id2 ty2 pid e1 e2 h1 h2 hab hid hp1 hp2 hD) h

/-- **C06 (an open branch has no port impedance).**  One branch that is an ideal current source / open circuit
(`Y = 0`: a capacitor at `w = 0`): the unit test current has no path — the probe network has no solution, `PortZ` is
undefined for every value (the code returns `np.inf`: `C06_isolated_port`). -/
theorem C06_single_open_no_impedance (g a b : L) (id ty pid : String) (I : K) (hab : a ≠ b) (z : K) :
    ¬ PortZ (⟨[⟨a, b, id, ty, .thevenin 0 I⟩], g⟩ : Net L K) pid a b z := by
  rintro ⟨⟨R, hR⟩, _⟩
  have hzs : zs (⟨[⟨a, b, id, ty, .thevenin 0 I⟩], g⟩ : Net L K).branches
      = [⟨a, b, id, ty, (Elem.thevenin 0 I).zeroSources⟩] := rfl
  obtain ⟨h, hi, _⟩ := (probe_iff _ pid a b 1 R).mp hR
  rw [hzs, eqsInj1_iff] at h
  obtain ⟨_, _, l1, hk⟩ := h
  have hba : b ≠ a := fun h => hab h.symm
  have ka := hk a
  simp only [zs_not_lossy, incidence, injAB, if_true, hba, if_false, hi] at ka
  rw [law_zs_thevenin] at l1
  simp only at l1
  rw [l1] at ka
  simp at ka

end spec

/-! ## Circuit/impedance.py: the wrappers -/

section wrappers
variable {K α : Type}

/-- entry-by-entry meaning of a sweep result: a number is `f`'s number, `none` is `f`'s `np.inf` -/
def SweepEntry (f : α → Except Err K) (n : α) (z : Option K) : Prop :=
  match z with
  | some v => f n = .ok v
  | none => f n = .error (.other "Infinite")

/-- **C06 (`sweep` = the single-frequency function mapped over the list).**  `sweep f nets` returns the list `zs` iff
`zs` has one entry per network and every entry is what `f` gives for that network (`none` standing for `np.inf`, an
isolated port node).  By induction on the definition of the model — `np.array([f(net) for net in nets])`. -/
theorem C06_sweep_pointwise (f : α → Except Err K) (ns : List α) (zs : List (Option K)) :
    sweep f ns = .ok zs ↔ List.Forall₂ (SweepEntry f) ns zs := by
  induction ns generalizing zs with
  | nil =>
    simp only [sweep]
    constructor
    · intro h; cases h; exact List.Forall₂.nil
    · intro h; cases h; rfl
  | cons n ns ih =>
    unfold sweep
    constructor
    · intro h
      split at h
      · rename_i hf
        cases hs : sweep f ns with
        | error e => simp [hs, Except.map] at h
        | ok l =>
          simp only [hs, Except.map, Except.ok.injEq] at h
          subst h
          exact List.Forall₂.cons hf ((ih l).mp hs)
      · cases h
      · rename_i v hf
        cases hs : sweep f ns with
        | error e => simp [hs, Except.map] at h
        | ok l =>
          simp only [hs, Except.map, Except.ok.injEq] at h
          subst h
          exact List.Forall₂.cons hf ((ih l).mp hs)
    · intro h
      cases h with
      | cons hz hrest =>
        rename_i z zs'
        have hs := (ih zs').mpr hrest
        cases z with
        | some v =>
          simp only [SweepEntry] at hz
          simp [hz, hs, Except.map]
        | none =>
          simp only [SweepEntry] at hz
          simp [hz, hs, Except.map]

/-- **C06 (`sweep` of a function that returns `g` everywhere is `map g`).** -/
theorem C06_sweep_map (f : α → Except Err K) (g : α → K) (ns : List α) (h : ∀ n ∈ ns, f n = .ok (g n)) :
    sweep f ns = .ok (ns.map fun n => some (g n)) := by
  rw [C06_sweep_pointwise]
  induction ns with
  | nil => exact List.Forall₂.nil
  | cons n ns ih =>
    exact List.Forall₂.cons (h n (by simp)) (ih fun m hm => h m (by simp [hm]))

/-- **C06 (`sweep` raises iff the function raises — other than `np.inf` — on some network).** -/
theorem C06_sweep_error (f : α → Except Err K) (ns : List α) :
    (∃ e, sweep f ns = .error e) ↔ ∃ n ∈ ns, ∃ e, f n = .error e ∧ e ≠ .other "Infinite" := by
  induction ns with
  | nil => simp [sweep]
  | cons n ns ih =>
    unfold sweep
    cases hf : f n with
    | ok v =>
      simp only [List.mem_cons, exists_eq_or_imp, hf, reduceCtorEq, false_and, exists_false, false_or]
      rw [← ih]
      cases hs : sweep f ns <;> simp [Except.map]
    | error e =>
      by_cases he : e = .other "Infinite"
      · subst he
        simp only [List.mem_cons, exists_eq_or_imp, hf, Except.error.injEq, ne_eq, exists_eq_left', not_true_eq_false,
          false_or]
        rw [← ih]
        cases hs : sweep f ns <;> simp [Except.map]
      · constructor
        · intro _; exact ⟨n, by simp, e, hf, he⟩
        · intro _
          refine ⟨e, ?_⟩
          split
          · rename_i h; cases h; exact absurd rfl he
          · rename_i h; cases h; rfl
          · rename_i h; cases h

/-- **C06 (`open_circuit_dc_resistance` / `element_dc_resistance`).**  `dcResistance re f net₀` — the one-entry sweep
at the `w = 0` network, real part — returns `r` iff `f net₀` returns some `z` with `r = re z`; it reports `Infinite`
iff `f` does. -/
theorem C06_dcResistance_eq (re : K → K) (f : α → Except Err K) (n0 : α) (r : K) :
    dcResistance re f n0 = .ok r ↔ ∃ z, f n0 = .ok z ∧ r = re z := by
  unfold dcResistance sweep sweep
  cases hf : f n0 with
  | ok z =>
    simp [Except.map, bind, Except.bind, pure, Except.pure, eq_comm]
  | error e =>
    by_cases he : e = .other "Infinite"
    · subst he; simp [Except.map, bind, Except.bind]
    · simp [bind, Except.bind]

end wrappers

/-! ## Circuit level: the records the translators write -/

section circuit
variable (trig : Trig) (harm : Harm) (c : Component) (w wres : Rat) (a b : String)

theorem gq_jw (w X : Rat) : GQ.j * GQ.ofRat w * GQ.ofRat X = (⟨0, w * X⟩ : GQ) := by
  ext <;> simp [GQ.j, GQ.ofRat]

theorem gq_im_ne_zero (x : Rat) (h : x ≠ 0) : (⟨0, x⟩ : GQ) ≠ 0 := by
  intro e
  have := congrArg GQ.im e
  simp at this
  exact h this

/-- the branch a capacitor component becomes at frequency `w` (`C07_faithful_capacitor`) -/
def capBranch (id a b : String) (w C : Rat) : Branch String GQ :=
  { n1 := a, n2 := b, id := id, ty := "admittance", e := .thevenin ⟨0, w * C⟩ 0 }

/-- the branch an inductance component becomes at frequency `w` (`C07_faithful_inductance`) -/
def indBranch (id a b : String) (w L : Rat) : Branch String GQ :=
  { n1 := a, n2 := b, id := id, ty := "impedance", e := .norton ⟨0, w * L⟩ 0 }

/-- the branch a resistor component becomes (`C07_faithful_resistor`) -/
def resBranch (id a b : String) (R : Rat) : Branch String GQ :=
  { n1 := a, n2 := b, id := id, ty := "resistor", e := .norton ⟨R, 0⟩ 0 }

/-- **C06 (a capacitor contributes `1/(jwC)`).**  A `capacitor` component with value `C ≠ 0` between `a ≠ b`, translated
at `w ≠ 0` by the generated translator table (the Python source of Circuit/transformers.py), becomes a branch whose
one-branch network has the port impedance `1/(j·w·C)` between its terminals (Spec: existence and value, any reference
node), and whatever number the model of `open_circuit_impedance` returns for that network is `1/(j·w·C)`. -/
theorem C06_capacitor_impedance (C : Rat) (hk : c.kind = "capacitor") (hn : c.nodes = [a, b])
    (hC : c.value.lookup "C" = some (.num C)) (hw : w ≠ 0) (hC0 : C ≠ 0) (hab : a ≠ b)
    (g pid : String) (hpid : pid ≠ c.id) :
    transformComponent Gen.tables trig harm c w wres = some (.ok (capBranch c.id a b w C)) ∧
    PortZ (⟨[capBranch c.id a b w C], g⟩ : Net String GQ) pid a b (1 / (GQ.j * GQ.ofRat w * GQ.ofRat C)) ∧
    ∀ solve, SolveOK solve → ∀ z,
      (⟨[capBranch c.id a b w C], g⟩ : Net String GQ).openCircuitImpedance solve a b = .ok z →
        z = 1 / (GQ.j * GQ.ofRat w * GQ.ofRat C) := by
  have hne : (⟨0, w * C⟩ : GQ) ≠ 0 := gq_im_ne_zero _ (mul_ne_zero hw hC0)
  have hcs : (Elem.thevenin (⟨0, w * C⟩ : GQ) 0).isIdealCS = false := by simp [Elem.isIdealCS, hne]
  have hZ : (Elem.thevenin (⟨0, w * C⟩ : GQ) 0).Zfin = 1 / (GQ.j * GQ.ofRat w * GQ.ofRat C) := by
    simp only [Elem.Zfin, hne, if_false, gq_jw]
  refine ⟨(C07_faithful_capacitor trig harm c w wres a b C hk hn hC).1, ?_, fun solve hs z h => ?_⟩
  · rw [← hZ]; exact C06_single_element_impedance g a b c.id "admittance" pid _ hcs hab hpid
  · rw [← hZ]; exact C06_single_element_model solve hs g a b c.id "admittance" _ hcs hab z h

/-- **C06 (an inductor contributes `jwL`).**  An `inductance` component, translated at any `w`: port impedance `j·w·L`
(at `w = 0` that is `0`: the branch is a short circuit). -/
theorem C06_inductance_impedance (L : Rat) (hk : c.kind = "inductance") (hn : c.nodes = [a, b])
    (hL : c.value.lookup "L" = some (.num L)) (hab : a ≠ b) (g pid : String) (hpid : pid ≠ c.id) :
    transformComponent Gen.tables trig harm c w wres = some (.ok (indBranch c.id a b w L)) ∧
    PortZ (⟨[indBranch c.id a b w L], g⟩ : Net String GQ) pid a b (GQ.j * GQ.ofRat w * GQ.ofRat L) ∧
    ∀ solve, SolveOK solve → ∀ z,
      (⟨[indBranch c.id a b w L], g⟩ : Net String GQ).openCircuitImpedance solve a b = .ok z →
        z = GQ.j * GQ.ofRat w * GQ.ofRat L := by
  have hZ : (Elem.norton (⟨0, w * L⟩ : GQ) 0).Zfin = GQ.j * GQ.ofRat w * GQ.ofRat L := by
    rw [gq_jw]; rfl
  refine ⟨(C07_faithful_inductance trig harm c w wres a b L hk hn hL).1, ?_, fun solve hs z h => ?_⟩
  · rw [← hZ]; exact C06_single_element_impedance g a b c.id "impedance" pid _ rfl hab hpid
  · rw [← hZ]; exact C06_single_element_model solve hs g a b c.id "impedance" _ rfl hab z h

/-- **C06 (a resistor contributes `R`)**, at every frequency. -/
theorem C06_resistor_impedance (R : Rat) (hk : c.kind = "resistor") (hn : c.nodes = [a, b])
    (hR : c.value.lookup "R" = some (.num R)) (hab : a ≠ b) (g pid : String) (hpid : pid ≠ c.id) :
    transformComponent Gen.tables trig harm c w wres = some (.ok (resBranch c.id a b R)) ∧
    PortZ (⟨[resBranch c.id a b R], g⟩ : Net String GQ) pid a b (GQ.ofRat R) ∧
    ∀ solve, SolveOK solve → ∀ z,
      (⟨[resBranch c.id a b R], g⟩ : Net String GQ).openCircuitImpedance solve a b = .ok z → z = GQ.ofRat R := by
  refine ⟨(C07_faithful_resistor trig harm c w wres a b R hk hn hR).1, ?_, fun solve hs z h => ?_⟩
  · exact C06_single_element_impedance g a b c.id "resistor" pid _ rfl hab hpid
  · exact C06_single_element_model solve hs g a b c.id "resistor" _ rfl hab z h

/-- **C06 (a capacitor at `w = 0` is open: no port impedance).**  The translated branch has `Y = j·0·C = 0`; the unit
test current has no path, `PortZ` is undefined for every value (the code answers `np.inf`). -/
theorem C06_capacitor_dc_open (C : Rat) (hab : a ≠ b) (g pid id : String) (z : GQ) :
    ¬ PortZ (⟨[capBranch id a b 0 C], g⟩ : Net String GQ) pid a b z := by
  have : capBranch id a b 0 C = ⟨a, b, id, "admittance", .thevenin 0 0⟩ := by
    simp [capBranch, GQ.zero_def]
  rw [this]
  exact C06_single_open_no_impedance g a b id "admittance" pid 0 hab z

/-- **C06 (series R–L–C closed form, two at a time).**  `R` in series with `L` between `a — m — b` at frequency `w`:
`R + j·w·L`; an inductor in series with a capacitor: `j·w·L + 1/(j·w·C)`. -/
theorem C06_series_RL (R L : Rat) (g a m b id1 id2 pid : String) (hab : a ≠ b) (ham : a ≠ m) (hmb : m ≠ b)
    (hid : id1 ≠ id2) (hp1 : pid ≠ id1) (hp2 : pid ≠ id2) :
    PortZ (⟨[resBranch id1 a m R, indBranch id2 m b w L], g⟩ : Net String GQ) pid a b
      (GQ.ofRat R + GQ.j * GQ.ofRat w * GQ.ofRat L) := by
  have := C06_portZ_series g a m b id1 "resistor" id2 "impedance" pid (Elem.norton (⟨R, 0⟩ : GQ) 0)
    (Elem.norton (⟨0, w * L⟩ : GQ) 0) rfl rfl hab ham hmb hid hp1 hp2
  rw [gq_jw]; exact this

theorem C06_series_LC (L C : Rat) (hw : w ≠ 0) (hC0 : C ≠ 0) (g a m b id1 id2 pid : String)
    (hab : a ≠ b) (ham : a ≠ m) (hmb : m ≠ b) (hid : id1 ≠ id2) (hp1 : pid ≠ id1) (hp2 : pid ≠ id2) :
    PortZ (⟨[indBranch id1 a m w L, capBranch id2 m b w C], g⟩ : Net String GQ) pid a b
      (GQ.j * GQ.ofRat w * GQ.ofRat L + 1 / (GQ.j * GQ.ofRat w * GQ.ofRat C)) := by
  have hne : (⟨0, w * C⟩ : GQ) ≠ 0 := gq_im_ne_zero _ (mul_ne_zero hw hC0)
  have hcs : (Elem.thevenin (⟨0, w * C⟩ : GQ) 0).isIdealCS = false := by simp [Elem.isIdealCS, hne]
  have := C06_portZ_series g a m b id1 "impedance" id2 "admittance" pid (Elem.norton (⟨0, w * L⟩ : GQ) 0)
    (Elem.thevenin (⟨0, w * C⟩ : GQ) 0) rfl hcs hab ham hmb hid hp1 hp2
  simp only [Elem.Zfin, hne, if_false] at this
  rw [gq_jw, gq_jw]; exact this

/-- **C06 (the sweep of a single capacitor).**  `open_circuit_impedance` swept over the per-frequency networks of a
one-capacitor circuit (frequencies `ws`, all non-zero): every number in the result array is `1/(j·w·C)` of its own
frequency, and the array has one entry per frequency.  (No concrete example of the hypothesis `h` is given: the model is
not evaluated here on a `GQ` network with string labels; its ingredients `C06_sweep_pointwise` and
`C06_single_element_model` are exhibited separately, the latter on `exOne`.) -/
theorem C06_capacitor_sweep (solve : List (List GQ) → List GQ → Option (List GQ)) (hs : SolveOK solve)
    (C : Rat) (hC0 : C ≠ 0) (ws : List Rat) (hws : ∀ w ∈ ws, w ≠ 0) (hab : a ≠ b) (g id : String)
    (zs : List (Option GQ))
    (h : sweep (fun N : Net String GQ => N.openCircuitImpedance solve a b)
      (ws.map fun w => (⟨[capBranch id a b w C], g⟩ : Net String GQ)) = .ok zs) :
    List.Forall₂ (fun w z => ∀ v, z = some v → v = 1 / (GQ.j * GQ.ofRat w * GQ.ofRat C)) ws zs := by
  rw [C06_sweep_pointwise, List.forall₂_map_left_iff] at h
  have key : ∀ w z, w ∈ ws → SweepEntry (fun N : Net String GQ => N.openCircuitImpedance solve a b)
      (⟨[capBranch id a b w C], g⟩ : Net String GQ) z → ∀ v, z = some v → v = 1 / (GQ.j * GQ.ofRat w * GQ.ofRat C) := by
    intro w z hw hz v hv
    subst hv
    simp only [SweepEntry] at hz
    have hne : (⟨0, w * C⟩ : GQ) ≠ 0 := gq_im_ne_zero _ (mul_ne_zero (hws w hw) hC0)
    have hcs : (Elem.thevenin (⟨0, w * C⟩ : GQ) 0).isIdealCS = false := by simp [Elem.isIdealCS, hne]
    have := C06_single_element_model solve hs g a b id "admittance" _ hcs hab v hz
    rw [this]; simp only [Elem.Zfin, hne, if_false, gq_jw]
  clear hws
  induction h with
  | nil => exact List.Forall₂.nil
  | cons hz _ ih =>
    exact List.Forall₂.cons (key _ _ (by simp) hz) (ih fun w z hw => key w z (by simp [hw]))

end circuit

/-! ### non-vacuity -/

namespace C06ex
/-- one lossy voltage source `7 V` behind `5 Ω` between node `1` and the reference `0` -/
def exOne : Net Nat ℚ := ⟨[⟨1, 0, "R", "", .norton 5 7⟩], 0⟩
def solveT : List (List ℚ) → List ℚ → Option (List ℚ) := fun A b =>
  if A = [[1/5]] ∧ b = [1] then some [5] else none

theorem solveT_ok : SolveOK solveT := by
  intro A b x h
  unfold solveT at h
  split at h
  · rename_i hc
    obtain ⟨rfl, rfl⟩ := hc
    cases h
    refine ⟨rfl, ?_⟩
    simp [matVec, dotL]
  · cases h

theorem exOne_mna0 : ({exOne with zero := 0} : Net Nat ℚ).mnaA = [[1/5]] := by
  simp [Net.mnaA, Net.nodes, Net.nodeLabels, exOne, sortL, dedupL, List.mergeSort, LabelOrd.le, Net.Yentry, Net.nonVS,
    Elem.isIdealVS, Elem.Yfin, Net.vsSorted, Net.vsIds, Net.vs, Net.byIds, Net.get?, Branch.dir]

theorem exOne_mna1 : ({exOne with zero := 1} : Net Nat ℚ).mnaA = [[1/5]] := by
  simp [Net.mnaA, Net.nodes, Net.nodeLabels, exOne, sortL, dedupL, List.mergeSort, LabelOrd.le, Net.Yentry, Net.nonVS,
    Elem.isIdealVS, Elem.Yfin, Net.vsSorted, Net.vsIds, Net.vs, Net.byIds, Net.get?, Branch.dir]

theorem exOne_iso1 : exOne.isolated 1 0 = .ok false := by
  have hc : ({exOne with zero := 0} : Net Nat ℚ).check = .ok () := by
    simp [Net.check, Net.nodeLabels, Net.ids, exOne, sortL, dedupL, List.mergeSort, LabelOrd.le]
  have hn : ({exOne with zero := 0} : Net Nat ℚ).nodes = [1] := by
    simp [Net.nodes, Net.nodeLabels, exOne, sortL, dedupL, List.mergeSort, LabelOrd.le]
  unfold Net.isolated Net.switchGround
  simp only [hc, bind, Except.bind, pure, Except.pure, hn, exOne_mna0]
  simp [idxOf?, colZero]

theorem exOne_iso2 : exOne.isolated 0 1 = .ok false := by
  have hc : ({exOne with zero := 1} : Net Nat ℚ).check = .ok () := by
    simp [Net.check, Net.nodeLabels, Net.ids, exOne, sortL, dedupL, List.mergeSort, LabelOrd.le]
  have hn : ({exOne with zero := 1} : Net Nat ℚ).nodes = [0] := by
    simp [Net.nodes, Net.nodeLabels, exOne, sortL, dedupL, List.mergeSort, LabelOrd.le]
  unfold Net.isolated Net.switchGround
  simp only [hc, bind, Except.bind, pure, Except.pure, hn, exOne_mna1]
  simp [idxOf?, colZero]

theorem exOne_sys : ({exOne with zero := 0} : Net Nat ℚ).portSys 1
    = .ok (.sys {exOne with zero := 0} [true] [[1/5]] [1] 0) := by
  have r1 : List.range 1 = [0] := by decide
  have hn : ({exOne with zero := 0} : Net Nat ℚ).nodes = [1] := by
    simp [Net.nodes, Net.nodeLabels, exOne, sortL, dedupL, List.mergeSort, LabelOrd.le]
  have hk : keepMask 1 ([[1/5]] : List (List ℚ)) = [true] := by simp [keepMask, r1]
  have hs : subMatrix [true] ([[1/5]] : List (List ℚ)) = [[1/5]] := by simp [subMatrix, selectL]
  unfold Net.portSys
  rw [hn, exOne_mna0]
  have hl : ([[1/5]] : List (List ℚ)).length = 1 := rfl
  simp only [hl, hk, hs]
  simp [idxOf?, countBefore, unitVec, r1]

theorem exOne_pre : exOne.portPre 1 0 = .ok (.sys {exOne with zero := 0} [true] [[1/5]] [1] 0) := by
  have hc : ({exOne with zero := 0} : Net Nat ℚ).check = .ok () := by
    simp [Net.check, Net.nodeLabels, Net.ids, exOne, sortL, dedupL, List.mergeSort, LabelOrd.le]
  have hb : ¬ (exOne.branchesBetween 1 0).any (·.e.isIdealVS) = true := by
    simp [Net.branchesBetween, exOne, Elem.isIdealVS]
  have hz : exOne.zero = 0 := rfl
  rw [portPre_unfold (by decide) hb]
  simp only [hz, show ((1 : Nat) = 0) = False from by simp, if_false, exOne_iso1, exOne_iso2]
  simp only [Net.switchGround, hc, bind, Except.bind, pure, Except.pure]
  exact exOne_sys

theorem exOne_model_value : exOne.openCircuitImpedance solveT 1 0 = .ok 5 := by
  unfold Net.openCircuitImpedance
  rw [exOne_pre]
  simp [solveT]
/-- `6 Ω` parallel to `3 Ω` between node `1` and the reference `0` -/
def exPar : Net Nat ℚ := ⟨[⟨1, 0, "R1", "", .norton 6 0⟩, ⟨1, 0, "R2", "", .norton 3 0⟩], 0⟩
def solveP2 : List (List ℚ) → List ℚ → Option (List ℚ) := fun A b =>
  if A = [[1/2]] ∧ b = [1] then some [2] else none

theorem solveP2_ok : SolveOK solveP2 := by
  intro A b x h
  unfold solveP2 at h
  split at h
  · rename_i hc
    obtain ⟨rfl, rfl⟩ := hc
    cases h
    refine ⟨rfl, ?_⟩
    simp [matVec, dotL]
  · cases h

theorem exPar_mna0 : ({exPar with zero := 0} : Net Nat ℚ).mnaA = [[1/2]] := by
  simp [Net.mnaA, Net.nodes, Net.nodeLabels, exPar, sortL, dedupL, List.mergeSort, LabelOrd.le, Net.Yentry, Net.nonVS,
    Elem.isIdealVS, Elem.Yfin, Net.vsSorted, Net.vsIds, Net.vs, Net.byIds, Net.get?, Branch.dir]
  norm_num

theorem exPar_mna1 : ({exPar with zero := 1} : Net Nat ℚ).mnaA = [[1/2]] := by
  simp [Net.mnaA, Net.nodes, Net.nodeLabels, exPar, sortL, dedupL, List.mergeSort, LabelOrd.le, Net.Yentry, Net.nonVS,
    Elem.isIdealVS, Elem.Yfin, Net.vsSorted, Net.vsIds, Net.vs, Net.byIds, Net.get?, Branch.dir]
  norm_num

theorem exPar_iso1 : exPar.isolated 1 0 = .ok false := by
  have hc : ({exPar with zero := 0} : Net Nat ℚ).check = .ok () := by
    simp [Net.check, Net.nodeLabels, Net.ids, exPar, sortL, dedupL, List.mergeSort, LabelOrd.le]
  have hn : ({exPar with zero := 0} : Net Nat ℚ).nodes = [1] := by
    simp [Net.nodes, Net.nodeLabels, exPar, sortL, dedupL, List.mergeSort, LabelOrd.le]
  unfold Net.isolated Net.switchGround
  simp only [hc, bind, Except.bind, pure, Except.pure, hn, exPar_mna0]
  simp [idxOf?, colZero]

theorem exPar_iso2 : exPar.isolated 0 1 = .ok false := by
  have hc : ({exPar with zero := 1} : Net Nat ℚ).check = .ok () := by
    simp [Net.check, Net.nodeLabels, Net.ids, exPar, sortL, dedupL, List.mergeSort, LabelOrd.le]
  have hn : ({exPar with zero := 1} : Net Nat ℚ).nodes = [0] := by
    simp [Net.nodes, Net.nodeLabels, exPar, sortL, dedupL, List.mergeSort, LabelOrd.le]
  unfold Net.isolated Net.switchGround
  simp only [hc, bind, Except.bind, pure, Except.pure, hn, exPar_mna1]
  simp [idxOf?, colZero]

theorem exPar_sys : ({exPar with zero := 0} : Net Nat ℚ).portSys 1
    = .ok (.sys {exPar with zero := 0} [true] [[1/2]] [1] 0) := by
  have r1 : List.range 1 = [0] := by decide
  have hn : ({exPar with zero := 0} : Net Nat ℚ).nodes = [1] := by
    simp [Net.nodes, Net.nodeLabels, exPar, sortL, dedupL, List.mergeSort, LabelOrd.le]
  have hk : keepMask 1 ([[1/2]] : List (List ℚ)) = [true] := by simp [keepMask, r1]
  have hs : subMatrix [true] ([[1/2]] : List (List ℚ)) = [[1/2]] := by simp [subMatrix, selectL]
  unfold Net.portSys
  rw [hn, exPar_mna0]
  have hl : ([[1/2]] : List (List ℚ)).length = 1 := rfl
  simp only [hl, hk, hs]
  simp [idxOf?, countBefore, unitVec, r1]

theorem exPar_pre : exPar.portPre 1 0 = .ok (.sys {exPar with zero := 0} [true] [[1/2]] [1] 0) := by
  have hc : ({exPar with zero := 0} : Net Nat ℚ).check = .ok () := by
    simp [Net.check, Net.nodeLabels, Net.ids, exPar, sortL, dedupL, List.mergeSort, LabelOrd.le]
  have hb : ¬ (exPar.branchesBetween 1 0).any (·.e.isIdealVS) = true := by
    simp [Net.branchesBetween, exPar, Elem.isIdealVS]
  have hz : exPar.zero = 0 := rfl
  rw [portPre_unfold (by decide) hb]
  simp only [hz, show ((1 : Nat) = 0) = False from by simp, if_false, exPar_iso1, exPar_iso2]
  simp only [Net.switchGround, hc, bind, Except.bind, pure, Except.pure]
  exact exPar_sys

theorem exPar_model_value : exPar.openCircuitImpedance solveP2 1 0 = .ok 2 := by
  unfold Net.openCircuitImpedance
  rw [exPar_pre]
  simp [solveP2]
/-- `2 Ω` from node `2` to node `1` in series with `4 Ω` from node `1` to the reference `0` -/
def exSer : Net Nat ℚ := ⟨[⟨2, 1, "R1", "", .norton 2 0⟩, ⟨1, 0, "R2", "", .norton 4 0⟩], 0⟩
def ASer : List (List ℚ) := [[3/4, -1/2], [-1/2, 1/2]]
def solveS : List (List ℚ) → List ℚ → Option (List ℚ) := fun A b =>
  if A = ASer ∧ b = [0, 1] then some [4, 6] else none

theorem solveS_ok : SolveOK solveS := by
  intro A b x h
  unfold solveS at h
  split at h
  · rename_i hc
    obtain ⟨rfl, rfl⟩ := hc
    cases h
    refine ⟨rfl, ?_⟩
    simp [matVec, dotL, ASer]; norm_num
  · cases h

theorem exSer_mna0 : ({exSer with zero := 0} : Net Nat ℚ).mnaA = ASer := by
  simp [Net.mnaA, Net.nodes, Net.nodeLabels, exSer, sortL, dedupL, List.mergeSort, LabelOrd.le, Net.Yentry, Net.nonVS,
    Elem.isIdealVS, Elem.Yfin, Net.vsSorted, Net.vsIds, Net.vs, Net.byIds, Net.get?, Branch.dir, ASer]
  norm_num

theorem exSer_iso1 : exSer.isolated 2 0 = .ok false := by
  have hc : ({exSer with zero := 0} : Net Nat ℚ).check = .ok () := by
    simp [Net.check, Net.nodeLabels, Net.ids, exSer, sortL, dedupL, List.mergeSort, LabelOrd.le]
  have hn : ({exSer with zero := 0} : Net Nat ℚ).nodes = [1, 2] := by
    simp [Net.nodes, Net.nodeLabels, exSer, sortL, dedupL, List.mergeSort, LabelOrd.le]
  unfold Net.isolated Net.switchGround
  simp only [hc, bind, Except.bind, pure, Except.pure, hn, exSer_mna0]
  simp [idxOf?, colZero, ASer]

theorem exSer_iso2 : exSer.isolated 0 2 = .ok false := by
  have hc : ({exSer with zero := 2} : Net Nat ℚ).check = .ok () := by
    simp [Net.check, Net.nodeLabels, Net.ids, exSer, sortL, dedupL, List.mergeSort, LabelOrd.le]
  have hn : ({exSer with zero := 2} : Net Nat ℚ).nodes = [0, 1] := by
    simp [Net.nodes, Net.nodeLabels, exSer, sortL, dedupL, List.mergeSort, LabelOrd.le]
  have hm : ({exSer with zero := 2} : Net Nat ℚ).mnaA = [[1/4, -1/4], [-1/4, 3/4]] := by
    simp [Net.mnaA, Net.nodes, Net.nodeLabels, exSer, sortL, dedupL, List.mergeSort, LabelOrd.le, Net.Yentry, Net.nonVS,
      Elem.isIdealVS, Elem.Yfin, Net.vsSorted, Net.vsIds, Net.vs, Net.byIds, Net.get?, Branch.dir]
    norm_num
  unfold Net.isolated Net.switchGround
  simp only [hc, bind, Except.bind, pure, Except.pure, hn, hm]
  simp [idxOf?, colZero]

theorem exSer_sys : ({exSer with zero := 0} : Net Nat ℚ).portSys 2
    = .ok (.sys {exSer with zero := 0} [true, true] ASer [0, 1] 1) := by
  have r2 : List.range 2 = [0, 1] := by decide
  have hn : ({exSer with zero := 0} : Net Nat ℚ).nodes = [1, 2] := by
    simp [Net.nodes, Net.nodeLabels, exSer, sortL, dedupL, List.mergeSort, LabelOrd.le]
  have hk : keepMask 2 ASer = [true, true] := by simp [keepMask, ASer, r2]
  have hs : subMatrix [true, true] ASer = ASer := by simp [subMatrix, selectL, ASer]
  unfold Net.portSys
  rw [hn, exSer_mna0]
  have hl : ASer.length = 2 := rfl
  simp only [hl, hk, hs]
  simp [idxOf?, countBefore, unitVec, r2]

theorem exSer_pre : exSer.portPre 2 0 = .ok (.sys {exSer with zero := 0} [true, true] ASer [0, 1] 1) := by
  have hc : ({exSer with zero := 0} : Net Nat ℚ).check = .ok () := by
    simp [Net.check, Net.nodeLabels, Net.ids, exSer, sortL, dedupL, List.mergeSort, LabelOrd.le]
  have hb : ¬ (exSer.branchesBetween 2 0).any (·.e.isIdealVS) = true := by
    simp [Net.branchesBetween, exSer, Elem.isIdealVS]
  have hz : exSer.zero = 0 := rfl
  rw [portPre_unfold (by decide) hb]
  simp only [hz, show ((2 : Nat) = 0) = False from by simp, if_false, exSer_iso1, exSer_iso2]
  simp only [Net.switchGround, hc, bind, Except.bind, pure, Except.pure]
  exact exSer_sys

theorem exSer_model_value : exSer.openCircuitImpedance solveS 2 0 = .ok 6 := by
  unfold Net.openCircuitImpedance
  rw [exSer_pre]
  simp [solveS]
end C06ex

/-- non-vacuity of `C06_single_element_impedance`, `C06_single_element_model`, `C06_model_value_of_portZ`: a lossy source
(`7 V` behind `5 Ω`) between node `1` and the reference: `PortZ = 5`, the model returns `5`. -/
example : PortZ C06ex.exOne "p" 1 0 5 ∧ SolveOK C06ex.solveT ∧
    C06ex.exOne.openCircuitImpedance C06ex.solveT 1 0 = .ok 5 :=
  ⟨C06_single_element_impedance 0 1 0 "R" "" "p" (.norton 5 7) rfl (by decide) (by decide), C06ex.solveT_ok,
    C06ex.exOne_model_value⟩

/-- non-vacuity of `C06_portZ_series`, `C06_series_model`: `2 Ω` (as an impedance) in series with `1/4 S` (as an
admittance): `2 + 4`; for the all-impedance variant `exSer` the model returns `6`. -/
example : PortZ (⟨[⟨2, 1, "R1", "", .norton 2 0⟩, ⟨1, 0, "G2", "", .thevenin (1/4) 0⟩], 0⟩ : Net Nat ℚ) "p" 2 0 (2 + 4) ∧
    PortZ C06ex.exSer "p" 2 0 (2 + 4) ∧ SolveOK C06ex.solveS ∧
    C06ex.exSer.openCircuitImpedance C06ex.solveS 2 0 = .ok 6 := by
  refine ⟨?_, C06_portZ_series 0 2 1 0 "R1" "" "R2" "" "p" (.norton 2 0) (.norton 4 0) rfl rfl (by decide) (by decide)
    (by decide) (by decide) (by decide) (by decide), C06ex.solveS_ok, C06ex.exSer_model_value⟩
  have := C06_portZ_series 0 2 1 0 "R1" "" "G2" "" "p" (.norton (2 : ℚ) 0) (.thevenin (1/4) 0) rfl
    (by simp [Elem.isIdealCS]) (by decide) (by decide) (by decide) (by decide) (by decide) (by decide)
  simpa [Elem.Zfin] using this

/-- non-vacuity of `C06_portZ_parallel`, `C06_parallel_model`, `C06_portZ_parallel_harmonic`: `6 Ω ∥ 3 Ω = 2 Ω`. -/
example : PortZ C06ex.exPar "p" 1 0 (6 * 3 / (6 + 3)) ∧ SolveOK C06ex.solveP2 ∧
    C06ex.exPar.openCircuitImpedance C06ex.solveP2 1 0 = .ok 2 ∧ (6 * 3 / (6 + 3) : ℚ) = 2 ∧
    (1 / (6 * 3 / (6 + 3)) : ℚ) = 1 / 6 + 1 / 3 :=
  ⟨C06_portZ_parallel 0 1 0 "R1" "" "R2" "" "p" (.norton 6 0) (.norton 3 0) rfl rfl (by decide) (by decide) (by decide)
    (by decide) (by simp [Elem.Zfin]; norm_num), C06ex.solveP2_ok, C06ex.exPar_model_value, by norm_num,
    C06_portZ_parallel_harmonic 6 3 (by norm_num) (by norm_num) (by norm_num)⟩

/-- non-vacuity of `C06_single_open_no_impedance`: an ideal current source alone has no port impedance -/
example : ¬ PortZ (⟨[⟨1, 0, "I", "", .thevenin 0 3⟩], 0⟩ : Net Nat ℚ) "p" 1 0 7 :=
  C06_single_open_no_impedance 0 1 0 "I" "" "p" 3 (by decide) 7

/-- non-vacuity of `C06_capacitor_impedance`, `C06_inductance_impedance`, `C06_resistor_impedance`: components as
`Circuit/components.py` builds them (`C = 4 F` at `w = 2`, `L = 3 H`, `R = 5 Ω`, nodes `"1"`, `"0"`). -/
example := C06_capacitor_impedance (fun _ => (1, 0)) (fun _ _ _ _ => (0, 0))
  ⟨"capacitor", "C", ["1", "0"], [("C", .num 4)]⟩ 2 0 "1" "0" 4 rfl rfl rfl (by decide) (by decide) (by decide) "0" "p"
  (by decide)
example := C06_inductance_impedance (fun _ => (1, 0)) (fun _ _ _ _ => (0, 0))
  ⟨"inductance", "L", ["1", "0"], [("L", .num 3)]⟩ 2 0 "1" "0" 3 rfl rfl rfl (by decide) "0" "p" (by decide)
example := C06_resistor_impedance (fun _ => (1, 0)) (fun _ _ _ _ => (0, 0))
  ⟨"resistor", "R", ["1", "0"], [("R", .num 5)]⟩ 2 0 "1" "0" 5 rfl rfl rfl (by decide) "0" "p" (by decide)

/-- the value at `C = 4 F`, `w = 2`: `1/(j·8) = −j/8` -/
example : (1 / (GQ.j * GQ.ofRat 2 * GQ.ofRat 4) : GQ) = ⟨0, -1/8⟩ := by
  rw [gq_jw, one_div]; ext <;> simp [GQ.normSq] <;> norm_num

/-- non-vacuity of `C06_sweep_pointwise`, `C06_sweep_map`, `C06_sweep_error`, `C06_dcResistance_eq`: a three-entry sweep with
one `np.inf`, one that raises, and the DC resistance of a number. -/
example : sweep (fun n : Nat => if n = 0 then (.error (.other "Infinite") : Except Err ℚ) else .ok (n : ℚ)) [1, 0, 2]
      = .ok [some 1, none, some 2] ∧
    sweep (fun n : Nat => (.ok (2 * n) : Except Err ℚ)) [1, 2, 3] = .ok ([1, 2, 3].map fun n : Nat => some (2 * (n : ℚ))) ∧
    (∃ e, sweep (fun n : Nat => if n = 0 then (.error .singular : Except Err ℚ) else .ok (n : ℚ)) [1, 0, 2] = .error e) ∧
    dcResistance (fun z : ℚ => z) (fun n : Nat => (.ok (n : ℚ) : Except Err ℚ)) 7 = .ok 7 := by
  refine ⟨?_, C06_sweep_map _ (fun n : Nat => 2 * (n : ℚ)) [1, 2, 3] (fun n _ => rfl), ?_, ?_⟩
  · rw [C06_sweep_pointwise]
    exact List.Forall₂.cons (by simp [SweepEntry]) (List.Forall₂.cons (by simp [SweepEntry])
      (List.Forall₂.cons (by simp [SweepEntry]) List.Forall₂.nil))
  · rw [C06_sweep_error]
    exact ⟨0, by simp, .singular, by simp, by simp⟩
  · rw [C06_dcResistance_eq]
    exact ⟨7, rfl, rfl⟩

end CC
