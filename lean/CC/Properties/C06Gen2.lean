/-
  C06 (translator tie, second part) — `open_circuit_voltage` and `short_circuit_current`
  (Network/NodalAnalysis/bias_point_analysis.py) as harness/extract_port.py regenerates them from the
  Python AST on every run (CC/Gen/Port.lean: `Gen.Port.open_circuit_voltage`,
  `Gen.Port.short_circuit_current`) equal the hand-written model CC/Model/Port.lean
  (`Net.openCircuitVoltage`, `Net.shortCircuitCurrent`) the C06 theorems are about.

  The statements hold for every network that IS a `Network` object (`N.check = .ok ()`: the
  constructor's checks passed — the Python functions receive a constructed object and do not run the
  constructor again, the hand model's `assemble` does), all labels, every field and EVERY solver,
  exception paths included (`KeyError` of `get_potential`, every exception of `open_circuit_impedance`,
  `ZeroDivisionError`, the `inf`/`nan` quotient reported as `NonFinite`, `V / inf = 0`).
  Hypothesis `hnan`: `np.any(np.isnan(x))` — a parameter of the generated `__post_init__` — is
  constantly false (the hand model computes in an exact field, which has no `nan`).
  Value bridge: the generated `open_circuit_voltage` returns the number WITH its run-time class
  (`Py.Scalar`: the Python integer of `return 0`, or a numpy scalar); the hand model returns the
  number; `Scalar.val` forgets the class (`C06_gen_open_circuit_voltage_value`).
  `short_circuit_current` needs no bridge.

  NOT proved here: that `Py.Scalar` / `Py.divScalar` (CC/Model/PortBase2.lean) read Python's
  `int`/numpy division correctly (trusted base); anything about `np.linalg.solve`; the
  Thevenin/Norton records (equivalent_sources.py) and the sweep wrappers (Circuit/impedance.py)
  stay hand-modelled.
-/
import CC.Proofs.PortGen
import CC.Properties.C01SelfLoop
set_option linter.unusedSectionVars false
set_option linter.unusedSimpArgs false

namespace CC.PortGen
open CC CC.Gen.Core CC.Gen.Transformers CC.Py
variable {L K : Type} [DecidableEq L] [LabelOrd L] [Field K] [DecidableEq K]

/-- the number a `Scalar` stands for -/
def scalarValue : Except Err (Py.Scalar K) → Except Err K
  | .ok s => .ok s.val
  | .error e => .error e

theorem gen_open_circuit_voltage [LawfulLabelOrd L] (solve : Py.Mat K → List K → Option (List K))
    (anyNan : List K → Bool) (hnan : ∀ x, anyNan x = false) (N : Net L K) (hN : N.check = .ok ()) (n1 n2 : L) :
    Gen.Port.open_circuit_voltage solve anyNan N n1 n2
      = (N.openCircuitVoltage (rowsSolver solve) n1 n2).map
          (fun v => if n1 = n2 then Py.Scalar.pyInt v else Py.Scalar.npy v) := by
  have hids := ((Net.check_ok_iff N).mp hN).2
  have hlen : N.mnaA.length = N.nodes.length + N.vsIds.length := by
    rw [mnaA_length, vsSorted_length N hids]
  unfold Gen.Port.open_circuit_voltage Net.openCircuitVoltage Net.solutionVector Net.assemble rowsSolver
  simp only []
  rw [gen_solution_vector solve anyNan N hids, hN]
  simp only [hnan, gen_potential, bind, Except.bind, pure, Except.pure, Except.map, Bool.false_eq_true, if_false, hlen]
  cases hs : solve _ N.mnaB with
  | none =>
    simp only [List.map_const']
    by_cases h : n1 = n2
    · simp [h]
    · simp only [h, if_false]
      cases N.potential _ n1 <;> [rfl; (cases N.potential _ n2 <;> rfl)]
  | some x =>
    by_cases h : n1 = n2
    · simp [h]
    · simp only [h, if_false]
      cases N.potential _ n1 <;> [rfl; (cases N.potential _ n2 <;> rfl)]

theorem gen_short_circuit_current [LawfulLabelOrd L] (solve : Py.Mat K → List K → Option (List K))
    (anyNan : List K → Bool) (hnan : ∀ x, anyNan x = false) (N : Net L K) (hN : N.check = .ok ()) (n1 n2 : L) :
    Gen.Port.short_circuit_current solve anyNan N n1 n2 = N.shortCircuitCurrent (rowsSolver solve) n1 n2 := by
  unfold Gen.Port.short_circuit_current Net.shortCircuitCurrent
  rw [gen_open_circuit_impedance, gen_open_circuit_voltage solve anyNan hnan N hN]
  cases hZ : N.openCircuitImpedance (rowsSolver solve) n1 n2 with
  | error e =>
    by_cases he : e = .other "Infinite"
    · subst he
      simp only [portValue, bind, Except.bind, pure, Except.pure]
      cases N.openCircuitVoltage (rowsSolver solve) n1 n2 <;> rfl
    · rw [portValue_error he]
      show Except.error e = _
      split
      · rename_i heq; cases heq; exact absurd rfl he
      · rename_i heq; cases heq; rfl
      · rename_i heq; cases heq
  | ok Z =>
    simp only [portValue, bind, Except.bind, pure, Except.pure]
    cases N.openCircuitVoltage (rowsSolver solve) n1 n2 with
    | error e => rfl
    | ok V =>
      simp only [Except.map, Py.divScalar]
      by_cases h : n1 = n2
      · have hz : Z = 0 := by
          have : N.openCircuitImpedance (rowsSolver solve) n1 n2 = .ok 0 := by
            unfold Net.openCircuitImpedance Net.portPre; simp [h]
          rw [this] at hZ; cases hZ; rfl
        simp [h, hz]
      · by_cases hz : Z = 0 <;> simp [h, hz, Py.Scalar.val]

end CC.PortGen

namespace CC
open CC.Gen.Core CC.Py CC.PortGen
variable {L K : Type} [DecidableEq L] [LabelOrd L] [Field K] [DecidableEq K]

/-- **`open_circuit_voltage`, generated = hand model** for every constructed network, all labels and
every solver on arrays: the solution is built BEFORE the `node1 == node2` test (its exceptions come
first), then the integer `0`, else the two `get_potential` look-ups in order and their difference.
The right-hand side tags the hand model's number with the class the Python value has. -/
theorem C06_gen_open_circuit_voltage [LawfulLabelOrd L] (solve : Py.Mat K → List K → Option (List K))
    (anyNan : List K → Bool) (hnan : ∀ x, anyNan x = false) (N : Net L K) (hN : N.check = .ok ()) (n1 n2 : L) :
    Gen.Port.open_circuit_voltage solve anyNan N n1 n2
      = (N.openCircuitVoltage (rowsSolver solve) n1 n2).map
          (fun v => if n1 = n2 then Py.Scalar.pyInt v else Py.Scalar.npy v) :=
  gen_open_circuit_voltage solve anyNan hnan N hN n1 n2

/-- the same read as numbers, for every solver of the hand model (a function of the rows) -/
theorem C06_gen_open_circuit_voltage_value [LawfulLabelOrd L] (solve : List (List K) → List K → Option (List K))
    (anyNan : List K → Bool) (hnan : ∀ x, anyNan x = false) (N : Net L K) (hN : N.check = .ok ()) (n1 n2 : L) :
    scalarValue (Gen.Port.open_circuit_voltage (fun M b => solve M.rows b) anyNan N n1 n2)
      = N.openCircuitVoltage solve n1 n2 := by
  rw [gen_open_circuit_voltage _ anyNan hnan N hN]
  show scalarValue (Except.map _ (N.openCircuitVoltage solve n1 n2)) = _
  cases N.openCircuitVoltage solve n1 n2 with
  | error e => rfl
  | ok v => by_cases h : n1 = n2 <;> simp [Except.map, scalarValue, h, Py.Scalar.val]

/-- **`short_circuit_current`, generated = hand model**: `open_circuit_impedance` first, then
`open_circuit_voltage`, then `V / Z` — `ZeroDivisionError` for `node1 == node2`, `NonFinite` for a
computed zero impedance, `0` for an infinite one. -/
theorem C06_gen_short_circuit_current [LawfulLabelOrd L] (solve : Py.Mat K → List K → Option (List K))
    (anyNan : List K → Bool) (hnan : ∀ x, anyNan x = false) (N : Net L K) (hN : N.check = .ok ()) (n1 n2 : L) :
    Gen.Port.short_circuit_current solve anyNan N n1 n2 = N.shortCircuitCurrent (rowsSolver solve) n1 n2 :=
  gen_short_circuit_current solve anyNan hnan N hN n1 n2

theorem C06_gen_short_circuit_current_rows [LawfulLabelOrd L] (solve : List (List K) → List K → Option (List K))
    (anyNan : List K → Bool) (hnan : ∀ x, anyNan x = false) (N : Net L K) (hN : N.check = .ok ()) (n1 n2 : L) :
    Gen.Port.short_circuit_current (fun M b => solve M.rows b) anyNan N n1 n2 = N.shortCircuitCurrent solve n1 n2 :=
  gen_short_circuit_current (fun M b => solve M.rows b) anyNan hnan N hN n1 n2

/-! ### the hypotheses are satisfiable -/

/-- a corpus network (with a self-loop resistor) is a constructed `Network` -/
example : exampleSelfLoop.check = .ok () := C01_self_loop_witness.1
example : ∀ x : List ℚ, (fun _ => false) x = false := fun _ => rfl

end CC
