/-
  Property C01 — the theorems without the hypothesis "no self-loop branch".

  Since the self-loop repair of node_analysis.py (`admittance_connected_to` skips branches whose two
  terminals are the same node; `voltage_source_direction` is +1 at the first terminal minus 1 at the
  second; `source_incidence_matrix` accumulates its ±1 entries) a self-loop branch is electrically
  inert in the matrix equation as it is in the circuit equations, and the theorems of C01 hold for
  every network `Network.__post_init__` accepts (`N.check = ok`: reference label present, distinct
  ids).  `C01_sound`, `C01_complete`, … (CC/Properties/C01.lean) keep their statements with `Net.WF`;
  here are the strengthened ones:

    C01_sound_selfloops                    the reported values solve the circuit equations
    C01_kcl_reference_selfloops            … at the reference node as well
    C01_complete_selfloops                 every solution of the circuit satisfies the matrix equation
    C01_matrix_unique_selfloops            a well-posed network: at most one solution vector
    C01_reported_is_the_solution_selfloops … and the report agrees with every solution of the circuit
    C01_solvable_selfloops                 … trivial kernel
    C01_exists_selfloops                   … a solution vector exists, its report solves the circuit
    C01_selfloop_voltage_source            a self-loop ideal voltage source with V ≠ 0 has no solution
                                           (circuit equations and matrix equation alike); with V = 0
                                           its own current is not determined — the network is not
                                           well-posed either way, and the solver's singular-matrix
                                           fallback applies
  Self-loop admittances, impedances, open circuits and (ideal or linear) current sources are ordinary
  members of the domain: they report voltage 0 and the current their own law gives at voltage 0.
-/
import CC.Properties.C01Det
import CC.Properties.C01More
set_option linter.unusedSectionVars false

namespace CC
variable {L K : Type} [DecidableEq L] [LabelOrd L] [Field K] [DecidableEq K]

/-- **C01 (soundness, self-loops admitted).**  For every network the library accepts — branches
from a node to itself included — whatever vector satisfies the matrix equation the code builds, the
accessors never fail on the network's own labels and ids, and what they report solves the circuit
equations of the Spec (reference at zero, voltages are potential differences, every element law,
Kirchhoff's current law at every node). -/
theorem C01_sound_selfloops (N : Net L K) (x : List K) (hc : N.check = .ok ())
    (hx : x.length = N.nodes.length + N.vsIds.length)
    (h : matVec N.mnaA x = N.mnaB) :
    (∀ n ∈ N.allLabels, N.potential x n = .ok ((N.reportOf x).pot n)) ∧
    (∀ b ∈ N.branches, N.voltage x b.id = .ok ((N.reportOf x).v b.id) ∧
                        N.current x b.id = .ok ((N.reportOf x).i b.id)) ∧
    CircuitEqs N (N.reportOf x) :=
  have hh := (Net.check_ok_iff N).mp hc
  sound_all N x hh.2 hh.1 hx h

theorem C01_kcl_reference_selfloops (N : Net L K) (x : List K) (hc : N.check = .ok ())
    (hx : x.length = N.nodes.length + N.vsIds.length)
    (h : matVec N.mnaA x = N.mnaB) :
    kclResidual N (N.reportOf x) N.zero = 0 :=
  (C01_sound_selfloops N x hc hx h).2.2.kcl N.zero (by simp [Net.allLabels])

/-- **C01 (completeness, self-loops admitted).** -/
theorem C01_complete_selfloops (N : Net L K) (R : Report L K) (hc : N.check = .ok ())
    (hR : CircuitEqs N R) :
    matVec N.mnaA (N.pack R.toSol) = N.mnaB :=
  have hh := (Net.check_ok_iff N).mp hc
  complete_rows_all N R hh.2 hh.1 hR

/-- **C01 (the matrix equation of a well-posed network has at most one solution, self-loops admitted).** -/
theorem C01_matrix_unique_selfloops (N : Net L K) (hc : N.check = .ok ()) (hw : WellPosed N) (x y : List K)
    (hx : x.length = N.nodes.length + N.vsIds.length)
    (hy : y.length = N.nodes.length + N.vsIds.length)
    (h1 : matVec N.mnaA x = N.mnaB) (h2 : matVec N.mnaA y = N.mnaB) : x = y := by
  obtain ⟨hzm, hids⟩ := (Net.check_ok_iff N).mp hc
  have sx := (C01_sound_selfloops N x hc hx h1).2.2
  have sy := (C01_sound_selfloops N y hc hy h2).2.2
  obtain ⟨hp, hb⟩ := C01_unique N hids hw _ _ sx sy
  rw [pack_solOf N hids x hx, pack_solOf N hids y hy]
  congr 1
  · apply List.map_congr_left
    intro n hn
    obtain ⟨hl, hz⟩ := (mem_nodes_iff N n).mp hn
    have := hp n ((mem_allLabels_iff N hzm n).mpr hl)
    simpa [Net.reportOf, Net.pot, hz] using this
  · apply List.map_congr_left
    intro b hbm
    have hbv : b ∈ N.vs := (vsSorted_perm N hids).mem_iff.mp hbm
    obtain ⟨hbb, hvs⟩ := List.mem_filter.mp hbv
    have := (hb b hbb).2
    rw [reportOf_i N x hids hbb, reportOf_i N y hids hbb] at this
    simpa [Net.curOf, hvs] using this

/-- **C01 (the reported quantities are *the* solution, self-loops admitted).** -/
theorem C01_reported_is_the_solution_selfloops (N : Net L K) (hc : N.check = .ok ()) (hw : WellPosed N)
    (x : List K) (hx : x.length = N.nodes.length + N.vsIds.length) (h : matVec N.mnaA x = N.mnaB)
    (R : Report L K) (hR : CircuitEqs N R) : (N.reportOf x).AgreeOn N R :=
  C01_unique N ((Net.check_ok_iff N).mp hc).2 hw _ _ (C01_sound_selfloops N x hc hx h).2.2 hR

theorem zs_check (N : Net L K) (hc : N.check = .ok ()) : N.zeroSources.check = .ok () := by
  rw [Net.check_ok_iff] at hc ⊢
  rw [zs_ids, zs_nodeLabels]
  exact hc

/-- **C01 (non-singularity, kernel form, self-loops admitted).** -/
theorem C01_solvable_selfloops (N : Net L K) (hc : N.check = .ok ()) (hw : WellPosed N) (x : List K)
    (hx : x.length = N.nodes.length + N.vsIds.length)
    (h : matVec N.mnaA x = N.mnaB.map fun _ => (0 : K)) :
    x = List.replicate x.length (0 : K) := by
  have hcz := zs_check N hc
  have hwz := zs_wellPosed N hw
  have hlen : x.length = N.zeroSources.nodes.length + N.zeroSources.vsIds.length := by
    rw [zs_nodes, zs_vsIds]; exact hx
  have h1 : matVec N.zeroSources.mnaA x = N.zeroSources.mnaB := by
    rw [zs_mnaA, zs_mnaB]; exact h
  have h2 : matVec N.zeroSources.mnaA (List.replicate x.length (0 : K)) = N.zeroSources.mnaB := by
    rw [matVec_zeros, zs_mnaA, zs_mnaB]
    have : N.mnaA.length = N.mnaB.length := by
      simp [Net.mnaA, Net.mnaB]
    apply List.ext_getElem
    · simp [this]
    · intro i h1 h2; simp
  exact C01_matrix_unique_selfloops N.zeroSources hcz hwz x _ hlen (by simp [hlen]) h1 h2

/-- **C01 (existence, self-loops admitted).**  The matrix equation of an accepted, well-posed network
has a solution of the right length, and the report read from it solves the circuit equations. -/
theorem C01_exists_selfloops (N : Net L K) (hc : N.check = .ok ()) (hw : WellPosed N) :
    ∃ x : List K, x.length = N.nodes.length + N.vsIds.length ∧ matVec N.mnaA x = N.mnaB ∧
      CircuitEqs N (N.reportOf x) := by
  have hids := ((Net.check_ok_iff N).mp hc).2
  set n := N.nodes.length + N.vsIds.length with hn
  have hsq := C01_square N
  have hlen : N.mnaA.length = n := by rw [hsq.1, vsSorted_length N hids]
  have hrow : ∀ r ∈ N.mnaA, r.length = n := by
    intro r hr; rw [hsq.2 r hr, vsSorted_length N hids]
  have hb : N.mnaB.length = n := by simp [Net.mnaB, vsSorted_length N hids, hn]
  have hzero : (N.mnaB.map fun _ => (0 : K)) = List.replicate n 0 := by
    apply List.ext_getElem <;> simp [hb]
  have hker : ∀ x : List K, x.length = n → matVec N.mnaA x = List.replicate n 0 → x = List.replicate n 0 := by
    intro x hx h
    have := C01_solvable_selfloops N hc hw x hx (by rw [hzero]; exact h)
    rw [hx] at this; exact this
  obtain ⟨x, hx, hsol⟩ := matVec_surjective_of_trivial_kernel n N.mnaA hlen hrow hker N.mnaB hb
  exact ⟨x, hx, hsol, (C01_sound_selfloops N x hc hx hsol).2.2⟩

/-- **C01 (a self-loop ideal voltage source).**  The one kind of self-loop that is not inert: the
circuit equations of a network with an ideal voltage source from a node to itself have a solution only
if its voltage is 0 (and then they do not determine its current), and the same holds for the matrix
equation the code builds (its row reads `0 = V`, its column is zero). -/
theorem C01_selfloop_voltage_source (N : Net L K) (b : Branch L K) (hb : b ∈ N.branches)
    (hv : b.e.isIdealVS = true) (hsl : b.n1 = b.n2) :
    (∀ R : Report L K, CircuitEqs N R → b.e.Vval = 0) ∧
    (∀ x : List K, N.check = .ok () → x.length = N.nodes.length + N.vsIds.length →
      matVec N.mnaA x = N.mnaB → b.e.Vval = 0) := by
  have key : ∀ R : Report L K, CircuitEqs N R → b.e.Vval = 0 := by
    intro R hR
    have h1 := hR.volt b hb
    have h2 := hR.law b hb
    unfold voltResidual at h1
    rw [hsl, sub_self, sub_zero] at h1
    cases he : b.e with
    | norton Z V =>
      rw [he] at h2 hv
      have hZ : Z = 0 := by simpa [Elem.isIdealVS] using hv
      simp only [Elem.lawResidual, hZ, if_true, h1, zero_sub, neg_eq_zero] at h2
      simpa [Elem.Vval] using h2
    | thevenin Y I => rw [he] at hv; simp [Elem.isIdealVS] at hv
  exact ⟨key, fun x hc hx h => key _ (C01_sound_selfloops N x hc hx h).2.2⟩

/-! ### non-vacuity: the corpus network with a self-loop resistor meets the hypotheses -/

example : exampleSelfLoop.check = .ok () ∧ (¬ ∀ b ∈ exampleSelfLoop.branches, b.n1 ≠ b.n2) ∧
    ∃ x : List ℚ, x.length = exampleSelfLoop.nodes.length + exampleSelfLoop.vsIds.length ∧
      matVec exampleSelfLoop.mnaA x = exampleSelfLoop.mnaB := by
  obtain ⟨hc, hsol, _, _, hm⟩ := C01_self_loop_witness
  refine ⟨hc, ?_, exampleSelfLoop.pack exampleSelfLoopReport.toSol,
    pack_length _ ((Net.check_ok_iff _).mp hc).2 _, hm⟩
  intro h
  exact h { n1 := "1", n2 := "1", id := "S", e := .norton 2 0 } (by simp [exampleSelfLoop]) rfl

end CC
