/-
  C10 (round 5) — the OUTPUT ROWS of the state-space model deliver the report.

  `CC.C10_output_rows_statement` (the last OPEN statement of CC/Properties/C10.lean) is PROVED here, conjunct by
  conjunct and then as a whole:
    C10_rows_potential   for every node label: `c_row_for_potential(n)·x + d_row_for_potential(n)·u` is the potential
                         the accessor report reads from `y = C x + D u` (0 for the reference node);
    C10_rows_voltage     for every branch: `c_row_voltage(id)·x + d_row_voltage(id)·u` is the report's branch voltage
                         (first terminal minus second terminal);
    C10_rows_current     for every branch: `c_row_current(id)·x + d_row_current(id)·u` is the report's branch current
                         (capacitor k: `C_k·ẋ_k`; ideal voltage source / inductor: its entry of `y`; current source:
                         its own input; impedance / admittance: `(φ₁ − φ₂)/Z`; open circuit: 0), `ẋ = A x + B u`;
    C10_output_rows      : C10_output_rows_statement.
  The three conjuncts are TRUE of the model as stated — no counterexample, no extra hypothesis; in fact the
  potential rows need only that `nodal_state_space_model` succeeds, the voltage rows in addition distinct branch
  ids, and neither the certificate equations (`ModelCert`) nor `ssDelta … = .ok Delta` nor `x.length = nStates` is
  used anywhere: only the SHAPES of `A, B, C, D` (C10_dims) matter.
  Together with `C10_transfer` / `C12_sample_circuit` (which speak about the report) this closes the gap "a sign
  flip or a sum in `c_row_voltage` / `c_row_current` leaves every theorem intact": such a change now breaks
  `C10_rows_voltage` / `C10_rows_current`.
  What is NOT said: nothing about ids that are not branches / node labels of the network beyond
  `C10_unknown_node_zero_row`; the rows are still tied to the Python code by `C10_gen_row_*` + correspondence.
-/
import CC.Properties.C10
import CC.Proofs.StateRows

set_option linter.unusedSectionVars false

namespace CC
open Matrix Mx

section rows
variable {L K : Type} [DecidableEq L] [LabelOrd L] [Field K] [DecidableEq K]

/-- **Potential rows.**  Whenever `nodal_state_space_model(N, c_values, l_values)` succeeds (any network, any
dictionaries, any pair of "inverses" — no certificate needed), for EVERY state `x` and input `u` (any lengths) and
every node label `n` of the network: `c_row_for_potential(n)` and `d_row_for_potential(n)` exist and
`row_c·x + row_d·u` equals the potential of `n` in the accessor report of the per-sample network read from
`y = C x + D u` (which is `0` for the reference node).  Says nothing about ids that are no node label
(see `C10_unknown_node_zero_row`). -/
theorem C10_rows_potential {N : Net L K} {cvals lvals : ValDict K} {Ainv S : List (List K)} {m : NSSM L K}
    (hm : nodalStateSpaceModel N cvals lvals Ainv S = .ok m) (x u : List K) :
    let y := Mx.vecAdd (matVec m.mats.C x) (matVec m.mats.D u)
    let xdot := Mx.vecAdd (matVec m.mats.A x) (matVec m.mats.B u)
    let R := (sampleNet N cvals lvals (ssSources N lvals) u xdot).reportOf y
    ∀ n ∈ N.nodeLabels, ∃ rc rd, m.cRowPotential n = .ok rc ∧ m.dRowPotential n = .ok rd
      ∧ dotL rc x + dotL rd u = R.pot n := by
  intro y xdot R n hn
  obtain ⟨mats, hs, rfl⟩ := rows_model_ok hm
  obtain ⟨rc, rd, h1, h2, _, _, e⟩ := rows_potential hs x u n hn
  refine ⟨rc, rd, h1, h2, ?_⟩
  rw [e]
  exact (rows_report_pot N _ y n).symm

/-- **Voltage rows.**  Whenever the model is built for a network with distinct branch ids, for every `x`, `u` and
every branch `b`: `c_row_voltage(b.id)` and `d_row_voltage(b.id)` exist and `row_c·x + row_d·u` equals the voltage of
`b` in the report read from `y = C x + D u` — the potential of the FIRST terminal minus that of the SECOND.  A sum
instead of the difference, or swapped terminals, refute this theorem. -/
theorem C10_rows_voltage {N : Net L K} {cvals lvals : ValDict K} {Ainv S : List (List K)} {m : NSSM L K}
    (hids : N.ids.Nodup) (hm : nodalStateSpaceModel N cvals lvals Ainv S = .ok m) (x u : List K) :
    let y := Mx.vecAdd (matVec m.mats.C x) (matVec m.mats.D u)
    let xdot := Mx.vecAdd (matVec m.mats.A x) (matVec m.mats.B u)
    let R := (sampleNet N cvals lvals (ssSources N lvals) u xdot).reportOf y
    ∀ b ∈ N.branches, ∃ rc rd, m.cRowVoltage b.id = .ok rc ∧ m.dRowVoltage b.id = .ok rd
      ∧ dotL rc x + dotL rd u = R.v b.id := by
  intro y xdot R b hb
  obtain ⟨mats, hs, rfl⟩ := rows_model_ok hm
  obtain ⟨rc, rd, h1, h2, e⟩ := rows_voltage hids hs x u b hb
  refine ⟨rc, rd, h1, h2, ?_⟩
  rw [e]
  exact (rows_report_v N _ hids y hb).symm

/-- **Current rows.**  For the `w = 0` network of an RLC + ideal-source circuit (`RLC`), every state `x`, every
input `u` with one entry per published source, and every branch `b`: `c_row_current(b.id)` and
`d_row_current(b.id)` exist (no `KeyError` / `IndexError`) and `row_c·x + row_d·u` equals the current of `b` in the
report of the per-sample network read from `y = C x + D u` with `ẋ = A x + B u`:
capacitor `k` ↦ `C_k·ẋ_k` (row `k` of `A`, `B` scaled by `C_k`, positive sign); ideal voltage source or inductor ↦
entry `nN + index` of `y`; current source ↦ its own input `u_k`; impedance / admittance ↦ `(φ₁ − φ₂)/Z`; open
circuit ↦ `0`. -/
theorem C10_rows_current {N : Net L K} {cvals lvals : ValDict K} {Ainv S : List (List K)} {m : NSSM L K}
    (h : RLC N cvals lvals) (hm : nodalStateSpaceModel N cvals lvals Ainv S = .ok m) (x u : List K)
    (hu : u.length = ssNInputs N lvals) :
    let y := Mx.vecAdd (matVec m.mats.C x) (matVec m.mats.D u)
    let xdot := Mx.vecAdd (matVec m.mats.A x) (matVec m.mats.B u)
    let R := (sampleNet N cvals lvals (ssSources N lvals) u xdot).reportOf y
    ∀ b ∈ N.branches, ∃ rc rd, m.cRowCurrent b.id = .ok rc ∧ m.dRowCurrent b.id = .ok rd
      ∧ dotL rc x + dotL rd u = R.i b.id := by
  intro y xdot R b hb
  obtain ⟨mats, hs, rfl⟩ := rows_model_ok hm
  exact rows_current h hs x u hu b hb

end rows

/-- **The output rows deliver the report** — the formerly OPEN statement of C10, at full strength: every field,
every RLC network, every pair of certificates, every `x`, `u`.  (`ModelCert`, `ssDelta … = .ok Delta` and
`x.length = nStates` are hypotheses of the statement that the proof does not use.) -/
theorem C10_output_rows : C10_output_rows_statement := by
  intro K _ _ N cvals lvals Ainv S Delta m x u h _ hm _ _ hu
  exact ⟨C10_rows_potential hm x u, C10_rows_voltage h.wf.ids_nodup hm x u, C10_rows_current h hm x u hu⟩

/-! ### end to end: what the rows compute solves the circuit -/

section endtoend
variable {L K : Type} [DecidableEq L] [LabelOrd L] [Field K] [DecidableEq K]

/-- the output rows applied to `Fin`-indexed `x`, `u` (as lists) give the report that `C10_transfer` and
`C12_sample_circuit` speak about — `C10_rows_*` restated in their vocabulary -/
theorem C10_rows_report {N : Net L K} {cvals lvals : ValDict K} {Ainv S : List (List K)} {m : NSSM L K}
    (h : RLC N cvals lvals) (hm : nodalStateSpaceModel N cvals lvals Ainv S = .ok m)
    (x : Fin (ssNStates N cvals lvals) → K) (u : Fin (ssNInputs N lvals) → K) :
    let y := toM N.nY (ssNStates N cvals lvals) m.mats.C *ᵥ x + toM N.nY (ssNInputs N lvals) m.mats.D *ᵥ u
    let xdot := toM (ssNStates N cvals lvals) (ssNStates N cvals lvals) m.mats.A *ᵥ x
                + toM (ssNStates N cvals lvals) (ssNInputs N lvals) m.mats.B *ᵥ u
    let R := (sampleNet N cvals lvals (ssSources N lvals) (List.ofFn u) (List.ofFn xdot)).reportOf (List.ofFn y)
    (∀ n ∈ N.nodeLabels, ∃ rc rd, m.cRowPotential n = .ok rc ∧ m.dRowPotential n = .ok rd
        ∧ dotL rc (List.ofFn x) + dotL rd (List.ofFn u) = R.pot n)
    ∧ (∀ b ∈ N.branches, ∃ rc rd, m.cRowVoltage b.id = .ok rc ∧ m.dRowVoltage b.id = .ok rd
        ∧ dotL rc (List.ofFn x) + dotL rd (List.ofFn u) = R.v b.id)
    ∧ (∀ b ∈ N.branches, ∃ rc rd, m.cRowCurrent b.id = .ok rc ∧ m.dRowCurrent b.id = .ok rd
        ∧ dotL rc (List.ofFn x) + dotL rd (List.ofFn u) = R.i b.id) := by
  obtain ⟨mats, hs, hmm⟩ := rows_model_ok hm
  obtain ⟨hA, hB, hC, hD⟩ := rows_dims hs
  have hmats : m.mats = mats := by rw [hmm]
  rw [← hmats] at hA hB hC hD
  intro y xdot R
  have ey : Mx.vecAdd (matVec m.mats.C (List.ofFn x)) (matVec m.mats.D (List.ofFn u)) = List.ofFn y :=
    rows_vecAdd_matVec_ofFn hC hD x u
  have ex : Mx.vecAdd (matVec m.mats.A (List.ofFn x)) (matVec m.mats.B (List.ofFn u)) = List.ofFn xdot :=
    rows_vecAdd_matVec_ofFn hA hB x u
  have h1 := C10_rows_potential hm (List.ofFn x) (List.ofFn u)
  have h2 := C10_rows_voltage h.wf.ids_nodup hm (List.ofFn x) (List.ofFn u)
  have h3 := C10_rows_current h hm (List.ofFn x) (List.ofFn u) (by simp)
  dsimp only at h1 h2 h3
  rw [ey, ex] at h1 h2 h3
  exact ⟨h1, h2, h3⟩

/-- **Transfer behaviour, through the rows.**  With `x = (s − A)⁻¹ B u` (written `s·x = A x + B u`): the numbers
`c_row_*(·)·x + d_row_*(·)·u` that the model computes for every node potential, every branch voltage and every
branch current ARE a solution of the circuit equations of the phasor network at `s` driven by `u` (capacitor
`Y = s·C`, inductor `Z = s·L`) — no longer "the report read from `y`", but the output rows themselves. -/
theorem C10_rows_transfer {N : Net L K} {cvals lvals : ValDict K} {Ainv S Delta : List (List K)} {m : NSSM L K}
    (h : RLC N cvals lvals) (hD : ssDelta N cvals = .ok Delta)
    (hm : nodalStateSpaceModel N cvals lvals Ainv S = .ok m) (hc : ModelCert id N cvals lvals Ainv S Delta)
    (s : K) (x : Fin (ssNStates N cvals lvals) → K) (u : Fin (ssNInputs N lvals) → K)
    (hx : s • x = toM _ _ m.mats.A *ᵥ x + toM _ _ m.mats.B *ᵥ u) :
    ∃ R : Report L K, CircuitEqs (phasorNet N cvals lvals (ssSources N lvals) (List.ofFn u) s) R
      ∧ (∀ n ∈ N.nodeLabels, ∃ rc rd, m.cRowPotential n = .ok rc ∧ m.dRowPotential n = .ok rd
          ∧ dotL rc (List.ofFn x) + dotL rd (List.ofFn u) = R.pot n)
      ∧ (∀ b ∈ N.branches, ∃ rc rd, m.cRowVoltage b.id = .ok rc ∧ m.dRowVoltage b.id = .ok rd
          ∧ dotL rc (List.ofFn x) + dotL rd (List.ofFn u) = R.v b.id)
      ∧ (∀ b ∈ N.branches, ∃ rc rd, m.cRowCurrent b.id = .ok rc ∧ m.dRowCurrent b.id = .ok rd
          ∧ dotL rc (List.ofFn x) + dotL rd (List.ofFn u) = R.i b.id) := by
  obtain ⟨mats, hs, hmm⟩ := rows_model_ok hm
  have hmats : m.mats = mats := by rw [hmm]
  have hx' : s • x = toM _ _ mats.A *ᵥ x + toM _ _ mats.B *ᵥ u := by rw [← hmats]; exact hx
  have ht := model_transfer h hD hs hc s x u hx'
  have hr := C10_rows_report h hm x u
  dsimp only at ht hr
  rw [← hx, hmats] at hr
  exact ⟨_, ht, hr⟩

/-- **Every sample solves the circuit, through the rows.**  For ANY state `x` and input `u` (hence every
integrator): the numbers `c_row_*(·)·x + d_row_*(·)·u` computed for all node potentials, branch voltages and branch
currents satisfy the reference condition, Kirchhoff's voltage law, every element law (capacitor `i = C_k·ẋ_k`,
inductor `v = L_k·ẋ_k`, `ẋ = A x + B u`, sources at `u`) and Kirchhoff's current law of the circuit at that
sample — `C12_sample_circuit` for the output rows `TransientSolution` actually evaluates. -/
theorem C12_rows_sample_circuit {N : Net L K} {cvals lvals : ValDict K} {Ainv S Delta : List (List K)}
    {m : NSSM L K} (h : RLC N cvals lvals) (hD : ssDelta N cvals = .ok Delta)
    (hm : nodalStateSpaceModel N cvals lvals Ainv S = .ok m) (hc : ModelCert id N cvals lvals Ainv S Delta)
    (x : Fin (ssNStates N cvals lvals) → K) (u : Fin (ssNInputs N lvals) → K) :
    let xdot := toM (ssNStates N cvals lvals) (ssNStates N cvals lvals) m.mats.A *ᵥ x
                + toM (ssNStates N cvals lvals) (ssNInputs N lvals) m.mats.B *ᵥ u
    ∃ R : Report L K, CircuitEqs (sampleNet N cvals lvals (ssSources N lvals) (List.ofFn u) (List.ofFn xdot)) R
      ∧ (∀ n ∈ N.nodeLabels, ∃ rc rd, m.cRowPotential n = .ok rc ∧ m.dRowPotential n = .ok rd
          ∧ dotL rc (List.ofFn x) + dotL rd (List.ofFn u) = R.pot n)
      ∧ (∀ b ∈ N.branches, ∃ rc rd, m.cRowVoltage b.id = .ok rc ∧ m.dRowVoltage b.id = .ok rd
          ∧ dotL rc (List.ofFn x) + dotL rd (List.ofFn u) = R.v b.id)
      ∧ (∀ b ∈ N.branches, ∃ rc rd, m.cRowCurrent b.id = .ok rc ∧ m.dRowCurrent b.id = .ok rd
          ∧ dotL rc (List.ofFn x) + dotL rd (List.ofFn u) = R.i b.id) := by
  intro xdot
  obtain ⟨mats, hs, hmm⟩ := rows_model_ok hm
  have hmats : m.mats = mats := by rw [hmm]
  have ht := model_sample_circuit h hD hs hc x u
  have hr := C10_rows_report h hm x u
  dsimp only at ht hr
  rw [← hmats] at ht
  exact ⟨_, ht, hr⟩

end endtoend

/-- non-vacuity: the series circuit `V(1,0) – R=1 (1,2) – C=1 (2,0)` with the two inverses the driver finds meets
every hypothesis of `C10_output_rows` / `C10_rows_*` (state `x = [2]`, input `u = [3]`) -/
example : ∃ m, RLC netRC [("C", 1)] [] ∧ ssDelta netRC [("C", 1)] = .ok [[0, 1, 0]]
    ∧ nodalStateSpaceModel netRC [("C", 1)] [] rcAinv rcS = .ok m
    ∧ ModelCert id netRC [("C", 1)] [] rcAinv rcS [[0, 1, 0]]
    ∧ [(2 : ℚ)].length = ssNStates netRC [("C", 1)] [] ∧ [(3 : ℚ)].length = ssNInputs netRC [] := by
  have hex : ∃ mats, stateSpaceMatrices netRC [("C", 1)] [] rcAinv rcS = .ok mats := by
    simp [stateSpaceMatrices, netRC_Delta, netRC_colsL, bind, Except.bind, pure, Except.pure]
  obtain ⟨mats, hmats⟩ := hex
  refine ⟨⟨mats, netRC, [("C", 1)], []⟩, netRC_rlc, netRC_Delta, ?_, netRC_cert, ?_, ?_⟩
  · simp [nodalStateSpaceModel, hmats, bind, Except.bind, pure, Except.pure]
  · rw [netRC_ns]; rfl
  · simp [ssNInputs, netRC_colsS]

/-! ### the RC circuit, evaluated -/

/-- the four matrices of the series circuit `V(1,0) – R=1 (1,2) – C=1 (2,0)`: `v̇_C = −v_C + u`;
`y = (φ₁, φ₂, i_V) = (u, x, x − u)` -/
theorem netRC_mats : stateSpaceMatrices netRC [("C", 1)] [] rcAinv rcS
    = .ok ⟨[[-1]], [[1]], [[0], [1], [1]], [[1], [0], [-1]]⟩ := by
  simp only [stateSpaceMatrices, netRC_Delta, netRC_colsL, netRC_nY, netRC_ns, bind, Except.bind, pure, Except.pure]
  simp [ssCore, ssNInputs, netRC_colsS, ssInvLambda, ssLambda, ValDict.vals, netRC_DQ, ssQS, ssQ, netRC_nodes,
    netRC_nY, Net.nV, Net.nC, netRC_vsIds, netRC_csIds, Net.csSorted, Net.byIds, Mx.mul, Mx.ofFn, Mx.sumTo, Mx.get,
    Mx.transpose, Mx.diagMul, Mx.neg, Mx.sub, Mx.selectCols, rcAinv, rcS, List.range_succ]

theorem netRC_model : nodalStateSpaceModel netRC [("C", 1)] [] rcAinv rcS
    = .ok ⟨⟨[[-1]], [[1]], [[0], [1], [1]], [[1], [0], [-1]]⟩, netRC, [("C", 1)], []⟩ := by
  simp [nodalStateSpaceModel, netRC_mats, bind, Except.bind, pure, Except.pure]

theorem rc_state_eq (n k : Nat) (hn : n = 1) (hk : k = 1) :
    (1 : ℚ) • (fun _ : Fin n => (1 : ℚ))
      = toM n n [[-1]] *ᵥ (fun _ => (1 : ℚ)) + toM n k [[1]] *ᵥ (fun _ => (2 : ℚ)) := by
  subst hn; subst hk
  funext i
  fin_cases i
  simp [Matrix.mulVec, dotProduct, toM, Mx.get]
  norm_num

/-- non-vacuity of `C10_rows_transfer` / `C12_rows_sample_circuit` / `C10_rows_report`: the RC circuit with `s = 1`,
`x = 1`, `u = 2` (`A = −1`, `B = 1`: `1·1 = −1 + 2`) meets every hypothesis, the resolvent equation included -/
example : ∃ m, RLC netRC [("C", 1)] [] ∧ ssDelta netRC [("C", 1)] = .ok [[0, 1, 0]]
    ∧ nodalStateSpaceModel netRC [("C", 1)] [] rcAinv rcS = .ok m
    ∧ ModelCert id netRC [("C", 1)] [] rcAinv rcS [[0, 1, 0]]
    ∧ (1 : ℚ) • (fun _ : Fin (ssNStates netRC [("C", 1)] []) => (1 : ℚ))
        = toM (ssNStates netRC [("C", 1)] []) (ssNStates netRC [("C", 1)] []) m.mats.A *ᵥ (fun _ => (1 : ℚ))
          + toM (ssNStates netRC [("C", 1)] []) (ssNInputs netRC []) m.mats.B *ᵥ (fun _ => (2 : ℚ)) :=
  ⟨_, netRC_rlc, netRC_Delta, netRC_model, netRC_cert,
    rc_state_eq _ _ netRC_ns (by simp [ssNInputs, netRC_colsS])⟩

theorem netRC_getR : netRC.get? "R" = some { n1 := "1", n2 := "2", id := "R", e := .norton 1 0 } := by
  simp [Net.get?, netRC]

/-- the rows of the RC circuit, evaluated: current of the capacitor `−x + u`, of the resistor `−x + u`
(first→second terminal `1 → 2`), of the source `x − u`; voltage of the resistor `−x + u` -/
example : ∀ m, nodalStateSpaceModel netRC [("C", 1)] [] rcAinv rcS = .ok m →
    m.cRowCurrent "C" = .ok [-1] ∧ m.dRowCurrent "C" = .ok [1]
    ∧ m.cRowVoltage "R" = .ok [-1] ∧ m.dRowVoltage "R" = .ok [1] := by
  intro m hm
  rw [netRC_model] at hm
  cases hm
  refine ⟨?_, ?_, ?_, ?_⟩
  · simp [NSSM.cRowCurrent, ValDict.keys, idxOf?, ValDict.vals, Mx.vecScale]
  · simp [NSSM.dRowCurrent, ValDict.keys, idxOf?, ValDict.vals, Mx.vecScale]
  · simp [NSSM.cRowVoltage, netRC_getR, NSSM.cRowPotential, NSSM.rowForPotential, netRC_nodes, idxOf?, Mx.vecSub,
      bind, Except.bind, pure, Except.pure]
  · simp [NSSM.dRowVoltage, netRC_getR, NSSM.dRowPotential, NSSM.rowForPotential, netRC_nodes, idxOf?, Mx.vecSub,
      bind, Except.bind, pure, Except.pure]

end CC
