/-
  C13 (tie to the source) — the parser of CC/Model/Draw.lean **is** SimpleCircuit/DiagramParser.py:
  every method of `SchematicDiagramParser`, translated statement by statement into
  CC/Gen/DrawParser.lean (combinators of CC/Model/PyLib.lean), equals the hand-written model
  function the C13 theorems are about — for all symbol lists and every set order `ord`.
  A change of a parser line changes the generated term and breaks one of these equalities.

  `ord.Valid` (the iteration orders are permutations) is needed only where a dictionary built by
  `update` in a loop is compared with the model's association list.
-/
import CC.Gen.DrawParser
import CC.Proofs.DrawTables
set_option linter.unusedSectionVars false
set_option linter.unusedSimpArgs false
namespace CC
open CC.Draw

/-! ### helper lemmas about the Python combinators -/
namespace Draw.Py

theorem whileFuel_nextFree (vals : List String) (fuel i : Nat) :
    whileFuel fuel (fun i => decide (toString i ∈ vals)) (fun i => i + 1) i = nextFree vals fuel i := by
  induction fuel generalizing i with
  | zero => rfl
  | succ n ih =>
    unfold whileFuel nextFree
    by_cases h : toString i ∈ vals
    · simp only [h, decide_true, if_true]; exact ih (i + 1)
    · have h' : ¬ i.repr ∈ vals := h
      simp [h']

theorem whileFuel_closure {P : Type} [DecidableEq P] (ws : List (P × P)) (n : Nat) (S : List P) (old : Nat)
    (h : old < S.length) :
    (whileFuel (n + 1) (fun st : List P × Nat => decide (st.1.length > st.2))
        (fun st => (sweep ws st.1, st.1.length)) (S, old)).1 = closureFuel (n + 1) ws S := by
  induction n generalizing S old with
  | zero =>
    unfold whileFuel
    simp only [h, gt_iff_lt, decide_true, if_true]
    unfold whileFuel closureFuel
    simp only
    split <;> rfl
  | succ n ih =>
    unfold whileFuel
    simp only [h, gt_iff_lt, decide_true, if_true]
    conv => rhs; unfold closureFuel
    simp only
    by_cases hlt : S.length < (sweep ws S).length
    · rw [if_pos hlt]; exact ih (sweep ws S) S.length hlt
    · rw [if_neg hlt]
      unfold whileFuel
      simp [hlt]

theorem foldl_remove {α : Type} [DecidableEq α] (I l : List α) :
    I.foldl (fun acc n => remove n acc) l = l.filter (· ∉ I) := by
  induction I generalizing l with
  | nil => simp
  | cons a I ih =>
    rw [List.foldl_cons, ih]
    unfold remove
    rw [List.filter_filter]
    apply List.filter_congr
    intro x _
    simp [List.mem_cons, Bool.and_comm]

theorem foldl_dictSet_map {α β : Type} [DecidableEq α] (f : α → β) (l : List α) (hnd : l.Nodup)
    (acc : List (α × β)) (hacc : ∀ a ∈ l, a ∉ acc.map Prod.fst) :
    l.foldl (fun d n => dictSet n (f n) d) acc = acc ++ l.map (fun n => (n, f n)) := by
  induction l generalizing acc with
  | nil => simp
  | cons a l ih =>
    have hset : ∀ (d : List (α × β)), a ∉ d.map Prod.fst → dictSet a (f a) d = d ++ [(a, f a)] := by
      intro d hd
      induction d with
      | nil => rfl
      | cons kv d ihd =>
        obtain ⟨k, v⟩ := kv
        have hk : k ≠ a := fun e => hd (by simp [e])
        unfold dictSet
        simp only [hk, if_false, List.cons_append]
        rw [ihd (fun h => hd (by simp [List.mem_map] at h ⊢; right; exact h))]
    rw [List.foldl_cons, hset acc (hacc a List.mem_cons_self)]
    have hnd' := List.nodup_cons.mp hnd
    rw [ih hnd'.2]
    · simp
    · intro b hb
      simp only [List.map_append, List.map_cons, List.map_nil, List.mem_append, List.mem_singleton, not_or]
      exact ⟨hacc b (List.mem_cons_of_mem _ hb), fun e => hnd'.1 (e ▸ hb)⟩

theorem lookup_isNone_iff {α β : Type} [DecidableEq α] (d : List (α × β)) (a : α) :
    (d.lookup a).isNone = true ↔ a ∉ d.map Prod.fst := by
  induction d with
  | nil => simp
  | cons kv d ih =>
    obtain ⟨k, v⟩ := kv
    by_cases h : a = k
    · subst h; simp
    · have hb : (a == k) = false := by simp [h]
      simp [List.lookup, hb, ih, h]

end Draw.Py

open Draw.Py

/-! ### the methods -/

/-- `all_elements`, `circuit_elements`, `line_elements`, `node_elements` -/
theorem C13_gen_elements (syms : List Sym) :
    GenParser.allElements syms = syms ∧
    GenParser.circuitElements syms = syms.filter (·.hasName) ∧
    GenParser.lineElements syms = syms.filter (·.isLine) ∧
    GenParser.nodeElements syms = syms.filter (·.isNode) := by
  refine ⟨rfl, ?_, ?_, ?_⟩
  · unfold GenParser.circuitElements; congr 1; funext e; simp
  · unfold GenParser.lineElements; congr 1
  · unfold GenParser.nodeElements; congr 1; funext e; simp [Sym.isNode]

/-- `all_nodes` -/
theorem C13_gen_all_nodes (syms : List Sym) : GenParser.allNodes syms = allNodes syms := by
  obtain ⟨_, hc, hl, _⟩ := C13_gen_elements syms
  unfold GenParser.allNodes allNodes
  simp only [hc, hl, Py.setOf, Py.unionList, toSet, List.foldl_append]
  rfl

/-- the `for line in self.line_elements` body of `_get_equal_electrical_potential_nodes` is one
`sweep` of the model -/
theorem C13_gen_sweep (syms : List Sym) (S : List Pt) :
    Py.forIn (GenParser.lineElements syms) S (fun S line =>
        let n1 := Py.node0 line
        let n2 := Py.node1 line
        if n1 ∈ S then Py.add n2 S else if n2 ∈ S then Py.add n1 S else S)
      = sweep (wiresOf syms) S := by
  rw [(C13_gen_elements syms).2.2.1]
  unfold Py.forIn sweep wiresOf
  rw [List.foldl_map]
  rfl

/-- `_get_equal_electrical_potential_nodes(node)` -/
theorem C13_gen_equal_potential (syms : List Sym) (node : Pt) :
    GenParser.equalPotential syms node = eqp (wiresOf syms) node := by
  unfold GenParser.equalPotential eqp closureBound
  have hbody : (fun st : List Pt × Nat =>
      (Py.forIn (GenParser.lineElements syms) st.1 (fun S line =>
        let n1 := Py.node0 line
        let n2 := Py.node1 line
        if n1 ∈ S then Py.add n2 S else if n2 ∈ S then Py.add n1 S else S), st.1.length))
      = fun st => (sweep (wiresOf syms) st.1, st.1.length) := by
    funext st; rw [C13_gen_sweep]
  have := whileFuel_closure (wiresOf syms) (2 * (wiresOf syms).length) [node] 0 (by simp)
  rw [← this, ← hbody]

/-- `unique_nodes` -/
theorem C13_gen_unique_nodes (ord : SetOrd Pt) (syms : List Sym) :
    GenParser.uniqueNodes ord syms = uniqueNodes (wiresOf syms) ord (allNodes syms) := by
  unfold GenParser.uniqueNodes uniqueNodes Py.forIn
  simp only [C13_gen_all_nodes]
  congr 1
  funext nodes node
  by_cases h : node ∈ nodes
  · simp only [h, if_true]
    rw [foldl_remove, C13_gen_equal_potential]
    unfold Py.add
    congr 1
    apply List.filter_congr
    intro x hx
    simp [Py.inter, List.mem_filter, hx]
  · simp [h]

/-- `unique_node_mapping` -/
theorem C13_gen_unique_node_mapping (ord : SetOrd Pt) (hord : ord.Valid) (syms : List Sym) :
    GenParser.uniqueNodeMapping ord syms = uniqueNodeMapping (wiresOf syms) ord (allNodes syms) := by
  unfold GenParser.uniqueNodeMapping uniqueNodeMapping Py.forIn
  simp only [C13_gen_all_nodes, C13_gen_unique_nodes, C13_gen_equal_potential]
  have hnd : (ord.all (allNodes syms)).Nodup := ((hord (allNodes syms)).1.nodup_iff).mpr (nodup_allNodes syms)
  have hbody : (fun (d : List (Pt × Pt)) (n : Pt) =>
      if (Py.inter (uniqueNodes (wiresOf syms) ord (allNodes syms)) (Py.remove n (eqp (wiresOf syms) n))).length > 0 then
        dictSet n (Py.popD (Py.inter (uniqueNodes (wiresOf syms) ord (allNodes syms)) (Py.remove n (eqp (wiresOf syms) n)))) d
      else dictSet n n d)
      = fun d n => dictSet n (urep (wiresOf syms) (uniqueNodes (wiresOf syms) ord (allNodes syms)) n) d := by
    funext d n
    unfold urep Py.inter Py.remove Py.popD
    simp only
    cases hc : List.filter (fun x => decide (x ∈ List.filter (fun x => decide (x ≠ n)) (eqp (wiresOf syms) n)))
        (uniqueNodes (wiresOf syms) ord (allNodes syms)) with
    | nil => simp
    | cons u rest => simp
  rw [hbody, foldl_dictSet_map _ _ hnd [] (by simp)]
  simp

/-- `node_label_mapping` -/
theorem C13_gen_node_label_mapping (ord : SetOrd Pt) (hord : ord.Valid) (syms : List Sym) :
    GenParser.nodeLabelMapping ord syms =
      nodeLabelMapping (wiresOf syms) ord (allNodes syms) (nodeSymsOf syms) := by
  unfold GenParser.nodeLabelMapping nodeLabelMapping
  simp only [C13_gen_unique_node_mapping ord hord, C13_gen_unique_nodes, (C13_gen_elements syms).2.2.2]
  -- the dictionary comprehension is `namedLabels`
  have hnamed : Py.dictCompM (syms.filter (·.isNode))
        (fun e => do pure (← Py.getItem (uniqueNodeMapping (wiresOf syms) ord (allNodes syms)) (Py.node0 e)))
        (fun e => e.nodeId)
      = namedLabels (uniqueNodeMapping (wiresOf syms) ord (allNodes syms)) (nodeSymsOf syms) := by
    unfold Py.dictCompM namedLabels nodeSymsOf
    rw [List.foldlM_map]
    congr 1
    funext d e
    unfold Py.getItem Py.node0
    cases h : (uniqueNodeMapping (wiresOf syms) ord (allNodes syms)).lookup e.n1 <;>
      simp [h, bind, Except.bind, pure, Except.pure, throw, throwThe, MonadExceptOf.throw]
  rw [hnamed]
  cases namedLabels (uniqueNodeMapping (wiresOf syms) ord (allNodes syms)) (nodeSymsOf syms) with
  | error e => rfl
  | ok named =>
    simp only [bind, Except.bind, pure, Except.pure]
    congr 1
    unfold numberUnlabeled Py.forIn
    have hfilter : (ord.uniq (uniqueNodes (wiresOf syms) ord (allNodes syms))).filter
          (fun p => decide (p ∉ named.map Prod.fst))
        = (ord.uniq (uniqueNodes (wiresOf syms) ord (allNodes syms))).filter
          (fun p => (named.lookup p).isNone) := by
      apply List.filter_congr
      intro p _
      rw [Bool.eq_iff_iff, decide_eq_true_iff, lookup_isNone_iff]
    rw [hfilter]
    have hstep : (fun (st : List (Pt × String) × Nat) (p : Pt) =>
        (dictSet p (toString (whileFuel ((st.1.map Prod.snd).length + 1)
            (fun node_index => decide (toString node_index ∈ st.1.map Prod.snd)) (fun node_index => node_index + 1) st.2)) st.1,
         whileFuel ((st.1.map Prod.snd).length + 1)
            (fun node_index => decide (toString node_index ∈ st.1.map Prod.snd)) (fun node_index => node_index + 1) st.2))
        = numberStep := by
      funext st p
      unfold numberStep
      simp only [whileFuel_nextFree]
    exact congrArg (fun f => (List.foldl f (named, named.length + 1) _).1) hstep

/-- `_get_node_index(node)` -/
theorem C13_gen_get_node_index (ord : SetOrd Pt) (hord : ord.Valid) (syms : List Sym) (node : Pt) :
    GenParser.getNodeIndex ord syms node = labelOf ord syms node := by
  unfold GenParser.getNodeIndex labelOf getNodeIndex lookupLabel
  rw [C13_gen_node_label_mapping ord hord, C13_gen_unique_node_mapping ord hord]
  cases nodeLabelMapping (wiresOf syms) ord (allNodes syms) (nodeSymsOf syms) with
  | error e => rfl
  | ok labels =>
    simp only [bind, Except.bind, Py.getItem]
    cases (uniqueNodeMapping (wiresOf syms) ord (allNodes syms)).lookup node with
    | none => rfl
    | some r =>
      simp only [pure, Except.pure]
      cases labels.lookup r <;> rfl

/-- `ground` -/
theorem C13_gen_ground (ord : SetOrd Pt) (syms : List Sym) :
    GenParser.ground ord syms = groundPoint (wiresOf syms) ord (allNodes syms) (groundSymsOf syms) := by
  unfold GenParser.ground groundPoint groundSymsOf
  simp only [C13_gen_unique_nodes, (C13_gen_elements syms).2.2.2]
  have hg : (syms.filter (·.isNode)).filter (fun n => decide (isA n.cls "Ground" = true))
      = (syms.filter (·.isNode)).filter (·.isGround) := by
    congr 1; funext e; simp [Sym.isGround]
  rw [hg]
  cases hgs : (syms.filter (·.isNode)).filter (·.isGround) with
  | nil =>
    simp only [List.length_nil, List.map_nil]
    cases ord.uniq (uniqueNodes (wiresOf syms) ord (allNodes syms)) <;> rfl
  | cons g rest =>
    cases rest with
    | nil => rfl
    | cons g' rest' => simp [List.length_cons]

/-- `ground_label` -/
theorem C13_gen_ground_label (ord : SetOrd Pt) (hord : ord.Valid) (syms : List Sym) :
    GenParser.groundLabel ord syms = groundLabel ord syms := by
  unfold GenParser.groundLabel groundLabel
  rw [C13_gen_ground]
  cases groundPoint (wiresOf syms) ord (allNodes syms) (groundSymsOf syms) with
  | error e => rfl
  | ok g => simp only [bind, Except.bind, pure, Except.pure]; rw [C13_gen_get_node_index ord hord]

/-- `get_element(name)` -/
theorem C13_gen_get_element (syms : List Sym) (name : String) :
    GenParser.getElement syms name = getElement syms name := by
  unfold GenParser.getElement getElement
  rw [(C13_gen_elements syms).2.1]
  cases (syms.filter (·.hasName)).filter (fun e => decide (e.name = name)) with
  | nil => rfl
  | cons e rest => simp [Py.index0]

end CC
