/-
  Property C04 — superposition over the library's OWN zeroing operations (round 5b).

  `CC/Properties/C04.lean` / `C04More.lean` speak about a skeleton `withSrc bs s` (topology, identifiers and
  immittances fixed, the source value of branch `b` is `s b.id`).  The library deactivates sources with
  `short_circuitify_voltage_sources` / `open_circuitify_current_sources` (model: `shortCircuitifyVS`,
  `openCircuitifyCS` of CC/Model/Transform.lean), which CHANGE THE RECORD CLASS: a zeroed voltage source becomes
  `impedance(name, Z)` = `.norton Zfin 0` — also when the source was a Thevenin record (`is_voltage_source` is
  `|V| > 0`, true of a linear current source with `V = I/Y`) — and a zeroed current source becomes
  `admittance(name, Y)` = `.thevenin Yfin 0`.  This file proves that the change of record class is electrically
  invisible and composes the two halves:

    C04_zeroed_branch_voltage / _current / _both   branch by branch: the library's zeroed record and the skeleton
                                   record with source value 0 have the same terminals, identifier, element law
                                   (same zero set) and reference direction of the reported current
    C04_zeroed_not_lossy           a zeroed source is never a linear (lossy) source: its current is reported in
                                   the passive direction first→second, whereas the active lossy source reports it
                                   in generator direction — the direction flip behind the open finding C04
    C04_zero_voltage_solutions, C04_zero_current_solutions, C04_deactivate_solutions
                                   the returned network has EXACTLY the solutions (potentials, voltages AND
                                   reported currents, one and the same report) of the skeleton of the input with
                                   the value of every non-kept (voltage / current / any) source set to 0
    C04_zeroing_is_withSrc         … and that skeleton is `withSrc N.branches (srcWhere …)` (distinct ids)
    C04_zeroing_superpose          the composed statement: sources partitioned into two groups, each part solved
                                   with the other group deactivated by the library's operations; potentials and
                                   voltages of the full network are the sums; reported currents are the sums on
                                   every branch that is not a lossy source, and for a lossy source of group A
                                   `i = i_A − i_B` exactly (group B: `i = i_B − i_A`)
    C04_reported_zeroing_superpose the same about the values the accessors return for whatever vectors satisfy
                                   the three matrix equations
    C04_zeroing_lossy_sum_fails    on the finding's input (Vq = 8 V, 2 Ω ∥ Iq = 1 A, 1/2 S) the sum of the
                                   reported currents over the library-zeroed networks is NOT the full current
-/
import CC.Properties.C04More
import CC.Properties.C16Compose
set_option linter.unusedSectionVars false
set_option linter.unusedVariables false

namespace CC
variable {L K : Type} [DecidableEq L] [LabelOrd L] [Field K] [DecidableEq K]

/-! ### electrically equal branches -/

/-- `c` is electrically the same branch as `b`: same terminals (same orientation), same identifier, the same
set of (voltage, reported current) pairs allowed by the element law, the same reference direction of the
reported current.  The type string and the record class may differ. -/
structure Branch.ElecEq (b c : Branch L K) : Prop where
  n1 : c.n1 = b.n1
  n2 : c.n2 = b.n2
  id : c.id = b.id
  lossy : c.e.isLossy = b.e.isLossy
  law : ∀ v i : K, c.e.lawResidual v i = 0 ↔ b.e.lawResidual v i = 0

theorem Branch.ElecEq.rfl' (b : Branch L K) : Branch.ElecEq b b := ⟨rfl, rfl, rfl, rfl, fun _ _ => Iff.rfl⟩

theorem Branch.ElecEq.symm {b c : Branch L K} (h : Branch.ElecEq b c) : Branch.ElecEq c b :=
  ⟨h.n1.symm, h.n2.symm, h.id.symm, h.lossy.symm, fun v i => (h.law v i).symm⟩

theorem Branch.ElecEq.trans {a b c : Branch L K} (h1 : Branch.ElecEq a b) (h2 : Branch.ElecEq b c) :
    Branch.ElecEq a c :=
  ⟨h2.n1.trans h1.n1, h2.n2.trans h1.n2, h2.id.trans h1.id, h2.lossy.trans h1.lossy,
    fun v i => (h2.law v i).trans (h1.law v i)⟩

/-- replacing every branch by an electrically equal one keeps every solution (two branch lists given as
images `f`, `g` of one index list) -/
theorem circuitEqsAll_map_elecEq_mp {α : Type} (bs : List α) (f g : α → Branch L K)
    (hf : ∀ b ∈ bs, Branch.ElecEq (g b) (f b)) (z : L) (R : Report L K)
    (h : CircuitEqsAll (bs.map g) z R) : CircuitEqsAll (bs.map f) z R := by
  have hk : ∀ n, kclResidual (⟨bs.map f, z⟩ : Net L K) R n = kclResidual (⟨bs.map g, z⟩ : Net L K) R n := by
    intro n
    unfold kclResidual
    simp only [List.map_map]
    apply congrArg; apply List.map_congr_left
    intro b hb
    have h := hf b hb
    simp only [Function.comp_apply, incidence, Elem.physCurrent, h.n1, h.n2, h.id, h.lossy]
  refine ⟨h.ref_zero, fun c hc => ?_, fun c hc => ?_, fun n => ?_⟩
  · obtain ⟨b, hb, rfl⟩ := List.mem_map.mp hc
    have e := hf b hb
    have := h.volt _ (List.mem_map.mpr ⟨b, hb, rfl⟩)
    simp only [voltResidual, e.n1, e.n2, e.id] at this ⊢
    exact this
  · obtain ⟨b, hb, rfl⟩ := List.mem_map.mp hc
    have e := hf b hb
    rw [e.id]
    exact (e.law _ _).mpr (h.law _ (List.mem_map.mpr ⟨b, hb, rfl⟩))
  · rw [hk n]; exact h.kcl n

/-- replacing every branch by an electrically equal one does not change the set of solutions -/
theorem circuitEqsAll_map_elecEq {α : Type} (bs : List α) (f g : α → Branch L K)
    (hf : ∀ b ∈ bs, Branch.ElecEq (g b) (f b)) (z : L) (R : Report L K) :
    CircuitEqsAll (bs.map f) z R ↔ CircuitEqsAll (bs.map g) z R :=
  ⟨circuitEqsAll_map_elecEq_mp bs g f (fun b hb => (hf b hb).symm) z R,
   circuitEqsAll_map_elecEq_mp bs f g hf z R⟩

/-! ### the skeleton with some source values set to zero -/

/-- the source value stored in a record -/
def Elem.src : Elem K → K
  | .norton _ V => V
  | .thevenin _ I => I

theorem Elem.setSrc_src (e : Elem K) : e.setSrc e.src = e := by cases e <;> rfl

/-- the branch with its source value set to `0` where `p` holds — record class, immittance, type string,
terminals and identifier untouched (skeleton form, the vocabulary of `C04_superpose`) -/
def zeroWhere (p : Branch L K → Bool) (b : Branch L K) : Branch L K :=
  if p b then { b with e := b.e.setSrc 0 } else b

/-- the source assignment of the skeleton `bs` in which the branches selected by `p` are set to `0` and every
other branch keeps its own value -/
def srcWhere (bs : List (Branch L K)) (p : Branch L K → Bool) (id : String) : K :=
  match findId bs id with
  | some b => if p b then 0 else b.e.src
  | none => 0

/-- which branches `short_circuitify_voltage_sources(·, keep)` deactivates -/
def selVS (keep : List (ElemKey K)) (b : Branch L K) : Bool := !(keep.contains b.key) && b.e.isVSrc
/-- which branches `open_circuitify_current_sources(·, keep)` deactivates -/
def selCS (keep : List (ElemKey K)) (b : Branch L K) : Bool := !(keep.contains b.key) && b.e.isCS
/-- which branches the two operations together deactivate: every active source that is not exempted -/
def selSrc (keep : List (ElemKey K)) (b : Branch L K) : Bool := !(keep.contains b.key) && b.e.isActive

theorem zeroWhere_eq_setSrc (bs : List (Branch L K)) (hids : (bs.map (·.id)).Nodup) (p : Branch L K → Bool)
    {b : Branch L K} (hb : b ∈ bs) :
    zeroWhere p b = { b with e := b.e.setSrc (srcWhere bs p b.id) } := by
  unfold zeroWhere srcWhere
  rw [findId_of_mem hids hb]
  by_cases hp : p b = true
  · simp [hp]
  · simp [hp, Elem.setSrc_src]

/-- **C04 (the zeroed skeleton is a `withSrc`).**  For distinct identifiers the branch list with the selected
source values set to zero is the skeleton `withSrc bs (srcWhere bs p)` of `C04_linear` / `C04_superpose`. -/
theorem C04_zeroing_is_withSrc (bs : List (Branch L K)) (hids : (bs.map (·.id)).Nodup) (p : Branch L K → Bool) :
    bs.map (zeroWhere p) = withSrc bs (srcWhere bs p) := by
  unfold withSrc
  apply List.map_congr_left
  intro b hb
  exact zeroWhere_eq_setSrc bs hids p hb

/-! ### element level: the library's zeroed record against the skeleton record -/

theorem Elem.setSrc_zero_not_lossy (e : Elem K) : (e.setSrc 0).isLossy = false := by
  cases e with
  | norton Z V => by_cases hZ : Z = 0 <;> simp [Elem.setSrc, Elem.isLossy, Elem.kind, hZ]
  | thevenin Y I => by_cases hY : Y = 0 <;> simp [Elem.setSrc, Elem.isLossy, Elem.kind, hY]

theorem Elem.norton_zero_not_lossy (Z : K) : (Elem.norton Z 0).isLossy = false :=
  Elem.setSrc_zero_not_lossy (.norton Z 0)
theorem Elem.thevenin_zero_not_lossy (Y : K) : (Elem.thevenin Y 0).isLossy = false :=
  Elem.setSrc_zero_not_lossy (.thevenin Y 0)

/-- `impedance(name, element.Z)` of a voltage source has the element law of the same record with `V = 0`
(for a Thevenin record `Y, I` with `Y ≠ 0`: `v = (1/Y)·i ↔ i = Y·v`) -/
theorem Elem.zeroInVoltage_law (e : Elem K) (h : e.isVSrc = true) (v i : K) :
    (Elem.norton e.Zfin 0).lawResidual v i = 0 ↔ (e.setSrc 0).lawResidual v i = 0 := by
  cases e with
  | norton Z V => exact Iff.rfl
  | thevenin Y I =>
    have hY : Y ≠ 0 := by
      intro hY; simp [Elem.isVSrc, Elem.Vval, hY] at h
    have h1 : (1 : K) / Y ≠ 0 := one_div_ne_zero hY
    simp only [Elem.Zfin, Elem.setSrc, Elem.lawResidual, hY, h1, if_false, if_true]
    constructor
    · intro hh
      have : v = 1 / Y * i := by linear_combination hh
      rw [this]; field_simp; ring
    · intro hh
      have : i = Y * v := by linear_combination hh
      rw [this]; field_simp; ring

/-- `admittance(name, element.Y)` of a current source has the element law of the same record with `I = 0`
(for a Norton record `Z, V` with `Z ≠ 0`: `i = (1/Z)·v ↔ v = Z·i`) -/
theorem Elem.zeroInCurrent_law (e : Elem K) (h : e.isCS = true) (v i : K) :
    (Elem.thevenin e.Yfin 0).lawResidual v i = 0 ↔ (e.setSrc 0).lawResidual v i = 0 := by
  cases e with
  | thevenin Y I => exact Iff.rfl
  | norton Z V =>
    have hZ : Z ≠ 0 := by
      intro hZ; simp [Elem.isCS, Elem.Ival, hZ] at h
    have h1 : (1 : K) / Z ≠ 0 := one_div_ne_zero hZ
    simp only [Elem.Yfin, Elem.setSrc, Elem.lawResidual, hZ, h1, if_false, if_true]
    constructor
    · intro hh
      have : i = 1 / Z * v := by linear_combination hh
      rw [this]; field_simp; ring
    · intro hh
      have : v = Z * i := by linear_combination hh
      rw [this]; field_simp; ring

/-- an element that is neither a voltage nor a current source stores the source value `0` -/
theorem Elem.src_of_inactive (e : Elem K) (h : e.isActive = false) : e.src = 0 := by
  cases e with
  | norton Z V =>
    simp only [Elem.isActive, Bool.or_eq_false_iff, Elem.isVSrc, Elem.Vval] at h
    exact not_not.mp (of_decide_eq_false h.1)
  | thevenin Y I =>
    simp only [Elem.isActive, Bool.or_eq_false_iff, Elem.isCS, Elem.Ival] at h
    exact not_not.mp (of_decide_eq_false h.2)

/-- a linear (lossy) source is an active element -/
theorem Elem.active_of_lossy (e : Elem K) (h : e.isLossy = true) : e.isActive = true := by
  cases e with
  | norton Z V =>
    by_cases hZ : Z = 0
    · simp [Elem.isLossy, Elem.kind, hZ] at h
    · by_cases hV : V = 0
      · simp [Elem.isLossy, Elem.kind, hZ, hV] at h
      · simp [Elem.isActive, Elem.isVSrc, Elem.Vval, hV]
  | thevenin Y I =>
    by_cases hY : Y = 0
    · simp [Elem.isLossy, Elem.kind, hY] at h
    · by_cases hI : I = 0
      · simp [Elem.isLossy, Elem.kind, hY, hI] at h
      · simp [Elem.isActive, Elem.isCS, Elem.Ival, hI]

/-- the impedance left by `zeroInVoltage` is not a current source, the admittance left by `zeroInCurrent` is
not a voltage source: the second operation never touches what the first one zeroed -/
theorem Elem.norton_zero_not_cs (Z : K) : (Elem.norton Z (0 : K)).isCS = false := by
  by_cases hZ : Z = 0 <;> simp [Elem.isCS, Elem.Ival, hZ]
theorem Elem.thevenin_zero_not_vs (Y : K) : (Elem.thevenin Y (0 : K)).isVSrc = false := by
  by_cases hY : Y = 0 <;> simp [Elem.isVSrc, Elem.Vval, hY]

/-! ### branch level -/

/-- **C04 (record-class change, voltage side).**  What `short_circuitify_voltage_sources` makes of a branch is
electrically the branch with its voltage-source value set to 0 in skeleton form. -/
theorem C04_zeroed_branch_voltage (keep : List (ElemKey K)) (b : Branch L K) :
    Branch.ElecEq (zeroWhere (selVS keep) b) (zeroVS keep b) := by
  unfold zeroWhere zeroVS selVS
  by_cases hp : (!(keep.contains b.key) && b.e.isVSrc) = true
  · have hv : b.e.isVSrc = true := by simp only [Bool.and_eq_true] at hp; exact hp.2
    rw [if_pos hp, if_pos hp]
    refine ⟨rfl, rfl, rfl, ?_, fun v i => ?_⟩
    · simp only [zeroInVoltage]
      rw [Elem.norton_zero_not_lossy, Elem.setSrc_zero_not_lossy]
    · simp only [zeroInVoltage]
      exact Elem.zeroInVoltage_law b.e hv v i
  · rw [if_neg hp, if_neg hp]; exact Branch.ElecEq.rfl' b

/-- **C04 (record-class change, current side).** -/
theorem C04_zeroed_branch_current (keep : List (ElemKey K)) (b : Branch L K) :
    Branch.ElecEq (zeroWhere (selCS keep) b) (zeroCS keep b) := by
  unfold zeroWhere zeroCS selCS
  by_cases hp : (!(keep.contains b.key) && b.e.isCS) = true
  · have hv : b.e.isCS = true := by simp only [Bool.and_eq_true] at hp; exact hp.2
    rw [if_pos hp, if_pos hp]
    refine ⟨rfl, rfl, rfl, ?_, fun v i => ?_⟩
    · simp only [zeroInCurrent]
      rw [Elem.thevenin_zero_not_lossy, Elem.setSrc_zero_not_lossy]
    · simp only [zeroInCurrent]
      exact Elem.zeroInCurrent_law b.e hv v i
  · rw [if_neg hp, if_neg hp]; exact Branch.ElecEq.rfl' b

theorem zeroVS_of_kept (keep : List (ElemKey K)) (b : Branch L K) (h : keep.contains b.key = true) :
    zeroVS keep b = b := by unfold zeroVS; rw [h]; simp
theorem zeroCS_of_kept (keep : List (ElemKey K)) (b : Branch L K) (h : keep.contains b.key = true) :
    zeroCS keep b = b := by unfold zeroCS; rw [h]; simp
theorem zeroVS_of_not (keep : List (ElemKey K)) (b : Branch L K) (h : b.e.isVSrc = false) :
    zeroVS keep b = b := by unfold zeroVS; rw [h]; simp
theorem zeroCS_of_not (keep : List (ElemKey K)) (b : Branch L K) (h : b.e.isCS = false) :
    zeroCS keep b = b := by unfold zeroCS; rw [h]; simp
theorem zeroVS_of_sel (keep : List (ElemKey K)) (b : Branch L K) (h : keep.contains b.key = false)
    (hv : b.e.isVSrc = true) : zeroVS keep b = zeroInVoltage b := by unfold zeroVS; rw [h, hv]; simp
theorem zeroCS_of_sel (keep : List (ElemKey K)) (b : Branch L K) (h : keep.contains b.key = false)
    (hv : b.e.isCS = true) : zeroCS keep b = zeroInCurrent b := by unfold zeroCS; rw [h, hv]; simp

/-- both operations, voltage sources first (the order of the C04 oracle): a non-exempt active source is zeroed
exactly once, whatever the exemption list says about the zeroed record -/
theorem zeroCS_zeroVS (keep : List (ElemKey K)) (b : Branch L K) :
    zeroCS keep (zeroVS keep b) =
      if keep.contains b.key = true then b
      else if b.e.isVSrc = true then zeroInVoltage b
      else if b.e.isCS = true then zeroInCurrent b else b := by
  by_cases hk : keep.contains b.key = true
  · rw [if_pos hk, zeroVS_of_kept keep b hk, zeroCS_of_kept keep b hk]
  · have hk' : keep.contains b.key = false := by simpa using hk
    rw [if_neg hk]
    by_cases hv : b.e.isVSrc = true
    · rw [if_pos hv, zeroVS_of_sel keep b hk' hv]
      exact zeroCS_of_not keep _ (Elem.norton_zero_not_cs _)
    · have hv' : b.e.isVSrc = false := by simpa using hv
      rw [if_neg hv, zeroVS_of_not keep b hv']
      by_cases hc : b.e.isCS = true
      · rw [if_pos hc, zeroCS_of_sel keep b hk' hc]
      · rw [if_neg hc, zeroCS_of_not keep b (by simpa using hc)]

/-- both operations, current sources first (the order of `passive_network`) -/
theorem zeroVS_zeroCS (keep : List (ElemKey K)) (b : Branch L K) :
    zeroVS keep (zeroCS keep b) =
      if keep.contains b.key = true then b
      else if b.e.isCS = true then zeroInCurrent b
      else if b.e.isVSrc = true then zeroInVoltage b else b := by
  by_cases hk : keep.contains b.key = true
  · rw [if_pos hk, zeroCS_of_kept keep b hk, zeroVS_of_kept keep b hk]
  · have hk' : keep.contains b.key = false := by simpa using hk
    rw [if_neg hk]
    by_cases hv : b.e.isCS = true
    · rw [if_pos hv, zeroCS_of_sel keep b hk' hv]
      exact zeroVS_of_not keep _ (Elem.thevenin_zero_not_vs _)
    · have hv' : b.e.isCS = false := by simpa using hv
      rw [if_neg hv, zeroCS_of_not keep b hv']
      by_cases hc : b.e.isVSrc = true
      · rw [if_pos hc, zeroVS_of_sel keep b hk' hc]
      · rw [if_neg hc, zeroVS_of_not keep b (by simpa using hc)]

theorem elecEq_zeroInVoltage (b : Branch L K) (hv : b.e.isVSrc = true) :
    Branch.ElecEq ({ b with e := b.e.setSrc 0 } : Branch L K) (zeroInVoltage b) := by
  refine ⟨rfl, rfl, rfl, ?_, fun v i => ?_⟩
  · simp only [zeroInVoltage]
    rw [Elem.norton_zero_not_lossy, Elem.setSrc_zero_not_lossy]
  · simp only [zeroInVoltage]
    exact Elem.zeroInVoltage_law b.e hv v i

theorem elecEq_zeroInCurrent (b : Branch L K) (hv : b.e.isCS = true) :
    Branch.ElecEq ({ b with e := b.e.setSrc 0 } : Branch L K) (zeroInCurrent b) := by
  refine ⟨rfl, rfl, rfl, ?_, fun v i => ?_⟩
  · simp only [zeroInCurrent]
    rw [Elem.thevenin_zero_not_lossy, Elem.setSrc_zero_not_lossy]
  · simp only [zeroInCurrent]
    exact Elem.zeroInCurrent_law b.e hv v i

/-- **C04 (record-class change, both operations, either order).**  The branch the two zeroing operations
return is electrically the branch with its source value set to 0 if it is a non-exempt active source, and
the branch itself otherwise. -/
theorem C04_zeroed_branch_both (keep : List (ElemKey K)) (b : Branch L K) :
    Branch.ElecEq (zeroWhere (selSrc keep) b) (zeroCS keep (zeroVS keep b)) ∧
    Branch.ElecEq (zeroWhere (selSrc keep) b) (zeroVS keep (zeroCS keep b)) := by
  rw [zeroCS_zeroVS, zeroVS_zeroCS]
  unfold zeroWhere selSrc Elem.isActive
  by_cases hk : keep.contains b.key = true
  · simp only [hk, Bool.not_true, Bool.false_and, Bool.false_eq_true, if_false, if_true]
    exact ⟨Branch.ElecEq.rfl' b, Branch.ElecEq.rfl' b⟩
  · have hk' : keep.contains b.key = false := by simpa using hk
    by_cases hv : b.e.isVSrc = true <;> by_cases hc : b.e.isCS = true
    · simp only [hk', hv, hc, Bool.not_false, Bool.true_and, Bool.or_true, Bool.false_eq_true, if_false, if_true]
      exact ⟨elecEq_zeroInVoltage b hv, elecEq_zeroInCurrent b hc⟩
    · have hc' : b.e.isCS = false := by simpa using hc
      simp only [hk', hv, hc', Bool.not_false, Bool.true_and, Bool.or_false, Bool.false_eq_true, if_false, if_true]
      exact ⟨elecEq_zeroInVoltage b hv, elecEq_zeroInVoltage b hv⟩
    · have hv' : b.e.isVSrc = false := by simpa using hv
      simp only [hk', hv', hc, Bool.not_false, Bool.true_and, Bool.false_or, Bool.false_eq_true, if_false, if_true]
      exact ⟨elecEq_zeroInCurrent b hc, elecEq_zeroInCurrent b hc⟩
    · have hv' : b.e.isVSrc = false := by simpa using hv
      have hc' : b.e.isCS = false := by simpa using hc
      simp only [hk', hv', hc', Bool.not_false, Bool.true_and, Bool.or_false, Bool.false_eq_true, if_false]
      exact ⟨Branch.ElecEq.rfl' b, Branch.ElecEq.rfl' b⟩

/-- **C04 (direction of the reported current of a zeroed source).**  Whatever record a zeroing operation
writes (`impedance` / `admittance`) is not a linear source: the solver reports its current in the passive
direction first→second (`physCurrent i = i`), whereas for the active linear (lossy) source it replaced the
reported current is the NEGATIVE of the first→second current (`physCurrent i = −i`).  This is the exact
direction relation behind the open finding C04; `C04_zeroing_superpose` states its consequence. -/
theorem C04_zeroed_not_lossy (keep : List (ElemKey K)) (b : Branch L K) :
    (selVS keep b = true → (zeroVS keep b).e.isLossy = false ∧ ∀ i : K, (zeroVS keep b).e.physCurrent i = i) ∧
    (selCS keep b = true → (zeroCS keep b).e.isLossy = false ∧ ∀ i : K, (zeroCS keep b).e.physCurrent i = i) ∧
    (b.e.isLossy = true → ∀ i : K, b.e.physCurrent i = -i) := by
  refine ⟨fun h => ?_, fun h => ?_, fun h i => by simp [Elem.physCurrent, h]⟩
  · have hl : (zeroVS keep b).e.isLossy = false := by
      unfold selVS at h
      unfold zeroVS; rw [if_pos h]; exact Elem.norton_zero_not_lossy _
    exact ⟨hl, fun i => by simp [Elem.physCurrent, hl]⟩
  · have hl : (zeroCS keep b).e.isLossy = false := by
      unfold selCS at h
      unfold zeroCS; rw [if_pos h]; exact Elem.thevenin_zero_not_lossy _
    exact ⟨hl, fun i => by simp [Elem.physCurrent, hl]⟩

/-! ### network level: the returned network and the zeroed skeleton have the same solutions -/

/-- **C04 / C16 (`short_circuitify_voltage_sources` against the skeleton).**  For every network and exemption
list: a report (potentials, branch voltages, reported branch currents) solves the circuit equations of the
returned network iff it solves those of the input's skeleton with the value of every non-exempt voltage
source set to 0 (`zeroWhere (selVS keep)`: record class, immittance, identifier, terminals, order kept).  One
and the same report: potentials, voltages AND reported currents coincide, because neither record of a zeroed
source is a linear source (`C04_zeroed_not_lossy`).  Not covered: that the Python function is the model
(`C16_gen_shortCircuitifyVS` + structural correspondence). -/
theorem C04_zero_voltage_solutions (N N' : Net L K) (keep : List (ElemKey K))
    (hr : shortCircuitifyVS N keep = .ok N') (R : Report L K) :
    CircuitEqs N' R ↔ CircuitEqs ⟨N.branches.map (zeroWhere (selVS keep)), N.zero⟩ R := by
  obtain ⟨hz, hb⟩ := C16_zero_voltage_branches N N' keep hr
  rw [← circuitEqsAll_iff, ← circuitEqsAll_iff, hz, hb]
  simp only
  exact circuitEqsAll_map_elecEq N.branches _ _ (fun b _ => C04_zeroed_branch_voltage keep b) N.zero R

/-- **C04 / C16 (`open_circuitify_current_sources` against the skeleton).**  As `C04_zero_voltage_solutions`,
for the non-exempt current sources (`is_current_source`: `|I| > 0`, which includes a linear voltage source
with `I = V/Z`, whose record becomes a Thevenin admittance `1/Z`). -/
theorem C04_zero_current_solutions (N N' : Net L K) (keep : List (ElemKey K))
    (hr : openCircuitifyCS N keep = .ok N') (R : Report L K) :
    CircuitEqs N' R ↔ CircuitEqs ⟨N.branches.map (zeroWhere (selCS keep)), N.zero⟩ R := by
  obtain ⟨hz, hb⟩ := C16_zero_current_branches N N' keep hr
  rw [← circuitEqsAll_iff, ← circuitEqsAll_iff, hz, hb]
  simp only
  exact circuitEqsAll_map_elecEq N.branches _ _ (fun b _ => C04_zeroed_branch_current keep b) N.zero R

/-- how the C04 oracle (and a user doing superposition by hand) deactivates every source except the ones in
`keep`: `open_circuitify_current_sources(short_circuitify_voltage_sources(N, keep), keep)` -/
def deactivateOthers (N : Net L K) (keep : List (ElemKey K)) : Except Err (Net L K) := do
  openCircuitifyCS (← shortCircuitifyVS N keep) keep

/-- what `deactivateOthers` returns: every branch in place, mapped by the two zeroing maps -/
theorem deactivateOthers_branches (N N' : Net L K) (keep : List (ElemKey K))
    (hr : deactivateOthers N keep = .ok N') :
    N'.zero = N.zero ∧ N'.branches = N.branches.map fun b => zeroCS keep (zeroVS keep b) := by
  obtain ⟨N1, h1, h2⟩ := C16_bind_ok (show (shortCircuitifyVS N keep >>= fun M => openCircuitifyCS M keep) = .ok N' from hr)
  obtain ⟨z1, b1⟩ := C16_zero_voltage_branches N N1 keep h1
  obtain ⟨z2, b2⟩ := C16_zero_current_branches N1 N' keep h2
  refine ⟨by rw [z2, z1], ?_⟩
  rw [b2, b1, List.map_map]; rfl

/-- **C04 (the library's zeroing against the skeleton — the composed link).**  For every network and
exemption list: the network returned by the two zeroing operations applied in sequence has exactly the
solutions (potentials, voltages and reported currents — the same report) of the input's skeleton with the
value of every non-exempt active source set to 0.  With `C04_zeroing_is_withSrc` that skeleton is
`withSrc N.branches (srcWhere N.branches (selSrc keep))`, the vocabulary of `C04_linear` / `C04_superpose`. -/
theorem C04_deactivate_solutions (N N' : Net L K) (keep : List (ElemKey K))
    (hr : deactivateOthers N keep = .ok N') (R : Report L K) :
    CircuitEqs N' R ↔ CircuitEqs ⟨N.branches.map (zeroWhere (selSrc keep)), N.zero⟩ R := by
  obtain ⟨hz, hb⟩ := deactivateOthers_branches N N' keep hr
  rw [← circuitEqsAll_iff, ← circuitEqsAll_iff, hz, hb]
  simp only
  exact circuitEqsAll_map_elecEq N.branches _ _ (fun b _ => (C04_zeroed_branch_both keep b).1) N.zero R

/-- the same in `withSrc` form, for distinct identifiers -/
theorem C04_deactivate_solutions_withSrc (N N' : Net L K) (keep : List (ElemKey K)) (hids : N.ids.Nodup)
    (hr : deactivateOthers N keep = .ok N') (R : Report L K) :
    CircuitEqs N' R ↔ CircuitEqsAll (withSrc N.branches (srcWhere N.branches (selSrc keep))) N.zero R := by
  rw [C04_deactivate_solutions N N' keep hr R, ← circuitEqsAll_iff]
  simp only
  rw [C04_zeroing_is_withSrc N.branches hids]

/-! ### superposition over the library's own zeroing -/

theorem withSrc_self (bs : List (Branch L K)) (s : String → K) (h : ∀ b ∈ bs, s b.id = b.e.src) :
    withSrc bs s = bs := by
  unfold withSrc
  conv_rhs => rw [← List.map_id bs]
  apply List.map_congr_left
  intro b hb
  rw [h b hb, Elem.setSrc_src]; rfl

/-- **C04 (superposition over the library's own zeroing operations).**  Let `N` have distinct identifiers and
be well-posed, and let two exemption lists split its active sources: every active source is exempted by
exactly one of `keepA`, `keepB` (passive elements may be listed or not).  `NA` / `NB` are what the library
returns when it deactivates everything but `keepA` / `keepB` (`short_circuitify_voltage_sources` then
`open_circuitify_current_sources`, record classes changed as the code changes them).  Then for ANY solutions
`R`, `RA`, `RB` of the three circuits:
* the potential of every node label and the voltage of every branch of `N` are the sums of those of the parts;
* the reported current of every branch of `N` that is not a linear (lossy) source is the sum;
* for a linear (lossy) source the reported current is the DIFFERENCE: `i = i_A − i_B` if the source belongs to
  group `A`, `i = i_B − i_A` if it belongs to `B` — the zeroed record reports its current first→second,
  the active one in generator direction (`C04_zeroed_not_lossy`).  This is the open finding C04 as an exact
  relation; the plain sum holds for such a branch iff the current through the zeroed source vanishes.
Not covered: floating point, ill-posed networks, more than two groups (iterate), the link model ↔ Python
(`C16_gen_*` + structural correspondence). -/
theorem C04_zeroing_superpose (N NA NB : Net L K) (keepA keepB : List (ElemKey K))
    (hids : N.ids.Nodup) (hw : WellPosed N)
    (hA : deactivateOthers N keepA = .ok NA) (hB : deactivateOthers N keepB = .ok NB)
    (hpart : ∀ b ∈ N.branches, b.e.isActive = true → keepA.contains b.key = !(keepB.contains b.key))
    (R RA RB : Report L K) (hR : CircuitEqs N R) (hRA : CircuitEqs NA RA) (hRB : CircuitEqs NB RB) :
    (∀ n ∈ N.allLabels, R.pot n = RA.pot n + RB.pot n) ∧
    (∀ b ∈ N.branches, R.v b.id = RA.v b.id + RB.v b.id) ∧
    (∀ b ∈ N.branches, b.e.isLossy = false → R.i b.id = RA.i b.id + RB.i b.id) ∧
    (∀ b ∈ N.branches, b.e.isLossy = true → keepA.contains b.key = true → R.i b.id = RA.i b.id - RB.i b.id) ∧
    (∀ b ∈ N.branches, b.e.isLossy = true → keepB.contains b.key = true → R.i b.id = RB.i b.id - RA.i b.id) := by
  have hids' : (N.branches.map (·.id)).Nodup := hids
  have eA := (C04_deactivate_solutions_withSrc N NA keepA hids hA RA).mp hRA
  have eB := (C04_deactivate_solutions_withSrc N NB keepB hids hB RB).mp hRB
  obtain ⟨S, hS, hp, hv, hi⟩ := C04_linear N.branches N.zero hids' 1 1 _ _ RA RB eA eB
  simp only [one_mul] at hS hp hv hi
  -- the two partial assignments add up to the network's own source values
  have hsum : ∀ b ∈ N.branches, srcWhere N.branches (selSrc keepA) b.id
      + srcWhere N.branches (selSrc keepB) b.id = b.e.src := by
    intro b hb
    simp only [srcWhere, findId_of_mem hids' hb, selSrc]
    by_cases ha : b.e.isActive = true
    · have := hpart b hb ha
      by_cases hkB : keepB.contains b.key = true
      · have hkA : keepA.contains b.key = false := by rw [this, hkB]; rfl
        simp only [hkA, hkB, ha]; simp
      · have hkB' : keepB.contains b.key = false := by simpa using hkB
        have hkA : keepA.contains b.key = true := by rw [this, hkB']; rfl
        simp only [hkA, hkB', ha]; simp
    · have ha' : b.e.isActive = false := by simpa using ha
      simp [ha', Elem.src_of_inactive b.e ha']
  have hself : (withSrc N.branches fun id => srcWhere N.branches (selSrc keepA) id
      + srcWhere N.branches (selSrc keepB) id) = N.branches := withSrc_self _ _ hsum
  rw [hself] at hS
  have hS' : CircuitEqs N S := (circuitEqsAll_iff N S).mp hS
  obtain ⟨ap, ab⟩ := C01_unique N hids hw R S hR hS'
  -- the source value a part gives to a branch
  have hkept : ∀ (keep : List (ElemKey K)) (b : Branch L K), b ∈ N.branches → keep.contains b.key = true →
      b.e.setSrc (srcWhere N.branches (selSrc keep) b.id) = b.e := by
    intro keep b hb hk
    simp only [srcWhere, findId_of_mem hids' hb, selSrc, hk]
    simp [Elem.setSrc_src]
  have hnot : ∀ (keep : List (ElemKey K)) (b : Branch L K), b ∈ N.branches → b.e.isActive = true →
      keep.contains b.key = false → b.e.setSrc (srcWhere N.branches (selSrc keep) b.id) = b.e.setSrc 0 := by
    intro keep b hb ha hk
    simp only [srcWhere, findId_of_mem hids' hb, selSrc, hk, ha]
    simp
  have hnl : ∀ (keep : List (ElemKey K)) (b : Branch L K), b ∈ N.branches → b.e.isLossy = false →
      (b.e.setSrc (srcWhere N.branches (selSrc keep) b.id)).isLossy = false := by
    intro keep b hb hl
    simp only [srcWhere, findId_of_mem hids' hb]
    by_cases hs : selSrc keep b = true
    · simp only [hs, if_true]; exact Elem.setSrc_zero_not_lossy _
    · simp only [hs, Bool.false_eq_true, if_false, Elem.setSrc_src]; exact hl
  refine ⟨fun n hn => by rw [ap n hn, hp], fun b hb => by rw [(ab b hb).1, hv], ?_, ?_, ?_⟩
  · intro b hb hl
    have h := hi b hb
    rw [hsum b hb, Elem.setSrc_src] at h
    simp only [Elem.physCurrent, hl, hnl keepA b hb hl, hnl keepB b hb hl, Bool.false_eq_true, if_false] at h
    rw [(ab b hb).2, h]
  · intro b hb hl hk
    have ha := Elem.active_of_lossy b.e hl
    have hkB : keepB.contains b.key = false := by
      have := hpart b hb ha; rw [hk] at this; simpa using this.symm
    have h := hi b hb
    rw [hsum b hb, Elem.setSrc_src, hkept keepA b hb hk, hnot keepB b hb ha hkB] at h
    simp only [Elem.physCurrent, hl, Elem.setSrc_zero_not_lossy, Bool.false_eq_true, if_false, if_true] at h
    rw [(ab b hb).2]; linear_combination -h
  · intro b hb hl hk
    have ha := Elem.active_of_lossy b.e hl
    have hkA : keepA.contains b.key = false := by
      have := hpart b hb ha; rw [hk] at this; simpa using this
    have h := hi b hb
    rw [hsum b hb, Elem.setSrc_src, hkept keepB b hb hk, hnot keepA b hb ha hkA] at h
    simp only [Elem.physCurrent, hl, Elem.setSrc_zero_not_lossy, Bool.false_eq_true, if_false, if_true] at h
    rw [(ab b hb).2]; linear_combination -h

/-- validity (distinct identifiers, reference label present, no self-loop) is inherited by the deactivated
network: terminals and identifiers are untouched -/
theorem deactivateOthers_wf (N N' : Net L K) (keep : List (ElemKey K))
    (hr : deactivateOthers N keep = .ok N') (wf : N.WF) : N'.WF := by
  obtain ⟨hz, hb⟩ := deactivateOthers_branches N N' keep hr
  have hn : ∀ b : Branch L K, (zeroCS keep (zeroVS keep b)).n1 = b.n1 ∧ (zeroCS keep (zeroVS keep b)).n2 = b.n2
      ∧ (zeroCS keep (zeroVS keep b)).id = b.id := fun b =>
    ⟨(zeroCS_nodes keep _).1.trans (zeroVS_nodes keep b).1, (zeroCS_nodes keep _).2.1.trans (zeroVS_nodes keep b).2.1,
      (zeroCS_nodes keep _).2.2.trans (zeroVS_nodes keep b).2.2⟩
  have e1 : N'.branches.map (·.n1) = N.branches.map (·.n1) := by
    rw [hb, List.map_map]; apply List.map_congr_left; intro b _; exact (hn b).1
  have e2 : N'.branches.map (·.n2) = N.branches.map (·.n2) := by
    rw [hb, List.map_map]; apply List.map_congr_left; intro b _; exact (hn b).2.1
  have e3 : N'.branches.map (·.id) = N.branches.map (·.id) := by
    rw [hb, List.map_map]; apply List.map_congr_left; intro b _; exact (hn b).2.2
  have e4 : N'.branches.isEmpty = N.branches.isEmpty := by rw [hb]; simp
  refine ⟨?_, ?_, ?_⟩
  · show (N'.branches.map (·.id)).Nodup
    rw [e3]; exact wf.ids_nodup
  · have : N'.nodeLabels = N.nodeLabels := by
      unfold Net.nodeLabels; rw [e1, e2, e4, hz]
    rw [this, hz]; exact wf.zero_mem
  · intro c hc
    rw [hb] at hc
    obtain ⟨b, hb', rfl⟩ := List.mem_map.mp hc
    rw [(hn b).1, (hn b).2.1]; exact wf.no_self_loop b hb'

/-- **C04 (superposition over the library's zeroing, reported values).**  `N` valid and well-posed, the
active sources split by `keepA` / `keepB`, `NA` / `NB` returned by the library's zeroing operations.  Whatever
vectors `x`, `xA`, `xB` satisfy the three matrix equations the code builds: the potentials and voltages the
accessors report for `N` are the sums of those reported for `NA` and `NB`; so are the reported currents of
all branches that are not linear (lossy) sources; the reported current of a linear source of group `A` is
`i_A − i_B` (group `B`: `i_B − i_A`).  Exact arithmetic; nothing is assumed about `NA`, `NB` beyond the matrix
equations (their validity follows, `deactivateOthers_wf`). -/
theorem C04_reported_zeroing_superpose (N NA NB : Net L K) (keepA keepB : List (ElemKey K))
    (wf : N.WF) (hw : WellPosed N)
    (hA : deactivateOthers N keepA = .ok NA) (hB : deactivateOthers N keepB = .ok NB)
    (hpart : ∀ b ∈ N.branches, b.e.isActive = true → keepA.contains b.key = !(keepB.contains b.key))
    (x xA xB : List K)
    (hx : x.length = N.nodes.length + N.vsIds.length)
    (hxA : xA.length = NA.nodes.length + NA.vsIds.length)
    (hxB : xB.length = NB.nodes.length + NB.vsIds.length)
    (h : matVec N.mnaA x = N.mnaB) (hmA : matVec NA.mnaA xA = NA.mnaB) (hmB : matVec NB.mnaA xB = NB.mnaB) :
    let R := N.reportOf x
    let RA := NA.reportOf xA
    let RB := NB.reportOf xB
    (∀ n ∈ N.allLabels, R.pot n = RA.pot n + RB.pot n) ∧
    (∀ b ∈ N.branches, R.v b.id = RA.v b.id + RB.v b.id) ∧
    (∀ b ∈ N.branches, b.e.isLossy = false → R.i b.id = RA.i b.id + RB.i b.id) ∧
    (∀ b ∈ N.branches, b.e.isLossy = true → keepA.contains b.key = true → R.i b.id = RA.i b.id - RB.i b.id) ∧
    (∀ b ∈ N.branches, b.e.isLossy = true → keepB.contains b.key = true → R.i b.id = RB.i b.id - RA.i b.id) :=
  C04_zeroing_superpose N NA NB keepA keepB wf.ids_nodup hw hA hB hpart _ _ _
    (C01_sound N x wf hx h).2.2
    (C01_sound NA xA (deactivateOthers_wf N NA keepA hA wf) hxA hmA).2.2
    (C01_sound NB xB (deactivateOthers_wf N NB keepB hB wf) hxB hmB).2.2

/-! ### the zeroing operations never fail on a valid network; non-vacuity; the finding's input -/

theorem mk?_map_ok (N : Net L K) (f : Branch L K → Branch L K)
    (hf : ∀ b, (f b).n1 = b.n1 ∧ (f b).n2 = b.n2 ∧ (f b).id = b.id)
    (hz : ∃ b ∈ N.branches, b.n1 = N.zero ∨ b.n2 = N.zero) (hids : N.ids.Nodup) :
    Net.mk? (N.branches.map f) N.zero = .ok ⟨N.branches.map f, N.zero⟩ := by
  rw [mk?_eq_ok_iff]
  refine ⟨rfl, ?_, ?_⟩
  · rw [mem_nodeLabels]; right
    obtain ⟨b, hb, h⟩ := hz
    refine ⟨f b, List.mem_map.mpr ⟨b, hb, rfl⟩, ?_⟩
    rw [(hf b).1, (hf b).2.1]; exact h
  · have : (N.branches.map f).map (·.id) = N.branches.map (·.id) := by
      rw [List.map_map]; apply List.map_congr_left; intro b _; exact (hf b).2.2
    rw [this]; exact hids

/-- on a network with distinct identifiers whose reference label is a terminal of some branch, deactivating
never raises, and returns every branch in place -/
theorem deactivateOthers_ok (N : Net L K) (keep : List (ElemKey K))
    (hz : ∃ b ∈ N.branches, b.n1 = N.zero ∨ b.n2 = N.zero) (hids : N.ids.Nodup) :
    deactivateOthers N keep = .ok ⟨N.branches.map fun b => zeroCS keep (zeroVS keep b), N.zero⟩ := by
  have h1 : shortCircuitifyVS N keep = .ok ⟨N.branches.map (zeroVS keep), N.zero⟩ :=
    mk?_map_ok N (zeroVS keep) (zeroVS_nodes keep) hz hids
  have h2 : openCircuitifyCS (⟨N.branches.map (zeroVS keep), N.zero⟩ : Net L K) keep
      = .ok ⟨(N.branches.map (zeroVS keep)).map (zeroCS keep), N.zero⟩ := by
    refine mk?_map_ok (⟨N.branches.map (zeroVS keep), N.zero⟩ : Net L K) (zeroCS keep) (zeroCS_nodes keep) ?_ ?_
    · obtain ⟨b, hb, h⟩ := hz
      refine ⟨zeroVS keep b, List.mem_map.mpr ⟨b, hb, rfl⟩, ?_⟩
      rw [(zeroVS_nodes keep b).1, (zeroVS_nodes keep b).2.1]; exact h
    · have : (N.branches.map (zeroVS keep)).map (·.id) = N.branches.map (·.id) := by
        rw [List.map_map]; apply List.map_congr_left; intro b _; exact (zeroVS_nodes keep b).2.2
      show ((N.branches.map (zeroVS keep)).map (·.id)).Nodup
      rw [this]; exact hids
  unfold deactivateOthers
  rw [h1]
  show openCircuitifyCS _ keep = _
  rw [h2, List.map_map]; rfl

/-- the finding's input: `Vq = 8 V` with 2 Ω in parallel with `Iq = 1 A` with 1/2 S -/
def lossyN : Net String ℚ :=
  ⟨[⟨"1", "0", "Vq", "", .norton 2 8⟩, ⟨"1", "0", "Iq", "", .thevenin (1/2) 1⟩], "0"⟩
def lossyKeepA : List (ElemKey ℚ) := [⟨"Vq", "", .norton 2 8⟩]
def lossyKeepB : List (ElemKey ℚ) := [⟨"Iq", "", .thevenin (1/2) 1⟩]
/-- `Iq` deactivated: it is a voltage source for `is_voltage_source` (`V = I/Y = 2`), so it becomes
`impedance("Iq", 2)`, a Norton record -/
def lossyNA : Net String ℚ :=
  ⟨[⟨"1", "0", "Vq", "", .norton 2 8⟩, ⟨"1", "0", "Iq", "impedance", .norton 2 0⟩], "0"⟩
/-- `Vq` deactivated into `impedance("Vq", 2)` -/
def lossyNB : Net String ℚ :=
  ⟨[⟨"1", "0", "Vq", "impedance", .norton 2 0⟩, ⟨"1", "0", "Iq", "", .thevenin (1/2) 1⟩], "0"⟩

theorem lossyN_A : deactivateOthers lossyN lossyKeepA = .ok lossyNA := by
  rw [deactivateOthers_ok lossyN lossyKeepA ⟨⟨"1", "0", "Vq", "", .norton 2 8⟩, by simp [lossyN], Or.inr rfl⟩
    (by simp [Net.ids, lossyN])]
  simp [lossyN, lossyNA, lossyKeepA, zeroCS, zeroVS, Branch.key, zeroInVoltage, zeroInCurrent,
    Elem.isVSrc, Elem.Vval, Elem.isCS, Elem.Ival, Elem.Zfin, Elem.Yfin]

theorem lossyN_B : deactivateOthers lossyN lossyKeepB = .ok lossyNB := by
  rw [deactivateOthers_ok lossyN lossyKeepB ⟨⟨"1", "0", "Vq", "", .norton 2 8⟩, by simp [lossyN], Or.inr rfl⟩
    (by simp [Net.ids, lossyN])]
  simp [lossyN, lossyNB, lossyKeepB, zeroCS, zeroVS, Branch.key, zeroInVoltage, zeroInCurrent,
    Elem.isVSrc, Elem.Vval, Elem.isCS, Elem.Ival, Elem.Zfin, Elem.Yfin]

theorem lossyN_eq : lossyN = ⟨withSrc lossySkeleton fun id => lossyS1 id + lossyS2 id, "0"⟩ := by
  rw [lossy_net]; rfl

theorem lossyN_zeroA : lossyN.branches.map (zeroWhere (selSrc lossyKeepA)) = withSrc lossySkeleton lossyS1 := by
  rw [lossy_net1]
  simp [lossyN, lossyKeepA, zeroWhere, selSrc, Branch.key, Elem.isActive, Elem.isVSrc, Elem.Vval, Elem.isCS,
    Elem.Ival, Elem.setSrc]

theorem lossyN_zeroB : lossyN.branches.map (zeroWhere (selSrc lossyKeepB)) = withSrc lossySkeleton lossyS2 := by
  rw [lossy_net2]
  simp [lossyN, lossyKeepB, zeroWhere, selSrc, Branch.key, Elem.isActive, Elem.isVSrc, Elem.Vval, Elem.isCS,
    Elem.Ival, Elem.setSrc]

theorem lossyN_solves : CircuitEqs lossyN lossyR ∧ CircuitEqs lossyNA lossyR1 ∧ CircuitEqs lossyNB lossyR2 := by
  refine ⟨?_, ?_, ?_⟩
  · rw [lossyN_eq]; exact (circuitEqsAll_iff _ _).mp lossyR_solves
  · rw [C04_deactivate_solutions lossyN lossyNA lossyKeepA lossyN_A, ← circuitEqsAll_iff]
    simp only; rw [lossyN_zeroA]; exact lossyR1_solves
  · rw [C04_deactivate_solutions lossyN lossyNB lossyKeepB lossyN_B, ← circuitEqsAll_iff]
    simp only; rw [lossyN_zeroB]; exact lossyR2_solves

theorem lossyN_partition : ∀ b ∈ lossyN.branches, b.e.isActive = true →
    lossyKeepA.contains b.key = !(lossyKeepB.contains b.key) := by
  intro b hb _
  simp only [lossyN, List.mem_cons, List.mem_nil_iff, or_false] at hb
  rcases hb with rfl | rfl <;> simp [lossyKeepA, lossyKeepB, Branch.key]

/-- **C04 (the finding, over the library's own zeroing).**  The input of the open finding meets every
hypothesis of `C04_zeroing_superpose` (distinct identifiers, well-posed, the two exemption lists split the
sources, the library returns `lossyNA` / `lossyNB`, all three circuits are solved) — so the theorem is not
vacuous — and on it the reported current of the lossy source `Vq` is NOT the sum of the parts
(−3/2 ≠ −2 + −1/2); it is the difference `i_A − i_B = −2 − (−1/2)`, as `C04_zeroing_superpose` says. -/
theorem C04_zeroing_lossy_sum_fails :
    lossyN.ids.Nodup ∧ WellPosed lossyN ∧
    deactivateOthers lossyN lossyKeepA = .ok lossyNA ∧ deactivateOthers lossyN lossyKeepB = .ok lossyNB ∧
    (∀ b ∈ lossyN.branches, b.e.isActive = true → lossyKeepA.contains b.key = !(lossyKeepB.contains b.key)) ∧
    CircuitEqs lossyN lossyR ∧ CircuitEqs lossyNA lossyR1 ∧ CircuitEqs lossyNB lossyR2 ∧
    lossyR.i "Vq" ≠ lossyR1.i "Vq" + lossyR2.i "Vq" ∧
    lossyR.i "Vq" = lossyR1.i "Vq" - lossyR2.i "Vq" := by
  refine ⟨by simp [Net.ids, lossyN], ?_, lossyN_A, lossyN_B, lossyN_partition, lossyN_solves.1,
    lossyN_solves.2.1, lossyN_solves.2.2, ?_, ?_⟩
  · rw [lossyN_eq]; exact lossy_wellPosed _
  · simp [lossyR, lossyR1, lossyR2]; norm_num
  · simp [lossyR, lossyR1, lossyR2]; norm_num

/-- the conclusion of `C04_zeroing_superpose` on the finding's input, obtained FROM the theorem -/
example : lossyR.i "Vq" = lossyR1.i "Vq" - lossyR2.i "Vq" :=
  (C04_zeroing_superpose lossyN lossyNA lossyNB lossyKeepA lossyKeepB C04_zeroing_lossy_sum_fails.1
    C04_zeroing_lossy_sum_fails.2.1 lossyN_A lossyN_B lossyN_partition lossyR lossyR1 lossyR2
    lossyN_solves.1 lossyN_solves.2.1 lossyN_solves.2.2).2.2.2.1
    ⟨"1", "0", "Vq", "", .norton 2 8⟩ (by simp [lossyN]) (by simp [Elem.isLossy, Elem.kind])
    (by simp [lossyKeepA, Branch.key])

/-- non-vacuity of `C04_zero_voltage_solutions` / `C04_zero_current_solutions`: the operations succeed -/
example : ∃ N', shortCircuitifyVS lossyN lossyKeepA = .ok N' :=
  ⟨_, mk?_map_ok lossyN (zeroVS lossyKeepA) (zeroVS_nodes lossyKeepA)
    ⟨⟨"1", "0", "Vq", "", .norton 2 8⟩, by simp [lossyN], Or.inr rfl⟩ (by simp [Net.ids, lossyN])⟩
example : ∃ N', openCircuitifyCS lossyN lossyKeepA = .ok N' :=
  ⟨_, mk?_map_ok lossyN (zeroCS lossyKeepA) (zeroCS_nodes lossyKeepA)
    ⟨⟨"1", "0", "Vq", "", .norton 2 8⟩, by simp [lossyN], Or.inr rfl⟩ (by simp [Net.ids, lossyN])⟩

/-- the validity hypothesis of `C04_reported_zeroing_superpose` on the finding's input -/
example : lossyN.WF := by rw [lossyN_eq]; exact lossy_wf _

end CC
