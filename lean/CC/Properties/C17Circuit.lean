/-
  C17 (circuit loader) — "every kind of the circuit table loads to exactly the given id, nodes and
  value", proved on the loader model of CC/Model/Load.lean *through* the dictionary → constructor-call
  step (`generateComponent`: which keys are read, how the value block is bound to the constructor's
  keywords, guards, `.real` / `.imag`), for EVERY kind of the generated table
  `circuitComponentTranslators` and EVERY entry dictionary — any key order, any further keys.

  Model:   CC/Model/Load.lean (`generateComponent`, `callCompFactory`), tables CC/Gen/LoadTables.lean
  Helpers: CC/Proofs/LoadCircuit.lean

  What is proved
  * `C17_circuit_fields`: `generate_component` is a function of the four fields `id`, `value`, `type`,
    `nodes` of the entry (so every other key of the entry is **ignored**, `C17_circuit_entry_keys_ignored`);
  * `C17_circuit_missing_key`, `C17_circuit_unknown_kind`, `C17_circuit_bad_value_block`: the typed errors
    (an extra / misspelt key *inside the value block* is **rejected** with
    `IncorrectComponentInformation`, never dropped);
  * `C17_circuit_table_wellformed` (generated obligation, `decide`) and `C17_circuit_faithful`: for every
    kind of the table and every accepted value block the component has exactly the given id, the given
    nodes object (order untouched), type = the kind, exactly the keys the constructor writes, and every
    field is the written value (a plain parameter as written; an unwritten optional parameter as its
    literal default; `P.real` / `P.imag` of a complex parameter; the literals);
  * `C17_circuit_ctor_tables_agree` + `C17_circuit_constructor_half`: the constructor descriptions the Load
    group extracts (`componentFactories`) and the ones the Circuit group extracts (`Gen.ctorSpecs`, on which
    `CC.C19_stored_unaltered` and `CC.C07_reads_written` are stated) agree for every kind of the table, and
    the translator of a loaded kind reads only keys the loaded component carries.

  What is NOT proved here: that the Python functions compute what the model computes (correspondence,
  harness/props/c17.py); `Circuit.__post_init__` on the list of components (`mkCircuit`; C19).
-/
import CC.Proofs.LoadCircuit
import CC.Properties.C17
import CC.Properties.C19
set_option linter.unusedSimpArgs false
namespace CC
open CC.Load CC.Gen.Load CC.Spec.Load

/-! ## the entry dictionary → the four fields -/

/-- **Every entry dictionary.**  `generate_component` reads exactly the keys `id`, `value`, `type`,
`nodes` (in this order; the first missing one decides the error) and its result is `Load.fromFields` of
what it finds there — table lookup, constructor call, `TypeError ↦ IncorrectComponentInformation`.
The caller's dictionary is returned unchanged. -/
theorem C17_circuit_fields (o : Obj) :
    Load.generateComponent (.obj o)
      = (Load.fromFields (Obj.find o "id") (Obj.find o "value") (Obj.find o "type") (Obj.find o "nodes"), .obj o) := by
  have h1 := Load.generateComponentObj_fields o
  have h2 := (C17_circuit_pure (.obj o)).1
  rw [← h1, ← Load.generateComponent_obj]
  exact Prod.ext rfl h2

/-- Keys of the *entry* other than `id`, `value`, `type`, `nodes` are **ignored**: two entries that agree
on these four keys load equally (whatever else they contain, in whatever order). -/
theorem C17_circuit_entry_keys_ignored (o o' : Obj)
    (h : ∀ k ∈ ["id", "value", "type", "nodes"], Obj.find o k = Obj.find o' k) :
    (Load.generateComponent (.obj o)).1 = (Load.generateComponent (.obj o')).1 := by
  rw [C17_circuit_fields, C17_circuit_fields]
  simp only [h "id" (by simp), h "value" (by simp), h "type" (by simp), h "nodes" (by simp)]

/-- non-vacuity: a further key, in front -/
example : (Load.generateComponent (.obj [("comment", .str "x"), ("id", .str "R1"), ("type", .str "resistor"),
      ("nodes", .arr [.str "1", .str "0"]), ("value", .obj [("R", .num 5)])])).1
    = (Load.generateComponent (.obj [("type", .str "resistor"), ("value", .obj [("R", .num 5)]),
      ("nodes", .arr [.str "1", .str "0"]), ("id", .str "R1")])).1 :=
  C17_circuit_entry_keys_ignored _ _ (by decide)

/-- **Missing required key.**  No `id`: `UnidentifiedComponent`; an `id` but no `value`, no `type` or no
`nodes`: `IncorrectComponentInformation` — whatever else the entry contains. -/
theorem C17_circuit_missing_key (o : Obj) :
    (Obj.find o "id" = none → (Load.generateComponent (.obj o)).1 = .error (.other "UnidentifiedComponent")) ∧
    (Obj.find o "id" ≠ none →
      (Obj.find o "value" = none ∨ Obj.find o "type" = none ∨ Obj.find o "nodes" = none) →
      (Load.generateComponent (.obj o)).1 = .error (.other "IncorrectComponentInformation")) := by
  rw [C17_circuit_fields]
  constructor
  · intro h; simp only [h, Load.fromFields]
  · intro hid h
    cases h1 : Obj.find o "id" with
    | none => exact absurd h1 hid
    | some id =>
      cases h2 : Obj.find o "value" with
      | none => rfl
      | some v =>
        cases h3 : Obj.find o "type" with
        | none => rfl
        | some t =>
          cases h4 : Obj.find o "nodes" with
          | none => rfl
          | some n => simp [h2, h3, h4] at h

example : Obj.find [("type", J.str "resistor"), ("value", .obj [("R", .num 5)])] "id" = none := by decide

/-- **Unknown kind.**  All four keys present and a `type` string that is no key of the table:
`UnknownCircuitComponent` (the value block is not looked at); the same for a `type` that is a number,
a boolean or `None`; a list or a dictionary there is unhashable (`TypeError`). -/
theorem C17_circuit_unknown_kind (o : Obj) (id value ty nodes : J)
    (hid : Obj.find o "id" = some id) (hval : Obj.find o "value" = some value)
    (hty : Obj.find o "type" = some ty) (hnodes : Obj.find o "nodes" = some nodes) :
    (∀ kind, ty = .str kind → kind ∉ circuitComponentTranslators.map (·.1) →
      (Load.generateComponent (.obj o)).1 = .error (.other "UnknownCircuitComponent")) ∧
    ((ty = .null ∨ (∃ b, ty = .bool b) ∨ (∃ q, ty = .num q) ∨ (∃ z, ty = .cx z)) →
      (Load.generateComponent (.obj o)).1 = .error (.other "UnknownCircuitComponent")) ∧
    (((∃ l, ty = .arr l) ∨ (∃ kv, ty = .obj kv)) → (Load.generateComponent (.obj o)).1 = .error .typeError) := by
  rw [C17_circuit_fields]
  simp only [hid, hval, hty, hnodes, Load.fromFields]
  refine ⟨?_, ?_, ?_⟩
  · intro kind e hk; subst e; exact Load.dispatchC_unknown kind hk _ _ _
  · rintro (e | ⟨b, e⟩ | ⟨q, e⟩ | ⟨z, e⟩) <;> subst e <;> rfl
  · rintro (⟨l, e⟩ | ⟨kv, e⟩) <;> subst e <;> rfl

example : "capacitor" ∉ circuitComponentTranslators.map (·.1) := by decide

/-! ## the generated table -/

/-- Generated obligation: every kind of `circuit_component_translators` resolves to a constructor
description of that kind and that name, whose parameter names and value keys are distinct, whose value
fields and guards refer to its parameters, and which has no parameter `id` / `nodes`. -/
theorem C17_circuit_table_wellformed :
    (circuitComponentTranslators.all fun p =>
      (Load.factoryOf p.1).any fun f => f.kind == p.1 && f.name == p.2 && f.wellFormed) = true ∧
    (circuitComponentTranslators.map (·.1)).Nodup := by
  decide

theorem Load.factoryOf_table (p : String × String) (hp : p ∈ circuitComponentTranslators) :
    ∃ f, Load.factoryOf p.1 = some f ∧ f.kind = p.1 ∧ f.name = p.2 ∧ f.wellFormed = true := by
  have h := C17_circuit_table_wellformed.1
  rw [List.all_eq_true] at h
  have hp' := h p hp
  cases hf : Load.factoryOf p.1 with
  | none => simp [hf] at hp'
  | some f =>
    simp only [hf, Option.any_some, Bool.and_eq_true, beq_iff_eq] at hp'
    exact ⟨f, rfl, hp'.1.1, hp'.1.2, hp'.2⟩

/-! ## every kind loads to exactly what was written -/

/-- The dictionary → constructor-call step, for any kind the table knows and any entry dictionary with
the four keys whose value block the constructor accepts (`Load.accepts`, see `Load.accepts_of` for
readable sufficient conditions): the result is the component `Load.builtBy` describes, and the entry is
left as it was. -/
theorem C17_circuit_loads_given (kind : String) (f : CompFactory) (hf : Load.factoryOf kind = some f)
    (o : Obj) (id nodes : J) (vo : Obj)
    (hid : Obj.find o "id" = some id) (hval : Obj.find o "value" = some (.obj vo))
    (hty : Obj.find o "type" = some (.str kind)) (hnodes : Obj.find o "nodes" = some nodes)
    (hacc : Load.accepts f vo = true) :
    Load.generateComponent (.obj o) = (.ok (Load.builtBy f id nodes vo), .obj o) := by
  rw [C17_circuit_fields]
  simp only [hid, hval, hty, hnodes, Load.fromFields, Load.dispatchC_factory kind f hf,
    Load.callCompFactory_ok f id nodes vo hacc]

/-- **C17, circuit loader, faithful.**  For EVERY kind `p.1` of the generated circuit table there is the
constructor description `f` of that kind such that for EVERY entry dictionary `o` (any key order, any
further keys) with `id`, `nodes`, `type = p.1` and a value block `vo` that `f` accepts, the loaded
component has
* exactly the given `id` and the given `nodes` object (so the nodes in the given order), type `p.1`,
* exactly the keys the constructor writes, in its order,
* a plain field = the written value; = the literal default when an optional parameter is not written;
* `P.real` / `P.imag` fields = the real / imaginary part of a written complex number (a written real
  number `q` gives `q` and `0`); literal fields = the literal.
Says nothing about Python beyond the model (correspondence), nor about `Circuit(...)` on the list. -/
theorem C17_circuit_faithful (p : String × String) (hp : p ∈ circuitComponentTranslators) :
    ∃ f, Load.factoryOf p.1 = some f ∧ f.kind = p.1 ∧ f.name = p.2 ∧
    ∀ (o : Obj) (id nodes : J) (vo : Obj),
      Obj.find o "id" = some id → Obj.find o "value" = some (.obj vo) →
      Obj.find o "type" = some (.str p.1) → Obj.find o "nodes" = some nodes →
      Load.accepts f vo = true →
      ∃ c, (Load.generateComponent (.obj o)).1 = .ok c ∧
        c.id = id ∧ c.nodes = nodes ∧ c.ty = p.1 ∧
        c.value.map (·.1) = f.value.map (·.1) ∧
        (∀ k q v, (k, VSrc.param q) ∈ f.value → Obj.find vo q = some v → Obj.find c.value k = some v) ∧
        (∀ k q n, (k, VSrc.param q) ∈ f.value → (q, some n) ∈ f.params → Obj.find vo q = none →
          Obj.find c.value k = some (.num n)) ∧
        (∀ k n, (k, VSrc.const n) ∈ f.value → Obj.find c.value k = some (.num n)) ∧
        (∀ k q z, (k, VSrc.re q) ∈ f.value → Obj.find vo q = some (.cx z) → Obj.find c.value k = some (.num z.re)) ∧
        (∀ k q z, (k, VSrc.im q) ∈ f.value → Obj.find vo q = some (.cx z) → Obj.find c.value k = some (.num z.im)) ∧
        (∀ k q r, (k, VSrc.re q) ∈ f.value → Obj.find vo q = some (.num r) → Obj.find c.value k = some (.num r)) ∧
        (∀ k q r, (k, VSrc.im q) ∈ f.value → Obj.find vo q = some (.num r) → Obj.find c.value k = some (.num 0)) ∧
        (∀ k q n, ((k, VSrc.re q) ∈ f.value ∨ (k, VSrc.im q) ∈ f.value) → (q, some n) ∈ f.params →
          Obj.find vo q = none → Obj.find c.value k = some (.num (if (k, VSrc.re q) ∈ f.value then n else 0))) := by
  obtain ⟨f, hf, hk, hn, hwf⟩ := Load.factoryOf_table p hp
  refine ⟨f, hf, hk, hn, ?_⟩
  intro o id nodes vo hid hval hty hnodes hacc
  refine ⟨Load.builtBy f id nodes vo, ?_, rfl, rfl, hk, ?_, ?_, ?_, ?_, ?_, ?_, ?_, ?_, ?_⟩
  · rw [C17_circuit_loads_given p.1 f hf o id nodes vo hid hval hty hnodes hacc]
  · simp [Load.builtBy, List.map_map, Function.comp_def]
  · intro k q v hm hv
    rw [Load.builtBy_find f hwf id nodes vo k _ hm, VSrc.stored, Load.given_written f vo q v hv]
  · intro k q n hm hq hv
    rw [Load.builtBy_find f hwf id nodes vo k _ hm, VSrc.stored, Load.given_default f hwf vo q n hq hv]
  · intro k n hm
    rw [Load.builtBy_find f hwf id nodes vo k _ hm, VSrc.stored]
  · intro k q z hm hv
    rw [Load.builtBy_find f hwf id nodes vo k _ hm, VSrc.stored, Load.given_written f vo q _ hv, Load.reOf]
  · intro k q z hm hv
    rw [Load.builtBy_find f hwf id nodes vo k _ hm, VSrc.stored, Load.given_written f vo q _ hv, Load.imOf]
  · intro k q r hm hv
    rw [Load.builtBy_find f hwf id nodes vo k _ hm, VSrc.stored, Load.given_written f vo q _ hv, Load.reOf]
  · intro k q r hm hv
    rw [Load.builtBy_find f hwf id nodes vo k _ hm, VSrc.stored, Load.given_written f vo q _ hv, Load.imOf]
  · intro k q n hm hq hv
    by_cases hre : (k, VSrc.re q) ∈ f.value
    · rw [Load.builtBy_find f hwf id nodes vo k _ hre, VSrc.stored, Load.given_default f hwf vo q n hq hv, Load.reOf]
      simp [hre]
    · have him : (k, VSrc.im q) ∈ f.value := hm.resolve_left hre
      rw [Load.builtBy_find f hwf id nodes vo k _ him, VSrc.stored, Load.given_default f hwf vo q n hq hv, Load.imOf]
      simp [hre]

/-- non-vacuity of `C17_circuit_faithful`: an a.c. source written with its keys in another order, an
optional parameter left out, and a further key in the entry — accepted by the table's constructor -/
example : ∃ f, Load.factoryOf "ac_voltage_source" = some f ∧
    Load.accepts f [("w", .num 50), ("V", .num 1), ("phi", .num (1/2))] = true ∧
    Obj.find [("note", J.str "x"), ("nodes", .arr [.str "b", .str "a"]), ("type", .str "ac_voltage_source"),
      ("value", .obj [("w", .num 50), ("V", .num 1), ("phi", .num (1/2))]), ("id", .str "U")] "value"
      = some (.obj [("w", .num 50), ("V", .num 1), ("phi", .num (1/2))]) := by
  refine ⟨_, rfl, by decide, by simp [Obj.find]⟩

/-- … and a complex kind with a complex leaf (what `undictify_all_complex_values` leaves there) -/
example : ∃ f, Load.factoryOf "complex_current_source" = some f ∧
    Load.accepts f [("I", .cx ⟨1, 2⟩)] = true := ⟨_, rfl, by decide⟩

/-- **The value block is checked, not filtered.**  For a kind of the table (all four keys present): a
value that is no mapping, a key of the value block that is no keyword of the constructor (extra or
misspelt — **rejected**, not ignored), or a parameter without default that is not written — each ends
in `IncorrectComponentInformation`. -/
theorem C17_circuit_bad_value_block (kind : String) (f : CompFactory) (hf : Load.factoryOf kind = some f)
    (o : Obj) (id value nodes : J)
    (hid : Obj.find o "id" = some id) (hval : Obj.find o "value" = some value)
    (hty : Obj.find o "type" = some (.str kind)) (hnodes : Obj.find o "nodes" = some nodes) :
    ((∀ vo, value ≠ .obj vo) →
      (Load.generateComponent (.obj o)).1 = .error (.other "IncorrectComponentInformation")) ∧
    (∀ vo, value = .obj vo → Load.keysKnown f.params vo = false →
      (Load.generateComponent (.obj o)).1 = .error (.other "IncorrectComponentInformation")) ∧
    (∀ vo q, value = .obj vo → (q, none) ∈ f.params → Obj.find vo q = none →
      (Load.generateComponent (.obj o)).1 = .error (.other "IncorrectComponentInformation")) := by
  rw [C17_circuit_fields]
  simp only [hid, hval, hty, hnodes, Load.fromFields, Load.dispatchC_factory kind f hf]
  refine ⟨?_, ?_, ?_⟩
  · intro h; rw [Load.callCompFactory_not_mapping f id nodes value h]
  · intro vo e hk; subst e; rw [Load.callCompFactory_unknown_key f id nodes vo hk]
  · intro vo q e hq hv; subst e; rw [Load.callCompFactory_missing f id nodes vo q hq hv]

/-- non-vacuity: a misspelt key next to the right one; a resistor without `R` -/
example : ∃ f, Load.factoryOf "resistor" = some f ∧
    Load.keysKnown f.params [("R", .num 5), ("r", .num 7)] = false ∧ ("R", none) ∈ f.params :=
  ⟨_, rfl, by decide, by decide⟩

/-! ## the constructor half: the Circuit group's constructor model -/

def Load.VSrc.toVE : VSrc → VE
  | .param p => .param p
  | .re p => .re p
  | .im p => .im p
  | .const n => .lit n

/-- the Load group's description `f` and the Circuit group's description `s` of one constructor say the
same: kind, name, parameters with their literal defaults, guards (`P < bound ⇒ ValueError`), the value
dictionary; no wavetype lookup -/
def Load.agrees (f : CompFactory) (s : CtorSpec) : Bool :=
  f.kind == s.kind && f.name == s.fn &&
  (f.params.map fun p => (p.1, p.2.map fun n => Val.num n)) == (s.params.map fun p => (p.1, p.2.2)) &&
  (f.guards.map fun g => Guard.mk g.1 .lt g.2 "ValueError") == s.guards &&
  (f.value.map fun kv => (kv.1, Load.VSrc.toVE kv.2)) == s.values && s.waveChecks.isEmpty

/-- Generated obligation: the circuit table as the two extractors read it is the same table, and for
every kind the two constructor descriptions agree (`Load.agrees`). -/
theorem C17_circuit_ctor_tables_agree :
    Gen.componentTranslators = circuitComponentTranslators ∧
    (circuitComponentTranslators.all fun p =>
      (Load.factoryOf p.1).any fun f => (Gen.tables.ctor? p.2).any fun s =>
        Load.agrees f s && decide (s ∈ Gen.ctorSpecs)) = true := by
  decide

/-- **Composition with the constructor half.**  For every kind of the circuit table the constructor the
loader calls is described twice — `f` (Load group, the one `C17_circuit_faithful` is about) and `s`
(Circuit group) — and the descriptions agree.  On `s`: whatever `s.construct` builds stores the identifier
and the terminals it was called with, has the table's kind and writes exactly the keys the loaded
component carries (`CC.C19_stored_unaltered`); and the translator of that kind reads only these keys
(`CC.C07_reads_written`).  What this does NOT say: that the two hand-written interpreters
(`Load.callCompFactory`, `CtorSpec.construct`) compute equal results on equal arguments — they are tied
through the agreeing generated descriptions and through the correspondence runs, not by a simulation
theorem. -/
theorem C17_circuit_constructor_half (p : String × String) (hp : p ∈ circuitComponentTranslators) :
    ∃ f s, Load.factoryOf p.1 = some f ∧ Gen.tables.ctor? p.2 = some s ∧ s ∈ Gen.ctorSpecs ∧
      Load.agrees f s = true ∧
      (∀ id nodes args c, s.construct (some id) (some nodes) args = .ok c →
        c.id = id ∧ c.nodes = nodes ∧ c.kind = p.1 ∧ c.value.map (·.1) = f.value.map (·.1)) ∧
      readsWritten Gen.tables s = true := by
  have h := C17_circuit_ctor_tables_agree.2
  rw [List.all_eq_true] at h
  have hp' := h p hp
  obtain ⟨f0, hf0, hk0, _, _⟩ := Load.factoryOf_table p hp
  cases hf : Load.factoryOf p.1 with
  | none => simp [hf] at hp'
  | some f =>
    cases hs : Gen.tables.ctor? p.2 with
    | none => simp [hf, hs] at hp'
    | some s =>
      simp only [hf, hs, Option.any_some, Bool.and_eq_true, decide_eq_true_eq] at hp'
      obtain ⟨hag, hmem⟩ := hp'
      refine ⟨f, s, rfl, rfl, hmem, hag, ?_, C07_reads_written s hmem⟩
      have hfk : f.kind = p.1 := by
        rw [hf] at hf0; cases hf0; exact hk0
      have hag' := hag
      simp only [Load.agrees, Bool.and_eq_true, beq_iff_eq] at hag'
      obtain ⟨⟨⟨⟨⟨hkind, _⟩, _⟩, _⟩, hval⟩, _⟩ := hag'
      intro id nodes args c hc
      obtain ⟨h1, h2, h3, h4⟩ := C19_stored_unaltered.2 s id nodes args c hc
      refine ⟨h1, h2, by rw [h3, ← hkind, hfk], ?_⟩
      rw [h4, ← hval]
      simp [List.map_map, Function.comp_def]

/-- …hence the translator of a loaded kind finds every key it reads in the loaded component: the keys
of the component `C17_circuit_faithful` yields are `f.value.map (·.1)`, and every key of the translator
of that kind (`TSpec.allKeys`) is among them. -/
theorem C17_circuit_translator_reads_loaded (p : String × String) (hp : p ∈ circuitComponentTranslators)
    (f : CompFactory) (hf : Load.factoryOf p.1 = some f) (fn : String) (t : TSpec)
    (h1 : Gen.tables.transformers.lookup p.1 = some fn) (h2 : Gen.tables.tspec? fn = some t) :
    ∀ k ∈ t.allKeys, k ∈ f.value.map (·.1) := by
  obtain ⟨f', s, hf', _, hmem, hag, _, hrw⟩ := C17_circuit_constructor_half p hp
  rw [hf] at hf'; cases hf'
  obtain ⟨f0, hf0, hk0, _, _⟩ := Load.factoryOf_table p hp
  rw [hf] at hf0; cases hf0
  simp only [Load.agrees, Bool.and_eq_true, beq_iff_eq] at hag
  obtain ⟨⟨⟨⟨⟨hkind, _⟩, _⟩, _⟩, hval⟩, _⟩ := hag
  have hsk : s.kind = p.1 := by rw [← hkind, hk0]
  simp only [readsWritten, hsk, h1, h2, List.all_eq_true, List.contains_iff_mem] at hrw
  intro k hk
  have := hrw k hk
  rw [← hval] at this
  simpa [List.map_map, Function.comp_def] using this

/-- non-vacuity: the table's translator of an a.c. source exists and reads keys -/
example : ∃ fn t, Gen.tables.transformers.lookup "ac_voltage_source" = some fn ∧
    Gen.tables.tspec? fn = some t ∧ t.allKeys ≠ [] := by
  refine ⟨_, _, rfl, rfl, by decide⟩

end CC
