/-
  C01 — non-singularity in determinant form.

  `C01_solvable` states non-singularity as "trivial kernel" of the square list-matrix the code builds.
  Here the same fact in the form a reader of `np.linalg.solve` expects: the determinant of that
  matrix (read as a Mathlib `Matrix`) is non-zero for every valid, well-posed network; hence the
  singular-matrix fallback branch of the solver is never taken in exact arithmetic, and the
  solution exists (`C01_exists`) and is unique (`C01_unique`).
    C01_det_ne_zero     det(A) ≠ 0
    C01_det_iff         for a valid network: det(A) ≠ 0 ↔ A has trivial kernel
    C01_exists          the matrix equation has a solution, and its report solves the circuit
-/
import CC.Proofs.PortExists
import CC.Proofs.Complete

set_option linter.unusedSectionVars false

namespace CC
variable {K : Type} [Field K] [DecidableEq K]

/-- a square list-matrix with trivial kernel is a unit (invertible) -/
theorem isUnit_of_trivial_kernel (n : Nat) (A : List (List K)) (hA : A.length = n)
    (hrow : ∀ r ∈ A, r.length = n)
    (hker : ∀ x : List K, x.length = n → matVec A x = List.replicate n 0 → x = List.replicate n 0) :
    IsUnit (toMatrix n A) := by
  have hinj : Function.Injective (toMatrix n A).mulVec := by
    intro v w hvw
    have hz : (toMatrix n A).mulVec (v - w) = 0 := by rw [Matrix.mulVec_sub, hvw, sub_self]
    have h1 : matVec A (List.ofFn (v - w)) = List.replicate n 0 := by
      rw [matVec_ofFn n A hA hrow, hz]
      apply List.ext_getElem <;> simp
    have h2 := hker _ (by simp) h1
    have : v - w = 0 := by
      funext j
      have := congrArg (fun l => l.getD j 0) h2
      simpa using this
    exact sub_eq_zero.mp this
  exact Matrix.mulVec_injective_iff_isUnit.mp hinj

/-- conversely a unit has trivial kernel -/
theorem trivial_kernel_of_isUnit (n : Nat) (A : List (List K)) (hA : A.length = n)
    (hrow : ∀ r ∈ A, r.length = n) (hu : IsUnit (toMatrix n A))
    (x : List K) (hx : x.length = n) (h : matVec A x = List.replicate n 0) : x = List.replicate n 0 := by
  have hinj := Matrix.mulVec_injective_iff_isUnit.mpr hu
  have hxo : x = List.ofFn (fun j : Fin n => x.getD j 0) := by
    apply List.ext_getElem
    · simp [hx]
    · intro i h1 h2
      simp [List.getD_eq_getElem?_getD, List.getElem?_eq_getElem h1]
  rw [hxo, matVec_ofFn n A hA hrow] at h
  have hz : (toMatrix n A).mulVec (fun j : Fin n => x.getD j 0) = (toMatrix n A).mulVec 0 := by
    rw [Matrix.mulVec_zero]
    funext j
    have := congrArg (fun l => l.getD j 0) h
    simpa using this
  have := hinj hz
  rw [hxo, this]
  apply List.ext_getElem <;> simp

variable {L : Type} [DecidableEq L] [LabelOrd L]

/-- **C01 (the solver's matrix is regular).**  For every valid, well-posed network the determinant
of the modified-nodal-analysis matrix is non-zero. -/
theorem C01_det_ne_zero (N : Net L K) (wf : N.WF) (hw : WellPosed N) :
    (toMatrix (N.nodes.length + N.vsIds.length) N.mnaA).det ≠ 0 := by
  set n := N.nodes.length + N.vsIds.length with hn
  have hsq := C01_square N
  have hlen : N.mnaA.length = n := by rw [hsq.1, vsSorted_length N wf.ids_nodup]
  have hrow : ∀ r ∈ N.mnaA, r.length = n := by
    intro r hr; rw [hsq.2 r hr, vsSorted_length N wf.ids_nodup]
  have hb : N.mnaB.length = n := by simp [Net.mnaB, vsSorted_length N wf.ids_nodup, hn]
  have hzero : (N.mnaB.map fun _ => (0 : K)) = List.replicate n 0 := by
    apply List.ext_getElem <;> simp [hb]
  have hker : ∀ x : List K, x.length = n → matVec N.mnaA x = List.replicate n 0 → x = List.replicate n 0 := by
    intro x hx h
    have := C01_solvable N wf hw x hx (by rw [hzero]; exact h)
    rw [hx] at this; exact this
  have hu := isUnit_of_trivial_kernel n N.mnaA hlen hrow hker
  exact ((Matrix.isUnit_iff_isUnit_det _).mp hu).ne_zero

/-- for a valid network: regular matrix ↔ trivial kernel (the form `C01_solvable` is stated in) -/
theorem C01_det_iff (N : Net L K) (wf : N.WF) :
    (toMatrix (N.nodes.length + N.vsIds.length) N.mnaA).det ≠ 0 ↔
      ∀ x : List K, x.length = N.nodes.length + N.vsIds.length →
        matVec N.mnaA x = List.replicate (N.nodes.length + N.vsIds.length) 0 →
        x = List.replicate (N.nodes.length + N.vsIds.length) 0 := by
  set n := N.nodes.length + N.vsIds.length with hn
  have hsq := C01_square N
  have hlen : N.mnaA.length = n := by rw [hsq.1, vsSorted_length N wf.ids_nodup]
  have hrow : ∀ r ∈ N.mnaA, r.length = n := by
    intro r hr; rw [hsq.2 r hr, vsSorted_length N wf.ids_nodup]
  constructor
  · intro hd x hx h
    have hu : IsUnit (toMatrix n N.mnaA) :=
      (Matrix.isUnit_iff_isUnit_det _).mpr (isUnit_iff_ne_zero.mpr hd)
    exact trivial_kernel_of_isUnit n N.mnaA hlen hrow hu x hx h
  · intro hker
    exact ((Matrix.isUnit_iff_isUnit_det _).mp (isUnit_of_trivial_kernel n N.mnaA hlen hrow hker)).ne_zero

/-- **C01 (existence).**  The matrix equation of a valid, well-posed network has a solution of the
right length, and the report read from it solves the circuit equations. -/
theorem C01_exists (N : Net L K) (wf : N.WF) (hw : WellPosed N) :
    ∃ x : List K, x.length = N.nodes.length + N.vsIds.length ∧ matVec N.mnaA x = N.mnaB ∧
      CircuitEqs N (N.reportOf x) := by
  set n := N.nodes.length + N.vsIds.length with hn
  have hsq := C01_square N
  have hlen : N.mnaA.length = n := by rw [hsq.1, vsSorted_length N wf.ids_nodup]
  have hrow : ∀ r ∈ N.mnaA, r.length = n := by
    intro r hr; rw [hsq.2 r hr, vsSorted_length N wf.ids_nodup]
  have hb : N.mnaB.length = n := by simp [Net.mnaB, vsSorted_length N wf.ids_nodup, hn]
  have hzero : (N.mnaB.map fun _ => (0 : K)) = List.replicate n 0 := by
    apply List.ext_getElem <;> simp [hb]
  have hker : ∀ x : List K, x.length = n → matVec N.mnaA x = List.replicate n 0 → x = List.replicate n 0 := by
    intro x hx h
    have := C01_solvable N wf hw x hx (by rw [hzero]; exact h)
    rw [hx] at this; exact this
  obtain ⟨x, hx, hsol⟩ := matVec_surjective_of_trivial_kernel n N.mnaA hlen hrow hker N.mnaB hb
  exact ⟨x, hx, hsol, (C01_sound N x wf hx hsol).2.2⟩

end CC
